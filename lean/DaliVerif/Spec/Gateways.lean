import DaliVerif.Model.Wire
/-!
# Gateway wire formats, written from the vendor descriptions

Independent of the models in `Model/Wire.lean` (only the types `Meaning` and
`Cmd` are shared): frame bytes are written with `/` and `%`, checksums as
explicit xor chains, packets as literal lists.  `none` = the gateway cannot
carry a frame of that width.

Status of each entry (DESIGN §5):
* **independent** (I know the format from the vendor text): Tridonic DALI USB
  64-byte report (direction 0x12, sequence, control 0x20 = send twice, mode
  3/6 = 16/24 bit, frame right-aligned in the four frame bytes, zero padding;
  response types 0x71..0x77, bus status 3 = framing error); LUBA
  (`'Y' cmd len payload xor`, command 0x32 "add DALI frame", bus selector, bit
  count, mode byte = priority 1..5 + 0x80 send twice, four data bytes
  left-aligned); SCI control byte (0x80 monitor enable, 0x40 identify, 0x20
  echo, 0x10 send twice, low nibble mode 2/3/8) and checksum; daliserver
  `02 00 addr cmd` and its status byte 0/1/255.
* ***pinned*** (transcribed from the driver, a regression baseline only): the
  choice of LUBA priority per command class; the **position of the data bytes
  in the SCI transmit frame** (the driver writes a 16-bit frame to HI, MI and
  leaves LO zero, while its own receiver reads a 16-bit frame from MI, LO —
  one of the two is probably wrong, see docs/C18.md); hid.hasseb two-byte
  writes and status codes; ATX hat letters; legacy hasseb 10-byte report; UniPi
  registers (transmit pair, and the receive triple counter/type/data with its
  free-running 16-bit counter — `UnipiRx`, `unipiPolls`, `unipiExchange`).
-/
namespace DaliVerif.Spec.Gateways
open DaliVerif Wire

def zeros (n : Nat) : List Nat := List.replicate n 0

/-! ### Tridonic DALI USB (hid.tridonic and the legacy driver) -/

def tridonicSend (seq bits data : Nat) (twice : Bool) : Option (List Nat) :=
  let ctrl := if twice then 0x20 else 0x00
  if bits = 16 then some ([0x12, seq, ctrl, 0x03, 0, 0, data / 256 % 256, data % 256, 0, 0, 0] ++ zeros 53)
  else if bits = 24 then
    some ([0x12, seq, ctrl, 0x06, 0, data / 65536 % 256, data / 256 % 256, data % 256, 0, 0, 0] ++ zeros 53)
  else none

/-- is the send-twice flag set in a packet to the gateway -/
def tridonicTwiceBit (p : List Nat) : Bool := p.getD 2 0 &&& 0x20 != 0

/-- a response report `mode type f0 f1 f2 f3 …` is well-formed if it has 64 bytes and
an 8-bit frame report carries its value in the last frame byte only -/
def tridonicWellFormed (p : List Nat) : Prop :=
  p.length = 64 ∧ (∀ b ∈ p, b < 256) ∧ (p.getD 1 0 = 0x72 → p.getD 2 0 = 0 ∧ p.getD 3 0 = 0 ∧ p.getD 4 0 = 0)

def tridonicMeaning (p : List Nat) : Meaning :=
  let ty := p.getD 1 0
  if ty = 0x73 ∨ ty = 0x76 then .ack
  else if ty = 0x72 then .backward (p.getD 5 0)
  else if ty = 0x77 ∧ p.getD 5 0 = 3 then .backwardError 255
  else if ty = 0x71 then .noAnswer
  else .none

/-- legacy driver: direction 0x11 = seen on the bus, 0x12 = answer to our packet -/
def legacyTridonicMeaning (p : List Nat) : Meaning :=
  let dr := p.getD 0 0
  let ty := p.getD 1 0
  if dr = 0x11 ∧ (ty = 0x73 ∨ ty = 0x74) then .forward 16 (p.getD 4 0 * 256 + p.getD 5 0)
  else if dr = 0x12 ∧ ty = 0x71 then .noAnswer
  else if dr = 0x12 ∧ ty = 0x72 then .backward (p.getD 5 0)
  else .none

/-! ### hasseb DALI Master (hid.hasseb) — pinned -/

def hassebWrites (bits data : Nat) (twice : Bool) : Option (List (List Nat)) :=
  if bits = 16 then some (List.replicate (if twice then 2 else 1) [data / 256 % 256, data % 256]) else none

def hassebMeaning (status byte : Nat) : Option Meaning :=
  if status = 0 then Option.none
  else if status = 1 then some .noAnswer
  else if status = 2 then some (.backward byte)
  else if status = 3 then some (.backwardError byte)
  else some .none

/-! ### LUBA -/

/-- pinned: plain standard commands (no answer, not sent twice) and DAPC go out with priority 2, everything else with 5 -/
def lubaPriorityRule (c : Cmd) : Nat :=
  if (c.isStd = true ∧ c.isQuery = false ∧ c.sendtwice = false) ∨ c.isDAPC = true then 2 else 5

def lubaSend (bits data prio : Nat) (twice : Bool) : Option (List Nat) :=
  let mode := prio + (if twice then 128 else 0)
  if bits = 16 then
    some [0x59, 0x32, 7, 0, 16, mode, data / 256 % 256, data % 256, 0, 0,
          0x32 ^^^ 7 ^^^ 0 ^^^ 16 ^^^ mode ^^^ (data / 256 % 256) ^^^ (data % 256) ^^^ 0 ^^^ 0]
  else if bits = 24 then
    some [0x59, 0x32, 7, 0, 24, mode, data / 65536 % 256, data / 256 % 256, data % 256, 0,
          0x32 ^^^ 7 ^^^ 0 ^^^ 24 ^^^ mode ^^^ (data / 65536 % 256) ^^^ (data / 256 % 256) ^^^ (data % 256) ^^^ 0]
  else none

/-- a LUBA frame is intact: starts with 'Y', is as long as its length byte says, and the xor of
everything after 'Y' (checksum included) is zero -/
def lubaCheck (p : List Nat) : Bool :=
  p.head? == some 0x59 && p.length == p.getD 2 0 + 4 && (p.drop 1).foldr (· ^^^ ·) 0 == 0

def lubaTwiceBit (p : List Nat) : Bool := p.getD 5 0 &&& 0x80 != 0

/-! ### SCI RS232 — control byte independent, data byte positions pinned -/

def sciSend (bits data : Nat) (twice : Bool) : Option (List Nat) :=
  let flags := 0x80 + 0x20 + (if twice then 0x10 else 0)
  if bits = 8 then some [flags + 2, data % 256, 0, 0, (flags + 2) ^^^ (data % 256) ^^^ 0 ^^^ 0]
  else if bits = 16 then
    some [flags + 3, data / 256 % 256, data % 256, 0, (flags + 3) ^^^ (data / 256 % 256) ^^^ (data % 256) ^^^ 0]
  else if bits = 24 then
    some [flags + 8, data / 65536 % 256, data / 256 % 256, data % 256,
          (flags + 8) ^^^ (data / 65536 % 256) ^^^ (data / 256 % 256) ^^^ (data % 256)]
  else none

def sciCheck (p : List Nat) : Bool := p.length == 5 && p.foldr (· ^^^ ·) 0 == 0

def sciTwiceBit (p : List Nat) : Bool := p.getD 0 0 &&& 0x10 != 0

/-! ### daliserver -/

def daliserverSends (bits data : Nat) (twice : Bool) : Option (List (List Nat)) :=
  if bits = 16 then some (List.replicate (if twice then 2 else 1) [0x02, 0x00, data / 256 % 256, data % 256])
  else none

def daliserverMeaning (isQuery : Bool) (status rval : Nat) : Meaning :=
  if isQuery = false then .none
  else if status = 0 then .noAnswer
  else if status = 1 then .backward rval
  else if status = 255 then .backwardError 255
  else .raises .CommunicationError

/-! ### ATX LED DALI hat — pinned -/

def hexChars : List Nat := "0123456789ABCDEF".toList.map Char.toNat

def hexByte (b : Nat) : List Nat := [hexChars.getD (b / 16) 0, hexChars.getD (b % 16) 0]

def atxLine (bits data : Nat) (twice : Bool) : Option (List Nat) :=
  if bits = 8 then some ([106] ++ hexByte (data % 256) ++ [10])
  else if bits = 16 then
    some ([if twice then 116 else 104] ++ hexByte (data / 256 % 256) ++ hexByte (data % 256) ++ [10])
  else if bits = 24 then
    some ([108] ++ hexByte (data / 65536 % 256) ++ hexByte (data / 256 % 256) ++ hexByte (data % 256) ++ [10])
  else if bits = 25 then
    some ([109] ++ hexByte (data / 16777216 % 256) ++ hexByte (data / 65536 % 256) ++ hexByte (data / 256 % 256) ++
          hexByte (data % 256) ++ [10])
  else none

/-- `J<hi><lo>\n`: a backward frame; anything else of the well-formed answers (`N`, `X`, `Z`, …): nothing -/
def atxMeaning (letter hi lo : Nat) : Meaning :=
  if letter = 74 then .backward (hi * 16 + lo) else .none

/-! ### legacy hasseb driver — pinned -/

def legacyHassebPacket (sn bits data : Nat) (twice isQuery : Bool) : Option (List Nat) :=
  if bits = 16 then
    some [0xAA, 0x07, sn, 16, if isQuery then 1 else 0, 0, if twice then 10 else 0, data / 256 % 256, data % 256, 0]
  else none

def legacyHassebMeaning (p : List Nat) : Meaning :=
  if p.getD 1 0 = 0 then .other "NoDataAvailable"
  else if p.getD 1 0 = 7 then
    let st := p.getD 3 0
    if st = 1 then .noAnswer
    else if st = 2 ∧ p.getD 4 0 = 1 then .backward (p.getD 5 0)
    else if st = 3 then .backwardError 255
    else if st = 4 then .other "AnswerTooEarly"
    else if st = 5 then .other "SnifferByte"
    else if st = 6 then .other "SnifferByteError"
    else .none
  else .none

/-! ### UniPi — pinned -/

def unipiRegs (bits data : Nat) (twice : Bool) : Option (Nat × Nat) :=
  let t := if twice then 8 else 0
  if bits = 16 then some ((2 + t) * 256, data % 65536)
  else if bits = 24 then some ((3 + t) * 256 + data / 65536 % 256, data % 65536)
  else none

def unipiMeaning (r0 r1 : Nat) : Meaning :=
  if r0 = 0x100 then .backward r1
  else if r0 = 0x200 then .forward 16 r1
  else .noAnswer

/-! ### UniPi receive registers — pinned; the receive counter is hidden gateway state

Three holding registers per bus: a free-running 16-bit counter of received frames (wraps 0xFFFF → 0), the type word
(0x100 backward frame, 0x200 forward frame) and the data; one framing-error counter.  What an exchange denotes does
not depend on the value of the counter. -/

structure UnipiRx where
  counter : Nat
  typ : Nat
  data : Nat

/-- the gateway has received a frame -/
def UnipiRx.receive (g : UnipiRx) (typ data : Nat) : UnipiRx := ⟨(g.counter + 1) % 65536, typ, data⟩

/-- the registers shown at polls `i, i+1, …` (`n` of them): `events` = (index of the poll before which the frame is
received, type, data) in order of arrival; `feAt` = poll before which a framing error is counted -/
def unipiPolls (fe : Nat) (feAt : Option Nat) : UnipiRx → List (Nat × Nat × Nat) → Nat → Nat → List Unipi.Poll
  | _, _, _, 0 => []
  | g, events, i, n + 1 =>
    let g' := (events.filter (fun e => e.1 ≤ i)).foldl (fun g e => g.receive e.2.1 e.2.2) g
    let f := match feAt with
      | some j => if j ≤ i then (fe + 1) % 65536 else fe
      | none => fe
    ⟨g'.counter, g'.typ, g'.data, f⟩ :: unipiPolls fe feAt g' (events.filter (fun e => ¬ e.1 ≤ i)) (i + 1) n

/-- what the exchange denotes: a query answered by a backward frame within the six polls returns its value —
**whatever the counter**; a Compare query during which a framing error was counted (before an answer) is answered
"yes"; an unanswered query is "no answer"; a command that expects no reply returns the no-response marker. -/
def unipiExchange (isQuery isCompare : Bool) (events : List (Nat × Nat × Nat)) (feAt : Option Nat) :
    Unipi.SendResult :=
  if !isQuery then .noResponse else
  let reply := events.find? (fun e => e.2.1 == 0x100 && e.1 < 6)
  let fe := if isCompare then feAt.filter (· < 6) else none
  match reply, fe with
  | some e, some j => if e.1 ≤ j then .response (some e.2.2) else .response (some 255)
  | some e, none => .response (some e.2.2)
  | none, some _ => .response (some 255)
  | none, none => .response none

end DaliVerif.Spec.Gateways
