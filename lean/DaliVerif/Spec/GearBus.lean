import DaliVerif.Model.GearSeq
/-!
# Specification bus of control gear (IEC 62386-102 / -209 as read in DESIGN Appendix A)

Written from the rules of the standard, *not* from `dali/tests/fakes.py`.
A bus is a list of `Gear` units; every unit sees every frame; the answers of
the units combine: none → silence, one → that byte, two or more → framing error.

Only the state the properties C07 / C08 / C14 talk about is kept:

* addressing: `short`, `init ∈ {disabled, enabled, withdrawn}`, `random`, `search`,
  the unit's stream of future random draws (the oracle of RANDOMISE) and two fault
  flags (`noStore`: ignores PROGRAM SHORT ADDRESS, `noVerify`: never confirms);
* device types with the QUERY NEXT DEVICE TYPE cursor; the 16 group bits;
* DTR0-2, `enabledDT` (ENABLE DEVICE TYPE is valid for the next frame only);
* part 209 (colour temperature): temporary / actual Tc, the four limits, the report
  register latched by QUERY ACTUAL LEVEL, and a static table for the other selectors.
-/
namespace DaliVerif.GearSeq

inductive InitState where
  | disabled | enabled | withdrawn
  deriving DecidableEq, Repr, Inhabited

structure Gear where
  short : Option Nat := none
  groups : Nat := 0
  types : List Nat := []
  cursor : Option Nat := none
  init : InitState := .disabled
  random : Nat := 0xffffff
  search : Nat := 0xffffff
  draws : List Nat := []
  noStore : Bool := false
  noVerify : Bool := false
  dtr0 : Nat := 0
  dtr1 : Nat := 0
  dtr2 : Nat := 0
  level : Nat := 254
  enabledDT : Option Nat := none
  tempTc : Nat := 65535
  tc : Nat := 65535
  coolest : Nat := 1
  warmest : Nat := 65534
  physCoolest : Nat := 1
  physWarmest : Nat := 65534
  reportTc : Nat := 65535
  others : List (Nat × Nat) := []
  deriving DecidableEq, Repr, Inhabited

abbrev Bus := List Gear

def MASK16 : Nat := 65535

namespace Gear

/-- is a frame with this address byte for this unit? -/
def addressed (u : Gear) : Addr → Bool
  | .broadcast => true
  | .unaddressed => u.short.isNone
  | .short n => u.short == some n
  | .group g => u.groups.testBit g

/-- rules for every received frame: the device-type enable and the NEXT cursor lapse -/
def tick (u : Gear) : Gear := { u with enabledDT := none, cursor := none }

/-- an application extended command of part 209 is executed only directly after
ENABLE DEVICE TYPE 8 and only by a unit that implements device type 8 -/
def dt8 (u : Gear) (a : Addr) : Bool :=
  u.addressed a && u.enabledDT == some 8 && u.types.contains 8

def clamp (lo hi v : Nat) : Nat := if v < lo then lo else if hi < v then hi else v

/-- the 16-bit register QUERY COLOUR VALUE reports for selector `sel` (209 Table 11);
`none` = not supported by this unit (answers MASK, MASK) -/
def colourReg (u : Gear) (sel : Nat) : Option Nat :=
  if sel = 2 then some u.reportTc
  else if sel = 128 then some u.coolest
  else if sel = 129 then some u.physCoolest
  else if sel = 130 then some u.warmest
  else if sel = 131 then some u.physWarmest
  else if sel = 194 then some u.tempTc
  else if sel = 226 then some u.reportTc
  else (u.others.lookup sel)

/-- one frame: the unit's answer (if any) and its next state -/
def step (u : Gear) : Cmd → Option Nat × Gear
  | .dtr0 v => (none, { u.tick with dtr0 := v })
  | .dtr1 v => (none, { u.tick with dtr1 := v })
  | .dtr2 v => (none, { u.tick with dtr2 := v })
  | .enableDT n => (none, { u with enabledDT := some n, cursor := none })
  | .terminate => (none, { u.tick with init := .disabled })
  | .initialise a =>
      if a = 0 ∨ (a = 0xFF ∧ u.short = none) ∨ (a % 2 = 1 ∧ a < 128 ∧ u.short = some (a / 2))
      then (none, { u.tick with init := .enabled })
      else (none, u.tick)
  | .randomise =>
      if u.init = .disabled then (none, u.tick) else
      match u.draws with
      | [] => (none, u.tick)
      | d :: ds => (none, { u.tick with random := d, draws := ds })
  | .compare =>
      (if u.init = .enabled ∧ u.random ≤ u.search then some 255 else none, u.tick)
  | .withdraw =>
      if u.init = .enabled ∧ u.random = u.search then (none, { u.tick with init := .withdrawn })
      else (none, u.tick)
  | .searchH v =>
      if u.init = .disabled then (none, u.tick)
      else (none, { u.tick with search := v * 65536 + u.search % 65536 })
  | .searchM v =>
      if u.init = .disabled then (none, u.tick)
      else (none, { u.tick with search := u.search / 65536 * 65536 + v * 256 + u.search % 256 })
  | .searchL v =>
      if u.init = .disabled then (none, u.tick)
      else (none, { u.tick with search := u.search / 256 * 256 + v })
  | .programShort a =>
      if u.init ≠ .disabled ∧ u.random = u.search ∧ u.noStore = false
      then (none, { u.tick with short := some a })
      else (none, u.tick)
  | .verifyShort a =>
      (if u.init ≠ .disabled ∧ u.short = some a ∧ u.noVerify = false then some 255 else none, u.tick)
  | .setShortAddress a =>
      if u.addressed a then
        if u.dtr0 = 255 then (none, { u.tick with short := none })
        else if u.dtr0 % 2 = 1 ∧ u.dtr0 < 128 then (none, { u.tick with short := some (u.dtr0 / 2) })
        else (none, u.tick)
      else (none, u.tick)
  | .queryGearPresent a => (if u.addressed a then some 255 else none, u.tick)
  | .queryDeviceType a =>
      if u.addressed a then
        match u.types with
        | [] => (some 254, u.tick)
        | [t] => (some t, u.tick)
        | _ => (some 255, { u.tick with cursor := some 0 })
      else (none, u.tick)
  | .queryNextDeviceType a =>
      if u.addressed a then
        match u.cursor with
        | none => (none, u.tick)
        | some i =>
          if h : i < u.types.length then (some u.types[i], { u.tick with cursor := some (i + 1) })
          else (some 254, u.tick)
      else (none, u.tick)
  | .queryGroups07 a => (if u.addressed a then some (u.groups % 256) else none, u.tick)
  | .queryGroups815 a => (if u.addressed a then some (u.groups / 256 % 256) else none, u.tick)
  | .addToGroup a g =>
      if u.addressed a then (none, { u.tick with groups := u.groups ||| 2 ^ g }) else (none, u.tick)
  | .removeFromGroup a g =>
      if u.addressed a ∧ u.groups.testBit g then (none, { u.tick with groups := u.groups ^^^ 2 ^ g })
      else (none, u.tick)
  | .queryActualLevel a =>
      if u.addressed a then (some u.level, { u.tick with reportTc := u.tc }) else (none, u.tick)
  | .queryContentDTR0 a => (if u.addressed a then some u.dtr0 else none, u.tick)
  | .setTempTc a =>
      if u.dt8 a then (none, { u.tick with tempTc := u.dtr1 * 256 + u.dtr0 }) else (none, u.tick)
  | .activate a =>
      if u.dt8 a then
        if u.tempTc = MASK16 then (none, u.tick)
        else (none, { u.tick with tc := clamp u.coolest u.warmest u.tempTc, tempTc := MASK16 })
      else (none, u.tick)
  | .storeTcLimit a =>
      if u.dt8 a then
        let v := u.dtr1 * 256 + u.dtr0
        if u.dtr2 = 0 then (none, { u.tick with coolest := v })
        else if u.dtr2 = 1 then (none, { u.tick with warmest := v })
        else if u.dtr2 = 2 then (none, { u.tick with physCoolest := v })
        else if u.dtr2 = 3 then (none, { u.tick with physWarmest := v })
        else (none, u.tick)
      else (none, u.tick)
  | .queryColourValue a =>
      if u.dt8 a then
        match u.colourReg u.dtr0 with
        | some v => (some (v / 256), { u.tick with dtr0 := v % 256, dtr1 := v / 256 })
        | none => (some 255, { u.tick with dtr0 := 255, dtr1 := 255 })
      else (none, u.tick)

end Gear

/-- answers of several units combine on the wire -/
def combine : List Nat → Resp
  | [] => .none
  | [v] => .byte v
  | _ => .err

namespace Bus

/-- one frame on the bus -/
def frame (b : Bus) (c : Cmd) : Resp × Bus :=
  (combine (b.filterMap (fun u => (u.step c).1)), b.map (fun u => (u.step c).2))

/-- one *command* as a driver transmits it: a command whose class has `devicetype = 8`
is preceded by ENABLE DEVICE TYPE 8 -/
def exec (b : Bus) (c : Cmd) : Resp × Bus :=
  if c.devicetype = 0 then frame b c
  else frame (frame b (.enableDT c.devicetype)).2 c

end Bus

/-- run a sequence against the specification bus -/
def runBus {α : Type} (p : Prog α) (b : Bus) : Out Bus α := p.run Bus.exec b

/-- IEC 62386-102 9.3 / Table 15: INITIALISE, RANDOMISE and the configuration instructions are acted on only when
they are received TWICE within 100 ms (a driver transmits a command twice exactly when the library flags it
`sendtwice`); part 209: STORE COLOUR TEMPERATURE Tc LIMIT likewise.  A unit that hears such a command once
ignores it. -/
def Cmd.twiceRequired : Cmd → Bool
  | .initialise _ | .randomise | .setShortAddress _ | .addToGroup _ _ | .removeFromGroup _ _
  | .storeTcLimit _ => true
  | _ => false

/-- the bus as the driver drives it: a command flagged `sendtwice` goes out twice, any other once -/
def Bus.execFlagged (b : Bus) (c : Cmd) (sendtwice : Bool) : Resp × Bus :=
  if c.twiceRequired && !sendtwice then (.none, b) else Bus.exec b c

/-- an adversarial environment: the `i`-th command gets the `i`-th answer, whatever it is -/
def streamStep (answers : Nat → Resp) (i : Nat) (_ : Cmd) : Resp × Nat := (answers i, i + 1)

def runStream {α : Type} (p : Prog α) (answers : Nat → Resp) : Out Nat α :=
  p.run (streamStep answers) 0

end DaliVerif.GearSeq
