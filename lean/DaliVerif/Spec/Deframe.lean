import DaliVerif.Model.SerialRx
/-!
# Reference deframers for the LUBA and SCI serial protocols

Written from the protocol grammar over the **whole byte stream**, by recursion
on the stream; nothing of the receivers' state machine (phases, buffer,
counters) appears here.  Only the types `Item`, `Dec`, `Oracle` are shared with
the model.

LUBA (Lunatone "LUBA protocol"): a frame is

    'Y'(0x59)  type  len  payload[len]  xor(type, len, payload…)

Deframing: scan to the next `'Y'`; read type and length; a length that cannot
fit the receiver (0, or more than `lubaMaxPayload`) ends the attempt right
after the length byte; otherwise `len` payload bytes and one checksum byte are
consumed; a bad checksum drops the frame; reception resumes after the
checksum byte.  A stream that ends inside a frame delivers nothing for it.

Meaning of a checksum-valid frame, by type:
* 0x31 event: `tick(2) line(1) status(1) data…`, status = `type(2 bits) info(6 bits)`;
  type 0 "frame sent": `id(1)` then the transmitted frame's bytes;
  type 2 "frame received": info 1..32 = number of bits (62, 63 = bus errors), then
  the frame's bytes — one byte is a backward frame, more an observed forward frame;
* 0x33 answer to "add frame to TX buffer": 1 byte (error code) or 2 bytes (id …);
  nothing is delivered;
* 0x21 device info, set 0: `gtin(6) id(8) pcb(1) assembly(1) article(4)`;
* 0x2B settings: `mode(1) event-filter(1) …`;
* any other type: nothing is delivered.
A payload too short (or of the wrong length) for its type is `malformed`: the
property sets streams containing such frames aside.

SCI (Lunatone SCI RS232): fixed five-byte frames with no synchronisation mark,
`status hi mi lo xor(status,hi,mi,lo)`; low nibble of status: 0 OK, 1 "DALI no",
2/3/8 = 8/16/24-bit frame, 7 error (code in `lo`), 4/5/6 eDALI/DSI/17-bit
(ignored), anything else unknown (dropped).
-/
namespace DaliVerif.Spec.Deframe
open DaliVerif.SerialRx

inductive Out where
  | item (i : Item)
  | malformed
  deriving DecidableEq, Repr

/-- device-type memories of the receiver (for frames received / frames transmitted) -/
structure Ctx where
  rxdt : Nat
  txdt : Nat
  deriving DecidableEq, Repr

def xorSum : List Nat → Nat
  | [] => 0
  | b :: l => b ^^^ xorSum l

/-- big-endian value of a byte string -/
def beValue : List Nat → Nat
  | [] => 0
  | b :: l => b * 256 ^ l.length + beValue l

/-- the device type announced by a frame: ENABLE DEVICE TYPE is the 16-bit frame `C1 xx` -/
def dtAfter : List Nat → Nat
  | [0xC1, x] => x
  | _ => 0

/-- largest payload the receiver can take (its 24-entry buffer also holds
`'Y'`, type, length and checksum); *pinned* to the implementation, compared with
`MAX_LEN - 4` of the tree by `decide` -/
def lubaMaxPayload : Nat := 20

def lubaEvent (o : Oracle) (c : Ctx) : List Nat → Ctx × List Out
  | _ :: _ :: _ :: status :: rest =>
    let etype := status / 64
    let info := status % 64
    if etype = 0 then
      match rest with
      | [] => (c, [.malformed])
      | id :: fr =>
        if fr ≠ [] ∧ o.tx (8 * fr.length) (beValue fr) c.txdt = true then
          ({ c with txdt := dtAfter fr },
           [.item (.txconf id (some ⟨8 * fr.length, beValue fr, c.txdt⟩))])
        else ({ c with txdt := 0 }, [.item (.txconf id none)])
    else if etype = 2 then
      if 1 ≤ info ∧ info ≤ 32 then
        match rest with
        | [] => (c, [])
        | [v] => (c, [.item (.raw v)])
        | fr =>
          if o.rx (8 * fr.length) (beValue fr) c.rxdt = true then
            ({ c with rxdt := dtAfter fr }, [.item (.observed ⟨8 * fr.length, beValue fr, c.rxdt⟩)])
          else (c, [])
      else (c, [])
    else (c, [])
  | _ => (c, [.malformed])

def lubaMeaning (o : Oracle) (c : Ctx) (type : Nat) (payload : List Nat) : Ctx × List Out :=
  if type = 0x31 then lubaEvent o c payload
  else if type = 0x33 then
    if payload.length = 1 ∨ payload.length = 2 then (c, []) else (c, [.malformed])
  else if type = 0x21 then
    if payload.length = 20 then
      (c, [.item (.devinfo (beValue (payload.take 6)) (beValue ((payload.drop 6).take 8))
              (payload.getD 14 0) (payload.getD 15 0) (beValue ((payload.drop 16).take 4)))])
    else (c, [.malformed])
  else if type = 0x2B then
    match payload with
    | m :: f :: _ => (c, [.item (.settings m f)])
    | _ => (c, [.malformed])
  else (c, [])

def lubaDeframe (o : Oracle) (c : Ctx) : List Byte → List Out
  | [] => []
  | b :: rest =>
    if b ≠ 0x59 then lubaDeframe o c rest else
    match rest with
    | type :: len :: rest2 =>
      if 1 ≤ len ∧ len ≤ lubaMaxPayload then
        if rest2.length < len + 1 then []
        else
          if xorSum (type :: len :: rest2.take len) = rest2.getD len 0 then
            (lubaMeaning o c type (rest2.take len)).2 ++
              lubaDeframe o (lubaMeaning o c type (rest2.take len)).1 (rest2.drop (len + 1))
          else lubaDeframe o c (rest2.drop (len + 1))
      else lubaDeframe o c rest2
    | _ => []
termination_by l => l.length
decreasing_by
  all_goals simp only [List.length_drop, List.length_cons]
  all_goals omega

/-- the streams the property speaks about: no checksum-valid frame with a
payload malformed for its type -/
def LubaWellFormed (o : Oracle) (c : Ctx) (bytes : List Byte) : Prop :=
  Out.malformed ∉ lubaDeframe o c bytes

instance (o : Oracle) (c : Ctx) (bytes : List Byte) : Decidable (LubaWellFormed o c bytes) := by
  unfold LubaWellFormed; infer_instance

/-! ## SCI -/

def sciFrameMeaning (o : Oracle) (rxdt : Nat) (status hi mi lo : Nat) : Nat × List Item :=
  let code := status % 16
  let info : Item := .sciinfo (status / 16) code
  if code = 0 ∨ code = 1 then (rxdt, [info])
  else if code = 7 then (if 1 ≤ lo ∧ lo ≤ 5 then (rxdt, [info]) else (rxdt, []))
  else if code = 2 then (rxdt, [.raw lo])
  else if code = 3 then
    if o.rx 16 (beValue [mi, lo]) rxdt = true then (dtAfter [mi, lo], [.observed ⟨16, beValue [mi, lo], rxdt⟩])
    else (rxdt, [])
  else if code = 8 then
    if o.rx 24 (beValue [hi, mi, lo]) rxdt = true then (0, [.observed ⟨24, beValue [hi, mi, lo], rxdt⟩])
    else (rxdt, [])
  else (rxdt, [])

def sciDeframe (o : Oracle) (rxdt : Nat) : List Byte → List Item
  | status :: hi :: mi :: lo :: chk :: rest =>
    if xorSum [status, hi, mi, lo] = chk then
      (sciFrameMeaning o rxdt status hi mi lo).2 ++
        sciDeframe o (sciFrameMeaning o rxdt status hi mi lo).1 rest
    else sciDeframe o rxdt rest
  | _ => []

end DaliVerif.Spec.Deframe
