import DaliVerif.Model.DevMemProg
/-!
# Specification unit: memory banks of a bus unit (IEC 62386-102 §9.10 / -103) — C09, C10

Written from the standard as summarised in DESIGN.md Appendix A, *not* from
`dali/tests/fakes.py`.  One unit (control gear or control device, `dev`), one
short address, one implemented memory bank (`bank.number`; every other bank
number is "not implemented").

* DTR0/1/2 load the registers and leave `writeEnableState` alone, as do WRITE
  MEMORY LOCATION (both forms) and QUERY CONTENT DTR0/1/2; **every other
  command addressed to the unit clears it**; ENABLE WRITE MEMORY sets it.
* READ MEMORY LOCATION: bank `DTR1` not implemented → ignored.  Otherwise the
  cell is answered iff `DTR0 ≤ last` and the cell is implemented, and
  `DTR0 := DTR0 + 1` when `DTR0 < 0xFF` in either case.
* WRITE MEMORY LOCATION(d): ignored unless write-enabled and the bank is
  implemented.  The cell is written (and `d` answered by the replying form)
  iff `DTR0 ≤ last`, implemented, writable, and not protected by the lock byte
  (lockable cells need lock byte = 0x55); otherwise NO.  DTR0 advances as for
  reads.  The lock byte (cell 2 of a bank that has one) is always writable.
* Latching bank: writing 0xAA to the lock byte takes a snapshot of the
  read-only cells; reads return the snapshot until the lock byte is written
  again with another value.  Read-only cells are *live*: their content is a
  function of time (`live t a`, the environment), which is what makes the
  latch observable.  Cell 0 holds the last accessible location.
* Deviations used by C10 (a conforming unit has `advance = true`,
  `unlockValue = 0x55`): a unit that does not advance DTR0, a unit that
  unlocks with another value; "shorter bank" is just a smaller `last`; a unit
  that fails to advance DTR0 on selected frames only (`stepStall`, `stepSched`).
-/
namespace DaliVerif.DevMem

/-- a cell's content as a backward frame, a missing cell as silence -/
def respOf : Option Nat → Resp
  | some x => .byte x
  | none => .none

/-- `read_raw`'s outcome for the bytes the cells hold (`none`: a cell is missing) -/
def readOutcome : Option (List Nat) → PyRes (List Nat)
  | some bs => .ok bs
  | none => .error .MemoryLocationNotImplemented

inductive Access where
  | ro        -- ROM, RAM-RO, NVM-RO: never writable over the bus
  | rw        -- RAM-RW, NVM-RW
  | rwLock    -- NVM-RW protected by the lock byte
  deriving DecidableEq, Repr, Inhabited

structure Bank where
  number : Nat
  /-- last accessible location (content of cell 0) -/
  last : Nat
  /-- implemented cells (cell 0 and the lock byte are always there) -/
  impl : Nat → Bool
  access : Nat → Access
  /-- content of the read-only cells at time `t` (environment) -/
  live : Nat → Nat → Nat
  /-- content of the writable cells (state) -/
  rw : Nat → Nat
  hasLock : Bool
  hasLatch : Bool
  lockByte : Nat
  /-- `some t`: latched at time `t` -/
  snap : Option Nat

namespace Bank

def isLockCell (b : Bank) (a : Nat) : Bool := (b.hasLock || b.hasLatch) && a == 2

def implemented (b : Bank) (a : Nat) : Bool := a == 0 || b.isLockCell a || b.impl a

/-- what a read of cell `a` at time `t` returns -/
def content (b : Bank) (t a : Nat) : Nat :=
  if a = 0 then b.last
  else if b.isLockCell a then b.lockByte
  else match b.access a with
    | .ro => b.live (b.snap.getD t) a
    | _ => b.rw a

def readable (b : Bank) (a : Nat) : Bool := decide (a ≤ b.last) && b.implemented a

/-- answer to READ MEMORY LOCATION for cell `a` at time `t` -/
def cellAt (b : Bank) (t a : Nat) : Option Nat :=
  if b.readable a then some (b.content t a) else none

/-- the bytes a read of the cells `locs` (in that order) must return at time `t`,
or `none` if one of them is beyond the last accessible location or unimplemented -/
def readCells (b : Bank) (t : Nat) : List Nat → Option (List Nat)
  | [] => some []
  | l :: ls =>
    match b.cellAt t l with
    | some x => (b.readCells t ls).map (x :: ·)
    | none => none

/-- the read-only content does not depend on when it is read (nothing drifts,
or the bank is latched) -/
def Stable (b : Bank) : Prop := ∀ t a, b.content t a = b.content 0 a

/-- may cell `a` be written right now (`unlock` = the value that unlocks, 0x55) -/
def canWrite (b : Bank) (unlock a : Nat) : Bool :=
  decide (a ≤ b.last) && b.implemented a &&
    (b.isLockCell a ||
      (a != 0 && match b.access a with
        | .ro => false
        | .rw => true
        | .rwLock => b.lockByte == unlock))

/-- store `v` into cell `a` at time `t` (only called when `canWrite`) -/
def store (b : Bank) (t a v : Nat) : Bank :=
  if b.isLockCell a then
    { b with lockByte := v, snap := if b.hasLatch && v == 0xAA then some t else none }
  else { b with rw := fun x => if x = a then v else b.rw x }

end Bank

structure MemUnit where
  /-- control device (24-bit frames) or control gear (16-bit frames) -/
  dev : Bool
  addr : Nat
  clock : Nat
  dtr0 : Nat
  dtr1 : Nat
  dtr2 : Nat
  we : Bool
  bank : Bank
  /-- conforming: `true` -/
  advance : Bool
  /-- conforming: `0x55` -/
  unlockValue : Nat

namespace MemUnit

def incDtr0 (u : MemUnit) : Nat := if u.advance && u.dtr0 < 255 then u.dtr0 + 1 else u.dtr0

def writeCell (u : MemUnit) (v : Nat) (reply : Bool) : Resp × MemUnit :=
  if u.we && u.dtr1 == u.bank.number then
    if u.bank.canWrite u.unlockValue u.dtr0 then
      (if reply then .byte v else .none,
        { u with bank := u.bank.store u.clock u.dtr0 v, dtr0 := u.incDtr0 })
    else (.none, { u with dtr0 := u.incDtr0 })
  else (.none, u)

/-- effect of one forward frame (before the clock tick) -/
def exec (u : MemUnit) : Cmd → Resp × MemUnit
  | .dtr0 d v => (.none, if d = u.dev then { u with dtr0 := v } else u)
  | .dtr1 d v => (.none, if d = u.dev then { u with dtr1 := v } else u)
  | .dtr2 d v => (.none, if d = u.dev then { u with dtr2 := v } else u)
  | .enableWriteMemory d a => (.none, if d = u.dev ∧ a = u.addr then { u with we := true } else u)
  | .readMemoryLocation d a =>
    if d = u.dev ∧ a = u.addr then
      if u.dtr1 = u.bank.number then
        (respOf (u.bank.cellAt u.clock u.dtr0),
          { u with we := false, dtr0 := u.incDtr0 })
      else (.none, { u with we := false })
    else (.none, u)
  | .writeMemoryLocation d v => if d = u.dev then u.writeCell v true else (.none, u)
  | .writeMemoryLocationNoReply d v => if d = u.dev then u.writeCell v false else (.none, u)
  | .queryContentDTR0 d a => if d = u.dev ∧ a = u.addr then (.byte u.dtr0, u) else (.none, u)
  | .queryContentDTR1 d a => if d = u.dev ∧ a = u.addr then (.byte u.dtr1, u) else (.none, u)
  | .queryContentDTR2 d a => if d = u.dev ∧ a = u.addr then (.byte u.dtr2, u) else (.none, u)
  -- any other command: a control device addressed by it leaves write-enable
  | .setEventScheme a _ | .setEventFilter a _ | .queryEventScheme a _ | .queryEventFilterL a _
  | .queryEventFilterM a _ | .queryEventFilterH a _ | .queryResolution a _ | .queryInputValue a _
  | .queryInputValueLatch a _ | .queryInstanceEnabled a _ | .queryInstanceType a _
  | .queryDeviceStatus a | .queryNumberOfInstances a =>
    (.none, if u.dev ∧ a = u.addr then { u with we := false } else u)
  | .startQuiescentMode | .stopQuiescentMode => (.none, if u.dev then { u with we := false } else u)

def step (u : MemUnit) (c : Cmd) : Resp × MemUnit :=
  ((u.exec c).1, { (u.exec c).2 with clock := u.clock + 1 })

/-- Deviation "does not advance DTR0 on this one frame" (C10): for the frames
selected by `stall` the unit behaves as a non-advancing unit (the cell is still
read / written and answered as usual, only DTR0 stays where it was); on every
other frame it is the unit it was.  A unit that never advances is the special
case `advance = false` / `stall` always true. -/
def stepStall (u : MemUnit) (stall : Bool) (c : Cmd) : Resp × MemUnit :=
  if stall then
    (({ u with advance := false }).step c |>.1,
      { ({ u with advance := false }).step c |>.2 with advance := u.advance })
  else u.step c

/-- a unit together with the number of frames it has seen; `sched k` says whether
the `k`-th frame (from 0) is one on which DTR0 is not advanced -/
def stepSched (sched : Nat → Bool) (s : MemUnit × Nat) (c : Cmd) : Resp × (MemUnit × Nat) :=
  ((s.1.stepStall (sched s.2) c).1, ((s.1.stepStall (sched s.2) c).2, s.2 + 1))

/-- conforming unit (no C10 deviation) -/
def Conforming (u : MemUnit) : Prop := u.advance = true ∧ u.unlockValue = 0x55

end MemUnit

end DaliVerif.DevMem
