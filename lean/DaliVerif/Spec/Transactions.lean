import DaliVerif.Model.BusWatch
/-!
# C20 — a history of gateway packets read as bus transactions

Independent of the watcher's state machine: the whole history is parsed, with
one packet of look-ahead, into transactions, and the reports subscribers have
to see are read off the transactions.

A history is a list of items: a packet the gateway reported, or `gap` — the
time between the two neighbouring packets exceeded the watcher's time-out
(200 ms).  Packets the watcher ignores (`Pkt.other`: bus-status reports other
than framing error, unknown report modes) belong to no transaction; they count
as packets for the purpose of measuring gaps, which is all the `gap` item says.

Transactions (property text): a plain command; a query with the backward frame
that followed it, with "no answer" when the time-out elapses, the gateway says
"no frame", or another forward frame arrives first, or with a framing error; a
send-twice command followed in time by the identical frame (good) or not
(failed: late, different frame, answered by a backward frame, "no frame");
ENABLE DEVICE TYPE n, which is a plain command that makes the *next forward
frame* — and nothing later — decode under device type n.
-/
namespace DaliVerif.Spec.Transactions
open DaliVerif.BusWatch DaliVerif.Answer

inductive Item where
  | pkt (p : Pkt)
  | gap
  deriving DecidableEq, Repr, Inhabited

/-- why a send-twice command was not completed -/
inductive Why where
  | late | different | answered | noFrame
  deriving DecidableEq, Repr

inductive Txn where
  | plain (c : Cmd)
  | query (c : Cmd) (a : Outcome)
  | twiceGood (c : Cmd)
  | twiceFail (c : Cmd) (w : Why)
  | pending (c : Cmd)      -- the history ends inside the time-out: nothing to report yet
  | stray (p : Pkt)        -- a backward frame / "no frame" packet outside any transaction
  deriving DecidableEq, Repr

/-- the wake-ups of the watch task for a history -/
def events : List Item → List WatchEvent
  | [] => []
  | .pkt p :: r => .pkt p :: events r
  | .gap :: r => .timeout :: events r

def isOther : Item → Bool
  | .pkt .other => true
  | _ => false

/-- the history parsed into transactions; `dt` is the device type announced
by the forward frame just before the head of the list (0 = none) -/
def parse (dec : Decode) (dt : Nat) (l : List Item) : List Txn :=
  match l with
  | [] => []
  | .gap :: r => parse dec dt r
  | .pkt (.fwd f) :: r =>
    let c := decode dec f dt
    if c.info.twice then
      match _hr : r with
      | [] => [.pending c]
      | .gap :: r' => .twiceFail c .late :: parse dec (dtAfter c) r'
      | .pkt (.fwd g) :: r' =>
        if g = f then .twiceGood c :: parse dec (dtAfter c) r'
        else .twiceFail c .different :: parse dec (dtAfter c) r
      | .pkt .noFrame :: r' => .twiceFail c .noFrame :: parse dec (dtAfter c) r'
      | .pkt _ :: r' => .twiceFail c .answered :: parse dec (dtAfter c) r'
    else if c.info.resp.isSome then
      match _hr : r with
      | [] => [.pending c]
      | .gap :: r' => .query c .silent :: parse dec (dtAfter c) r'
      | .pkt (.fwd _) :: _ => .query c .silent :: parse dec (dtAfter c) r
      | .pkt (.back b) :: r' => .query c (.value b) :: parse dec (dtAfter c) r'
      | .pkt .backErr :: r' => .query c (.framing 255) :: parse dec (dtAfter c) r'
      | .pkt _ :: r' => .query c .silent :: parse dec (dtAfter c) r'
    else .plain c :: parse dec (dtAfter c) r
  | .pkt p :: r => .stray p :: parse dec dt r
termination_by l.length
decreasing_by all_goals (subst_vars; simp only [List.length_cons]; omega)

def transactions (dec : Decode) (h : List Item) : List Txn :=
  parse dec 0 (h.filter (fun i => !isOther i))

/-- what subscribers are told about a transaction -/
def reportOf : Txn → Option Report
  | .plain c => some ⟨c, none, false⟩
  | .query c a => some ⟨c, some a, false⟩
  | .twiceGood c => some ⟨c, none, false⟩
  | .twiceFail c _ => some ⟨c, none, true⟩
  | .pending _ => none
  | .stray _ => none

def reports (dec : Decode) (h : List Item) : List Report :=
  (transactions dec h).filterMap reportOf

/-! ## vocabulary of the corollaries -/

/-- the forward frames of a history, in order -/
def fwdFrames : List Item → List Fwd
  | [] => []
  | .pkt (.fwd f) :: r => f :: fwdFrames r
  | _ :: r => fwdFrames r

/-- the forward frames a transaction accounts for -/
def framesOf : Txn → List Fwd
  | .plain c => [c.frame]
  | .query c _ => [c.frame]
  | .twiceGood c => [c.frame, c.frame]
  | .twiceFail c _ => [c.frame]
  | .pending c => [c.frame]
  | .stray _ => []

def cmdOf : Txn → Option Cmd
  | .plain c | .query c _ | .twiceGood c | .twiceFail c _ | .pending c => some c
  | .stray _ => none

/-- the device types along a list of transactions: each command is decoded
under the device type left by the command before it (`dtAfter`: n after
ENABLE DEVICE TYPE n, 0 after anything else) and by nothing older -/
def DtChain (dec : Decode) : Nat → List Txn → Prop
  | _, [] => True
  | d, t :: ts =>
    match cmdOf t with
    | some c => c.dt = d ∧ c.info = dec c.frame d ∧ DtChain dec (dtAfter c) ts
    | none => DtChain dec d ts

/-- the serial receivers: every observed forward frame is one command,
decoded under the device type left by the frame before it -/
def serialCmds (dec : Decode) : Nat → List Fwd → List Cmd
  | _, [] => []
  | d, f :: fs => decode dec f d :: serialCmds dec (dtAfter (decode dec f d)) fs

/-- subscriber `i`'s view of a run of the registry: the items emitted while it
was subscribed (`on`), in order -/
def expectedFor {α} (i : Nat) : Bool → List (RegEv α) → List α
  | _, [] => []
  | on, .sub j :: r => expectedFor i (on || j == i) r
  | on, .unsub j :: r => expectedFor i (on && j != i) r
  | on, .emit x :: r => if on then x :: expectedFor i on r else expectedFor i on r

/-- what the keyed handler table needs of the keys (`hash(handler)`): whenever
an object is handed to `add_handler` / `del_handler`, its key differs from the
key of every OTHER object registered at that moment.  (CPython: `id()`-derived
hashes are distinct for objects alive at the same time; a registered child is
kept alive by the parent's table, the object handed in by the caller.)  `subs`
= the subscribers registered before the events. -/
def KeysFresh {α} (key : Nat → Nat) : List Nat → List (RegEv α) → Prop
  | _, [] => True
  | subs, .sub i :: evs =>
    (∀ j ∈ subs, j ≠ i → key j ≠ key i) ∧ KeysFresh key (if i ∈ subs then subs else subs ++ [i]) evs
  | subs, .unsub i :: evs =>
    (∀ j ∈ subs, j ≠ i → key j ≠ key i) ∧ KeysFresh key (subs.filter (· ≠ i)) evs
  | subs, .emit _ :: evs => KeysFresh key subs evs

/-- the time-out the gaps are measured against, in milliseconds -/
def busWatchTimeoutMs : Nat := 200

end DaliVerif.Spec.Transactions
