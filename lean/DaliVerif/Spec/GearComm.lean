import DaliVerif.Spec.GearBus
/-! placeholder, filled in below -/
namespace DaliVerif.GearSeq
def commVerdict (_b : Bus) (_av : Option (List Nat)) (_re _dry : Bool) (_o : Out Bus Unit) : String := "n/a"
end DaliVerif.GearSeq
