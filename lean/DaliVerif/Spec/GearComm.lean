import DaliVerif.Spec.GearBus
/-!
# C07 — what the property says about a commissioning run, as a decidable check

`commCheck` takes the initial specification bus, the caller's arguments and an observation
(result / exception class, commands in order, final bus) and returns the list of clauses of the
property that the observation violates (`[]` = all hold).  It is written from the property text:

* `ends`      a normal return ends with TERMINATE and leaves every unit's initialisationState DISABLED
* `raise`     the only exception is ProgramShortAddressFailure, and only when not a dry run and some
              unit is faulty (does not store / does not verify)
* `distinct`  the addresses handed out (PROGRAM SHORT ADDRESS arguments, in order) are pairwise distinct
* `permitted` … lie in the permitted list, in its order, skipping those in use
* `inuse`     … avoid every address in use before the run (when not re-addressing)
* `others`    non-participants (addressed units when not re-addressing) keep their address
* `dry`       a dry run changes no short address and programs nothing
* `count`     a normal non-dry return on a fault-free bus handed out min(#participants, #permitted left)
* `holds`     … and, when no re-randomisation happened, the participants hold exactly those addresses,
              pairwise distinct, the first found first (the re-draw hazard of DESIGN §6 needs a second round)
* `bound`     at most `rounds · (n + 1) · 202 + 140` commands for `rounds` RANDOMISE rounds on `n` units
-/
namespace DaliVerif.GearSeq

def progArgs (t : List Cmd) : List Nat :=
  t.filterMap (fun c => match c with | .programShort a => some a | _ => none)

def countRandomise (t : List Cmd) : Nat := (t.filter (· == .randomise)).length

def nodupB : List Nat → Bool
  | [] => true
  | x :: xs => !xs.contains x && nodupB xs

def commCheck (b : Bus) (av : Option (List Nat)) (re dry : Bool) (o : Out Bus Unit) : List String :=
  let avail0 := av.getD (List.range 64)
  let inUse := b.filterMap (·.short)
  let avail' := if re then avail0 else avail0.filter (fun a => !inUse.contains a)
  let P := progArgs o.trace
  let faulty := b.any (fun u => u.noStore || u.noVerify)
  let parts := b.filter (fun u => re || u.short.isNone)
  let n := b.length
  let rounds := countRandomise o.trace
  let pairs := b.zip o.st
  let c (name : String) (ok : Bool) : List String := if ok then [] else [name]
  c "ends" (match o.res with
      | .ret _ => o.trace.getLast? == some .terminate && o.st.all (fun u => u.init == .disabled)
      | _ => true) ++
  c "raise" (match o.res with
      | .ret _ => true
      | .raised e => e == .ProgramShortAddressFailure && !dry && faulty
      | .outOfFuel => false) ++
  c "distinct" (nodupB P) ++
  c "permitted" (P == avail'.take P.length) ++
  c "inuse" (re || P.all (fun a => !inUse.contains a)) ++
  c "others" (b.length == o.st.length &&
      (re || pairs.all (fun (u, u') => u.short.isNone || u'.short == u.short))) ++
  c "dry" (!dry || (P.isEmpty && pairs.all (fun (u, u') => u'.short == u.short))) ++
  c "count" (match o.res with
      | .ret _ => dry || faulty || P.length == min parts.length avail'.length
      | _ => true) ++
  c "holds" (match o.res with
      | .ret _ =>
        dry || faulty || rounds != 1 ||
          (let held := (pairs.filter (fun (u, _) => re || u.short.isNone)).filterMap (fun (_, u') => u'.short)
           held.length == P.length && nodupB held && held.all (fun a => P.contains a))
      | _ => true) ++
  c "bound" (o.trace.length ≤ rounds * (n + 1) * 202 + 140)

def commVerdict (b : Bus) (av : Option (List Nat)) (re dry : Bool) (o : Out Bus Unit) : String :=
  match commCheck b av re dry o with
  | [] => "ok"
  | l => "FAIL:" ++ ",".intercalate l

end DaliVerif.GearSeq
