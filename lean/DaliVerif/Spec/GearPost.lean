import DaliVerif.Spec.GearBus
/-!
# What the properties C08 / C14 / C07 say, as decidable post-conditions

Each `…Post` takes the scenario (initial specification bus + the caller's
arguments) and an observation `Out Bus α` (result or exception class, commands
sent in order, final bus) and says whether the observation satisfies the
property.  They are used twice:

* the theorems of `Props/C08.lean`, `C14.lean`, `C07.lean` prove `…Post … (run of the model) = true`
  for every scenario;
* the driver evaluates the very same function on what the *real* generator did
  against the same bus (`post=ok|FAIL`), which the harness reports as a violation.

They are written from the property text and Appendix A, not from the model.
-/
namespace DaliVerif.GearSeq

/-- `l` strictly ascending -/
def ascending : List Nat → Bool
  | [] => true
  | [_] => true
  | a :: b :: t => a < b && ascending (b :: t)

/-- a unit whose device-type list is what part 102 allows: strictly ascending, 0..253 -/
def Gear.typesConforming (u : Gear) : Bool := ascending u.types && u.types.all (· < 254)

def maskOf (l : List Nat) : Nat := (l.filter (· < 16)).foldl (fun m i => m ||| 2 ^ i) 0

def isDSE {α : Type} : Outcome α → Bool
  | .raised .DALISequenceError => true
  | _ => false

/-! ## C08 -/

/-- QueryDeviceTypes against a bus: exactly the list of the one conforming unit addressed;
an error when nobody or several units answer; never a non-ascending list; bounded. -/
def qdtPost (b : Bus) (a : Addr) (o : Out Bus (List Nat)) : Bool :=
  o.trace.length ≤ 257 &&
  (match o.res with
   | .ret l => ascending l
   | .raised e => e == .DALISequenceError
   | .outOfFuel => false) &&
  (match b.filter (·.addressed a) with
   | [] => isDSE o.res
   | [u] => if u.typesConforming then o.res == .ret u.types else true
   | _ => isDSE o.res)

/-- QueryDeviceTypes against an arbitrary answer stream: bounded, and either
DALISequenceError or exactly the answers given, which then are a strictly ascending list
closed by 254 (or the single-type / no-type answer). -/
def qdtStreamPost (answers : Nat → Resp) (o : Out Nat (List Nat)) : Bool :=
  o.trace.length ≤ 257 &&
  (match o.res with
   | .raised e => e == .DALISequenceError
   | .outOfFuel => false
   | .ret l =>
     ascending l &&
     (match answers 0 with
      | .byte v =>
        if v < 254 then l == [v] && o.trace.length == 1
        else if v = 254 then l == [] && o.trace.length == 1
        else v == 255 && !l.isEmpty && o.trace.length == l.length + 2 &&
             (List.range l.length).all (fun i => answers (i + 1) == .byte (l.getD i 0)) &&
             answers (l.length + 1) == .byte 254
      | _ => false))

def groupsUnchanged (b b' : Bus) : Bool := b.map (·.groups) == b'.map (·.groups)

/-- QueryGroups: exactly the membership of the one unit addressed, two commands, nothing changed. -/
def groupsPost (b : Bus) (a : Addr) (o : Out Bus (List Nat)) : Bool :=
  groupsUnchanged b o.st && o.trace.length ≤ 2 &&
  (match b.filter (·.addressed a) with
   | [u] => o.res == .ret (bitsOf u.groups) && o.trace == [.queryGroups07 a, .queryGroups815 a]
   | _ => isDSE o.res)

/-- per unit: membership afterwards -/
def groupsAfter (b b' : Bus) (sel : Gear → Bool) (req : Nat) : Bool :=
  b.length == b'.length &&
  (b.zip b').all (fun (u, u') => if sel u then u'.groups % 65536 == req else u'.groups == u.groups)

/-- SetGroups.  `req` is the requested set as a 16-bit mask.
short / int destination with exactly one unit there: ADD exactly for `requested \ current`,
then REMOVE exactly for `current \ requested` (in any order within each block), after the two
queries; membership afterwards = request.  No unit / several units there: DALISequenceError,
nothing changed.  Other destinations: 16 commands, every addressed unit ends with the request. -/
def setGroupsPost (b : Bus) (a : Addr) (req : Nat) (o : Out Bus Unit) : Bool :=
  match a with
  | .short _ =>
    (match b.filter (·.addressed a) with
     | [u] =>
       let cur := bitsOf u.groups
       let adds := (bitsOf req).filter (fun i => !cur.contains i)
       let rems := cur.filter (fun i => !(bitsOf req).contains i)
       o.res == .ret () &&
       o.trace.take 2 == [.queryGroups07 a, .queryGroups815 a] &&
       ((o.trace.drop 2).take adds.length).isPerm (adds.map (Cmd.addToGroup a)) &&
       ((o.trace.drop 2).drop adds.length).isPerm (rems.map (Cmd.removeFromGroup a)) &&
       groupsAfter b o.st (·.addressed a) req
     | _ => isDSE o.res && groupsUnchanged b o.st)
  | _ =>
    o.res == .ret () && o.trace.length == 16 &&
    (o.trace.map (fun c => match c with
      | .addToGroup _ i => i | .removeFromGroup _ i => i | _ => 16)).isPerm (List.range 16) &&
    o.trace.all (fun c => match c with
      | .addToGroup a' i => a' == a && (bitsOf req).contains i
      | .removeFromGroup a' i => a' == a && i < 16 && !(bitsOf req).contains i
      | _ => false) &&
    groupsAfter b o.st (·.addressed a) req

/-! ## C14 -/

def colourUntouched (u u' : Gear) : Bool :=
  u'.tc == u.tc && u'.tempTc == u.tempTc && u'.coolest == u.coolest && u'.warmest == u.warmest &&
  u'.physCoolest == u.physCoolest && u'.physWarmest == u.physWarmest

/-- SetDT8ColourValueTc for `tc < 65536`: DTR0 := low byte, DTR1 := high byte, then the
device-type-8 command, then ACTIVATE; every addressed colour unit ends with exactly `tc`
(limited to its own [coolest, warmest]; MASK = 65535 means "no change" to a unit),
every other unit keeps its colour state. -/
def setTcPost (b : Bus) (a : Addr) (tc : Nat) (o : Out Bus Unit) : Bool :=
  o.res == .ret () &&
  o.trace == [.dtr0 (tc % 256), .dtr1 (tc / 256), .setTempTc a, .activate a] &&
  b.length == o.st.length &&
  (b.zip o.st).all (fun (u, u') =>
    u'.dtr0 == tc % 256 && u'.dtr1 == tc / 256 &&
    if u.addressed a && u.types.contains 8 then
      u'.tc == (if tc = MASK16 then u.tc else Gear.clamp u.coolest u.warmest tc) &&
      u'.tempTc == MASK16 &&
      u'.coolest == u.coolest && u'.warmest == u.warmest &&
      u'.physCoolest == u.physCoolest && u'.physWarmest == u.physWarmest
    else colourUntouched u u')

/-- SetDT8TcLimit for `tc < 65536`, selector `w ∈ 0..3`: DTR0, DTR1, DTR2 loaded before the
command; the selected limit of every addressed colour unit is exactly `tc`, nothing else moves. -/
def setTcLimitPost (b : Bus) (a : Addr) (w tc : Nat) (o : Out Bus Unit) : Bool :=
  o.res == .ret () &&
  o.trace == [.dtr0 (tc % 256), .dtr1 (tc / 256), .dtr2 w, .storeTcLimit a] &&
  b.length == o.st.length &&
  (b.zip o.st).all (fun (u, u') =>
    if u.addressed a && u.types.contains 8 then
      u'.tc == u.tc && u'.tempTc == u.tempTc &&
      u'.coolest == (if w = 0 then tc else u.coolest) &&
      u'.warmest == (if w = 1 then tc else u.warmest) &&
      u'.physCoolest == (if w = 2 then tc else u.physCoolest) &&
      u'.physWarmest == (if w = 3 then tc else u.physWarmest)
    else colourUntouched u u')

/-- QueryDT8ColourValue: exactly the 16-bit register the one addressed colour unit reports for
the selector (QUERY ACTUAL LEVEL first latches the report registers) when its high byte is
below MASK; `None` when nobody / several units / a unit without that register answers, or MASK. -/
def queryColourPost (b : Bus) (a : Addr) (sel : Nat) (o : Out Bus (Option Nat)) : Bool :=
  o.trace == [.queryActualLevel a, .dtr0 sel, .queryColourValue a, .queryContentDTR0 a] &&
  (match b.filter (·.addressed a) with
   | [u] =>
     (match (if u.types.contains 8 then ({ u with reportTc := u.tc } : Gear).colourReg sel else none) with
      | some v => if v / 256 < 255 then o.res == .ret (some v) else o.res == .ret none
      | none => o.res == .ret none)
   | _ => o.res == .ret none) &&
  b.length == o.st.length && (b.zip o.st).all (fun (u, u') => colourUntouched u u')

/-- QueryDT8ColourValue against an arbitrary answer stream: four commands; the value is
`LSB + 256·MSB` exactly when both bytes arrive cleanly and the MSB is not MASK, else `None`. -/
def queryColourStreamPost (answers : Nat → Resp) (o : Out Nat (Option Nat)) : Bool :=
  o.trace.length == 4 &&
  (match answers 2, answers 3 with
   | .byte m, .byte l => if m = 255 then o.res == .ret none else o.res == .ret (some (l + 256 * m))
   | _, _ => o.res == .ret none)

end DaliVerif.GearSeq
