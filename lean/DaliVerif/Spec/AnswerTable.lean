import DaliVerif.Model.Answer
/-!
# C16 — the answer table: what each gateway's protocol reports for a bus
outcome, and what `send` has to return for it

Written from the property text and the gateways' protocol descriptions, not
from the drivers: numbers below are literals of the vendor protocols
(Tridonic DALI-USB report types 0x71–0x77, hasseb status byte, daliserver
status byte, the ATX hat's `N` / `J<hex>` lines), *pinned* where I cannot
vouch for them independently of the comments in the drivers.
-/
namespace DaliVerif.Spec.AnswerTable
open DaliVerif.Answer

inductive Gateway where
  | tridonic | hasseb | luba | sci | daliserver | atx
  deriving DecidableEq, Repr

/-- what happened on the bus after the forward frame(s) of a command -/
inductive Bus where
  | silent
  | value (b : Nat)
  | garbled
  deriving DecidableEq, Repr

/-- the gateways whose protocol reports a garbled answer as such (property
text: "Tridonic, hasseb, daliserver — the serial gateways only log it") -/
def reportsGarbled : Gateway → Bool
  | .tridonic | .hasseb | .daliserver => true
  | _ => false

/-- the property's first sentence as a predicate on `send`'s result -/
def conforms (gw : Gateway) (c : CmdInfo) (bus : Bus) (a : Answer) : Bool :=
  match c.resp with
  | none => a == .none
  | some cls =>
    match bus with
    | .silent => a == .resp cls .silent
    | .value b => a == .resp cls (.value b)
    | .garbled =>
      match a with
      | .resp cls' (.framing _) => reportsGarbled gw && cls' == cls
      | .resp cls' .silent => !reportsGarbled gw && cls' == cls
      | _ => false

/-! ## how each protocol reports a bus outcome -/

/-- Tridonic DALI-USB: every transmitted forward frame is echoed as a report
of type 0x73 (16 bit) / 0x76 (24 bit), then the outcome: 0x71 no frame, 0x72
backward frame (value in the last frame byte), 0x77 info with status 3 =
framing error.  All carry the command's sequence number. -/
def tridonicReports (bits24 : Bool) (twice : Bool) (bus : Bus) : List TMsg :=
  let echo := TMsg.rep (if bits24 then 0x76 else 0x73) 0 0 0 0
  let fin := match bus with
    | .silent => TMsg.rep 0x71 0 0 0 0
    | .value b => TMsg.rep 0x72 0 0 0 b
    | .garbled => TMsg.rep 0x77 0 0 0 3
  (if twice then [echo, echo] else [echo]) ++ [fin]

/-- hasseb: status 1 = no answer, 2 = ok + data byte, 3 = invalid answer + what was read -/
def hassebReport (bus : Bus) (junk : Nat) : HRep :=
  match bus with
  | .silent => .rep 1 junk
  | .value b => .rep 2 b
  | .garbled => .rep 3 junk

/-- daliserver: status 0 = no answer, 1 = answer in `rval`, 255 = failure (garbled answer) -/
def daliserverReply (bus : Bus) (junk : Nat) : Nat × Nat × Nat × Nat :=
  match bus with
  | .silent => (2, 0, junk, 0)
  | .value b => (2, 1, b, 0)
  | .garbled => (2, 255, junk, 0)

/-- LUBA / SCI: an 8-bit frame event inside the answer window, or nothing; a
garbled answer is an error event the receiver only logs -/
def serialWait (bus : Bus) : SWait :=
  match bus with
  | .value b => .got b
  | _ => .timeout

/-- ATX hat: one line per transmission, `N` for no answer, `J` + two hex
digits for a backward frame (a send-twice command is answered twice) -/
def atxLines (twice : Bool) (bus : Bus) : List ALine :=
  let l := match bus with
    | .value b => ALine.j b (some b)
    | _ => ALine.n 0
  if twice then [l, l] else [l]

/-- the status / type codes the models use must be the protocol's -/
def protocolConstants : List (Nat × Nat) :=
  [(Gen.Watch.RESPONSE_NO_FRAME, 0x71), (Gen.Watch.RESPONSE_FRAME_DALI8, 0x72),
   (Gen.Watch.RESPONSE_FRAME_DALI16, 0x73), (Gen.Watch.RESPONSE_FRAME_DALI24, 0x76),
   (Gen.Watch.RESPONSE_INFO, 0x77), (Gen.Watch.BUS_STATUS_FRAMING_ERROR, 3),
   (Gen.Watch.MODE_INFO, 0x01), (Gen.Watch.MODE_OBSERVE, 0x11), (Gen.Watch.MODE_RESPONSE, 0x12),
   (Gen.Watch.HASSEB_NO_DATA_AVAILABLE, 0), (Gen.Watch.HASSEB_NO_ANSWER, 1),
   (Gen.Watch.HASSEB_OK, 2), (Gen.Watch.HASSEB_INVALID_ANSWER, 3),
   (Gen.Watch.BUS_WATCH_TIMEOUT_MS, 200)]

end DaliVerif.Spec.AnswerTable
