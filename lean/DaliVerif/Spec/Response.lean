import DaliVerif.Model.ResponseTypes
/-!
# What C06 says a response must do — written from the property, not from the code

The property sorts response types into the categories *yes/no*, *numeric*,
*numeric with MASK*, *bitmap*, *enumerated* and *generic*.  `catOf` reads the
category off the library's own base classes (what a user of
`cmd.response` is told the class *is*), and the predicates below say, per
category and bus outcome, which results of `value`, `str()`, `status`, the
named-bit attributes and the constructor are acceptable.  They are predicates
on results (`PyRes Val`), so they can be evaluated on what the *real code*
returned (driver op `spec …`, the property oracle) as well as on the model
(`Props.C06`).
-/
namespace DaliVerif.Spec.Resp
open DaliVerif DaliVerif.Resp

inductive Cat where
  | generic | yesNo | numeric | numericMask | bitmap | enum | enumMask
  deriving DecidableEq, Repr

/-- The category of a class: the most specific of the library's response base
classes it derives from.  IEC 62386-209 lets QUERY ASSIGNED COLOUR answer
MASK, so that enumerated response is the one `enumMask`. -/
def catOf (c : RespClass) : Cat :=
  if "YesNoResponse" ∈ c.mro then .yesNo
  else if "NumericResponseMask" ∈ c.mro then .numericMask
  else if "NumericResponse" ∈ c.mro then .numeric
  else if "BitmapResponse" ∈ c.mro then .bitmap
  else if "EnumResponse" ∈ c.mro then
    (if c.name = "QueryAssignedColourResponse" then .enumMask else .enum)
  else .generic

/-- a value that is an `int` to Python (`bool` and `IntEnum` members are) -/
def isInteger : Val → Bool
  | .int _ | .bool _ | .enum _ => true
  | _ => false

/-- "a non-integer marker": a value (not an exception) that is not an integer -/
def nonIntMarker : PyRes Val → Bool
  | .ok v => !isInteger v
  | .error _ => false

/-- "hands back the frame itself, and a response that cannot tolerate a
missing or garbled answer says so with MissingResponse or ResponseError" -/
def genericOK (expected errorAcceptable : Bool) (o : Outcome) (r : PyRes Val) : Bool :=
  match o with
  | .none => if expected then r == .error .MissingResponse else r == .ok .none
  | .err b => if errorAcceptable then r == .ok (.frame true b.val) else r == .error .ResponseError
  | .ok b => r == .ok (.frame false b.val)

def memberValues (c : RespClass) : List Nat := c.members.map (·.2)

/-- is `r` an acceptable result of `value` for class `c` on outcome `o`? -/
def valueOK (c : RespClass) (o : Outcome) (r : PyRes Val) : Bool :=
  match catOf c with
  | .yesNo =>
    -- true exactly when anything at all was received
    r == .ok (.bool (match o with | .none => false | _ => true))
  | .numeric =>
    match o with
    | .ok b => r == .ok (.int b.val)
    | _ => nonIntMarker r
  | .numericMask =>
    match o with
    | .ok b => if b.val = 255 then r == .ok (.str "MASK") else r == .ok (.int b.val)
    | _ => nonIntMarker r
  | .generic | .bitmap => genericOK c.expected c.errorAcceptable o r
  | .enum =>
    match o with
    | .ok b =>
      if b.val ∈ memberValues c then r == .ok (.enum b.val) else r == .error .ValueError
    | _ => genericOK c.expected c.errorAcceptable o r
  | .enumMask =>
    match o with
    | .ok b =>
      if b.val ∈ memberValues c then r == .ok (.enum b.val)
      else if b.val = 255 then r == .ok (.str "MASK")
      -- an undefined code is rejected: an exception or a non-integer marker, never a member
      else (r == .error .ValueError || nonIntMarker r)
    | _ => genericOK c.expected c.errorAcceptable o r

/-- "Rendering a response as text never raises MissingResponse or ResponseError" -/
def strOK {α} [BEq α] (r : PyRes α) : Bool :=
  match r with
  | .error .MissingResponse => false
  | .error .ResponseError => false
  | _ => true

/-- names of the set bits, least significant first, unnamed bits left out -/
def setBitNames (bits : List String) (b : Nat) : List String :=
  bits.zipIdx.filterMap fun (n, i) => if b.testBit i ∧ n ≠ "" then some n else none

/-- "a bitmap response lists exactly the names of the set bits" (clean frame);
silence on a class that expects an answer is `MissingResponse`; a garbled
answer never lists bit names -/
def statusOK (c : RespClass) (o : Outcome) (r : PyRes Val) : Bool :=
  match o with
  | .ok b => r == .ok (.strs (setBitNames c.bits b.val))
  | .none => if c.expected then r == .error .MissingResponse else true
  | .err _ =>
    match r with
    | .ok (.strs l) => l.all fun s => !(c.bits.contains s)
    | .ok _ => false
    | .error e => e == .ResponseError

/-- "… and exposes each named bit": the attribute of bit `i` is the bit of a
clean frame, and is never a truth value when there is no clean frame -/
def bitOK (o : Outcome) (i : Nat) (r : PyRes Val) : Bool :=
  match o with
  | .ok b => r == .ok (.bool (b.val.testBit i))
  | _ => match r with
    | .ok (.bool _) => false
    | _ => true

/-- the attribute name under which bit name `n` is exposed: blanks become
underscores, hyphens are dropped (evaluated by the compiled driver only) -/
def attrName (n : String) : String := (n.replace " " "_").replace "-" ""

/-- "a response can only be built from a backward frame or None" -/
def ctorAccepts (isNone isBackwardFrame : Bool) : Bool := isNone || isBackwardFrame

end DaliVerif.Spec.Resp
