import DaliVerif.Model.Response
import DaliVerif.Spec.Response
import DaliVerif.Spec.ResponseTable
import DaliVerif.Gen.Responses
import DaliVerif.Drivers.Proto
/-!
Line protocol for the response model and the C06 specification.

    ctor n | bf <b> | bfe <b> | of | <pyval>         -> ok | err TypeError
    raw <o>                                          -> ok none | ok frame <e> <b>
    value|str|status|error <module:Class> <o>        -> ok <val> | err <Class> | unknown-impl
    attr <module:Class> <name> <o>
    classes                                          -> ok <module:Class> …
    spec cat <module:Class>                          -> ok <category>
    spec row <module:Class>                          -> ok exp=… erra=… bits=… members=… types=… | ok absent   (Spec.Resp.table)
    spec value <module:Class> <o> <result…>          -> ok 1 | ok 0     (Spec.Resp.valueOK)
    spec status <module:Class> <o> <result…>         -> ok 1 | ok 0     (Spec.Resp.statusOK)
    spec bit <o> <i> <result…>                       -> ok 1 | ok 0     (Spec.Resp.bitOK)
    spec str <result…>                               -> ok 1 | ok 0     (Spec.Resp.strOK)
    spec attrname <bit name…>                        -> ok <attribute name>
    spec ctor <isNone 0|1> <isBackwardFrame 0|1>     -> ok 1 | ok 0

`<o>` is `n` (no answer), `k<b>` (clean frame), `e<b>` (framing error).
`<val>` is `none | frame <e> <b> | int <n> | bool <0|1> | str <text> | enum <n> |
list <a>|<b>|… | volts <n>`.
-/
namespace DaliVerif.RespDrv
open DaliVerif Proto Resp

def parseOutcome (s : String) : Option Outcome :=
  if s == "n" then some .none
  else if s.startsWith "k" then
    match parseNat? (s.drop 1).copy with
    | some b => if h : b < 256 then some (.ok ⟨b, h⟩) else none
    | none => none
  else if s.startsWith "e" then
    match parseNat? (s.drop 1).copy with
    | some b => if h : b < 256 then some (.err ⟨b, h⟩) else none
    | none => none
  else none

def findClass (key : String) : Option RespClass :=
  Gen.responses.find? fun c => c.module ++ ":" ++ c.name == key

def fmtVal : Val → String
  | .none => "none"
  | .frame e b => s!"frame {if e then 1 else 0} {b}"
  | .int n => s!"int {n}"
  | .bool b => if b then "bool 1" else "bool 0"
  | .str s => "str " ++ s
  | .enum n => s!"enum {n}"
  | .strs l => "list " ++ "|".intercalate l

def fmtText : Text → String
  | .s s => "str " ++ s
  | .volts n => s!"volts {n}"

def fmtOpt {α} (f : α → String) : Option (PyRes α) → String
  | none => "unknown-impl"
  | some r => (fmtRes f r).trimAsciiEnd.copy

def parseErr (s : String) : PyErr :=
  match s with
  | "TypeError" => .TypeError | "ValueError" => .ValueError | "IndexError" => .IndexError
  | "AttributeError" => .AttributeError | "KeyError" => .KeyError
  | "MissingResponse" => .MissingResponse | "ResponseError" => .ResponseError
  | "OverflowError" => .OverflowError | "AssertionError" => .AssertionError
  | "NotImplementedError" => .NotImplementedError | "RuntimeError" => .RuntimeError
  | _ => .Exception

def parseResult : List String → Option (PyRes Val)
  | ["err", e] => some (.error (parseErr e))
  | ["ok", "none"] => some (.ok .none)
  | ["ok", "frame", e, b] =>
    match parseNat? e, parseNat? b with
    | some e, some b => some (.ok (.frame (e != 0) b))
    | _, _ => none
  | ["ok", "int", n] => (parseNat? n).map fun n => .ok (.int n)
  | ["ok", "enum", n] => (parseNat? n).map fun n => .ok (.enum n)
  | ["ok", "bool", "0"] => some (.ok (.bool false))
  | ["ok", "bool", "1"] => some (.ok (.bool true))
  | "ok" :: "str" :: rest => some (.ok (.str (" ".intercalate rest)))
  | "ok" :: "list" :: rest =>
    let body := " ".intercalate rest
    some (.ok (.strs (if body == "" then [] else body.splitOn "|")))
  -- anything else the implementation returned (float, other object, negative int, …)
  | ["ok", "other"] => some (.ok (.strs ["<other>"]))
  | _ => none

def b01 (b : Bool) : String := if b then "ok 1" else "ok 0"

def catName : Spec.Resp.Cat → String
  | .generic => "generic" | .yesNo => "yesNo" | .numeric => "numeric"
  | .numericMask => "numericMask" | .bitmap => "bitmap" | .enum => "enum" | .enumMask => "enumMask"

def handle : List String → String
  | ["classes"] => "ok " ++ " ".intercalate (Gen.responses.map fun c => c.module ++ ":" ++ c.name)
  | ["ctor", "n"] => fmtRes (fun _ => "") (construct .none) |>.trimAsciiEnd.copy
  | ["ctor", "of"] => fmtRes (fun _ => "") (construct .otherFrame) |>.trimAsciiEnd.copy
  | ["ctor", "bf", b] =>
    match parseNat? b with
    | some b => if h : b < 256 then (fmtRes (fun _ => "") (construct (.backward false ⟨b, h⟩))).trimAsciiEnd.copy else "bad-op"
    | none => "bad-op"
  | ["ctor", "bfe", b] =>
    match parseNat? b with
    | some b => if h : b < 256 then (fmtRes (fun _ => "") (construct (.backward true ⟨b, h⟩))).trimAsciiEnd.copy else "bad-op"
    | none => "bad-op"
  | ["ctor", v] =>
    match parseVal? v with
    | some v => (fmtRes (fun _ => "") (construct (.py v))).trimAsciiEnd.copy
    | none => "bad-op"
  | ["raw", o] =>
    match parseOutcome o with
    | some o => "ok " ++ fmtVal (rawValue o)
    | none => "bad-op"
  | ["value", k, o] =>
    match findClass k, parseOutcome o with
    | some c, some o => fmtOpt fmtVal (respValue c o)
    | _, _ => "bad-op"
  | ["str", k, o] =>
    match findClass k, parseOutcome o with
    | some c, some o => fmtOpt fmtText (respStr c o)
    | _, _ => "bad-op"
  | ["status", k, o] =>
    match findClass k, parseOutcome o with
    | some c, some o => fmtOpt fmtVal (respStatus c o)
    | _, _ => "bad-op"
  | ["error", k, o] =>
    match findClass k, parseOutcome o with
    | some c, some o => fmtOpt fmtVal (respError c o)
    | _, _ => "bad-op"
  | ["attr", k, name, o] =>
    match findClass k, parseOutcome o with
    | some c, some o => fmtOpt fmtVal (respAttr c name o)
    | _, _ => "bad-op"
  | ["spec", "cat", k] =>
    match findClass k with
    | some c => "ok " ++ catName (Spec.Resp.catOf c)
    | none => "bad-op"
  | ["spec", "row", k] =>
    match Spec.Resp.table.find? fun r => r.key == k with
    | some r =>
      "ok exp=" ++ (if r.expected then "1" else "0") ++ " erra=" ++ (if r.errorAcceptable then "1" else "0") ++
      " bits=" ++ "|".intercalate r.bits ++
      " members=" ++ ",".intercalate (r.members.map fun m => m.1 ++ ":" ++ toString m.2) ++
      " types=" ++ "|".intercalate (r.types.map fun t => toString t.1 ++ ":" ++ t.2)
    | none => "ok absent"
  | "spec" :: "value" :: k :: o :: res =>
    match findClass k, parseOutcome o, parseResult res with
    | some c, some o, some r => b01 (Spec.Resp.valueOK c o r)
    | _, _, _ => "bad-op"
  | "spec" :: "status" :: k :: o :: res =>
    match findClass k, parseOutcome o, parseResult res with
    | some c, some o, some r => b01 (Spec.Resp.statusOK c o r)
    | _, _, _ => "bad-op"
  | "spec" :: "bit" :: o :: i :: res =>
    match parseOutcome o, parseNat? i, parseResult res with
    | some o, some i, some r => b01 (Spec.Resp.bitOK o i r)
    | _, _, _ => "bad-op"
  | "spec" :: "str" :: res =>
    match parseResult res with
    | some r => b01 (Spec.Resp.strOK r)
    | none => "bad-op"
  | "spec" :: "attrname" :: rest => "ok " ++ Spec.Resp.attrName (" ".intercalate rest)
  | ["spec", "ctor", a, b] =>
    match parseNat? a, parseNat? b with
    | some a, some b => b01 (Spec.Resp.ctorAccepts (a != 0) (b != 0))
    | _, _ => "bad-op"
  | _ => "bad-op"

end DaliVerif.RespDrv
