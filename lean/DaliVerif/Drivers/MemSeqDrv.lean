import DaliVerif.Model.MemSeq
import DaliVerif.Spec.MemUnit
import DaliVerif.Gen.MemSeqTables
import DaliVerif.Drivers.Proto
/-!
# Lock-step driver for the memory sequences (C09, C10) — exe `m_memseq`

    unit <dev> <addr> <bank> <last> <hasLock> <hasLatch> <lockByte> <dtr0> <dtr1> <dtr2> <we> <advance> <unlock> <drift> <cells>
        cells = 256 comma-separated tokens, `-` (not implemented) or <r|w|l><value>:
        r read-only (live: value(t) = (v + drift*t) mod 256), w writable, l writable when unlocked      -> ok
    fault <k> none|err|byte <n>                                                                      -> ok
    stall <k,k,…>      the unit does not advance DTR0 on the frames with these indices (0-based,
                       counted from `seq`); everything else about those frames is as usual        -> ok
    seq readraw <g|d|i|o> <a> <bank> <loc,loc,…|->
    seq readval <g|d|i|o> <a> <bankKey.valueName>
    seq readall <g|d|i|o> <a> <bankKey> <useLatch>
    seq writeraw <g|d|i|o> <a> <bankKey.valueName> <b,b,…|-> <allowShort> <forceUnlock> <ignoreFb>   -> ok
    cmd <ClassName> <bits> <frame>                                                -> none | byte <n> | err
    end ok <value> | end err <Class>        -> ok sync=… model=… post=… [raw=name:b.b.b;…]
        value: `b:1,2,3` (bytes) | `u` (None) | `names:A,B,…` (values reported by read_all, sorted)

`post` is the property's post-condition evaluated on the specification unit as
driven by the real code's commands and on what the real code returned.
-/
namespace DaliVerif.MemSeqDrv
open DaliVerif DaliVerif.DevMem Proto

inductive Val where
  | unit
  | bytes (l : List Nat)
  | raw (l : List (Option Nat))        -- model side of read_all
  | names (l : List String)            -- implementation side of read_all
  deriving DecidableEq, Repr

inductive Seq where
  | readraw (arg : AddrArg) (bank : Nat) (locs : List Nat)
  | readall (arg : AddrArg) (b : BankDecl) (useLatch : Bool)
  | writeraw (arg : AddrArg) (v : ValueDecl) (raw : List Nat) (allowShort forceUnlock ignoreFb : Bool)

def Seq.prog : Seq → Prog Val
  | .readraw arg bank locs => (readRaw arg bank locs).bind fun l => .done (.bytes l)
  | .readall arg b ul => (readAll arg b.address b.hasLatch ul).bind fun l => .done (.raw l)
  | .writeraw arg v raw s f i => (writeRaw arg v.bank v.locs raw s f i).bind fun _ => .done .unit

def emptyBank : Bank :=
  { number := 0, last := 0, impl := fun _ => false, access := fun _ => .ro, live := fun _ _ => 0,
    rw := fun _ => 0, hasLock := false, hasLatch := false, lockByte := 0xFF, snap := none }

def emptyUnit : MemUnit :=
  { dev := false, addr := 0, clock := 0, dtr0 := 0, dtr1 := 0, dtr2 := 0, we := false,
    bank := emptyBank, advance := true, unlockValue := 0x55 }

structure St where
  unit : MemUnit := emptyUnit
  unit0 : MemUnit := emptyUnit
  seq : Option Seq := none
  model : Option (Prog Val) := none
  diverged : Option String := none
  idx : Nat := 0
  fault : Option (Nat × Resp) := none
  /-- frames (indices) on which the unit does not advance DTR0 -/
  stall : List Nat := []
  /-- an injected fault changed an answer the code looks at -/
  faulted : Bool := false
  /-- the answer that was substituted -/
  faultResp : Resp := .none
  snapTime : Option Nat := none

def fmtResp : Resp → String
  | .none => "none" | .err => "err" | .byte b => s!"byte {b}"

def parseResp : List String → Option Resp
  | ["none"] => some .none
  | ["err"] => some .err
  | ["byte", n] => (parseNat? n).map .byte
  | _ => none

def parseBool (s : String) : Option Bool :=
  if s == "1" then some true else if s == "0" then some false else none

def parseCell (s : String) : Option (Option (Access × Nat)) :=
  if s == "-" then some none
  else
    let acc := if s.startsWith "r" then some Access.ro else if s.startsWith "w" then some Access.rw
      else if s.startsWith "l" then some Access.rwLock else none
    match acc, parseNat? (s.drop 1).copy with
    | some a, some v => some (some (a, v))
    | _, _ => none

def parseArg (k a : String) : Option AddrArg :=
  match k, parseInt? a with
  | "g", some (.ofNat n) => some (.gearShort n)
  | "d", some (.ofNat n) => some (.devShort n)
  | "i", some i => some (.int i)
  | "o", _ => some .other
  | _, _ => none

def parseNatList (s : String) : Option (List Nat) :=
  if s == "-" then some [] else (s.splitOn ",").mapM parseNat?

def findBank (key : String) : Option BankDecl := Gen.MemSeqTables.banks.find? (·.key == key)

def findValue (key : String) : Option ValueDecl :=
  match key.splitOn "." with
  | [bk, nm] => (findBank bk).bind fun b => b.values.find? (·.name == nm)
  | _ => none

def parseSeq : List String → Option Seq
  | ["readraw", k, a, bank, locs] => do
      let arg ← parseArg k a; let bank ← parseNat? bank; let locs ← parseNatList locs
      pure (.readraw arg bank locs)
  | ["readval", k, a, vk] => do
      let arg ← parseArg k a; let v ← findValue vk
      pure (.readraw arg v.bank v.addrs)
  | ["readall", k, a, bk, ul] => do
      let arg ← parseArg k a; let b ← findBank bk; let ul ← parseBool ul
      pure (.readall arg b ul)
  | ["writeraw", k, a, vk, raw, s, f, i] => do
      let arg ← parseArg k a; let v ← findValue vk; let raw ← parseNatList raw
      let s ← parseBool s; let f ← parseBool f; let i ← parseBool i
      pure (.writeraw arg v raw s f i)
  | _ => none

def parseUnit : List String → Option MemUnit
  | [dev, addr, bank, last, hl, hla, lb, d0, d1, d2, we, adv, unl, drift, cells] => do
      let dev ← parseBool dev; let addr ← parseNat? addr; let bank ← parseNat? bank
      let last ← parseNat? last; let hl ← parseBool hl; let hla ← parseBool hla
      let lb ← parseNat? lb; let d0 ← parseNat? d0; let d1 ← parseNat? d1; let d2 ← parseNat? d2
      let we ← parseBool we; let adv ← parseBool adv; let unl ← parseNat? unl
      let drift ← parseNat? drift
      let cs ← (cells.splitOn ",").mapM parseCell
      let arr := cs.toArray
      let cell (a : Nat) : Option (Access × Nat) := (arr[a]?).join
      let b : Bank :=
        { number := bank, last := last,
          impl := fun a => (cell a).isSome,
          access := fun a => match cell a with | some (x, _) => x | none => .ro,
          live := fun t a => match cell a with | some (_, v) => (v + drift * t) % 256 | none => 0,
          rw := fun a => match cell a with | some (_, v) => v | none => 0,
          hasLock := hl, hasLatch := hla, lockByte := lb, snap := none }
      pure { dev := dev, addr := addr, clock := 0, dtr0 := d0, dtr1 := d1, dtr2 := d2, we := we,
             bank := b, advance := adv, unlockValue := unl }
  | _ => none

def fmtBytes (l : List Nat) : String := ",".intercalate (l.map toString)

def fmtVal : Val → String
  | .unit => "u"
  | .bytes l => "b:" ++ fmtBytes l
  | .raw l => "raw:" ++ ",".intercalate (l.map fun o => match o with | some b => toString b | none => "-")
  | .names l => "names:" ++ ",".intercalate l

def fmtOutcome : PyRes Val → String
  | .ok v => "ok " ++ fmtVal v
  | .error e => "err " ++ e.name

def parseVal (s : String) : Option Val :=
  if s == "u" then some .unit
  else if s == "b:" then some (.bytes [])
  else if s.startsWith "b:" then (((s.drop 2).copy.splitOn ",").mapM parseNat?).map .bytes
  else if s == "names:" then some (.names [])
  else if s.startsWith "names:" then some (.names ((s.drop 6).copy.splitOn ","))
  else none

def cells256 : List Nat := List.range 256

/-- writable memory, as far as a bus observer can tell, identical -/
def sameRw (b b' : Bank) : Bool := cells256.all fun a => b.rw a == b'.rw a

def sameRwExcept (b b' : Bank) (locs : List Nat) : Bool :=
  cells256.all fun a => locs.contains a || b.rw a == b'.rw a

/-- does the unit listen to this addressing at all -/
def listens (u : MemUnit) (arg : AddrArg) : Bool :=
  match resolveAddr arg with
  | .ok (dev, a) => dev == u.dev && a == u.addr
  | .error _ => false

/-- which values `read_all` must report, with their raw bytes, for a bank read
from `start` with the content taken at time `t` -/
def expectedAll (bd : BankDecl) (b : Bank) (t : Nat) : List (String × List Nat) :=
  let start := if bd.address = 0 then 2 else 3
  bd.values.filterMap fun v =>
    if v.addrs.all (fun l => start ≤ l) then
      (v.addrs.mapM (b.cellAt t)).map fun bs => (v.name, bs)
    else none

def sortStrings (l : List String) : List String := (l.toArray.qsort (· < ·)).toList

def post (sq : Seq) (st : St) (out : PyRes Val) : Option String :=
  let u0 := st.unit0
  let u := st.unit
  let b0 := u0.bank
  let b := u.bank
  let static : Bool := cells256.all fun a => b0.live 0 a == b0.live 1 a
  match sq with
  | .readraw arg bank locs =>
    match resolveAddr arg with
    | .error e => if out == .error e then none else some s!"expected {e.name}"
    | .ok _ =>
      if !(sameRw b0 b && b.lockByte == b0.lockByte && b.snap == b0.snap) then some "memory changed by a read"
      else if st.faulted then
        match st.faultResp, out with
        | .none, .error .MemoryLocationNotImplemented => none
        | .err, .error .ResponseError => none
        | .none, _ => some "a silent read must raise MemoryLocationNotImplemented"
        | .err, _ => some "a garbled answer must raise ResponseError"
        | _, _ => none
      else if !static && b0.snap.isNone then none
      else
        let live := listens u0 arg && bank == b0.number
        let want : Option (List Nat) := if live then locs.mapM (b0.cellAt 0) else (if locs.isEmpty then some [] else none)
        match want with
        | some bs => if out == .ok (.bytes bs) then none else some s!"want bytes {fmtBytes bs}"
        | none => if out == .error .MemoryLocationNotImplemented then none
                  else some "want MemoryLocationNotImplemented"
  | .readall arg bd ul =>
    match resolveAddr arg with
    | .error e => if out == .error e then none else some s!"expected {e.name}"
    | .ok _ =>
      let live := listens u0 arg && bd.address == b0.number
      let latched := ul && bd.hasLatch && live && b0.hasLatch && decide (2 ≤ b0.last)
      if !sameRw b0 b then some "memory changed by read_all"
      else if b.snap.isSome then some "bank left latched"
      else if (if st.faulted then b.lockByte != 0xFF && b.lockByte != b0.lockByte
               else b.lockByte != (if latched then 0xFF else b0.lockByte)) then
        some s!"lock byte left at {b.lockByte}"
      else if st.faulted then
        match st.faultResp, out with
        | .err, .error .ResponseError => none
        | .err, _ => some "a garbled answer must raise ResponseError"
        | _, .error .MemoryLocationNotImplemented => none
        | _, .ok (.names _) => none
        | _, _ => some "fault: unexpected outcome"
      else if !live then
        (if out == .error .MemoryLocationNotImplemented then none else some "absent bank: want MemoryLocationNotImplemented")
      else
        let t? : Option Nat := if latched then st.snapTime else (if static then some 0 else none)
        match t? with
        | none => none
        | some t =>
          let want := sortStrings ((expectedAll bd b0 t).map (·.1))
          if out == .ok (.names want) then none
          else some s!"want values {",".intercalate want}"
  | .writeraw arg v raw allowShort forceUnlock ignoreFb =>
    match resolveAddr arg with
    | .error e => if out == .error e then none else some s!"expected {e.name}"
    | .ok _ =>
      match writeChecks v.locs raw.length allowShort forceUnlock with
      | .error e =>
        if out != .error e then some s!"expected {e.name} before anything is sent"
        else if st.idx != 0 then some "commands were sent before the refusal" else none
      | .ok unlock =>
        let pairs := v.addrs.zip raw
        let lockCell := pairs.any fun p => b0.isLockCell p.1
        let stored : Bool := pairs.all (fun p => if b0.isLockCell p.1 then (if unlock then b.lockByte == 0xFF else b.lockByte == p.2) else b.rw p.1 == p.2)
          && sameRwExcept b0 b (pairs.map (·.1))
          && (lockCell || unlock || b.lockByte == b0.lockByte)
          && (!unlock || lockCell || b.lockByte == 0xFF)
        match out with
        | .ok .unit =>
          if ignoreFb then none
          else if !(listens u0 arg) then some "write to an absent unit reported as success"
          else if stored then none else
            -- name the first location that is wrong (for the replay)
            let badLoc := (pairs.find? fun p => !b0.isLockCell p.1 && b.rw p.1 != p.2).map fun p =>
              s!": location {p.1} holds {b.rw p.1}, data byte {p.2}"
            let badOther := (cells256.find? fun a => !(pairs.map (·.1)).contains a && b.rw a != b0.rw a).map fun a =>
              s!": location {a} (not part of the value) changed from {b0.rw a} to {b.rw a}"
            some ("write returned normally but memory does not hold exactly the data" ++
              (badLoc.getD (badOther.getD s!": lock byte {b.lockByte}")))
        | .error .MemoryLocationNotWriteable => none
        | .error .ResponseError => none
        | .error .MemoryWriteFailure => none
        | _ => some "undocumented outcome"

def handleStep (st : St) : List String → St × String
  | "unit" :: rest =>
    match parseUnit rest with
    | some u => ({ st with unit := u, unit0 := u, fault := none, stall := [], faulted := false, snapTime := none }, "ok")
    | none => (st, "bad-op")
  | "fault" :: k :: rest =>
    match parseNat? k, parseResp rest with
    | some k, some r => ({ st with fault := some (k, r) }, "ok")
    | _, _ => (st, "bad-op")
  | ["stall", ks] =>
    match parseNatList ks with
    | some ks => ({ st with stall := ks }, "ok")
    | none => (st, "bad-op")
  | "seq" :: rest =>
    match parseSeq rest with
    | some sq => ({ st with seq := some sq, model := some sq.prog, diverged := none, idx := 0,
                            unit0 := st.unit, faulted := false, snapTime := none }, "ok")
    | none => (st, "bad-op")
  | ["cmd", nm, bits, fr] =>
    match parseNat? bits, parseNat? fr with
    | some bits, some fr =>
      match Cmd.decode? nm bits fr with
      | none => (st, "bad-op")
      | some c =>
        let (r0, unit') := st.unit.stepStall (st.stall.contains st.idx) c
        let (r, faulted) := match st.fault with
          | some (k, fr) => if k == st.idx then (fr, st.faulted || fr != r0) else (r0, st.faulted)
          | none => (r0, st.faulted)
        -- a fault on a command whose answer nobody reads is no fault
        let readsAnswer := match c with
          | .readMemoryLocation .. | .writeMemoryLocation .. | .queryContentDTR0 .. => true
          | _ => false
        let faulted := if readsAnswer then faulted else st.faulted
        let faultResp := if faulted && !st.faulted then r else st.faultResp
        let (model', div) := match st.diverged, st.model with
          | some d, m => (m, some d)
          | none, some (.send c' k) =>
            if c' == c then (some (k r), none) else (none, some s!"0@{st.idx}:{c'.render}")
          | none, some (.done _) => (none, some s!"0@{st.idx}:model-finished")
          | none, some (.fail e) => (none, some s!"0@{st.idx}:model-raised-{e.name}")
          | none, none => (none, some s!"0@{st.idx}:no-model")
        let snapTime := match st.snapTime, unit'.bank.snap with
          | none, some t => some t
          | s, _ => s
        ({ st with unit := unit', idx := st.idx + 1, model := model', diverged := div,
                   faulted := faulted, faultResp := faultResp, snapTime := snapTime }, fmtResp r)
    | _, _ => (st, "bad-op")
  | "end" :: rest =>
    let out? : Option (PyRes Val) := match rest with
      | ["ok", v] => (parseVal v).map .ok
      | ["err", cls] =>
        (([.ValueError, .TypeError, .ResponseError, .MissingResponse, .MemoryLocationNotImplemented,
           .MemoryValueNotWriteable, .MemoryLocationNotWriteable, .MemoryWriteFailure, .MemoryWriteError,
           .AttributeError, .KeyError, .IndexError, .AssertionError, .RuntimeError, .OverflowError] :
            List PyErr).find? (·.name == cls)).map .error |>.orElse (fun _ => some (.error .Exception))
      | _ => none
    match out?, st.seq with
    | some out, some sq =>
      -- the model's outcome; for read_all translate raw_data into the reported names
      let conv (r : PyRes Val) : PyRes Val × String :=
        match sq, r with
        | .readall _ bd _, .ok (.raw raw) =>
          let rep := bd.values.filterMap fun v => (fromList raw v.addrs).map fun bs => (v.name, bs)
          (.ok (.names (sortStrings (rep.map (·.1)))),
            ";".intercalate (rep.map fun p => p.1 ++ ":" ++ ".".intercalate (p.2.map toString)))
        | _, r => (r, "")
      let (sync, modelOut, rawS) : String × String × String := match st.diverged, st.model with
        | some d, _ => (d, "-", "")
        | none, some (.done v) => let (o, s) := conv (.ok v); ("1", fmtOutcome o, s)
        | none, some (.fail e) => ("1", fmtOutcome (.error e), "")
        | none, some (.send c _) => (s!"0@{st.idx}:{c.render}", "-", "")
        | none, none => ("0@end:no-model", "-", "")
      let p := match post sq st out with
        | none => "ok" | some m => "FAIL:" ++ m.replace " " "~"
      ({ st with seq := none, model := none, fault := none, stall := [] },
        s!"ok sync={sync} model={modelOut.replace " " "~"} post={p} raw={rawS}")
    | _, _ => (st, "bad-op")
  | ["state"] =>
    let b := st.unit.bank
    (st, s!"ok lock={b.lockByte} snap={b.snap.isSome} we={st.unit.we} dtr0={st.unit.dtr0} dtr1={st.unit.dtr1} rw={fmtBytes (cells256.map b.rw)}")
  | _ => (st, "bad-op")

partial def main : IO Unit := do
  let stdin ← IO.getStdin
  let stdout ← IO.getStdout
  let rec go (st : St) : IO Unit := do
    let line ← stdin.getLine
    if line.isEmpty then return ()
    let toks := (line.trimAsciiEnd.copy.splitOn " ").filter (· ≠ "")
    let (st', ans) := handleStep st toks
    stdout.putStrLn ans
    stdout.flush
    go st'
  go {}

end DaliVerif.MemSeqDrv
