import DaliVerif.Model.GearSeq
import DaliVerif.Spec.GearBus
import DaliVerif.Spec.GearPost
import DaliVerif.Spec.GearComm
import DaliVerif.Drivers.Proto
/-!
# Lock-step driver for the gear sequences (C07, C08, C14)

A session (requests may also be joined on one line with ` ; `, answers are joined the same way):

    bus <unit> <unit> …          specification bus (unit = k=v,k=v,… ; see `parseUnit`), `bus` = empty
    stream <n|e|byte> …          instead of a bus: adversarial answers, in order (then silence)
    start <kind> <args…>         qdt D | groups D | setgroups D l:<req> l:<ordA> l:<ordR>
                                 | settc D <pyval> | settclimit D <pyval> <pyval> | qcolour D <n|i:v>
                                 | comm <l:avail|n> <0|1 readdress> <0|1 dry>
    cmd <frame> <Class> <dt>     the real generator yielded this command -> `r n` | `r b <v>` | `r e`
    note progress|sleep          the real generator yielded a progress / sleep object -> `ok`
    end ret <val> | end err <C>  the real generator finished -> `<agree|diverged:…> post=<ok|FAIL:…|n/a> n=<commands>`
    selfrun                      run the model itself against the bus/stream -> `<result> post=… n=…`
    dump                         current bus, one field list per unit

`cmd` first checks the command against the one the model of the sequence yields next
(the first difference is remembered and reported by `end`), then feeds the decoded command to
the Lean specification bus — the only oracle — and answers with the bus's response.
`post` is the property's post-condition (`Spec/GearPost.lean`, `Spec/GearComm.lean`) evaluated
on what the real generator did.
-/
namespace DaliVerif.GearSeqDrv
open DaliVerif Proto GearSeq

/-- results of all sequences in one type -/
inductive RVal where
  | unit
  | list (l : List Nat)
  | opt (o : Option Nat)
  deriving DecidableEq, Repr, Inhabited

inductive Scen where
  | qdt (d : Dest)
  | groups (d : Dest)
  | setGroups (d : Dest) (req ordA ordR : List Nat)
  | setTc (d : Dest) (tc : PyVal)
  | setTcLimit (d : Dest) (w tc : PyVal)
  | qColour (d : Dest) (q : Option Nat)
  | comm (avail : Option (List Nat)) (readdress dry : Bool)
  deriving Repr, Inhabited

/-- the iteration order the harness observed for Python's two set differences -/
def ordOf (ordA ordR : List Nat) (l : List Nat) : List Nat :=
  if l.isPerm ordA then ordA else if l.isPerm ordR then ordR else l

def ROUNDS : Nat := 1000000

def Scen.prog : Scen → Prog RVal
  | .qdt d => (queryDeviceTypes d).bind fun l => .done (.list l)
  | .groups d => (queryGroups d).bind fun l => .done (.list l)
  | .setGroups d req a r =>
      (GearSeq.setGroups d (if req.all (· < 16) then bitsOf (maskOf req) else req) (ordOf a r)).bind
        fun _ => .done .unit
  | .setTc d tc => (GearSeq.setTc d tc).bind fun _ => .done .unit
  | .setTcLimit d w tc => (GearSeq.setTcLimit d w tc).bind fun _ => .done .unit
  | .qColour d q => (queryColour d q).bind fun o => .done (.opt o)
  | .comm av re dry => (commissioning ROUNDS av re dry).bind fun _ => .done .unit

/-! ### parsing -/

def parseDest (s : String) : Option Dest :=
  if s == "B" then some (.addr .broadcast)
  else if s == "U" then some (.addr .unaddressed)
  else if s.startsWith "S" then (parseNat? (s.drop 1).copy).map (fun n => .addr (.short n))
  else if s.startsWith "G" then (parseNat? (s.drop 1).copy).map (fun n => .addr (.group n))
  else if s.startsWith "I" then (parseInt? (s.drop 1).copy).map .int
  else none

def parseNatList (s : String) (sep : String) : Option (List Nat) :=
  if s == "" then some [] else (s.splitOn sep).mapM parseNat?

def parseNatListTok (s : String) : Option (List Nat) :=
  if s.startsWith "l:" then parseNatList (s.drop 2).copy "," else none

def parsePairs (s : String) : Option (List (Nat × Nat)) :=
  if s == "" then some [] else
  (s.splitOn ".").mapM fun p =>
    match p.splitOn ":" with
    | [a, b] => do let a ← parseNat? a; let b ← parseNat? b; pure (a, b)
    | _ => none

def setField (u : Gear) (k v : String) : Option Gear :=
  let n := parseNat? v
  match k with
  | "s" => if v == "-" then some { u with short := none } else n.map fun x => { u with short := some x }
  | "g" => n.map fun x => { u with groups := x }
  | "t" => (parseNatList v ".").map fun l => { u with types := l }
  | "c" => if v == "-" then some { u with cursor := none } else n.map fun x => { u with cursor := some x }
  | "i" => if v == "d" then some { u with init := .disabled }
           else if v == "e" then some { u with init := .enabled }
           else if v == "w" then some { u with init := .withdrawn } else none
  | "r" => n.map fun x => { u with random := x }
  | "q" => n.map fun x => { u with search := x }
  | "d" => (parseNatList v ".").map fun l => { u with draws := l }
  | "ns" => n.map fun x => { u with noStore := x != 0 }
  | "nv" => n.map fun x => { u with noVerify := x != 0 }
  | "d0" => n.map fun x => { u with dtr0 := x }
  | "d1" => n.map fun x => { u with dtr1 := x }
  | "d2" => n.map fun x => { u with dtr2 := x }
  | "lv" => n.map fun x => { u with level := x }
  | "e" => if v == "-" then some { u with enabledDT := none } else n.map fun x => { u with enabledDT := some x }
  | "tt" => n.map fun x => { u with tempTc := x }
  | "tc" => n.map fun x => { u with tc := x }
  | "co" => n.map fun x => { u with coolest := x }
  | "wa" => n.map fun x => { u with warmest := x }
  | "pc" => n.map fun x => { u with physCoolest := x }
  | "pw" => n.map fun x => { u with physWarmest := x }
  | "rt" => n.map fun x => { u with reportTc := x }
  | "o" => (parsePairs v).map fun l => { u with others := l }
  | _ => none

def parseUnit (s : String) : Option Gear :=
  (s.splitOn ",").foldlM (fun u kv =>
    match kv.splitOn "=" with
    | [k, v] => setField u k v
    | _ => none) ({} : Gear)

def parseResp (s : String) : Option Resp :=
  if s == "n" then some .none else if s == "e" then some .err else (parseNat? s).map .byte

def addrOfByte (b : Nat) : Option Addr :=
  if b = 0xFF then some .broadcast
  else if b = 0xFD then some .unaddressed
  else if b % 2 = 1 ∧ b < 128 then some (.short (b / 2))
  else if b % 2 = 1 ∧ 128 ≤ b ∧ b < 160 then some (.group ((b - 128) / 2))
  else none

/-- decode what the harness saw (`cmd.frame.as_integer`, `type(cmd).__name__`, `cmd.devicetype`);
accepted only if it re-encodes to exactly the same three values -/
def decodeCmd (fr : Nat) (cls : String) (dt : Nat) : Option Cmd :=
  let hi := fr / 256
  let lo := fr % 256
  let viaAddr (f : Addr → Cmd) : Option Cmd := (addrOfByte hi).map f
  let c : Option Cmd :=
    match cls with
    | "DTR0" => some (.dtr0 lo) | "DTR1" => some (.dtr1 lo) | "DTR2" => some (.dtr2 lo)
    | "EnableDeviceType" => some (.enableDT lo)
    | "Terminate" => some .terminate | "Initialise" => some (.initialise lo)
    | "Randomise" => some .randomise | "Compare" => some .compare | "Withdraw" => some .withdraw
    | "SearchaddrH" => some (.searchH lo) | "SearchaddrM" => some (.searchM lo)
    | "SearchaddrL" => some (.searchL lo)
    | "ProgramShortAddress" => some (.programShort (lo / 2))
    | "VerifyShortAddress" => some (.verifyShort (lo / 2))
    | "SetShortAddress" => viaAddr .setShortAddress
    | "QueryControlGearPresent" => viaAddr .queryGearPresent
    | "QueryDeviceType" => viaAddr .queryDeviceType
    | "QueryNextDeviceType" => viaAddr .queryNextDeviceType
    | "QueryGroupsZeroToSeven" => viaAddr .queryGroups07
    | "QueryGroupsEightToFifteen" => viaAddr .queryGroups815
    | "AddToGroup" => viaAddr (fun a => .addToGroup a (lo % 16))
    | "RemoveFromGroup" => viaAddr (fun a => .removeFromGroup a (lo % 16))
    | "QueryActualLevel" => viaAddr .queryActualLevel
    | "QueryContentDTR0" => viaAddr .queryContentDTR0
    | "SetTemporaryColourTemperature" => viaAddr .setTempTc
    | "Activate" => viaAddr .activate
    | "StoreColourTemperatureTcLimit" => viaAddr .storeTcLimit
    | "QueryColourValue" => viaAddr .queryColourValue
    | _ => none
  match c with
  | some c => if c.frame = fr ∧ c.cls = cls ∧ c.devicetype = dt then some c else none
  | none => none

def errOfName (s : String) : Option PyErr :=
  [PyErr.TypeError, .ValueError, .IndexError, .OverflowError, .AttributeError, .KeyError,
   .NotImplementedError, .AssertionError, .RuntimeError, .IncompatibleFrame, .MissingResponse,
   .ResponseError, .DALISequenceError, .ProgramShortAddressFailure].find? (fun e => e.name == s)

def parseRVal (s : String) : Option RVal :=
  if s == "u" then some .unit
  else if s == "n" then some (.opt none)
  else if s.startsWith "i:" then (parseNat? (s.drop 2).copy).map (fun n => .opt (some n))
  else (parseNatListTok s).map .list

def parseBool (s : String) : Option Bool :=
  if s == "0" then some false else if s == "1" then some true else none

def parseScen : List String → Option Scen
  | ["qdt", d] => (parseDest d).map .qdt
  | ["groups", d] => (parseDest d).map .groups
  | ["setgroups", d, req, a, r] => do
      let d ← parseDest d; let req ← parseNatListTok req
      let a ← parseNatListTok a; let r ← parseNatListTok r
      pure (.setGroups d req a r)
  | ["settc", d, tc] => do let d ← parseDest d; let tc ← parseVal? tc; pure (.setTc d tc)
  | ["settclimit", d, w, tc] => do
      let d ← parseDest d; let w ← parseVal? w; let tc ← parseVal? tc; pure (.setTcLimit d w tc)
  | ["qcolour", d, q] => do
      let d ← parseDest d
      if q == "n" then pure (.qColour d none)
      else if q.startsWith "i:" then (parseNat? (q.drop 2).copy).map (fun v => .qColour d (some v))
      else none
  | ["comm", av, re, dry] => do
      let re ← parseBool re; let dry ← parseBool dry
      if av == "n" then pure (.comm none re dry)
      else (parseNatListTok av).map (fun l => .comm (some l) re dry)
  | _ => none

/-! ### formatting -/

def fmtResp : Resp → String
  | .none => "r n" | .byte v => s!"r b {v}" | .err => "r e"

def fmtCmd (c : Cmd) : String := s!"{c.cls}:{c.frame}"

def fmtRVal : RVal → String
  | .unit => "u"
  | .list l => "l:" ++ fmtList l
  | .opt none => "n"
  | .opt (some v) => s!"i:{v}"

def fmtOutcome : Outcome RVal → String
  | .ret v => "ret " ++ fmtRVal v
  | .raised e => "err " ++ e.name
  | .outOfFuel => "out-of-fuel"

def fmtGear (u : Gear) : String :=
  let s := match u.short with | none => "-" | some x => toString x
  let i := match u.init with | .disabled => "d" | .enabled => "e" | .withdrawn => "w"
  s!"s={s},g={u.groups},i={i},r={u.random},q={u.search},d0={u.dtr0},d1={u.dtr1},d2={u.dtr2}," ++
  s!"tt={u.tempTc},tc={u.tc},co={u.coolest},wa={u.warmest},pc={u.physCoolest},pw={u.physWarmest},rt={u.reportTc}"

/-! ### the property's post-condition on an observation -/

def castOut {β : Type} (o : Out Bus RVal) (f : RVal → Option β) : Option (Out Bus β) :=
  match o.res with
  | .ret v => (f v).map fun b => ⟨.ret b, o.st, o.trace⟩
  | .raised e => some ⟨.raised e, o.st, o.trace⟩
  | .outOfFuel => some ⟨.outOfFuel, o.st, o.trace⟩

def asList : RVal → Option (List Nat) | .list l => some l | _ => none
def asUnit : RVal → Option Unit | .unit => some () | _ => none
def asOpt : RVal → Option (Option Nat) | .opt o => some o | _ => none

def verdict (b : Bool) : String := if b then "ok" else "FAIL"

def natOf? : PyVal → Option Nat
  | .int i => if 0 ≤ i then some i.toNat else none
  | _ => none

/-- post-condition of the scenario on a bus observation; `n/a` when the arguments are outside
what the property quantifies over (then only model-vs-code agreement is checked) -/
def Scen.post (sc : Scen) (b : Bus) (o : Out Bus RVal) : String :=
  match sc with
  | .qdt d =>
    (match d.resolve, castOut o asList with
     | .ok a, some o => verdict (qdtPost b a o)
     | .ok _, none => "FAIL"
     | _, _ => "n/a")
  | .groups d =>
    (match d.resolve, castOut o asList with
     | .ok a, some o => verdict (groupsPost b a o)
     | .ok _, none => "FAIL"
     | _, _ => "n/a")
  | .setGroups d req _ _ =>
    (match d.resolve, castOut o asUnit with
     | .ok a, some o => if req.all (· < 16) then verdict (setGroupsPost b a (maskOf req) o) else "n/a"
     | .ok _, none => "FAIL"
     | _, _ => "n/a")
  | .setTc d tc =>
    (match d.resolve, natOf? tc, castOut o asUnit with
     | .ok a, some tc, some o =>
        if tc < 65536 then verdict (setTcPost b a tc o)
        else verdict (o.trace.isEmpty && (match o.res with | .raised _ => true | _ => false))
     | .ok _, none, some o =>
        (match tc with
         | .int _ => verdict (o.trace.isEmpty && (match o.res with | .raised _ => true | _ => false))
         | _ => "n/a")
     | .ok _, _, none => "FAIL"
     | _, _, _ => "n/a")
  | .setTcLimit d w tc =>
    (match d.resolve, natOf? w, natOf? tc, castOut o asUnit with
     | .ok a, some w, some tc, some o =>
        if tc < 65536 then (if w < 4 then verdict (setTcLimitPost b a w tc o) else "n/a")
        else verdict (o.trace.isEmpty && (match o.res with | .raised _ => true | _ => false))
     | .ok _, _, none, some o =>
        (match tc with
         | .int _ => verdict (o.trace.isEmpty && (match o.res with | .raised _ => true | _ => false))
         | _ => "n/a")
     | .ok _, _, _, none => "FAIL"
     | _, _, _, _ => "n/a")
  | .qColour d q =>
    (match d.resolve, castOut o asOpt with
     | .ok a, some o =>
        (match q with
         | some sel => verdict (queryColourPost b a sel o)
         | none => verdict (o.trace.isEmpty && (match o.res with | .raised _ => true | _ => false)))
     | .ok _, none => "FAIL"
     | _, _ => "n/a")
  | .comm av re dry =>
    (match castOut o asUnit with
     | some o => commVerdict b av re dry o
     | none => "FAIL")

def Scen.postStream (sc : Scen) (answers : Nat → Resp) (res : Outcome RVal) (n : Nat)
    (trace : List Cmd) : String :=
  match sc with
  | .qdt _ =>
    let r : Option (Outcome (List Nat)) := match res with
      | .ret (.list l) => some (.ret l) | .ret _ => none
      | .raised e => some (.raised e) | .outOfFuel => some .outOfFuel
    (match r with
     | some r => verdict (qdtStreamPost answers ⟨r, n, trace⟩)
     | none => "FAIL")
  | .qColour _ (some _) =>
    let r : Option (Outcome (Option Nat)) := match res with
      | .ret (.opt o) => some (.ret o) | .ret _ => none
      | .raised e => some (.raised e) | .outOfFuel => some .outOfFuel
    (match r with
     | some r => verdict (queryColourStreamPost answers ⟨r, n, trace⟩)
     | none => "FAIL")
  | _ => "n/a"

/-! ### session -/

structure Sess where
  bus0 : Bus := []
  bus : Bus := []
  stream : Option (List Resp) := none
  pos : Nat := 0
  scen : Option Scen := none
  prog : Prog RVal := .spin
  diverged : Option String := none
  trace : List Cmd := []      -- reversed
  deriving Inhabited

def Sess.answers (s : Sess) : Nat → Resp := fun i => (s.stream.getD []).getD i .none

def Sess.reset (s : Sess) : Sess :=
  { s with bus := s.bus0, pos := 0, diverged := none, trace := [] }

/-- feed a command to the environment; `tw` = the command object's `sendtwice` flag -/
def Sess.feed (s : Sess) (c : Cmd) (tw : Bool := c.twiceRequired) : Resp × Sess :=
  match s.stream with
  | some _ => (s.answers s.pos, { s with pos := s.pos + 1, trace := c :: s.trace })
  | none =>
    let (r, b') := Bus.execFlagged s.bus c tw
    (r, { s with bus := b', trace := c :: s.trace })

def Sess.diverge (s : Sess) (msg : String) : Sess :=
  match s.diverged with
  | some _ => s
  | none => { s with diverged := some (s!"diverged:@{s.trace.length}:{msg}".replace " " "_") }

def expected : Prog RVal → String
  | .done v => "return:" ++ fmtRVal v
  | .fail e => "raise:" ++ e.name
  | .spin => "out-of-fuel"
  | .send c _ => fmtCmd c
  | .note .progress _ => "progress"
  | .note .sleep _ => "sleep"

def handle1 (s : Sess) : List String → String × Sess
  | "bus" :: units =>
    (match units.mapM parseUnit with
     | some b => ("ok", { s with bus0 := b, bus := b, stream := none, pos := 0 })
     | none => ("bad-op", s))
  | "stream" :: toks =>
    (match toks.mapM parseResp with
     | some l => ("ok", { s with stream := some l, pos := 0, bus0 := [], bus := [] })
     | none => ("bad-op", s))
  | "start" :: rest =>
    (match parseScen rest with
     | some sc => ("ok", { s.reset with scen := some sc, prog := sc.prog })
     | none => ("bad-op", s))
  | "cmd" :: fr :: cls :: dt :: twl =>
    (match parseNat? fr, parseNat? dt, (match twl with | [] => some none | ["0"] => some (some false)
                                                       | ["1"] => some (some true) | _ => none) with
     | some fr, some dt, some tw? =>
       (match decodeCmd fr cls dt with
        | some c =>
          let s := match s.diverged, s.prog with
            | none, .send c' _ => if c' = c then s else s.diverge s!"expected={fmtCmd c'},got={fmtCmd c}"
            | none, p => s.diverge s!"expected={expected p},got={fmtCmd c}"
            | some _, _ => s
          let (r, s') := s.feed c (tw?.getD c.twiceRequired)
          let s' := match s'.diverged, s'.prog with
            | none, .send _ k => { s' with prog := k r }
            | _, _ => s'
          (fmtResp r, s')
        | none => ("bad-op", s))
     | _, _, _ => ("bad-op", s))
  | ["note", kind] =>
    let n? : Option Note := if kind == "progress" then some .progress
                            else if kind == "sleep" then some .sleep else none
    (match n? with
     | none => ("bad-op", s)
     | some n =>
       (match s.diverged, s.prog with
        | none, .note n' k =>
          if n' = n then ("ok", { s with prog := k })
          else ("ok", s.diverge s!"expected={expected s.prog},got={kind}")
        | none, p => ("ok", s.diverge s!"expected={expected p},got={kind}")
        | some _, _ => ("ok", s)))
  | "end" :: rest =>
    let res? : Option (Outcome RVal) := match rest with
      | ["ret", v] => (parseRVal v).map .ret
      | ["err", c] => (errOfName c).map .raised
      | _ => none
    (match res?, s.scen with
     | some res, some sc =>
       let s := match s.diverged, s.prog with
         | none, .done v => if res = .ret v then s else s.diverge s!"expected=return:{fmtRVal v},got={fmtOutcome res}"
         | none, .fail e => if res = .raised e then s else s.diverge s!"expected=raise:{e.name},got={fmtOutcome res}"
         | none, p => s.diverge s!"expected={expected p},got={fmtOutcome res}"
         | some _, _ => s
       let tr := s.trace.reverse
       let post := match s.stream with
         | some _ => sc.postStream s.answers res s.pos tr
         | none => sc.post s.bus0 ⟨res, s.bus, tr⟩
       (s!"{s.diverged.getD "agree"} post={post} n={tr.length}", s)
     | _, _ => ("bad-op", s))
  | ["selfrun"] =>
    (match s.scen with
     | none => ("bad-op", s)
     | some sc =>
       (match s.stream with
        | some _ =>
          let o := runStream sc.prog s.answers
          (s!"{fmtOutcome o.res} post={sc.postStream s.answers o.res o.st o.trace} n={o.trace.length}", s)
        | none =>
          let o := runBus sc.prog s.bus0
          (s!"{fmtOutcome o.res} post={sc.post s.bus0 o} n={o.trace.length}", s)))
  | ["dump"] => (" ".intercalate (s.bus.map fmtGear), s)
  | _ => ("bad-op", s)

/-- split a token list at the token `;` -/
def splitSemi : List String → List (List String)
  | [] => [[]]
  | t :: ts =>
    match splitSemi ts with
    | [] => [[t]]
    | cur :: rest => if t == ";" then [] :: cur :: rest else (t :: cur) :: rest

def handleLine (s : Sess) (toks : List String) : String × Sess :=
  let (outs, s) := (splitSemi toks).foldl (fun (acc : List String × Sess) req =>
    let (o, s') := handle1 acc.2 req
    (o :: acc.1, s')) ([], s)
  (" ; ".intercalate outs.reverse, s)

partial def loop : IO Unit := do
  let stdin ← IO.getStdin
  let stdout ← IO.getStdout
  let rec go (s : Sess) : IO Unit := do
    let line ← stdin.getLine
    if line.isEmpty then return ()
    let toks := (line.trimAsciiEnd.copy.splitOn " ").filter (· ≠ "")
    let (out, s') := handleLine s toks
    stdout.putStrLn out
    stdout.flush
    go s'
  go {}

end DaliVerif.GearSeqDrv
