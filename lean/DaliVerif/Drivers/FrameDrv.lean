import DaliVerif.Model.Frame
import DaliVerif.Spec.Bits
import DaliVerif.Drivers.Proto
/-!
Line protocol for the Frame model and its reference.

    new <bitsVal> <dataVal>                        -> ok <bits> <data>
    [spec] geti|gets|seti|sets|contains|add|eq|ne <bits> <data> <operands…>
                                                   -> ok <bits> <data> <out>
    pack <bits> <data> | packlen <bits> <data> <val> | str <cls> <bits> <data>

With the `spec` prefix the operation is evaluated on the reference list of
bits (`Spec.Bits.apply (abs f) (absOp op)`) instead of the model.
-/
namespace DaliVerif.FrameDrv
open DaliVerif Proto Frame

def fmtFrame (f : Frame) : String := s!"{f.bits} {f.data}"

def fmtOut : Frame.Out → String
  | .unit => "unit"
  | .bit b => if b then "bit 1" else "bit 0"
  | .num n => s!"num {n}"
  | .frame f => s!"frame {f.bits} {f.data}"

def fmtSpecOut : Spec.Bits.Out → String
  | .unit => "unit"
  | .bit b => if b then "bit 1" else "bit 0"
  | .num n => s!"num {n}"
  | .frame l => s!"frame {l.length} {Spec.Bits.toNat l}"

def parseOther (a b : String) : Option (Option Frame) :=
  if a == "-" then some none else
  match parseNat? a, parseNat? b with
  | some x, some y => some (some ⟨x, y⟩)
  | _, _ => none

def parseOp : List String → Option Frame.Op
  | ["geti", k] => (parseVal? k).map (fun k => .getItem (.idx k))
  | ["gets", a, b, s] => do
      let a ← parseVal? a; let b ← parseVal? b; let s ← parseVal? s
      pure (.getItem (.slice a b s))
  | ["seti", k, v] => do
      let k ← parseVal? k; let v ← parseVal? v
      pure (.setItem (.idx k) v)
  | ["sets", a, b, s, v] => do
      let a ← parseVal? a; let b ← parseVal? b; let s ← parseVal? s; let v ← parseVal? v
      pure (.setItem (.slice a b s) v)
  | ["contains", v] => (parseVal? v).map .contains
  | ["add", ob, od] => (parseOther ob od).map .add
  | ["eq", ob, od] => (parseOther ob od).map .eq
  | ["ne", ob, od] => (parseOther ob od).map .ne
  | _ => none

def runOp (spec : Bool) (name bits data : String) (rest : List String) : String :=
  match parseNat? bits, parseNat? data, parseOp (name :: rest) with
  | some bits, some data, some op =>
    let f : Frame := ⟨bits, data⟩
    if spec then
      fmtRes (fun (p : Spec.Bits × Spec.Bits.Out) =>
        s!"{p.1.length} {Spec.Bits.toNat p.1} {fmtSpecOut p.2}") (Spec.Bits.apply f.abs (absOp op))
    else
      fmtRes (fun (p : Frame × Frame.Out) => s!"{fmtFrame p.1} {fmtOut p.2}") (f.apply op)
  | _, _, _ => "bad-op"

def handle : List String → String
  | ["new", b, d] =>
      match parseVal? b, parseVal? d with
      | some b, some d => fmtRes fmtFrame (Frame.new b d)
      | _, _ => "bad-op"
  | ["pack", bits, data] =>
      match parseNat? bits, parseNat? data with
      | some bits, some data => fmtRes fmtList ((⟨bits, data⟩ : Frame).pack)
      | _, _ => "bad-op"
  | ["packlen", bits, data, l] =>
      match parseNat? bits, parseNat? data, parseVal? l with
      | some bits, some data, some l => fmtRes fmtList ((⟨bits, data⟩ : Frame).packLen l)
      | _, _, _ => "bad-op"
  | ["str", cls, bits, data] =>
      match parseNat? bits, parseNat? data with
      | some bits, some data => fmtRes (fun s => s.replace " " "") ((⟨bits, data⟩ : Frame).render cls)
      | _, _ => "bad-op"
  | "spec" :: name :: bits :: data :: rest => runOp true name bits data rest
  | name :: bits :: data :: rest => runOp false name bits data rest
  | _ => "bad-op"

end DaliVerif.FrameDrv
