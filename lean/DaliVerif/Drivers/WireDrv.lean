import DaliVerif.Model.Wire
import DaliVerif.Spec.Gateways
import DaliVerif.Drivers.Proto
/-!
Line protocol for the wire codecs (model) and the gateway formats (spec).

    [spec] enc <drv> <bits> <data> <twice> <query> <std> <dapc> <seq>   -> ok <hex>[,<hex>…] | err <Class> | refuse
    [spec] encrange <drv> <twice> <query> <std> <dapc> <seq> <lo> <hi>  -> the answers for all 16-bit frames lo..hi-1, `;`-separated
    [spec] dec <drv> <n> <n> …                                          -> meaning
    seq <generator> <start> <count>                                     -> ok n,n,…
    unirecv <query> <compare> <c1> <fe1> <c:r0:r1:fe,…>                 -> noresponse | resp:none | resp:<v>   (UniPi `send`, receive part)
    spec unipolls <counter> <typ> <data> <fe> <k:typ:data,…|-> <feAt|-> -> ok <c:r0:r1:fe,…>  (the six polls the gateway shows)
    spec unirecv <query> <compare> <k:typ:data,…|-> <feAt|->            -> what the exchange denotes

`<drv>`: tridonic hidhasseb luba sci daliserver atx ltridonic lhasseb unipi.
-/
namespace DaliVerif.WireDrv
open DaliVerif Proto Wire

def hexDigit (n : Nat) : Char := if n < 10 then Char.ofNat (48 + n) else Char.ofNat (87 + n)

def hexOf (l : List Nat) : String :=
  String.ofList (l.flatMap (fun b => if b < 256 then [hexDigit (b / 16), hexDigit (b % 16)] else ['?', '?']))

def fmtMeaning : Meaning → String
  | .none => "none"
  | .noAnswer => "no"
  | .backward v => s!"back:{v}"
  | .backwardError v => s!"backerr:{v}"
  | .forward b d => s!"fwd:{b}:{d}"
  | .ack => "ack"
  | .other t => s!"other:{t}"
  | .raises e => s!"raise:{e.name}"

def fmtOptMeaning : Option Meaning → String
  | Option.none => "pending"
  | some m => fmtMeaning m

def fmtWrites (ws : List (List Nat)) : String := ",".intercalate (ws.map hexOf)

/-- model encoder of a driver, rendered -/
def enc (drv : String) (c : Cmd) (seq : Nat) : Option String :=
  match drv with
  | "tridonic" => some (fmtRes hexOf (Tridonic.encode seq c))
  | "hidhasseb" => some (fmtRes fmtWrites (HidHasseb.encode c))
  | "luba" => some (fmtRes hexOf (Luba.encode c))
  | "sci" => some (fmtRes hexOf (Sci.encode c))
  | "daliserver" => some (fmtRes fmtWrites (DaliServer.encode c))
  | "atx" => some (fmtRes hexOf (Atx.encode c))
  | "ltridonic" => some (fmtRes hexOf (LegacyTridonic.encode seq c))
  | "lhasseb" => some (fmtRes (fun (p : List Nat × Nat) => s!"{hexOf p.1}/{p.2}") (LegacyHasseb.encode seq c))
  | "unipi" => some (fmtRes (fun (p : Nat × Nat) => s!"{p.1}/{p.2}") (Unipi.encode c))
  | _ => none

def fmtOpt {α} (f : α → String) : Option α → String
  | some a => "ok " ++ f a
  | none => "refuse"

/-- specification of a driver's packet, rendered the same way -/
def specEnc (drv : String) (c : Cmd) (seq : Nat) : Option String :=
  let b := c.frame.bits
  let d := c.frame.data
  let t := c.sendtwice
  match drv with
  | "tridonic" => some (fmtOpt hexOf (Spec.Gateways.tridonicSend seq b d t))
  | "hidhasseb" => some (fmtOpt fmtWrites (Spec.Gateways.hassebWrites b d t))
  | "luba" => some (fmtOpt hexOf (Spec.Gateways.lubaSend b d (Spec.Gateways.lubaPriorityRule c) t))
  | "sci" => some (fmtOpt hexOf (Spec.Gateways.sciSend b d t))
  | "daliserver" => some (fmtOpt fmtWrites (Spec.Gateways.daliserverSends b d t))
  | "atx" => some (fmtOpt hexOf (Spec.Gateways.atxLine b d t))
  | "ltridonic" => some (fmtOpt hexOf (if b = 16 then Spec.Gateways.tridonicSend seq b d t else none))
  | "lhasseb" =>
      let sn := if seq + 1 > 255 then 1 else seq + 1
      some (fmtOpt (fun p => s!"{hexOf p}/{sn}") (Spec.Gateways.legacyHassebPacket sn b d t c.isQuery))
  | "unipi" => some (fmtOpt (fun (p : Nat × Nat) => s!"{p.1}/{p.2}") (Spec.Gateways.unipiRegs b d t))
  | _ => none

def parseBool (s : String) : Option Bool := if s == "1" then some true else if s == "0" then some false else none

def dec (drv : String) (a : List Nat) : Option String :=
  match drv, a with
  | "tridonic1", p => some (fmtMeaning (Tridonic.decode p))
  | "hidhasseb", [s, b] => some (fmtOptMeaning (HidHasseb.decode s b))
  | "daliserver", [q, s, r] => some (fmtMeaning (DaliServer.decode (q != 0) s r))
  | "atx", l => some (fmtMeaning (Atx.decode l))
  | "ltridonic", p => some (fmtMeaning (LegacyTridonic.decode p))
  | "lhasseb", p => some (fmtMeaning (LegacyHasseb.decode p))
  | "unipi", [r0, r1] => some (fmtMeaning (Unipi.decode r0 r1))
  | _, _ => none

def specDec (drv : String) (a : List Nat) : Option String :=
  match drv, a with
  | "tridonic1", p => some (fmtMeaning (Spec.Gateways.tridonicMeaning p))
  | "hidhasseb", [s, b] => some (fmtOptMeaning (Spec.Gateways.hassebMeaning s b))
  | "daliserver", [q, s, r] => some (fmtMeaning (Spec.Gateways.daliserverMeaning (q != 0) s r))
  | "atx", [l, h, lo, 10] =>
      (do let x ← Atx.hexVal? h; let y ← Atx.hexVal? lo; pure (fmtMeaning (Spec.Gateways.atxMeaning l x y)))
  | "ltridonic", p => some (fmtMeaning (Spec.Gateways.legacyTridonicMeaning p))
  | "lhasseb", p => some (fmtMeaning (Spec.Gateways.legacyHassebMeaning p))
  | "unipi", [r0, r1] => some (fmtMeaning (Spec.Gateways.unipiMeaning r0 r1))
  | _, _ => none

def mkCmd (bits data : Nat) (t q s d : Bool) : Cmd := ⟨⟨bits, data⟩, t, q, s, d⟩

def handleEnc (spec : Bool) : List String → String
  | [drv, bits, data, t, q, s, d, seq] =>
    match parseNat? bits, parseNat? data, parseBool t, parseBool q, parseBool s, parseBool d, parseNat? seq with
    | some bits, some data, some t, some q, some s, some d, some seq =>
      ((if spec then specEnc else enc) drv (mkCmd bits data t q s d) seq).getD "bad-op"
    | _, _, _, _, _, _, _ => "bad-op"
  | _ => "bad-op"

def handleRange (spec : Bool) : List String → String
  | [drv, t, q, s, d, seq, lo, hi] =>
    match parseBool t, parseBool q, parseBool s, parseBool d, parseNat? seq, parseNat? lo, parseNat? hi with
    | some t, some q, some s, some d, some seq, some lo, some hi =>
      let outs := (List.range (hi - lo)).map (fun i =>
        ((if spec then specEnc else enc) drv (mkCmd 16 (lo + i) t q s d) seq).getD "bad-op")
      ";".intercalate outs
    | _, _, _, _, _, _, _ => "bad-op"
  | _ => "bad-op"

def fmtSend : Unipi.SendResult → String
  | .noResponse => "noresponse"
  | .response Option.none => "resp:none"
  | .response (some v) => s!"resp:{v}"

/-- `a:b:c[:d],…` (`-` = empty) -/
def parseTuples (n : Nat) (s : String) : Option (List (List Nat)) :=
  if s == "-" then some [] else
  (s.splitOn ",").mapM (fun t =>
    match (t.splitOn ":").mapM parseNat? with
    | some l => if l.length == n then some l else Option.none
    | Option.none => Option.none)

def parseOptNat (s : String) : Option (Option Nat) :=
  if s == "-" then some Option.none else (parseNat? s).map some

def toEvents (l : List (List Nat)) : List (Nat × Nat × Nat) := l.map (fun e => (e.getD 0 0, e.getD 1 0, e.getD 2 0))

def handle : List String → String
  | ["unirecv", q, cmp, c1, fe1, polls] =>
    match parseBool q, parseBool cmp, parseNat? c1, parseNat? fe1, parseTuples 4 polls with
    | some q, some cmp, some c1, some fe1, some ps =>
      fmtSend (Unipi.recv q cmp c1 fe1 (ps.map (fun p => ⟨p.getD 0 0, p.getD 1 0, p.getD 2 0, p.getD 3 0⟩)))
    | _, _, _, _, _ => "bad-op"
  | ["spec", "unipolls", counter, typ, data, fe, events, feAt] =>
    match parseNat? counter, parseNat? typ, parseNat? data, parseNat? fe, parseTuples 3 events, parseOptNat feAt with
    | some c, some t, some d, some fe, some ev, some feAt =>
      "ok " ++ ",".intercalate ((Spec.Gateways.unipiPolls fe feAt ⟨c, t, d⟩ (toEvents ev) 0 6).map
        (fun p => s!"{p.counter}:{p.r0}:{p.r1}:{p.fe}"))
    | _, _, _, _, _, _ => "bad-op"
  | ["spec", "unirecv", q, cmp, events, feAt] =>
    match parseBool q, parseBool cmp, parseTuples 3 events, parseOptNat feAt with
    | some q, some cmp, some ev, some feAt => fmtSend (Spec.Gateways.unipiExchange q cmp (toEvents ev) feAt)
    | _, _, _, _ => "bad-op"
  | "enc" :: rest => handleEnc false rest
  | "spec" :: "enc" :: rest => handleEnc true rest
  | "encrange" :: rest => handleRange false rest
  | "spec" :: "encrange" :: rest => handleRange true rest
  | "dec" :: drv :: args =>
    match args.mapM parseNat? with
    | some a => (dec drv a).getD "bad-op"
    | none => "bad-op"
  | "spec" :: "dec" :: drv :: args =>
    match args.mapM parseNat? with
    | some a => (specDec drv a).getD "bad-op"
    | none => "bad-op"
  | ["trirecv", t, q, msgs] =>
    -- the receive loop of hid.tridonic._send_raw: msgs = hex packets separated by `,` (`-` = none)
    match parseBool t, parseBool q with
    | some t, some q =>
      let parse (s : String) : Option (List Nat) :=
        let rec go : List Char → Option (List Nat)
          | [] => some []
          | a :: b :: r => do
            let x ← Atx.hexVal? a.toNat; let y ← Atx.hexVal? b.toNat; let rr ← go r; pure ((x * 16 + y) :: rr)
          | _ => none
        go s.toList
      match (if msgs == "-" then some [] else (msgs.splitOn ",").mapM parse) with
      | some ms => fmtOptMeaning (Tridonic.receive (mkCmd 16 0 t q false false) ms)
      | none => "bad-op"
    | _, _ => "bad-op"
  | ["seq", gen, start, count] =>
    match parseNat? start, parseNat? count with
    | some st, some n =>
      match gen with
      | "tridonic" => "ok " ++ fmtList ((List.range n).map (Tridonic.seqNth st))
      | "ltridonic" => "ok " ++ fmtList ((List.range n).map LegacyTridonic.snNth)
      | "lhasseb" => "ok " ++ fmtList ((List.range n).map LegacyHasseb.snNth)
      | _ => "bad-op"
    | _, _ => "bad-op"
  | _ => "bad-op"

end DaliVerif.WireDrv
