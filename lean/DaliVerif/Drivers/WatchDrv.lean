import DaliVerif.Model.Answer
import DaliVerif.Model.Routing
import DaliVerif.Model.BusWatch
import DaliVerif.Spec.AnswerTable
import DaliVerif.Spec.Transactions
import DaliVerif.Drivers.Proto
/-!
Line protocol of `m_watch` (C16, C20).  `<resp>` is `-` or the number of the
command's response class, `<tw>` is `0|1`.

Pure answer mappings (model):
    tri  <resp> <tw> <msg>*         msg = F | <rtype>.<f0>.<f1>.<f2>.<f3>   -> blocked | <n> ok <answer> | <n> err <Exc>
    has  <resp> <tw> F|<st>.<b>                                              -> ok <answer> | err <Exc>
    luba|sci <resp> <tw> T|<b>
    dsrv <resp> <tw> <ver> <status> <rval> <pad>
    atx  <resp> <tw> <line>*        line = E | N<id> | J<id>.<v> | J<id>.x | X | Z | O
    answer = none | resp.<cls>.s | resp.<cls>.v<b> | resp.<cls>.f<b> | bare.<b> | text
Specification:
    enc <gw> <tw> <b24> <bus> <junk>   bus = s | v<b> | g      -> the protocol's report(s) for that bus outcome, as tokens
    conf <gw> <resp> <bus> <answer>                            -> ok 1 | ok 0   (Spec.AnswerTable.conforms)
    consts                                                     -> ok 1 | ok 0   (model constants = protocol constants)
Routing traces (model):
    triroute <s0> (A.<resp>.<tw> | D.<about>.<msg> | R.<idx>)*  -> per event: seq=<n>|assert ; to=<idx,…>|drop ; blocked|done.<n>.<answer>|raise.<Exc>
    slotroute (W.<t>.<resp>.<tw> | P.F | P.<st>.<b> | K.<t>)*    -> per event: - | ok.<answer> | err.<Exc>
    queroute <all> (L.<t>.<resp> | X.<b> | Q.<t>.take | Q.<t>.giveup)*
Bus watcher:
    watch <ev>*      ev = T | O | N | E | B.<b> | F.<bits>.<data>.<table>   table = <dt>=<tw>,<resp>,<edt>/…
    specwatch <ev>*  the same with G (gap) for T
        -> <report>* | cur=<bits.data.dt or -> dt=<n>       report = <bits>.<data>.<dt>.<-|s|v<b>|f<b>>.<err>
        -> <report>* | <txn kinds>*
    classify <origin> <rtype> <f0> <f1> <f2> <f3>    -> ok F.<bits>.<data> | ok B.<b> | ok E | ok N | ok O | err ValueError
    serial <F…>* / specserial <F…>*   -> <bits>.<data>.<dt>*
    reg (S.<i> | U.<i> | M.<x>)* / specreg …   -> <i>=<x,…>*   for every i that was ever subscribed
    kreg <i>=<key>,…|- (S.<i> | U.<i> | M.<x>)*   -> <key>:<i>,…   the keyed handler table (KReg), dict order
    hatroute (A.<t> | W.<t>.<n> | G.<t> | R.<t>)*  -> per event: - | from=<owner of the line read> | refused
-/
namespace DaliVerif.WatchDrv
open DaliVerif Proto Answer Routing BusWatch
open Spec.AnswerTable Spec.Transactions

def nat? (s : String) : Option Nat := parseNat? s

def resp? (s : String) : Option (Option Nat) :=
  if s == "-" then some none else (nat? s).map some

def bool? (s : String) : Option Bool :=
  if s == "0" then some false else if s == "1" then some true else none

def cmd? (r tw : String) : Option CmdInfo := do
  let r ← resp? r; let tw ← bool? tw; pure ⟨r, tw⟩

def fmtOutcome : Outcome → String
  | .silent => "s" | .value b => s!"v{b}" | .framing b => s!"f{b}"

def fmtAnswer : Answer → String
  | .none => "none"
  | .resp cls o => s!"resp.{cls}.{fmtOutcome o}"
  | .bare b => s!"bare.{b}"
  | .text => "text"

def outcome? (s : String) : Option Outcome :=
  if s == "s" then some .silent
  else if s.startsWith "v" then (nat? (s.drop 1).copy).map .value
  else if s.startsWith "f" then (nat? (s.drop 1).copy).map .framing
  else none

def answer? (s : String) : Option Answer :=
  match s.splitOn "." with
  | ["none"] => some .none
  | ["text"] => some .text
  | ["bare", b] => (nat? b).map .bare
  | ["resp", c, o] => do let c ← nat? c; let o ← outcome? o; pure (.resp c o)
  | _ => none

def tmsg? (s : String) : Option TMsg :=
  if s == "F" then some .fail else
  match (s.splitOn ".").mapM nat? with
  | some [t, a, b, c, d] => some (.rep t a b c d)
  | _ => none

def fmtTMsg : TMsg → String
  | .fail => "F"
  | .rep t a b c d => s!"{t}.{a}.{b}.{c}.{d}"

def fmtTRes : TRes → String
  | .blocked => "blocked"
  | .done a n => s!"{n} " ++ fmtRes fmtAnswer a

def hrep? (s : String) : Option HRep :=
  if s == "F" then some .fail else
  match (s.splitOn ".").mapM nat? with
  | some [st, b] => some (.rep st b)
  | _ => none

def swait? (s : String) : Option SWait :=
  if s == "T" then some .timeout else (nat? s).map .got

def aline? (s : String) : Option ALine :=
  if s == "E" then some .empty
  else if s == "X" then some .x
  else if s == "Z" then some .z
  else if s == "O" then some .other
  else if s.startsWith "N" then (nat? (s.drop 1).copy).map .n
  else if s.startsWith "J" then
    match (s.drop 1).copy.splitOn "." with
    | [i, v] => do
      let i ← nat? i
      if v == "x" then pure (.j i none) else do let v ← nat? v; pure (.j i (some v))
    | _ => none
  else none

def fmtALine : ALine → String
  | .empty => "E" | .x => "X" | .z => "Z" | .other => "O"
  | .n i => s!"N{i}"
  | .j i (some v) => s!"J{i}.{v}"
  | .j i none => s!"J{i}.x"

def gw? (s : String) : Option Gateway :=
  match s with
  | "tridonic" => some .tridonic | "hasseb" => some .hasseb | "luba" => some .luba
  | "sci" => some .sci | "daliserver" => some .daliserver | "atx" => some .atx
  | _ => none

def bus? (s : String) : Option Bus :=
  if s == "s" then some .silent else if s == "g" then some .garbled
  else if s.startsWith "v" then (nat? (s.drop 1).copy).map .value else none

def enc (gw : Gateway) (tw b24 : Bool) (bus : Bus) (junk : Nat) : String :=
  match gw with
  | .tridonic => " ".intercalate ((tridonicReports b24 tw bus).map fmtTMsg)
  | .hasseb => match hassebReport bus junk with
    | .fail => "F" | .rep st b => s!"{st}.{b}"
  | .luba | .sci => match serialWait bus with
    | .timeout => "T" | .got b => s!"{b}"
  | .daliserver => let (a, b, c, d) := daliserverReply bus junk; s!"{a} {b} {c} {d}"
  | .atx => " ".intercalate ((atxLines tw bus).map fmtALine)

/-! ### routing -/

structure TriTask where
  idx : Nat
  cmd : CmdInfo

def triRoute (s0 : Nat) (toks : List String) : Option (List String) := do
  let mut t := Tri.init s0
  let mut tasks : List TriTask := []
  let mut outs : List String := []
  for tok in toks do
    match tok.splitOn "." with
    | ["A", r, tw] =>
      let c ← cmd? r tw
      let idx := t.next
      let (t', ok) := t.step .alloc
      t := t'
      if ok then
        tasks := tasks ++ [⟨idx, c⟩]
        outs := outs ++ [s!"seq={seqAt s0 idx}"]
      else outs := outs ++ ["assert"]
    | "D" :: about :: rest =>
      let about ← nat? about
      let m ← tmsg? (".".intercalate rest)
      let s := seqAt s0 about
      let hit := (t.out.filter (·.seq == s)).map (·.idx)
      t := (t.step (.deliver about m)).1
      outs := outs ++ [if hit.isEmpty then "drop" else "to=" ++ ",".intercalate (hit.map toString)]
    | ["R", idx] =>
      let idx ← nat? idx
      match t.out.find? (·.idx == idx), tasks.find? (·.idx == idx) with
      | some e, some task =>
        match tridonicAnswer task.cmd (e.msgs.map (·.msg)) with
        | .blocked => outs := outs ++ ["blocked"]
        | .done (.ok a) n =>
          t := (t.step (.finish idx)).1
          outs := outs ++ [s!"done.{n}.{fmtAnswer a}"]
        | .done (.error err) _ =>
          -- the exception leaves `_send_raw` before `del self._outstanding[seq]`
          outs := outs ++ [s!"raise.{err.name}"]
      | _, _ => outs := outs ++ ["nosuch"]
    | _ => none
  pure outs

def slotRoute (toks : List String) : Option (List String) := do
  let mut s := Slot.init
  let mut cmds : List (Nat × CmdInfo) := []
  let mut outs : List String := []
  for tok in toks do
    match tok.splitOn "." with
    | ["W", t, r, tw] =>
      let t ← nat? t; let c ← cmd? r tw
      cmds := (t, c) :: cmds
      if c.resp.isSome then
        s := (s.step (.write t)).1
        outs := outs ++ ["-"]
      else
        s := (s.step .writeNoWait).1
        outs := outs ++ [match hassebAnswer c .fail with
          | .ok a => "ok." ++ fmtAnswer a
          | .error e => "err." ++ e.name]
    | "P" :: rest =>
      let r ← hrep? (".".intercalate rest)
      s := (s.step (.report r)).1
      outs := outs ++ ["-"]
    | ["K", t] =>
      let t ← nat? t
      let (s', o) := s.step (.wake t)
      s := s'
      match o, cmds.find? (·.1 == t) with
      | some (_, _, r), some (_, c) =>
        match hassebAnswer c r with
        | .ok a => outs := outs ++ ["ok." ++ fmtAnswer a]
        | .error e => outs := outs ++ ["err." ++ e.name]
      | _, _ => outs := outs ++ ["-"]
    | _ => none
  pure outs

def queRoute (all : Bool) (toks : List String) : Option (List String) := do
  let mut q := Que.init
  let mut cmds : List (Nat × CmdInfo) := []
  let mut outs : List String := []
  for tok in toks do
    match tok.splitOn "." with
    | ["L", t, r] =>
      let t ← nat? t; let r ← resp? r
      cmds := (t, ⟨r, false⟩) :: cmds
      q := (q.stepWith all (.flush t)).1
      outs := outs ++ ["-"]
    | ["X", b] =>
      let b ← nat? b
      q := (q.stepWith all (.rx b)).1
      outs := outs ++ ["-"]
    | ["Q", t, how] =>
      let t ← nat? t
      let ev ← if how == "take" then some (QueEv.take t) else if how == "giveup" then some (QueEv.giveUp t) else none
      let (q', o) := q.stepWith all ev
      q := q'
      match o, cmds.find? (·.1 == t) with
      | some (_, got), some (_, c) =>
        let w := match got with
          | some (_, b) => SWait.got b
          | none => SWait.timeout
        match lubaAnswer c w with
        | .ok a => outs := outs ++ ["ok." ++ fmtAnswer a]
        | .error e => outs := outs ++ ["err." ++ e.name]
      | _, _ => outs := outs ++ ["-"]
    | _ => none
  pure outs

/-! ### bus watcher -/

def missing : CInfo := ⟨false, none, some 0xFFFFFFFF⟩

abbrev Table := List ((Nat × Nat × Nat) × CInfo)

def cinfo? (s : String) : Option CInfo :=
  match s.splitOn "," with
  | [tw, r, e] => do
    let tw ← bool? tw; let r ← resp? r; let e ← resp? e
    pure ⟨tw, r, e⟩
  | _ => none

/-- F.<bits>.<data>.<table> -/
def fwd? (parts : List String) : Option (Fwd × Table) :=
  match parts with
  | [bits, data, table] => do
    let bits ← nat? bits; let data ← nat? data
    let entries ← (table.splitOn "/").mapM (fun e =>
      match e.splitOn "=" with
      | [dt, ci] => do let dt ← nat? dt; let ci ← cinfo? ci; pure ((bits, data, dt), ci)
      | _ => none)
    pure (⟨bits, data⟩, entries)
  | _ => none

def pkt? (tok : String) : Option (Pkt × Table) :=
  match tok.splitOn "." with
  | ["O"] => some (.other, [])
  | ["N"] => some (.noFrame, [])
  | ["E"] => some (.backErr, [])
  | ["B", b] => (nat? b).map (fun b => (.back b, []))
  | "F" :: rest => (fwd? rest).map (fun (f, t) => (.fwd f, t))
  | _ => none

def decOf (tab : Table) : Decode := fun f dt =>
  match tab.find? (fun e => e.1 == (f.bits, f.data, dt)) with
  | some e => e.2
  | none => missing

def fmtResp : Option Outcome → String
  | none => "-"
  | some o => fmtOutcome o

def fmtCmd (c : Cmd) : String := s!"{c.frame.bits}.{c.frame.data}.{c.dt}"

def fmtReport (r : Report) : String :=
  s!"{fmtCmd r.cmd}.{fmtResp r.resp}.{if r.err then 1 else 0}"

def isMissing (c : Cmd) : Bool := c.info == missing

def watchRun (toks : List String) : String :=
  let parsed := toks.mapM (fun tok =>
    if tok == "T" then some (WatchEvent.timeout, ([] : Table))
    else (pkt? tok).map (fun (p, t) => (WatchEvent.pkt p, t)))
  match parsed with
  | none => "bad-op"
  | some evs =>
    let tab := evs.flatMap (·.2)
    let (s, reps) := run (decOf tab) WatchState.init (evs.map (·.1))
    if reps.any (fun r => isMissing r.cmd) || (s.current.map isMissing).getD false then "bad-op missing-decode"
    else
      let cur := match s.current with
        | some c => fmtCmd c
        | none => "-"
      "ok " ++ " ".intercalate (reps.map fmtReport) ++ s!" | cur={cur} dt={s.devicetype}"

def fmtTxn : Txn → String
  | .plain _ => "plain" | .query _ _ => "query" | .twiceGood _ => "good"
  | .twiceFail _ .late => "fail:late" | .twiceFail _ .different => "fail:different"
  | .twiceFail _ .answered => "fail:answered" | .twiceFail _ .noFrame => "fail:noframe"
  | .pending _ => "pending" | .stray _ => "stray"

def specWatchRun (toks : List String) : String :=
  let parsed := toks.mapM (fun tok =>
    if tok == "G" then some (Item.gap, ([] : Table))
    else (pkt? tok).map (fun (p, t) => (Item.pkt p, t)))
  match parsed with
  | none => "bad-op"
  | some its =>
    let tab := its.flatMap (·.2)
    let txns := transactions (decOf tab) (its.map (·.1))
    if txns.any (fun t => ((cmdOf t).map isMissing).getD false) then "bad-op missing-decode"
    else
      "ok " ++ " ".intercalate ((txns.filterMap reportOf).map fmtReport) ++ " | " ++
        " ".intercalate (txns.map fmtTxn)

def serialRunDrv (spec : Bool) (toks : List String) : String :=
  let parsed := toks.mapM (fun tok =>
    match tok.splitOn "." with
    | "F" :: rest => fwd? rest
    | _ => none)
  match parsed with
  | none => "bad-op"
  | some fs =>
    let tab := fs.flatMap (·.2)
    let cmds := if spec then serialCmds (decOf tab) 0 (fs.map (·.1))
                else serialRun (decOf tab) 0 (fs.map (·.1))
    if cmds.any isMissing then "bad-op missing-decode"
    else "ok " ++ " ".intercalate (cmds.map fmtCmd)

def regEv? (tok : String) : Option (RegEv Nat) :=
  match tok.splitOn "." with
  | ["S", i] => (nat? i).map .sub
  | ["U", i] => (nat? i).map .unsub
  | ["M", x] => (nat? x).map .emit
  | _ => none

def regRun (spec : Bool) (toks : List String) : String :=
  match toks.mapM regEv? with
  | none => "bad-op"
  | some evs =>
    let ids := (evs.filterMap (fun e => match e with | .sub i => some i | _ => none)).eraseDups
    let r := Reg.init.run evs
    let view (i : Nat) : List Nat := if spec then expectedFor i false evs else r.received i
    "ok " ++ " ".intercalate (ids.map (fun i => s!"{i}=" ++ ",".intercalate ((view i).map toString)))

/-- `kreg <i>=<key>,… <ev>*`: the keyed handler table after the events, `<key>:<i>` in dict order -/
def kregRun (keytab : String) (toks : List String) : String :=
  let pairs? : Option (List (Nat × Nat)) :=
    if keytab == "-" then some []
    else (keytab.splitOn ",").mapM (fun e =>
      match e.splitOn "=" with
      | [i, k] => do let i ← nat? i; let k ← nat? k; pure (i, k)
      | _ => none)
  match pairs?, toks.mapM regEv? with
  | some ps, some evs =>
    let named := evs.all (fun e => match e with
      | .sub i | .unsub i => ps.any (·.1 == i)
      | .emit _ => true)
    if !named then "bad-op missing-key"
    else
      let key := fun i => ((ps.find? (·.1 == i)).map (·.2)).getD 0
      let r := (KReg.init (α := Nat)).run key evs
      "ok " ++ ",".intercalate (r.table.map (fun p => s!"{p.1}:{p.2}"))
  | _, _ => "bad-op"

/-- `hatroute (A.<t> | W.<t>.<n> | G.<t> | R.<t>)*`: per event `-`, `from=<owner>` for a read, `refused` -/
def hatRoute (toks : List String) : Option (List String) := do
  let mut h := Hat.init
  let mut outs : List String := []
  for tok in toks do
    let ev ← match tok.splitOn "." with
      | ["A", t] => (nat? t).map HatEv.acquire
      | ["W", t, n] => do let t ← nat? t; let n ← nat? n; pure (HatEv.write t n)
      | ["G", t] => (nat? t).map HatEv.read
      | ["R", t] => (nat? t).map HatEv.release
      | _ => none
    match h.step ev with
    | some (h', some (_, l)) => h := h'; outs := outs ++ [s!"from={l}"]
    | some (h', none) => h := h'; outs := outs ++ ["-"]
    | none => outs := outs ++ ["refused"]
  pure outs

def fmtPkt : Pkt → String
  | .fwd f => s!"F.{f.bits}.{f.data}" | .back b => s!"B.{b}" | .backErr => "E"
  | .noFrame => "N" | .other => "O"

def constsOk : Bool := protocolConstants.all (fun p => p.1 == p.2)

def handle : List String → String
  | "tri" :: r :: tw :: msgs =>
    match cmd? r tw, msgs.mapM tmsg? with
    | some c, some ms => fmtTRes (tridonicAnswer c ms)
    | _, _ => "bad-op"
  | ["has", r, tw, rep] =>
    match cmd? r tw, hrep? rep with
    | some c, some rep => fmtRes fmtAnswer (hassebAnswer c rep)
    | _, _ => "bad-op"
  | ["luba", r, tw, w] =>
    match cmd? r tw, swait? w with
    | some c, some w => fmtRes fmtAnswer (lubaAnswer c w)
    | _, _ => "bad-op"
  | ["sci", r, tw, w] =>
    match cmd? r tw, swait? w with
    | some c, some w => fmtRes fmtAnswer (sciAnswer c w)
    | _, _ => "bad-op"
  | ["dsrv", r, tw, a, b, c, d] =>
    match cmd? r tw, nat? a, nat? b, nat? c, nat? d with
    | some cmd, some a, some b, some c, some d => fmtRes fmtAnswer (daliserverUnpack cmd a b c d)
    | _, _, _, _, _ => "bad-op"
  | "atx" :: r :: tw :: lines =>
    match cmd? r tw, lines.mapM aline? with
    | some c, some ls => fmtRes fmtAnswer (atxAnswer c ls)
    | _, _ => "bad-op"
  | ["enc", gw, tw, b24, bus, junk] =>
    match gw? gw, bool? tw, bool? b24, bus? bus, nat? junk with
    | some gw, some tw, some b24, some bus, some junk => "ok " ++ enc gw tw b24 bus junk
    | _, _, _, _, _ => "bad-op"
  | ["conf", gw, r, bus, a] =>
    match gw? gw, resp? r, bus? bus, answer? a with
    | some gw, some r, some bus, some a => if conforms gw ⟨r, false⟩ bus a then "ok 1" else "ok 0"
    | _, _, _, _ => "bad-op"
  | ["consts"] => if constsOk then "ok 1" else "ok 0"
  | "triroute" :: s0 :: toks =>
    match nat? s0 with
    | some s0 => match triRoute s0 toks with
      | some o => "ok " ++ " ".intercalate o
      | none => "bad-op"
    | none => "bad-op"
  | "slotroute" :: toks =>
    match slotRoute toks with
    | some o => "ok " ++ " ".intercalate o
    | none => "bad-op"
  | "queroute" :: all :: toks =>
    match bool? all with
    | some all => match queRoute all toks with
      | some o => "ok " ++ " ".intercalate o
      | none => "bad-op"
    | none => "bad-op"
  | "watch" :: toks => watchRun toks
  | "specwatch" :: toks => specWatchRun toks
  | ["classify", o, t, a, b, c, d] =>
    match nat? o, nat? t, nat? a, nat? b, nat? c, nat? d with
    | some o, some t, some a, some b, some c, some d =>
      match classify o t a b c d with
      | some p => "ok " ++ fmtPkt p
      | none => "err ValueError"
    | _, _, _, _, _, _ => "bad-op"
  | "serial" :: toks => serialRunDrv false toks
  | "specserial" :: toks => serialRunDrv true toks
  | "kreg" :: keytab :: toks => kregRun keytab toks
  | "hatroute" :: toks =>
    match hatRoute toks with
    | some o => "ok " ++ " ".intercalate o
    | none => "bad-op"
  | "reg" :: toks => regRun false toks
  | "specreg" :: toks => regRun true toks
  | _ => "bad-op"

end DaliVerif.WatchDrv
