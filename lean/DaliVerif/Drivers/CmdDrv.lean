import DaliVerif.Model.Decode
import DaliVerif.Model.Construct
import DaliVerif.Gen.Commands
import DaliVerif.Spec.AddressSpec
import DaliVerif.Spec.EventSpec
import DaliVerif.Spec.IEC62386
import DaliVerif.Drivers.Proto
/-!
Line protocol for the address / instance codec and the command codec.

    dec <bits> <data> <dt> <map>          map: `-` (None) | `e` (empty) | sa:inum:type,…
        -> <class>|<ok bits data / err E>|<str()>
    afrom <bits> <data>                   -> <addr token> | none      (spec afrom: the standard's partition)
    aadd <addr> <bits> <data>             -> ok <bits> <data> | err E
    aeq <addr> <addr>                     -> 0|1
    astr <addr>                           -> text (spaces as `_`)
    ifrom <bits> <data>                   -> <inst token> | none      (spec ifrom)
    iadd <inst> <bits> <data>             -> ok <bits> <data> | err E
    ieq <inst> <inst> | istr <inst>
    mkaddr <kind> <val> | mkinst <kind> <val>   constructor checks -> ok <token> | err E
-/
namespace DaliVerif.CmdDrv
open DaliVerif Proto Cmd

def addrTok : Addr → String
  | .gearBroadcast => "gb" | .deviceBroadcast => "db"
  | .gearUnaddressed => "gu" | .deviceUnaddressed => "du"
  | .gearGroup g => s!"gg:{g}" | .deviceGroup g => s!"dg:{g}"
  | .gearShort a => s!"gs:{a}" | .deviceShort a => s!"ds:{a}"

def parseAddr (s : String) : Option Addr :=
  match s.splitOn ":" with
  | ["gb"] => some .gearBroadcast | ["db"] => some .deviceBroadcast
  | ["gu"] => some .gearUnaddressed | ["du"] => some .deviceUnaddressed
  | ["gg", n] => (parseNat? n).map .gearGroup | ["dg", n] => (parseNat? n).map .deviceGroup
  | ["gs", n] => (parseNat? n).map .gearShort | ["ds", n] => (parseNat? n).map .deviceShort
  | _ => none

def instTok : Inst → String
  | .number n => s!"n:{n}" | .group n => s!"g:{n}" | .type n => s!"t:{n}"
  | .featNumber n => s!"fn:{n}" | .featGroup n => s!"fg:{n}" | .featType n => s!"ft:{n}"
  | .featBroadcast => "fb" | .broadcast => "b" | .featDevice => "fd" | .device => "d"
  | .reserved b => s!"r:{b}"

def parseInst (s : String) : Option Inst :=
  match s.splitOn ":" with
  | ["n", n] => (parseNat? n).map .number | ["g", n] => (parseNat? n).map .group
  | ["t", n] => (parseNat? n).map .type | ["fn", n] => (parseNat? n).map .featNumber
  | ["fg", n] => (parseNat? n).map .featGroup | ["ft", n] => (parseNat? n).map .featType
  | ["fb"] => some .featBroadcast | ["b"] => some .broadcast
  | ["fd"] => some .featDevice | ["d"] => some .device
  | ["r", n] => (parseNat? n).map .reserved
  | _ => none

def parseMap (s : String) : Option (Option InstMap) :=
  if s == "-" then some none
  else if s == "e" then some (some [])
  else
    (s.splitOn ",").mapM (fun (e : String) =>
      match e.splitOn ":" with
      | [a, b, c] => do
          let a ← parseNat? a; let b ← parseNat? b; let c ← parseInt? c
          pure ((a, b), c)
      | _ => none) |>.map some

def fmtFrameRes (r : PyRes Frame) : String := fmtRes (fun f => s!"{f.bits} {f.data}") r

def us (s : String) : String := s.replace " " "_"

def fmtOpt (o : Option Nat) : String := match o with | some n => toString n | none => "-"

def fmtMeaning : Spec.EventMeaning → String
  | .pushbutton n => s!"push:{n}"
  | .occupancy a b c d => s!"occ:{a.toNat},{b.toNat},{c.toNat},{d.toNat}"
  | .illuminance v => s!"light:{v}"
  | .unknown x => s!"unk:{x}"

def fmtObs : Option Spec.EventObs → String
  | none => "none"
  | some o =>
      let it := match o.instanceType with | some t => toString t | none => "-"
      s!"sa={fmtOpt o.shortAddress} in={fmtOpt o.instanceNumber} dg={fmtOpt o.deviceGroup} ig={fmtOpt o.instanceGroup} it={it} m={fmtMeaning o.meaning}"

/-- `map a:sa:inum:type,q:sa:inum,…` : run add_type / get_type operations -/
def runMapOps (ops : List String) : Option String := do
  let mut m : InstMap := []
  let mut out : List String := []
  for op in ops do
    match op.splitOn ":" with
    | ["a", a, b, c] =>
        let a ← parseNat? a; let b ← parseNat? b; let c ← parseInt? c
        m := m.addType a b c
    | ["q", a, b] =>
        let a ← parseNat? a; let b ← parseNat? b
        out := out ++ [match m.getType a b with | some t => toString t | none => "none"]
    | _ => none
  pure (",".intercalate out)

def parseArg (s : String) : Option Arg :=
  if s.startsWith "A:" then (parseAddr (s.drop 2).copy).map .addr
  else if s.startsWith "I:" then (parseInst (s.drop 2).copy).map .inst
  else (parseVal? s).map .val

def findStd (n : String) : Option StdClass := (Gen.tables.stdOpcodes.find? (fun e => e.2.name == n)).map (·.2)
def findSpecial (n : String) : Option SpecialClass :=
  (Gen.tables.specialOpcodes.find? (fun e => e.2.name == n)).map (·.2)
def findDev (n : String) : Option DevClass := (Gen.tables.devOpcodes.find? (fun e => e.2.name == n)).map (·.2)
def findInst (n : String) : Option DevClass := (Gen.tables.instOpcodes.find? (fun e => e.2.name == n)).map (·.2)
def findDevSpecial (n : String) : Option DevSpecialClass :=
  Gen.tables.devCommands.findSome? fun e =>
    match e with
    | .special c => if c.name == n then some c else none
    | _ => none

/-- construct, assemble the frame, decode it back under the object's own context -/
def fmtBuilt (r : PyRes Cmd) : String :=
  match r with
  | .error e => "err " ++ e.name
  | .ok c =>
    match encode c with
    | .error e => "err " ++ e.name
    | .ok f =>
      let back := decode Gen.tables f.bits f.data (dtOf c) (mapFor c)
      s!"ok {className c}|{f.bits} {f.data}|{us (render c)}|{if back == c then 1 else 0}"

def optNat (s : String) : Option (Option Nat) := if s == "-" then some none else (parseNat? s).map some

/-- keyword combinations of `_Event.__init__` -/
def eventSrcOfKw := constructEventSrc

def buildEvent (cls : String) (src : EventSrc) (data : String) : PyRes Cmd :=
  match Gen.tables.pushEvents.find? (fun e => e.2.name == cls) with
  | some e => .ok (.event cls 1 src (.pushbutton e.2))
  | none =>
    match Gen.tables.instanceTypes.find? (fun e => e.2.name == cls) with
    | some (t, et) =>
      match et.kind with
      | .occupancy =>
          if data == "-" then .error .ValueError else
          match data.splitOn ":" with
          | ["occ", fl] =>
              match fl.splitOn "," with
              | [a, b, c, d] => .ok (.event cls t src (.occupancy (a == "1") (b == "1") (c == "1") (d == "1")))
              | _ => .error .TypeError
          | _ =>
            match parseNat? data with
            | some x => .ok (.event cls t src (.occupancy (x &&& 1 == 1) (x &&& 2 == 2) (x &&& 4 == 4) (x &&& 8 == 8)))
            | none => .error .TypeError
      | .light =>
          match parseNat? data with
          | some x => .ok (.event cls t src (.light x))
          | none => .error .ValueError
      | _ => .error .NotImplementedError
    | none => .error .NotImplementedError

def specRow (q : String) : Option Spec.SpecRow := Spec.commandRows.find? (fun r => r.qualname == q)

/-- the frame the standard's table row prescribes for these arguments (computed
from `Spec.commandRows` only, never from the regenerated tables) -/
def specFrame (r : Spec.SpecRow) (args : List String) : Option Nat :=
  match r.family, args with
  | "std", [a] => do let a ← parseAddr a; if r.hasparam then none else pure (512 * a.addrByte + 256 + r.code)
  | "std", [a, p] => do
      let a ← parseAddr a; let p ← parseNat? p
      if r.hasparam && p < 16 then pure (512 * a.addrByte + 256 + r.code + p) else none
  | "dapc", [a, p] => do let a ← parseAddr a; let p ← parseNat? p; pure (512 * a.addrByte + p)
  | "special", [] => if r.hasparam then none else some (r.code * 256)
  | "special", [p] => do let p ← parseNat? p; if r.hasparam then pure (r.code * 256 + p) else none
  | "shortSpecial", ["MASK"] => some (r.code * 256 + 255)
  | "shortSpecial", [a] => do let a ← parseNat? a; pure (r.code * 256 + 2 * a + 1)
  | "initialise", ["broadcast"] => some (r.code * 256)
  | "initialise", ["unaddressed"] => some (r.code * 256 + 255)
  | "initialise", [a] => do let a ← parseNat? a; pure (r.code * 256 + 2 * a + 1)
  | "devStd", [a] => do let a ← parseAddr a; pure (131072 * a.addrByte + 65536 + 256 * 0xFE + r.code)
  | "devInst", [a, i] => do
      let a ← parseAddr a; let i ← parseInst i
      pure (131072 * a.addrByte + 65536 + 256 * i.byte + r.code)
  | "devSpecial0", [] => some (65536 * r.addrByte + 256 * r.instByte)
  | "devSpecial1", [p] => do let p ← parseNat? p; pure (65536 * r.addrByte + 256 * r.instByte + p)
  | "devSpecial2", [a, b] => do
      let a ← parseNat? a; let b ← parseNat? b; pure (65536 * r.addrByte + 256 * a + b)
  | _, _ => none

def handle : List String → String
  | ["spec", "row", q] =>
      match specRow q with
      | some r => s!"{r.framesize} {r.family} {r.code} {r.addrByte} {r.instByte} {r.hasparam} {r.dt} {r.sendtwice} answer={r.answer}"
      | none => "none"
  | "spec" :: "frame" :: q :: args =>
      match specRow q with
      | some r => match specFrame r args with | some f => s!"ok {r.framesize} {f}" | none => "bad-op"
      | none => "none"
  | ["spec", "evframe", itype, sa, inum, ig, dg, info] =>
      match parseNat? itype, optNat sa, optNat inum, optNat ig, optNat dg, parseNat? info with
      | some t, some sa, some inum, some ig, some dg, some info =>
          match Spec.eventFrame sa inum dg ig t info with
          | some f => s!"ok 24 {f}"
          | none => "none"
      | _, _, _, _, _, _ => "bad-op"
  | ["spec", "rows"] => " ".intercalate (Spec.commandRows.map (·.qualname))
  | "mk" :: "std" :: n :: args =>
      match findStd n, args.mapM parseArg with
      | some c, some args => fmtBuilt (constructStd c args)
      | _, _ => "bad-op"
  | "mk" :: "dapc" :: _ :: args =>
      match args.mapM parseArg with
      | some args => fmtBuilt (constructDapc args)
      | none => "bad-op"
  | "mk" :: "special" :: n :: args =>
      match findSpecial n, args.mapM parseArg with
      | some c, some args => fmtBuilt (constructSpecial c args)
      | _, _ => "bad-op"
  | "mk" :: "shortSpecial" :: n :: args =>
      match findSpecial n, args.mapM parseArg with
      | some c, some args => fmtBuilt (constructShortSpecial c args)
      | _, _ => "bad-op"
  | ["mk", "initialise", n, b, a] =>
      match findSpecial n, parseVal? b, parseVal? a with
      | some c, some b, some a => fmtBuilt (constructInitialise c b a)
      | _, _, _ => "bad-op"
  | "mk" :: "devStd" :: n :: args =>
      match findDev n, args.mapM parseArg with
      | some c, some args => fmtBuilt (constructDevStd c args)
      | _, _ => "bad-op"
  | "mk" :: "devInst" :: n :: args =>
      match findInst n, args.mapM parseArg with
      | some c, some args => fmtBuilt (constructDevInst c args)
      | _, _ => "bad-op"
  | "mk" :: "devSpecial" :: n :: args =>
      match findDevSpecial n, args.mapM parseArg with
      | some c, some args => fmtBuilt (constructDevSpecial c args)
      | _, _ => "bad-op"
  | ["mkev", cls, sa, inum, ig, dg, data] =>
      match optNat sa, optNat inum, optNat ig, optNat dg with
      | some sa, some inum, some ig, some dg =>
          fmtBuilt (do
            let src ← eventSrcOfKw sa inum ig dg
            if cls.startsWith "unknown:" then
              match parseInt? (cls.drop 8).copy, parseNat? data with
              | some t, some d => pure (.unknownEvent t src d)
              | _, _ => .error .NotImplementedError
            else buildEvent cls src data)
      | _, _, _, _ => "bad-op"
  | ["obs", data, dt, m] =>
      match parseNat? data, parseNat? dt, parseMap m with
      | some data, some dt, some m => fmtObs (Spec.observe (decode Gen.tables 24 data dt m))
      | _, _, _ => "bad-op"
  | ["spec", "obs", data, _, m] =>
      match parseNat? data, parseMap m with
      | some data, some m => fmtObs (Spec.expectedObs data m)
      | _, _ => "bad-op"
  | ["retry", data, m] =>
      match parseNat? data, parseMap m with
      | some data, some (some m) =>
          match retryDecode Gen.tables (decode Gen.tables 24 data 0 none) m with
          | some c => s!"{className c}|{fmtFrameRes (encode c)}|{us (render c)}"
          | none => "none"
      | _, _ => "bad-op"
  | ["map", ops] =>
      match runMapOps (ops.splitOn ",") with
      | some r => "ok " ++ r
      | none => "bad-op"
  | ["dec", bits, data, dt, m] =>
      match parseNat? bits, parseNat? data, parseNat? dt, parseMap m with
      | some bits, some data, some dt, some m =>
          let c := decode Gen.tables bits data dt m
          s!"{className c}|{fmtFrameRes (encode c)}|{us (render c)}"
      | _, _, _, _ => "bad-op"
  | ["afrom", bits, data] =>
      match parseNat? bits, parseNat? data with
      | some bits, some data =>
          match Addr.fromFrame Gen.tables.addrOrder ⟨bits, data⟩ with
          | some a => addrTok a | none => "none"
      | _, _ => "bad-op"
  | ["spec", "afrom", bits, data] =>
      match parseNat? bits, parseNat? data with
      | some bits, some data =>
          match Spec.partition ⟨bits, data⟩ with
          | some a => addrTok a | none => "none"
      | _, _ => "bad-op"
  | ["aadd", a, bits, data] =>
      match parseAddr a, parseNat? bits, parseNat? data with
      | some a, some bits, some data => fmtFrameRes (a.addToFrame ⟨bits, data⟩)
      | _, _, _ => "bad-op"
  | ["aeq", a, b] =>
      match parseAddr a, parseAddr b with
      | some a, some b => if a.eq b then "1" else "0"
      | _, _ => "bad-op"
  | ["astr", a] => match parseAddr a with | some a => us a.render | none => "bad-op"
  | ["ifrom", bits, data] =>
      match parseNat? bits, parseNat? data with
      | some bits, some data =>
          match Inst.fromFrame ⟨bits, data⟩ with
          | some i => instTok i | none => "none"
      | _, _ => "bad-op"
  | ["spec", "ifrom", bits, data] =>
      match parseNat? bits, parseNat? data with
      | some bits, some data =>
          if bits == 24 then instTok (Spec.instOfByte (data / 256 % 256)) else "none"
      | _, _ => "bad-op"
  | ["iadd", i, bits, data] =>
      match parseInst i, parseNat? bits, parseNat? data with
      | some i, some bits, some data => fmtFrameRes (i.addToFrame ⟨bits, data⟩)
      | _, _, _ => "bad-op"
  | ["ieq", a, b] =>
      match parseInst a, parseInst b with
      | some a, some b => if a.eq b then "1" else "0"
      | _, _ => "bad-op"
  | ["istr", i] => match parseInst i with | some i => us i.render | none => "bad-op"
  | ["mkaddr", k, v] =>
      match parseVal? v with
      | none => "bad-op"
      | some v =>
        let r := match k with
          | "gs" => some (Addr.mkGearShort v) | "ds" => some (Addr.mkDeviceShort v)
          | "gg" => some (Addr.mkGearGroup v) | "dg" => some (Addr.mkDeviceGroup v)
          | _ => none
        match r with
        | some r => fmtRes addrTok r
        | none => "bad-op"
  | ["mkinst", k, v] =>
      match parseVal? v with
      | none => "bad-op"
      | some v =>
        let mk : Option (Nat → Inst) := match k with
          | "n" => some .number | "g" => some .group | "t" => some .type
          | "fn" => some .featNumber | "fg" => some .featGroup | "ft" => some .featType
          | _ => none
        match mk with
        | some mk => fmtRes instTok (Inst.mkNumbered mk v)
        | none => "bad-op"
  | _ => "bad-op"

end DaliVerif.CmdDrv
