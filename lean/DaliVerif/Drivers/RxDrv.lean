import DaliVerif.Model.SerialRx
import DaliVerif.Spec.Deframe
import DaliVerif.Drivers.Proto
/-!
Line protocol for the serial receivers (model) and the reference deframers (spec).

    luba <chunks> <rx-undecodable> <tx-undecodable>   -> ok <items> | <errors> | <phase> <expected> <received> <rxdt> <txdt>
    sci  <chunks> <rx-undecodable> -                  -> ok <items> | <errors> | <phase> <rxdt>
    spec luba <chunks> <rx-undecodable> <tx-undecodable>  -> ok <outs>      (chunk boundaries ignored)
    spec sci  <chunks> <rx-undecodable> -                 -> ok <items>

`<chunks>`: hex strings separated by `,` (`-` = no chunk at all, `.` = an empty chunk);
undecodable lists: `-` or `bits:data:dt;bits:data:dt;…` (the decode oracle answers
`true` for everything not listed).
-/
namespace DaliVerif.RxDrv
open DaliVerif Proto SerialRx

def hexVal (c : Char) : Option Nat :=
  if c.isDigit then some (c.toNat - '0'.toNat)
  else if 'a' ≤ c ∧ c ≤ 'f' then some (c.toNat - 'a'.toNat + 10)
  else if 'A' ≤ c ∧ c ≤ 'F' then some (c.toNat - 'A'.toNat + 10)
  else none

def parseHex : List Char → Option (List Nat)
  | [] => some []
  | a :: b :: rest => do
      let x ← hexVal a; let y ← hexVal b; let r ← parseHex rest
      pure ((x * 16 + y) :: r)
  | _ => none

def parseChunks (s : String) : Option (List (List Nat)) :=
  if s == "-" then some [] else
  (s.splitOn ",").mapM (fun c => if c == "." then some [] else parseHex c.toList)

def parseTriples (s : String) : Option (List (Nat × Nat × Nat)) :=
  if s == "-" then some [] else
  (s.splitOn ";").mapM (fun t =>
    match t.splitOn ":" with
    | [a, b, c] => do
        let a ← parseNat? a; let b ← parseNat? b; let c ← parseNat? c
        pure (a, b, c)
    | _ => none)

def mkOracle (rx tx : List (Nat × Nat × Nat)) : Oracle :=
  ⟨fun b d t => !rx.contains (b, d, t), fun b d t => !tx.contains (b, d, t)⟩

def fmtDec (d : Dec) : String := s!"{d.bits}:{d.data}:{d.dt}"

def fmtItem : Item → String
  | .raw v => s!"raw:{v}"
  | .txconf id none => s!"txconf:{id}:none"
  | .txconf id (some d) => s!"txconf:{id}:{fmtDec d}"
  | .observed d => s!"obs:{fmtDec d}"
  | .devinfo g i p a n => s!"devinfo:{g}:{i}:{p}:{a}:{n}"
  | .settings m f => s!"settings:{m}:{f}"
  | .sciinfo i c => s!"sciinfo:{i}:{c}"

def fmtItems (l : List Item) : String :=
  if l.isEmpty then "-" else " ".intercalate (l.map fmtItem)

def fmtErrs (l : List RxErr) : String :=
  if l.isEmpty then "-" else ",".intercalate (l.map (fun e => e.cls.name))

def fmtOut : Spec.Deframe.Out → String
  | .item i => fmtItem i
  | .malformed => "malformed"

def lubaPhase : Luba.Phase → String
  | .waitStart => "WAIT_START" | .waitCommand => "WAIT_COMMAND" | .waitLength => "WAIT_LENGTH"
  | .loopRead => "LOOP_READ" | .waitChecksum => "WAIT_CHECKSUM"

def sciPhase : Sci.Phase → String
  | .waitStatus => "WAIT_STATUS" | .waitHi => "WAIT_DATA_HI" | .waitMi => "WAIT_DATA_MI"
  | .waitLo => "WAIT_DATA_LO" | .waitChecksum => "WAIT_CHECKSUM"

def handle : List String → String
  | ["luba", ch, rx, tx] =>
    match parseChunks ch, parseTriples rx, parseTriples tx with
    | some ch, some rx, some tx =>
      let (s, items, errs) := Luba.runChunks (mkOracle rx tx) Luba.init ch
      s!"ok {fmtItems items} | {fmtErrs errs} | {lubaPhase s.phase} {s.expected} {s.received} {s.rxdt} {s.txdt}"
    | _, _, _ => "bad-op"
  | ["sci", ch, rx, tx] =>
    match parseChunks ch, parseTriples rx, parseTriples tx with
    | some ch, some rx, some tx =>
      let (s, items, errs) := Sci.runChunks (mkOracle rx tx) Sci.init ch
      s!"ok {fmtItems items} | {fmtErrs errs} | {sciPhase s.phase} {s.rxdt}"
    | _, _, _ => "bad-op"
  | ["spec", "luba", ch, rx, tx] =>
    match parseChunks ch, parseTriples rx, parseTriples tx with
    | some ch, some rx, some tx =>
      let outs := Spec.Deframe.lubaDeframe (mkOracle rx tx) ⟨0, 0⟩ ch.flatten
      "ok " ++ (if outs.isEmpty then "-" else " ".intercalate (outs.map fmtOut))
    | _, _, _ => "bad-op"
  | ["spec", "sci", ch, rx, tx] =>
    match parseChunks ch, parseTriples rx, parseTriples tx with
    | some ch, some rx, some tx =>
      "ok " ++ fmtItems (Spec.Deframe.sciDeframe (mkOracle rx tx) 0 ch.flatten)
    | _, _, _ => "bad-op"
  | _ => "bad-op"

end DaliVerif.RxDrv

namespace DaliVerif.RxDrv
/-- like `Proto.loop`, but flushing after every answer (the harness talks to this driver in lock-step) -/
partial def loopFlush (handle : List String → String) : IO Unit := do
  let stdin ← IO.getStdin
  let stdout ← IO.getStdout
  let rec go : IO Unit := do
    let line ← stdin.getLine
    if line.isEmpty then return ()
    let toks := (line.trimAsciiEnd.copy.splitOn " ").filter (· ≠ "")
    stdout.putStrLn (handle toks)
    stdout.flush
    go
  go
end DaliVerif.RxDrv
