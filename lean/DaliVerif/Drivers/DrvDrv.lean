import DaliVerif.Model.CallerProgram
/-!
# `m_drv`: trace acceptor for the asyncio drivers (C15, C17)

The harness sends the event trace recorded from the REAL driver, one line per
event; the acceptor replays it on `Async.step?` and answers `ok` while every
event is an enabled step of the model that produces the same observable
(frames, callbacks, results), else `reject <why>`.  Actions the harness cannot
observe (waiting for a report, `flush`, the generator running) are advanced
silently, each through `step?` as well, so an accepted trace *is* a schedule
of the model.

Lines:
  init <tridonic|hasseb|luba|sci> <limit|none> <first sequence number>
  spawn send <bits> <data> <twice> <dt> <query> <exc>
  spawn seq <item>…          item = c:<bits>:<data>:<twice>:<dt>:<query> | s | p
  ev <t> acq|rel|iacq|irel|connpass|close|unslot
  ev <t> slot <seq> | ev <t> write <bits> <data> <twice> | ev <t> wfail
  ev <t> done ok|cancelled|err:<Class>
  cancel <t>
  deliver <tag> echo|answer|confirm
  env lose|timer|hs|gone|back|connect
  cb connected|disconnected|failed
  end <lock 0/1> <inner n> <slots n> <up 0/1|->
-/
namespace DaliVerif.DrvDrv
open DaliVerif.Async DaliVerif.Conn

structure Acc where
  st : St
  drv : Driver
  cancelP : List Tid := []
  /-- sequences whose generator raises instead of returning -/
  boomP : List Tid := []
  cbSeen : Nat := 0

def parseNat? (s : String) : Option Nat := s.toNat?

def parseBool? (s : String) : Option Bool :=
  if s == "1" then some true else if s == "0" then some false else none

def parseDriver? : String → Option Driver
  | "tridonic" => some .tridonic | "hasseb" => some .hasseb
  | "luba" => some .luba | "sci" => some .sci | _ => none

def initSt (d : Driver) (limit : Option Nat) (seq0 : Nat) : St :=
  let conn : Conn :=
    match d with
    | .tridonic => { limit := limit, hsSteps := 2 }
    | .hasseb => { limit := limit, hsSteps := 0 }
    | _ => { limit := none, hsSteps := 0, fd := true }     -- serial: connected once, never cleared
  { cap := d.cap, conn := conn, seq := seq0 }

def parseCmd? (bits data twice dt query : String) : Option Cmd := do
  let b ← parseNat? bits
  let v ← parseNat? data
  let tw ← parseBool? twice
  let d ← parseNat? dt
  let q ← parseBool? query
  pure ⟨⟨b, v, tw, d⟩, q⟩

def parseItem? (s : String) : Option Item :=
  if s == "s" then some .sleep
  else if s == "p" then some .progress
  else match s.splitOn ":" with
    | ["c", b, v, tw, d, q] => (parseCmd? b v tw d q).map .cmd
    | _ => none

def errOfClass : String → Option Err
  | "CommunicationError" => some .comm
  | "TimeoutError" => some .timeout
  | "OSError" => some .io          -- IOError is OSError
  | "SeqBoom" => some .boom
  | "AssertionError" => some .assertion
  | _ => none

def headAct (s : St) (t : Tid) : Option Act :=
  match s.tasks[t]? with
  | some tk => tk.prog.head?.map (·.act)
  | none => none

def mailHead (s : St) (t : Tid) (m : Msg) : Option Msg :=
  match s.tasks[t]? with
  | some tk => (takeMail tk.tag (awaitSel tk.tag m) s.mail).map (·.1)
  | none => none

/-- is the next action the last `resume` of the program (where a raising generator raises)? -/
def lastResume (s : St) (t : Tid) : Bool :=
  match s.tasks[t]? with
  | some tk => !((tk.prog.drop 1).any (fun st => st.act == .resume))
  | none => false

/-- may the acceptor advance this action without an observed event? -/
def silentOK (a : Acc) (t : Tid) (act : Act) : Bool :=
  let cancelled := a.cancelP.contains t
  match act with
  | .resume => !(a.boomP.contains t && lastResume a.st t)
  | .await m _ => mailHead a.st t m == some m
  | .flush | .flush1 => true
  | .connCheck => a.st.conn.up
  | .unslot => !(a.st.owners.contains t)
  | .poll | .sleep => !cancelled
  | _ => false

/-- which exception explains that the task left its blocked action? -/
def inferRaise (a : Acc) (t : Tid) (act : Act) : Option Err :=
  if a.cancelP.contains t then (if act.canRaise then some .cancelled else none) else
  match act with
  | .await m timed =>
    if mailHead a.st t m == some .fail then some .comm
    else if timed then some .timeout else none
  | .connCheck => if a.st.conn.up then none else some .io
  | .resume => some .boom
  | .refuse => some .unsupported
  | _ => none

/-- advance task `t` until its next action is observable as `want` (a predicate on actions),
raising the inferred exception where the program cannot continue normally -/
def advance (a : Acc) (t : Tid) (want : Act → Bool) (allowRaise : Bool) : Nat → Except String Acc
  | 0 => .error "advance: out of fuel"
  | fuel + 1 =>
    match headAct a.st t with
    | none => .error s!"task {t} has no further action"
    | some act =>
      if want act then .ok a
      else if silentOK a t act then
        match step? a.st (.act t) with
        | some s' => advance { a with st := s' } t want allowRaise fuel
        | none => .error s!"silent action {repr act} of task {t} not enabled"
      else if allowRaise then
        match inferRaise a t act with
        | some e =>
          match step? a.st (.raise t e) with
          | some s' => advance { a with st := s', cancelP := a.cancelP.filter (· ≠ t) } t want false fuel
          | none => .error s!"raise {repr e} at {repr act} of task {t} not enabled"
        | none => .error s!"task {t}: model is at {repr act}, which neither matches the event nor can be left"
      else .error s!"task {t}: model is at {repr act} after an exception, event does not match the clean-up"

def fuel0 : Nat := 400

/-- `_response_available.clear()` follows the write in the same turn of the loop -/
def eagerFlush (a : Acc) (t : Tid) : Acc :=
  if headAct a.st t == some .flush then
    match step? a.st (.act t) with
    | some s' => { a with st := s' }
    | none => a
  else a

def doAct (a : Acc) (t : Tid) (want : Act → Bool) : Except String Acc := do
  let a ← advance a t want true fuel0
  match step? a.st (.act t) with
  | some s' => pure (eagerFlush { a with st := s' } t)
  | none => throw s!"action of task {t} not enabled in the model (lock={repr a.st.lock} inner={a.st.inner.length})"

/-- run a finished-looking task to its very end (silent tail) and compare the result -/
def doDone (a : Acc) (t : Tid) (res : String) : Except String Acc := do
  -- advance until the program is empty
  let rec go (a : Acc) : Nat → Except String Acc
    | 0 => .error "done: out of fuel"
    | f + 1 =>
      match a.st.tasks[t]? with
      | none => .error s!"unknown task {t}"
      | some tk =>
        if tk.prog.isEmpty then .ok a else
        match headAct a.st t with
        | none => .ok a
        | some act =>
          if silentOK a t act || act.isCleanup then
            match step? a.st (.act t) with
            | some s' => go { a with st := s' } f
            | none => .error s!"done: action {repr act} of task {t} not enabled"
          else
            match inferRaise a t act with
            | some e =>
              match step? a.st (.raise t e) with
              | some s' => go { a with st := s', cancelP := a.cancelP.filter (· ≠ t) } f
              | none => .error s!"done: raise at {repr act} not enabled"
            | none => .error s!"task {t} reported done but the model is at {repr act}"
  let a ← go a fuel0
  match a.st.tasks[t]? with
  | none => throw "unknown task"
  | some tk =>
    let exp : String :=
      match tk.exc with
      | none => "ok"
      | some .cancelled => "cancelled"
      | some e => "err:" ++ (match e with
          | .comm => "CommunicationError" | .timeout => "TimeoutError" | .io => "OSError"
          | .boom => "SeqBoom" | .assertion => "AssertionError" | .oserror => "OSError"
          | .unsupported => "UnsupportedFrameTypeError"
          | .cancelled => "cancelled")
    if exp == res then pure a else throw s!"task {t} finished with {res}, model says {exp}"

def parseMsg? : String → Option Msg
  | "echo" => some .echo | "answer" => some .answer | "confirm" => some .confirm | _ => none

def parseEnv? : String → Option Conn.Ev
  | "lose" => some .lose | "timer" => some .timer | "hs" => some .hs
  | "gone" => some .gone | "back" => some .back | "connect" => some .connect | _ => none

def parseStatus? : String → Option Status
  | "connected" => some .connected | "disconnected" => some .disconnected
  | "failed" => some .failed | _ => none

/-- settle every task's silent prefix (used before comparing the end state) -/
def settleAll (a : Acc) : Acc := Id.run do
  let mut a := a
  for t in List.range a.st.tasks.length do
    for _ in List.range 50 do
      match headAct a.st t with
      | some act =>
        if silentOK a t act && !(act == .poll) && !(act == .sleep) then
          match step? a.st (.act t) with
          | some s' => a := { a with st := s' }
          | none => pure ()
        else pure ()
      | none => pure ()
  return a

def handle (a : Option Acc) (toks : List String) : Option Acc × String :=
  match a, toks with
  | _, ["init", d, lim, sq] =>
    match parseDriver? d, parseNat? sq with
    | some drv, some sq =>
      let limit := if lim == "none" then some none else (parseNat? lim).map some
      match limit with
      | some l => (some { st := initSt drv l sq, drv := drv }, "ok")
      | none => (a, "bad-op")
    | _, _ => (a, "bad-op")
  | none, _ => (none, "bad-op")
  | some a, "spawn" :: "send" :: [b, v, tw, d, q, exc] =>
    match parseCmd? b v tw d q, parseBool? exc with
    | some c, some e =>
      match step? a.st (.spawn (mkTask a.drv (.send c e))) with
      | some s' => (some { a with st := s' }, s!"ok {s'.tasks.length - 1}")
      | none => (some a, "reject spawn")
    | _, _ => (some a, "bad-op")
  | some a, "spawn" :: "seq" :: items =>
    match items.mapM parseItem? with
    | some its =>
      match step? a.st (.spawn (mkTask a.drv (.seq its))) with
      | some s' => (some { a with st := s' }, s!"ok {s'.tasks.length - 1}")
      | none => (some a, "reject spawn")
    | none => (some a, "bad-op")
  | some a, "boom" :: [t] =>
    match parseNat? t with
    | some t => (some { a with boomP := t :: a.boomP }, "ok")
    | none => (some a, "bad-op")
  | some a, "cancel" :: [t] =>
    match parseNat? t with
    | some t => (some { a with cancelP := t :: a.cancelP }, "ok")
    | none => (some a, "bad-op")
  | some a, "ev" :: t :: rest =>
    match parseNat? t with
    | none => (some a, "bad-op")
    | some t =>
      let r : Except String Acc :=
        match rest with
        | ["acq"] => doAct a t (· == .acq)
        | ["rel"] => doAct a t (· == .rel)
        | ["iacq"] => doAct a t (· == .iacq)
        | ["irel"] => doAct a t (· == .irel)
        | ["connpass"] => doAct a t (· == .connWait)
        | ["close"] => doAct a t (· == .close)
        | ["unslot"] => doAct a t (· == .unslot)
        | ["slot", q] =>
          match parseNat? q with
          | some q => if a.st.seq = q then doAct a t (· == .slot)
                      else .error s!"slot {q}: model's next sequence number is {a.st.seq}"
          | none => .error "bad-op"
        | ["write", b, v, tw] =>
          match parseNat? b, parseNat? v, parseBool? tw with
          | some b, some v, some tw =>
            doAct a t (fun act => match act with
              | .write f => f.bits == b && f.data == v && f.twice == tw
              | _ => false)
          | _, _, _ => .error "bad-op"
        | ["wfail"] => do
          let a ← advance a t (fun act => match act with | .write _ => true | _ => false) true fuel0
          match step? a.st (.env .lose) with
          | none => throw "write failure: the model's connection is not open"
          | some s1 =>
          match step? s1 (.raise t .comm) with
          | some s' => pure { a with st := s' }
          | none => throw "write failure not possible in the model"
        | ["done", res] => doDone a t res
        | _ => .error "bad-op"
      match r with
      | .ok a' => (some a', "ok")
      | .error "bad-op" => (some a, "bad-op")
      | .error e => (some a, "reject " ++ e)
  | some a, ["deliver", tag, m] =>
    match parseNat? tag, parseMsg? m with
    | some tag, some m =>
      match step? a.st (.deliver tag m) with
      | some s' => (some { a with st := s' }, "ok")
      | none => (some a, "reject deliver")
    | _, _ => (some a, "bad-op")
  | some a, ["env", e] =>
    match parseEnv? e with
    | some e =>
      match step? a.st (.env e) with
      | some s' => (some { a with st := s' }, "ok")
      | none => (some a, s!"reject environment event {repr e} is not possible in the model's connection state")
    | none => (some a, "bad-op")
  | some a, ["cb", s] =>
    match parseStatus? s with
    | some s =>
      match a.st.conn.cbs[a.cbSeen]? with
      | some s' => if s' == s then (some { a with cbSeen := a.cbSeen + 1 }, "ok")
                   else (some a, s!"reject callback {s.name}, model reports {s'.name}")
      | none => (some a, s!"reject callback {s.name}, model reports none")
    | none => (some a, "bad-op")
  | some a, ["end", lk, inn, sl, up] =>
    let a := settleAll a
    let lockM := a.st.lock.isSome
    let ok := (parseBool? lk == some lockM) && (parseNat? inn == some a.st.inner.length) &&
              (parseNat? sl == some a.st.slots.length) &&
              (up == "-" || parseBool? up == some a.st.conn.up) &&
              (a.cbSeen == a.st.conn.cbs.length)
    if ok then (some a, "ok")
    else (some a, s!"reject end state: model lock={lockM} inner={a.st.inner.length} slots={a.st.slots.length} up={a.st.conn.up} callbacks={a.st.conn.cbs.length} (seen {a.cbSeen})")
  | some a, _ => (some a, "bad-op")

partial def loop : IO Unit := do
  let stdin ← IO.getStdin
  let stdout ← IO.getStdout
  let rec go (a : Option Acc) : IO Unit := do
    let line ← stdin.getLine
    if line.isEmpty then return ()
    let toks := (line.trimAsciiEnd.copy.splitOn " ").filter (· ≠ "")
    let (a', ans) := handle a toks
    stdout.putStrLn ans
    go a'
  go none
  stdout.flush

end DaliVerif.DrvDrv
