import DaliVerif.Model.Py
/-!
# Line protocol shared by the model drivers

One request per line, tokens separated by single spaces; one answer line per
request.  Python values are written `i:<int>`, `b:0|1`, `n` (None), `s:<text>`
(no spaces), `f:<int>` (integral float), `f:x` (non-integral float),
`l:<int>,<int>,…` (`l:` = empty), `o` (any other object).
Answers are `ok …` or `err <ExceptionClass>`; `bad-op` rejects a request the
driver does not understand (never a default).
-/
namespace DaliVerif.Proto

def parseInt? (s : String) : Option Int :=
  if s.startsWith "-" then (s.drop 1).copy.toNat?.map (fun n => - (Int.ofNat n))
  else if s.startsWith "0x" then
    let ds := (s.drop 2).copy.toList
    if ds.isEmpty then none else
    ds.foldlM (fun (acc : Nat) (c : Char) =>
      if c.isDigit then some (acc * 16 + (c.toNat - '0'.toNat))
      else if 'a' ≤ c ∧ c ≤ 'f' then some (acc * 16 + (c.toNat - 'a'.toNat + 10))
      else if 'A' ≤ c ∧ c ≤ 'F' then some (acc * 16 + (c.toNat - 'A'.toNat + 10))
      else none) 0 |>.map Int.ofNat
  else s.toNat?.map Int.ofNat

def parseNat? (s : String) : Option Nat :=
  match parseInt? s with
  | some (.ofNat n) => some n
  | _ => none

def parseVal? (s : String) : Option PyVal :=
  if s == "n" then some .none
  else if s == "o" then some .obj
  else if s.startsWith "i:" then (parseInt? (s.drop 2).copy).map .int
  else if s == "b:0" then some (.bool false)
  else if s == "b:1" then some (.bool true)
  else if s.startsWith "s:" then some (.str (s.drop 2).copy)
  else if s == "f:x" then some (.float none)
  else if s.startsWith "f:" then (parseInt? (s.drop 2).copy).map (fun i => .float (some i))
  else if s.startsWith "l:" then
    let body := (s.drop 2).copy
    if body == "" then some (.ints []) else
    (body.splitOn ",").mapM parseInt? |>.map .ints
  else none

def fmtRes {α} (f : α → String) : PyRes α → String
  | .ok a => "ok " ++ f a
  | .error e => "err " ++ e.name

def fmtList (l : List Nat) : String := ",".intercalate (l.map toString)

/-- read lines from stdin until EOF, answer each with `handle` -/
partial def loop (handle : List String → String) : IO Unit := do
  let stdin ← IO.getStdin
  let stdout ← IO.getStdout
  let rec go : IO Unit := do
    let line ← stdin.getLine
    if line.isEmpty then return ()
    let toks := (line.trimAsciiEnd.copy.splitOn " ").filter (· ≠ "")
    stdout.putStrLn (handle toks)
    stdout.flush
    go
  go
  stdout.flush

end DaliVerif.Proto
