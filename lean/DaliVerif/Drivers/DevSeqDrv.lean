import DaliVerif.Model.DevSeq
import DaliVerif.Spec.DeviceUnit
import DaliVerif.Drivers.Proto
/-!
# Lock-step driver for the control-device sequences (C13) — exe `m_devseq`

Stateful line protocol (one answer line per request line):

    bus dev <a> <status> <dtr0> <dtr1> <dtr2> inst <type> <en> <scheme> <filter> <fwidth> <res> <v0> <vstep> [inst …] [dev …]
                                   -> ok          (sets the specification bus; value(t) = (v0 + vstep*t) mod 2^res)
    fault <k> none|err|byte <n>    -> ok          (the k-th command of the next sequence gets this answer instead;
                                                  it counts as a fault only if the sequence reads that answer
                                                  and it differs from the specification bus's own answer)
    seq schemes <a> <i> <scheme> | seq setfilter <a> <i> <width|-> <value> | seq queryfilter <a> <i> <w>
      | seq inputvalue <a> <i> <res|-> | seq autodiscover <a,a,…|->
                                   -> ok          (starts the model of that sequence)
    cmd <ClassName> <bits> <frame> -> none | byte <n> | err     (the specification bus's answer;
                                      `bad-op` if the command is not one these sequences may send)
    end ok <value> | end err <Class>
                                   -> ok sync=<1|0@k:expected> model=<outcome> post=<ok|FAIL:…>
    check_bad <kind> none|err|byte <n>  -> ok 0|1 | err <Class>        (stateless: `check_bad_rsp`)

`value`: `n` (None) | `i:<int>` | `r:none|r:err|r:<byte>` (a response object's raw
value) | `m:a.i.t,…` (the mapping after discovery, sorted; `m:` empty).
`post` evaluates the property's post-condition on the *specification bus* as
driven by the real code's commands and on the value the real code returned.
It depends on the injected fault (which command, which answer): silence or a
framing error must lead to a skip / `None` / `DALISequenceError`, never to a value.
-/
namespace DaliVerif.DevSeqDrv
open DaliVerif DaliVerif.DevMem Proto

inductive Val where
  | none
  | nat (n : Nat)
  | resp (r : Resp)
  | log (l : ScanLog)
  deriving DecidableEq, Repr

inductive Seq where
  | schemes (a i : Nat) (s : Int)
  | setfilter (a i : Nat) (w : Option Nat) (v : Int)
  | queryfilter (a i w : Nat)
  | inputvalue (a i : Nat) (res : Option Nat)
  | autodiscover (addrs : List Nat)

def Seq.prog : Seq → Prog Val
  | .schemes a i s => (setEventSchemes a i s).bind fun r => .done (.resp r)
  | .setfilter a i w v => (setEventFilters a i w v).bind fun o =>
      .done (match o with | some n => .nat n | none => .none)
  | .queryfilter a i w => (queryEventFilters a i w).bind fun o =>
      .done (match o with | some n => .nat n | none => .none)
  | .inputvalue a i r => (queryInputValue a i r).bind fun n => .done (.nat n)
  | .autodiscover addrs => (DevMem.autodiscover addrs).bind fun l => .done (.log l)

structure St where
  bus : Bus := ⟨0, fun _ => none, false⟩
  bus0 : Bus := ⟨0, fun _ => none, false⟩
  seq : Option Seq := none
  model : Option (Prog Val) := none
  diverged : Option String := none
  idx : Nat := 0
  fault : Option (Nat × Resp) := none
  faulted : Bool := false
  /-- the command whose answer was replaced, and the answer it got instead -/
  faultCmd : Option (Cmd × Resp) := none

def fmtResp : Resp → String
  | .none => "none" | .err => "err" | .byte b => s!"byte {b}"

def parseResp : List String → Option Resp
  | ["none"] => some .none
  | ["err"] => some .err
  | ["byte", n] => (parseNat? n).map .byte
  | _ => none

/-- parse `inst …` groups -/
partial def parseInsts : List String → List Instance → Option (List Instance × List String)
  | "inst" :: t :: en :: sc :: fl :: fw :: res :: v0 :: vs :: rest, acc => do
      let t ← parseNat? t; let en ← parseNat? en; let sc ← parseNat? sc; let fl ← parseNat? fl
      let fw ← parseNat? fw; let res ← parseNat? res; let v0 ← parseNat? v0; let vs ← parseNat? vs
      let x : Instance := { itype := t, enabled := (en != 0), scheme := sc, filter := fl,
                            filterWidth := fw, resolution := res,
                            value := (fun c => (v0 + vs * c) % 2 ^ res), latch := [] }
      parseInsts rest (acc ++ [x])
  | rest, acc => some (acc, rest)

partial def parseDevs : List String → List (Nat × Device) → Option (List (Nat × Device))
  | [], acc => some acc
  | "dev" :: a :: st :: d0 :: d1 :: d2 :: rest, acc => do
      let a ← parseNat? a; let st ← parseNat? st
      let d0 ← parseNat? d0; let d1 ← parseNat? d1; let d2 ← parseNat? d2
      let (insts, rest) ← parseInsts rest []
      parseDevs rest (acc ++ [(a, { status := st, instances := insts, dtr0 := d0, dtr1 := d1, dtr2 := d2 })])
  | _, _ => none

def parseAddrs (s : String) : Option (List Nat) :=
  if s == "-" then some [] else (s.splitOn ",").mapM parseNat?

def parseSeq : List String → Option Seq
  | ["schemes", a, i, s] => do
      let a ← parseNat? a; let i ← parseNat? i; let s ← parseInt? s; pure (.schemes a i s)
  | ["setfilter", a, i, w, v] => do
      let a ← parseNat? a; let i ← parseNat? i; let v ← parseInt? v
      if w == "-" then pure (.setfilter a i none v) else do
        let w ← parseNat? w; pure (.setfilter a i (some w) v)
  | ["queryfilter", a, i, w] => do
      let a ← parseNat? a; let i ← parseNat? i; let w ← parseNat? w; pure (.queryfilter a i w)
  | ["inputvalue", a, i, r] => do
      let a ← parseNat? a; let i ← parseNat? i
      if r == "-" then pure (.inputvalue a i none) else do
        let r ← parseNat? r; pure (.inputvalue a i (some r))
  | ["autodiscover", l] => (parseAddrs l).map .autodiscover
  | _ => none

def parseEntry (s : String) : Option ((Nat × Nat) × Nat) :=
  match s.splitOn "." with
  | [a, i, t] => do
      let a ← parseNat? a; let i ← parseNat? i; let t ← parseNat? t; pure ((a, i), t)
  | _ => none

def parseVal (s : String) : Option Val :=
  if s == "n" then some .none
  else if s.startsWith "i:" then (parseNat? (s.drop 2).copy).map .nat
  else if s == "r:none" then some (.resp .none)
  else if s == "r:err" then some (.resp .err)
  else if s.startsWith "r:" then (parseNat? (s.drop 2).copy).map (fun b => .resp (.byte b))
  else if s == "m:" then some (.log [])
  else if s.startsWith "m:" then (((s.drop 2).copy.splitOn ",").mapM parseEntry).map .log
  else none

def fmtLog (l : ScanLog) : String :=
  ",".intercalate (l.map fun e => s!"{e.1.1}.{e.1.2}.{e.2}")

def fmtVal : Val → String
  | .none => "n" | .nat n => s!"i:{n}"
  | .resp .none => "r:none" | .resp .err => "r:err" | .resp (.byte b) => s!"r:{b}"
  | .log l => "m:" ++ fmtLog l

def fmtOutcome : PyRes Val → String
  | .ok v => "ok " ++ fmtVal v
  | .error e => "err " ++ e.name

/-- all keys (a, i) that can matter for a mapping comparison -/
def allKeys : List (Nat × Nat) :=
  (List.range 64).flatMap fun a => (List.range 32).map fun i => (a, i)

/-- the commands whose answer these sequences look at (a "fault" on any other
command changes nothing: every driver resumes the generator with `None`) -/
def readsAnswer : Cmd → Bool
  | .queryEventScheme .. | .queryEventFilterL .. | .queryEventFilterM .. | .queryEventFilterH ..
  | .queryResolution .. | .queryInputValue .. | .queryInputValueLatch .. | .queryInstanceEnabled ..
  | .queryInstanceType .. | .queryDeviceStatus .. | .queryNumberOfInstances .. => true
  | _ => false

/-- the substituted answer was silence or a framing error (not another byte) -/
def silentFault : Option (Cmd × Resp) → Bool
  | some (_, .none) | some (_, .err) => true
  | _ => false

/-- discovery: the mapping keys a missing / garbled answer to command `c` must keep
out of the mapping (status / instance count: the whole device; enabled / type:
that instance) -/
def skippedBy (c : Cmd) (k : Nat × Nat) : Bool :=
  match c with
  | .queryDeviceStatus a | .queryNumberOfInstances a => k.1 == a
  | .queryInstanceEnabled a i | .queryInstanceType a i => k == (a, i)
  | _ => false

/-- The property's post-condition, evaluated on the specification bus before
(`b0`) and after (`b`) the run and on the outcome the *real code* reported.
`fault`: the command whose answer was replaced by an injected fault (only
counted if the sequence reads that answer and it differs from the real one),
with the substituted answer. -/
def post (sq : Seq) (b0 b : Bus) (fault : Option (Cmd × Resp)) (out : PyRes Val) : Option String :=
  let faulted := fault.isSome
  let silent := silentFault fault
  match sq with
  | .schemes a i s =>
    if !addrOK a i || s < 0 || s > 4 then
      if out == .error .ValueError then none else some "expected ValueError"
    else match fault with
      | some (_, fr) =>
        -- only QUERY EVENT SCHEME is read: the scheme is stored all the same and the
        -- response object is handed back as received
        let stored := match b0.inst? a i, b.inst? a i with
          | some _, some x' => x'.scheme == s.toNat
          | _, _ => true
        if !stored then some s!"scheme not stored (fault on the read-back only)"
        else if out == .ok (.resp fr) then none
        else some s!"expected the response object as received ({fmtResp fr})"
      | none =>
      match b0.inst? a i, b.inst? a i with
      | some _, some x' =>
        if x'.scheme == s.toNat && out == .ok (.resp (.byte s.toNat)) then none
        else some s!"scheme stored {x'.scheme}, want {s}"
      | _, _ => if out == .ok (.resp .none) then none else some "absent instance must give silence"
  | .setfilter a i w v =>
    if !addrOK a i then (if out == .error .ValueError then none else some "expected ValueError")
    else if v < 0 || v ≥ 16777216 then
      (if out == .error .OverflowError then none else some "expected OverflowError")
    else if faulted then
      -- the fault is on the read-back; the filter itself has been stored
      let storedOK := match w, b0.inst? a i, b.inst? a i with
        | some w, some x, some x' => !(x.filterWidth == w && v.toNat < 2 ^ w) || x'.filter == v.toNat
        | _, _, _ => true
      if !storedOK then some "filter not stored (fault on the read-back only)" else
      match out with
      | .ok .none => none
      | .ok (.nat _) => if silent then some "a missing or garbled read-back must give None" else none
      | _ => some "fault must give None or a value"
    else match w, b0.inst? a i, b.inst? a i with
      | some w, some x, some x' =>
        -- the property's quantifier: an enum of the instance's filter width, value < 2^width
        if x.filterWidth == w && v.toNat < 2 ^ w then
          if x'.filter == v.toNat && out == .ok (.nat v.toNat) then none
          else some s!"filter stored {x'.filter}, returned {fmtOutcome out}, want {v}"
        else none
      | _, none, _ => if out == .ok .none then none else some "absent instance must give None"
      | _, _, _ => none
  | .queryfilter a i w =>
    if !addrOK a i then (if out == .error .ValueError then none else some "expected ValueError")
    else if faulted then
      match out with
      | .ok .none => none
      | .ok (.nat _) => if silent then some "a missing or garbled answer must give None" else none
      | _ => some "fault must give None or a value"
    else match b0.inst? a i with
      | some x =>
        if x.filter < 2 ^ w then
          (if out == .ok (.nat x.filter) then none else some s!"want filter {x.filter}")
        else none
      | none => if out == .ok .none then none else some "absent instance must give None"
  | .inputvalue a i r =>
    if !addrOK a i then (if out == .error .ValueError then none else some "expected ValueError")
    else if faulted then
      match out with
      | .error .DALISequenceError => none
      | .ok (.nat _) =>           -- only a fault that replaced a byte by another byte may give a value
        if silent then some "a missing or garbled answer must give DALISequenceError" else none
      | _ => some "fault must give DALISequenceError"
    else match b0.inst? a i with
      | some x =>
        let t := match r with | some _ => b0.clock | none => b0.clock + 1
        let ok := match r with | some n => n == x.resolution | none => true
        if ok && 1 ≤ x.resolution then
          (if out == .ok (.nat (x.value t)) then none else some s!"want value {x.value t}")
        else none
      | none => if out == .error .DALISequenceError then none else some "absent instance: DALISequenceError"
  | .autodiscover addrs =>
    if addrs.any (· > 63) then (if out == .error .ValueError then none else some "expected ValueError")
    else match out with
      | .ok (.log m) =>
        if b.quiescent then some "quiescent mode left on" else
        match fault with
        | some (_, .byte _) => none      -- another byte: the scan cannot know better
        | _ =>
        -- The reported mapping (started empty) must be exactly the expected one; a key
        -- whose status / count / enabled / type query went unanswered or was garbled
        -- must be skipped (unless its address is scanned a second time, cleanly).
        let want (k : Nat × Nat) : Option Nat :=
          match fault with
          | some (c, _) =>
            if skippedBy c k && addrs.count k.1 ≤ 1 then Option.none
            else expectedType b0.devs addrs k.1 k.2
          | Option.none => expectedType b0.devs addrs k.1 k.2
        let bad := allKeys.filter fun k => lookupLog m (fun _ => Option.none) k != want k
        match bad, fault with
        | [], _ => none
        | k :: _, Option.none => some s!"mapping differs at ({k.1},{k.2})"
        | k :: _, some (c, fr) =>
          some (s!"mapping differs at ({k.1},{k.2}): recorded " ++
            (match lookupLog m (fun _ => Option.none) k with | some t => s!"type {t}" | Option.none => "nothing") ++
            ", want " ++ (match want k with | some t => s!"type {t}" | Option.none => "nothing (skip)") ++
            s!"; the answer to {c.name} {c.frame.2} was {fmtResp fr}")
      | _ => some "expected a normal return"

def handleStep (st : St) : List String → St × String
  | "bus" :: rest =>
    match parseDevs rest [] with
    | some devs =>
      let b : Bus := ⟨0, fun a => (devs.find? (·.1 == a)).map (·.2), false⟩
      ({ st with bus := b, bus0 := b, fault := none, faulted := false, faultCmd := none }, "ok")
    | none => (st, "bad-op")
  | "fault" :: k :: rest =>
    match parseNat? k, parseResp rest with
    | some k, some r => ({ st with fault := some (k, r) }, "ok")
    | _, _ => (st, "bad-op")
  | "seq" :: rest =>
    match parseSeq rest with
    | some sq => ({ st with seq := some sq, model := some sq.prog, diverged := none, idx := 0,
                            bus0 := st.bus, faulted := false, faultCmd := none }, "ok")
    | none => (st, "bad-op")
  | ["cmd", nm, bits, fr] =>
    match parseNat? bits, parseNat? fr with
    | some bits, some fr =>
      match Cmd.decode? nm bits fr with
      | none => (st, "bad-op")
      | some c =>
        let (r0, bus') := st.bus.step c
        let (r, hit) := match st.fault with
          | some (k, fr) => if k == st.idx then (fr, readsAnswer c && fr != r0) else (r0, false)
          | none => (r0, false)
        let faulted := st.faulted || hit
        let faultCmd := if hit then some (c, r) else st.faultCmd
        let (model', div) := match st.diverged, st.model with
          | some d, m => (m, some d)
          | none, some (.send c' k) =>
            if c' == c then (some (k r), none) else (none, some s!"0@{st.idx}:{c'.render}")
          | none, some (.done _) => (none, some s!"0@{st.idx}:model-finished")
          | none, some (.fail e) => (none, some s!"0@{st.idx}:model-raised-{e.name}")
          | none, none => (none, some s!"0@{st.idx}:no-model")
        ({ st with bus := bus', idx := st.idx + 1, model := model', diverged := div, faulted := faulted,
                   faultCmd := faultCmd },
          fmtResp r)
    | _, _ => (st, "bad-op")
  | "end" :: rest =>
    let out? : Option (PyRes Val) := match rest with
      | ["ok", v] => (parseVal v).map .ok
      | ["err", cls] =>
        (([.ValueError, .OverflowError, .TypeError, .DALISequenceError, .ResponseError, .MissingResponse,
           .AttributeError, .KeyError, .IndexError, .AssertionError, .RuntimeError] : List PyErr).find?
          (·.name == cls)).map .error |>.orElse (fun _ => some (.error .Exception))
      | _ => none
    match out?, st.seq with
    | some out, some sq =>
      let (sync, modelOut) : String × String := match st.diverged, st.model with
        | some d, _ => (d, "-")
        | none, some (.done v) => ("1", fmtOutcome (.ok v))
        | none, some (.fail e) => ("1", fmtOutcome (.error e))
        | none, some (.send c _) => (s!"0@{st.idx}:{c.render}", "-")
        | none, none => ("0@end:no-model", "-")
      let p := match post sq st.bus0 st.bus st.faultCmd out with
        | none => "ok" | some m => "FAIL:" ++ m.replace " " "~"
      ({ st with seq := none, model := none, fault := none },
        s!"ok sync={sync} model={modelOut.replace " " "~"} post={p}")
    | _, _ => (st, "bad-op")
  | ["check_bad", kind, r1] | ["check_bad", kind, r1, _] => (st, "bad-op:" ++ kind ++ r1)
  | _ => (st, "bad-op")

def parseKind : String → Option RespKind
  | "plain" => some .plain | "numeric" => some .numeric | "yesno" => some .yesno
  | "bitmap" => some .bitmap | "enum5" => some .enum5 | _ => none

def handle (st : St) (toks : List String) : St × String :=
  match toks with
  | "check_bad" :: kind :: rest =>
    match parseKind kind, parseResp rest with
    | some k, some r => (st, fmtRes (fun b => if b then "1" else "0") (checkBadRsp k r))
    | _, _ => (st, "bad-op")
  | _ => handleStep st toks

partial def main : IO Unit := do
  let stdin ← IO.getStdin
  let stdout ← IO.getStdout
  let rec go (st : St) : IO Unit := do
    let line ← stdin.getLine
    if line.isEmpty then return ()
    let toks := (line.trimAsciiEnd.copy.splitOn " ").filter (· ≠ "")
    let (st', ans) := handle st toks
    stdout.putStrLn ans
    stdout.flush
    go st'
  go {}

end DaliVerif.DevSeqDrv
