import DaliVerif.Model.MemValue
import DaliVerif.Spec.MemoryLayout
import DaliVerif.Gen.Memory
import DaliVerif.Drivers.Proto
/-!
Line protocol for the memory-value model and the C11 specification.

    values                                   -> ok <bank>/<name> …
    interp|check|r2v|valid <bank> <name> <hex>   model of check_raw-or-raw_to_value / check_raw / raw_to_value / is_valid
    fromlist <bank> <name> <b,b,-,b,…>       model of from_list (`-` = None)
    v2r <bank> <name> <i:n | b:0|1 | s:<hex> | o>   model of value_to_raw
    spec interp <bank> <name> <hex>          Spec.Mem.interpret on the transcribed row
    spec row <bank> <name> | spec bank <key> the transcribed layout / bank row
    derived <bank> <name> <signed 0|1> <mask hex|none> <tmask hex|none> interp|check|r2v|valid|v2r <arg>
                                             the same accessors on a value derived from a declared one with the
                                             sign flag set/cleared (patterns as the metaclass computed them)

`<hex>` is the raw byte string (`-` = empty).  Results: `ok int <n> | ok dec <mant> <exp>`
(normalised: mantissa not divisible by ten) `| ok str <hex of the characters> |
ok bool <0|1> | ok bytes <hex> | ok flag <MASK|TMASK|Invalid>`, `err <Class>`, `unknown-impl`.
-/
namespace DaliVerif.MemValDrv
open DaliVerif Proto Mem

def hexDigit (c : Char) : Option Nat :=
  if c.isDigit then some (c.toNat - '0'.toNat)
  else if 'a' ≤ c ∧ c ≤ 'f' then some (c.toNat - 'a'.toNat + 10)
  else none

def parseHex (s : String) : Option (List Nat) :=
  if s == "-" then some [] else
  let rec go : List Char → Option (List Nat)
    | [] => some []
    | [_] => none
    | a :: b :: rest => do
      let x ← hexDigit a
      let y ← hexDigit b
      let r ← go rest
      pure ((x * 16 + y) :: r)
  go s.toList

def hexOf (l : List Nat) : String :=
  let d (n : Nat) : Char := if n < 10 then Char.ofNat ('0'.toNat + n) else Char.ofNat ('a'.toNat + n - 10)
  String.ofList (l.flatMap fun b => [d (b / 16 % 16), d (b % 16)])

def normDec : Nat → Int → Int → Int × Int
  | 0, m, e => (m, e)
  | fuel + 1, m, e => if m = 0 then (0, 0) else if m % 10 = 0 then normDec fuel (m / 10) (e + 1) else (m, e)

def flagName : Flag → String
  | .MASK => "MASK" | .TMASK => "TMASK" | .Invalid => "Invalid"

def fmtMVal : MVal → String
  | .int i => s!"int {i}"
  | .dec m e => let (m', e') := normDec 64 m e; s!"dec {m'} {e'}"
  | .text s => ("str " ++ hexOf (s.toUTF8.toList.map (·.toNat))).trimAsciiEnd.copy
  | .ascii l => ("str " ++ hexOf l).trimAsciiEnd.copy
  | .bool b => if b then "bool 1" else "bool 0"
  | .bytes l => ("bytes " ++ hexOf l).trimAsciiEnd.copy
  | .flag f => "flag " ++ flagName f

def fmtOpt {α} (f : α → String) : Option (PyRes α) → String
  | none => "unknown-impl"
  | some r => (fmtRes f r).trimAsciiEnd.copy

def findValue (bank name : String) : Option MemValue :=
  Gen.memValues.find? fun v => v.bank == bank && v.name == name

def findRow (bank name : String) : Option Spec.Mem.Row :=
  Spec.Mem.memoryLayout.find? fun r => r.bank == bank && r.name == name

def parseList (s : String) : Option (List (Option Nat)) :=
  if s == "-" then some [] else
  (s.splitOn ",").mapM fun t => if t == "-" then some none else (parseNat? t).map some

def parseW (s : String) : Option WVal :=
  if s == "o" then some .other
  else if s == "b:0" then some (.bool false)
  else if s == "b:1" then some (.bool true)
  else if s.startsWith "i:" then (parseInt? (s.drop 2).copy).map .int
  else if s.startsWith "s:" then
    let body := (s.drop 2).copy
    if body == "" then some (.str []) else
    ((body.splitOn ",").mapM parseNat?).map .str
  else none

def typeName : MemType → String
  | .ROM => "ROM" | .RAM_RO => "RAM_RO" | .RAM_RW => "RAM_RW" | .NVM_RO => "NVM_RO"
  | .NVM_RW => "NVM_RW" | .NVM_RW_L => "NVM_RW_L" | .NVM_RW_P => "NVM_RW_P" | .unknown => "unknown"

def kindName : Spec.Mem.Kind → String
  | .raw => "raw" | .number => "number" | .times k => s!"times:{k}" | .decimal m e => s!"decimal:{m}:{e}"
  | .unitScaled => "unitScaled" | .text => "text" | .flagBit => "flagBit"
  | .temperature o => s!"temperature:{o}" | .version => "version" | .cct => "cct" | .lightDist => "lightDist"

def optInt : Option Int → String
  | none => "-" | some i => toString i

/-- the accessors on a value DERIVED from a declared one (`class D(Parent): signed = …`, in a scratch bank): the
parent's coding with the sign flag and the metaclass-computed patterns of the derived class -/
def onDerived (v : MemValue) : List String → String
  | ["interp", h] => match parseHex h with
    | some raw => fmtOpt fmtMVal (interpret v raw) | none => "bad-op"
  | ["r2v", h] => match parseHex h with
    | some raw => fmtOpt fmtMVal (rawToValue v raw) | none => "bad-op"
  | ["check", h] => match parseHex h with
    | some raw => fmtOpt (fun o => match o with | none => "none" | some f => flagName f) (checkRaw v raw)
    | none => "bad-op"
  | ["valid", h] => match parseHex h with
    | some raw => fmtOpt (fun x => if x then "1" else "0") (isValid v raw) | none => "bad-op"
  | ["v2r", w] => match parseW w with
    | some x => fmtOpt (fun l => if l.isEmpty then "-" else hexOf l) (valueToRaw v x) | none => "bad-op"
  | _ => "bad-op"

def parsePattern (s : String) : Option (Option (List Nat)) :=
  if s == "none" then some none else (parseHex s).map some

def handle : List String → String
  | "derived" :: b :: n :: sg :: m :: t :: rest =>
    match findValue b n, parsePattern m, parsePattern t with
    | some v, some mask, some tmask =>
      if sg == "0" || sg == "1" then
        onDerived { v with signed := sg == "1", mask := mask, tmask := tmask } rest
      else "bad-op"
    | _, _, _ => "bad-op"
  | ["values"] => "ok " ++ " ".intercalate (Gen.memValues.map fun v => v.bank ++ "/" ++ v.name)
  | ["interp", b, n, h] =>
    match findValue b n, parseHex h with
    | some v, some raw => fmtOpt fmtMVal (interpret v raw)
    | _, _ => "bad-op"
  | ["r2v", b, n, h] =>
    match findValue b n, parseHex h with
    | some v, some raw => fmtOpt fmtMVal (rawToValue v raw)
    | _, _ => "bad-op"
  | ["check", b, n, h] =>
    match findValue b n, parseHex h with
    | some v, some raw =>
      fmtOpt (fun o => match o with | none => "none" | some f => flagName f) (checkRaw v raw)
    | _, _ => "bad-op"
  | ["valid", b, n, h] =>
    match findValue b n, parseHex h with
    | some v, some raw => fmtOpt (fun x => if x then "1" else "0") (isValid v raw)
    | _, _ => "bad-op"
  | ["fromlist", b, n, l] =>
    match findValue b n, parseList l with
    | some v, some lst => fmtOpt fmtMVal (fromList v lst)
    | _, _ => "bad-op"
  | ["v2r", b, n, w] =>
    match findValue b n, parseW w with
    | some v, some x => fmtOpt (fun l => if l.isEmpty then "-" else hexOf l) (valueToRaw v x)
    | _, _ => "bad-op"
  | ["spec", "interp", b, n, h] =>
    match parseHex h with
    | some raw =>
      match findRow b n with
      | some r => if raw.length = r.width then "ok " ++ fmtMVal (Spec.Mem.interpret r raw) else "bad-op"
      | none => "ok absent"
    | none => "bad-op"
  | ["spec", "row", b, n] =>
    match findRow b n with
    | some r =>
      s!"ok first={r.first} width={r.width} access={",".intercalate (r.access.map typeName)} " ++
      s!"kind={kindName r.kind} mask={if r.mask then 1 else 0} tmask={if r.tmask then 1 else 0} " ++
      s!"min={optInt r.min} max={optInt r.max}"
    | none => "ok absent"
  | ["spec", "bank", k] =>
    match Spec.Mem.memoryBanks.find? fun b => b.key == k with
    | some b =>
      s!"ok address={b.address} last={match b.lastAddress with | some a => toString a | none => "-"} " ++
      s!"lock={if b.hasLock then 1 else 0} latch={if b.hasLatch then 1 else 0}"
    | none => "ok absent"
  | ["spec", "rows"] => "ok " ++ " ".intercalate (Spec.Mem.memoryLayout.map fun r => r.bank ++ "/" ++ r.name)
  | _ => "bad-op"

end DaliVerif.MemValDrv
