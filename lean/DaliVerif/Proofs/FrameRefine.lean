import DaliVerif.Proofs.Bits
import DaliVerif.Spec.Bits
/-!
# Helper lemmas for C05: the abstraction `abs : Frame → Bits`
-/
namespace DaliVerif
open Spec Spec.Bits

namespace Spec.Bits

@[simp] theorem ofNat_length (w n : Nat) : (ofNat w n).length = w := by simp [ofNat]

@[simp] theorem ofNat_getElem (w n i : Nat) (h : i < (ofNat w n).length) :
    (ofNat w n)[i] = n.testBit i := by simp [ofNat]

theorem ofNat_getD (w n i : Nat) (h : i < w) : (ofNat w n).getD i false = n.testBit i := by
  simp [List.getD_eq_getElem?_getD, ofNat, h]

theorem ofNat_succ (w n : Nat) : ofNat (w + 1) n = n.testBit 0 :: ofNat w (n / 2) := by
  apply List.ext_getElem
  · simp
  · intro i h1 h2
    cases i with
    | zero => simp
    | succ j => simp [Nat.testBit_succ]

theorem toNat_ofNat (w n : Nat) : toNat (ofNat w n) = n % 2 ^ w := by
  induction w generalizing n with
  | zero => simp [ofNat, toNat, Nat.mod_one]
  | succ k ih =>
    rw [ofNat_succ, toNat, ih, Nat.pow_succ, Nat.mul_comm (2 ^ k) 2, Nat.mod_mul]
    have : (if n.testBit 0 = true then 1 else 0) = n % 2 := by
      rw [Nat.testBit_zero]; rcases Nat.mod_two_eq_zero_or_one n with h | h <;> simp [h]
    omega

theorem ofNat_drop (w n lo : Nat) : (ofNat w n).drop lo = ofNat (w - lo) (n >>> lo) := by
  apply List.ext_getElem
  · simp
  · intro i h1 h2
    simp [Nat.testBit_shiftRight]

theorem ofNat_take (w n k : Nat) (h : k ≤ w) : (ofNat w n).take k = ofNat k n := by
  apply List.ext_getElem
  · simp [h]
  · intro i h1 h2
    simp

theorem ofNat_inj {w a b : Nat} (ha : a < 2 ^ w) (hb : b < 2 ^ w) (h : ofNat w a = ofNat w b) :
    a = b := by
  have := congrArg toNat h
  rw [toNat_ofNat, toNat_ofNat, Nat.mod_eq_of_lt ha, Nat.mod_eq_of_lt hb] at this
  exact this

theorem ofNat_append (w1 w2 a b : Nat) (hb : b < 2 ^ w2) :
    ofNat w2 b ++ ofNat w1 a = ofNat (w1 + w2) (a <<< w2 ||| b) := by
  apply List.ext_getElem
  · simp; omega
  · intro i h1 h2
    simp only [ofNat_getElem, Nat.testBit_or, Nat.testBit_shiftLeft]
    by_cases h : i < w2
    · rw [List.getElem_append_left (by simpa using h)]
      have : ¬ i ≥ w2 := by omega
      simp [this]
    · rw [List.getElem_append_right (by simpa using h)]
      have h' : i ≥ w2 := by omega
      simp [h', Frame.testBit_eq_false_of_lt hb h']

theorem contains_true_ofNat (w n : Nat) (hn : n < 2 ^ w) :
    (ofNat w n).contains true = (n != 0) := by
  by_cases h : n = 0
  · subst h
    simp [ofNat]
  · have hne : (n != 0) = true := by simp [h]
    rw [hne]
    simp only [List.contains_eq_mem, decide_eq_true_eq]
    obtain ⟨i, hi⟩ := Nat.exists_testBit_of_ne_zero h  
    have hiw : i < w := by
      apply Decidable.byContradiction
      intro hc
      rw [Frame.testBit_eq_false_of_lt hn (by omega)] at hi
      exact absurd hi (by simp)
    exact List.mem_iff_getElem.mpr ⟨i, by simpa using hiw, by simp [hi]⟩

theorem contains_false_ofNat (w n : Nat) (hn : n < 2 ^ w) :
    (ofNat w n).contains false = (n != 2 ^ w - 1) := by
  by_cases h : n = 2 ^ w - 1
  · subst h
    have : ((2 ^ w - 1) != 2 ^ w - 1) = false := by simp
    rw [this]
    apply Bool.eq_false_iff.mpr
    intro hm
    have hm : false ∈ ofNat w (2 ^ w - 1) := by simpa using hm
    obtain ⟨i, hi, he⟩ := List.mem_iff_getElem.mp hm
    simp [Nat.testBit_two_pow_sub_one] at he hi
    omega
  · have hne : (n != 2 ^ w - 1) = true := by simp [h]
    rw [hne]
    simp only [List.contains_eq_mem, decide_eq_true_eq]
    -- some bit below w is clear, else n = 2^w - 1
    apply Classical.byContradiction
    intro hno
    apply h
    apply Nat.eq_of_testBit_eq
    intro i
    rw [Nat.testBit_two_pow_sub_one]
    by_cases hi : i < w
    · have : n.testBit i ≠ false := by
        intro hf
        apply hno
        exact List.mem_iff_getElem.mpr ⟨i, by simpa using hi, by simp [hf]⟩
      simp [hi]; simpa using this
    · simp [hi, Frame.testBit_eq_false_of_lt hn (by omega : w ≤ i)]

end Spec.Bits
end DaliVerif
