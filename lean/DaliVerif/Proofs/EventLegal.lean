import DaliVerif.Proofs.ConstructLegal
import DaliVerif.Proofs.DecodeEvent
/-!
# C02 helper: event constructors — keyword scheme selection and legality

`_Event.__init__` is modelled as `constructEventSrc` (which keywords were
given) followed by the frame assembly `Cmd.encode` (`eventSrcToFrame` + the
event data).  Here: the exact decision table of the first, and that a frame
assembly which succeeds implies every field was in range (`SrcOK`, data width).
-/
set_option linter.unusedSimpArgs false
namespace DaliVerif.Cmd
open Frame Spec

/-- **Decision table of the keyword arguments** (part 103 Table 3): the
constructor accepts exactly the five keyword combinations below, with exactly
that scheme. -/
theorem constructEventSrc_spec (sa inum ig dg : Option Nat) (src : EventSrc) :
    constructEventSrc sa inum ig dg = .ok src ↔
      (∃ a, sa = some a ∧ inum = none ∧ ig = none ∧ dg = none ∧ src = .device a) ∨
      (∃ a n, sa = some a ∧ inum = some n ∧ ig = none ∧ dg = none ∧ src = .deviceInstance a n) ∨
      (∃ g, sa = none ∧ inum = none ∧ ig = none ∧ dg = some g ∧ src = .deviceGroup g) ∨
      (∃ g, sa = none ∧ inum = none ∧ ig = some g ∧ dg = none ∧ src = .instanceGroup g) ∨
      (∃ n, sa = none ∧ inum = some n ∧ ig = none ∧ dg = none ∧ src = .inst n) := by
  cases sa <;> cases inum <;> cases ig <;> cases dg <;>
    simp [constructEventSrc] <;> (try constructor) <;> (try intro h) <;> (try exact h.symm) <;> (try exact h ▸ rfl)

/-- every refusal of the keyword combination is a `ValueError` -/
theorem constructEventSrc_error (sa inum ig dg : Option Nat) (e : PyErr)
    (h : constructEventSrc sa inum ig dg = .error e) : e = .ValueError := by
  cases sa <;> cases inum <;> cases ig <;> cases dg <;> simp [constructEventSrc] at h <;> exact h.symm

/-- a slice write that succeeds had a value that fits, and keeps the width -/
theorem setSlice_inv (f f' : Frame) (hi lo : Nat) (v : Int) (hlo : lo ≤ hi) (hhi : hi < f.bits)
    (h : setSlice f hi lo v = .ok f') :
    0 ≤ v ∧ v < (2 ^ (hi + 1 - lo) : Int) ∧ f'.bits = f.bits := by
  unfold setSlice natVal at h
  have hrs : f.readSlice (.int hi) (.int lo) .none = .ok (hi, lo) := by
    rw [Frame.readSlice_eq]
    simp only [Bits.sliceOf, PyVal.asInt?]
    have h1 : (0 : Int) ≤ hi ∧ (hi : Int) < f.bits ∧ (0 : Int) ≤ lo ∧ (lo : Int) < f.bits := by omega
    simp [h1]
    omega
  simp only [Frame.setItem, hrs, bind, Except.bind, PyVal.asInt?] at h
  have hvc := value_checks v (hi + 1 - lo)
  by_cases c1 : bitLength v > hi + 1 - lo
  · simp [c1] at h
  · by_cases c2 : v < 0
    · simp [c1, c2] at h
    · simp only [c1, c2, if_false, pure, Except.pure] at h
      injection h with h
      have := hvc.mp ⟨c1, c2⟩
      refine ⟨by omega, this.2, ?_⟩
      rw [← h]

theorem setBit_inv (f f' : Frame) (k : Nat) (b : Bool) (h : setBit f k b = .ok f') : f'.bits = f.bits := by
  unfold setBit natVal at h
  simp only [Frame.setItem, PyVal.asInt?] at h
  split at h
  · contradiction
  · injection h with h; rw [← h]

theorem mkDeviceShort_inv (sa : Nat) (a : Addr) (h : Addr.mkDeviceShort (natVal sa) = .ok a) :
    sa ≤ 63 ∧ a = .deviceShort sa := by
  unfold Addr.mkDeviceShort Addr.mkNumbered natVal at h
  simp only [PyVal.asInt?] at h
  split at h
  · contradiction
  · rename_i hr
    injection h with h
    simp only [Bool.or_eq_true, decide_eq_true_eq, not_or] at hr
    refine ⟨by omega, ?_⟩
    rw [← h]; simp

/-- **The source-identification writes accept only in-range fields**: if
`_Event.__init__`'s frame writes all succeed on a 24-bit frame, the short
address is 0..63, the instance number / group / device group 0..31, and the
instance type (where the scheme carries it) 0..31. -/
theorem eventSrcToFrame_inv (f f' : Frame) (t : Int) (src : EventSrc) (hb : f.bits = 24)
    (h : eventSrcToFrame f t src = .ok f') :
    SrcOK src ∧ (srcHasType src = true → 0 ≤ t ∧ t ≤ 31) ∧ f'.bits = 24 := by
  cases src with
  | device sa =>
    simp only [eventSrcToFrame] at h
    obtain ⟨f1, h1, h⟩ := bind_ok _ _ _ h
    obtain ⟨f2, h2, h⟩ := bind_ok _ _ _ h
    obtain ⟨f3, h3, h⟩ := bind_ok _ _ _ h
    obtain ⟨a, h4, h⟩ := bind_ok _ _ _ h
    have i1 := setSlice_inv f f1 14 10 t (by omega) (by omega) h1
    have i2 := setBit_inv _ _ _ _ h2
    have i3 := setBit_inv _ _ _ _ h3
    have i4 := mkDeviceShort_inv sa a h4
    have i5 : f'.bits = f3.bits := by
      unfold Addr.addToFrame at h
      split at h
      · contradiction
      · injection h with h; rw [← h]
    refine ⟨i4.1, fun _ => ⟨i1.1, ?_⟩, by omega⟩
    have := i1.2.1; simp at this; omega
  | deviceInstance sa inum =>
    simp only [eventSrcToFrame] at h
    obtain ⟨f1, h1, h⟩ := bind_ok _ _ _ h
    obtain ⟨f2, h2, h⟩ := bind_ok _ _ _ h
    obtain ⟨f3, h3, h⟩ := bind_ok _ _ _ h
    obtain ⟨a, h4, h⟩ := bind_ok _ _ _ h
    have i1 := setSlice_inv f f1 14 10 inum (by omega) (by omega) h1
    have i2 := setBit_inv _ _ _ _ h2
    have i3 := setBit_inv _ _ _ _ h3
    have i4 := mkDeviceShort_inv sa a h4
    have i5 : f'.bits = f3.bits := by
      unfold Addr.addToFrame at h
      split at h
      · contradiction
      · injection h with h; rw [← h]
    refine ⟨⟨i4.1, ?_⟩, fun hh => by simp [srcHasType] at hh, by omega⟩
    have := i1.2.1; simp at this; omega
  | deviceGroup g =>
    simp only [eventSrcToFrame] at h
    obtain ⟨f1, h1, h⟩ := bind_ok _ _ _ h
    obtain ⟨f2, h2, h⟩ := bind_ok _ _ _ h
    obtain ⟨f3, h3, h⟩ := bind_ok _ _ _ h
    obtain ⟨f4, h4, h⟩ := bind_ok _ _ _ h
    have i1 := setSlice_inv f f1 14 10 t (by omega) (by omega) h1
    have i2 := setSlice_inv f1 f2 21 17 g (by omega) (by omega) h2
    have i3 := setBit_inv _ _ _ _ h3
    have i4 := setBit_inv _ _ _ _ h4
    have i5 := setBit_inv _ _ _ _ h
    refine ⟨?_, fun _ => ⟨i1.1, ?_⟩, by omega⟩
    · have := i2.2.1; simp at this; simp only [SrcOK]; omega
    · have := i1.2.1; simp at this; omega
  | instanceGroup g =>
    simp only [eventSrcToFrame] at h
    obtain ⟨f1, h1, h⟩ := bind_ok _ _ _ h
    obtain ⟨f2, h2, h⟩ := bind_ok _ _ _ h
    obtain ⟨f3, h3, h⟩ := bind_ok _ _ _ h
    obtain ⟨f4, h4, h⟩ := bind_ok _ _ _ h
    have i1 := setSlice_inv f f1 14 10 t (by omega) (by omega) h1
    have i2 := setSlice_inv f1 f2 21 17 g (by omega) (by omega) h2
    have i3 := setBit_inv _ _ _ _ h3
    have i4 := setBit_inv _ _ _ _ h4
    have i5 := setBit_inv _ _ _ _ h
    refine ⟨?_, fun _ => ⟨i1.1, ?_⟩, by omega⟩
    · have := i2.2.1; simp at this; simp only [SrcOK]; omega
    · have := i1.2.1; simp at this; omega
  | inst inum =>
    simp only [eventSrcToFrame] at h
    obtain ⟨f1, h1, h⟩ := bind_ok _ _ _ h
    obtain ⟨f2, h2, h⟩ := bind_ok _ _ _ h
    obtain ⟨f3, h3, h⟩ := bind_ok _ _ _ h
    obtain ⟨f4, h4, h⟩ := bind_ok _ _ _ h
    have i1 := setSlice_inv f f1 21 17 t (by omega) (by omega) h1
    have i2 := setSlice_inv f1 f2 14 10 inum (by omega) (by omega) h2
    have i3 := setBit_inv _ _ _ _ h3
    have i4 := setBit_inv _ _ _ _ h4
    have i5 := setBit_inv _ _ _ _ h
    refine ⟨?_, fun _ => ⟨i1.1, ?_⟩, by omega⟩
    · have := i2.2.1; simp at this; simp only [SrcOK]; omega
    · have := i1.2.1; simp at this; omega

end DaliVerif.Cmd

namespace DaliVerif.Cmd
open Frame Spec

/-- the data-range part of an event object's legality -/
def BodyOK : EventBody → Prop
  | .light v => v < 1024
  | .unknown d => d < 1024
  | _ => True

/-- **Whatever an event constructor accepts is legal**: if the frame assembly of
an event object succeeds, its scheme fields are in range (`SrcOK`), its instance
type is 0..31 wherever the scheme carries one, and its data fits the ten
event-information bits. -/
theorem event_accepted_fields (cls : String) (t : Nat) (src : EventSrc) (body : EventBody) (f : Frame)
    (h : encode (.event cls t src body) = .ok f) :
    SrcOK src ∧ (srcHasType src = true → t ≤ 31) ∧ BodyOK body := by
  simp only [encode] at h
  obtain ⟨f0, h0, h⟩ := bind_ok _ _ _ h
  obtain ⟨f1, h1, h⟩ := bind_ok _ _ _ h
  have b0 := newFrame_bits _ _ _ h0
  have i1 := eventSrcToFrame_inv f0 f1 t src b0 h1
  refine ⟨i1.1, fun hh => by have := (i1.2.1 hh).2; omega, ?_⟩
  cases body with
  | pushbutton pc => trivial
  | occupancy a b c d => trivial
  | light v =>
    simp only at h
    have := (setSlice_inv f1 f 9 0 v (by omega) (by omega) h).2.1
    simp at this; simp only [BodyOK]; omega
  | unknown d =>
    simp only at h
    have := (setSlice_inv f1 f 9 0 d (by omega) (by omega) h).2.1
    simp at this; simp only [BodyOK]; omega

/-- the same for the catch-all event classes (`UnknownEvent`, `AmbiguousInstanceType`) -/
theorem unknownEvent_accepted_fields (t : Int) (src : EventSrc) (data : Nat) (f : Frame)
    (h : encode (.unknownEvent t src data) = .ok f) :
    SrcOK src ∧ (srcHasType src = true → 0 ≤ t ∧ t ≤ 31) ∧ data < 1024 := by
  simp only [encode] at h
  obtain ⟨f0, h0, h⟩ := bind_ok _ _ _ h
  obtain ⟨f1, h1, h⟩ := bind_ok _ _ _ h
  have b0 := newFrame_bits _ _ _ h0
  have i1 := eventSrcToFrame_inv f0 f1 t src b0 h1
  refine ⟨i1.1, i1.2.1, ?_⟩
  have := (setSlice_inv f1 f 9 0 data (by omega) (by omega) h).2.1
  simp at this; omega

theorem ambiguous_accepted_is_legal (T : Tables) (sa inum data : Nat) (f : Frame)
    (h : encode (.ambiguous sa inum data) = .ok f) : WF T (.ambiguous sa inum data) := by
  simp only [encode] at h
  obtain ⟨f0, h0, h⟩ := bind_ok _ _ _ h
  obtain ⟨f1, h1, h⟩ := bind_ok _ _ _ h
  have b0 := newFrame_bits _ _ _ h0
  have i1 := eventSrcToFrame_inv f0 f1 0 (.deviceInstance sa inum) b0 h1
  have := (setSlice_inv f1 f 9 0 data (by omega) (by omega) h).2.1
  simp at this
  exact ⟨i1.1.1, i1.1.2, by omega⟩

/-- with the class facts the registry supplies, the accepted event object is in
the legal set `WF` (so `decode_construct` applies to it) -/
theorem event_accepted_is_legal (T : Tables) (cls : String) (t : Nat) (src : EventSrc) (body : EventBody)
    (f : Frame) (h : encode (.event cls t src body) = .ok f) (ht : t ≤ 31)
    (hcls : match body with
       | .pushbutton pc => cls = pc.name ∧ (pc.info, pc) ∈ T.pushEvents ∧
           ∃ et, (t, et) ∈ T.instanceTypes ∧ et.kind = .pushbutton
       | .occupancy .. => ∃ et, (t, et) ∈ T.instanceTypes ∧ et.kind = .occupancy ∧ et.name = cls
       | .light _ => ∃ et, (t, et) ∈ T.instanceTypes ∧ et.kind = .light ∧ et.name = cls
       | .unknown _ => False) :
    WF T (.event cls t src body) := by
  have hf := event_accepted_fields cls t src body f h
  refine ⟨hf.1, ht, ?_⟩
  cases body with
  | pushbutton pc => exact hcls
  | occupancy a b c d => exact hcls
  | light v => exact ⟨hf.2.2, hcls⟩
  | unknown d => exact hcls

end DaliVerif.Cmd
