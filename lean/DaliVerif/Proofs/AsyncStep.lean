import DaliVerif.Proofs.AsyncInv
/-!
# `Inv` is preserved by every step of the interleaving model
-/
namespace DaliVerif.Async
open DaliVerif.Conn

/-- closes the residue `simp` leaves when two `decide`s differ only in their instance -/
macro "fin_res" : tactic =>
  `(tactic| first
    | rfl
    | (split <;> rfl)
    | (refine ⟨?_, ?_⟩ <;> first | rfl | congr)
    | congr)

/-! ## small facts about `wf`, `edtOK`, `Res.ok` -/

theorem wf_cons {hr : Bool} {r : Res} {st : Step} {p : List Step} (h : wf hr r (st :: p) = true) :
    stepOK hr r st = true ∧ ∃ r', st.act.eff r = some r' ∧ wf hr r' p = true := by
  simp only [wf, wfSeg] at h
  by_cases hs : stepOK hr r st = true
  · simp only [hs, if_true] at h
    refine ⟨hs, ?_⟩
    cases hx : st.act.eff r with
    | none => simp [hx] at h
    | some r1 => exact ⟨r1, rfl, by simpa [wf, hx] using h⟩
  · simp [hs] at h

theorem ok_eff {r r' : Res} (a : Act) (h : r.ok = true) (he : a.eff r = some r') : r'.ok = true := by
  obtain ⟨l, i, sl⟩ := r
  cases a <;> cases l <;> cases i <;> cases sl <;> simp_all [Act.eff, Res.ok] <;> (subst he; simp)

/-- actions that touch neither lock, inner serialiser, slot table nor wire -/
def Act.pure : Act → Bool
  | .connWait | .connCheck | .await _ _ | .flush | .flush1 | .poll | .sleep | .resume | .close => true
  | _ => false

theorem eff_pure {a : Act} {r r' : Res} (hp : a.pure = true) (he : a.eff r = some r') : r' = r := by
  cases a <;> simp_all [Act.pure, Act.eff]

theorem edtSeg_pure {a : Act} (hp : a.pure = true) (prev : Option WFrame) (st : Step) (p : List Step)
    (ha : st.act = a) : edtSeg prev (st :: p) = edtSeg prev p := by
  subst ha
  simp only [edtSeg]
  cases h : st.act <;> simp_all [Act.pure]

/-! ## what `res` and `lastFrame` depend on -/

structure SameShared (s s' : St) : Prop where
  lock : s'.lock = s.lock
  inner : s'.inner = s.inner
  slots : s'.slots = s.slots
  log : s'.log = s.log

theorem res_same {s s' : St} (h : SameShared s s') (u : Tid) : res s' u = res s u := by
  simp only [res, St.owners, h.lock, h.inner, h.slots] <;> fin_res

theorem lastFrame_same {s s' : St} (h : SameShared s s') (u : Tid) : lastFrame s' u = lastFrame s u := by
  simp only [lastFrame, h.lock, h.log]

theorem TaskInv.transfer {s s' : St} {u : Tid} {tk : Task} (hr : res s' u = res s u)
    (hl : lastFrame s u = none ∨ lastFrame s' u = lastFrame s u) (h : TaskInv s u tk) : TaskInv s' u tk := by
  refine ⟨by rw [hr]; exact h.wf, by rw [hr]; exact h.ok, ?_, h.retry⟩
  rcases hl with hl | hl
  · have := h.edt
    rw [hl] at this
    exact edtOK_mono _ _ this
  · rw [hl]; exact h.edt

theorem getElem?_lt {α} {l : List α} {i : Nat} {a : α} (h : l[i]? = some a) : i < l.length := by
  rcases Nat.lt_or_ge i l.length with h1 | h1
  · exact h1
  · rw [List.getElem?_eq_none h1] at h; cases h

/-- the common shape of every task step: task `t` gets a new record, everybody else keeps theirs -/
theorem inv_update {s s' : St} {t : Tid} {tk tk' : Task} (hI : Inv s)
    (ht : s.tasks[t]? = some tk)
    (htasks : s'.tasks = s.tasks.set t tk')
    (hother : ∀ u, u ≠ t → res s' u = res s u ∧ (lastFrame s u = none ∨ lastFrame s' u = lastFrame s u))
    (hself : TaskInv s' t tk')
    (hlockB : ∀ u, s'.lock = some u → u < s.tasks.length)
    (hinnerB : ∀ u, u ∈ s'.inner → u < s.tasks.length)
    (hslotB : ∀ u, u ∈ s'.owners → u < s.tasks.length)
    (hlog : holderR s'.log = some s'.lock)
    (hwire : wireEdtR (wireOf s'.log) = true) : Inv s' := by
  have hlt := getElem?_lt ht
  have hlen : s'.tasks.length = s.tasks.length := by rw [htasks, List.length_set]
  refine ⟨?_, ?_, ?_, ?_, hlog, hwire⟩
  · intro u tku hu
    rw [htasks, List.getElem?_set] at hu
    by_cases e : t = u
    · subst e
      simp only [hlt, if_true] at hu
      cases hu
      exact hself
    · simp only [e, if_false] at hu
      have hne : u ≠ t := fun h => e h.symm
      exact TaskInv.transfer (hother u hne).1 (hother u hne).2 (hI.tasks u tku hu)
  · intro u hu; rw [hlen]; exact hlockB u hu
  · intro u hu; rw [hlen]; exact hinnerB u hu
  · intro u hu; rw [hlen]; exact hslotB u hu

theorem inv_same {s s' : St} (hI : Inv s) (h : SameShared s s') (ht : s'.tasks = s.tasks) : Inv s' := by
  refine ⟨?_, ?_, ?_, ?_, ?_, ?_⟩
  · intro u tku hu
    rw [ht] at hu
    exact TaskInv.transfer (res_same h u) (Or.inr (lastFrame_same h u)) (hI.tasks u tku hu)
  · intro u hu; rw [ht]; rw [h.lock] at hu; exact hI.lockB u hu
  · intro u hu; rw [ht]; rw [h.inner] at hu; exact hI.innerB u hu
  · intro u hu; rw [ht]; simp only [St.owners, h.slots] at hu; exact hI.slotB u hu
  · rw [h.log, h.lock]; exact hI.log
  · rw [h.log]; exact hI.wire

/-- task `t` advances over a pure action (or is given any other record that is well formed for
the resources it holds) while the shared state stays as it is -/
theorem inv_setTask {s s' : St} {t : Tid} {tk tk' : Task} (hI : Inv s) (ht : s.tasks[t]? = some tk)
    (h : SameShared s s') (htasks : s'.tasks = s.tasks.set t tk')
    (hwf : wf tk'.retry.isSome (res s t) tk'.prog = true)
    (hedt : edtOK (lastFrame s t) tk'.prog = true)
    (hretry : ∀ b, tk'.retry = some b → wf true loopHead b = true ∧ edtOK none b = true) : Inv s' := by
  refine inv_update hI ht htasks ?_ ?_ ?_ ?_ ?_ ?_ ?_
  · intro u _; exact ⟨res_same h u, Or.inr (lastFrame_same h u)⟩
  · refine ⟨by rw [res_same h]; exact hwf, by rw [res_same h]; exact (hI.tasks t tk ht).ok, ?_, hretry⟩
    rw [lastFrame_same h]; exact hedt
  · intro u hu; rw [h.lock] at hu; exact hI.lockB u hu
  · intro u hu; rw [h.inner] at hu; exact hI.innerB u hu
  · intro u hu; simp only [St.owners, h.slots] at hu; exact hI.slotB u hu
  · rw [h.log, h.lock]; exact hI.log
  · rw [h.log]; exact hI.wire

/-! ## environment steps -/

theorem inv_shutdown {s : St} (c : Conn) (hI : Inv s) : Inv (shutdown { s with conn := c }) := by
  have hle : ∀ u, Res.le (res (shutdown { s with conn := c }) u) (res s u) := by
    intro u
    simp [Res.le, res, shutdown, St.owners]
  have hlf : ∀ u, lastFrame (shutdown { s with conn := c }) u = lastFrame s u := by
    intro u; simp [lastFrame, shutdown]
  refine ⟨?_, ?_, ?_, ?_, ?_, ?_⟩
  · intro u tku hu
    have hu' : s.tasks[u]? = some tku := by simpa [shutdown] using hu
    have h := hI.tasks u tku hu'
    exact ⟨wf_mono _ _ (hle u) h.wf, ok_mono (hle u) h.ok, by rw [hlf]; exact h.edt, h.retry⟩
  · intro u hu; simpa [shutdown] using hI.lockB u (by simpa [shutdown] using hu)
  · intro u hu; simpa [shutdown] using hI.innerB u (by simpa [shutdown] using hu)
  · intro u hu; simp [shutdown, St.owners] at hu
  · simpa [shutdown] using hI.log
  · simpa [shutdown] using hI.wire

/-! ## task steps -/

theorem res_ext {s : St} {u : Tid} {r : Res} (h1 : r.lock = true ↔ s.lock = some u)
    (h2 : r.inner = true ↔ u ∈ s.inner) (h3 : r.slot = true ↔ u ∈ s.owners) : res s u = r := by
  obtain ⟨l, i, o⟩ := r
  simp only at h1 h2 h3
  simp only [res, Res.mk.injEq]
  refine ⟨?_, ?_, ?_⟩
  · cases l <;> simp_all
  · cases i <;> simp_all
  · cases o <;> simp_all

theorem res_lock {s : St} {u : Tid} : (res s u).lock = true ↔ s.lock = some u := by simp [res]
theorem res_inner {s : St} {u : Tid} : (res s u).inner = true ↔ u ∈ s.inner := by simp [res]
theorem res_slot {s : St} {u : Tid} : (res s u).slot = true ↔ u ∈ s.owners := by simp [res]

theorem res_eq_of {s s' : St} {u : Tid} (h1 : s'.lock = some u ↔ s.lock = some u)
    (h2 : u ∈ s'.inner ↔ u ∈ s.inner) (h3 : u ∈ s'.owners ↔ u ∈ s.owners) : res s' u = res s u :=
  res_ext (res_lock.trans h1.symm) (res_inner.trans h2.symm) (res_slot.trans h3.symm)

theorem lastFrame_congr {s s' : St} (h1 : s'.lock = s.lock) (h2 : s'.log = s.log) (u : Tid) :
    lastFrame s' u = lastFrame s u := by
  unfold lastFrame; rw [h1, h2]

theorem edtOK_congr {s s' : St} (h1 : s'.lock = s.lock) (h2 : s'.log = s.log) {t : Tid} {p : List Step}
    (h : edtOK (lastFrame s t) p = true) : edtOK (lastFrame s' t) p = true := by
  rw [lastFrame_congr h1 h2]; exact h

theorem lastFrame_write {s' : St} {t : Tid} {f : WFrame} {l : List (Tid × Ev)}
    (hlog : s'.log = (t, Ev.write f) :: l) (hlock : s'.lock = some t) : lastFrame s' t = some f := by
  unfold lastFrame; rw [hlog, hlock]; simp [wireOf]

theorem lastFrame_none_of_lock {s : St} {u : Tid} (h : s.lock ≠ some u) : lastFrame s u = none := by
  unfold lastFrame
  split
  · rw [if_neg]; exact fun hh => h hh.2
  · rfl

theorem eff_acq {r r' : Res} (h : Act.acq.eff r = some r') : r.lock = false ∧ r' = { r with lock := true } := by
  obtain ⟨l, i, o⟩ := r
  cases l <;> simp_all [Act.eff]

theorem eff_rel {r r' : Res} (h : Act.rel.eff r = some r') : r.lock = true ∧ r' = { r with lock := false } := by
  obtain ⟨l, i, o⟩ := r
  cases l <;> cases i <;> cases o <;> simp_all [Act.eff]

theorem eff_iacq {r r' : Res} (h : Act.iacq.eff r = some r') : r' = { r with inner := true } := by
  obtain ⟨l, i, o⟩ := r
  cases l <;> cases i <;> simp_all [Act.eff]

theorem eff_irel {r r' : Res} (h : Act.irel.eff r = some r') : r' = { r with inner := false } := by
  obtain ⟨l, i, o⟩ := r
  cases i <;> cases o <;> simp_all [Act.eff]

theorem eff_slot {r r' : Res} (h : Act.slot.eff r = some r') : r' = { r with slot := true } := by
  obtain ⟨l, i, o⟩ := r
  cases i <;> cases o <;> simp_all [Act.eff]

theorem eff_unslot {r r' : Res} (h : Act.unslot.eff r = some r') : r' = { r with slot := false } := by
  simp [Act.eff] at h; exact h.symm

theorem eff_write {f : WFrame} {r r' : Res} (h : (Act.write f).eff r = some r') : r.lock = true ∧ r' = r := by
  obtain ⟨l, i, o⟩ := r
  cases l <;> cases i <;> simp_all [Act.eff]

theorem mem_owners_filter {sl : List (Nat × Tid)} {t u : Tid} :
    u ∈ (sl.filter (fun x => decide (x.2 ≠ t))).map (·.2) ↔ u ∈ sl.map (·.2) ∧ u ≠ t := by
  simp only [List.mem_map, List.mem_filter, decide_eq_true_eq]
  constructor
  · rintro ⟨x, ⟨hx, hne⟩, rfl⟩; exact ⟨⟨x, hx, rfl⟩, hne⟩
  · rintro ⟨⟨x, hx, rfl⟩, hne⟩; exact ⟨x, ⟨hx, hne⟩, rfl⟩

theorem edt_skip {prev : Option WFrame} {st : Step} {p : List Step}
    (hn : ∀ f, st.act ≠ .write f) (hedt : edtOK prev (st :: p) = true) :
    edtOK prev p = true := by
  simp only [edtOK, edtSeg] at hedt ⊢
  cases h : st.act <;> simp only [h] at hedt <;> first | exact hedt | exact edtSeg_mono _ _ hedt | exact absurd h (hn _)

/-- the pure actions, once and for all -/
theorem inv_pure_act {s s' : St} {t : Tid} {tk : Task} {st : Step} {rest : List Step} {r' : Res}
    (hI : Inv s) (ht : s.tasks[t]? = some tk) (hT : TaskInv s t tk)
    (hpure : st.act.pure = true) (heff : st.act.eff (res s t) = some r')
    (hwfr : wf tk.retry.isSome r' rest = true) (hedt0 : edtOK (lastFrame s t) (st :: rest) = true)
    (h : SameShared s s') (htasks : s'.tasks = s.tasks.set t { tk with prog := rest }) : Inv s' := by
  have hr := eff_pure hpure heff
  subst hr
  refine inv_setTask hI ht (tk' := { tk with prog := rest }) h htasks hwfr ?_ hT.retry
  rw [edtOK, ← edtSeg_pure hpure _ st rest rfl]; exact hedt0

theorem actStep_inv {s s' : St} {t : Tid} (hI : Inv s) (h : actStep s t = some s') : Inv s' := by
  unfold actStep at h
  cases ht : s.tasks[t]? with
  | none => simp [ht] at h
  | some tk =>
    simp only [ht] at h
    cases hp : tk.prog with
    | nil => simp [hp] at h
    | cons st rest =>
      simp only [hp] at h
      have hT := hI.tasks t tk ht
      have hwf0 := hT.wf
      rw [hp] at hwf0
      obtain ⟨_, r', heff, hwfr⟩ := wf_cons hwf0
      have hedt0 := hT.edt
      rw [hp] at hedt0
      have hlt := getElem?_lt ht
      have hok' := ok_eff st.act hT.ok heff
      cases hact : st.act with
      | acq =>
        simp only [hact] at h heff
        by_cases hl : s.lock = none
        · simp only [hl, if_true] at h
          cases h
          obtain ⟨_, hr⟩ := eff_acq heff
          have hres : res ({ setTask s t { tk with prog := rest } with lock := some t, log := (t, Ev.acq) :: s.log }) t = r' := by
            rw [hr]
            exact res_ext (by simp) (by simpa [setTask] using res_inner) (by simpa [setTask, St.owners] using res_slot)
          refine inv_update hI ht (tk' := { tk with prog := rest }) rfl ?_ ?_ ?_ ?_ ?_ ?_ ?_
          · intro u hu
            have hne : ¬ (some t = some u) := by simpa using fun e => hu e.symm
            refine ⟨res_eq_of (by simp [hl, hne]) Iff.rfl Iff.rfl, Or.inl ?_⟩
            exact lastFrame_none_of_lock (by simp [hl])
          · refine ⟨by rw [hres]; exact hwfr, by rw [hres]; exact hok', ?_, hT.retry⟩
            have he : edtOK none rest = true := by simpa [edtOK, edtSeg, hact] using hedt0
            exact edtOK_mono _ _ he
          · intro u hu
            have : t = u := by simpa using hu
            subst this; exact hlt
          · intro u hu; exact hI.innerB u hu
          · intro u hu; exact hI.slotB u hu
          · simp [holderR, hI.log, hl]
          · simpa [wireOf] using hI.wire
        · simp [hl] at h
      | rel =>
        simp only [hact] at h heff
        cases h
        obtain ⟨hl1, hr⟩ := eff_rel heff
        have hlock : s.lock = some t := res_lock.mp hl1
        have hres : res ({ setTask s t { tk with prog := rest } with lock := none, log := (t, Ev.rel) :: s.log }) t = r' := by
          rw [hr]
          exact res_ext (by simp) (by simpa [setTask] using res_inner) (by simpa [setTask, St.owners] using res_slot)
        refine inv_update hI ht (tk' := { tk with prog := rest }) rfl ?_ ?_ ?_ ?_ ?_ ?_ ?_
        · intro u hu
          have hne : ¬ (some t = some u) := by simpa using fun e => hu e.symm
          refine ⟨res_eq_of (by simp [hlock, hne]) Iff.rfl Iff.rfl, Or.inl ?_⟩
          exact lastFrame_none_of_lock (by rw [hlock]; exact hne)
        · refine ⟨by rw [hres]; exact hwfr, by rw [hres]; exact hok', ?_, hT.retry⟩
          have he : edtOK none rest = true := by simpa [edtOK, edtSeg, hact] using hedt0
          exact edtOK_mono _ _ he
        · intro u hu; simp at hu
        · intro u hu; exact hI.innerB u hu
        · intro u hu; exact hI.slotB u hu
        · simp [holderR, hI.log, hlock]
        · simpa [wireOf] using hI.wire
      | iacq =>
        simp only [hact] at h heff
        by_cases hc : s.inner.length < s.cap
        · simp only [hc, if_true] at h
          cases h
          have hr := eff_iacq heff
          have hres : res ({ setTask s t { tk with prog := rest } with inner := t :: s.inner }) t = r' := by
            rw [hr]
            exact res_ext (by simpa [setTask] using res_lock) (by simp) (by simpa [setTask, St.owners] using res_slot)
          refine inv_update hI ht (tk' := { tk with prog := rest }) rfl ?_ ?_ ?_ ?_ ?_ ?_ ?_
          · intro u hu
            refine ⟨res_eq_of Iff.rfl (by simp [hu]) Iff.rfl, Or.inr (lastFrame_congr rfl rfl u)⟩
          · refine ⟨by rw [hres]; exact hwfr, by rw [hres]; exact hok', ?_, hT.retry⟩
            exact edtOK_congr rfl rfl (edt_skip (by intro f; rw [hact]; exact Act.noConfusion) hedt0)
          · intro u hu; exact hI.lockB u hu
          · intro u hu
            have : u = t ∨ u ∈ s.inner := by simpa using hu
            rcases this with hu | hu
            · subst hu; exact hlt
            · exact hI.innerB u hu
          · intro u hu; exact hI.slotB u hu
          · exact hI.log
          · exact hI.wire
        · simp [hc] at h
      | irel =>
        simp only [hact] at h heff
        cases h
        have hr := eff_irel heff
        have hres : res ({ setTask s t { tk with prog := rest } with inner := s.inner.filter (· ≠ t) }) t = r' := by
          rw [hr]
          exact res_ext (by simpa [setTask] using res_lock) (by simp) (by simpa [setTask, St.owners] using res_slot)
        refine inv_update hI ht (tk' := { tk with prog := rest }) rfl ?_ ?_ ?_ ?_ ?_ ?_ ?_
        · intro u hu
          refine ⟨res_eq_of Iff.rfl (by simp [hu]) Iff.rfl, Or.inr (lastFrame_congr rfl rfl u)⟩
        · refine ⟨by rw [hres]; exact hwfr, by rw [hres]; exact hok', ?_, hT.retry⟩
          exact edtOK_congr rfl rfl (edt_skip (by intro f; rw [hact]; exact Act.noConfusion) hedt0)
        · intro u hu; exact hI.lockB u hu
        · intro u hu
          have : u ∈ s.inner ∧ u ≠ t := by simpa using hu
          exact hI.innerB u this.1
        · intro u hu; exact hI.slotB u hu
        · exact hI.log
        · exact hI.wire
      | slot =>
        simp only [hact] at h heff
        by_cases hc : (s.slots.any (·.1 = s.seq)) = true
        · simp [hc] at h
        · simp only [hc] at h
          simp only [Bool.false_eq_true, if_false] at h
          cases h
          have hr := eff_slot heff
          have hres : res ({ setTask s t { tk with prog := rest, tag := s.seq } with
              slots := (s.seq, t) :: s.slots, seq := nextSeq s.seq }) t = r' := by
            rw [hr]
            exact res_ext (by simpa [setTask] using res_lock) (by simpa [setTask] using res_inner) (by simp [St.owners])
          refine inv_update hI ht (tk' := { tk with prog := rest, tag := s.seq }) rfl ?_ ?_ ?_ ?_ ?_ ?_ ?_
          · intro u hu
            refine ⟨res_eq_of Iff.rfl Iff.rfl (by simp [St.owners, hu]), Or.inr (lastFrame_congr rfl rfl u)⟩
          · refine ⟨by rw [hres]; exact hwfr, by rw [hres]; exact hok', ?_, hT.retry⟩
            exact edtOK_congr rfl rfl (edt_skip (by intro f; rw [hact]; exact Act.noConfusion) hedt0)
          · intro u hu; exact hI.lockB u hu
          · intro u hu; exact hI.innerB u hu
          · intro u hu
            have : u = t ∨ u ∈ s.owners := by simpa [St.owners] using hu
            rcases this with hu | hu
            · subst hu; exact hlt
            · exact hI.slotB u hu
          · exact hI.log
          · exact hI.wire
      | unslot =>
        simp only [hact] at h heff
        cases h
        have hr := eff_unslot heff
        have hres : res ({ setTask s t { tk with prog := rest } with slots := s.slots.filter (·.2 ≠ t) }) t = r' := by
          rw [hr]
          refine res_ext (by simpa [setTask] using res_lock) (by simpa [setTask] using res_inner) ?_
          simp only [St.owners, mem_owners_filter]
          simp
        refine inv_update hI ht (tk' := { tk with prog := rest }) rfl ?_ ?_ ?_ ?_ ?_ ?_ ?_
        · intro u hu
          refine ⟨res_eq_of Iff.rfl Iff.rfl ?_, Or.inr (lastFrame_congr rfl rfl u)⟩
          simp only [St.owners, mem_owners_filter]
          exact ⟨fun h => h.1, fun h => ⟨h, hu⟩⟩
        · refine ⟨by rw [hres]; exact hwfr, by rw [hres]; exact hok', ?_, hT.retry⟩
          exact edtOK_congr rfl rfl (edt_skip (by intro f; rw [hact]; exact Act.noConfusion) hedt0)
        · intro u hu; exact hI.lockB u hu
        · intro u hu; exact hI.innerB u hu
        · intro u hu
          have : u ∈ s.owners ∧ u ≠ t := by
            have := hu
            simp only [St.owners, mem_owners_filter] at this
            exact this
          exact hI.slotB u this.1
        · exact hI.log
        · exact hI.wire
      | write f =>
        simp only [hact] at h heff
        by_cases hc : s.conn.fd = true
        · simp only [hc, if_true] at h
          cases h
          obtain ⟨hl1, hr⟩ := eff_write heff
          have hlock : s.lock = some t := res_lock.mp hl1
          have hed : (f.dt == 0 || lastFrame s t == some (edtFrame f.dt)) = true ∧ edtOK (some f) rest = true := by
            simp only [edtOK, edtSeg, hact] at hedt0
            split at hedt0
            · rename_i hc2; exact ⟨hc2, hedt0⟩
            · simp at hedt0
          have hres : res ({ setTask s t { tk with prog := rest } with log := (t, Ev.write f) :: s.log }) t = res s t :=
            res_eq_of Iff.rfl Iff.rfl Iff.rfl
          refine inv_update hI ht (tk' := { tk with prog := rest }) rfl ?_ ?_ ?_ ?_ ?_ ?_ ?_
          · intro u hu
            have hne : ¬ (some t = some u) := by simpa using fun e => hu e.symm
            refine ⟨res_eq_of Iff.rfl Iff.rfl Iff.rfl, Or.inl ?_⟩
            exact lastFrame_none_of_lock (by rw [hlock]; exact hne)
          · refine ⟨by rw [hres, ← hr]; exact hwfr, by rw [hres]; exact hT.ok, ?_, hT.retry⟩
            have hlf : lastFrame ({ setTask s t { tk with prog := rest } with log := (t, Ev.write f) :: s.log }) t = some f :=
              lastFrame_write (l := s.log) rfl hlock
            exact hlf ▸ hed.2
          · intro u hu; exact hI.lockB u hu
          · intro u hu; exact hI.innerB u hu
          · intro u hu; exact hI.slotB u hu
          · simp [holderR, hI.log, hlock, setTask]
          · show wireEdtR (wireOf ((t, Ev.write f) :: s.log)) = true
            simp only [wireOf, wireEdtR, Bool.and_eq_true]
            refine ⟨?_, hI.wire⟩
            have h1 := hed.1
            simp only [Bool.or_eq_true] at h1 ⊢
            rcases h1 with h1 | h1
            · exact Or.inl h1
            · right
              unfold lastFrame at h1
              split at h1
              · rename_i u g tl heq
                rw [heq]
                simp only [List.head?_cons]
                by_cases hu : u = t ∧ s.lock = some t
                · rw [if_pos hu] at h1
                  have : g = edtFrame f.dt := by simpa using h1
                  simp [hu.1, this]
                · rw [if_neg hu] at h1
                  simp at h1
              · simp at h1
        · simp [hc] at h
      | connWait =>
        simp only [hact] at h
        split at h
        · cases h
          exact inv_pure_act hI ht hT (by simp [hact, Act.pure]) heff hwfr hedt0 ⟨rfl, rfl, rfl, rfl⟩ rfl
        · cases h
      | connCheck =>
        simp only [hact] at h
        split at h
        · cases h
          exact inv_pure_act hI ht hT (by simp [hact, Act.pure]) heff hwfr hedt0 ⟨rfl, rfl, rfl, rfl⟩ rfl
        · cases h
      | await m timed =>
        simp only [hact] at h
        split at h
        · split at h
          · cases h
            exact inv_pure_act hI ht hT (by simp [hact, Act.pure]) heff hwfr hedt0 ⟨rfl, rfl, rfl, rfl⟩ rfl
          · cases h
        · cases h
      | flush =>
        simp only [hact] at h
        cases h
        exact inv_pure_act hI ht hT (by simp [hact, Act.pure]) heff hwfr hedt0 ⟨rfl, rfl, rfl, rfl⟩ rfl
      | flush1 =>
        simp only [hact] at h
        cases h
        exact inv_pure_act hI ht hT (by simp [hact, Act.pure]) heff hwfr hedt0 ⟨rfl, rfl, rfl, rfl⟩ rfl
      | poll =>
        simp only [hact] at h
        split at h <;> cases h <;>
        exact inv_pure_act hI ht hT (by simp [hact, Act.pure]) heff hwfr hedt0 ⟨rfl, rfl, rfl, rfl⟩ rfl
      | sleep =>
        simp only [hact] at h
        cases h
        exact inv_pure_act hI ht hT (by simp [hact, Act.pure]) heff hwfr hedt0 ⟨rfl, rfl, rfl, rfl⟩ rfl
      | resume =>
        simp only [hact] at h
        cases h
        exact inv_pure_act hI ht hT (by simp [hact, Act.pure]) heff hwfr hedt0 ⟨rfl, rfl, rfl, rfl⟩ rfl
      | close =>
        simp only [hact] at h
        cases h
        exact inv_pure_act hI ht hT (by simp [hact, Act.pure]) heff hwfr hedt0 ⟨rfl, rfl, rfl, rfl⟩ rfl
      | refuse =>
        simp [hact] at h

end DaliVerif.Async
