import DaliVerif.Model.Routing
/-!
# C16 — invariants of the three routing transition systems (`Model/Routing.lean`)
-/
namespace DaliVerif.Proofs.Routing
open DaliVerif DaliVerif.Answer DaliVerif.Routing

/-! ## the sequence-number generator -/

theorem seqAt_closed (s0 k : Nat) (h1 : 1 ≤ s0) (h2 : s0 ≤ 255) :
    seqAt s0 k = (s0 - 1 + k) % 255 + 1 := by
  induction k with
  | zero => simp only [seqAt]; omega
  | succ k ih =>
    simp only [seqAt, ih, nextSeq]
    split <;> omega

theorem seqAt_range (s0 k : Nat) (h1 : 1 ≤ s0) (h2 : s0 ≤ 255) :
    1 ≤ seqAt s0 k ∧ seqAt s0 k ≤ 255 := by
  rw [seqAt_closed s0 k h1 h2]; omega

theorem seqAt_eq_iff (s0 i j : Nat) (h1 : 1 ≤ s0) (h2 : s0 ≤ 255) :
    seqAt s0 i = seqAt s0 j ↔ i % 255 = j % 255 := by
  rw [seqAt_closed s0 i h1 h2, seqAt_closed s0 j h1 h2]; omega

/-! ## Tridonic -/

/-- the invariant of the reachable states of `Tri` started with `s0` -/
structure TriInv (s0 : Nat) (t : Tri) : Prop where
  hs0 : t.s0 = s0
  out_ok : ∀ e ∈ t.out, e.seq = seqAt s0 e.idx ∧ e.idx ∈ t.written ∧ e.idx < t.next
  written_lt : ∀ j ∈ t.written, j < t.next
  later : ∀ e ∈ t.out, ∀ j ∈ t.written, e.idx < j → seqAt s0 j ≠ e.seq
  msgs : ∀ e ∈ t.out, ∀ m ∈ e.msgs, m.about = e.idx

theorem triInv_init (s0 : Nat) : TriInv s0 (Tri.init s0) := by
  constructor <;> simp [Tri.init]

theorem triInv_step {s0 : Nat} (h1 : 1 ≤ s0) (h2 : s0 ≤ 255) {t : Tri} (inv : TriInv s0 t)
    (ev : TriEv)
    (timely : ∀ about m, ev = .deliver about m → about ∈ t.written ∧ t.next ≤ about + 255) :
    TriInv s0 (t.step ev).1 := by
  obtain ⟨hs0, hout, hw, hlater, hmsgs⟩ := inv
  cases ev with
  | alloc =>
    simp only [Tri.step]
    split
    · constructor
      · exact hs0
      · intro e he; have := hout e he; exact ⟨this.1, this.2.1, by simp only; omega⟩
      · intro j hj; have := hw j hj; simp only; omega
      · exact hlater
      · exact hmsgs
    · rename_i hany
      simp only [List.any_eq_true, beq_iff_eq, not_exists, not_and] at hany
      constructor
      · exact hs0
      · intro e he
        simp only [List.mem_append, List.mem_singleton] at he
        rcases he with he | rfl
        · have := hout e he
          exact ⟨this.1, by simp [this.2.1], by simp only; omega⟩
        · simp [hs0]
      · intro j hj
        simp only [List.mem_cons] at hj
        rcases hj with rfl | hj
        · simp
        · have := hw j hj; simp only; omega
      · intro e he j hj hlt
        simp only [List.mem_append, List.mem_singleton] at he
        simp only [List.mem_cons] at hj
        rcases he with he | rfl
        · rcases hj with rfl | hj
          · intro heq; exact hany e he (by rw [hs0]; exact heq.symm)
          · exact hlater e he j hj hlt
        · rcases hj with rfl | hj
          · simp at hlt
          · have := hw j hj; simp only at hlt; omega
      · intro e he
        simp only [List.mem_append, List.mem_singleton] at he
        rcases he with he | rfl
        · exact hmsgs e he
        · simp
  | deliver about m =>
    obtain ⟨habout, hnext⟩ := timely about m rfl
    simp only [Tri.step]
    -- an entry with the sequence number of `about` is the entry of `about`
    have key : ∀ e ∈ t.out, e.seq = seqAt t.s0 about → about = e.idx := by
      intro e he heq
      rw [hs0] at heq
      have ho := hout e he
      rcases Nat.lt_trichotomy e.idx about with hlt | heq' | hgt
      · exact absurd heq.symm (hlater e he about habout hlt)
      · exact heq'.symm
      · have := (seqAt_eq_iff s0 e.idx about h1 h2).mp (by rw [← ho.1, heq])
        omega
    constructor
    · exact hs0
    · intro e' he'
      simp only [List.mem_map] at he'
      obtain ⟨e, he, rfl⟩ := he'
      have := hout e he
      split <;> exact this
    · exact hw
    · intro e' he'
      simp only [List.mem_map] at he'
      obtain ⟨e, he, rfl⟩ := he'
      have := hlater e he
      split <;> exact this
    · intro e' he'
      simp only [List.mem_map] at he'
      obtain ⟨e, he, rfl⟩ := he'
      split
      · rename_i hseq
        simp only [beq_iff_eq] at hseq
        intro x hx
        simp only [List.mem_append, List.mem_singleton] at hx
        rcases hx with hx | rfl
        · exact hmsgs e he x hx
        · exact key e he hseq
      · exact hmsgs e he
  | finish idx =>
    simp only [Tri.step]
    constructor
    · exact hs0
    · intro e he; exact hout e (List.mem_filter.mp he).1
    · exact hw
    · intro e he; exact hlater e (List.mem_filter.mp he).1
    · intro e he; exact hmsgs e (List.mem_filter.mp he).1

/-- the invariant implies the property: own messages only, one entry per sequence number -/
theorem triInv_routing {s0 : Nat} {t : Tri} (inv : TriInv s0 t) :
    (∀ e ∈ t.out, ∀ m ∈ e.msgs, m.about = e.idx) ∧
    (∀ e₁ ∈ t.out, ∀ e₂ ∈ t.out, e₁.seq = e₂.seq → e₁.idx = e₂.idx) := by
  refine ⟨inv.msgs, ?_⟩
  intro e₁ h₁ e₂ h₂ heq
  have o₁ := inv.out_ok e₁ h₁
  have o₂ := inv.out_ok e₂ h₂
  rcases Nat.lt_trichotomy e₁.idx e₂.idx with hlt | heq' | hgt
  · exact absurd (by rw [← o₂.1, heq]) (inv.later e₁ h₁ e₂.idx o₂.2.1 hlt)
  · exact heq'
  · exact absurd (by rw [← o₁.1, heq]) (inv.later e₂ h₂ e₁.idx o₁.2.1 hgt)

/-! ## hasseb: the single slot -/

structure SlotInv (s : Slot) : Prop where
  slot_le : ∀ τ r, s.slot = some (τ, r) → τ ≤ s.clock
  holder_le : ∀ t w, s.holder = some (t, w) → w ≤ s.clock
  fresh : ∀ t w τ r, s.holder = some (t, w) → s.avail = true → s.slot = some (τ, r) → w < τ

theorem slotInv_init : SlotInv Slot.init := by
  constructor <;> simp [Slot.init]

theorem slotInv_step {s : Slot} (inv : SlotInv s) (ev : SlotEv) : SlotInv (s.step ev).1 := by
  obtain ⟨h1, h2, h3⟩ := inv
  cases ev with
  | write t =>
    simp only [Slot.step]
    cases hh : s.holder with
    | some p =>
      simp only
      constructor
      · intro τ r hs; have := h1 τ r hs; simp only; omega
      · intro t w hw; simp only at hw; have := h2 t w (hh.trans hw); simp only; omega
      · intro t w τ r hw ha hs; exact h3 t w τ r (hh.trans hw) ha hs
    | none =>
      simp only
      constructor
      · intro τ r hs; have := h1 τ r hs; simp only; omega
      · intro t w hw; simp only [Option.some.injEq, Prod.mk.injEq] at hw; simp only; omega
      · intro t w τ r hw ha hs; simp at ha
  | writeNoWait =>
    simp only [Slot.step]
    cases hh : s.holder with
    | some p =>
      simp only
      constructor
      · intro τ r hs; have := h1 τ r hs; simp only; omega
      · intro t w hw; simp only at hw; have := h2 t w (hh.trans hw); simp only; omega
      · intro t w τ r hw ha hs; exact h3 t w τ r (hh.trans hw) ha hs
    | none =>
      simp only
      constructor
      · intro τ r hs; have := h1 τ r hs; simp only; omega
      · intro t w hw; simp at hw
      · intro t w τ r hw ha hs; simp at ha
  | report r =>
    simp only [Slot.step]
    constructor
    · intro τ r hs; simp only [Option.some.injEq, Prod.mk.injEq] at hs; simp only; omega
    · intro t w hw; have := h2 t w hw; simp only; omega
    · intro t w τ r hw ha hs
      simp only [Option.some.injEq, Prod.mk.injEq] at hs
      have := h2 t w hw; omega
  | wake t =>
    simp only [Slot.step]
    split
    · split
      · constructor
        · intro τ r hs; have := h1 τ r hs; simp only; omega
        · intro t w hw; simp at hw
        · intro t w τ r hw; simp at hw
      · constructor
        · intro τ r hs; have := h1 τ r hs; simp only; omega
        · intro t w hw; have := h2 t w hw; simp only; omega
        · intro t w τ r hw ha hs; exact h3 t w τ r hw ha hs
    · constructor
      · intro τ r hs; have := h1 τ r hs; simp only; omega
      · intro t w hw; have := h2 t w hw; simp only; omega
      · intro t w τ r hw ha hs; exact h3 t w τ r hw ha hs

/-- what a task reads on `wake` was stored after its own write / clear -/
theorem slotInv_wake {s s' : Slot} (inv : SlotInv s) {t t₁ τ : Nat} {r : HRep}
    (h : s.step (.wake t) = (s', some (t₁, τ, r))) :
    t₁ = t ∧ ∃ w, s.holder = some (t, w) ∧ w < τ := by
  simp only [Slot.step] at h
  split at h
  · rename_i t' w τ' r' hh ha hs
    split at h
    · rename_i heq
      simp only [Prod.mk.injEq, Option.some.injEq] at h
      obtain ⟨-, rfl, rfl, rfl⟩ := h
      subst heq
      exact ⟨rfl, w, hh, inv.fresh _ _ _ _ hh ha hs⟩
    · simp at h
  · simp at h

/-! ## LUBA / SCI: the flushed queue -/

structure QueInv (q : Que) : Prop where
  raw_le : ∀ x ∈ q.raw, x.1 ≤ q.clock
  holder_lt : ∀ t w, q.holder = some (t, w) → w ≤ q.clock ∧ ∀ x ∈ q.raw, w < x.1

theorem queInv_init : QueInv Que.init := by
  constructor <;> simp [Que.init]

theorem queInv_step {q : Que} (inv : QueInv q) (ev : QueEv) : QueInv (q.step ev).1 := by
  obtain ⟨h1, h2⟩ := inv
  cases ev with
  | flush t =>
    simp only [Que.step, Que.stepWith]
    cases hh : q.holder with
    | some p =>
      simp only
      constructor
      · intro x hx; have := h1 x hx; simp only; omega
      · intro t w hw; simp only at hw; have := h2 t w (hh.trans hw); exact ⟨by simp only; omega, this.2⟩
    | none =>
      simp only
      constructor
      · intro x hx; simp at hx
      · intro t w hw; simp only [Option.some.injEq, Prod.mk.injEq] at hw
        exact ⟨by simp only; omega, by simp⟩
  | rx b =>
    simp only [Que.step, Que.stepWith]
    constructor
    · intro x hx
      simp only [List.mem_append, List.mem_singleton] at hx
      rcases hx with hx | rfl
      · have := h1 x hx; simp only; omega
      · simp
    · intro t w hw
      have := h2 t w hw
      refine ⟨by simp only; omega, ?_⟩
      intro x hx
      simp only [List.mem_append, List.mem_singleton] at hx
      rcases hx with hx | rfl
      · exact this.2 x hx
      · simp only; omega
  | take t =>
    simp only [Que.step, Que.stepWith]
    split
    · rename_i t' w x rest hh hr
      split
      · constructor
        · intro y hy; have := h1 y (by rw [hr]; simp [hy]); simp only; omega
        · intro t w hw; simp at hw
      · constructor
        · intro y hy; have := h1 y hy; simp only; omega
        · intro t w hw; have := h2 t w hw; exact ⟨by simp only; omega, this.2⟩
    · constructor
      · intro y hy; have := h1 y hy; simp only; omega
      · intro t w hw; have := h2 t w hw; exact ⟨by simp only; omega, this.2⟩
  | giveUp t =>
    simp only [Que.step, Que.stepWith]
    split
    · split
      · constructor
        · intro y hy; have := h1 y hy; simp only; omega
        · intro t w hw; simp at hw
      · constructor
        · intro y hy; have := h1 y hy; simp only; omega
        · intro t w hw; have := h2 t w hw; exact ⟨by simp only; omega, this.2⟩
    · constructor
      · intro y hy; have := h1 y hy; simp only; omega
      · intro t w hw; have := h2 t w hw; exact ⟨by simp only; omega, this.2⟩

/-- what a task takes from the queue was queued after its own flush -/
theorem queInv_take {q q' : Que} (inv : QueInv q) {t t₁ τ b : Nat}
    (h : q.step (.take t) = (q', some (t₁, some (τ, b)))) :
    t₁ = t ∧ ∃ w, q.holder = some (t, w) ∧ w < τ := by
  simp only [Que.step, Que.stepWith] at h
  split at h
  · rename_i t' w x rest hh hr
    split at h
    · rename_i heq
      simp only [Prod.mk.injEq, Option.some.injEq] at h
      obtain ⟨-, rfl, rfl⟩ := h
      subst heq
      exact ⟨rfl, w, hh, (inv.holder_lt _ _ hh).2 (τ, b) (by rw [hr]; simp)⟩
    · simp at h
  · simp at h

/-! ## ATX LED hat: the lock brackets the whole exchange -/

structure HatInv (h : Hat) : Prop where
  own : ∀ l ∈ h.lines, h.holder = some l
  len : h.lines.length = h.owed

theorem hatInv_init : HatInv Hat.init := by
  constructor <;> simp [Hat.init]

theorem hatInv_step {h h' : Hat} {o} (inv : HatInv h) (ev : HatEv)
    (hs : h.step ev = some (h', o)) : HatInv h' := by
  obtain ⟨h1, h2⟩ := inv
  cases ev with
  | acquire t =>
    simp only [Hat.step, Hat.stepWith] at hs
    split at hs
    · rename_i hn
      simp only [Option.some.injEq, Prod.mk.injEq] at hs
      obtain ⟨rfl, -⟩ := hs
      have : h.lines = [] := by
        cases hl : h.lines with
        | nil => rfl
        | cons l r => have := h1 l (by rw [hl]; simp); rw [hn] at this; cases this
      constructor
      · intro l hl; simp [this] at hl
      · simp [this]
    · cases hs
  | write t n =>
    simp only [Hat.step, Hat.stepWith] at hs
    split at hs
    · rename_i hn
      simp only [Option.some.injEq, Prod.mk.injEq] at hs
      obtain ⟨rfl, -⟩ := hs
      constructor
      · intro l hl
        simp only [List.mem_append, List.mem_replicate] at hl
        rcases hl with hl | ⟨-, rfl⟩
        · exact h1 l hl
        · exact hn
      · simp [h2]
    · cases hs
  | read t =>
    simp only [Hat.step, Hat.stepWith] at hs
    split at hs
    · split at hs
      · rename_i l rest hl
        simp only [Option.some.injEq, Prod.mk.injEq] at hs
        obtain ⟨rfl, -⟩ := hs
        constructor
        · intro x hx; exact h1 x (by rw [hl]; simp [hx])
        · simp only; rw [hl] at h2; simp at h2; omega
      · cases hs
    · cases hs
  | release t =>
    simp only [Hat.step, Hat.stepWith] at hs
    split at hs
    · rename_i hn
      simp only [Option.some.injEq, Prod.mk.injEq] at hs
      obtain ⟨rfl, -⟩ := hs
      have ho : h.owed = 0 := by
        rcases hn.2 with h | h
        · cases h
        · exact h
      have : h.lines = [] := List.eq_nil_of_length_eq_zero (h2.trans ho)
      constructor
      · intro l hl; simp [this] at hl
      · simp [this, ho]
    · cases hs

theorem hatInv_read {h h' : Hat} (inv : HatInv h) {t t₁ l : Nat}
    (hs : h.step (.read t) = some (h', some (t₁, l))) : t₁ = t ∧ l = t := by
  simp only [Hat.step, Hat.stepWith] at hs
  split at hs
  · rename_i hn
    split at hs
    · rename_i l' rest hl
      simp only [Option.some.injEq, Prod.mk.injEq] at hs
      obtain ⟨-, rfl, rfl⟩ := hs
      have := inv.own l' (by rw [hl]; simp)
      rw [hn] at this
      exact ⟨rfl, (Option.some.inj this).symm⟩
    · cases hs
  · cases hs

/-! ## LUBA / SCI: nothing queued after the flush is lost -/

theorem que_rx_fold (q : Que) (bs : List Nat) :
    let q' := bs.foldl (fun q x => (q.step (.rx x)).1) q
    q'.holder = q.holder ∧ ∃ tagged : List (Nat × Nat),
      q'.raw = q.raw ++ tagged ∧ tagged.map (·.2) = bs ∧ ∀ x ∈ tagged, q.clock < x.1 := by
  induction bs generalizing q with
  | nil => exact ⟨rfl, [], by simp, rfl, by simp⟩
  | cons b bs ih =>
    have := ih (q.step (.rx b)).1
    simp only [List.foldl_cons]
    obtain ⟨hh, tg, hr, hm, hc⟩ := this
    refine ⟨hh, (q.clock + 1, b) :: tg, ?_, ?_, ?_⟩
    · rw [hr]; simp [Que.step, Que.stepWith]
    · simp [hm]
    · intro x hx
      simp only [List.mem_cons] at hx
      rcases hx with rfl | hx
      · simp
      · have := hc x hx
        simp only [Que.step, Que.stepWith] at this
        omega

theorem que_complete (q : Que) (t b : Nat) (bs : List Nat) (hn : q.holder = none) :
    ∃ τ q', ((b :: bs).foldl (fun q x => (q.step (.rx x)).1) (q.step (.flush t)).1).step (.take t)
      = (q', some (t, some (τ, b))) ∧ q.clock < τ := by
  have h1 : (q.step (.flush t)).1 = ⟨q.clock + 1, [], some (t, q.clock)⟩ := by
    simp [Que.step, Que.stepWith, hn]
  obtain ⟨hh, tg, hr, hm, hc⟩ := que_rx_fold (q.step (.flush t)).1 (b :: bs)
  rw [h1] at hh hr hc
  simp only [List.nil_append] at hr
  cases tg with
  | nil => simp at hm
  | cons x rest =>
    simp only [List.map_cons, List.cons.injEq] at hm
    obtain ⟨hx, -⟩ := hm
    have hcx := hc x (by simp)
    simp only at hcx
    refine ⟨x.1, ?_⟩
    rw [h1]
    simp only [Que.step, Que.stepWith] at hh hr ⊢
    rw [hh, hr]
    simp only [if_true]
    exact ⟨_, by rw [← hx], by omega⟩

end DaliVerif.Proofs.Routing
