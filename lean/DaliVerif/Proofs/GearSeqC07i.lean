import DaliVerif.Proofs.GearSeqC07h
/-!
# C07, part i: invariants of the inner loop by a generic induction principle

* `inner_induct` — an invariant of (views, lower bound, permitted list, ghost log) that survives the three kinds
  of iteration (program + confirmed verify + withdraw; dry-run withdraw; withdraw with nothing left) holds
  whenever the inner loop is left normally, on every bus.
* `Hold` / `inner_hold` — first round, fault-free, not a dry run: for every address `a`, the number of WITHDRAWN
  units holding `a` equals the number of times `a` was handed out (so they hold exactly those addresses).
* `Prg` / `inner_prg` — any round, not a dry run: every address logged in this round sits, at the end of the
  round, in every storing unit in initialisation mode with the random address found — the unit found.
-/
namespace DaliVerif.GearSeq
set_option linter.unusedSimpArgs false
set_option linter.unusedVariables false

/-! ## An induction principle for invariants of the inner loop on the bus -/

/-- the search just returned `m` on a bus with views `L`, called with lower bound `low` -/
structure FoundAt (L : List V) (low m : Nat) : Prop where
  lo : low ≤ m
  hi : m ≤ HIGH
  mem : m ∈ enRV L
  one : (enRV L).count m = 1
  least : ∀ r ∈ enRV L, m ≤ r
  top : ∀ r ∈ enRV L, r ≤ HIGH

/-- An invariant `I views low permitted log` that survives the three kinds of iteration (program+verify+withdraw,
dry-run withdraw, withdraw with nothing left to hand out) holds — for some `low` — whenever the inner loop
is left normally. -/
theorem inner_induct (dry : Bool) (I : List V → Nat → List Nat → List (Nat × Nat) → Prop)
    (step_prog : dry = false → ∀ L low m new av h, I L low (new :: av) h → FoundAt L low m →
      (∃ v ∈ L.map (V.prog m new), v.init ≠ .disabled ∧ v.short = some new ∧ v.noVerify = false) →
      I ((L.map (V.prog m new)).map (V.wd m)) (m + 1) av (h ++ [(m, new)]))
    (step_dry : dry = true → ∀ L low m new av h, I L low (new :: av) h → FoundAt L low m →
      I (L.map (V.wd m)) (m + 1) av (h ++ [(m, new)]))
    (step_empty : ∀ L low m h, I L low [] h → FoundAt L low m → I (L.map (V.wd m)) (m + 1) [] h) :
    ∀ (fuel low : Nat) (avail : List Nat) (handed : List (Nat × Nat)) (b : Bus),
    low ≤ HIGH → (∀ r ∈ enRV (view b), low ≤ r ∧ r ≤ HIGH) → I (view b) low avail handed →
    ∀ av' h', ((runBus (inner dry fuel low avail handed) b).res = .ret (.clash av' h') ∨
        (runBus (inner dry fuel low avail handed) b).res = .ret (.finished av' h')) →
      ∃ low', I (view (runBus (inner dry fuel low avail handed) b).st) low' av' h' := by
  intro fuel
  induction fuel with
  | zero => intro low avail handed b _ _ _ av' h' hr; rcases hr with hr | hr <;> simp [inner, runBus, Prog.run] at hr
  | succ fuel ih =>
    intro low avail handed b hl hR hI av' h'
    have hR' : ∀ r ∈ enR b, low ≤ r := by rw [enR_view]; exact fun r hr => (hR r hr).1
    have hw : HIGH - low < 2 ^ 24 := by simp [HIGH]; omega
    obtain ⟨f1, f2, f3, f4, f5⟩ := findNext_bus b 24 low HIGH hl hw (by decide) hR'
    have spec := FN.findNext_spec (enR b) 24 low HIGH hl hw hR'
    have hv1 := view_findNext 25 low HIGH b
    rw [enR_view] at f1 f3 f4 spec
    simp only [runBus, Nat.reduceAdd, Nat.reduceMul] at f1 f2 f3 f4 hv1 spec
    rw [inner_eq, runBus_note]
    simp only [runBus]
    rw [run_bind, f1]
    dsimp only
    -- WITHDRAW and the rest, from a synced bus `b3` whose views are `L3`
    have hrest : ∀ (m : Nat) (av1 : List Nat) (h1 : List (Nat × Nat)) (b3 : Bus), Synced b3 m →
        FoundAt (view b3) low m → I ((view b3).map (V.wd m)) (m + 1) av1 h1 →
        ((runBus (innerRest dry fuel m av1 h1) b3).res = .ret (.clash av' h') ∨
          (runBus (innerRest dry fuel m av1 h1) b3).res = .ret (.finished av' h')) →
        ∃ low', I (view (runBus (innerRest dry fuel m av1 h1) b3).st) low' av' h' := by
      intro m av1 h1 b3 hs3 hF hI4 hr
      unfold innerRest at hr ⊢
      rw [runBus_tell] at hr ⊢
      have hv := view_withdraw b3 m hs3
      have hmem := wd_enRV_mem (view b3) m
      by_cases hlt : m < HIGH
      · simp only [hlt, if_true] at hr ⊢
        refine ih (m + 1) av1 h1 _ (by omega) ?_ (by rw [hv]; exact hI4) av' h' hr
        intro r hr'
        rw [hv] at hr'
        obtain ⟨q1, q2⟩ := hmem r hr'
        have := hF.least r q1
        have := hF.top r q1
        omega
      · simp only [hlt, if_false] at hr ⊢
        simp only [runBus, Prog.run] at hr ⊢
        rcases hr with hr | hr
        · cases hr
        · injection hr with hr; injection hr with e1 e2
          subst e1; subst e2
          exact ⟨m + 1, by rw [hv]; exact hI4⟩
    cases hres : FN.findNext (enRV (view b)) 25 low HIGH with
    | none =>
      simp only [Prog.run, List.append_nil]
      intro hr
      rcases hr with hr | hr
      · cases hr
      · injection hr with hr; injection hr with e1 e2
        subst e1; subst e2
        exact ⟨low, by rw [hv1]; exact hI⟩
    | clash =>
      simp only [Prog.run, List.append_nil]
      intro hr
      rcases hr with hr | hr
      · injection hr with hr; injection hr with e1 e2
        subst e1; subst e2
        exact ⟨low, by rw [hv1]; exact hI⟩
      · cases hr
    | found m =>
      rw [hres] at spec
      obtain ⟨s1, s2, s3, s4⟩ := spec
      have hsy := f4 m hres
      have hF : FoundAt (view b) low m := ⟨(hR m s1).1, s2, s1, s4, s3, fun r hr => (hR r hr).2⟩
      dsimp only
      intro hr
      have key : ∀ (b1 : Bus), view b1 = view b → Synced b1 m →
          ((runBus (afterFound dry fuel m avail handed) b1).res = .ret (.clash av' h') ∨
            (runBus (afterFound dry fuel m avail handed) b1).res = .ret (.finished av' h')) →
          ∃ low', I (view (runBus (afterFound dry fuel m avail handed) b1).st) low' av' h' := by
        intro b1 hvb hs1 hr
        have hF1 : FoundAt (view b1) low m := by rw [hvb]; exact hF
        unfold afterFound at hr ⊢
        rw [runBus_note] at hr ⊢
        match avail, hI, hr with
        | [], hI, hr =>
          simp only [runBus_note] at hr ⊢
          exact hrest m [] handed b1 hs1 hF1 (by rw [hvb]; exact step_empty _ _ _ _ hI hF) hr
        | new :: avail', hI, hr =>
          cases dry with
          | true =>
            simp only [if_true, runBus_note] at hr ⊢
            exact hrest m avail' _ b1 hs1 hF1 (by rw [hvb]; exact step_dry rfl _ _ _ _ _ _ hI hF) hr
          | false =>
            simp only [Bool.false_eq_true, if_false, runBus_note, runBus_tell, runBus_send] at hr ⊢
            have hs2 := Synced_prog b1 new m hs1
            have hs3 := Synced_verify _ new m hs2
            have hv2 := view_program b1 m new hs1
            have hv3 : view (Bus.exec (Bus.exec b1 (.programShort new)).2 (.verifyShort new)).2 =
                (view b).map (V.prog m new) := by rw [view_verify, hv2, hvb]
            by_cases hy : (Bus.exec (Bus.exec b1 (.programShort new)).2 (.verifyShort new)).1.isYes = true
            · simp only [hy, if_true] at hr ⊢
              have hyes := (verify_isYes _ new).mp hy
              rw [hv2, hvb] at hyes
              have hF3 : FoundAt (view (Bus.exec (Bus.exec b1 (.programShort new)).2 (.verifyShort new)).2) low m := by
                rw [hv3]
                exact ⟨hF.lo, hF.hi, by rw [prog_enRV]; exact hF.mem, by rw [prog_enRV]; exact hF.one,
                  by rw [prog_enRV]; exact hF.least, by rw [prog_enRV]; exact hF.top⟩
              exact hrest m avail' _ _ hs3 hF3 (by rw [hv3]; exact step_prog rfl _ _ _ _ _ _ hI hF hyes) hr
            · simp only [hy, Bool.false_eq_true, if_false] at hr
              simp only [runBus, Prog.run] at hr
              rcases hr with hr | hr <;> cases hr
      have := key _ hv1 hsy hr
      simp only [runBus] at this
      exact this


/-! ## Single round: the WITHDRAWN units hold exactly the addresses handed out -/

/-- how many WITHDRAWN units hold short address `a` -/
def heldCount (a : Nat) (L : List V) : Nat := L.countP (fun v => v.init == .withdrawn && v.short == some a)

/-- the invariant of a first round (no re-randomisation yet) on a fault-free bus, not a dry run -/
structure Hold (base : Nat) (L : List V) (low : Nat) (av : List Nat) (h : List (Nat × Nat)) : Prop where
  wlow : ∀ v ∈ L, v.init = .withdrawn → v.random < low
  enone : ∀ v ∈ L, v.init = .enabled → v.short = none
  nf : NoFault L
  cnt : ∀ a, heldCount a L = ((h.drop base).map Prod.snd).count a
  base_le : base ≤ h.length

theorem heldCount_cons (a : Nat) (v : V) (L : List V) :
    heldCount a (v :: L) = heldCount a L + (if v.init = .withdrawn ∧ v.short = some a then 1 else 0) := by
  unfold heldCount
  rw [List.countP_cons]
  congr 1
  by_cases h1 : v.init = .withdrawn <;> by_cases h2 : v.short = some a <;> simp [h1, h2]

theorem heldCount_step (a m new : Nat) (L : List V) (hw : ∀ v ∈ L, v.init = .withdrawn → v.random ≠ m)
    (hf : NoFault L) :
    heldCount a ((L.map (V.prog m new)).map (V.wd m)) =
      heldCount a L + (if a = new then (enRV L).count m else 0) := by
  induction L with
  | nil => simp [heldCount, enRV]
  | cons v L ih =>
    have ih' := ih (fun w hw' => hw w (List.mem_cons_of_mem _ hw')) (fun w hw' => hf w (List.mem_cons_of_mem _ hw'))
    have hwv := hw v (List.mem_cons_self ..)
    have hfv := hf v (List.mem_cons_self ..)
    simp only [List.map_cons, heldCount_cons, ih']
    simp only [enRV, List.filterMap_cons]
    cases hi : v.init with
    | disabled =>
      simp [V.prog, V.wd, hi]
    | withdrawn =>
      have := hwv hi
      simp [V.prog, V.wd, hi, this]
      split <;> omega
    | enabled =>
      by_cases hr : v.random = m
      · by_cases ha : a = new
        · subst ha
          simp [V.prog, V.wd, hi, hr, hfv.1]
          omega
        · have ha' : ¬ new = a := fun e => ha e.symm
          simp [V.prog, V.wd, hi, hr, hfv.1, ha, ha']
      · simp [V.prog, V.wd, hi, hr, List.count_cons]

theorem heldCount_wd (a m : Nat) (L : List V) (he : ∀ v ∈ L, v.init = .enabled → v.short = none) :
    heldCount a (L.map (V.wd m)) = heldCount a L := by
  induction L with
  | nil => rfl
  | cons v L ih =>
    have ih' := ih (fun w hw' => he w (List.mem_cons_of_mem _ hw'))
    have hev := he v (List.mem_cons_self ..)
    simp only [List.map_cons, heldCount_cons, ih']
    cases hi : v.init with
    | disabled => simp [V.wd, hi]
    | withdrawn => simp [V.wd, hi]
    | enabled =>
      have := hev hi
      by_cases hr : v.random = m <;> simp [V.wd, hi, hr, this]


theorem wd_cases (m : Nat) (v : V) :
    (V.wd m v).random = v.random ∧ (V.wd m v).short = v.short ∧
    ((V.wd m v).init = .withdrawn → v.init = .withdrawn ∨ (v.init = .enabled ∧ v.random = m)) ∧
    ((V.wd m v).init = .enabled → v.init = .enabled ∧ v.random ≠ m) := by
  simp only [V.wd]
  split
  · rename_i h; exact ⟨rfl, rfl, fun _ => Or.inr h, fun h' => by cases h'⟩
  · rename_i h; exact ⟨rfl, rfl, fun h' => Or.inl h', fun h' => ⟨h', fun e => h ⟨h', e⟩⟩⟩

theorem prog_cases (m a : Nat) (v : V) :
    (V.prog m a v).random = v.random ∧ (V.prog m a v).init = v.init ∧
    (v.random ≠ m → (V.prog m a v).short = v.short) := by
  simp only [V.prog]
  split
  · rename_i h; exact ⟨rfl, rfl, fun e => absurd h.2.1 e⟩
  · exact ⟨rfl, rfl, fun _ => rfl⟩

theorem Hold.step_prog {base : Nat} {L : List V} {low m new : Nat} {av : List Nat} {h : List (Nat × Nat)}
    (H : Hold base L low (new :: av) h) (F : FoundAt L low m) :
    Hold base ((L.map (V.prog m new)).map (V.wd m)) (m + 1) av (h ++ [(m, new)]) := by
  refine ⟨?_, ?_, ?_, ?_, ?_⟩
  · intro v' hv' hi
    simp only [List.map_map, List.mem_map, Function.comp] at hv'
    obtain ⟨v, hv, rfl⟩ := hv'
    obtain ⟨w1, _, w3, _⟩ := wd_cases m (V.prog m new v)
    obtain ⟨p1, p2, _⟩ := prog_cases m new v
    rw [w1, p1]
    rcases w3 hi with h1 | ⟨_, h2⟩
    · rw [p2] at h1
      have := H.wlow v hv h1; have := F.lo; omega
    · rw [p1] at h2; omega
  · intro v' hv' hi
    simp only [List.map_map, List.mem_map, Function.comp] at hv'
    obtain ⟨v, hv, rfl⟩ := hv'
    obtain ⟨w1, w2, _, w4⟩ := wd_cases m (V.prog m new v)
    obtain ⟨p1, p2, p3⟩ := prog_cases m new v
    obtain ⟨h1, h2⟩ := w4 hi
    rw [w2, p3 (by rw [← p1]; exact h2)]
    exact H.enone v hv (by rw [← p2]; exact h1)
  · exact NoFault_map _ _ (wd_flags m) (NoFault_map _ _ (prog_flags m new) H.nf)
  · intro a
    rw [heldCount_step a m new L (fun v hv hi => by have := H.wlow v hv hi; have := F.lo; omega) H.nf, H.cnt a,
      F.one, List.drop_append_of_le_length H.base_le, List.map_append, List.count_append]
    simp only [List.map_cons, List.map_nil, List.count_cons, List.count_nil]
    by_cases ha : a = new
    · subst ha; simp
    · have : ¬ new = a := fun e => ha e.symm
      simp [ha, this]
  · simp only [List.length_append]; have := H.base_le; omega

theorem Hold.step_empty {base : Nat} {L : List V} {low m : Nat} {h : List (Nat × Nat)}
    (H : Hold base L low [] h) (F : FoundAt L low m) : Hold base (L.map (V.wd m)) (m + 1) [] h := by
  refine ⟨?_, ?_, NoFault_map _ _ (wd_flags m) H.nf, ?_, H.base_le⟩
  · intro v' hv' hi
    simp only [List.mem_map] at hv'
    obtain ⟨v, hv, rfl⟩ := hv'
    obtain ⟨w1, _, w3, _⟩ := wd_cases m v
    rw [w1]
    rcases w3 hi with h1 | ⟨_, h2⟩
    · have := H.wlow v hv h1; have := F.lo; omega
    · omega
  · intro v' hv' hi
    simp only [List.mem_map] at hv'
    obtain ⟨v, hv, rfl⟩ := hv'
    obtain ⟨_, w2, _, w4⟩ := wd_cases m v
    rw [w2]
    exact H.enone v hv (w4 hi).1
  · intro a
    rw [heldCount_wd a m L H.enone, H.cnt a]

/-- the inner loop of a first round on a fault-free bus, not a dry run: `Hold` is an invariant -/
theorem inner_hold (base : Nat) (fuel low : Nat) (avail : List Nat) (handed : List (Nat × Nat)) (b : Bus)
    (hl : low ≤ HIGH) (hR : ∀ r ∈ enRV (view b), low ≤ r ∧ r ≤ HIGH) (H : Hold base (view b) low avail handed)
    (av' : List Nat) (h' : List (Nat × Nat))
    (hr : (runBus (inner false fuel low avail handed) b).res = .ret (.clash av' h') ∨
      (runBus (inner false fuel low avail handed) b).res = .ret (.finished av' h')) :
    ∃ low', Hold base (view (runBus (inner false fuel low avail handed) b).st) low' av' h' :=
  inner_induct false (Hold base)
    (fun _ L low m new av h H F _ => H.step_prog F)
    (fun hd => by cases hd)
    (fun L low m h H F => H.step_empty F)
    fuel low avail handed b hl hR H av' h' hr


/-! ## Any round: every address handed out in it was programmed into the unit found, and stays there -/

/-- for every ghost-log entry `(m, a)` of this round: `m` is below the current lower bound, and every unit in
initialisation mode with random address `m` that stores addresses — in particular the unit found — holds `a` -/
def Prg (base : Nat) (L : List V) (low : Nat) (_av : List Nat) (h : List (Nat × Nat)) : Prop :=
  base ≤ h.length ∧ ∀ p ∈ h.drop base, p.1 < low ∧
    ∀ v ∈ L, v.init ≠ .disabled → v.random = p.1 → v.noStore = false → v.short = some p.2

theorem wd_init_ne (m : Nat) (v : V) : (V.wd m v).init ≠ .disabled → v.init ≠ .disabled := by
  simp only [V.wd]
  split
  · rename_i h; intro _; rw [h.1]; decide
  · exact fun h => h

theorem Prg.step_wd {base : Nat} {L : List V} {low m : Nat} {av av' : List Nat} {h : List (Nat × Nat)}
    (H : Prg base L low av h) (hlo : low ≤ m) : Prg base (L.map (V.wd m)) (m + 1) av' h := by
  refine ⟨H.1, ?_⟩
  intro p hp
  obtain ⟨q1, q2⟩ := H.2 p hp
  refine ⟨by omega, ?_⟩
  intro v' hv' hi hr hs
  simp only [List.mem_map] at hv'
  obtain ⟨v, hv, rfl⟩ := hv'
  obtain ⟨w1, w2, _, _⟩ := wd_cases m v
  rw [w2]
  exact q2 v hv (wd_init_ne m v hi) (by rw [← w1]; exact hr) (by rw [← (wd_flags m v).1]; exact hs)

theorem Prg.step_prog {base : Nat} {L : List V} {low m new : Nat} {av : List Nat} {h : List (Nat × Nat)}
    (H : Prg base L low (new :: av) h) (hlo : low ≤ m) :
    Prg base ((L.map (V.prog m new)).map (V.wd m)) (m + 1) av (h ++ [(m, new)]) := by
  refine ⟨by simp only [List.length_append]; have := H.1; omega, ?_⟩
  intro p hp
  rw [List.drop_append_of_le_length H.1, List.mem_append] at hp
  have key : ∀ v ∈ L, (V.wd m (V.prog m new v)).init ≠ .disabled → v.init ≠ .disabled := by
    intro v _ hi
    have := wd_init_ne m _ hi
    rw [(prog_cases m new v).2.1] at this; exact this
  rcases hp with hp | hp
  · obtain ⟨q1, q2⟩ := H.2 p hp
    refine ⟨by omega, ?_⟩
    intro v' hv' hi hr hs
    simp only [List.map_map, List.mem_map, Function.comp] at hv'
    obtain ⟨v, hv, rfl⟩ := hv'
    obtain ⟨w1, w2, _, _⟩ := wd_cases m (V.prog m new v)
    obtain ⟨p1, p2, p3⟩ := prog_cases m new v
    rw [w1, p1] at hr
    rw [w2, p3 (by omega)]
    refine q2 v hv (key v hv hi) hr ?_
    rw [← (prog_flags m new v).1, ← (wd_flags m _).1]; exact hs
  · simp only [List.mem_singleton] at hp
    subst hp
    refine ⟨by dsimp only; omega, ?_⟩
    intro v' hv' hi hr hs
    simp only [List.map_map, List.mem_map, Function.comp] at hv'
    obtain ⟨v, hv, rfl⟩ := hv'
    obtain ⟨w1, w2, _, _⟩ := wd_cases m (V.prog m new v)
    obtain ⟨p1, p2, p3⟩ := prog_cases m new v
    rw [w1, p1] at hr
    rw [(wd_flags m _).1, (prog_flags m new v).1] at hs
    rw [w2]
    dsimp only at hr ⊢
    simp [V.prog, key v hv hi, hr, hs]

/-- one round, not a dry run, any bus: the addresses logged in this round sit in the units found -/
theorem inner_prg (base : Nat) (fuel low : Nat) (avail : List Nat) (handed : List (Nat × Nat)) (b : Bus)
    (hl : low ≤ HIGH) (hR : ∀ r ∈ enRV (view b), low ≤ r ∧ r ≤ HIGH) (H : Prg base (view b) low avail handed)
    (av' : List Nat) (h' : List (Nat × Nat))
    (hr : (runBus (inner false fuel low avail handed) b).res = .ret (.clash av' h') ∨
      (runBus (inner false fuel low avail handed) b).res = .ret (.finished av' h')) :
    ∃ low', Prg base (view (runBus (inner false fuel low avail handed) b).st) low' av' h' :=
  inner_induct false (Prg base)
    (fun _ L low m new av h H F _ => H.step_prog F.lo)
    (fun hd => by cases hd)
    (fun L low m h H F => H.step_wd F.lo)
    fuel low avail handed b hl hR H av' h' hr

end DaliVerif.GearSeq
