import DaliVerif.Proofs.DevSeq
/-!
# C13 — discovery against any responder: what backs a recorded entry

Strengthens `autodiscover_faults` (Proofs/DevSeq.lean): an entry `((a, i), t)` is
recorded only if, in this very exchange, QUERY DEVICE STATUS `a` was answered
with a clean byte showing a healthy device, QUERY NUMBER OF INSTANCES `a` with a
clean byte, QUERY INSTANCE ENABLED `(a, i)` with a clean byte and QUERY INSTANCE
TYPE `(a, i)` with the clean byte `t`.  Silence or a framing error on any of
the four never produces an entry.
-/
namespace DaliVerif.DevMem
open Prog

/-- instance level: clean answers to QUERY INSTANCE ENABLED and QUERY INSTANCE TYPE -/
def BackedI (tr : List (Cmd × Resp)) (e : (Nat × Nat) × Nat) : Prop :=
  (∃ en, (Cmd.queryInstanceEnabled e.1.1 e.1.2, Resp.byte en) ∈ tr) ∧
  (Cmd.queryInstanceType e.1.1 e.1.2, Resp.byte e.2) ∈ tr

/-- device level: additionally a clean, healthy status and a clean instance count -/
def BackedD (tr : List (Cmd × Resp)) (e : (Nat × Nat) × Nat) : Prop :=
  BackedI tr e ∧
  (∃ st, (Cmd.queryDeviceStatus e.1.1, Resp.byte st) ∈ tr ∧ ¬ (st / 4 % 2 = 1 ∨ st / 64 % 2 = 1)) ∧
  (∃ n, (Cmd.queryNumberOfInstances e.1.1, Resp.byte n) ∈ tr)

theorem mem_mid {α} {x : α} {tr : List α} (h : x ∈ tr) (pre post : List α) : x ∈ pre ++ tr ++ post :=
  List.mem_append.mpr (Or.inl (List.mem_append.mpr (Or.inr h)))

theorem BackedI.mono {tr : List (Cmd × Resp)} {e : (Nat × Nat) × Nat} (h : BackedI tr e)
    (pre post : List (Cmd × Resp)) : BackedI (pre ++ tr ++ post) e := by
  obtain ⟨⟨en, h1⟩, h2⟩ := h
  exact ⟨⟨en, mem_mid h1 pre post⟩, mem_mid h2 pre post⟩

theorem BackedD.mono {tr : List (Cmd × Resp)} {e : (Nat × Nat) × Nat} (h : BackedD tr e)
    (pre post : List (Cmd × Resp)) : BackedD (pre ++ tr ++ post) e := by
  obtain ⟨h1, ⟨st, h2, h3⟩, ⟨n, h4⟩⟩ := h
  exact ⟨h1.mono pre post, ⟨st, mem_mid h2 pre post, h3⟩, ⟨n, mem_mid h4 pre post⟩⟩

theorem scanInstances_faults2 (a : Nat) (k : TypeLog → Prog TypeLog) :
    ∀ (n i : Nat) (log : TypeLog) (tr : List (Cmd × Resp)) (out : PyRes TypeLog),
      Out (scanInstances a n i log k) tr out →
        (out = .error .ValueError) ∨
        (∃ tr1 tr2 log', tr = tr1 ++ tr2 ∧ Out (k log') tr2 out ∧
          ∀ e ∈ log', e ∈ log ∨ (e.1.1 = a ∧ BackedI tr1 e)) := by
  intro n
  induction n with
  | zero =>
    intro i log tr out h
    right; exact ⟨[], tr, log, by simp, by simpa [scanInstances] using h, fun e he => Or.inl he⟩
  | succ n ih =>
    intro i log tr out h
    rw [scanInstances] at h
    split at h
    · simp at h; left; exact h.2
    · simp only [out_send] at h
      obtain ⟨r, tr', rfl, h⟩ := h
      have skip : ∀ tr', Out (scanInstances a n (i + 1) log k) tr' out → ∀ pre : List (Cmd × Resp),
          (out = .error .ValueError) ∨
          (∃ tr1 tr2 log', pre ++ tr' = tr1 ++ tr2 ∧ Out (k log') tr2 out ∧
            ∀ e ∈ log', e ∈ log ∨ (e.1.1 = a ∧ BackedI tr1 e)) := by
        intro tr' h pre
        rcases ih _ _ _ _ h with h | ⟨tr1, tr2, log', rfl, h2, h3⟩
        · left; exact h
        · right
          refine ⟨pre ++ tr1, tr2, log', by simp, h2, ?_⟩
          intro e he
          rcases h3 e he with h | ⟨ha, h⟩
          · left; exact h
          · right; exact ⟨ha, by simpa using h.mono pre []⟩
      cases r with
      | none => exact skip tr' h [_]
      | err => exact skip tr' h [_]
      | byte en =>
        simp only [out_send] at h
        obtain ⟨r, tr'', rfl, h⟩ := h
        cases r with
        | none => exact skip tr'' h [_, _]
        | err => exact skip tr'' h [_, _]
        | byte t =>
          simp only at h
          rcases ih _ _ _ _ h with h | ⟨tr1, tr2, log', rfl, h2, h3⟩
          · left; exact h
          · right
            refine ⟨(.queryInstanceEnabled a i, .byte en) :: (.queryInstanceType a i, .byte t) :: tr1, tr2, log', by simp, h2, ?_⟩
            intro e he
            rcases h3 e he with h | ⟨ha, h⟩
            · simp at h
              rcases h with h | h
              · left; exact h
              · right; subst h; exact ⟨rfl, ⟨en, by simp⟩, by simp⟩
            · right
              exact ⟨ha, by simpa using h.mono [(.queryInstanceEnabled a i, .byte en), (.queryInstanceType a i, .byte t)] []⟩

theorem scanDevices_faults2 :
    ∀ (addrs : List Nat) (log : TypeLog) (tr : List (Cmd × Resp)) (out : PyRes TypeLog),
      Out (scanDevices addrs log) tr out →
        (out = .error .ValueError) ∨
        (∃ log' tr0 r, out = .ok log' ∧ tr = tr0 ++ [(.stopQuiescentMode, r)] ∧
          ∀ e ∈ log', e ∈ log ∨ BackedD tr e) := by
  intro addrs
  induction addrs with
  | nil =>
    intro log tr out h
    simp [scanDevices] at h
    obtain ⟨r, w, rfl, rfl, rfl⟩ := h
    right; exact ⟨log, [], r, rfl, by simp, fun e he => Or.inl he⟩
  | cons a rest ih =>
    intro log tr out h
    rw [scanDevices] at h
    split at h
    · simp at h; left; exact h.2
    · simp only [out_send] at h
      obtain ⟨r, tr', rfl, h⟩ := h
      have skip : ∀ tr' log1, Out (scanDevices rest log1) tr' out → ∀ pre : List (Cmd × Resp),
          (∀ e ∈ log1, e ∈ log ∨ BackedD pre e) →
          (out = .error .ValueError) ∨
          (∃ log' tr0 r, out = .ok log' ∧ pre ++ tr' = tr0 ++ [(.stopQuiescentMode, r)] ∧
            ∀ e ∈ log', e ∈ log ∨ BackedD (pre ++ tr') e) := by
        intro tr' log1 h pre hpre
        rcases ih _ _ _ h with h | ⟨log', tr0, r, h1, rfl, h3⟩
        · left; exact h
        · right
          refine ⟨log', pre ++ tr0, r, h1, by simp, ?_⟩
          intro e he
          rcases h3 e he with h | h
          · rcases hpre e h with h | h
            · left; exact h
            · right; simpa using h.mono [] (tr0 ++ [(.stopQuiescentMode, r)])
          · right; simpa using h.mono pre []
      cases r with
      | none => exact skip tr' log h [_] (fun e he => Or.inl he)
      | err => exact skip tr' log h [_] (fun e he => Or.inl he)
      | byte st =>
        simp only at h
        split at h
        · exact skip tr' log h [_] (fun e he => Or.inl he)
        · rename_i hst
          simp only [out_send] at h
          obtain ⟨r, tr'', rfl, h⟩ := h
          cases r with
          | none => exact skip tr'' log h [_, _] (fun e he => Or.inl he)
          | err => exact skip tr'' log h [_, _] (fun e he => Or.inl he)
          | byte n =>
            simp only at h
            rcases scanInstances_faults2 a _ _ _ _ _ _ h with h | ⟨tr1, tr2, log1, rfl, h2, h3⟩
            · left; exact h
            · have := skip tr2 log1 h2 ((.queryDeviceStatus a, .byte st) :: (.queryNumberOfInstances a, .byte n) :: tr1) (by
                intro e he
                rcases h3 e he with h | ⟨ha, h⟩
                · left; exact h
                · right
                  refine ⟨by simpa using h.mono [(.queryDeviceStatus a, .byte st), (.queryNumberOfInstances a, .byte n)] [], ?_, ?_⟩
                  · exact ⟨st, by simp [ha], hst⟩
                  · exact ⟨n, by simp [ha]⟩)
              simpa using this

/-- `autodiscover` against any responder, with everything that backs an entry -/
theorem autodiscover_faults2 (addrs : List Nat) (tr : List (Cmd × Resp)) (out : PyRes TypeLog)
    (h : Out (autodiscover addrs) tr out) :
    (out = .error .ValueError) ∨ (∃ log, out = .ok log ∧ ∀ e ∈ log, BackedD tr e) := by
  simp only [autodiscover, out_send] at h
  obtain ⟨r, tr', rfl, h⟩ := h
  rcases scanDevices_faults2 _ _ _ _ h with h | ⟨log', tr0, r', h1, rfl, h3⟩
  · left; exact h
  · right
    refine ⟨log', h1, ?_⟩
    intro e he
    rcases h3 e he with h | h
    · cases h
    · simpa using h.mono [(.startQuiescentMode, r)] []

end DaliVerif.DevMem
