import DaliVerif.Model.Response
import DaliVerif.Spec.Response
import DaliVerif.Spec.ResponseTable
/-!
# Lemmas for C06: from per-class, decidable well-formedness facts to
faithfulness on every bus outcome

`WellFormed c` collects what has to be true of one row of the generated
response table (known implementors, category ↔ implementor of `value`, named
bits exposed, …).  `holds c o` is the property's statement for one class and
one outcome, phrased with the predicates of `Spec/Response.lean` applied to
the model's results.  `holds_of_wellFormed` proves `holds` for **every**
outcome from `WellFormed` alone, with no enumeration of outcomes.
-/
namespace DaliVerif.Resp
open DaliVerif DaliVerif.Spec.Resp

theorem statusLoop_zipIdx (bits : List String) (b k : Nat) :
    statusLoop bits (b >>> k) =
      (bits.zipIdx k).filterMap fun (n, i) => if b.testBit i ∧ n ≠ "" then some n else none := by
  induction bits generalizing k with
  | nil => simp [statusLoop]
  | cons n rest ih =>
    have hshift : b >>> k / 2 = b >>> (k + 1) := by
      rw [Nat.shiftRight_succ]
    have htb : (b >>> k % 2 = 1) ↔ b.testBit k = true := by
      rw [Nat.testBit_eq_decide_div_mod_eq, Nat.shiftRight_eq_div_pow]; simp
    simp only [statusLoop, List.zipIdx_cons, List.filterMap_cons, hshift, ih, htb]
    by_cases h1 : b.testBit k = true <;> by_cases h2 : n = "" <;> simp [h1, h2]

theorem statusLoop_eq (bits : List String) (b : Nat) : statusLoop bits b = setBitNames bits b := by
  have := statusLoop_zipIdx bits b 0
  simpa [setBitNames] using this

/-- every implementor of the class is one the model has semantics for -/
def known (c : RespClass) : Bool :=
  c.ctorBase &&
  (match c.value with | .custom _ => false | _ => true) &&
  (match c.str with | .custom _ => false | _ => true) &&
  (match c.status with | .custom _ => false | _ => true) &&
  (match c.error with | .custom _ => false | _ => true) &&
  (match c.getattr with | .custom _ => false | _ => true) &&
  c.extras.all (fun e => match e.2 with | .custom _ => false | _ => true)

/-- the named bits of a bitmap class are exposed: every named entry of `bits`
has a key in `_bit_properties` that maps to its index, is found by lookup
(no duplicate key hides it), is not shadowed by an extra property, and the
index is inside the 8-bit frame -/
def bitPropsOK (c : RespClass) : Bool :=
  (List.range c.bits.length).all fun i =>
    c.bits.getD i "" == "" ||
    c.bitProps.any fun p => p.2 == i && i < 8 && lookupProp p.1 c.bitProps == some i &&
      lookupExtra p.1 c.extras == none

/-- `__str__` implementations that return / re-raise what `value` gives are
only combined with a `value` that never raises -/
def strSafe (c : RespClass) : Bool :=
  match c.str with
  | .fastFade | .outputLevel =>
    (match c.value with | .numeric | .numericMask | .yesNo => true | _ => false)
  | .bitmap => c.status == .bitmap
  | .fadeTimeRate =>
    lookupExtra "fade_time" c.extras == some .fadeTime &&
    lookupExtra "fade_rate" c.extras == some .fadeRate
  | _ => true

/-- the per-class facts (decidable, evaluated on `Gen.responses` on every run)
from which faithfulness follows for *every* outcome -/
def WellFormed (c : RespClass) : Bool :=
  known c && strSafe c &&
  (match catOf c with
   | .yesNo => c.value == .yesNo
   | .numeric => c.value == .numeric
   | .numericMask => c.value == .numericMask
   | .generic => c.value == .base
   | .bitmap => c.value == .base && c.status == .bitmap && c.getattr == .bitmap && bitPropsOK c &&
       !c.bits.contains framingErrorText
   | .enum => c.value == .enum && !c.errorAcceptable
   | .enumMask => c.value == .assignedColour && !c.errorAcceptable && !c.expected &&
       (memberValues c).all (· ≤ 6))

def valueHolds (c : RespClass) (o : Outcome) : Bool :=
  match respValue c o with | some r => valueOK c o r | none => false

def strHolds (c : RespClass) (o : Outcome) : Bool :=
  match respStr c o with | some r => strOK r | none => false

def statusHolds (c : RespClass) (o : Outcome) : Bool :=
  match respStatus c o with | some r => statusOK c o r | none => false

def bitsHold (c : RespClass) (o : Outcome) : Bool :=
  (List.range c.bits.length).all fun i =>
    c.bits.getD i "" == "" ||
    c.bitProps.any fun p => p.2 == i &&
      (match respAttr c p.1 o with | some r => bitOK o i r | none => false)

/-- the property's statement for one class and one outcome, on the model -/
def holds (c : RespClass) (o : Outcome) : Bool :=
  valueHolds c o && strHolds c o &&
  (catOf c != .bitmap || (statusHolds c o && bitsHold c o))

theorem memberValues_eq (c : RespClass) : Resp.memberValues c = Spec.Resp.memberValues c := rfl

theorem valueHolds_of_wellFormed (c : RespClass) (h : WellFormed c = true) (o : Outcome) :
    valueHolds c o = true := by
  unfold WellFormed at h
  simp only [Bool.and_eq_true] at h
  obtain ⟨-, h⟩ := h
  unfold valueHolds respValue valueOK
  cases hc : catOf c <;> simp only [hc] at h ⊢
  · -- generic
    have hv : c.value = .base := by simpa using h
    simp only [hv]
    cases o <;> simp [baseValue, genericOK] <;> split <;> simp_all
  · have hv : c.value = .yesNo := by simpa using h
    simp only [hv]; cases o <;> simp [yesNoValue]
  · have hv : c.value = .numeric := by simpa using h
    simp only [hv]; cases o <;> simp [numericValue, nonIntMarker, isInteger]
  · have hv : c.value = .numericMask := by simpa using h
    simp only [hv]
    cases o with
    | none => simp [numericMaskValue, numericValue, nonIntMarker, isInteger]
    | err b => simp [numericMaskValue, numericValue, nonIntMarker, isInteger]
    | ok b =>
      simp only [numericMaskValue, numericValue]
      by_cases hb : b.val = 255
      · simp [hb]
      · simp only [hb, if_false]
        split
        · rename_i heq; injection heq with heq; exact absurd heq hb
        · simp
  · -- bitmap
    simp only [Bool.and_eq_true] at h
    have hv : c.value = .base := by simpa using h.1.1.1.1
    simp only [hv]
    cases o <;> simp [baseValue, genericOK] <;> split <;> simp_all
  · simp only [Bool.and_eq_true, Bool.not_eq_true'] at h
    have hv : c.value = .enum := by simpa using h.1
    have hea : c.errorAcceptable = false := h.2
    simp only [hv, enumValue, memberValues_eq, hea]
    cases o with
    | none => cases he : c.expected <;> simp [baseValue, genericOK]
    | err b => simp [baseValue, genericOK]
    | ok b =>
      simp only [baseValue]
      by_cases hm : b.val ∈ Spec.Resp.memberValues c <;> simp [hm]
  · simp only [Bool.and_eq_true, Bool.not_eq_true', List.all_eq_true, decide_eq_true_eq] at h
    obtain ⟨⟨⟨hv, hea⟩, hex⟩, hmem⟩ := h
    have hv : c.value = .assignedColour := by simpa using hv
    simp only [hv, assignedColourValue, enumValue, memberValues_eq, hea, hex]
    cases o with
    | none => simp [genericOK]
    | err b => simp [baseValue, genericOK]
    | ok b =>
      simp only [baseValue]
      by_cases hm : b.val ∈ Spec.Resp.memberValues c
      · have := hmem _ hm
        have h1 : ¬ (6 < b.val ∧ b.val < 255) := by omega
        have h2 : ¬ b.val = 255 := by omega
        simp [hm, h1, h2]
      · by_cases h1 : (6 < b.val ∧ b.val < 255)
        · have h2 : ¬ b.val = 255 := by omega
          simp [hm, h1, h2, nonIntMarker, isInteger]
        · by_cases h2 : b.val = 255
          · have hm' : ¬ 255 ∈ Spec.Resp.memberValues c := h2 ▸ hm
            simp [h2, hm']
          · simp [hm, h1, h2]

theorem bitAt_noRaise (i : Nat) (o : Outcome) :
    bitAt i o ≠ .error .MissingResponse ∧ bitAt i o ≠ .error .ResponseError := by
  cases o <;> simp [bitAt] <;> split <;> simp

theorem respGetattr_noRaise (c : RespClass) (n : String) (o : Outcome) (r : PyRes Val)
    (h : respGetattr c n o = some r) : r ≠ .error .MissingResponse ∧ r ≠ .error .ResponseError := by
  unfold respGetattr at h
  split at h
  · injection h with h; subst h
    unfold bitmapGetattr
    split
    · exact bitAt_noRaise _ _
    · simp
  · injection h with h; subst h; simp
  · contradiction

theorem baseStr_safe (r : PyRes Val) : strOK (baseStr r) = true := by
  unfold baseStr
  split
  · rfl
  · rfl
  · rfl
  · rename_i e h1 h2
    cases e <;> simp_all [strOK]

theorem respValue_isSome (c : RespClass) (h : known c = true) (o : Outcome) :
    ∃ r, respValue c o = some r := by
  unfold known at h
  simp only [Bool.and_eq_true] at h
  have hv := h.1.1.1.1.1.2
  unfold respValue
  split <;> simp_all

theorem strHolds_of_wellFormed (c : RespClass) (h : WellFormed c = true) (o : Outcome) :
    strHolds c o = true := by
  unfold WellFormed at h
  simp only [Bool.and_eq_true] at h
  obtain ⟨⟨hk, hs⟩, -⟩ := h
  obtain ⟨rv, hrv⟩ := respValue_isSome c hk o
  have hbase : (match (respValue c o).map baseStr with | some r => strOK r | none => false) = true := by
    simp [hrv, baseStr_safe]
  unfold strSafe at hs
  unfold strHolds respStr
  have numCase : (match c.value with | .numeric | .numericMask | .yesNo => true | _ => false) = true →
      ∃ v, respValue c o = some (.ok v) := by
    intro hs
    unfold respValue
    split at hs <;> simp_all
  cases hq : c.str with
  | custom q => unfold known at hk; simp [hq] at hk
  | base => exact hbase
  | bitmap =>
    simp only [hq] at hs
    have hst : c.status = .bitmap := by simpa using hs
    simp only [hst]
    cases o <;> simp [bitmapStatus, strOK]
  | deviceType =>
    dsimp only
    cases o with
    | ok b =>
      dsimp only
      cases ht : lookupType b.val c.types with
      | some t => simp [strOK]
      | none => exact hbase
    | none => exact hbase
    | err b => exact hbase
  | fadeTimeRate =>
    simp only [hq, Bool.and_eq_true, beq_iff_eq] at hs
    simp only [respAttr, hs.1, hs.2, extraValue]
    simp [strOK]
  | fastFade =>
    simp only [hq] at hs
    obtain ⟨v, hv⟩ := numCase hs
    simp only [hv, Option.map_some]
    cases hi : v.isInt with
    | some n =>
      dsimp only
      split
      · simp [strOK]
      · split <;> simp [strOK]
    | none =>
      dsimp only
      cases v <;> simp [returnAsStr, strOK]
  | outputLevel =>
    simp only [hq] at hs
    obtain ⟨v, hv⟩ := numCase hs
    simp only [hv, Option.map_some]
    cases hi : v.isInt with
    | some n =>
      dsimp only
      split
      · simp [strOK]
      · split <;> simp [strOK]
    | none =>
      dsimp only
      cases v <;> simp [returnAsStr, strOK]

theorem bitOK_bitAt (o : Outcome) (i : Nat) (hi : i < 8) : bitOK o i (bitAt i o) = true := by
  cases o <;> simp [bitOK, bitAt, hi]

theorem bitmap_holds_of_wellFormed (c : RespClass) (h : WellFormed c = true)
    (hc : catOf c = .bitmap) (o : Outcome) : statusHolds c o = true ∧ bitsHold c o = true := by
  unfold WellFormed at h
  simp only [hc, Bool.and_eq_true, beq_iff_eq, Bool.not_eq_true'] at h
  obtain ⟨-, ⟨⟨⟨⟨-, hst⟩, hga⟩, hbp⟩, hfe⟩⟩ := h
  constructor
  · unfold statusHolds respStatus
    simp only [hst]
    cases o with
    | none => cases he : c.expected <;> simp [bitmapStatus, statusOK, he]
    | ok b => simp [bitmapStatus, statusOK, statusLoop_eq]
    | err b =>
      simp only [bitmapStatus, statusOK, List.all_cons, List.all_nil, Bool.and_true, hfe]
      rfl
  · unfold bitsHold
    unfold bitPropsOK at hbp
    rw [List.all_eq_true] at hbp ⊢
    intro i hi
    have := hbp i hi
    rw [Bool.or_eq_true] at this ⊢
    rcases this with h0 | h1
    · exact Or.inl h0
    · right
      rw [List.any_eq_true] at h1 ⊢
      obtain ⟨p, hp, hpp⟩ := h1
      refine ⟨p, hp, ?_⟩
      simp only [Bool.and_eq_true, beq_iff_eq, decide_eq_true_eq] at hpp
      obtain ⟨⟨⟨hpi, hi8⟩, hlk⟩, hex⟩ := hpp
      simp only [Bool.and_eq_true, beq_iff_eq]
      refine ⟨hpi, ?_⟩
      simp only [respAttr, hex, respGetattr, hga, bitmapGetattr, hlk]
      exact bitOK_bitAt o i hi8

/-- what the standard fixes about a class, read off a row of the generated table -/
def project (c : RespClass) : Spec.Resp.Row :=
  { key := c.module ++ ":" ++ c.name, cat := catOf c, expected := c.expected,
    errorAcceptable := c.errorAcceptable, pinned := false, bits := c.bits, members := c.members,
    types := c.types }

/-- a row of the transcribed table without its provenance mark -/
def unpin (r : Spec.Resp.Row) : Spec.Resp.Row := { r with pinned := false }

theorem holds_of_wellFormed (c : RespClass) (h : WellFormed c = true) (o : Outcome) :
    holds c o = true := by
  unfold holds
  rw [Bool.and_eq_true, Bool.and_eq_true]
  refine ⟨⟨valueHolds_of_wellFormed c h o, strHolds_of_wellFormed c h o⟩, ?_⟩
  by_cases hc : catOf c = .bitmap
  · have := bitmap_holds_of_wellFormed c h hc o
    simp [this.1, this.2]
  · simp [hc]
end DaliVerif.Resp
