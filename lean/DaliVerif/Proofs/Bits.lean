import DaliVerif.Model.Frame
/-!
# Bridging lemmas: Python's shift/mask slice operations on `Nat`

`getSliceRaw` / `setSliceRaw` / `setBitRaw` are characterised bit by bit
(`Nat.testBit`) and in arithmetic form (`/ 2^k`, `% 2^k`), after which codec
proofs are linear arithmetic over numerals.
-/
namespace DaliVerif.Frame

theorem mask_eq (w : Nat) : mask w = 2 ^ w - 1 := by
  simp [mask, Nat.one_shiftLeft]

theorem testBit_eq_false_of_lt {d bits j : Nat} (hd : d < 2 ^ bits) (hj : bits ≤ j) :
    d.testBit j = false :=
  Nat.testBit_lt_two_pow (Nat.lt_of_lt_of_le hd (Nat.pow_le_pow_right (by omega) hj))

theorem getSliceRaw_eq (d hi lo : Nat) :
    getSliceRaw d hi lo = d / 2 ^ lo % 2 ^ (hi + 1 - lo) := by
  simp [getSliceRaw, mask_eq, Nat.shiftRight_eq_div_pow, Nat.and_two_pow_sub_one_eq_mod]

theorem testBit_getSliceRaw (d hi lo j : Nat) :
    (getSliceRaw d hi lo).testBit j = (decide (j < hi + 1 - lo) && d.testBit (lo + j)) := by
  simp [getSliceRaw, mask_eq, Nat.testBit_and, Nat.testBit_shiftRight,
    Nat.testBit_two_pow_sub_one, Bool.and_comm]

theorem getSliceRaw_lt (d hi lo : Nat) : getSliceRaw d hi lo < 2 ^ (hi + 1 - lo) := by
  rw [getSliceRaw_eq]; exact Nat.mod_lt _ (Nat.two_pow_pos _)

theorem testBit_setSliceRaw (bits d hi lo v i : Nat)
    (hlo : lo ≤ hi) (hhi : hi < bits) (hd : d < 2 ^ bits) (hv : v < 2 ^ (hi + 1 - lo)) :
    (setSliceRaw bits d hi lo v).testBit i =
      if lo ≤ i ∧ i ≤ hi then v.testBit (i - lo) else d.testBit i := by
  have hdi : ∀ j, bits ≤ j → d.testBit j = false := fun j hj => testBit_eq_false_of_lt hd hj
  have hvi : ∀ j, hi + 1 - lo ≤ j → v.testBit j = false := fun j hj => testBit_eq_false_of_lt hv hj
  simp only [setSliceRaw, mask_eq, Nat.testBit_or, Nat.testBit_and, Nat.testBit_xor,
    Nat.testBit_shiftLeft, Nat.testBit_two_pow_sub_one]
  by_cases h1 : lo ≤ i
  · by_cases h2 : i ≤ hi
    · have a : i - lo < hi + 1 - lo := by omega
      have b : i < bits := by omega
      simp [h1, h2, a, b]
    · have a : ¬ (i - lo < hi + 1 - lo) := by omega
      have hv0 := hvi (i - lo) (by omega)
      by_cases b : i < bits
      · simp [h1, h2, a, b, hv0]
      · simp [h1, h2, a, b, hv0, hdi i (by omega)]
  · have h2 : ¬ (lo ≤ i ∧ i ≤ hi) := by omega
    by_cases b : i < bits
    · simp [h1, b]
    · simp [h1, b, hdi i (by omega)]

/-- structured arithmetic form of a slice write: high part, new field, low part -/
def setSliceA (d hi lo v : Nat) : Nat :=
  2 ^ lo * (2 ^ (hi + 1 - lo) * (d / 2 ^ (hi + 1)) + v) + d % 2 ^ lo

theorem setSliceRaw_eqA (bits d hi lo v : Nat)
    (hlo : lo ≤ hi) (hhi : hi < bits) (hd : d < 2 ^ bits) (hv : v < 2 ^ (hi + 1 - lo)) :
    setSliceRaw bits d hi lo v = setSliceA d hi lo v := by
  apply Nat.eq_of_testBit_eq
  intro i
  rw [testBit_setSliceRaw bits d hi lo v i hlo hhi hd hv]
  unfold setSliceA
  rw [Nat.testBit_two_pow_mul_add _ (Nat.mod_lt _ (Nat.two_pow_pos lo))]
  by_cases h1 : i < lo
  · have : ¬ (lo ≤ i ∧ i ≤ hi) := by omega
    simp [h1, this]
  · rw [Nat.testBit_two_pow_mul_add _ hv]
    by_cases h2 : i ≤ hi
    · have a : i - lo < hi + 1 - lo := by omega
      have b : lo ≤ i ∧ i ≤ hi := by omega
      simp [h1, a, b]
    · have a : ¬ (i - lo < hi + 1 - lo) := by omega
      have b : ¬ (lo ≤ i ∧ i ≤ hi) := by omega
      simp only [h1, a, b, if_false, Nat.testBit_div_two_pow]
      congr 1; omega

theorem lt_two_pow_of_testBit {n bits : Nat} (h : ∀ j, bits ≤ j → n.testBit j = false) :
    n < 2 ^ bits := by
  apply Nat.lt_pow_two_of_testBit
  intro i hi
  simp [h i hi]

theorem setSliceRaw_lt (bits d hi lo v : Nat)
    (hlo : lo ≤ hi) (hhi : hi < bits) (hd : d < 2 ^ bits) (hv : v < 2 ^ (hi + 1 - lo)) :
    setSliceRaw bits d hi lo v < 2 ^ bits := by
  apply lt_two_pow_of_testBit
  intro j hj
  rw [testBit_setSliceRaw bits d hi lo v j hlo hhi hd hv]
  have : ¬ (lo ≤ j ∧ j ≤ hi) := by omega
  simp [this, testBit_eq_false_of_lt hd hj]

theorem testBit_setBitRaw (bits d k : Nat) (v : Bool) (i : Nat)
    (hk : k < bits) (hd : d < 2 ^ bits) :
    (setBitRaw bits d k v).testBit i = if i = k then v else d.testBit i := by
  unfold setBitRaw
  cases v
  · simp only [mask_eq, Bool.false_eq_true, if_false, Nat.testBit_and, Nat.testBit_xor,
      Nat.testBit_two_pow_sub_one, Nat.one_shiftLeft, Nat.testBit_two_pow]
    by_cases h : i = k
    · subst h; simp [hk]
    · have h' : ¬ k = i := fun e => h e.symm
      by_cases b : i < bits
      · simp [h, h', b]
      · simp [h, h', b, testBit_eq_false_of_lt hd (by omega : bits ≤ i)]
  · simp only [if_true, Nat.testBit_or, Nat.one_shiftLeft, Nat.testBit_two_pow]
    by_cases h : i = k
    · subst h; simp
    · have h' : ¬ k = i := fun e => h e.symm
      simp [h, h']

theorem setBitRaw_lt (bits d k : Nat) (v : Bool) (hk : k < bits) (hd : d < 2 ^ bits) :
    setBitRaw bits d k v < 2 ^ bits := by
  apply lt_two_pow_of_testBit
  intro j hj
  rw [testBit_setBitRaw bits d k v j hk hd]
  have : ¬ j = k := by omega
  simp [this, testBit_eq_false_of_lt hd hj]

theorem testBit_and_one_shiftLeft (d k : Nat) : getBitRaw d k = d.testBit k := by
  unfold getBitRaw
  rw [Nat.one_shiftLeft]
  by_cases h : d.testBit k
  · have : d &&& 2 ^ k ≠ 0 := by
      intro e
      have := congrArg (fun n => n.testBit k) e
      simp [Nat.testBit_and, h] at this
    simp [h, this]
  · have : d &&& 2 ^ k = 0 := by
      apply Nat.eq_of_testBit_eq
      intro i
      by_cases e : k = i
      · subst e; simp [Nat.testBit_and, h]
      · simp [Nat.testBit_and, Nat.testBit_two_pow, e]
    simp [h, this]

/-! ### big-endian byte strings -/

theorem ofBytesBE_append_singleton (l : List Nat) (b : Nat) :
    ofBytesBE (l ++ [b]) = ofBytesBE l * 256 + b := by
  simp [ofBytesBE, List.foldl_append]

theorem toBytesBE_length (n len : Nat) : (toBytesBE n len).length = len := by
  induction len generalizing n with
  | zero => simp [toBytesBE]
  | succ k ih => simp [toBytesBE, ih]

theorem ofBytesBE_toBytesBE (n len : Nat) : ofBytesBE (toBytesBE n len) = n % 256 ^ len := by
  induction len generalizing n with
  | zero => simp [toBytesBE, ofBytesBE, Nat.mod_one]
  | succ k ih =>
    rw [toBytesBE, ofBytesBE_append_singleton, ih, Nat.pow_succ, Nat.mul_comm (256 ^ k) 256,
      Nat.mod_mul]
    omega

theorem toBytesBE_lt (n len : Nat) : ∀ b ∈ toBytesBE n len, b < 256 := by
  induction len generalizing n with
  | zero => simp [toBytesBE]
  | succ k ih =>
    intro b hb
    simp only [toBytesBE, List.mem_append, List.mem_singleton] at hb
    rcases hb with hb | hb
    · exact ih _ _ hb
    · omega

end DaliVerif.Frame
