import DaliVerif.Proofs.Construct
import DaliVerif.Props.C05
/-!
# C02 helper: whatever a constructor accepts is a legal object (`WF`)
-/
set_option linter.unusedSimpArgs false
namespace DaliVerif.Cmd
open Frame Spec

theorem bind_ok {α β : Type} (x : PyRes α) (g : α → PyRes β) (r : β)
    (h : (x >>= g) = .ok r) : ∃ y, x = .ok y ∧ g y = .ok r := by
  cases x with
  | error e => simp [bind, Except.bind] at h
  | ok y => exact ⟨y, rfl, h⟩

/-- argument objects are validly constructed address / instance objects -/
def ArgOK : Arg → Prop
  | .addr a => a.Valid
  | .inst i => i.Valid
  | .val _ => True

theorem checkDestination_valid (d : Arg) (hd : ArgOK d) (a : Addr)
    (h : checkDestination d = .ok (.inl a)) : a.Valid := by
  cases d with
  | addr a' => simp only [checkDestination] at h; injection h with h; injection h with h; subst h; exact hd
  | inst i => simp [checkDestination] at h
  | val v =>
    simp only [checkDestination] at h
    cases hv : v.asInt? with
    | none => simp [hv] at h
    | some i =>
      simp only [hv, Addr.mkGearShort, Addr.mkNumbered] at h
      split at h
      · simp [Except.map] at h
      · rename_i hr
        simp only [Except.map] at h
        injection h with h; injection h with h; subst h
        simp only [Addr.Valid]
        simp only [Bool.or_eq_true, decide_eq_true_eq, not_or] at hr
        omega

theorem intParam_le (v : Arg) (limit p : Nat) (h : intParam v limit = .ok p) : p ≤ limit := by
  unfold intParam at h
  cases v with
  | val v =>
    simp only at h
    cases hv : v.asInt? with
    | none => simp [hv] at h
    | some i =>
      simp only [hv] at h
      split at h
      · contradiction
      · rename_i hr
        injection h with h
        simp only [Bool.or_eq_true, decide_eq_true_eq, not_or] at hr
        omega
  | addr _ => simp at h
  | inst _ => simp at h

theorem newFrame_bits (n x : Nat) (fr : Frame) (h : newFrame n x = .ok fr) : fr.bits = n := by
  unfold newFrame natVal Frame.new at h
  simp only [PyVal.asInt?] at h
  split at h
  · contradiction
  · split at h
    · contradiction
    · split at h
      · contradiction
      · injection h with h; rw [← h]; simp

/-- a successful `add_to_frame` tells the address kind from the frame size -/
theorem addToFrame_ok_kind (a : Addr) (f f' : Frame) (h : a.addToFrame f = .ok f') :
    f.bits = a.frameSize := by
  unfold Addr.addToFrame at h
  split at h
  · contradiction
  · rename_i hs; simpa using hs

theorem frameSize_16 (a : Addr) (h : 16 = a.frameSize) : a.isGear = true := by
  cases hg : a.isGear
  · simp [Addr.frameSize, hg] at h
  · rfl

theorem frameSize_24 (a : Addr) (h : 24 = a.frameSize) : a.isGear = false := by
  cases hg : a.isGear
  · rfl
  · simp [Addr.frameSize, hg] at h

/-- DAPC: whatever `DAPC.__init__` + frame assembly accept is legal -/
theorem dapc_accepted_is_legal (T : Tables) (args : List Arg) (hargs : ∀ a ∈ args, ArgOK a)
    (cmd : Cmd) (f : Frame) (h : constructDapc args = .ok cmd) (he : encode cmd = .ok f) : WF T cmd := by
  match args, h with
  | [dest, power], h =>
    simp only [constructDapc] at h
    -- in each of the three ways the power is given: a level p ≤ 255, then the destination
    have key : ∃ p a, p ≤ 255 ∧ checkDestination dest = .ok (.inl a) ∧ cmd = .dapc a p := by
      have fin : ∀ p, p ≤ 255 →
          (checkDestination dest >>= fun r => match r with
            | Sum.inl a => (pure (Cmd.dapc a p) : PyRes Cmd)
            | Sum.inr _ => Except.error PyErr.IncompatibleFrame) = .ok cmd →
          ∃ p a, p ≤ 255 ∧ checkDestination dest = .ok (.inl a) ∧ cmd = .dapc a p := by
        intro p hp hq
        obtain ⟨r, hd, hq⟩ := bind_ok _ _ _ hq
        cases r with
        | inr i => simp at hq
        | inl a =>
          simp only [pure, Except.pure] at hq; injection hq with hq
          exact ⟨p, a, hp, hd, hq.symm⟩
      split at h
      · obtain ⟨p, hp, h⟩ := bind_ok _ _ _ h
        simp only [pure, Except.pure] at hp; injection hp with hp; subst hp
        exact fin 0 (by omega) h
      · obtain ⟨p, hp, h⟩ := bind_ok _ _ _ h
        simp only [pure, Except.pure] at hp; injection hp with hp; subst hp
        exact fin 255 (by omega) h
      · obtain ⟨p, hp, h⟩ := bind_ok _ _ _ h
        exact fin p (intParam_le _ 255 p hp) h
    obtain ⟨p, a, hp255, hd, hcmd⟩ := key
    subst hcmd
    have hv := checkDestination_valid dest (hargs dest (by simp)) a hd
    simp only [encode] at he
    obtain ⟨_, _, he⟩ := bind_ok _ _ _ he
    obtain ⟨fr, hn, he⟩ := bind_ok _ _ _ he
    have hb := newFrame_bits 16 _ fr hn
    have := addToFrame_ok_kind a fr f he
    exact ⟨hv, frameSize_16 a (by rw [← this, hb]), hp255⟩

/-- plain special commands -/
theorem special_accepted_is_legal (T : Tables) (c : SpecialClass) (hreg : (c.cmdval, c) ∈ T.specialOpcodes)
    (hk : c.kind = .plain) (args : List Arg) (cmd : Cmd) (h : constructSpecial c args = .ok cmd) :
    WF T cmd := by
  unfold constructSpecial at h
  cases hh : c.hasparam with
  | true =>
    simp only [hh, if_true] at h
    match args, h with
    | [p], h =>
      obtain ⟨q, hq, h⟩ := bind_ok _ _ _ h
      simp only [pure, Except.pure] at h; injection h with h; subst h
      exact ⟨hreg, hk, by simp [hh]; exact intParam_le _ 255 q hq⟩
  | false =>
    simp only [hh, Bool.false_eq_true, if_false] at h
    match args, h with
    | [], h =>
      simp only [pure, Except.pure] at h; injection h with h; subst h
      exact ⟨hreg, hk, by simp [hh]⟩

/-- short-address special commands -/
theorem shortSpecial_accepted_is_legal (T : Tables) (c : SpecialClass)
    (hreg : (c.cmdval, c) ∈ T.specialOpcodes) (hk : c.kind = .shortAddr) (args : List Arg) (cmd : Cmd)
    (h : constructShortSpecial c args = .ok cmd) : WF T cmd := by
  unfold constructShortSpecial at h
  split at h
  · simp only [pure, Except.pure] at h; injection h with h; subst h
    exact ⟨hreg, hk, by intro a ha; cases ha⟩
  · obtain ⟨q, hq, h⟩ := bind_ok _ _ _ h
    simp only [pure, Except.pure] at h; injection h with h; subst h
    exact ⟨hreg, hk, by intro a ha; injection ha with ha; subst ha; exact intParam_le _ 63 _ hq⟩
  · contradiction

/-- `Initialise(broadcast, address)` -/
theorem initialise_accepted_is_legal (T : Tables) (c : SpecialClass)
    (hreg : (c.cmdval, c) ∈ T.specialOpcodes) (hk : c.kind = .initialise) (b a : PyVal) (cmd : Cmd)
    (h : constructInitialise c b a = .ok cmd) : WF T cmd := by
  unfold constructInitialise at h
  split at h
  · contradiction
  · rename_i hc
    cases a with
    | none =>
      simp only [pure, Except.pure] at h; injection h with h; subst h
      exact ⟨hreg, hk, by intro x hx; cases hx⟩
    | _ =>
      all_goals
        obtain ⟨q, hq, h⟩ := bind_ok _ _ _ h
        simp only [pure, Except.pure] at h; injection h with h; subst h
        refine ⟨hreg, hk, ?_⟩
        intro x hx; injection hx with hx; subst hx
        refine ⟨intParam_le _ 63 _ hq, ?_⟩
        simp only [Bool.and_eq_true, bne_iff_ne, ne_eq, not_and, Decidable.not_not] at hc
        cases hb : b.truthy
        · rfl
        · have := hc hb; simp at this

/-- device commands -/
theorem devStd_accepted_is_legal (T : Tables) (c : DevClass) (hreg : (c.opcode, c) ∈ T.devOpcodes)
    (args : List Arg) (hargs : ∀ a ∈ args, ArgOK a) (cmd : Cmd) (f : Frame)
    (h : constructDevStd c args = .ok cmd) (he : encode cmd = .ok f) : WF T cmd := by
  match args, h with
  | [dest], h =>
    simp only [constructDevStd] at h
    obtain ⟨r, hd, h⟩ := bind_ok _ _ _ h
    cases r with
    | inr i => simp at h
    | inl a =>
      simp only [pure, Except.pure] at h; injection h with h; subst h
      have hv := checkDestination_valid dest (hargs dest (by simp)) a hd
      simp only [encode] at he
      obtain ⟨fr, hn, he⟩ := bind_ok _ _ _ he
      have hb := newFrame_bits 24 _ fr hn
      have := addToFrame_ok_kind a fr f he
      exact ⟨hreg, hv, frameSize_24 a (by rw [← this, hb])⟩

/-- **Whatever the standard-command constructor accepts is legal** — if
`_StandardCommand.__init__` returns and the frame assembly succeeds, the object
is in the legal set `WF` (4-bit parameter in range or absent, destination a
valid *gear* address): nothing outside the legal ranges is ever accepted or
truncated into another command's frame. -/
theorem std_accepted_is_legal (T : Tables) (c : StdClass)
    (hreg : ∀ p, (if c.hasparam then p ≤ 15 else p = 0) → ((c.dt, c.cmdval + p), c) ∈ T.stdOpcodes)
    (args : List Arg) (hargs : ∀ a ∈ args, ArgOK a) (cmd : Cmd) (f : Frame)
    (h : constructStd c args = .ok cmd) (he : encode cmd = .ok f) : WF T cmd := by
  -- reduce to: parameter p in range, destination checked
  have key : ∃ p a, (if c.hasparam then p ≤ 15 else p = 0) ∧ cmd = .standard c a p ∧
      ∃ dest ∈ args, checkDestination dest = .ok (.inl a) := by
    cases args with
    | nil => simp [constructStd] at h
    | cons dest rest =>
      simp only [constructStd, bind, Except.bind] at h
      cases hh : c.hasparam with
      | true =>
        simp only [hh, if_true] at h ⊢
        match rest, h with
        | [q], h =>
          cases hq : intParam q 15 with
          | error e => simp [hq] at h
          | ok p =>
            simp only [hq] at h
            cases hd : checkDestination dest with
            | error e => simp [hd] at h
            | ok r =>
              cases r with
              | inr i => simp [hd] at h
              | inl a =>
                simp only [hd, pure, Except.pure] at h
                injection h with h
                exact ⟨p, a, intParam_le q 15 p hq, h.symm, dest, by simp, hd⟩
      | false =>
        simp only [hh, Bool.false_eq_true, if_false] at h ⊢
        match rest, h with
        | [], h =>
          simp only [pure, Except.pure] at h
          cases hd : checkDestination dest with
          | error e => simp [hd] at h
          | ok r =>
            cases r with
            | inr i => simp [hd] at h
            | inl a =>
              simp only [hd] at h
              injection h with h
              exact ⟨0, a, rfl, h.symm, dest, by simp, hd⟩
  obtain ⟨p, a, hpr, hcmd, dest, hdm, hd⟩ := key
  subst hcmd
  have hv := checkDestination_valid dest (hargs dest hdm) a hd
  -- the frame assembly succeeded, so the address is a gear address
  have hnewbits : ∀ x fr, newFrame 16 x = .ok fr → fr.bits = 16 := by
    intro x fr hn
    unfold newFrame natVal Frame.new at hn
    simp only [PyVal.asInt?] at hn
    split at hn
    · contradiction
    · split at hn
      · contradiction
      · split at hn
        · contradiction
        · injection hn with hn; rw [← hn]; rfl
  have bind_ok : ∀ {α β : Type} (x : PyRes α) (g : α → PyRes β) (r : β),
      (x >>= g) = .ok r → ∃ y, x = .ok y ∧ g y = .ok r := by
    intro α β x g r hx
    cases x with
    | error e => simp [bind, Except.bind] at hx
    | ok y => exact ⟨y, rfl, hx⟩
  have hg : a.isGear = true := by
    have fin : ∀ x, (newFrame 16 x >>= a.addToFrame) = Except.ok f → a.isGear = true := by
      intro x hx
      obtain ⟨fr, hn, hadd⟩ := bind_ok _ _ _ hx
      have hb := hnewbits x fr hn
      cases fr with
      | mk b d =>
        simp only at hb; subst hb
        exact frameSize_16 a (addToFrame_ok_kind a ⟨16, d⟩ f hadd)
    cases hh : c.hasparam with
    | true =>
      simp only [encode, hh, if_true] at he
      obtain ⟨_, _, he'⟩ := bind_ok _ _ _ he
      exact fin _ he'
    | false =>
      simp only [encode, hh, Bool.false_eq_true, if_false] at he
      obtain ⟨_, _, he'⟩ := bind_ok _ _ _ he
      first
        | exact fin _ he'
        | exact fin _ he
  exact ⟨hreg p hpr, hv, hg, hpr⟩


theorem devInst_accepted_is_legal (T : Tables) (c : DevClass) (hreg : (c.opcode, c) ∈ T.instOpcodes)
    (dest : Arg) (i : Inst) (hd : ArgOK dest) (hi : i.Canonical) (hnd : i ≠ .device) (cmd : Cmd) (f : Frame)
    (h : constructDevInst c [dest, .inst i] = .ok cmd) (he : encode cmd = .ok f) : WF T cmd := by
  simp only [constructDevInst] at h
  obtain ⟨r, hdst, h⟩ := bind_ok _ _ _ h
  cases r with
  | inr j => simp at h
  | inl a =>
    simp only [pure, Except.pure] at h; injection h with h; subst h
    have hv := checkDestination_valid dest hd a hdst
    simp only [encode] at he
    obtain ⟨fr, hn, he⟩ := bind_ok _ _ _ he
    obtain ⟨fr2, ha, he⟩ := bind_ok _ _ _ he
    have hb := newFrame_bits 24 _ fr hn
    have := addToFrame_ok_kind a fr fr2 ha
    exact ⟨hreg, hv, frameSize_24 a (by rw [← this, hb]), hi, hnd⟩

theorem devSpecial_accepted_is_legal (T : Tables) (c : DevSpecialClass)
    (hreg : DevEntry.special c ∈ T.devCommands) (args : List Arg) (cmd : Cmd)
    (h : constructDevSpecial c args = .ok cmd) : WF T cmd := by
  unfold constructDevSpecial at h
  cases hk : c.kind with
  | zero =>
    simp only [hk] at h
    match args, h with
    | [], h =>
      simp only [pure, Except.pure] at h; injection h with h; subst h
      exact ⟨hreg, by simp [hk]⟩
  | one =>
    simp only [hk] at h
    match args, h with
    | [p], h =>
      obtain ⟨q, hq, h⟩ := bind_ok _ _ _ h
      simp only [pure, Except.pure] at h; injection h with h; subst h
      exact ⟨hreg, by simp [hk]; exact intParam_le _ 255 q hq⟩
  | two =>
    simp only [hk] at h
    match args, h with
    | [a, b], h =>
      cases a <;> cases b <;> simp only at h <;> try contradiction
      rename_i va vb
      cases h1 : va.asInt? <;> cases h2 : vb.asInt? <;> simp only [h1, h2] at h <;> try contradiction
      obtain ⟨qa, hqa, h⟩ := bind_ok _ _ _ h
      obtain ⟨qb, hqb, h⟩ := bind_ok _ _ _ h
      simp only [pure, Except.pure] at h; injection h with h; subst h
      exact ⟨hreg, by simp [hk]; exact ⟨intParam_le _ 255 qa hqa, intParam_le _ 255 qb hqb⟩⟩
  | abstractBase => simp [hk] at h
  | custom => simp [hk] at h

end DaliVerif.Cmd
