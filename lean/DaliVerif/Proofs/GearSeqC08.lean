import DaliVerif.Proofs.GearSeq
/-!
# Lemmas for C08: QueryDeviceTypes, QueryGroups, SetGroups against the specification bus
-/
namespace DaliVerif.GearSeq
open Prog
set_option linter.unusedSimpArgs false
set_option linter.unusedVariables false

/-! ## QueryDeviceTypes -/

theorem ascending_append (acc : List Nat) (v : Nat) (h : ascending acc = true) (hv : ∀ x ∈ acc, x < v) :
    ascending (acc ++ [v]) = true := by
  induction acc with
  | nil => rfl
  | cons x xs ih =>
    cases xs with
    | nil =>
      have : x < v := hv x (by simp)
      simp [ascending, this]
    | cons y ys =>
      simp only [ascending, Bool.and_eq_true, decide_eq_true_eq] at h
      have ih' := ih h.2 (fun z hz => hv z (List.mem_cons_of_mem _ hz))
      simp only [List.cons_append, ascending, Bool.and_eq_true, decide_eq_true_eq]
      exact ⟨h.1, by simpa using ih'⟩

/-- The repaired loop, against *any* environment whose answers are bytes: it ends with
DALISequenceError or a strictly ascending list, and within `257 - next` commands
(`256 - next` while `next ≤ 254`): the measure `256 - last_seen` decreases. -/
theorem qdtLoop_generic {σ : Type} (step : σ → Cmd → Resp × σ) (Inv : σ → Prop) (a : Addr)
    (hstep : ∀ s c, (c = .queryDeviceType a ∨ c = .queryNextDeviceType a) → Inv s →
      Inv (step s c).2 ∧ ∀ v, (step s c).1 = .byte v → v < 256) :
    ∀ (fuel next : Nat) (acc : List Nat) (s : σ), Inv s → 257 ≤ fuel + next → next ≤ 256 →
      ascending acc = true → (∀ x ∈ acc, x < next) →
      (((qdtLoop a fuel next acc).run step s).res = .raised .DALISequenceError ∨
        ∃ l, ((qdtLoop a fuel next acc).run step s).res = .ret l ∧ ascending l = true) ∧
      ((qdtLoop a fuel next acc).run step s).trace.length + next ≤ 257 ∧
      (next ≤ 254 → ((qdtLoop a fuel next acc).run step s).trace.length + next ≤ 256) := by
  intro fuel
  induction fuel with
  | zero => intro next acc s _ h1 h2; omega
  | succ f ih =>
    intro next acc s hI hf hn hasc hlt
    have hs := hstep s (.queryNextDeviceType a) (Or.inr rfl) hI
    simp only [qdtLoop, Prog.run]
    cases hr : (step s (.queryNextDeviceType a)).1 with
    | none => simp [Prog.run]; omega
    | err => simp [Prog.run]; omega
    | byte v =>
      have hv := hs.2 v hr
      simp only []
      by_cases h254 : v = 254
      · simp only [h254, if_true]
        by_cases he : acc.isEmpty = true
        · simp [he, Prog.run]; omega
        · simp [he, Prog.run, hasc]; omega
      · simp only [h254, if_false]
        by_cases hlt' : v < next
        · simp [hlt', Prog.run]; omega
        · simp only [hlt', if_false]
          have hacc : ascending (acc ++ [v]) = true :=
            ascending_append acc v hasc (fun x hx => by have := hlt x hx; omega)
          have hlt2 : ∀ x ∈ acc ++ [v], x < v + 1 := by
            intro x hx
            simp at hx
            rcases hx with hx | hx
            · have := hlt x hx; omega
            · omega
          obtain ⟨h1, h2, h3⟩ := ih (v + 1) (acc ++ [v]) (step s (.queryNextDeviceType a)).2 hs.1
            (by omega) (by omega) hacc hlt2
          refine ⟨h1, ?_, ?_⟩
          · simp only [List.length_cons]; omega
          · intro hn2; simp only [List.length_cons]; omega

theorem qdt_generic {σ : Type} (step : σ → Cmd → Resp × σ) (Inv : σ → Prop) (a : Addr)
    (hstep : ∀ s c, (c = .queryDeviceType a ∨ c = .queryNextDeviceType a) → Inv s →
      Inv (step s c).2 ∧ ∀ v, (step s c).1 = .byte v → v < 256)
    (s : σ) (hI : Inv s) :
    (((queryDeviceTypes (.addr a)).run step s).res = .raised .DALISequenceError ∨
        ∃ l, ((queryDeviceTypes (.addr a)).run step s).res = .ret l ∧ ascending l = true) ∧
      ((queryDeviceTypes (.addr a)).run step s).trace.length ≤ 257 := by
  have hs := hstep s (.queryDeviceType a) (Or.inl rfl) hI
  simp only [queryDeviceTypes, withDest, Dest.resolve, Prog.run]
  cases hr : (step s (.queryDeviceType a)).1 with
  | none => simp [Prog.run]
  | err => simp [Prog.run]
  | byte v =>
    have hv := hs.2 v hr
    simp only []
    by_cases h1 : v < 254
    · simp [h1, Prog.run, ascending]
    · simp only [h1, if_false]
      by_cases h2 : v = 254
      · simp [h2, Prog.run, ascending]
      · have h3 : v = 255 := by omega
        subst h3
        simp only [show ¬ ((255 : Nat) = 254) from by decide, if_false, if_true]
        obtain ⟨r1, r2, r3⟩ := qdtLoop_generic step Inv a hstep 257 0 [] (step s (.queryDeviceType a)).2 hs.1
          (by omega) (by omega) rfl (by simp)
        refine ⟨r1, ?_⟩
        simp only [List.length_cons]
        have := r3 (by omega)
        omega

/-- against an answer stream: a returned list is exactly the answers given, closed by 254 -/
theorem qdtLoop_stream (answers : Nat → Resp) (a : Addr) :
    ∀ (fuel next : Nat) (acc : List Nat) (l : List Nat),
      (∀ j, j < acc.length → answers (j + 1) = .byte (acc.getD j 0)) →
      ((qdtLoop a fuel next acc).run (streamStep answers) (acc.length + 1)).res = .ret l →
      l ≠ [] ∧ acc.length ≤ l.length ∧
      ((qdtLoop a fuel next acc).run (streamStep answers) (acc.length + 1)).trace.length
          = l.length + 1 - acc.length ∧
      (∀ j, j < l.length → answers (j + 1) = .byte (l.getD j 0)) ∧
      answers (l.length + 1) = .byte 254 := by
  intro fuel
  induction fuel with
  | zero => intro next acc l _ h; simp [qdtLoop, Prog.run] at h
  | succ f ih =>
    intro next acc l hacc h
    simp only [qdtLoop, Prog.run, streamStep] at h ⊢
    cases hr : answers (acc.length + 1) with
    | none => simp [hr, Prog.run] at h
    | err => simp [hr, Prog.run] at h
    | byte v =>
      simp only [hr] at h ⊢
      by_cases h254 : v = 254
      · simp only [h254, if_true] at h ⊢
        by_cases he : acc.isEmpty = true
        · simp [he, Prog.run] at h
        · have he' : acc.isEmpty = false := by simpa using he
          simp only [he', Prog.run] at h ⊢
          simp [Prog.run] at h
          subst h
          refine ⟨by simpa using he, Nat.le_refl _, by simp [Prog.run], hacc, by rw [hr, h254]⟩
      · simp only [h254, if_false] at h ⊢
        by_cases hlt : v < next
        · simp [hlt, Prog.run] at h
        · simp only [hlt, if_false] at h ⊢
          have hacc' : ∀ j, j < (acc ++ [v]).length → answers (j + 1) = .byte ((acc ++ [v]).getD j 0) := by
            intro j hj
            simp at hj
            by_cases hj' : j < acc.length
            · rw [hacc j hj']; congr 1
              simp [List.getD_eq_getElem?_getD, List.getElem?_append_left hj']
            · have : j = acc.length := by omega
              subst this
              rw [hr]; congr 1
              simp [List.getD_eq_getElem?_getD]
          have hlen : (acc ++ [v]).length + 1 = acc.length + 1 + 1 := by simp
          have := ih (v + 1) (acc ++ [v]) l hacc' (by rw [hlen]; exact h)
          rw [hlen] at this
          obtain ⟨t1, t2, t3, t4, t5⟩ := this
          simp at t2
          refine ⟨t1, by omega, ?_, t4, t5⟩
          simp only [List.length_cons, t3]
          simp
          omega

theorem withDest_resolve {α : Type} (d : Dest) (a : Addr) (h : d.resolve = .ok a) (k : Addr → Prog α) :
    withDest d k = k a := by
  simp [withDest, h]

theorem qdtStreamPost_holds (answers : Nat → Resp) (hb : ∀ i v, answers i = .byte v → v < 256)
    (a : Addr) : qdtStreamPost answers (runStream (queryDeviceTypes (.addr a)) answers) = true := by
  have hstep : ∀ (s : Nat) (c : Cmd), (c = .queryDeviceType a ∨ c = .queryNextDeviceType a) → True → True ∧ ∀ v, (streamStep answers s c).1 = .byte v → v < 256 :=
    fun s c _ _ => ⟨trivial, fun v hv => hb s v hv⟩
  obtain ⟨g1, g2⟩ := qdt_generic (streamStep answers) (fun _ => True) a hstep 0 trivial
  unfold qdtStreamPost runStream
  simp only [Bool.and_eq_true, decide_eq_true_eq]
  refine ⟨g2, ?_⟩
  rcases g1 with g1 | ⟨l, g1, gasc⟩
  · rw [g1]; rfl
  · rw [g1]
    simp only [gasc, Bool.true_and]
    -- which first answer?
    simp only [queryDeviceTypes, withDest, Dest.resolve, Prog.run, streamStep] at g1 ⊢
    cases h0 : answers 0 with
    | none => simp [h0, Prog.run] at g1
    | err => simp [h0, Prog.run] at g1
    | byte v =>
      simp only [h0] at g1 ⊢
      by_cases h1 : v < 254
      · simp only [h1, if_true, Prog.run] at g1 ⊢
        simp at g1
        simp [g1]
      · simp only [h1, if_false] at g1 ⊢
        by_cases h2 : v = 254
        · simp only [h2, if_true, Prog.run] at g1 ⊢
          simp at g1
          simp [← g1]
        · have h3 : v = 255 := by have := hb 0 v h0; omega
          subst h3
          simp only [show ¬ ((255 : Nat) = 254) from by decide, if_false, if_true] at g1 ⊢
          have := qdtLoop_stream answers a 257 0 [] l (by simp) g1
          obtain ⟨t1, t2, t3, t4, t5⟩ := this
          simp only [List.length_nil, Nat.zero_add] at t3
          simp only [List.length_cons, t3, Bool.and_eq_true, beq_iff_eq, Bool.not_eq_true',
            List.all_eq_true, List.mem_range, decide_eq_true_eq]
          refine ⟨⟨⟨⟨trivial, ?_⟩, by omega⟩, fun j hj => t4 j hj⟩, t5⟩
          cases l with
          | nil => exact absurd rfl t1
          | cons _ _ => rfl

/-! ### QueryDeviceTypes against the bus -/

theorem tick_addressed (u : Gear) (a : Addr) : u.tick.addressed a = u.addressed a := by
  cases a <;> rfl

theorem step_qdt_types (u : Gear) (a : Addr) :
    ((u.step (.queryDeviceType a)).2).types = u.types ∧
    ((u.step (.queryDeviceType a)).2).addressed a = u.addressed a := by
  simp only [Gear.step]
  split
  · split <;> (constructor <;> first | rfl | (cases a <;> rfl))
  · exact ⟨rfl, tick_addressed u a⟩

theorem step_qnext_types (u : Gear) (a : Addr) :
    ((u.step (.queryNextDeviceType a)).2).types = u.types ∧
    ((u.step (.queryNextDeviceType a)).2).addressed a = u.addressed a := by
  simp only [Gear.step]
  split
  · split
    · exact ⟨rfl, tick_addressed u a⟩
    · split <;> (constructor <;> first | rfl | (cases a <;> rfl))
  · exact ⟨rfl, tick_addressed u a⟩

theorem step_qdt_silent (u : Gear) (a : Addr) (h : u.addressed a = false) :
    (u.step (.queryDeviceType a)).1 = none := by
  simp [Gear.step, h]

theorem step_qnext_silent (u : Gear) (a : Addr) (h : u.addressed a = false) :
    (u.step (.queryNextDeviceType a)).1 = none := by
  simp [Gear.step, h]

/-- the units addressed by `a` after a QUERY (NEXT) DEVICE TYPE frame -/
theorem frame_qdt_filter (b : Bus) (a : Addr) (c : Cmd)
    (hc : c = .queryDeviceType a ∨ c = .queryNextDeviceType a) :
    ((Bus.frame b c).2).filter (·.addressed a) = (b.filter (·.addressed a)).map (fun u => (u.step c).2) := by
  unfold Bus.frame
  apply filter_map_of_pres
  intro u
  rcases hc with hc | hc <;> subst hc
  · exact (step_qdt_types u a).2
  · exact (step_qnext_types u a).2

theorem frame_qdt_resp (b : Bus) (a : Addr) (c : Cmd)
    (hc : c = .queryDeviceType a ∨ c = .queryNextDeviceType a) :
    (Bus.frame b c).1 = combine ((b.filter (·.addressed a)).filterMap (fun u => (u.step c).1)) := by
  apply frame_resp_filter
  intro u hu
  rcases hc with hc | hc <;> subst hc
  · exact step_qdt_silent u a hu
  · exact step_qnext_silent u a hu

theorem ascending_get : ∀ (T : List Nat), ascending T = true →
    ∀ i (h : i + 1 < T.length), T[i] < T[i + 1]
  | [], _, i, h => by simp at h
  | [_], _, i, h => by simp at h
  | x :: y :: t, hasc, i, h => by
    simp only [ascending, Bool.and_eq_true, decide_eq_true_eq] at hasc
    cases i with
    | zero => exact hasc.1
    | succ j =>
      have := ascending_get (y :: t) hasc.2 j (by simp at h ⊢; omega)
      simpa using this

/-- the NEXT loop against a bus on which exactly one unit, conforming, is addressed -/
theorem qdtLoop_conforming (a : Addr) (T : List Nat) (hT : T ≠ []) (hasc : ascending T = true)
    (h254 : ∀ x ∈ T, x < 254) :
    ∀ (n k fuel next : Nat) (b : Bus) (u : Gear),
      T.length - k = n → k ≤ T.length →
      b.filter (·.addressed a) = [u] → u.types = T → u.cursor = some k →
      (∀ h : k < T.length, next ≤ T[k]) → 257 ≤ fuel + next → next ≤ 254 →
      (runBus (qdtLoop a fuel next (T.take k)) b).res = .ret T := by
  intro n
  induction n with
  | zero =>
    intro k fuel next b u hn hk hf ht hc hnx hfu hn2
    have hk' : k = T.length := by omega
    cases fuel with
    | zero => omega
    | succ f =>
      simp only [runBus, qdtLoop, Prog.run]
      rw [exec_of_dt0 _ _ rfl, frame_qdt_resp b a _ (Or.inr rfl), hf]
      have hans : (u.step (.queryNextDeviceType a)).1 = some 254 := by
        have hadd : u.addressed a = true := by
          have : u ∈ b.filter (·.addressed a) := by rw [hf]; simp
          simpa using (List.mem_filter.mp this).2
        simp [Gear.step, hadd, hc, ht, hk']
      simp only [List.filterMap_cons, hans, List.filterMap_nil, combine]
      subst hk'
      have : T.isEmpty = false := by cases T <;> simp_all
      simp [this, Prog.run]
  | succ m ih =>
    intro k fuel next b u hn hk hf ht hc hnx hfu hn2
    have hk' : k < T.length := by omega
    cases fuel with
    | zero => omega
    | succ f =>
      simp only [runBus, qdtLoop, Prog.run]
      rw [exec_of_dt0 _ _ rfl, frame_qdt_resp b a _ (Or.inr rfl), hf]
      have hadd : u.addressed a = true := by
        have : u ∈ b.filter (·.addressed a) := by rw [hf]; simp
        simpa using (List.mem_filter.mp this).2
      have hk'' : k < u.types.length := by rw [ht]; exact hk'
      have hans : (u.step (.queryNextDeviceType a)).1 = some T[k] := by
        simp [Gear.step, hadd, hc, ht, hk']
      have hst : (u.step (.queryNextDeviceType a)).2 = { u.tick with cursor := some (k + 1) } := by
        simp [Gear.step, hadd, hc, ht, hk']
      simp only [List.filterMap_cons, hans, List.filterMap_nil, combine]
      have hlt : T[k] < 254 := h254 _ (List.getElem_mem _)
      have hne : ¬ T[k] = 254 := by omega
      have hge : ¬ T[k] < next := by have := hnx hk'; omega
      simp only [hne, hge, if_false]
      have htake : T.take k ++ [T[k]] = T.take (k + 1) := by
        rw [List.take_succ_eq_append_getElem hk']
      rw [htake]
      have hf' : ((Bus.frame b (.queryNextDeviceType a)).2).filter (·.addressed a)
          = [{ u.tick with cursor := some (k + 1) }] := by
        rw [frame_qdt_filter b a _ (Or.inr rfl), hf]; simp [hst]
      exact ih (k + 1) f (T[k] + 1) _ _ (by omega) (by omega) hf' (by simp [Gear.tick, ht]) rfl
        (fun h => by have := ascending_get T hasc k h; omega) (by omega) (by omega)

/-- device types reported on the wire are bytes -/
def TypesWF (b : Bus) : Prop := ∀ u ∈ b, ∀ t ∈ u.types, t < 256

theorem combine_byte {l : List Nat} {v : Nat} (h : combine l = .byte v) : l = [v] := by
  match l, h with
  | [x], h => simp [combine] at h; simp [h]

theorem step_qdt_byte (u : Gear) (a : Addr) (c : Cmd)
    (hc : c = .queryDeviceType a ∨ c = .queryNextDeviceType a)
    (hw : ∀ t ∈ u.types, t < 256) (v : Nat) (h : (u.step c).1 = some v) : v < 256 := by
  rcases hc with hc | hc <;> subst hc
  · simp only [Gear.step] at h
    split at h
    · split at h
      · simp at h; omega
      · rename_i t ht
        simp at h; subst h; exact hw _ (by rw [ht]; simp)
      · simp at h; omega
    · simp at h
  · simp only [Gear.step] at h
    split at h
    · split at h
      · simp at h
      · split at h
        · simp at h; subst h; exact hw _ (List.getElem_mem _)
        · simp at h; omega
    · simp at h

theorem bus_qdt_step (a : Addr) (b : Bus) (c : Cmd)
    (hc : c = .queryDeviceType a ∨ c = .queryNextDeviceType a) (hw : TypesWF b) :
    TypesWF (Bus.exec b c).2 ∧ ∀ v, (Bus.exec b c).1 = .byte v → v < 256 := by
  have hdt : c.devicetype = 0 := by rcases hc with hc | hc <;> subst hc <;> rfl
  rw [exec_of_dt0 _ _ hdt]
  constructor
  · intro u' hu' t ht
    simp only [Bus.frame, List.mem_map] at hu'
    obtain ⟨u, hu, rfl⟩ := hu'
    have : ((u.step c).2).types = u.types := by
      rcases hc with hc | hc <;> subst hc
      · exact (step_qdt_types u a).1
      · exact (step_qnext_types u a).1
    rw [this] at ht
    exact hw u hu t ht
  · intro v hv
    simp only [Bus.frame] at hv
    have hl := combine_byte hv
    have : v ∈ b.filterMap (fun u => (u.step c).1) := by rw [hl]; simp
    obtain ⟨u, hu, hans⟩ := List.mem_filterMap.mp this
    exact step_qdt_byte u a c hc (hw u hu) v hans

theorem combine_two (x y : Nat) (l : List Nat) : combine (x :: y :: l) = .err := rfl

theorem ascending_two_le (t1 t2 : Nat) (ts : List Nat) : (t1 :: t2 :: ts) ≠ [] := by simp

/-- **QueryDeviceTypes against any bus** (`qdtPost`): bounded, never a non-ascending list,
an error when nobody or several units are addressed, and exactly the unit's list when the one
unit addressed is conforming. -/
theorem qdtPost_holds (b : Bus) (hw : TypesWF b) (a : Addr) :
    qdtPost b a (runBus (queryDeviceTypes (.addr a)) b) = true := by
  obtain ⟨g1, g2⟩ := qdt_generic Bus.exec TypesWF a (fun s c hc hI => bus_qdt_step a s c hc hI) b hw
  unfold qdtPost
  simp only [Bool.and_eq_true, decide_eq_true_eq]
  refine ⟨⟨g2, ?_⟩, ?_⟩
  · rcases g1 with g1 | ⟨l, g1, gasc⟩
    · unfold runBus; rw [g1]; rfl
    · unfold runBus; rw [g1]; exact gasc
  · -- the first frame
    have hresp := frame_qdt_resp b a (.queryDeviceType a) (Or.inl rfl)
    have hfil := frame_qdt_filter b a (.queryDeviceType a) (Or.inl rfl)
    cases hf : b.filter (·.addressed a) with
    | nil =>
      simp only []
      rw [hf] at hresp
      simp only [runBus, queryDeviceTypes, withDest, Dest.resolve, Prog.run]
      rw [exec_of_dt0 _ _ rfl, hresp]
      simp [combine, Prog.run, isDSE]
    | cons u rest =>
      have hadd : u.addressed a = true := by
        have : u ∈ b.filter (·.addressed a) := by rw [hf]; simp
        simpa using (List.mem_filter.mp this).2
      cases rest with
      | cons u2 rest2 =>
        simp only []
        have hadd2 : u2.addressed a = true := by
          have : u2 ∈ b.filter (·.addressed a) := by rw [hf]; simp
          simpa using (List.mem_filter.mp this).2
        rw [hf] at hresp
        have h1 : ∃ x, (u.step (.queryDeviceType a)).1 = some x := by
          simp only [Gear.step, hadd, if_true]; split <;> simp
        have h2 : ∃ x, (u2.step (.queryDeviceType a)).1 = some x := by
          simp only [Gear.step, hadd2, if_true]; split <;> simp
        obtain ⟨x1, h1⟩ := h1
        obtain ⟨x2, h2⟩ := h2
        simp only [List.filterMap_cons, h1, h2, combine_two] at hresp
        simp only [runBus, queryDeviceTypes, withDest, Dest.resolve, Prog.run]
        rw [exec_of_dt0 _ _ rfl, hresp]
        simp [Prog.run, isDSE]
      | nil =>
        simp only []
        by_cases hconf : u.typesConforming = true
        · simp only [hconf, if_true, beq_iff_eq]
          simp only [Gear.typesConforming, Bool.and_eq_true, List.all_eq_true, decide_eq_true_eq] at hconf
          obtain ⟨hasc, h254⟩ := hconf
          rw [hf] at hresp hfil
          simp only [runBus, queryDeviceTypes, withDest, Dest.resolve, Prog.run]
          rw [exec_of_dt0 _ _ rfl, hresp]
          cases hty : u.types with
          | nil =>
            have : (u.step (.queryDeviceType a)).1 = some 254 := by simp [Gear.step, hadd, hty]
            simp [this, combine, Prog.run]
          | cons t1 ts =>
            cases ts with
            | nil =>
              have : (u.step (.queryDeviceType a)).1 = some t1 := by simp [Gear.step, hadd, hty]
              have ht1 : t1 < 254 := h254 t1 (by rw [hty]; simp)
              simp [this, combine, Prog.run, ht1]
            | cons t2 ts2 =>
              have hans : (u.step (.queryDeviceType a)).1 = some 255 := by simp [Gear.step, hadd, hty]
              have hst : (u.step (.queryDeviceType a)).2 = { u.tick with cursor := some 0 } := by
                simp [Gear.step, hadd, hty]
              simp only [List.filterMap_cons, hans, List.filterMap_nil, combine,
                show ¬ ((255 : Nat) < 254) from by decide, show ¬ ((255 : Nat) = 254) from by decide,
                if_false, if_true]
              have hf' : ((Bus.frame b (.queryDeviceType a)).2).filter (·.addressed a)
                  = [{ u.tick with cursor := some 0 }] := by rw [hfil]; simp [hst]
              have := qdtLoop_conforming a (t1 :: t2 :: ts2) (by simp) (by rw [← hty]; exact hasc)
                (by rw [← hty]; exact h254) _ 0 257 0 _ _ rfl (by simp) hf'
                (by simp [Gear.tick, hty]) rfl (by simp) (by omega) (by omega)
              simpa [runBus] using this
        · simp [hconf]

/-! ### QueryGroups -/

theorem bitsOf_mod (g : Nat) : bitsOf (g / 256 % 256 * 256 + g % 256) = bitsOf g := by
  have h : g / 256 % 256 * 256 + g % 256 = g % 2 ^ 16 := by omega
  rw [h]
  unfold bitsOf
  apply List.filter_congr
  intro i hi
  simp only [List.mem_range] at hi
  rw [Nat.testBit_mod_two_pow]
  simp [hi]

theorem tick_tick (u : Gear) : u.tick.tick = u.tick := rfl
theorem tick_groups (u : Gear) : u.tick.groups = u.groups := rfl

theorem frame_q07 (b : Bus) (a : Addr) :
    Bus.frame b (.queryGroups07 a) =
      (combine ((b.filter (·.addressed a)).filterMap (fun u => (u.step (.queryGroups07 a)).1)),
        b.map Gear.tick) := by
  have h1 := frame_resp_filter b (.queryGroups07 a) (·.addressed a)
    (fun u hu => by simp [Gear.step, hu])
  have h2 : (Bus.frame b (.queryGroups07 a)).2 = b.map Gear.tick := by
    simp [Bus.frame, Gear.step]
  exact Prod.ext h1 h2

theorem frame_q815 (b : Bus) (a : Addr) :
    Bus.frame b (.queryGroups815 a) =
      (combine ((b.filter (·.addressed a)).filterMap (fun u => (u.step (.queryGroups815 a)).1)),
        b.map Gear.tick) := by
  have h1 := frame_resp_filter b (.queryGroups815 a) (·.addressed a)
    (fun u hu => by simp [Gear.step, hu])
  have h2 : (Bus.frame b (.queryGroups815 a)).2 = b.map Gear.tick := by
    simp [Bus.frame, Gear.step]
  exact Prod.ext h1 h2

theorem filter_tick (b : Bus) (a : Addr) :
    (b.map Gear.tick).filter (·.addressed a) = (b.filter (·.addressed a)).map Gear.tick :=
  filter_map_of_pres Gear.tick (·.addressed a) b (fun u => tick_addressed u a)

theorem map_tick_groups (b : Bus) : (b.map Gear.tick).map (·.groups) = b.map (·.groups) := by
  simp [List.map_map, Function.comp_def, tick_groups]

/-- complete description of a QueryGroups run -/
theorem queryGroups_run (b : Bus) (a : Addr) :
    (∀ u, b.filter (·.addressed a) = [u] →
      (runBus (queryGroups (.addr a)) b).res = .ret (bitsOf u.groups) ∧
      (runBus (queryGroups (.addr a)) b).st = b.map Gear.tick ∧
      (runBus (queryGroups (.addr a)) b).trace = [.queryGroups07 a, .queryGroups815 a]) ∧
    ((∀ u, b.filter (·.addressed a) ≠ [u]) →
      (runBus (queryGroups (.addr a)) b).res = .raised .DALISequenceError ∧
      (runBus (queryGroups (.addr a)) b).st = b.map Gear.tick ∧
      (runBus (queryGroups (.addr a)) b).trace = [.queryGroups07 a]) := by
  simp only [runBus, queryGroups, withDest, Dest.resolve, Prog.run]
  rw [exec_of_dt0 _ _ rfl, frame_q07]
  constructor
  · intro u hf
    have hadd : u.addressed a = true := by
      have : u ∈ b.filter (·.addressed a) := by rw [hf]; simp
      simpa using (List.mem_filter.mp this).2
    rw [hf]
    have h1 : (u.step (.queryGroups07 a)).1 = some (u.groups % 256) := by simp [Gear.step, hadd]
    simp only [List.filterMap_cons, h1, List.filterMap_nil, combine, Prog.run]
    rw [exec_of_dt0 _ _ rfl, frame_q815, filter_tick, hf]
    have h2 : ((u.tick).step (.queryGroups815 a)).1 = some (u.groups / 256 % 256) := by
      simp [Gear.step, tick_addressed, hadd, tick_groups]
    simp only [List.map_cons, List.map_nil, List.filterMap_cons, h2, List.filterMap_nil, combine, Prog.run,
      bitsOf_mod, List.map_map]
    simp [Function.comp_def, tick_tick]
  · intro hne
    cases hf : b.filter (·.addressed a) with
    | nil => simp [combine, Prog.run]
    | cons u rest =>
      cases rest with
      | nil => exact absurd hf (hne u)
      | cons u2 r2 =>
        have hadd : u.addressed a = true := by
          have : u ∈ b.filter (·.addressed a) := by rw [hf]; simp
          simpa using (List.mem_filter.mp this).2
        have hadd2 : u2.addressed a = true := by
          have : u2 ∈ b.filter (·.addressed a) := by rw [hf]; simp
          simpa using (List.mem_filter.mp this).2
        have h1 : (u.step (.queryGroups07 a)).1 = some (u.groups % 256) := by simp [Gear.step, hadd]
        have h2 : (u2.step (.queryGroups07 a)).1 = some (u2.groups % 256) := by simp [Gear.step, hadd2]
        simp [List.filterMap_cons, h1, h2, combine_two, Prog.run]

theorem groupsPost_holds (b : Bus) (a : Addr) :
    groupsPost b a (runBus (queryGroups (.addr a)) b) = true := by
  obtain ⟨h1, h2⟩ := queryGroups_run b a
  unfold groupsPost
  cases hf : b.filter (·.addressed a) with
  | nil =>
    obtain ⟨r1, r2, r3⟩ := h2 (fun u => by rw [hf]; simp)
    simp [r1, r2, r3, groupsUnchanged, tick_groups, isDSE]
  | cons u rest =>
    cases rest with
    | nil =>
      obtain ⟨r1, r2, r3⟩ := h1 u hf
      simp [r1, r2, r3, groupsUnchanged, tick_groups]
    | cons u2 r2' =>
      obtain ⟨r1, r2, r3⟩ := h2 (fun u => by rw [hf]; simp)
      simp [r1, r2, r3, groupsUnchanged, tick_groups, isDSE]

/-! ### SetGroups -/

/-- the command of one (add?, group index) entry -/
def gcmd (a : Addr) (p : Bool × Nat) : Cmd :=
  if p.1 then .addToGroup a p.2 else .removeFromGroup a p.2

/-- membership bit `j` after a list of add / remove entries -/
def finalBit (j : Nat) : List (Bool × Nat) → Bool → Bool
  | [], bit => bit
  | p :: L, bit => finalBit j L (if p.2 = j then p.1 else bit)

theorem step_gcmd_addressed (u : Gear) (a : Addr) (p : Bool × Nat) (h : u.addressed a = true) :
    ((u.step (gcmd a p)).2).short = u.short ∧
    ∀ j, ((u.step (gcmd a p)).2).groups.testBit j = (if p.2 = j then p.1 else u.groups.testBit j) := by
  obtain ⟨ad, i⟩ := p
  cases ad with
  | true =>
    simp only [gcmd, if_true, Gear.step, h]
    refine ⟨rfl, fun j => ?_⟩
    simp only [Gear.tick, Nat.testBit_or, Nat.testBit_two_pow]
    by_cases hij : i = j <;> simp [hij]
  | false =>
    simp only [gcmd, Bool.false_eq_true, if_false, Gear.step, h, true_and]
    by_cases hb : u.groups.testBit i = true
    · simp only [hb, if_true]
      refine ⟨rfl, fun j => ?_⟩
      simp only [Gear.tick, Nat.testBit_xor, Nat.testBit_two_pow]
      by_cases hij : i = j
      · subst hij; simp [hb]
      · simp [hij]
    · simp only [hb, if_false]
      refine ⟨rfl, fun j => ?_⟩
      by_cases hij : i = j
      · subst hij; simpa [Gear.tick] using hb
      · simp [hij, Gear.tick]

theorem step_gcmd_not (u : Gear) (a : Addr) (p : Bool × Nat) (h : u.addressed a = false) :
    (u.step (gcmd a p)).2 = u.tick := by
  obtain ⟨ad, i⟩ := p
  cases ad <;> simp [gcmd, Gear.step, h]

theorem addressed_of (u u' : Gear) (a : Addr) (hs : u'.short = u.short)
    (hg : ∀ g, a = .group g → u'.groups.testBit g = u.groups.testBit g) :
    u'.addressed a = u.addressed a := by
  cases a with
  | short n => simp [Gear.addressed, hs]
  | group g => simp [Gear.addressed, hg g rfl]
  | broadcast => rfl
  | unaddressed => simp [Gear.addressed, hs]

theorem execSt_dt0 (u : Gear) (c : Cmd) (h : c.devicetype = 0) : u.execSt c = (u.step c).2 := by
  simp [Gear.execSt, h]

theorem gcmd_dt (a : Addr) (p : Bool × Nat) : (gcmd a p).devicetype = 0 := by
  obtain ⟨ad, i⟩ := p; cases ad <;> rfl

/-- an addressed unit under a list of add / remove commands that never removes the
destination's own group: it hears them all, and ends with the bits they say -/
theorem fold_group (a : Addr) : ∀ (L : List (Bool × Nat)) (u : Gear), u.addressed a = true →
    (∀ p ∈ L, ∀ g, a = .group g → p.1 = false → p.2 ≠ g) →
    ((L.map (gcmd a)).foldl Gear.execSt u).addressed a = true ∧
    ∀ j, ((L.map (gcmd a)).foldl Gear.execSt u).groups.testBit j = finalBit j L (u.groups.testBit j) := by
  intro L
  induction L with
  | nil => intro u h _; exact ⟨h, fun j => rfl⟩
  | cons p L ih =>
    intro u h hsafe
    simp only [List.map_cons, List.foldl_cons, execSt_dt0 _ _ (gcmd_dt a p)]
    obtain ⟨hs, hb⟩ := step_gcmd_addressed u a p h
    have hadd : ((u.step (gcmd a p)).2).addressed a = true := by
      rw [addressed_of u _ a hs]
      · exact h
      · intro g hg
        rw [hb g]
        by_cases hpg : p.2 = g
        · simp only [hpg, if_true]
          have hm : u.groups.testBit g = true := by subst hg; simpa [Gear.addressed] using h
          rw [hm]
          by_cases hp1 : p.1 = true
          · exact hp1
          · exact absurd hpg (hsafe p (by simp) g hg (by simpa using hp1))
        · simp [hpg]
    obtain ⟨r1, r2⟩ := ih _ hadd (fun q hq => hsafe q (by simp [hq]))
    refine ⟨r1, fun j => ?_⟩
    rw [r2 j, hb j]
    rfl

theorem fold_group_not (a : Addr) : ∀ (L : List (Bool × Nat)) (u : Gear), u.addressed a = false →
    ((L.map (gcmd a)).foldl Gear.execSt u).groups = u.groups := by
  intro L
  induction L with
  | nil => intro u _; rfl
  | cons p L ih =>
    intro u h
    simp only [List.map_cons, List.foldl_cons, execSt_dt0 _ _ (gcmd_dt a p), step_gcmd_not u a p h]
    rw [ih _ (by rw [tick_addressed]; exact h)]
    rfl

theorem finalBit_not_mem (j : Nat) : ∀ (L : List (Bool × Nat)) (bit : Bool), (∀ p ∈ L, p.2 ≠ j) →
    finalBit j L bit = bit := by
  intro L
  induction L with
  | nil => intro _ _; rfl
  | cons p L ih =>
    intro bit h
    simp only [finalBit, h p (by simp), if_false]
    exact ih bit (fun q hq => h q (by simp [hq]))

/-- when every entry for index `j` carries the same flag `v`, and there is one, the bit ends as `v` -/
theorem finalBit_mem (j : Nat) (v : Bool) : ∀ (L : List (Bool × Nat)) (bit : Bool),
    (∀ p ∈ L, p.2 = j → p.1 = v) → (∃ p ∈ L, p.2 = j) → finalBit j L bit = v := by
  intro L
  induction L with
  | nil => intro _ _ h; obtain ⟨p, hp, _⟩ := h; simp at hp
  | cons p L ih =>
    intro bit hall hex
    simp only [finalBit]
    by_cases hpj : p.2 = j
    · simp only [hpj, if_true]
      by_cases hex' : ∃ q ∈ L, q.2 = j
      · exact ih _ (fun q hq => hall q (by simp [hq])) hex'
      · rw [finalBit_not_mem j L _ (fun q hq hqj => hex' ⟨q, hq, hqj⟩)]
        exact hall p (by simp) hpj
    · simp only [hpj, if_false]
      obtain ⟨q, hq, hqj⟩ := hex
      simp only [List.mem_cons] at hq
      rcases hq with rfl | hq
      · exact absurd hqj hpj
      · exact ih _ (fun q hq => hall q (by simp [hq])) ⟨q, hq, hqj⟩

/-- program that issues the commands of a list of entries -/
def groupProg {α : Type} (a : Addr) (L : List (Bool × Nat)) (k : Prog α) : Prog α :=
  L.foldr (fun p k => groupCmd p.1 a p.2 k) k

theorem groupCmds_eq {α : Type} (add : Bool) (a : Addr) (l : List Nat) (k : Prog α) :
    groupCmds add a l k = groupProg a (l.map (fun i => (add, i))) k := by
  induction l with
  | nil => rfl
  | cons i is ih => simp [groupCmds, groupProg, ih]

theorem run_groupProg {σ α : Type} (step : σ → Cmd → Resp × σ) (a : Addr) :
    ∀ (L : List (Bool × Nat)) (k : Prog α) (s : σ), (∀ p ∈ L, p.2 < 16) →
      (groupProg a L k).run step s =
        ⟨(k.run step ((L.map (gcmd a)).foldl (fun s c => (step s c).2) s)).res,
         (k.run step ((L.map (gcmd a)).foldl (fun s c => (step s c).2) s)).st,
         L.map (gcmd a) ++ (k.run step ((L.map (gcmd a)).foldl (fun s c => (step s c).2) s)).trace⟩ := by
  intro L
  induction L with
  | nil => intro k s _; rfl
  | cons p L ih =>
    intro k s h
    have hp : p.2 < 16 := h p (by simp)
    have : groupProg a (p :: L) k = .send (gcmd a p) (fun _ => groupProg a L k) := by
      obtain ⟨ad, i⟩ := p
      simp only [groupProg, List.foldr_cons, groupCmd, Prog.tell, gcmd] at hp ⊢
      simp [hp]
    rw [this]
    simp only [Prog.run, List.map_cons, List.foldl_cons, List.cons_append]
    rw [ih k _ (fun q hq => h q (by simp [hq]))]

theorem mem_bitsOf (g i : Nat) : i ∈ bitsOf g ↔ i < 16 ∧ g.testBit i = true := by
  simp [bitsOf, List.mem_filter]

theorem contains_bitsOf (g i : Nat) : (bitsOf g).contains i = (decide (i < 16) && g.testBit i) := by
  rw [Bool.eq_iff_iff]
  simp [List.contains_iff_mem, mem_bitsOf]

theorem finalBit_append_single (j : Nat) (L : List (Bool × Nat)) (p : Bool × Nat) (bit : Bool) :
    finalBit j (L ++ [p]) bit = (if p.2 = j then p.1 else finalBit j L bit) := by
  induction L generalizing bit with
  | nil => rfl
  | cons q L ih => simp only [List.cons_append, finalBit]; exact ih _

theorem groupProg_append {α : Type} (a : Addr) (L1 L2 : List (Bool × Nat)) (k : Prog α) :
    groupProg a (L1 ++ L2) k = groupProg a L1 (groupProg a L2 k) := by
  simp [groupProg, List.foldr_append]

theorem groupOrder_perm (a : Addr) (hg : ∀ g, a = .group g → g < 16) :
    (groupOrder a).Perm (List.range 16) := by
  cases a with
  | group g =>
    have hg' : g ∈ List.range 16 := by simp [hg g rfl]
    simp only [groupOrder]
    exact (List.perm_append_comm.trans (List.perm_cons_erase hg').symm)
  | short n => exact List.Perm.refl _
  | broadcast => exact List.Perm.refl _
  | unaddressed => exact List.Perm.refl _

theorem groupOrder_split (a : Addr) :
    ∃ init last, groupOrder a = init ++ [last] ∧ ∀ g, a = .group g → g ∉ init := by
  cases a with
  | group g =>
    refine ⟨(List.range 16).erase g, g, rfl, ?_⟩
    intro g' hg'
    injection hg' with hg'
    subst hg'
    exact fun h => (List.Nodup.mem_erase_iff (List.nodup_range)).mp h |>.1 rfl
  | short n => exact ⟨List.range 15, 15, rfl, fun g h => by cases h⟩
  | broadcast => exact ⟨List.range 15, 15, rfl, fun g h => by cases h⟩
  | unaddressed => exact ⟨List.range 15, 15, rfl, fun g h => by cases h⟩

/-- an addressed unit after the full rewrite ends with every bit as the entry list says -/
theorem fold_group_last (a : Addr) (L : List (Bool × Nat)) (p : Bool × Nat) (u : Gear)
    (h : u.addressed a = true) (hsafe : ∀ q ∈ L, ∀ g, a = .group g → q.1 = false → q.2 ≠ g) (j : Nat) :
    (((L ++ [p]).map (gcmd a)).foldl Gear.execSt u).groups.testBit j
      = finalBit j (L ++ [p]) (u.groups.testBit j) := by
  obtain ⟨r1, r2⟩ := fold_group a L u h hsafe
  simp only [List.map_append, List.foldl_append, List.map_cons, List.map_nil, List.foldl_cons, List.foldl_nil,
    execSt_dt0 _ _ (gcmd_dt a p)]
  rw [(step_gcmd_addressed _ a p r1).2 j, r2 j, finalBit_append_single]

theorem mod_eq_of_bits (x req : Nat) (hreq : req < 65536)
    (h : ∀ j, j < 16 → x.testBit j = req.testBit j) : x % 65536 = req := by
  apply Nat.eq_of_testBit_eq
  intro j
  have : (65536 : Nat) = 2 ^ 16 := by decide
  rw [this, Nat.testBit_mod_two_pow]
  by_cases hj : j < 16
  · simp [hj, h j hj]
  · simp only [hj, decide_false, Bool.false_and]
    symm
    apply Nat.testBit_lt_two_pow
    calc req < 2 ^ 16 := by omega
      _ ≤ 2 ^ j := Nat.pow_le_pow_right (by decide) (by omega)

/-- the property's clauses for the full rewrite, on the trace and final state it produces -/
theorem fullBody (b : Bus) (a : Addr) (req : Nat) (hreq : req < 65536) (hg : ∀ g, a = .group g → g < 16) :
    let T := ((groupOrder a).map (fun i => ((bitsOf req).contains i, i))).map (gcmd a)
    let o : Out Bus Unit := ⟨.ret (), b.map (fun u => T.foldl Gear.execSt u), T⟩
    (o.res == .ret () && o.trace.length == 16 &&
    (o.trace.map (fun c => match c with
      | .addToGroup _ i => i | .removeFromGroup _ i => i | _ => 16)).isPerm (List.range 16) &&
    o.trace.all (fun c => match c with
      | .addToGroup a' i => a' == a && (bitsOf req).contains i
      | .removeFromGroup a' i => a' == a && i < 16 && !(bitsOf req).contains i
      | _ => false) &&
    groupsAfter b o.st (·.addressed a) req) = true := by
  intro T o
  have hperm := groupOrder_perm a hg
  simp only [Bool.and_eq_true]
  refine ⟨⟨⟨⟨rfl, ?_⟩, ?_⟩, ?_⟩, ?_⟩
  · simp [o, T, hperm.length_eq]
  · rw [List.isPerm_iff]
    have : o.trace.map (fun c => match c with
      | .addToGroup _ i => i | .removeFromGroup _ i => i | _ => 16) = groupOrder a := by
      simp only [o, T, List.map_map]
      conv => rhs; rw [← List.map_id (groupOrder a)]
      apply List.map_congr_left
      intro i _
      simp only [Function.comp, gcmd]
      by_cases hc : i ∈ bitsOf req <;> simp [hc]
    rw [this]; exact hperm
  · simp only [o, T, List.all_eq_true, List.mem_map]
    rintro c ⟨p, ⟨i, hi, rfl⟩, rfl⟩
    have hi16 : i < 16 := by simpa using hperm.mem_iff.mp hi
    simp only [gcmd]
    by_cases hc : i ∈ bitsOf req
    · simp [hc]
    · simp [hc, hi16]
  · simp only [groupsAfter, o, List.length_map, beq_self_eq_true, Bool.true_and, all_zip_map,
      List.all_eq_true]
    intro u hu
    by_cases hadd : u.addressed a = true
    · simp only [hadd, if_true, beq_iff_eq]
      obtain ⟨init, last, hsplit, hnot⟩ := groupOrder_split a
      apply mod_eq_of_bits _ _ hreq
      intro j hj
      have hT : T = ((init.map (fun i => ((bitsOf req).contains i, i))) ++
          [((bitsOf req).contains last, last)]).map (gcmd a) := by
        simp only [T, hsplit, List.map_append, List.map_cons, List.map_nil]
      rw [hT, fold_group_last a _ _ u hadd]
      · rw [← List.map_singleton (f := fun i => ((bitsOf req).contains i, i)), ← List.map_append, ← hsplit]
        have hv : finalBit j ((groupOrder a).map (fun i => ((bitsOf req).contains i, i)))
            (u.groups.testBit j) = (bitsOf req).contains j := by
          apply finalBit_mem
          · intro p hp hpj
            simp only [List.mem_map] at hp
            obtain ⟨i, _, rfl⟩ := hp
            simp only at hpj
            subst hpj; rfl
          · exact ⟨((bitsOf req).contains j, j),
              List.mem_map.mpr ⟨j, hperm.mem_iff.mpr (by simp [hj]), rfl⟩, rfl⟩
        rw [hv, contains_bitsOf]
        simp [hj]
      · intro q hq g hag _ hqg
        simp only [List.mem_map] at hq
        obtain ⟨i, hi, rfl⟩ := hq
        simp only at hqg
        subst hqg
        exact hnot _ hag hi
    · have hadd' : u.addressed a = false := by simpa using hadd
      simp only [hadd', Bool.false_eq_true, if_false, beq_iff_eq]
      exact fold_group_not a _ u hadd'

theorem setGroups_full (b : Bus) (a : Addr) (req : Nat) (hreq : req < 65536)
    (hns : ∀ n, a ≠ .short n) (hg : ∀ g, a = .group g → g < 16) (ord : List Nat → List Nat) :
    setGroupsPost b a req (runBus (setGroups (.addr a) (bitsOf req) ord) b) = true := by
  have hprog : setGroups (.addr a) (bitsOf req) ord
      = groupProg a ((groupOrder a).map (fun i => ((bitsOf req).contains i, i))) (.done ()) := by
    have : (Dest.addr a).isShortOrInt = false := by
      cases a with
      | short n => exact absurd rfl (hns n)
      | _ => rfl
    simp only [setGroups, this, withDest, Dest.resolve, groupProg, List.foldr_map]
    rfl
  have hperm := groupOrder_perm a hg
  have hlt : ∀ p ∈ (groupOrder a).map (fun i => ((bitsOf req).contains i, i)), p.2 < 16 := by
    intro p hp
    simp only [List.mem_map] at hp
    obtain ⟨i, hi, rfl⟩ := hp
    simpa using hperm.mem_iff.mp hi
  have hrun := run_groupProg Bus.exec a _ (.done ()) b hlt
  have hst := runBus_st (setGroups (.addr a) (bitsOf req) ord) b
  rw [hprog] at hst ⊢
  unfold runBus at hst ⊢
  rw [hrun] at hst ⊢
  simp only [Prog.run, List.append_nil] at hst ⊢
  rw [hst]
  cases a with
  | short n => exact absurd rfl (hns n)
  | group g => exact fullBody b (.group g) req hreq hg
  | broadcast => exact fullBody b .broadcast req hreq hg
  | unaddressed => exact fullBody b .unaddressed req hreq hg

theorem execSt_q07 (u : Gear) (a : Addr) : u.execSt (.queryGroups07 a) = u.tick := by
  simp [Gear.execSt, Cmd.devicetype, Gear.step]
theorem execSt_q815 (u : Gear) (a : Addr) : u.execSt (.queryGroups815 a) = u.tick := by
  simp [Gear.execSt, Cmd.devicetype, Gear.step]

/-- the property's clauses for the read-modify-write form, one unit at the address -/
theorem shortBody (b : Bus) (n : Nat) (req : Nat) (hreq : req < 65536) (u : Gear)
    (hf : b.filter (·.addressed (.short n)) = [u])
    (ord : List Nat → List Nat) (hord : ∀ l, (ord l).Perm l) :
    let a := Addr.short n
    let cur := bitsOf u.groups
    let adds := (bitsOf req).filter (fun i => !cur.contains i)
    let rems := cur.filter (fun i => !(bitsOf req).contains i)
    let L := (ord adds).map (fun i => (true, i)) ++ (ord rems).map (fun i => (false, i))
    let T := [Cmd.queryGroups07 a, Cmd.queryGroups815 a] ++ L.map (gcmd a)
    let o : Out Bus Unit := ⟨.ret (), b.map (fun u => T.foldl Gear.execSt u), T⟩
    (o.res == .ret () &&
       o.trace.take 2 == [.queryGroups07 a, .queryGroups815 a] &&
       ((o.trace.drop 2).take adds.length).isPerm (adds.map (Cmd.addToGroup a)) &&
       ((o.trace.drop 2).drop adds.length).isPerm (rems.map (Cmd.removeFromGroup a)) &&
       groupsAfter b o.st (·.addressed a) req) = true := by
  intro a cur adds rems L T o
  have hla : ((ord adds).map (fun i => gcmd a (true, i))).length = adds.length := by
    simp [(hord adds).length_eq]
  have hdrop : o.trace.drop 2 = (ord adds).map (fun i => gcmd a (true, i)) ++
      (ord rems).map (fun i => gcmd a (false, i)) := by
    simp [o, T, L, List.map_append, List.map_map, Function.comp_def]
  simp only [Bool.and_eq_true]
  refine ⟨⟨⟨⟨rfl, by simp [o, T]⟩, ?_⟩, ?_⟩, ?_⟩
  · rw [hdrop, List.take_left' hla, List.isPerm_iff]
    exact (hord adds).map _
  · rw [hdrop, List.drop_left' hla, List.isPerm_iff]
    exact (hord rems).map _
  · simp only [groupsAfter, o, List.length_map, beq_self_eq_true, Bool.true_and, all_zip_map,
      List.all_eq_true]
    intro u0 hu0
    have hT : T.foldl Gear.execSt u0 = (L.map (gcmd a)).foldl Gear.execSt u0.tick := by
      simp [T, List.foldl_append, execSt_q07, execSt_q815, tick_tick]
    rw [hT]
    by_cases hadd : u0.addressed a = true
    · simp only [hadd, if_true, beq_iff_eq]
      have hu : u0 = u := by
        have : u0 ∈ b.filter (·.addressed a) := List.mem_filter.mpr ⟨hu0, hadd⟩
        rw [hf] at this; simpa using this
      subst hu
      obtain ⟨_, hbits⟩ := fold_group a L u0.tick (by rw [tick_addressed]; exact hadd)
        (fun _ _ g hg => Addr.noConfusion hg)
      apply mod_eq_of_bits _ _ hreq
      intro j hj
      rw [hbits j, tick_groups]
      have hmemA : ∀ i, i ∈ ord adds ↔ (i < 16 ∧ req.testBit i = true) ∧ ¬ u0.groups.testBit i = true := by
        intro i
        rw [(hord adds).mem_iff]
        simp only [adds, cur, List.mem_filter, mem_bitsOf, contains_bitsOf]
        by_cases h16 : i < 16 <;> simp [h16]
      have hmemR : ∀ i, i ∈ ord rems ↔ (i < 16 ∧ u0.groups.testBit i = true) ∧ ¬ req.testBit i = true := by
        intro i
        rw [(hord rems).mem_iff]
        simp only [rems, cur, List.mem_filter, mem_bitsOf, contains_bitsOf]
        by_cases h16 : i < 16 <;> simp [h16]
      by_cases hr : req.testBit j = true
      · by_cases hc : u0.groups.testBit j = true
        · rw [finalBit_not_mem, hc, hr]
          intro p hp hpj
          simp only [L, List.mem_append, List.mem_map] at hp
          rcases hp with ⟨i, hi, rfl⟩ | ⟨i, hi, rfl⟩
          · simp only at hpj; subst hpj; exact ((hmemA _).mp hi).2 hc
          · simp only at hpj; subst hpj; exact ((hmemR _).mp hi).2 hr
        · rw [finalBit_mem j true, hr]
          · intro p hp hpj
            simp only [L, List.mem_append, List.mem_map] at hp
            rcases hp with ⟨i, hi, rfl⟩ | ⟨i, hi, rfl⟩
            · rfl
            · simp only at hpj; subst hpj; exact absurd hr ((hmemR _).mp hi).2
          · exact ⟨(true, j), by
              simp only [L, List.mem_append, List.mem_map]
              exact Or.inl ⟨j, (hmemA j).mpr ⟨⟨hj, hr⟩, hc⟩, rfl⟩, rfl⟩
      · have hr' : req.testBit j = false := by simpa using hr
        by_cases hc : u0.groups.testBit j = true
        · rw [finalBit_mem j false, hr']
          · intro p hp hpj
            simp only [L, List.mem_append, List.mem_map] at hp
            rcases hp with ⟨i, hi, rfl⟩ | ⟨i, hi, rfl⟩
            · simp only at hpj; subst hpj; exact absurd ((hmemA _).mp hi).1.2 hr
            · rfl
          · exact ⟨(false, j), by
              simp only [L, List.mem_append, List.mem_map]
              exact Or.inr ⟨j, (hmemR j).mpr ⟨⟨hj, hc⟩, hr⟩, rfl⟩, rfl⟩
        · have hc' : u0.groups.testBit j = false := by simpa using hc
          rw [finalBit_not_mem, hc', hr']
          intro p hp hpj
          simp only [L, List.mem_append, List.mem_map] at hp
          rcases hp with ⟨i, hi, rfl⟩ | ⟨i, hi, rfl⟩
          · simp only at hpj; subst hpj; exact hr ((hmemA _).mp hi).1.2
          · simp only at hpj; subst hpj; exact hc ((hmemR _).mp hi).1.2
    · have hadd' : u0.addressed a = false := by simpa using hadd
      simp only [hadd', Bool.false_eq_true, if_false, beq_iff_eq]
      rw [fold_group_not a L u0.tick (by rw [tick_addressed]; exact hadd'), tick_groups]

theorem setGroups_short (b : Bus) (n : Nat) (req : Nat) (hreq : req < 65536)
    (ord : List Nat → List Nat) (hord : ∀ l, (ord l).Perm l) :
    setGroupsPost b (.short n) req (runBus (setGroups (.addr (.short n)) (bitsOf req) ord) b) = true := by
  obtain ⟨q1, q2⟩ := queryGroups_run b (.short n)
  have hst := runBus_st (setGroups (.addr (.short n)) (bitsOf req) ord) b
  have hprog : setGroups (.addr (.short n)) (bitsOf req) ord =
      (queryGroups (.addr (.short n))).bind fun existing =>
        groupProg (.short n)
          ((ord ((bitsOf req).filter (fun i => !existing.contains i))).map (fun i => (true, i)) ++
           (ord (existing.filter (fun i => !(bitsOf req).contains i))).map (fun i => (false, i))) (.done ()) := by
    simp only [setGroups, Dest.isShortOrInt, if_true, withDest, Dest.resolve, groupCmds_eq, groupProg_append]
  rw [hprog] at hst ⊢
  unfold runBus at hst q1 q2 ⊢
  rw [run_bind] at hst ⊢
  cases hf : b.filter (·.addressed (.short n)) with
  | nil =>
    obtain ⟨r1, r2, r3⟩ := q2 (fun u => by rw [hf]; simp)
    simp only [r1, r2, r3, setGroupsPost, hf]
    simp [isDSE, groupsUnchanged, tick_groups]
  | cons u rest =>
    cases rest with
    | cons u2 r2' =>
      obtain ⟨r1, r2, r3⟩ := q2 (fun u => by rw [hf]; simp)
      simp only [r1, r2, r3, setGroupsPost, hf]
      simp [isDSE, groupsUnchanged, tick_groups]
    | nil =>
      obtain ⟨r1, r2, r3⟩ := q1 u hf
      have hlt : ∀ p ∈ (ord ((bitsOf req).filter (fun i => !(bitsOf u.groups).contains i))).map (fun i => (true, i)) ++
           (ord ((bitsOf u.groups).filter (fun i => !(bitsOf req).contains i))).map (fun i => (false, i)),
           p.2 < 16 := by
        intro p hp
        simp only [List.mem_append, List.mem_map] at hp
        rcases hp with ⟨i, hi, rfl⟩ | ⟨i, hi, rfl⟩
        · have := (hord _).mem_iff.mp hi
          simp only [List.mem_filter, mem_bitsOf] at this
          exact this.1.1
        · have := (hord _).mem_iff.mp hi
          simp only [List.mem_filter, mem_bitsOf] at this
          exact this.1.1
      simp only [r1, r2, r3] at hst ⊢
      rw [run_groupProg Bus.exec (.short n) _ (.done ()) _ hlt] at hst ⊢
      simp only [Prog.run, List.append_nil] at hst ⊢
      rw [hst]
      have := shortBody b n req hreq u hf ord hord
      simp only [setGroupsPost, hf]
      exact this

end DaliVerif.GearSeq
