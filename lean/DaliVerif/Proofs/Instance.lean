import DaliVerif.Proofs.Address
import DaliVerif.Proofs.FrameOps
/-!
# Helper lemmas for C04: the instance byte
-/
set_option linter.unusedSimpArgs false
namespace DaliVerif
open Frame Spec

namespace Inst

/-- the model's classification written on the byte `B = bits 15..8` -/
def ofByteModel (B : Nat) : Inst :=
  let flags := B / 32
  let p := B % 32
  if flags == 0 then number p
  else if flags == 4 then group p
  else if flags == 6 then type p
  else if flags == 1 then featNumber p
  else if flags == 5 then featGroup p
  else if flags == 3 then featType p
  else if B == 0xFD then featBroadcast
  else if B == 0xFF then broadcast
  else if B == 0xFC then featDevice
  else if B == 0xFE then device
  else reserved B

theorem ofByteModel_eq_spec : ∀ B : Fin 256, ofByteModel B.val = instOfByte B.val := by
  decide +kernel

theorem fromFrame_eq_ofByteModel (d : Nat) :
    fromFrame ⟨24, d⟩ = some (ofByteModel (d / 256 % 256)) := by
  have h1 : d / 8192 % 8 = d / 256 % 256 / 32 := by omega
  have h2 : d / 256 % 32 = d / 256 % 256 % 32 := by omega
  simp only [fromFrame, bne_self_eq_false, Bool.false_eq_true, if_false, getSliceRaw_eq,
    Nat.reducePow, Nat.reduceAdd, Nat.reduceSub, ofByteModel, h1, h2]

/-- the byte of a valid instance object fits 8 bits -/
theorem byte_lt (i : Inst) (hv : i.Valid) : i.byte < 256 := by
  cases i <;> simp only [byte, Valid] at * <;> try omega
  all_goals
    rename_i n
    exact Nat.or_lt_two_pow (n := 8) (by decide) (by omega)

/-- an instance object as decoding produces it: numbers within 0..31 and a
`reserved` byte only for the bytes the standard reserves -/
def Canonical (i : Inst) : Prop :=
  i.Valid ∧ (∀ b, i = reserved b → instOfByte b = reserved b)

theorem ofByteModel_numbered : ∀ n : Fin 32,
    ofByteModel (number n.val).byte = number n.val ∧ ofByteModel (group n.val).byte = group n.val ∧
    ofByteModel (type n.val).byte = type n.val ∧
    ofByteModel (featNumber n.val).byte = featNumber n.val ∧
    ofByteModel (featGroup n.val).byte = featGroup n.val ∧
    ofByteModel (featType n.val).byte = featType n.val := by
  decide +kernel

theorem ofByteModel_byte (i : Inst) (hc : i.Canonical) : ofByteModel i.byte = i := by
  obtain ⟨hv, hr⟩ := hc
  cases i with
  | number n => exact (ofByteModel_numbered ⟨n, by simp [Valid] at hv; omega⟩).1
  | group n => exact (ofByteModel_numbered ⟨n, by simp [Valid] at hv; omega⟩).2.1
  | type n => exact (ofByteModel_numbered ⟨n, by simp [Valid] at hv; omega⟩).2.2.1
  | featNumber n => exact (ofByteModel_numbered ⟨n, by simp [Valid] at hv; omega⟩).2.2.2.1
  | featGroup n => exact (ofByteModel_numbered ⟨n, by simp [Valid] at hv; omega⟩).2.2.2.2.1
  | featType n => exact (ofByteModel_numbered ⟨n, by simp [Valid] at hv; omega⟩).2.2.2.2.2
  | featBroadcast => decide
  | broadcast => decide
  | featDevice => decide
  | device => decide
  | reserved b =>
    have hb : b < 256 := by simp [Valid] at hv; omega
    have := hr b rfl
    rw [← ofByteModel_eq_spec ⟨b, hb⟩] at this
    exact this

end Inst
end DaliVerif

namespace DaliVerif
open Frame Spec
namespace Inst

/-- writing an instance byte, in arithmetic form -/
theorem addToFrame_ok (i : Inst) (hb : i.byte < 256) (d : Nat) (hd : d < 2 ^ 24) :
    i.addToFrame ⟨24, d⟩ = .ok ⟨24, setSliceA d 15 8 i.byte⟩ := by
  have hb' : i.byte < 2 ^ (15 + 1 - 8) := by simpa using hb
  have hvc := (value_checks (i.byte : Int) (15 + 1 - 8)).mpr
    ⟨Int.natCast_nonneg _, by exact_mod_cast hb'⟩
  have hrs : (⟨24, d⟩ : Frame).readSlice (.int 15) (.int 8) .none = .ok (15, 8) := by
    simp only [Frame.readSlice, PyVal.asInt?]; rfl
  simp only [Inst.addToFrame, bne_self_eq_false, Bool.false_eq_true, if_false, Frame.setItem,
    hrs, PyVal.asInt?, bind, Except.bind]
  have h1 : ¬ (bitLength (i.byte : Int) > 15 + 1 - 8) := hvc.1
  have h2 : ¬ ((i.byte : Int) < 0) := hvc.2
  simp only [h1, h2, if_false, pure, Except.pure, Int.toNat_natCast]
  rw [setSliceRaw_eqA 24 d 15 8 _ (by omega) (by omega) hd hb']

theorem byte_ofByteModel : ∀ B : Fin 256, (ofByteModel B.val).byte = B.val := by
  decide +kernel

end Inst
end DaliVerif
