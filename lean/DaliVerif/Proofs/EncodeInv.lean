import DaliVerif.Proofs.EventLegal
/-!
# Every frame a command / event constructor assembles is a well-formed bit vector

`Cmd.encode` (the constructors' frame assembly) only uses `Frame.new`,
`__setitem__` and the `add_to_frame` of address / instance objects; each of
these establishes or preserves the `Frame` invariant of C05 (`1 ≤ bits`,
`data < 2^bits`).  So the frame handed to a driver always is a value the
drivers' wire encoders (C18) are specified for.
-/
set_option linter.unusedSimpArgs false
namespace DaliVerif.Cmd
open Frame Spec

theorem setItem_inv (f f' : Frame) (k : Key) (v : PyVal) (hf : Frame.Inv f)
    (h : f.setItem k v = .ok f') : Frame.Inv f' ∧ f'.bits = f.bits := by
  have := (Props.C05.apply_refines f hf (.setItem k v) trivial).2 f' .unit
  apply this
  simp [Frame.apply, h, bind, Except.bind, pure, Except.pure]

theorem setSlice_inv' (f f' : Frame) (hi lo : Nat) (v : Int) (hf : Frame.Inv f)
    (h : setSlice f hi lo v = .ok f') : Frame.Inv f' ∧ f'.bits = f.bits :=
  setItem_inv f f' _ _ hf h

theorem setBit_inv' (f f' : Frame) (k : Nat) (b : Bool) (hf : Frame.Inv f)
    (h : setBit f k b = .ok f') : Frame.Inv f' ∧ f'.bits = f.bits :=
  setItem_inv f f' _ _ hf h

theorem newFrame_inv (n x : Nat) (f : Frame) (h : newFrame n x = .ok f) : Frame.Inv f ∧ f.bits = n :=
  ⟨Props.C05.new_inv h, newFrame_bits n x f h⟩

theorem frameNew_bits (n : Nat) (d : PyVal) (f : Frame) (h : Frame.new (natVal n) d = .ok f) : f.bits = n := by
  unfold Frame.new natVal at h
  simp only [PyVal.asInt?] at h
  split at h
  · contradiction
  · split at h
    · contradiction
    · split at h
      · contradiction
      · split at h
        · contradiction
        · injection h with h; rw [← h]; simp

theorem addr_addToFrame_inv (a : Addr) (f f' : Frame) (hf : Frame.Inv f) (hv : a.Valid)
    (h : a.addToFrame f = .ok f') : Frame.Inv f' ∧ f'.bits = f.bits := by
  have hk := addToFrame_ok_kind a f f' h
  unfold Addr.addToFrame at h
  split at h
  · contradiction
  · injection h with h
    subst h
    refine ⟨⟨hf.1, ?_⟩, rfl⟩
    obtain ⟨hb, hd⟩ := hf
    cases a <;> simp only [Addr.frameSize, Addr.isGear, if_true, if_false, Bool.false_eq_true] at hk <;>
      simp only [Addr.Valid] at hv
    all_goals first
      | (apply setSliceRaw_lt <;> first | omega | (rw [hk]; omega) | exact hd | (simp; omega) |
          (apply setSliceRaw_lt <;> first | omega | (rw [hk]; omega) | exact hd | (simp; omega)) |
          (apply setBitRaw_lt <;> first | omega | (rw [hk]; omega) | exact hd))

end DaliVerif.Cmd

namespace DaliVerif.Cmd
open Frame Spec

theorem inst_addToFrame_inv (i : Inst) (f f' : Frame) (hf : Frame.Inv f)
    (h : i.addToFrame f = .ok f') : Frame.Inv f' ∧ f'.bits = f.bits := by
  unfold Inst.addToFrame at h
  split at h
  · contradiction
  · exact setItem_inv f f' _ _ hf h

theorem eventSrcToFrame_frameInv (f f' : Frame) (t : Int) (src : EventSrc) (hf : Frame.Inv f)
    (h : eventSrcToFrame f t src = .ok f') : Frame.Inv f' ∧ f'.bits = f.bits := by
  cases src with
  | device sa =>
    simp only [eventSrcToFrame] at h
    obtain ⟨f1, h1, h⟩ := bind_ok _ _ _ h
    obtain ⟨f2, h2, h⟩ := bind_ok _ _ _ h
    obtain ⟨f3, h3, h⟩ := bind_ok _ _ _ h
    obtain ⟨a, h4, h⟩ := bind_ok _ _ _ h
    have i1 := setSlice_inv' _ _ _ _ _ hf h1
    have i2 := setBit_inv' _ _ _ _ i1.1 h2
    have i3 := setBit_inv' _ _ _ _ i2.1 h3
    have i4 := mkDeviceShort_inv sa a h4
    have i5 := addr_addToFrame_inv a f3 f' i3.1 (by rw [i4.2]; exact i4.1) h
    exact ⟨i5.1, by omega⟩
  | deviceInstance sa inum =>
    simp only [eventSrcToFrame] at h
    obtain ⟨f1, h1, h⟩ := bind_ok _ _ _ h
    obtain ⟨f2, h2, h⟩ := bind_ok _ _ _ h
    obtain ⟨f3, h3, h⟩ := bind_ok _ _ _ h
    obtain ⟨a, h4, h⟩ := bind_ok _ _ _ h
    have i1 := setSlice_inv' _ _ _ _ _ hf h1
    have i2 := setBit_inv' _ _ _ _ i1.1 h2
    have i3 := setBit_inv' _ _ _ _ i2.1 h3
    have i4 := mkDeviceShort_inv sa a h4
    have i5 := addr_addToFrame_inv a f3 f' i3.1 (by rw [i4.2]; exact i4.1) h
    exact ⟨i5.1, by omega⟩
  | deviceGroup g =>
    simp only [eventSrcToFrame] at h
    obtain ⟨f1, h1, h⟩ := bind_ok _ _ _ h
    obtain ⟨f2, h2, h⟩ := bind_ok _ _ _ h
    obtain ⟨f3, h3, h⟩ := bind_ok _ _ _ h
    obtain ⟨f4, h4, h⟩ := bind_ok _ _ _ h
    have i1 := setSlice_inv' _ _ _ _ _ hf h1
    have i2 := setSlice_inv' _ _ _ _ _ i1.1 h2
    have i3 := setBit_inv' _ _ _ _ i2.1 h3
    have i4 := setBit_inv' _ _ _ _ i3.1 h4
    have i5 := setBit_inv' _ _ _ _ i4.1 h
    exact ⟨i5.1, by omega⟩
  | instanceGroup g =>
    simp only [eventSrcToFrame] at h
    obtain ⟨f1, h1, h⟩ := bind_ok _ _ _ h
    obtain ⟨f2, h2, h⟩ := bind_ok _ _ _ h
    obtain ⟨f3, h3, h⟩ := bind_ok _ _ _ h
    obtain ⟨f4, h4, h⟩ := bind_ok _ _ _ h
    have i1 := setSlice_inv' _ _ _ _ _ hf h1
    have i2 := setSlice_inv' _ _ _ _ _ i1.1 h2
    have i3 := setBit_inv' _ _ _ _ i2.1 h3
    have i4 := setBit_inv' _ _ _ _ i3.1 h4
    have i5 := setBit_inv' _ _ _ _ i4.1 h
    exact ⟨i5.1, by omega⟩
  | inst inum =>
    simp only [eventSrcToFrame] at h
    obtain ⟨f1, h1, h⟩ := bind_ok _ _ _ h
    obtain ⟨f2, h2, h⟩ := bind_ok _ _ _ h
    obtain ⟨f3, h3, h⟩ := bind_ok _ _ _ h
    obtain ⟨f4, h4, h⟩ := bind_ok _ _ _ h
    have i1 := setSlice_inv' _ _ _ _ _ hf h1
    have i2 := setSlice_inv' _ _ _ _ _ i1.1 h2
    have i3 := setBit_inv' _ _ _ _ i2.1 h3
    have i4 := setBit_inv' _ _ _ _ i3.1 h4
    have i5 := setBit_inv' _ _ _ _ i4.1 h
    exact ⟨i5.1, by omega⟩

/-- the address objects inside a command object are validly constructed
(Python: they are `Address` instances, whose constructors check the range);
the three catch-all classes carry a frame that was itself well formed -/
def ObjOK : Cmd → Prop
  | .generic b d => 1 ≤ b ∧ d < 2 ^ b
  | .unknownGear d => d < 2 ^ 16
  | .unknownDevice d => d < 2 ^ 24
  | .dapc a _ | .standard _ a _ | .devStd _ a | .devInst _ a _ => a.Valid
  | _ => True

set_option hygiene false in
/-- strip leading binds of the hypothesis `h` whose results are not needed -/
macro "peel" : tactic => `(tactic|
  first
  | exact Props.C05.new_inv h
  | (obtain ⟨_, _, h⟩ := bind_ok _ _ _ h
     first
     | exact Props.C05.new_inv h
     | (obtain ⟨_, _, h⟩ := bind_ok _ _ _ h
        first
        | exact Props.C05.new_inv h
        | (obtain ⟨_, _, h⟩ := bind_ok _ _ _ h
           exact Props.C05.new_inv h))))

/-- **Every constructed command's frame is a well-formed bit vector** of its
family's width: whatever `encode` returns satisfies C05's `Frame` invariant. -/
theorem encode_inv (c : Cmd) (f : Frame) (ho : ObjOK c) (h : encode c = .ok f) : Frame.Inv f := by
  cases c with
  | generic b d => simp only [encode] at h; injection h with h; subst h; exact ho
  | unknownGear d =>
    simp only [encode] at h; injection h with h; subst h; exact ⟨by show 1 ≤ 16; omega, ho⟩
  | unknownDevice d =>
    simp only [encode] at h; injection h with h; subst h; exact ⟨by show 1 ≤ 24; omega, ho⟩
  | dapc a p =>
    simp only [encode] at h
    obtain ⟨_, _, h⟩ := bind_ok _ _ _ h
    obtain ⟨f0, h0, h⟩ := bind_ok _ _ _ h
    exact (addr_addToFrame_inv a f0 f (newFrame_inv _ _ _ h0).1 ho h).1
  | standard c a p =>
    simp only [encode] at h
    split at h
    · obtain ⟨_, _, h⟩ := bind_ok _ _ _ h
      obtain ⟨f0, h0, h⟩ := bind_ok _ _ _ h
      exact (addr_addToFrame_inv a f0 f (newFrame_inv _ _ _ h0).1 ho h).1
    · obtain ⟨f0, h0, h⟩ := bind_ok _ _ _ h
      exact (addr_addToFrame_inv a f0 f (newFrame_inv _ _ _ h0).1 ho h).1
  | special c p =>
    simp only [encode] at h
    split at h
    · obtain ⟨_, _, h⟩ := bind_ok _ _ _ h
      exact Props.C05.new_inv h
    · exact Props.C05.new_inv h
  | shortSpecial c a =>
    cases a with
    | none =>
      simp only [encode] at h
      obtain ⟨_, _, h⟩ := bind_ok _ _ _ h
      exact Props.C05.new_inv h
    | some a =>
      simp only [encode] at h
      obtain ⟨_, _, h⟩ := bind_ok _ _ _ h
      obtain ⟨_, _, h⟩ := bind_ok _ _ _ h
      exact Props.C05.new_inv h
  | initialise c b a =>
    simp only [encode] at h
    split at h
    · obtain ⟨_, hx, _⟩ := bind_ok _ _ _ h
      cases hx
    · split at h <;> peel
  | devStd c a =>
    simp only [encode] at h
    obtain ⟨f0, h0, h⟩ := bind_ok _ _ _ h
    exact (addr_addToFrame_inv a f0 f (newFrame_inv _ _ _ h0).1 ho h).1
  | devInst c a i =>
    simp only [encode] at h
    obtain ⟨f0, h0, h⟩ := bind_ok _ _ _ h
    obtain ⟨f1, h1, h⟩ := bind_ok _ _ _ h
    have i1 := addr_addToFrame_inv a f0 f1 (newFrame_inv _ _ _ h0).1 ho h1
    exact (inst_addToFrame_inv i f1 f i1.1 h).1
  | devSpecial c p1 p2 =>
    simp only [encode] at h
    split at h <;> peel
  | event cls t src body =>
    simp only [encode] at h
    obtain ⟨f0, h0, h⟩ := bind_ok _ _ _ h
    obtain ⟨f1, h1, h⟩ := bind_ok _ _ _ h
    have i1 := eventSrcToFrame_frameInv f0 f1 t src (newFrame_inv _ _ _ h0).1 h1
    cases body with
    | pushbutton pc => simp only [pure, Except.pure] at h; injection h with h; subst h; exact i1.1
    | occupancy a b c d =>
      simp only at h
      obtain ⟨g1, e1, h⟩ := bind_ok _ _ _ h
      obtain ⟨g2, e2, h⟩ := bind_ok _ _ _ h
      obtain ⟨g3, e3, h⟩ := bind_ok _ _ _ h
      have j1 := setBit_inv' _ _ _ _ i1.1 e1
      have j2 := setBit_inv' _ _ _ _ j1.1 e2
      have j3 := setBit_inv' _ _ _ _ j2.1 e3
      exact (setItem_inv _ _ _ _ j3.1 h).1
    | light v => exact (setSlice_inv' _ _ _ _ _ i1.1 h).1
    | unknown d => exact (setSlice_inv' _ _ _ _ _ i1.1 h).1
  | unknownEvent t src data =>
    simp only [encode] at h
    obtain ⟨f0, h0, h⟩ := bind_ok _ _ _ h
    obtain ⟨f1, h1, h⟩ := bind_ok _ _ _ h
    have i1 := eventSrcToFrame_frameInv f0 f1 t src (newFrame_inv _ _ _ h0).1 h1
    exact (setSlice_inv' _ _ _ _ _ i1.1 h).1
  | ambiguous sa inum data =>
    simp only [encode] at h
    obtain ⟨f0, h0, h⟩ := bind_ok _ _ _ h
    obtain ⟨f1, h1, h⟩ := bind_ok _ _ _ h
    have i1 := eventSrcToFrame_frameInv f0 f1 _ _ (newFrame_inv _ _ _ h0).1 h1
    exact (setSlice_inv' _ _ _ _ _ i1.1 h).1

end DaliVerif.Cmd
