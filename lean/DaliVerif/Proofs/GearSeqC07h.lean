import DaliVerif.Proofs.GearSeqC07g
/-!
# C07, part h: termination

`outer_terminates` / `commissioning_terminates`: if the participants' random addresses after `k + 1` RANDOMISE
commands (`randAfter`, read off each unit's draw stream) are pairwise distinct and `k < rounds`, the model's
budget of `rounds` RANDOMISE rounds is not exhausted — round `k + 1` at the latest is clash-free, because the
units still ENABLED then are among the participants and the inner loop leaves random addresses alone.
-/
namespace DaliVerif.GearSeq
set_option linter.unusedSimpArgs false
set_option linter.unusedVariables false

/-! ## Termination: once the draws of some round are pairwise distinct, that round has no clash -/

/-- the random address a unit in initialisation mode holds after `k` more RANDOMISE commands
(a unit whose draw stream is exhausted keeps its random address) -/
def randAfter : Nat → Nat → List Nat → Nat
  | 0, r, _ => r
  | _ + 1, r, [] => r
  | k + 1, _, d :: ds => randAfter k d ds

/-- the random addresses, `k` RANDOMISE commands from now, of the units in initialisation mode -/
def sepList (k : Nat) (L : List V) : List Nat :=
  (L.filter (fun v => v.init != .disabled)).map (fun v => randAfter k v.random v.draws)

theorem sepList_cons (k : Nat) (v : V) (L : List V) :
    sepList k (v :: L) = if v.init = .disabled then sepList k L
      else randAfter k v.random v.draws :: sepList k L := by
  unfold sepList
  by_cases h : v.init = .disabled
  · simp [List.filter_cons, h]
  · simp [List.filter_cons, h]

theorem sepList_rand (k : Nat) (L : List V) : sepList k (L.map V.rand) = sepList (k + 1) L := by
  induction L with
  | nil => rfl
  | cons v L ih =>
    rw [List.map_cons, sepList_cons, sepList_cons, ih]
    by_cases h : v.init = .disabled
    · simp [V.rand, h]
    · have e : (V.rand v).init = v.init := by
        simp only [V.rand, h, if_false]; split <;> rfl
      rw [e]
      simp only [h, if_false]
      congr 1
      simp only [V.rand, h, if_false]
      cases hd : v.draws with
      | nil => cases k <;> simp [randAfter, hd]
      | cons d ds => simp [randAfter, hd]

theorem sepList_congr (k : Nat) (f h : Gear → V) (b : List Gear)
    (hyp : ∀ u ∈ b, ((f u).init = .disabled ↔ (h u).init = .disabled) ∧ (f u).random = (h u).random ∧
      (f u).draws = (h u).draws) : sepList k (b.map f) = sepList k (b.map h) := by
  induction b with
  | nil => rfl
  | cons u b ih =>
    rw [List.map_cons, List.map_cons, sepList_cons, sepList_cons,
      ih (fun w hw => hyp w (List.mem_cons_of_mem _ hw))]
    obtain ⟨a1, a2, a3⟩ := hyp u (List.mem_cons_self ..)
    by_cases hd : (h u).init = .disabled
    · simp [hd, a1.mpr hd]
    · have : ¬ (f u).init = .disabled := fun x => hd (a1.mp x)
      simp [hd, this, a2, a3]

theorem enRV_sublist_sep (L : List V) : (enRV L).Sublist (sepList 0 L) := by
  induction L with
  | nil => exact List.Sublist.slnil
  | cons v L ih =>
    rw [sepList_cons]
    simp only [enRV, List.filterMap_cons] at ih ⊢
    by_cases he : v.init = .enabled
    · have : ¬ v.init = .disabled := by rw [he]; decide
      simp only [he, if_true, this, if_false, randAfter]
      exact List.Sublist.cons_cons _ ih
    · simp only [he, if_false]
      split
      · exact ih
      · exact List.Sublist.cons _ ih

theorem sepList_inner {α : Type} (dry : Bool) (k : Nat) (p : Prog α) (b : Bus)
    (h : ∀ c ∈ (runBus p b).trace, IsInner dry c) : sepList k (view (runBus p b).st) = sepList k (view b) := by
  rw [runBus_st]
  simp only [view, List.map_map]
  apply sepList_congr
  intro u _
  obtain ⟨a1, a2, _, _, a5⟩ := fold_inner_fields dry _ h u
  exact ⟨a5, a1, a2⟩

theorem outer_terminates (dry : Bool) : ∀ (rounds : Nat) (avail : List Nat) (handed : List (Nat × Nat)) (b : Bus)
    (k : Nat), WF (view b) → k < rounds → (sepList (k + 1) (view b)).Nodup →
    (runBus (outer dry rounds avail handed) b).res ≠ .outOfFuel := by
  intro rounds
  induction rounds with
  | zero => intro _ _ _ k _ h _; omega
  | succ rounds ih =>
    intro avail handed b k hwf hk hsep
    rw [outer, runBus_tell, runBus_note]
    have hv1 := view_randomise b
    have hwf1 : WF (view (Bus.exec b .randomise).2) := by rw [hv1]; exact rand_WF _ hwf
    have hsep1 : (sepList k (view (Bus.exec b .randomise).2)).Nodup := by rw [hv1, sepList_rand]; exact hsep
    have P := inner_bus dry (HIGH + 2) 0 avail handed (Bus.exec b .randomise).2 (Nat.zero_le _) (by omega)
      (WF_enRV _ hwf1)
    have hcls := (inner_only dry (HIGH + 2) 0 avail handed).trace Bus.exec (Bus.exec b .randomise).2
    have hkeep := inner_keeps dry (inner dry (HIGH + 2) 0 avail handed) (Bus.exec b .randomise).2 hcls
    have hsi : ∀ j, sepList j (view (runBus (inner dry (HIGH + 2) 0 avail handed) (Bus.exec b .randomise).2).st) =
        sepList j (view (Bus.exec b .randomise).2) := fun j => sepList_inner dry j _ _ hcls
    simp only [runBus] at P hkeep hsi ⊢
    rw [run_bind]
    generalize ((inner dry (HIGH + 2) 0 avail handed).run Bus.exec (Bus.exec b .randomise).2) = o1 at P hkeep hsi ⊢
    cases hres : o1.res with
    | ret r =>
      dsimp only
      match r, hres with
      | .clash av' h', hres =>
        dsimp only
        cases k with
        | zero =>
          exact absurd hres (P.noclash ((enRV_sublist_sep _).nodup hsep1) av' h')
        | succ k' =>
          have := ih av' h' o1.st k' (hkeep.1 hwf1) (by omega) (by rw [hsi]; exact hsep1)
          simp only [runBus] at this
          exact this
      | .finished av' h', hres => simp [Prog.run]
    | raised e => simp
    | outOfFuel => exact absurd hres P.nofuel


/-- the random addresses of the participants `k` RANDOMISE commands from now -/
def partRand (re : Bool) (k : Nat) (L : List V) : List Nat :=
  (L.filter (fun v => re || v.short.isNone)).map (fun v => randAfter k v.random v.draws)

theorem sepList_start (re : Bool) (k : Nat) (L : List V) : sepList k (L.map (startV re)) = partRand re k L := by
  induction L with
  | nil => rfl
  | cons v L ih =>
    rw [List.map_cons, sepList_cons, ih]
    obtain ⟨f1, f2, _⟩ := start_fields re v
    rw [start_init, f1, f2]
    unfold partRand
    by_cases h : (re || v.short.isNone) = true
    · simp [h, List.filter_cons]
    · simp [h, List.filter_cons]

theorem partRand_unaddr (k : Nat) (L : List V) : partRand true k (L.map V.unaddr) = partRand true k L := by
  simp [partRand, List.filter_map, V.unaddr, Function.comp_def]

theorem partRand_view (re : Bool) (k : Nat) (b : Bus) :
    partRand re k (view b) =
      (b.filter (fun u => re || u.short.isNone)).map (fun u => randAfter k u.random u.draws) := by
  simp [partRand, view, List.filter_map, Gear.v, Function.comp_def]

theorem body_terminates (rounds : Nat) (re dry : Bool) (av : List Nat) (b1 : Bus) (k : Nat) (hwf : WF (view b1))
    (hk : k < rounds) (hsep : (partRand re (k + 1) (view b1)).Nodup) :
    (runBus (commBody rounds re dry av) b1).res ≠ .outOfFuel := by
  unfold commBody
  rw [runBus_tell, runBus_tell]
  have hv3 := view_start re b1
  have hwf3 : WF (view (Bus.exec (Bus.exec b1 .terminate).2 (.initialise (if re then 0x00 else 0xFF))).2) := by
    rw [hv3]
    intro v hv
    simp only [List.mem_map] at hv
    obtain ⟨w, hw, rfl⟩ := hv
    obtain ⟨f1, f2, _⟩ := start_fields re w
    have := hwf w hw
    simp only [WFv] at this ⊢
    rw [f1, f2]; exact this
  have T := outer_terminates dry rounds av [] _ k hwf3 hk (by rw [hv3, sepList_start]; exact hsep)
  simp only [runBus] at T ⊢
  rw [run_bind]
  cases hres : ((outer dry rounds av []).run Bus.exec
    (Bus.exec (Bus.exec b1 .terminate).2 (.initialise (if re then 0x00 else 0xFF))).2).res with
  | ret h => simp [Prog.tell, Prog.run]
  | raised e => simp
  | outOfFuel => exact absurd hres T

/-- **termination** — if in some round `k + 1 ≤ rounds` the participants' random addresses are pairwise
distinct, the model's round budget `rounds` is not exhausted (the Python loop ends by then) -/
theorem commissioning_terminates (rounds : Nat) (avail : Option (List Nat)) (re dry : Bool) (b : Bus) (k : Nat)
    (hwf : WF (view b)) (hk : k < rounds) (hsep : (partRand re (k + 1) (view b)).Nodup) :
    (runBus (commissioning rounds avail re dry) b).res ≠ .outOfFuel := by
  rw [commissioning_eq]
  cases re with
  | true =>
    simp only [if_true]
    cases dry with
    | true =>
      simp only [if_true, runBus_note]
      exact body_terminates rounds true true _ b k hwf hk hsep
    | false =>
      simp only [Bool.false_eq_true, if_false, runBus_tell]
      have hv := view_unaddr b
      have hwf1 : WF (view (Bus.exec (Bus.exec b (.dtr0 255)).2 (.setShortAddress .broadcast)).2) := by
        rw [hv]; intro v hv'
        simp only [List.mem_map] at hv'
        obtain ⟨w, hw, rfl⟩ := hv'
        exact hwf w hw
      exact body_terminates rounds true false _ _ k hwf1 hk (by rw [hv, partRand_unaddr]; exact hsep)
  | false =>
    simp only [Bool.false_eq_true, if_false]
    obtain ⟨t, b1, h1, h2, h3, h4⟩ := discover_bus
      (fun av' => Prog.note .progress (commBody rounds false dry av')) (List.range 64)
      (avail.getD (List.range 64)) b
    rw [h4]
    simp only [runBus_note]
    exact body_terminates rounds false dry _ b1 k (by rw [h1]; exact hwf) hk (by rw [h1]; exact hsep)

end DaliVerif.GearSeq
