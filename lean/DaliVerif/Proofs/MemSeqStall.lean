import DaliVerif.Proofs.MemSeq
/-!
# C10 — `write_raw` against a unit that fails to advance DTR0 on some frames

`MemUnit.stepSched sched` (Spec/MemUnit.lean) is the specification unit that, on
the frames selected by `sched`, does everything as usual except advancing DTR0
(one write only, every data write, every frame = the unit that never advances).
For a value with consecutive locations the only DTR0 load is the one before the
first byte, so once the unit lags behind the tracked DTR0 it lags until the
final QUERY CONTENT DTR0, which then differs: a normal return implies that the
unit never lagged during the data writes, hence that the memory holds exactly
the bytes (`writeRaw_stall`).
-/
namespace DaliVerif.DevMem
open Prog

/-- what no frame ever changes about a unit (as far as the stall proof needs it) -/
structure Keeps (u u' : MemUnit) : Prop where
  dev : u'.dev = u.dev
  hasLock : u'.bank.hasLock = u.bank.hasLock
  hasLatch : u'.bank.hasLatch = u.bank.hasLatch

theorem Keeps.rfl' (u : MemUnit) : Keeps u u := ⟨rfl, rfl, rfl⟩

theorem Keeps.trans {u u' u'' : MemUnit} (h1 : Keeps u u') (h2 : Keeps u' u'') : Keeps u u'' :=
  ⟨h2.dev.trans h1.dev, h2.hasLock.trans h1.hasLock, h2.hasLatch.trans h1.hasLatch⟩

theorem Keeps.isLockCell {u u' : MemUnit} (h : Keeps u u') (a : Nat) :
    u'.bank.isLockCell a = u.bank.isLockCell a := by
  simp [Bank.isLockCell, h.hasLock, h.hasLatch]

/-- one WRITE MEMORY LOCATION frame (replying form), stalled or not -/
theorem stepStall_write (u : MemUnit) (st : Bool) (d : Bool) (v : Nat) :
    Keeps u (u.stepStall st (.writeMemoryLocation d v)).2 ∧
    (u.stepStall st (.writeMemoryLocation d v)).2.dtr0 ≤ u.dtr0 + 1 ∧
    (∀ b, (u.stepStall st (.writeMemoryLocation d v)).1 = .byte b →
      b = v ∧ (u.bank.isLockCell u.dtr0 = false →
        (u.stepStall st (.writeMemoryLocation d v)).2.bank.rw = fun x => if x = u.dtr0 then v else u.bank.rw x)) := by
  unfold MemUnit.stepStall MemUnit.step MemUnit.exec MemUnit.writeCell MemUnit.incDtr0
  by_cases hd : d = u.dev <;> by_cases hw : (u.we && u.dtr1 == u.bank.number) = true <;>
    by_cases hc : u.bank.canWrite u.unlockValue u.dtr0 = true <;> cases st <;>
    by_cases hl : u.bank.isLockCell u.dtr0 = true <;>
    simp only [hd, hw, hc, hl, Bank.store, if_true, if_false, Bool.false_eq_true, Bool.false_and] <;>
    refine ⟨?_, ?_, ?_⟩ <;>
    first
      | exact ⟨rfl, rfl, rfl⟩
      | (split <;> first | exact ⟨rfl, rfl, rfl⟩ | (simp; done) | (simp; omega) | omega)
      | (simp; done)
      | (simp; omega)
      | omega


/-- one WRITE MEMORY LOCATION – NO REPLY frame, stalled or not -/
theorem stepStall_writeNR (u : MemUnit) (st : Bool) (d : Bool) (v : Nat) :
    Keeps u (u.stepStall st (.writeMemoryLocationNoReply d v)).2 ∧
    (u.stepStall st (.writeMemoryLocationNoReply d v)).2.dtr0 ≤ u.dtr0 + 1 ∧
    (u.bank.isLockCell u.dtr0 = true →
      (u.stepStall st (.writeMemoryLocationNoReply d v)).2.bank.rw = u.bank.rw) := by
  unfold MemUnit.stepStall MemUnit.step MemUnit.exec MemUnit.writeCell MemUnit.incDtr0
  by_cases hd : d = u.dev <;> by_cases hw : (u.we && u.dtr1 == u.bank.number) = true <;>
    by_cases hc : u.bank.canWrite u.unlockValue u.dtr0 = true <;> cases st <;>
    by_cases hl : u.bank.isLockCell u.dtr0 = true <;>
    simp only [hd, hw, hc, hl, Bank.store, if_true, if_false, Bool.false_eq_true, Bool.false_and] <;>
    refine ⟨?_, ?_, ?_⟩ <;>
    first
      | exact ⟨rfl, rfl, rfl⟩
      | (split <;> first | exact ⟨rfl, rfl, rfl⟩ | (simp; done) | (simp; omega) | omega)
      | (simp; done)
      | (simp; omega)
      | omega

theorem stepStall_dtr0 (u : MemUnit) (st : Bool) (dev : Bool) (v : Nat) (h : u.dev = dev) :
    (u.stepStall st (.dtr0 dev v)).2 = { u with dtr0 := v, clock := u.clock + 1 } := by
  cases st <;> simp [MemUnit.stepStall, MemUnit.step, MemUnit.exec, h]

/-- DTR1, ENABLE WRITE MEMORY, QUERY CONTENT DTR0: DTR0 and the memory stay, the
query answers DTR0 or nothing -/
theorem stepStall_other (u : MemUnit) (st : Bool) (c : Cmd)
    (hc : (∃ d v, c = .dtr1 d v) ∨ (∃ d a, c = .enableWriteMemory d a) ∨ (∃ d a, c = .queryContentDTR0 d a)) :
    Keeps u (u.stepStall st c).2 ∧ (u.stepStall st c).2.dtr0 = u.dtr0 ∧
    (u.stepStall st c).2.bank.rw = u.bank.rw ∧
    (∀ b, (u.stepStall st c).1 = .byte b → b = u.dtr0) := by
  rcases hc with ⟨d, v, rfl⟩ | ⟨d, a, rfl⟩ | ⟨d, a, rfl⟩ <;> cases st <;>
    simp only [MemUnit.stepStall, MemUnit.step, MemUnit.exec, if_true, Bool.false_eq_true, if_false] <;>
    split <;> refine ⟨⟨rfl, rfl, rfl⟩, rfl, rfl, ?_⟩ <;> simp <;> intro b hb <;> exact hb.symm


/-- consecutive locations `l, l+1, …` -/
def Contig : Nat → List (Nat × Nat) → Prop
  | _, [] => True
  | l, p :: ps => p.1 = l ∧ Contig (l + 1) ps

/-- The write loop over consecutive locations against a unit that fails to advance
DTR0 on an arbitrary set of frames, entered with the unit's DTR0 at or below the
tracked value: if the loop completes, the tracked value is `l + n`, the unit's
DTR0 is at most that, and if it is exactly that then the unit was in step at
entry and the memory holds exactly the bytes. -/
theorem writeLoop_stall (sched : Nat → Bool) (dev : Bool) :
    ∀ (pairs : List (Nat × Nat)) (l : Nat) (u : MemUnit) (i : Nat),
      Contig l pairs → l + pairs.length ≤ 255 →
      (∀ p ∈ pairs, u.bank.isLockCell p.1 = false) → u.dtr0 ≤ l →
      ∀ d', ((writeLoop dev false pairs (some l)).run (MemUnit.stepSched sched) (u, i)).1 = .ok d' →
        d' = some (l + pairs.length) ∧
        Keeps u ((writeLoop dev false pairs (some l)).run (MemUnit.stepSched sched) (u, i)).2.1 ∧
        ((writeLoop dev false pairs (some l)).run (MemUnit.stepSched sched) (u, i)).2.1.dtr0 ≤ l + pairs.length ∧
        (((writeLoop dev false pairs (some l)).run (MemUnit.stepSched sched) (u, i)).2.1.dtr0 = l + pairs.length →
          u.dtr0 = l ∧
          ((writeLoop dev false pairs (some l)).run (MemUnit.stepSched sched) (u, i)).2.1.bank.rw =
            writeAll pairs u.bank.rw) := by
  intro pairs
  induction pairs with
  | nil =>
    intro l u i _ _ _ hle d' h
    simp only [writeLoop, run_done] at h ⊢
    cases h
    exact ⟨rfl, Keeps.rfl' u, by simpa using hle, fun h => ⟨by simpa using h, rfl⟩⟩
  | cons p ps ih =>
    intro l u i hc hlen hnl hle d' h
    obtain ⟨l', v⟩ := p
    obtain ⟨hl', hc'⟩ := hc
    simp only at hl'
    subst hl'
    simp only [List.length_cons] at hlen ⊢
    have hmin : min (l' + 1) 255 = l' + 1 := by omega
    obtain ⟨hk, hd0, hb⟩ := stepStall_write u (sched i) dev v
    unfold writeLoop at h ⊢
    simp only [Bool.false_eq_true, if_false, if_true, run_send, MemUnit.stepSched, hmin] at h ⊢
    generalize u.stepStall (sched i) (.writeMemoryLocation dev v) = res at *
    obtain ⟨r, u'⟩ := res
    simp only at hk hd0 hb h ⊢
    cases r with
    | none => simp at h
    | err => simp at h
    | byte b =>
      obtain ⟨hbv, hrw⟩ := hb b rfl
      subst hbv
      simp only [ne_eq, not_true_eq_false, if_false] at h ⊢
      have hnl' : ∀ p ∈ ps, u'.bank.isLockCell p.1 = false := fun p hp => by
        rw [hk.isLockCell]; exact hnl p (by simp [hp])
      obtain ⟨h1, h2, h3, h4⟩ := ih (l' + 1) u' (i + 1) hc' (by omega) hnl' (by omega) d' h
      refine ⟨by rw [h1]; congr 1; omega, hk.trans h2, by omega, fun heq => ?_⟩
      obtain ⟨h5, h6⟩ := h4 (by omega)
      have hu : u.dtr0 = l' := by omega
      refine ⟨hu, ?_⟩
      rw [h6, hrw (by rw [hu]; exact hnl (l', b) (by simp)), hu]
      rfl


theorem writeLoop_entry (dev : Bool) (l v : Nat) (ps : List (Nat × Nat)) (d : Option Nat) :
    writeLoop dev false ((l, v) :: ps) d =
      if d = some l then writeLoop dev false ((l, v) :: ps) (some l)
      else .send (.dtr0 dev l) fun _ => writeLoop dev false ((l, v) :: ps) (some l) := by
  by_cases h : d = some l
  · simp [h]
  · rw [if_neg h]
    conv => lhs; unfold writeLoop
    conv => rhs; unfold writeLoop
    simp [h]

/-- the loop entered with any tracked value `d` that the unit's DTR0 does not exceed -/
theorem writeLoop_stall_entry (sched : Nat → Bool) (dev : Bool) (p : Nat × Nat) (ps : List (Nat × Nat))
    (l : Nat) (u : MemUnit) (i : Nat) (d : Option Nat) (hdev : u.dev = dev)
    (hc : Contig l (p :: ps)) (hlen : l + (p :: ps).length ≤ 255)
    (hnl : ∀ q ∈ p :: ps, u.bank.isLockCell q.1 = false) (hd : ∀ x, d = some x → u.dtr0 ≤ x)
    (d' : Option Nat)
    (h : ((writeLoop dev false (p :: ps) d).run (MemUnit.stepSched sched) (u, i)).1 = .ok d') :
    d' = some (l + (p :: ps).length) ∧
    Keeps u ((writeLoop dev false (p :: ps) d).run (MemUnit.stepSched sched) (u, i)).2.1 ∧
    ((writeLoop dev false (p :: ps) d).run (MemUnit.stepSched sched) (u, i)).2.1.dtr0 ≤ l + (p :: ps).length ∧
    (((writeLoop dev false (p :: ps) d).run (MemUnit.stepSched sched) (u, i)).2.1.dtr0 = l + (p :: ps).length →
      ((writeLoop dev false (p :: ps) d).run (MemUnit.stepSched sched) (u, i)).2.1.bank.rw =
        writeAll (p :: ps) u.bank.rw) := by
  obtain ⟨l', v⟩ := p
  have hl' : l' = l := hc.1
  subst hl'
  rw [writeLoop_entry] at h ⊢
  by_cases hdl : d = some l'
  · rw [if_pos hdl] at h ⊢
    obtain ⟨h1, h2, h3, h4⟩ := writeLoop_stall sched dev _ l' u i hc hlen hnl (hd l' hdl) d' h
    exact ⟨h1, h2, h3, fun he => (h4 he).2⟩
  · rw [if_neg hdl] at h ⊢
    simp only [run_send, MemUnit.stepSched, stepStall_dtr0 u (sched i) dev l' hdev] at h ⊢
    obtain ⟨h1, h2, h3, h4⟩ := writeLoop_stall sched dev _ l' { u with dtr0 := l', clock := u.clock + 1 } (i + 1)
      hc hlen hnl (Nat.le_refl _) d' h
    exact ⟨h1, ⟨h2.dev, h2.hasLock, h2.hasLatch⟩, h3, fun he => (h4 he).2⟩


/-- the re-lock step of `write_raw` -/
def relockP (dev unlock : Bool) : Prog Unit :=
  if unlock then
    .send (.dtr0 dev 2) fun _ => .send (.writeMemoryLocationNoReply dev 0xFF) fun _ => .done ()
  else .done ()

/-- `write_raw` after the optional unlock: loop, DTR0 check, re-lock -/
def mainP (dev : Bool) (a : Nat) (unlock : Bool) (pairs : List (Nat × Nat)) (d : Option Nat) : Prog Unit :=
  (writeLoop dev false pairs d).bind fun d' =>
    .send (.queryContentDTR0 dev a) fun r =>
      match r with
      | .none => .fail .ResponseError
      | .err => .fail .ResponseError
      | .byte b => if some b ≠ d' then .fail .MemoryWriteFailure else relockP dev unlock

theorem relockP_stall (sched : Nat → Bool) (dev unlock : Bool) (u : MemUnit) (i : Nat) (hdev : u.dev = dev)
    (hlock : unlock = true → u.bank.isLockCell 2 = true) :
    ((relockP dev unlock).run (MemUnit.stepSched sched) (u, i)).2.1.bank.rw = u.bank.rw := by
  cases unlock with
  | false => simp [relockP]
  | true =>
    simp only [relockP, if_true, run_send, run_done, MemUnit.stepSched, stepStall_dtr0 u (sched i) dev 2 hdev]
    exact (stepStall_writeNR { u with dtr0 := 2, clock := u.clock + 1 } (sched (i + 1)) dev 0xFF).2.2 (hlock rfl)

/-- the DTR0 check and the re-lock, from a state whose DTR0 is compared with the tracked value -/
theorem check_stall (sched : Nat → Bool) (dev : Bool) (a : Nat) (unlock : Bool) (u : MemUnit) (i : Nat)
    (d' : Option Nat) (hdev : u.dev = dev) (hlock : unlock = true → u.bank.isLockCell 2 = true)
    (h : ((Prog.send (.queryContentDTR0 dev a) fun r =>
        match r with
        | .none => Prog.fail .ResponseError
        | .err => Prog.fail .ResponseError
        | .byte b => if some b ≠ d' then Prog.fail .MemoryWriteFailure else relockP dev unlock).run
          (MemUnit.stepSched sched) (u, i)).1 = .ok ()) :
    d' = some u.dtr0 ∧
    ((Prog.send (.queryContentDTR0 dev a) fun r =>
        match r with
        | .none => Prog.fail .ResponseError
        | .err => Prog.fail .ResponseError
        | .byte b => if some b ≠ d' then Prog.fail .MemoryWriteFailure else relockP dev unlock).run
          (MemUnit.stepSched sched) (u, i)).2.1.bank.rw = u.bank.rw := by
  obtain ⟨hk, hd0, hrw, hb⟩ := stepStall_other u (sched i) (.queryContentDTR0 dev a) (Or.inr (Or.inr ⟨dev, a, rfl⟩))
  simp only [run_send, MemUnit.stepSched] at h ⊢
  generalize u.stepStall (sched i) (.queryContentDTR0 dev a) = res at *
  obtain ⟨r, u'⟩ := res
  simp only at hk hd0 hrw hb h ⊢
  cases r with
  | none => simp at h
  | err => simp at h
  | byte b =>
    have hbd := hb b rfl
    subst hbd
    simp only at h ⊢
    by_cases hne : some u.dtr0 = d'
    · subst hne
      simp only [ne_eq, not_true_eq_false, if_false] at h ⊢
      refine ⟨by simp, ?_⟩
      rw [relockP_stall sched dev unlock u' (i + 1) (hk.dev.trans hdev) (fun hu => by rw [hk.isLockCell]; exact hlock hu)]
      exact hrw
    · simp [hne] at h


/-- loop + check + re-lock against the stalling unit: a normal return means the
memory holds exactly the bytes -/
theorem mainP_stall (sched : Nat → Bool) (dev : Bool) (a : Nat) (unlock : Bool) (pairs : List (Nat × Nat))
    (l : Nat) (u : MemUnit) (i : Nat) (d : Option Nat) (hdev : u.dev = dev)
    (hlock : unlock = true → u.bank.isLockCell 2 = true)
    (hc : Contig l pairs) (hlen : l + pairs.length ≤ 255)
    (hnl : ∀ q ∈ pairs, u.bank.isLockCell q.1 = false) (hd : ∀ x, d = some x → u.dtr0 ≤ x)
    (h : ((mainP dev a unlock pairs d).run (MemUnit.stepSched sched) (u, i)).1 = .ok ()) :
    ((mainP dev a unlock pairs d).run (MemUnit.stepSched sched) (u, i)).2.1.bank.rw = writeAll pairs u.bank.rw := by
  unfold mainP at h ⊢
  rw [run_bind] at h ⊢
  cases pairs with
  | nil =>
    simp only [writeLoop, run_done] at h ⊢
    exact (check_stall sched dev a unlock u i d hdev hlock h).2
  | cons p ps =>
    have key := writeLoop_stall_entry sched dev p ps l u i d hdev hc hlen hnl hd
    generalize (writeLoop dev false (p :: ps) d).run (MemUnit.stepSched sched) (u, i) = res at *
    obtain ⟨o, u', i'⟩ := res
    cases o with
    | error e => simp at h
    | ok d' =>
      simp only at h ⊢ key
      obtain ⟨h1, hk, _, h4⟩ := key d' rfl
      obtain ⟨hdq, hrw⟩ := check_stall sched dev a unlock u' i' d' (hk.dev.trans hdev)
        (fun hu => by rw [hk.isLockCell]; exact hlock hu) h
      rw [hrw]
      apply h4
      rw [h1] at hdq
      exact (Option.some.inj hdq).symm

/-- zipping consecutive locations with the data gives consecutive pairs -/
theorem contig_zip_range' (raw : List Nat) : ∀ (l n : Nat), Contig l ((List.range' l n).zip raw) := by
  induction raw with
  | nil => intro l n; simp [Contig]
  | cons x xs ih =>
    intro l n
    cases n with
    | zero => simp [Contig]
    | succ n =>
      rw [List.range'_succ, List.zip_cons_cons]
      exact ⟨rfl, ih (l + 1) n⟩

/-- **A unit that fails to advance DTR0 on any set of frames** (one write, all the
data writes, every frame = the unit that never advances), any other property of
the unit arbitrary: if `write_raw` of a value with consecutive locations
(feedback checked) returns normally, the memory holds exactly the bytes at
exactly the locations and nothing else changed. -/
theorem writeRaw_stall (sched : Nat → Bool) (i0 : Nat) (u : MemUnit) (dev : Bool) (a bank l : Nat)
    (locs : List (Nat × MemType)) (raw : List Nat) (allowShort forceUnlock unlock : Bool)
    (hdev : u.dev = dev)
    (hchk : writeChecks locs raw.length allowShort forceUnlock = .ok unlock)
    (hlock : unlock = true → u.bank.isLockCell 2 = true)
    (hcont : locs.map (·.1) = List.range' l locs.length) (h255 : l + locs.length ≤ 255)
    (hnl : ∀ x ∈ locs, u.bank.isLockCell x.1 = false)
    (h : ((writeRaw (if dev then .devShort a else .gearShort a) bank locs raw allowShort forceUnlock false).run
        (MemUnit.stepSched sched) (u, i0)).1 = .ok ()) :
    ((writeRaw (if dev then .devShort a else .gearShort a) bank locs raw allowShort forceUnlock false).run
        (MemUnit.stepSched sched) (u, i0)).2.1.bank.rw = writeAll ((locs.map (·.1)).zip raw) u.bank.rw := by
  have hc : Contig l ((locs.map (·.1)).zip raw) := by rw [hcont]; exact contig_zip_range' raw l _
  have hlen : l + ((locs.map (·.1)).zip raw).length ≤ 255 := by
    simp only [List.length_zip, List.length_map]; omega
  have hnl' : ∀ q ∈ (locs.map (·.1)).zip raw, u.bank.isLockCell q.1 = false := by
    intro q hq
    have := (List.of_mem_zip hq).1
    simp only [List.mem_map] at this
    obtain ⟨x, hx, hxe⟩ := this
    rw [← hxe]; exact hnl x hx
  unfold writeRaw at h ⊢
  rw [resolve_short] at h ⊢
  simp only [hchk, Bool.false_eq_true, if_false, run_send, MemUnit.stepSched] at h ⊢
  -- DTR1, ENABLE WRITE MEMORY
  obtain ⟨hk1, hd1, hrw1, _⟩ := stepStall_other u (sched i0) (.dtr1 dev bank) (Or.inl ⟨dev, bank, rfl⟩)
  generalize (u.stepStall (sched i0) (.dtr1 dev bank)).2 = u1 at *
  obtain ⟨hk2, hd2, hrw2, _⟩ := stepStall_other u1 (sched (i0 + 1)) (.enableWriteMemory dev a)
    (Or.inr (Or.inl ⟨dev, a, rfl⟩))
  generalize (u1.stepStall (sched (i0 + 1)) (.enableWriteMemory dev a)).2 = u2 at *
  have hk := hk1.trans hk2
  cases unlock with
  | false =>
    simp only [Bool.false_eq_true, if_false] at h ⊢
    have := mainP_stall sched dev a false ((locs.map (·.1)).zip raw) l u2 (i0 + 1 + 1) none (hk.dev.trans hdev) (by simp) hc hlen
      (fun q hq => by rw [hk.isLockCell]; exact hnl' q hq) (by simp) h
    rw [hrw2, hrw1] at this
    exact this
  | true =>
    simp only [if_true, run_send, MemUnit.stepSched, stepStall_dtr0 u2 (sched (i0 + 1 + 1)) dev 2 (hk.dev.trans hdev)] at h ⊢
    have hl2 : ({ u2 with dtr0 := 2, clock := u2.clock + 1 } : MemUnit).bank.isLockCell 2 = true := by
      show u2.bank.isLockCell 2 = true
      rw [hk.isLockCell]; exact hlock rfl
    obtain ⟨hk3, hd3, hrw3⟩ := stepStall_writeNR { u2 with dtr0 := 2, clock := u2.clock + 1 }
      (sched (i0 + 1 + 1 + 1)) dev 0x55
    generalize (({ u2 with dtr0 := 2, clock := u2.clock + 1 } : MemUnit).stepStall (sched (i0 + 1 + 1 + 1))
      (.writeMemoryLocationNoReply dev 0x55)).2 = u3 at *
    have hk' : Keeps u u3 := hk.trans ⟨hk3.dev, hk3.hasLock, hk3.hasLatch⟩
    have := mainP_stall sched dev a true ((locs.map (·.1)).zip raw) l u3 (i0 + 1 + 1 + 1 + 1) (some 3) (hk'.dev.trans hdev)
      (fun _ => by rw [hk'.isLockCell]; exact hlock rfl) hc hlen
      (fun q hq => by rw [hk'.isLockCell]; exact hnl' q hq)
      (by intro x hx; cases hx; exact hd3) h
    rw [hrw3 hl2] at this
    simp only at this
    rw [hrw2, hrw1] at this
    exact this

end DaliVerif.DevMem
