import DaliVerif.Proofs.GearSeqC08
/-!
# Lemmas for C14: the DT8 colour sequences against the specification bus
-/
namespace DaliVerif.GearSeq
open Prog
set_option linter.unusedSimpArgs false
set_option linter.unusedVariables false

/-! ## addressing depends on `short` and `groups` only -/

def addrOf (s : Option Nat) (g : Nat) : Addr → Bool
  | .broadcast => true
  | .unaddressed => s.isNone
  | .short n => s == some n
  | .group i => g.testBit i

theorem addressed_eq (u : Gear) (a : Addr) : u.addressed a = addrOf u.short u.groups a := by
  cases a <;> rfl

/-- the colour-capable units a frame is for -/
def Gear.isDt8 (u : Gear) (a : Addr) : Bool := u.addressed a && u.types.contains 8

theorem isDt8_congr (u v : Gear) (a : Addr) (h1 : v.short = u.short) (h2 : v.groups = u.groups)
    (h3 : v.types = u.types) : v.isDt8 a = u.isDt8 a := by
  simp [Gear.isDt8, addressed_eq, h1, h2, h3]

theorem execSt_dt8 (u : Gear) (c : Cmd) (h : c.devicetype = 8) :
    u.execSt c = (({ u with enabledDT := some 8, cursor := none } : Gear).step c).2 := by
  simp [Gear.execSt, h, Gear.step]

theorem dt8_enabled (u : Gear) (a : Addr) :
    ({ u with enabledDT := some 8, cursor := none } : Gear).dt8 a = u.isDt8 a := by
  simp [Gear.dt8, Gear.isDt8, addressed_eq]

theorem execSt_setTempTc (u : Gear) (a : Addr) :
    u.execSt (.setTempTc a) =
      if u.isDt8 a = true then { u.tick with tempTc := u.dtr1 * 256 + u.dtr0 } else u.tick := by
  rw [execSt_dt8 _ _ rfl]
  simp only [Gear.step, dt8_enabled]
  split <;> rfl

theorem execSt_activate (u : Gear) (a : Addr) :
    u.execSt (.activate a) =
      if u.isDt8 a = true then
        (if u.tempTc = MASK16 then u.tick
         else { u.tick with tc := Gear.clamp u.coolest u.warmest u.tempTc, tempTc := MASK16 })
      else u.tick := by
  rw [execSt_dt8 _ _ rfl]
  simp only [Gear.step, dt8_enabled]
  split
  · split <;> rfl
  · rfl

theorem execSt_storeTcLimit (u : Gear) (a : Addr) :
    u.execSt (.storeTcLimit a) =
      if u.isDt8 a = true then
        (if u.dtr2 = 0 then { u.tick with coolest := u.dtr1 * 256 + u.dtr0 }
         else if u.dtr2 = 1 then { u.tick with warmest := u.dtr1 * 256 + u.dtr0 }
         else if u.dtr2 = 2 then { u.tick with physCoolest := u.dtr1 * 256 + u.dtr0 }
         else if u.dtr2 = 3 then { u.tick with physWarmest := u.dtr1 * 256 + u.dtr0 }
         else u.tick)
      else u.tick := by
  rw [execSt_dt8 _ _ rfl]
  simp only [Gear.step, dt8_enabled]
  split
  · split
    · rfl
    · split
      · rfl
      · split
        · rfl
        · split <;> rfl
  · rfl

theorem execSt_dtr0 (u : Gear) (v : Nat) : u.execSt (.dtr0 v) = { u.tick with dtr0 := v } := rfl
theorem execSt_dtr1 (u : Gear) (v : Nat) : u.execSt (.dtr1 v) = { u.tick with dtr1 := v } := rfl
theorem execSt_dtr2 (u : Gear) (v : Nat) : u.execSt (.dtr2 v) = { u.tick with dtr2 := v } := rfl

theorem execSt_qal (u : Gear) (a : Addr) : u.execSt (.queryActualLevel a) =
    if u.addressed a = true then { u.tick with reportTc := u.tc } else u.tick := by
  rw [execSt_dt0 _ _ rfl]; simp only [Gear.step]; split <;> rfl

theorem execSt_qcd (u : Gear) (a : Addr) : u.execSt (.queryContentDTR0 a) = u.tick := by
  rw [execSt_dt0 _ _ rfl]; rfl

theorem execSt_qcv (u : Gear) (a : Addr) : u.execSt (.queryColourValue a) =
    if u.isDt8 a = true then
      (match u.colourReg u.dtr0 with
       | some v => { u.tick with dtr0 := v % 256, dtr1 := v / 256 }
       | none => { u.tick with dtr0 := 255, dtr1 := 255 })
    else u.tick := by
  rw [execSt_dt8 _ _ rfl]
  by_cases hd : u.isDt8 a = true
  · cases hreg : u.colourReg u.dtr0 with
    | none =>
      have h' : ({ u with enabledDT := some 8, cursor := none } : Gear).colourReg
          ({ u with enabledDT := some 8, cursor := none } : Gear).dtr0 = none := hreg
      simp only [Gear.step, dt8_enabled, hd, if_true, h']; rfl
    | some v =>
      have h' : ({ u with enabledDT := some 8, cursor := none } : Gear).colourReg
          ({ u with enabledDT := some 8, cursor := none } : Gear).dtr0 = some v := hreg
      simp only [Gear.step, dt8_enabled, hd, if_true, h']; rfl
  · simp only [Gear.step, dt8_enabled, hd, if_false]; rfl

/-- the part of a unit the colour sequences can change or depend on -/
structure CView where
  short : Option Nat
  groups : Nat
  types : List Nat
  dtr0 : Nat
  dtr1 : Nat
  dtr2 : Nat
  tempTc : Nat
  tc : Nat
  coolest : Nat
  warmest : Nat
  physCoolest : Nat
  physWarmest : Nat
  reportTc : Nat

def Gear.cview (u : Gear) : CView :=
  ⟨u.short, u.groups, u.types, u.dtr0, u.dtr1, u.dtr2, u.tempTc, u.tc, u.coolest, u.warmest,
   u.physCoolest, u.physWarmest, u.reportTc⟩

def CView.isDt8 (v : CView) (a : Addr) : Bool := addrOf v.short v.groups a && v.types.contains 8

theorem cview_isDt8 (u : Gear) (a : Addr) : u.cview.isDt8 a = u.isDt8 a := by
  simp [CView.isDt8, Gear.cview, Gear.isDt8, addressed_eq]

/-- the colour view of a unit after the commands whose effect does not depend on `others` -/
def CView.cstep (v : CView) : Cmd → CView
  | .dtr0 x => { v with dtr0 := x }
  | .dtr1 x => { v with dtr1 := x }
  | .dtr2 x => { v with dtr2 := x }
  | .setTempTc a => { v with tempTc := if v.isDt8 a = true then v.dtr1 * 256 + v.dtr0 else v.tempTc }
  | .activate a =>
      { v with
        tc := if v.isDt8 a = true ∧ v.tempTc ≠ MASK16 then Gear.clamp v.coolest v.warmest v.tempTc else v.tc
        tempTc := if v.isDt8 a = true then MASK16 else v.tempTc }
  | .storeTcLimit a =>
      { v with
        coolest := if v.isDt8 a = true ∧ v.dtr2 = 0 then v.dtr1 * 256 + v.dtr0 else v.coolest
        warmest := if v.isDt8 a = true ∧ v.dtr2 = 1 then v.dtr1 * 256 + v.dtr0 else v.warmest
        physCoolest := if v.isDt8 a = true ∧ v.dtr2 = 2 then v.dtr1 * 256 + v.dtr0 else v.physCoolest
        physWarmest := if v.isDt8 a = true ∧ v.dtr2 = 3 then v.dtr1 * 256 + v.dtr0 else v.physWarmest }
  | _ => v

def isSetCmd : Cmd → Bool
  | .dtr0 _ | .dtr1 _ | .dtr2 _ | .setTempTc _ | .activate _ | .storeTcLimit _ => true
  | _ => false

theorem cview_tick (u : Gear) : u.tick.cview = u.cview := rfl

theorem cview_execSt (u : Gear) (c : Cmd) (hc : isSetCmd c = true) :
    (u.execSt c).cview = u.cview.cstep c := by
  cases c <;> simp only [isSetCmd] at hc <;> try (exact absurd hc (by decide))
  · rfl
  · rfl
  · rfl
  · rename_i a
    rw [execSt_setTempTc]; simp only [CView.cstep, cview_isDt8]
    by_cases hd : u.isDt8 a = true <;> simp [hd, Gear.cview, Gear.tick]
  · rename_i a
    rw [execSt_activate]; simp only [CView.cstep, cview_isDt8]
    by_cases hd : u.isDt8 a = true
    · by_cases hm : u.tempTc = MASK16 <;> simp [hd, hm, Gear.cview, Gear.tick]
    · simp [hd, Gear.cview, Gear.tick]
  · rename_i a
    rw [execSt_storeTcLimit]; simp only [CView.cstep, cview_isDt8]
    by_cases hd : u.isDt8 a = true
    · by_cases h0 : u.dtr2 = 0
      · simp [hd, h0, Gear.cview, Gear.tick]
      · by_cases h1 : u.dtr2 = 1
        · simp [hd, h1, Gear.cview, Gear.tick]
        · by_cases h2 : u.dtr2 = 2
          · simp [hd, h2, Gear.cview, Gear.tick]
          · by_cases h3 : u.dtr2 = 3
            · simp [hd, h3, Gear.cview, Gear.tick]
            · simp [hd, h0, h1, h2, h3, Gear.cview, Gear.tick]
    · simp [hd, Gear.cview, Gear.tick]

theorem cview_fold (T : List Cmd) (hT : ∀ c ∈ T, isSetCmd c = true) (u : Gear) :
    (T.foldl Gear.execSt u).cview = T.foldl CView.cstep u.cview := by
  induction T generalizing u with
  | nil => rfl
  | cons c T ih =>
    simp only [List.foldl_cons]
    rw [ih (fun c' h => hT c' (by simp [h])), cview_execSt u c (hT c (by simp))]


end DaliVerif.GearSeq
