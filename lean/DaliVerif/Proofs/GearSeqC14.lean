import DaliVerif.Proofs.GearSeqC08
/-!
# Lemmas for C14: the DT8 colour sequences against the specification bus
-/
namespace DaliVerif.GearSeq
open Prog
set_option linter.unusedSimpArgs false
set_option linter.unusedVariables false

/-! ## addressing depends on `short` and `groups` only -/

def addrOf (s : Option Nat) (g : Nat) : Addr → Bool
  | .broadcast => true
  | .unaddressed => s.isNone
  | .short n => s == some n
  | .group i => g.testBit i

theorem addressed_eq (u : Gear) (a : Addr) : u.addressed a = addrOf u.short u.groups a := by
  cases a <;> rfl

/-- the colour-capable units a frame is for -/
def Gear.isDt8 (u : Gear) (a : Addr) : Bool := u.addressed a && u.types.contains 8

theorem isDt8_congr (u v : Gear) (a : Addr) (h1 : v.short = u.short) (h2 : v.groups = u.groups)
    (h3 : v.types = u.types) : v.isDt8 a = u.isDt8 a := by
  simp [Gear.isDt8, addressed_eq, h1, h2, h3]

theorem execSt_dt8 (u : Gear) (c : Cmd) (h : c.devicetype = 8) :
    u.execSt c = (({ u with enabledDT := some 8, cursor := none } : Gear).step c).2 := by
  simp [Gear.execSt, h, Gear.step]

theorem dt8_enabled (u : Gear) (a : Addr) :
    ({ u with enabledDT := some 8, cursor := none } : Gear).dt8 a = u.isDt8 a := by
  simp [Gear.dt8, Gear.isDt8, addressed_eq]

theorem execSt_setTempTc (u : Gear) (a : Addr) :
    u.execSt (.setTempTc a) =
      if u.isDt8 a = true then { u.tick with tempTc := u.dtr1 * 256 + u.dtr0 } else u.tick := by
  rw [execSt_dt8 _ _ rfl]
  simp only [Gear.step, dt8_enabled]
  split <;> rfl

theorem execSt_activate (u : Gear) (a : Addr) :
    u.execSt (.activate a) =
      if u.isDt8 a = true then
        (if u.tempTc = MASK16 then u.tick
         else { u.tick with tc := Gear.clamp u.coolest u.warmest u.tempTc, tempTc := MASK16 })
      else u.tick := by
  rw [execSt_dt8 _ _ rfl]
  simp only [Gear.step, dt8_enabled]
  split
  · split <;> rfl
  · rfl

theorem execSt_storeTcLimit (u : Gear) (a : Addr) :
    u.execSt (.storeTcLimit a) =
      if u.isDt8 a = true then
        (if u.dtr2 = 0 then { u.tick with coolest := u.dtr1 * 256 + u.dtr0 }
         else if u.dtr2 = 1 then { u.tick with warmest := u.dtr1 * 256 + u.dtr0 }
         else if u.dtr2 = 2 then { u.tick with physCoolest := u.dtr1 * 256 + u.dtr0 }
         else if u.dtr2 = 3 then { u.tick with physWarmest := u.dtr1 * 256 + u.dtr0 }
         else u.tick)
      else u.tick := by
  rw [execSt_dt8 _ _ rfl]
  simp only [Gear.step, dt8_enabled]
  split
  · split
    · rfl
    · split
      · rfl
      · split
        · rfl
        · split <;> rfl
  · rfl

theorem execSt_dtr0 (u : Gear) (v : Nat) : u.execSt (.dtr0 v) = { u.tick with dtr0 := v } := rfl
theorem execSt_dtr1 (u : Gear) (v : Nat) : u.execSt (.dtr1 v) = { u.tick with dtr1 := v } := rfl
theorem execSt_dtr2 (u : Gear) (v : Nat) : u.execSt (.dtr2 v) = { u.tick with dtr2 := v } := rfl

theorem execSt_qal (u : Gear) (a : Addr) : u.execSt (.queryActualLevel a) =
    if u.addressed a = true then { u.tick with reportTc := u.tc } else u.tick := by
  rw [execSt_dt0 _ _ rfl]; simp only [Gear.step]; split <;> rfl

theorem execSt_qcd (u : Gear) (a : Addr) : u.execSt (.queryContentDTR0 a) = u.tick := by
  rw [execSt_dt0 _ _ rfl]; rfl

theorem execSt_qcv (u : Gear) (a : Addr) : u.execSt (.queryColourValue a) =
    if u.isDt8 a = true then
      (match u.colourReg u.dtr0 with
       | some v => { u.tick with dtr0 := v % 256, dtr1 := v / 256 }
       | none => { u.tick with dtr0 := 255, dtr1 := 255 })
    else u.tick := by
  rw [execSt_dt8 _ _ rfl]
  by_cases hd : u.isDt8 a = true
  · cases hreg : u.colourReg u.dtr0 with
    | none =>
      have h' : ({ u with enabledDT := some 8, cursor := none } : Gear).colourReg
          ({ u with enabledDT := some 8, cursor := none } : Gear).dtr0 = none := hreg
      simp only [Gear.step, dt8_enabled, hd, if_true, h']; rfl
    | some v =>
      have h' : ({ u with enabledDT := some 8, cursor := none } : Gear).colourReg
          ({ u with enabledDT := some 8, cursor := none } : Gear).dtr0 = some v := hreg
      simp only [Gear.step, dt8_enabled, hd, if_true, h']; rfl
  · simp only [Gear.step, dt8_enabled, hd, if_false]; rfl

/-- the part of a unit the colour sequences can change or depend on -/
structure CView where
  short : Option Nat
  groups : Nat
  types : List Nat
  dtr0 : Nat
  dtr1 : Nat
  dtr2 : Nat
  tempTc : Nat
  tc : Nat
  coolest : Nat
  warmest : Nat
  physCoolest : Nat
  physWarmest : Nat
  reportTc : Nat

def Gear.cview (u : Gear) : CView :=
  ⟨u.short, u.groups, u.types, u.dtr0, u.dtr1, u.dtr2, u.tempTc, u.tc, u.coolest, u.warmest,
   u.physCoolest, u.physWarmest, u.reportTc⟩

def CView.isDt8 (v : CView) (a : Addr) : Bool := addrOf v.short v.groups a && v.types.contains 8

theorem cview_isDt8 (u : Gear) (a : Addr) : u.cview.isDt8 a = u.isDt8 a := by
  simp [CView.isDt8, Gear.cview, Gear.isDt8, addressed_eq]

/-- the colour view of a unit after the commands whose effect does not depend on `others` -/
def CView.cstep (v : CView) : Cmd → CView
  | .dtr0 x => { v with dtr0 := x }
  | .dtr1 x => { v with dtr1 := x }
  | .dtr2 x => { v with dtr2 := x }
  | .setTempTc a => { v with tempTc := if v.isDt8 a = true then v.dtr1 * 256 + v.dtr0 else v.tempTc }
  | .activate a =>
      { v with
        tc := if v.isDt8 a = true ∧ v.tempTc ≠ MASK16 then Gear.clamp v.coolest v.warmest v.tempTc else v.tc
        tempTc := if v.isDt8 a = true then MASK16 else v.tempTc }
  | .storeTcLimit a =>
      { v with
        coolest := if v.isDt8 a = true ∧ v.dtr2 = 0 then v.dtr1 * 256 + v.dtr0 else v.coolest
        warmest := if v.isDt8 a = true ∧ v.dtr2 = 1 then v.dtr1 * 256 + v.dtr0 else v.warmest
        physCoolest := if v.isDt8 a = true ∧ v.dtr2 = 2 then v.dtr1 * 256 + v.dtr0 else v.physCoolest
        physWarmest := if v.isDt8 a = true ∧ v.dtr2 = 3 then v.dtr1 * 256 + v.dtr0 else v.physWarmest }
  | _ => v

def isSetCmd : Cmd → Bool
  | .dtr0 _ | .dtr1 _ | .dtr2 _ | .setTempTc _ | .activate _ | .storeTcLimit _ => true
  | _ => false

theorem cview_tick (u : Gear) : u.tick.cview = u.cview := rfl

theorem cview_execSt (u : Gear) (c : Cmd) (hc : isSetCmd c = true) :
    (u.execSt c).cview = u.cview.cstep c := by
  cases c <;> simp only [isSetCmd] at hc <;> try (exact absurd hc (by decide))
  · rfl
  · rfl
  · rfl
  · rename_i a
    rw [execSt_setTempTc]; simp only [CView.cstep, cview_isDt8]
    by_cases hd : u.isDt8 a = true <;> simp [hd, Gear.cview, Gear.tick]
  · rename_i a
    rw [execSt_activate]; simp only [CView.cstep, cview_isDt8]
    by_cases hd : u.isDt8 a = true
    · by_cases hm : u.tempTc = MASK16 <;> simp [hd, hm, Gear.cview, Gear.tick]
    · simp [hd, Gear.cview, Gear.tick]
  · rename_i a
    rw [execSt_storeTcLimit]; simp only [CView.cstep, cview_isDt8]
    by_cases hd : u.isDt8 a = true
    · by_cases h0 : u.dtr2 = 0
      · simp [hd, h0, Gear.cview, Gear.tick]
      · by_cases h1 : u.dtr2 = 1
        · simp [hd, h1, Gear.cview, Gear.tick]
        · by_cases h2 : u.dtr2 = 2
          · simp [hd, h2, Gear.cview, Gear.tick]
          · by_cases h3 : u.dtr2 = 3
            · simp [hd, h3, Gear.cview, Gear.tick]
            · simp [hd, h0, h1, h2, h3, Gear.cview, Gear.tick]
    · simp [hd, Gear.cview, Gear.tick]

theorem cview_fold (T : List Cmd) (hT : ∀ c ∈ T, isSetCmd c = true) (u : Gear) :
    (T.foldl Gear.execSt u).cview = T.foldl CView.cstep u.cview := by
  induction T generalizing u with
  | nil => rfl
  | cons c T ih =>
    simp only [List.foldl_cons]
    rw [ih (fun c' h => hT c' (by simp [h])), cview_execSt u c (hT c (by simp))]


theorem setTc_cview (v : CView) (a : Addr) (tc : Nat) (htc : tc < 65536) :
    let v' := [Cmd.dtr0 (tc % 256), .dtr1 (tc / 256), .setTempTc a, .activate a].foldl CView.cstep v
    v'.dtr0 = tc % 256 ∧ v'.dtr1 = tc / 256 ∧
    v'.coolest = v.coolest ∧ v'.warmest = v.warmest ∧
    v'.physCoolest = v.physCoolest ∧ v'.physWarmest = v.physWarmest ∧
    (if v.isDt8 a = true then
      v'.tc = (if tc = MASK16 then v.tc else Gear.clamp v.coolest v.warmest tc) ∧ v'.tempTc = MASK16
     else v'.tc = v.tc ∧ v'.tempTc = v.tempTc) := by
  intro v'
  have hsum : tc / 256 * 256 + tc % 256 = tc := by omega
  simp only [v', List.foldl_cons, List.foldl_nil, CView.cstep, CView.isDt8, hsum]
  refine ⟨trivial, trivial, trivial, trivial, trivial, trivial, ?_⟩
  by_cases hd : (addrOf v.short v.groups a && v.types.contains 8) = true
  · simp only [hd, if_true, true_and, ne_eq]
    by_cases hm : tc = MASK16
    · simp only [hm, not_true_eq_false, if_false, if_true, and_self]
    · simp only [hm, not_false_eq_true, if_false, if_true, and_self]
  · have hd' : (addrOf v.short v.groups a && v.types.contains 8) = false := by simpa using hd
    simp only [hd', Bool.false_eq_true, if_false, false_and, and_self]

theorem tcBytes_nat (tc : Nat) (htc : tc < 65536) :
    tcBytes (.int (tc : Int)) = .ok (tc % 256, tc / 256) := by
  show (if tc < 65536 then _ else _) = _
  rw [if_pos htc]

theorem setTc_trace (b : Bus) (a : Addr) (tc : Nat) (htc : tc < 65536) :
    (runBus (setTc (.addr a) (.int tc)) b).res = .ret () ∧
      (runBus (setTc (.addr a) (.int tc)) b).trace
        = [.dtr0 (tc % 256), .dtr1 (tc / 256), .setTempTc a, .activate a] := by
  simp only [runBus, setTc, withDest, Dest.resolve, tcBytes_nat tc htc, Prog.tell, Prog.run, and_self]

theorem setTcPost_holds (b : Bus) (a : Addr) (tc : Nat) (htc : tc < 65536) :
    setTcPost b a tc (runBus (setTc (.addr a) (.int tc)) b) = true := by
  have hst := runBus_st (setTc (.addr a) (.int tc)) b
  have hres := setTc_trace b a tc htc
  obtain ⟨r1, r2⟩ := hres
  rw [r2] at hst
  unfold setTcPost
  rw [r1, r2, hst]
  simp only [beq_self_eq_true, Bool.true_and, List.length_map, all_zip_map, List.all_eq_true]
  intro u hu
  have hset : ∀ c ∈ [Cmd.dtr0 (tc % 256), .dtr1 (tc / 256), .setTempTc a, .activate a], isSetCmd c = true := by
    intro c hc; simp at hc; rcases hc with rfl | rfl | rfl | rfl <;> rfl
  have hv := cview_fold _ hset u
  have hc := setTc_cview u.cview a tc htc
  simp only [] at hc
  rw [← hv, cview_isDt8] at hc
  obtain ⟨c1, c2, c3, c4, c5, c6, c7⟩ := hc
  have hd8 : (u.addressed a && u.types.contains 8) = u.isDt8 a := rfl
  rw [hd8]
  by_cases hd : u.isDt8 a = true
  · simp only [hd, if_true] at c7 ⊢
    simp only [Bool.and_eq_true, beq_iff_eq]
    exact ⟨⟨c1, c2⟩, ⟨⟨⟨⟨⟨c7.1, c7.2⟩, c3⟩, c4⟩, c5⟩, c6⟩⟩
  · simp only [hd, if_false] at c7 ⊢
    simp only [colourUntouched, Bool.and_eq_true, beq_iff_eq, Bool.false_eq_true, if_false]
    exact ⟨⟨c1, c2⟩, ⟨⟨⟨⟨⟨c7.1, c7.2⟩, c3⟩, c4⟩, c5⟩, c6⟩⟩

theorem dtrArg_nat (w : Nat) (hw : w ≤ 255) : dtrArg (.int (w : Int)) = .ok w := by
  show (if w ≤ 255 then _ else _) = _
  rw [if_pos hw]

theorem setTcLimit_cview (v : CView) (a : Addr) (w tc : Nat) (htc : tc < 65536) :
    let v' := [Cmd.dtr0 (tc % 256), .dtr1 (tc / 256), .dtr2 w, .storeTcLimit a].foldl CView.cstep v
    v'.tc = v.tc ∧ v'.tempTc = v.tempTc ∧
    v'.coolest = (if v.isDt8 a = true ∧ w = 0 then tc else v.coolest) ∧
    v'.warmest = (if v.isDt8 a = true ∧ w = 1 then tc else v.warmest) ∧
    v'.physCoolest = (if v.isDt8 a = true ∧ w = 2 then tc else v.physCoolest) ∧
    v'.physWarmest = (if v.isDt8 a = true ∧ w = 3 then tc else v.physWarmest) := by
  intro v'
  have hsum : tc / 256 * 256 + tc % 256 = tc := by omega
  simp only [v', List.foldl_cons, List.foldl_nil, CView.cstep, CView.isDt8, hsum]
  exact ⟨trivial, trivial, rfl, rfl, rfl, rfl⟩

theorem setTcLimit_trace (b : Bus) (a : Addr) (w tc : Nat) (hw : w ≤ 255) (htc : tc < 65536) :
    (runBus (setTcLimit (.addr a) (.int w) (.int tc)) b).res = .ret () ∧
      (runBus (setTcLimit (.addr a) (.int w) (.int tc)) b).trace
        = [.dtr0 (tc % 256), .dtr1 (tc / 256), .dtr2 w, .storeTcLimit a] := by
  simp only [runBus, setTcLimit, withDest, Dest.resolve, tcBytes_nat tc htc, dtrArg_nat w hw, Prog.tell,
    Prog.run, and_self]

theorem setTcLimitPost_holds (b : Bus) (a : Addr) (w tc : Nat) (hw : w < 4) (htc : tc < 65536) :
    setTcLimitPost b a w tc (runBus (setTcLimit (.addr a) (.int w) (.int tc)) b) = true := by
  have hst := runBus_st (setTcLimit (.addr a) (.int w) (.int tc)) b
  obtain ⟨r1, r2⟩ := setTcLimit_trace b a w tc (by omega) htc
  rw [r2] at hst
  unfold setTcLimitPost
  rw [r1, r2, hst]
  simp only [beq_self_eq_true, Bool.true_and, List.length_map, all_zip_map, List.all_eq_true]
  intro u hu
  have hset : ∀ c ∈ [Cmd.dtr0 (tc % 256), .dtr1 (tc / 256), .dtr2 w, .storeTcLimit a], isSetCmd c = true := by
    intro c hc; simp at hc; rcases hc with rfl | rfl | rfl | rfl <;> rfl
  have hv := cview_fold _ hset u
  have hc := setTcLimit_cview u.cview a w tc htc
  simp only [] at hc
  rw [← hv, cview_isDt8] at hc
  obtain ⟨c1, c2, c3, c4, c5, c6⟩ := hc
  have hd8 : (u.addressed a && u.types.contains 8) = u.isDt8 a := rfl
  rw [hd8]
  by_cases hd : u.isDt8 a = true
  · simp only [hd, true_and, if_true] at c3 c4 c5 c6 ⊢
    simp only [Bool.and_eq_true, beq_iff_eq]
    exact ⟨⟨⟨⟨⟨c1, c2⟩, c3⟩, c4⟩, c5⟩, c6⟩
  · simp only [hd, false_and, if_false] at c3 c4 c5 c6 ⊢
    simp only [colourUntouched, Bool.and_eq_true, beq_iff_eq, Bool.false_eq_true, if_false]
    exact ⟨⟨⟨⟨⟨c1, c2⟩, c3⟩, c4⟩, c5⟩, c6⟩

theorem queryColourStreamPost_holds (answers : Nat → Resp) (a : Addr) (sel : Nat) :
    queryColourStreamPost answers (runStream (queryColour (.addr a) (some sel)) answers) = true := by
  simp only [queryColourStreamPost, runStream, queryColour, withDest, Dest.resolve, Prog.tell, Prog.run,
    streamStep]
  cases h2 : answers 2 <;> cases h3 : answers 3 <;> simp [Prog.run]
  rename_i m l
  by_cases hm : m = 255 <;> simp [hm, Prog.run]

/-! ### QueryDT8ColourValue against the bus -/

/-- registers are 16 bits wide -/
def ColourWF (b : Bus) : Prop :=
  ∀ u ∈ b, ∀ sel v, ({ u with reportTc := u.tc } : Gear).colourReg sel = some v → v < 65536

/-- the unit as QUERY COLOUR VALUE finds it: after QUERY ACTUAL LEVEL, DTR0 := sel, ENABLE DEVICE TYPE 8 -/
def preQcv (a : Addr) (sel : Nat) (u : Gear) : Gear :=
  (((u.execSt (.queryActualLevel a)).execSt (.dtr0 sel)).step (.enableDT 8)).2

theorem preQcv_fields (a : Addr) (sel : Nat) (u : Gear) :
    (preQcv a sel u).short = u.short ∧ (preQcv a sel u).groups = u.groups ∧
    (preQcv a sel u).types = u.types ∧ (preQcv a sel u).dtr0 = sel ∧
    (preQcv a sel u).enabledDT = some 8 ∧
    (u.addressed a = true → ∀ s, (preQcv a sel u).colourReg s = ({ u with reportTc := u.tc } : Gear).colourReg s) := by
  unfold preQcv
  rw [execSt_qal, execSt_dtr0]
  by_cases h : u.addressed a = true
  · simp only [h, if_true]
    exact ⟨rfl, rfl, rfl, rfl, rfl, fun _ s => rfl⟩
  · simp only [h, if_false]
    exact ⟨rfl, rfl, rfl, rfl, rfl, fun h' => by simp_all⟩

theorem preQcv_addressed (a : Addr) (sel : Nat) (u : Gear) : (preQcv a sel u).addressed a = u.addressed a := by
  obtain ⟨h1, h2, _⟩ := preQcv_fields a sel u
  rw [addressed_eq, h1, h2, ← addressed_eq]

theorem step_qcv_resp (w : Gear) (a : Addr) :
    (w.step (.queryColourValue a)).1 =
      if w.dt8 a = true then (match w.colourReg w.dtr0 with | some v => some (v / 256) | none => some 255)
      else none := by
  simp only [Gear.step]
  split
  · split <;> simp_all
  · rfl

theorem step_qcv_st (w : Gear) (a : Addr) :
    ((w.step (.queryColourValue a)).2).short = w.short ∧ ((w.step (.queryColourValue a)).2).groups = w.groups ∧
    ((w.step (.queryColourValue a)).2).dtr0 =
      (if w.dt8 a = true then (match w.colourReg w.dtr0 with | some v => v % 256 | none => 255) else w.dtr0) := by
  simp only [Gear.step]
  split
  · split <;> simp_all [Gear.tick]
  · simp [Gear.tick]

/-- the run, in terms of the two answers -/
theorem queryColour_run (b : Bus) (a : Addr) (sel : Nat) :
    let bE := b.map (preQcv a sel)
    let msb := (Bus.frame bE (.queryColourValue a)).1
    let b3 := (Bus.frame bE (.queryColourValue a)).2
    let lsb := (Bus.frame b3 (.queryContentDTR0 a)).1
    (runBus (queryColour (.addr a) (some sel)) b).trace
        = [.queryActualLevel a, .dtr0 sel, .queryColourValue a, .queryContentDTR0 a] ∧
    (runBus (queryColour (.addr a) (some sel)) b).res =
      (match msb, lsb with
       | .byte m, .byte l => if m = 255 then .ret none else .ret (some (l + 256 * m))
       | _, _ => .ret none) := by
  intro bE msb b3 lsb
  have hbE : (Bus.frame (Bus.exec (Bus.exec b (.queryActualLevel a)).2 (.dtr0 sel)).2 (.enableDT 8)).2 = bE := by
    simp only [Bus.exec_st, Bus.frame, List.map_map, bE]
    rfl
  simp only [runBus, queryColour, withDest, Dest.resolve, Prog.tell, Prog.run]
  have hx : Bus.exec (Bus.exec (Bus.exec b (.queryActualLevel a)).2 (.dtr0 sel)).2 (.queryColourValue a)
      = Bus.frame bE (.queryColourValue a) := by
    rw [← hbE]; rfl
  rw [hx, exec_of_dt0 _ (.queryContentDTR0 a) rfl]
  constructor
  · cases hm : (Bus.frame bE (.queryColourValue a)).1 <;>
      cases hl : (Bus.frame (Bus.frame bE (.queryColourValue a)).2 (.queryContentDTR0 a)).1 <;>
      simp [Prog.run]
    rename_i m l
    by_cases h : m = 255 <;> simp [h, Prog.run]
  · simp only [msb, lsb, b3]
    cases hm : (Bus.frame bE (.queryColourValue a)).1 <;>
      cases hl : (Bus.frame (Bus.frame bE (.queryColourValue a)).2 (.queryContentDTR0 a)).1 <;>
      simp [Prog.run]
    rename_i m l
    by_cases h : m = 255 <;> simp [h, Prog.run]

theorem qcv_answers (b : Bus) (a : Addr) (sel : Nat) :
    let bE := b.map (preQcv a sel)
    let A := (b.filter (·.addressed a)).map (preQcv a sel)
    (Bus.frame bE (.queryColourValue a)).1 = combine (A.filterMap (fun w => (w.step (.queryColourValue a)).1)) ∧
    (Bus.frame (Bus.frame bE (.queryColourValue a)).2 (.queryContentDTR0 a)).1 =
      combine ((A.map (fun w => (w.step (.queryColourValue a)).2)).filterMap
        (fun w => (w.step (.queryContentDTR0 a)).1)) := by
  intro bE A
  have hA : bE.filter (·.addressed a) = A :=
    filter_map_of_pres (preQcv a sel) (·.addressed a) b (preQcv_addressed a sel)
  constructor
  · rw [frame_resp_filter bE (.queryColourValue a) (·.addressed a), hA]
    intro u hu
    rw [step_qcv_resp]
    simp [Gear.dt8, hu]
  · rw [frame_resp_filter _ (.queryContentDTR0 a) (·.addressed a)]
    · congr 2
      simp only [Bus.frame]
      rw [filter_map_of_pres _ (·.addressed a) bE, hA]
      intro w
      obtain ⟨h1, h2, _⟩ := step_qcv_st w a
      rw [addressed_eq, h1, h2, ← addressed_eq]
    · intro u hu
      simp [Gear.step, hu]

def colourKey (u : Gear) : Nat × Nat × Nat × Nat × Nat × Nat :=
  (u.tc, u.tempTc, u.coolest, u.warmest, u.physCoolest, u.physWarmest)

theorem colourKey_qal (u : Gear) (a : Addr) : colourKey (u.execSt (.queryActualLevel a)) = colourKey u := by
  rw [execSt_qal]; split <;> rfl
theorem colourKey_dtr0 (u : Gear) (v : Nat) : colourKey (u.execSt (.dtr0 v)) = colourKey u := rfl
theorem colourKey_qcd (u : Gear) (a : Addr) : colourKey (u.execSt (.queryContentDTR0 a)) = colourKey u := by
  rw [execSt_qcd]; rfl
theorem colourKey_qcv (u : Gear) (a : Addr) : colourKey (u.execSt (.queryColourValue a)) = colourKey u := by
  rw [execSt_qcv]
  split
  · split <;> rfl
  · rfl

theorem colour_pres (u : Gear) (a : Addr) (sel : Nat) :
    colourUntouched u
      ([Cmd.queryActualLevel a, .dtr0 sel, .queryColourValue a, .queryContentDTR0 a].foldl Gear.execSt u) = true := by
  simp only [List.foldl_cons, List.foldl_nil]
  have h : colourKey ((((u.execSt (.queryActualLevel a)).execSt (.dtr0 sel)).execSt (.queryColourValue a)).execSt
      (.queryContentDTR0 a)) = colourKey u := by
    rw [colourKey_qcd, colourKey_qcv, colourKey_dtr0, colourKey_qal]
  simp only [colourKey, Prod.mk.injEq] at h
  obtain ⟨h1, h2, h3, h4, h5, h6⟩ := h
  simp only [colourUntouched, Bool.and_eq_true, beq_iff_eq]
  exact ⟨⟨⟨⟨⟨h1, h2⟩, h3⟩, h4⟩, h5⟩, h6⟩

theorem step_qcd_resp (w : Gear) (a : Addr) :
    (w.step (.queryContentDTR0 a)).1 = if w.addressed a = true then some w.dtr0 else none := by
  simp [Gear.step]

theorem queryColourPost_holds (b : Bus) (hwf : ColourWF b) (a : Addr) (sel : Nat) :
    queryColourPost b a sel (runBus (queryColour (.addr a) (some sel)) b) = true := by
  have hst := runBus_st (queryColour (.addr a) (some sel)) b
  obtain ⟨htr, hres⟩ := queryColour_run b a sel
  obtain ⟨hm, hl⟩ := qcv_answers b a sel
  rw [htr] at hst
  unfold queryColourPost
  rw [htr, hst]
  simp only [beq_self_eq_true, Bool.true_and, List.length_map, all_zip_map, Bool.and_eq_true,
    List.all_eq_true]
  refine ⟨?_, fun u _ => colour_pres u a sel⟩
  rw [hres, hm, hl]
  cases hf : b.filter (·.addressed a) with
  | nil => simp [combine]
  | cons u rest =>
    have hadd : u.addressed a = true := by
      have : u ∈ b.filter (·.addressed a) := by rw [hf]; simp
      simpa using (List.mem_filter.mp this).2
    have hub : u ∈ b := by
      have : u ∈ b.filter (·.addressed a) := by rw [hf]; simp
      exact (List.mem_filter.mp this).1
    obtain ⟨p1, p2, p3, p4, p5, p6⟩ := preQcv_fields a sel u
    have hpa : (preQcv a sel u).addressed a = true := by rw [preQcv_addressed]; exact hadd
    have hdt : (preQcv a sel u).dt8 a = u.types.contains 8 := by
      simp [Gear.dt8, hpa, p5, p3]
    cases rest with
    | cons u2 r2 =>
      -- two units answer QUERY CONTENT DTR0: framing error
      have hadd2 : u2.addressed a = true := by
        have : u2 ∈ b.filter (·.addressed a) := by rw [hf]; simp
        simpa using (List.mem_filter.mp this).2
      have hq : ∀ w : Gear, w.addressed a = true →
          ((w.step (.queryColourValue a)).2.step (.queryContentDTR0 a)).1
            = some ((w.step (.queryColourValue a)).2).dtr0 := by
        intro w hw
        rw [step_qcd_resp]
        obtain ⟨h1, h2, _⟩ := step_qcv_st w a
        rw [addressed_eq, h1, h2, ← addressed_eq, hw]; rfl
      have hpa2 : (preQcv a sel u2).addressed a = true := by rw [preQcv_addressed]; exact hadd2
      generalize combine (List.filterMap (fun w => (w.step (.queryColourValue a)).1)
          (List.map (preQcv a sel) (u :: u2 :: r2))) = M
      simp only [List.map_cons, List.filterMap_cons, hq _ hpa, hq _ hpa2, combine_two]
      cases M <;> simp
    | nil =>
      simp only [List.map_cons, List.map_nil, List.filterMap_cons, List.filterMap_nil]
      rw [step_qcv_resp, step_qcd_resp]
      obtain ⟨s1, s2, s3⟩ := step_qcv_st (preQcv a sel u) a
      have hpa3 : ((preQcv a sel u).step (.queryColourValue a)).2.addressed a = true := by
        rw [addressed_eq, s1, s2, ← addressed_eq]; exact hpa
      simp only [hpa3, if_true, s3, hdt, p4, p6 hadd]
      by_cases h8 : u.types.contains 8 = true
      · simp only [h8, if_true]
        cases hreg : ({ u with reportTc := u.tc } : Gear).colourReg sel with
        | none => simp [combine]
        | some v =>
          have hv : v < 65536 := hwf u hub sel v hreg
          simp only [combine]
          by_cases hhi : v / 256 < 255
          · have : ¬ v / 256 = 255 := by omega
            have hsum : v % 256 + 256 * (v / 256) = v := by omega
            simp [hhi, this, hsum]
          · have : v / 256 = 255 := by omega
            simp [hhi, this]
      · have h8' : ¬ 8 ∈ u.types := by simpa using h8
        simp [h8', combine]

end DaliVerif.GearSeq
