import DaliVerif.Proofs.SerialRxChunks
/-! C19: the explicit resynchronisation bound of the LUBA receiver (helpers for `Props/C19.lean`) -/
namespace DaliVerif.Proofs.SerialRx
open DaliVerif SerialRx Spec.Deframe
open Gen.DriverConsts

/-- upper bound on the number of further bytes after which the frame in progress has ended -/
def remaining : List Nat → Nat
  | [] => 0
  | [_] => 23
  | [_, _] => 22
  | _ :: _ :: n :: p => (n - p.length) + 1

theorem remaining_le (acc : List Nat) (h : AInv acc) : remaining acc ≤ 23 := by
  rcases h with h | h | ⟨c, h⟩ | ⟨c, n, p, h, hn1, hn20, hp⟩ <;> subst h <;> simp [remaining] <;> omega

theorem remaining_zero (acc : List Nat) (h : remaining acc = 0) : acc = [] := by
  match acc, h with
  | [], _ => rfl
  | [_], h => simp [remaining] at h
  | [_, _], h => simp [remaining] at h
  | _ :: _ :: _ :: _, h => simp [remaining] at h

/-- a byte other than 'Y' that raises nothing brings the end of the frame in progress one byte nearer -/
theorem astep_remaining (o : Oracle) (a : AState) (b : Nat) (hinv : AInv a.acc) (hb : b ≠ 0x59)
    (he : (astep o a b).2.2 = none) : remaining (astep o a b).1.acc ≤ remaining a.acc - 1 := by
  obtain ⟨acc, rx, tx⟩ := a
  simp only at hinv
  rcases hinv with h | h | ⟨c, h⟩ | ⟨c, n, p, h, hn1, hn20, hp⟩
  · subst h; simp [astep, hb, remaining]
  · subst h; simp [astep, remaining]
  · subst h
    by_cases hk : 0 < b ∧ b ≤ 20
    · simp [astep, hk, remaining]
    · simp [astep, hk, remaining]
  · subst h
    by_cases hlt : p.length < n
    · simp [astep, hlt, remaining]; omega
    · simp only [astep, hlt, if_false] at he ⊢
      by_cases hx : xorAll (c :: n :: p) ≠ b
      · simp [hx, remaining]
      · simp only [hx, if_false] at he ⊢
        by_cases hkc : Luba.knownCmd c = false
        · simp [hkc, remaining]
        · simp only [hkc] at he ⊢
          cases hd : Luba.dispatch o rx tx (89 :: c :: n :: (p ++ [b])) with
          | error e => simp [hd] at he
          | ok r => obtain ⟨rx', tx', items⟩ := r; simp [remaining]

/-- bytes other than 'Y' that raise nothing: the frame in progress ends within `remaining` bytes -/
theorem run_idle (o : Oracle) : ∀ (idle : List Nat) (s : Luba.State) (a : AState), Rel s a →
    (∀ x ∈ idle, x ≠ 0x59) → (Luba.runChunk o s idle).err = none →
    ∃ a', Rel (Luba.runChunk o s idle).state a' ∧ remaining a'.acc ≤ remaining a.acc - idle.length := by
  intro idle
  induction idle with
  | nil => intro s a h _ _; exact ⟨a, h, by simp⟩
  | cons b bs ih =>
    intro s a h hid hne
    obtain ⟨_, h2, h3⟩ := sim o s a b h
    have hb : b ≠ 0x59 := hid b (by simp)
    simp only [Luba.runChunk] at hne ⊢
    cases hse : (Luba.step o s b).err with
    | some e => simp [hse] at hne
    | none =>
      simp only [hse] at hne ⊢
      rw [hse] at h2
      have hr := astep_remaining o a b h.2.2.1 hb h2.symm
      obtain ⟨a', hrel, hle⟩ := ih _ _ h3 (fun x hx => hid x (by simp [hx])) hne
      refine ⟨a', hrel, ?_⟩
      simp only [List.length_cons]
      omega

/-- after `remaining` (≤ MAX_LEN - 1) bytes other than 'Y' the receiver is at a frame boundary -/
theorem idle_boundary (o : Oracle) (idle : List Nat) (s : Luba.State) (a : AState) (h : Rel s a)
    (hid : ∀ x ∈ idle, x ≠ 0x59) (hlen : luba_MAX_LEN - 1 ≤ idle.length)
    (hne : (Luba.runChunk o s idle).err = none) :
    Rel (Luba.runChunk o s idle).state
      ⟨[], (Luba.runChunk o s idle).state.rxdt, (Luba.runChunk o s idle).state.txdt⟩ := by
  obtain ⟨a', hrel, hle⟩ := run_idle o idle s a h hid hne
  have h23 := remaining_le a.acc h.2.2.1
  have hl : 23 ≤ idle.length := by simpa [luba_MAX_LEN] using hlen
  have hz : a'.acc = [] := remaining_zero _ (by omega)
  obtain ⟨acc', rx', tx'⟩ := a'
  simp only at hz; subst hz
  have e1 : (Luba.runChunk o s idle).state.rxdt = rx' := hrel.1
  have e2 : (Luba.runChunk o s idle).state.txdt = tx' := hrel.2.1
  rw [e1, e2]; exact hrel

theorem xorSum_lt (l : List Nat) (h : ∀ x ∈ l, x < 256) : xorSum l < 256 := by
  induction l with
  | nil => simp [xorSum]
  | cons x xs ih =>
    have hx : x < 2 ^ 8 := h x (by simp)
    have hxs : xorSum xs < 2 ^ 8 := ih (fun y hy => h y (by simp [hy]))
    exact Nat.xor_lt_two_pow hx hxs

/-- every state reached by any sequence of reads (exceptions included) is related to a frame in progress -/
theorem chunks_rel (o : Oracle) (chunks : List (List Nat)) : ∀ (s : Luba.State) (a : AState), Rel s a →
    ∃ a', Rel (Luba.runChunks o s chunks).1 a' := by
  induction chunks with
  | nil => intro s a h; exact ⟨a, h⟩
  | cons c cs ih =>
    intro s a h
    obtain ⟨_, _, h3⟩ := run_sim o c s a h
    obtain ⟨a', h'⟩ := ih _ _ h3
    exact ⟨a', by simpa [Luba.runChunks] using h'⟩

end DaliVerif.Proofs.SerialRx
