import DaliVerif.Model.Conn
/-!
# The connection machine: callback language, reconnect limit, counter reset (C17)

One inductive invariant `CInv` over the reachable states of `Model/Conn.lean`
relates the machine state (`fd`, `pending`, `count`) to the state of the
callback automaton `lstep` after the callbacks emitted so far and to the ghost
attempt counter.  `step_CInv` shows every event — loss at any point, timer with
the device present or absent, handshake report, device vanishing/returning,
explicit `connect()` — preserves it, for every reconnect limit.
-/
namespace DaliVerif.Conn

theorem lrun_snoc (q : LState) (l : List Status) (s : Status) :
    lrun q (l ++ [s]) = (lrun q l).bind (fun q' => lstep q' s) := by
  induction l generalizing q with
  | nil =>
    simp only [List.nil_append, lrun, Option.bind_some]
    cases lstep q s <;> rfl
  | cons x l ih =>
    simp only [List.cons_append, lrun]
    cases lstep q x with
    | none => rfl
    | some q' => exact ih q'

theorem lrun_append (q : LState) (l m : List Status) :
    lrun q (l ++ m) = (lrun q l).bind (fun q' => lrun q' m) := by
  induction l generalizing q with
  | nil => simp [lrun]
  | cons x l ih =>
    simp only [List.cons_append, lrun]
    cases lstep q x with
    | none => rfl
    | some q' => exact ih q'

/-- number of `failed` callbacks in a word -/
def nFailed : List Status → Nat
  | [] => 0
  | .failed :: l => nFailed l + 1
  | _ :: l => nFailed l

theorem nFailed_snoc (l : List Status) (s : Status) :
    nFailed (l ++ [s]) = nFailed l + (if s = .failed then 1 else 0) := by
  induction l with
  | nil => cases s <;> rfl
  | cons x l ih => cases x <;> simp [nFailed, ih] <;> omega

/-- the invariant of the connection machine -/
structure CInv (c : Conn) : Prop where
  /-- the callback automaton has not got stuck; it is `up` exactly while the device file is
  open, and while it is `down` a reconnect attempt is pending -/
  lang : ∃ q, lrun .idle c.cbs = some q ∧ (q = .up ↔ c.fd = true) ∧ (q = .down → c.pending = true)
  /-- no reconnect task while the device is open -/
  fdp : c.fd = true → c.pending = false
  /-- while a retry is pending `_reconnect_count` is one more than the failed attempts of THIS
  outage, which are fewer than the limit -/
  pend : c.pending = true → c.count = c.attempts + 1 ∧ ∀ l, c.limit = some l → c.attempts < l
  /-- `_reconnect_count` is zero whenever no retry is pending (reset on every successful
  `connect()` and on `failed`) -/
  idle : c.pending = false → c.count = 0
  /-- every `failed` was reported after exactly `limit` failed attempts -/
  failed : ∀ k, k ∈ c.failedAfter → c.limit = some k
  /-- one ghost entry per `failed` callback -/
  nfail : nFailed c.cbs = c.failedAfter.length
  /-- handshake bookkeeping -/
  hs : c.hsLeft ≤ c.hsSteps ∧ (c.fd = false → c.hsLeft = 0)

/-- a driver object before `connect()` was ever called -/
def Conn.fresh (c : Conn) : Prop :=
  c.fd = false ∧ c.pending = false ∧ c.count = 0 ∧ c.cbs = [] ∧ c.failedAfter = [] ∧ c.hsLeft = 0

theorem fresh_CInv {c : Conn} (h : c.fresh) : CInv c := by
  obtain ⟨h1, h2, h3, h4, h5, h6⟩ := h
  refine ⟨⟨.idle, by rw [h4]; rfl, by simp [h1], by simp⟩, fun _ => h2, by simp [h2], fun _ => h3,
    by simp [h5], by simp [h4, h5, nFailed], by simp [h6]⟩

/-! ## `_reconnect` -/

theorem reconnect_fail {c : Conn} {l : Nat} (hl : c.limit = some l) (h : l < c.count + 1) :
    reconnect c = { c with count := 0, pending := false, cbs := c.cbs ++ [.failed],
                           failedAfter := c.failedAfter ++ [c.attempts] } := by
  simp [reconnect, hl, h]

theorem reconnect_arm {c : Conn} (h : ∀ l, c.limit = some l → c.count + 1 ≤ l) :
    reconnect c = { c with count := c.count + 1, pending := true } := by
  unfold reconnect
  cases hl : c.limit with
  | none => rfl
  | some l =>
    have := h l hl
    simp only
    rw [if_neg (by omega)]

/-- `_reconnect` entered with the device closed, the automaton in `q ≠ up`, and the counter equal
to the failed attempts of this outage (at most the limit) -/
theorem reconnect_CInv {c : Conn} {q : LState} (hfd : c.fd = false) (hq : lrun .idle c.cbs = some q)
    (hne : q ≠ .up) (hc : c.count = c.attempts) (hle : ∀ l, c.limit = some l → c.count ≤ l)
    (hf : ∀ k, k ∈ c.failedAfter → c.limit = some k) (hn : nFailed c.cbs = c.failedAfter.length)
    (hh : c.hsLeft ≤ c.hsSteps ∧ (c.fd = false → c.hsLeft = 0)) : CInv (reconnect c) := by
  by_cases hlim : ∃ l, c.limit = some l ∧ l < c.count + 1
  · obtain ⟨l, hl, hgt⟩ := hlim
    rw [reconnect_fail hl hgt]
    have hcl : c.count = l := by have := hle l hl; omega
    refine ⟨⟨.idle, ?_, by simp [hfd], by simp⟩, by simp [hfd], by simp, by simp, ?_, ?_, hh⟩
    · simp only [lrun_snoc, hq, Option.bind_some]
      cases q <;> simp_all [lstep]
    · intro k hk
      simp only [List.mem_append, List.mem_singleton] at hk
      rcases hk with hk | hk
      · exact hf k hk
      · subst hk; simp only; rw [hl, ← hc, hcl]
    · simp [nFailed_snoc, hn]
  · have harm : ∀ l, c.limit = some l → c.count + 1 ≤ l := by
      intro l hl
      apply Decidable.byContradiction
      intro hx
      exact hlim ⟨l, hl, by omega⟩
    rw [reconnect_arm harm]
    refine ⟨⟨q, hq, ?_, fun _ => rfl⟩, by simp [hfd], ?_, by simp, hf, hn, hh⟩
    · simp only [hfd, Bool.false_eq_true, iff_false]; exact hne
    · intro _
      refine ⟨by simp only; omega, ?_⟩
      intro l hl
      have := harm l hl
      simp only at hl ⊢
      omega

/-! ## every event preserves the invariant -/

theorem openWith_open (rc : Conn → Conn) (timed : Bool) {c : Conn} (hfd : c.fd = true) :
    openWith rc timed c = c := by
  simp [openWith, hfd]

theorem openWith_present (rc : Conn → Conn) (timed : Bool) {c : Conn} (hfd : c.fd = false)
    (hpr : c.present = true) :
    openWith rc timed c = { c with fd := true, hsLeft := c.hsSteps, count := 0, cbs := c.cbs ++ [.connected] } := by
  simp [openWith, hfd, hpr]

theorem openWith_absent (rc : Conn → Conn) (timed : Bool) {c : Conn} (hfd : c.fd = false)
    (hpr : c.present = false) :
    openWith rc timed c = rc { c with attempts := if timed then c.attempts + 1 else 0 } := by
  simp [openWith, hfd, hpr]

theorem open_CInv {c : Conn} (timed : Bool) (h : CInv c) (hp : c.pending = false)
    (hcnt : c.count = (if timed then c.attempts + 1 else 0))
    (hlim : ∀ l, c.limit = some l → c.count ≤ l) :
    CInv (openWith reconnect timed c) := by
  obtain ⟨q, hq, hup, hdown⟩ := h.lang
  by_cases hfd : c.fd = true
  · rw [openWith_open _ _ hfd]; exact h
  · have hfd' : c.fd = false := by simpa using hfd
    have hne : q ≠ .up := fun e => by rw [hup.mp e] at hfd'; cases hfd'
    by_cases hpr : c.present = true
    · rw [openWith_present _ _ hfd' hpr]
      refine ⟨⟨.up, ?_, by simp, by simp⟩, fun _ => hp, by simp [hp], by simp, h.failed, ?_, by simp⟩
      · simp only [lrun_snoc, hq, Option.bind_some]
        cases q <;> simp_all [lstep]
      · simp [nFailed_snoc, h.nfail]
    · rw [openWith_absent _ _ hfd' (by simpa using hpr)]
      exact reconnect_CInv (c := { c with attempts := if timed then c.attempts + 1 else 0 }) hfd' hq hne
        hcnt hlim h.failed h.nfail h.hs

theorem step_CInv {c c' : Conn} {e : Ev} (h : CInv c) (hs : step c e = some c') : CInv c' := by
  obtain ⟨q, hq, hup, hdown⟩ := h.lang
  cases e with
  | lose =>
    simp only [step, stepWith] at hs
    by_cases hfd : c.fd = true
    · simp only [hfd, if_true, Option.some.injEq] at hs
      subst hs
      have hqu : q = .up := hup.mpr hfd
      subst hqu
      have h0 := h.idle (h.fdp hfd)
      exact reconnect_CInv (q := .down)
        (c := { c with fd := false, hsLeft := 0, pending := false, present := false, attempts := 0,
                       cbs := c.cbs ++ [.disconnected] })
        rfl (by simp [lrun_snoc, hq, lstep]) (by simp) h0 (by intro l _; simp [h0]) h.failed
        (by simp [nFailed_snoc, h.nfail]) (by simp)
    · simp [hfd] at hs
  | timer =>
    simp only [step, stepWith] at hs
    by_cases hp : c.pending = true
    · simp only [hp, if_true, Option.some.injEq] at hs
      subst hs
      obtain ⟨hcnt, hle⟩ := h.pend hp
      have hfd : c.fd = false := by
        cases hf : c.fd with
        | false => rfl
        | true => have := h.fdp hf; rw [hp] at this; cases this
      -- the reconnect task has been consumed: re-establish the invariant directly
      have hne : q ≠ .up := fun e => by rw [hup.mp e] at hfd; cases hfd
      by_cases hpr : c.present = true
      · rw [openWith_present (c := { c with pending := false }) _ _ hfd hpr]
        refine ⟨⟨.up, ?_, by simp, by simp⟩, by simp, by simp, by simp, h.failed, ?_, by simp⟩
        · simp only [lrun_snoc, hq, Option.bind_some]
          cases q <;> simp_all [lstep]
        · simp [nFailed_snoc, h.nfail]
      · rw [openWith_absent (c := { c with pending := false }) _ _ hfd (by simpa using hpr)]
        exact reconnect_CInv (c := { c with pending := false, attempts := c.attempts + 1 }) hfd hq hne
          hcnt (by intro l hl; have := hle l hl; simp only; omega) h.failed h.nfail h.hs
    · simp [hp] at hs
  | hs =>
    simp only [step, stepWith] at hs
    split at hs
    · rename_i hc
      cases hs
      simp only [Bool.and_eq_true, decide_eq_true_eq] at hc
      refine ⟨⟨q, hq, hup, hdown⟩, h.fdp, h.pend, h.idle, h.failed, h.nfail, ?_, ?_⟩
      · have := h.hs.1; simp only; omega
      · intro hf; rw [hc.1] at hf; cases hf
    · cases hs
  | gone =>
    simp only [step, stepWith] at hs
    split at hs
    · cases hs
    · cases hs; exact ⟨⟨q, hq, hup, hdown⟩, h.fdp, h.pend, h.idle, h.failed, h.nfail, h.hs⟩
  | back =>
    simp only [step, stepWith] at hs
    cases hs; exact ⟨⟨q, hq, hup, hdown⟩, h.fdp, h.pend, h.idle, h.failed, h.nfail, h.hs⟩
  | connect =>
    simp only [step, stepWith] at hs
    by_cases hp : c.pending = true
    · simp [hp] at hs
    · have hp' : c.pending = false := by simpa using hp
      simp only [hp', Bool.false_eq_true, if_false, Option.some.injEq] at hs
      subst hs
      have h0 := h.idle hp'
      exact open_CInv false h hp' (by simp [h0]) (by intro l _; simp [h0])

theorem run_CInv {c c' : Conn} {es : List Ev} (h : CInv c) (hr : run step c es = some c') : CInv c' := by
  induction es generalizing c with
  | nil => simp only [run] at hr; cases hr; exact h
  | cons e es ih =>
    simp only [run] at hr
    cases hs : step c e with
    | none => simp [hs] at hr
    | some c1 => simp only [hs] at hr; exact ih (step_CInv h hs) hr

/-! ## consequences for reachable states -/

/-- a state reachable from a fresh driver object by any sequence of events -/
def Reachable (c : Conn) : Prop := ∃ c0 es, c0.fresh ∧ run step c0 es = some c

theorem reachable_CInv {c : Conn} (h : Reachable c) : CInv c := by
  obtain ⟨c0, es, h0, hr⟩ := h
  exact run_CInv (fresh_CInv h0) hr

theorem lrun_last_disconnected {q0 q : LState} {l : List Status}
    (h : lrun q0 l = some q) (hl : l.getLast? = some .disconnected) : q = .down := by
  obtain ⟨l', rfl⟩ : ∃ l', l = l' ++ [.disconnected] := by
    cases hd : l.reverse with
    | nil => simp at hd; subst hd; simp at hl
    | cons x r =>
      have hlr : l = r.reverse ++ [x] := by
        have := congrArg List.reverse hd
        simpa using this
      subst hlr
      simp at hl
      subst hl
      exact ⟨_, rfl⟩
  rw [lrun_snoc] at h
  cases h1 : lrun q0 l' with
  | none => simp [h1] at h
  | some q1 =>
    simp only [h1, Option.bind_some] at h
    cases q1 <;> simp [lstep] at h
    exact h.symm

theorem reconnect_keeps (x : Conn) :
    (reconnect x).limit = x.limit ∧ (reconnect x).hsSteps = x.hsSteps ∧ (reconnect x).fd = x.fd := by
  unfold reconnect
  cases x.limit with
  | none => exact ⟨rfl, rfl, rfl⟩
  | some l => simp only; split <;> exact ⟨rfl, rfl, rfl⟩

theorem openWith_config (b : Bool) (x : Conn) :
    (openWith reconnect b x).limit = x.limit ∧ (openWith reconnect b x).hsSteps = x.hsSteps := by
  unfold openWith
  split
  · exact ⟨rfl, rfl⟩
  · split
    · exact ⟨rfl, rfl⟩
    · exact ⟨(reconnect_keeps _).1, (reconnect_keeps _).2.1⟩

/-- the configuration never changes -/
theorem step_config {c c' : Conn} {e : Ev} (hs : step c e = some c') :
    c'.limit = c.limit ∧ c'.hsSteps = c.hsSteps := by
  cases e with
  | lose =>
    simp only [step, stepWith] at hs
    split at hs
    · cases hs; exact ⟨(reconnect_keeps _).1, (reconnect_keeps _).2.1⟩
    · cases hs
  | timer =>
    simp only [step, stepWith] at hs
    split at hs
    · cases hs; exact openWith_config _ _
    · cases hs
  | hs =>
    simp only [step, stepWith] at hs
    split at hs
    · cases hs; exact ⟨rfl, rfl⟩
    · cases hs
  | gone =>
    simp only [step, stepWith] at hs
    split at hs
    · cases hs
    · cases hs; exact ⟨rfl, rfl⟩
  | back =>
    simp only [step, stepWith] at hs
    cases hs; exact ⟨rfl, rfl⟩
  | connect =>
    simp only [step, stepWith] at hs
    split at hs
    · cases hs
    · cases hs; exact openWith_config _ _

theorem run_config {c c' : Conn} {es : List Ev} (hr : run step c es = some c') :
    c'.limit = c.limit ∧ c'.hsSteps = c.hsSteps := by
  induction es generalizing c with
  | nil => simp only [run] at hr; cases hr; exact ⟨rfl, rfl⟩
  | cons e es ih =>
    simp only [run] at hr
    cases hs : step c e with
    | none => simp [hs] at hr
    | some c1 =>
      simp only [hs] at hr
      have h1 := step_config hs
      have h2 := ih hr
      exact ⟨h2.1.trans h1.1, h2.2.trans h1.2⟩

/-- `attempts_reset_on_connect`, step form: whichever event opens the device (the reconnect timer
or an explicit `connect()`), the step reports `connected`, resets `_reconnect_count` to 0 and
restarts the handshake.  No invariant is needed: this is what the code does on that path. -/
theorem open_resets {c c' : Conn} {e : Ev} (hs : step c e = some c') (h0 : c.fd = false)
    (h1 : c'.fd = true) :
    c'.count = 0 ∧ c'.cbs = c.cbs ++ [.connected] ∧ c'.hsLeft = c'.hsSteps ∧ c'.pending = false := by
  cases e with
  | lose => simp [step, stepWith, h0] at hs
  | hs => simp [step, stepWith, h0] at hs
  | gone =>
    simp only [step, stepWith, h0, Bool.false_eq_true, if_false, Option.some.injEq] at hs
    subst hs; simp at h1
  | back =>
    simp only [step, stepWith, Option.some.injEq] at hs
    subst hs; simp [h0] at h1
  | timer =>
    simp only [step, stepWith] at hs
    split at hs
    · cases hs
      by_cases hpr : c.present = true
      · rw [openWith_present (c := { c with pending := false }) _ _ h0 hpr]
        exact ⟨rfl, rfl, rfl, rfl⟩
      · rw [openWith_absent (c := { c with pending := false }) _ _ h0 (by simpa using hpr),
          (reconnect_keeps _).2.2] at h1
        simp [h0] at h1
    · cases hs
  | connect =>
    simp only [step, stepWith] at hs
    split at hs
    · cases hs
    · rename_i hp
      cases hs
      by_cases hpr : c.present = true
      · rw [openWith_present _ _ h0 hpr]
        exact ⟨rfl, rfl, rfl, by simpa using hp⟩
      · rw [openWith_absent _ _ h0 (by simpa using hpr), (reconnect_keeps _).2.2] at h1
        simp [h0] at h1

/-- the state `disconnect(reconnect=True)` hands to `_reconnect` -/
abbrev lost (c : Conn) : Conn :=
  { c with fd := false, hsLeft := 0, pending := false, present := false, attempts := 0,
           cbs := c.cbs ++ [.disconnected] }

/-- the state a failed timer-driven `connect()` hands to `_reconnect` -/
abbrev ticked (c : Conn) : Conn := { c with pending := false, attempts := c.attempts + 1 }

theorem step_lose {c : Conn} (hfd : c.fd = true) : step c .lose = some (reconnect (lost c)) := by
  simp only [step, stepWith, hfd, if_true]

theorem step_timer {c : Conn} (hp : c.pending = true) :
    step c .timer = some (openWith reconnect true { c with pending := false }) := by
  simp only [step, stepWith, hp, if_true]

theorem step_timer_absent {c : Conn} (hp : c.pending = true) (hfd : c.fd = false) (hpr : c.present = false) :
    step c .timer = some (reconnect (ticked c)) := by
  rw [step_timer hp, openWith_absent (c := { c with pending := false }) _ _ hfd hpr]
  rfl

theorem step_connect {c : Conn} (hp : c.pending = false) :
    step c .connect = some (openWith reconnect false c) := by
  simp only [step, stepWith, hp, Bool.false_eq_true, if_false]

/-- a loss starts a new outage: `disconnected` is reported, the attempt counter of the outage
starts at 0, and either the first retry is armed with `_reconnect_count = 1` or (limit 0)
`failed` follows at once -/
theorem lose_starts_outage {c c' : Conn} (h : CInv c) (hs : step c .lose = some c') :
    c'.fd = false ∧ c'.attempts = 0 ∧
    ((c.limit = some 0 ∧ c'.cbs = c.cbs ++ [.disconnected, .failed] ∧ c'.pending = false ∧ c'.count = 0) ∨
     (c.limit ≠ some 0 ∧ c'.cbs = c.cbs ++ [.disconnected] ∧ c'.pending = true ∧ c'.count = 1)) := by
  by_cases hfd : c.fd = true
  · rw [step_lose hfd, Option.some.injEq] at hs
    have h0 := h.idle (h.fdp hfd)
    by_cases hl : c.limit = some 0
    · rw [reconnect_fail (l := 0) (c := lost c) hl (by simp)] at hs
      subst hs
      exact ⟨rfl, rfl, Or.inl ⟨hl, by simp, rfl, rfl⟩⟩
    · rw [reconnect_arm (c := lost c) (by
        intro l hl'
        have hl2 : c.limit = some l := hl'
        have hc : (lost c).count = 0 := h0
        rw [hc]
        cases l with
        | zero => exact absurd hl2 hl
        | succ n => omega)] at hs
      subst hs
      exact ⟨rfl, rfl, Or.inr ⟨hl, rfl, rfl, by simp [h0]⟩⟩
  · simp [step, stepWith, hfd] at hs

/-- one retry with the device still absent: the attempt is counted; `failed` is reported exactly
when the count reaches the limit, otherwise the next retry is armed and nothing is reported -/
theorem timer_absent {c : Conn} (h : CInv c) (hp : c.pending = true) (hpr : c.present = false) :
    ∃ c', step c .timer = some c' ∧ c'.fd = false ∧ c'.attempts = c.attempts + 1 ∧
      ((c.limit = some (c.attempts + 1) ∧ c'.cbs = c.cbs ++ [.failed] ∧ c'.pending = false ∧ c'.count = 0 ∧
          c'.failedAfter = c.failedAfter ++ [c.attempts + 1]) ∨
       (c.limit ≠ some (c.attempts + 1) ∧ c'.cbs = c.cbs ∧ c'.pending = true ∧ c'.count = c.attempts + 2 ∧
          c'.failedAfter = c.failedAfter)) := by
  obtain ⟨hcnt, hle⟩ := h.pend hp
  have hfd : c.fd = false := by
    cases hf : c.fd with
    | false => rfl
    | true => have := h.fdp hf; rw [hp] at this; cases this
  rw [step_timer_absent hp hfd hpr]
  have hc : (ticked c).count = c.attempts + 1 := hcnt
  by_cases hl : c.limit = some (c.attempts + 1)
  · rw [reconnect_fail (l := c.attempts + 1) (c := ticked c) hl (by rw [hc]; omega)]
    exact ⟨_, rfl, hfd, rfl, Or.inl ⟨hl, rfl, rfl, rfl, rfl⟩⟩
  · rw [reconnect_arm (c := ticked c) (by
      intro l hl'
      have hl2 : c.limit = some l := hl'
      have := hle l hl2
      rw [hc]
      have hne : l ≠ c.attempts + 1 := fun e => hl (by rw [hl2, e])
      omega)]
    exact ⟨_, rfl, hfd, rfl, Or.inr ⟨hl, rfl, rfl, by show c.count + 1 = _; omega, rfl⟩⟩

/-- one retry with the device back: it is opened, `connected` reported, the counter reset and the
handshake restarted -/
theorem timer_present {c : Conn} (h : CInv c) (hp : c.pending = true) (hpr : c.present = true) :
    ∃ c', step c .timer = some c' ∧ c'.fd = true ∧ c'.hsLeft = c.hsSteps ∧ c'.hsSteps = c.hsSteps ∧
      c'.cbs = c.cbs ++ [.connected] ∧ c'.count = 0 ∧ c'.pending = false := by
  have hfd : c.fd = false := by
    cases hf : c.fd with
    | false => rfl
    | true => have := h.fdp hf; rw [hp] at this; cases this
  rw [step_timer hp, openWith_present (c := { c with pending := false }) _ _ hfd hpr]
  exact ⟨_, rfl, rfl, rfl, rfl, rfl, rfl, rfl⟩

theorem hs_run {c : Conn} (hfd : c.fd = true) (n : Nat) (hn : c.hsLeft = n) :
    ∃ c', run step c (List.replicate n .hs) = some c' ∧ c'.up = true ∧ c'.cbs = c.cbs ∧
      c'.count = c.count ∧ c'.pending = c.pending ∧ c'.fd = true := by
  induction n generalizing c with
  | zero => exact ⟨c, rfl, by simp [Conn.up, hfd, hn], rfl, rfl, rfl, hfd⟩
  | succ k ih =>
    obtain ⟨c', h1, h2, h3, h4, h5, h6⟩ := ih (c := { c with hsLeft := k }) hfd rfl
    refine ⟨c', ?_, h2, h3, h4, h5, h6⟩
    simp only [List.replicate_succ, run]
    have : step c .hs = some { c with hsLeft := k } := by
      simp [step, stepWith, hfd, hn]
    rw [this]; exact h1

theorem lrun_idle_last {q0 : LState} {l : List Status} (h : lrun q0 l = some .idle) :
    l = [] ∨ l.getLast? = some .failed := by
  cases hd : l.reverse with
  | nil => left; simpa using hd
  | cons x r =>
    right
    have hlr : l = r.reverse ++ [x] := by
      have := congrArg List.reverse hd
      simpa using this
    subst hlr
    rw [lrun_snoc] at h
    cases h1 : lrun q0 r.reverse with
    | none => simp [h1] at h
    | some q1 =>
      simp only [h1, Option.bind_some] at h
      cases q1 <;> cases x <;> simp [lstep] at h <;> simp

/-- the driver never gives up silently: with the device closed and no retry pending, either
`connect()` has never reported anything or the last callback is `failed` -/
theorem CInv.never_silent {c : Conn} (h : CInv c) (hfd : c.fd = false) (hp : c.pending = false) :
    c.cbs = [] ∨ c.cbs.getLast? = some .failed := by
  obtain ⟨q, hq, hup, hdown⟩ := h.lang
  cases q with
  | idle => exact lrun_idle_last hq
  | up => have := hup.mp rfl; rw [hfd] at this; cases this
  | down => have := hdown rfl; rw [hp] at this; cases this

/-! ## the literal language `connected · (disconnected · (connected | failed))*`

When the application calls `connect()` once with the device there and never again, the lenient
automaton's `idle` state is not needed: `failed` is final. -/

inductive SState | start | up | down | dead
  deriving DecidableEq, Repr

def sstep : SState → Status → Option SState
  | .start, .connected => some .up
  | .up, .disconnected => some .down
  | .down, .connected => some .up
  | .down, .failed => some .dead
  | _, _ => none

def srun : SState → List Status → Option SState
  | q, [] => some q
  | q, s :: l => match sstep q s with | some q' => srun q' l | none => none

theorem srun_snoc (q : SState) (l : List Status) (s : Status) :
    srun q (l ++ [s]) = (srun q l).bind (fun q' => sstep q' s) := by
  induction l generalizing q with
  | nil =>
    simp only [List.nil_append, srun, Option.bind_some]
    cases sstep q s <;> rfl
  | cons x l ih =>
    simp only [List.cons_append, srun]
    cases sstep q x with
    | none => rfl
    | some q' => exact ih q'

def SInv (c : Conn) : Prop :=
  ∃ q, srun .start c.cbs = some q ∧ q ≠ .start ∧ (q = .up ↔ c.fd = true) ∧
    (q = .dead → c.pending = false) ∧ (q = .down → c.pending = true)

theorem reconnect_SInv {c : Conn} (hfd : c.fd = false) (hq : srun .start c.cbs = some .down) :
    SInv (reconnect c) := by
  by_cases hlim : ∃ l, c.limit = some l ∧ l < c.count + 1
  · obtain ⟨l, hl, hgt⟩ := hlim
    rw [reconnect_fail hl hgt]
    refine ⟨.dead, ?_, by simp, by simp [hfd], by simp, by simp⟩
    simp [srun_snoc, hq, sstep]
  · have harm : ∀ l, c.limit = some l → c.count + 1 ≤ l := by
      intro l hl
      apply Decidable.byContradiction
      intro hx
      exact hlim ⟨l, hl, by omega⟩
    rw [reconnect_arm harm]
    exact ⟨.down, hq, by simp, by simp [hfd], by simp, by simp⟩

theorem step_SInv {c c' : Conn} {e : Ev} (hI : CInv c) (h : SInv c) (he : e ≠ .connect)
    (hs : step c e = some c') : SInv c' := by
  obtain ⟨q, hq, hns, hup, hdead, hdown⟩ := h
  cases e with
  | connect => exact absurd rfl he
  | lose =>
    by_cases hfd : c.fd = true
    · rw [step_lose hfd, Option.some.injEq] at hs
      subst hs
      have hqu : q = .up := hup.mpr hfd
      subst hqu
      exact reconnect_SInv (c := lost c) rfl (by simp [srun_snoc, hq, sstep])
    · simp [step, stepWith, hfd] at hs
  | timer =>
    by_cases hp : c.pending = true
    · have hfd : c.fd = false := by
        cases hf : c.fd with
        | false => rfl
        | true => have := hI.fdp hf; rw [hp] at this; cases this
      have hqd : q = .down := by
        cases q with
        | start => exact absurd rfl hns
        | up => have := hup.mp rfl; rw [hfd] at this; cases this
        | down => rfl
        | dead => have := hdead rfl; rw [hp] at this; cases this
      subst hqd
      by_cases hpr : c.present = true
      · rw [step_timer hp, openWith_present (c := { c with pending := false }) _ _ hfd hpr,
          Option.some.injEq] at hs
        subst hs
        exact ⟨.up, by simp [srun_snoc, hq, sstep], by simp, by simp, by simp, by simp⟩
      · rw [step_timer_absent hp hfd (by simpa using hpr), Option.some.injEq] at hs
        subst hs
        exact reconnect_SInv (c := ticked c) hfd hq
    · simp [step, stepWith, hp] at hs
  | hs =>
    simp only [step, stepWith] at hs
    split at hs
    · cases hs; exact ⟨q, hq, hns, hup, hdead, hdown⟩
    · cases hs
  | gone =>
    simp only [step, stepWith] at hs
    split at hs
    · cases hs
    · cases hs; exact ⟨q, hq, hns, hup, hdead, hdown⟩
  | back =>
    simp only [step, stepWith] at hs
    cases hs; exact ⟨q, hq, hns, hup, hdead, hdown⟩

theorem run_SInv {c c' : Conn} {es : List Ev} (hI : CInv c) (h : SInv c) (hes : ∀ e ∈ es, e ≠ .connect)
    (hr : run step c es = some c') : SInv c' := by
  induction es generalizing c with
  | nil => simp only [run] at hr; cases hr; exact h
  | cons e es ih =>
    simp only [run] at hr
    cases hs : step c e with
    | none => simp [hs] at hr
    | some c1 =>
      simp only [hs] at hr
      exact ih (step_CInv hI hs) (step_SInv hI h (hes e List.mem_cons_self) hs)
        (fun x hx => hes x (List.mem_cons_of_mem _ hx)) hr

theorem strict_language {c0 c : Conn} {es : List Ev} (hc : c0.fresh) (hpr : c0.present = true)
    (hes : ∀ e ∈ es, e ≠ .connect) (h : run step c0 (.connect :: es) = some c) :
    (srun .start c.cbs).isSome = true := by
  obtain ⟨h1, h2, h3, h4, h5, h6⟩ := hc
  simp only [run] at h
  rw [step_connect h2, openWith_present _ _ h1 hpr] at h
  simp only at h
  have hI : CInv { c0 with fd := true, hsLeft := c0.hsSteps, count := 0, cbs := c0.cbs ++ [.connected] } :=
    step_CInv (fresh_CInv ⟨h1, h2, h3, h4, h5, h6⟩)
      (show step c0 .connect = some _ by rw [step_connect h2, openWith_present _ _ h1 hpr])
  have hS : SInv { c0 with fd := true, hsLeft := c0.hsSteps, count := 0, cbs := c0.cbs ++ [.connected] } :=
    ⟨.up, by simp [h4, srun, sstep], by simp, by simp, by simp, by simp⟩
  obtain ⟨q, hq, _⟩ := run_SInv hI hS hes h
  simp [hq]

end DaliVerif.Conn
