import DaliVerif.Spec.GearPost
/-!
# Generic lemmas about running sequence programs

`run_bind` (sequencing), `runBus_st` (the final bus is, unit by unit, the fold of
the unit's own transition function over the commands sent — every unit sees every
frame and nothing else), answer-combination lemmas.
-/
namespace DaliVerif.GearSeq
open Prog
set_option linter.unusedSimpArgs false
set_option linter.unusedVariables false

theorem run_bind {σ α β : Type} (step : σ → Cmd → Resp × σ) (p : Prog α) (f : α → Prog β) (s : σ) :
    (p.bind f).run step s =
      match (p.run step s).res with
      | .ret a =>
        ⟨((f a).run step (p.run step s).st).res, ((f a).run step (p.run step s).st).st,
          (p.run step s).trace ++ ((f a).run step (p.run step s).st).trace⟩
      | .raised e => ⟨.raised e, (p.run step s).st, (p.run step s).trace⟩
      | .outOfFuel => ⟨.outOfFuel, (p.run step s).st, (p.run step s).trace⟩ := by
  induction p generalizing s with
  | done a => simp [Prog.bind, Prog.run]
  | fail e => simp [Prog.bind, Prog.run]
  | spin => simp [Prog.bind, Prog.run]
  | send c k ih =>
    simp only [Prog.bind, Prog.run]
    rw [ih]
    cases h : (Prog.run step (k (step s c).1) (step s c).2).res <;> simp
  | note n k ih =>
    simp only [Prog.bind, Prog.run]
    exact ih s

/-- per unit: the state after one command as a driver transmits it -/
def Gear.execSt (u : Gear) (c : Cmd) : Gear :=
  if c.devicetype = 0 then (u.step c).2 else (((u.step (.enableDT c.devicetype)).2).step c).2

theorem Bus.exec_st (b : Bus) (c : Cmd) : (Bus.exec b c).2 = b.map (·.execSt c) := by
  unfold Bus.exec Gear.execSt Bus.frame
  by_cases h : c.devicetype = 0
  · simp [h]
  · simp [h, List.map_map, Function.comp_def]

theorem runBus_st {α : Type} (p : Prog α) (b : Bus) :
    (runBus p b).st = b.map (fun u => (runBus p b).trace.foldl Gear.execSt u) := by
  unfold runBus
  induction p generalizing b with
  | done a => simp [Prog.run]
  | fail e => simp [Prog.run]
  | spin => simp [Prog.run]
  | send c k ih =>
    simp only [Prog.run, List.foldl_cons]
    rw [ih, Bus.exec_st, List.map_map]
    rfl
  | note n k ih => simp only [Prog.run]; exact ih b
theorem filterMap_filter_of_none {α β : Type} (f : α → Option β) (sel : α → Bool) (l : List α)
    (h : ∀ u, sel u = false → f u = none) :
    l.filterMap f = (l.filter sel).filterMap f := by
  induction l with
  | nil => rfl
  | cons x xs ih =>
    by_cases hx : sel x = true
    · simp [List.filterMap_cons, List.filter_cons, hx, ih]
    · have hx' : sel x = false := by simpa using hx
      simp [List.filterMap_cons, List.filter_cons, hx', h x hx', ih]

/-- only the units a frame is addressed to can answer it -/
theorem frame_resp_filter (b : Bus) (c : Cmd) (sel : Gear → Bool)
    (h : ∀ u, sel u = false → (u.step c).1 = none) :
    (Bus.frame b c).1 = combine ((b.filter sel).filterMap (fun u => (u.step c).1)) := by
  unfold Bus.frame
  simp only
  rw [filterMap_filter_of_none _ sel b h]

theorem filter_map_of_pres {α : Type} (f : α → α) (sel : α → Bool) (l : List α)
    (h : ∀ u, sel (f u) = sel u) :
    (l.map f).filter sel = (l.filter sel).map f := by
  induction l with
  | nil => rfl
  | cons x xs ih =>
    simp only [List.map_cons, List.filter_cons, h x]
    split <;> simp [ih]

theorem all_zip_map {α : Type} (l : List α) (f : α → α) (P : α × α → Bool) :
    ((l.zip (l.map f)).all P) = l.all (fun u => P (u, f u)) := by
  induction l with
  | nil => rfl
  | cons x xs ih => simp [List.zip_cons_cons, List.all_cons, ih]

theorem exec_of_dt0 (b : Bus) (c : Cmd) (h : c.devicetype = 0) : Bus.exec b c = Bus.frame b c := by
  unfold Bus.exec; simp [h]


end DaliVerif.GearSeq
