import DaliVerif.Spec.GearPost
/-!
# Generic lemmas about running sequence programs

`run_bind` (sequencing), `runBus_st` (the final bus is, unit by unit, the fold of
the unit's own transition function over the commands sent — every unit sees every
frame and nothing else), answer-combination lemmas.
-/
namespace DaliVerif.GearSeq
open Prog

theorem run_bind {σ α β : Type} (step : σ → Cmd → Resp × σ) (p : Prog α) (f : α → Prog β) (s : σ) :
    (p.bind f).run step s =
      match (p.run step s).res with
      | .ret a =>
        ⟨((f a).run step (p.run step s).st).res, ((f a).run step (p.run step s).st).st,
          (p.run step s).trace ++ ((f a).run step (p.run step s).st).trace⟩
      | .raised e => ⟨.raised e, (p.run step s).st, (p.run step s).trace⟩
      | .outOfFuel => ⟨.outOfFuel, (p.run step s).st, (p.run step s).trace⟩ := by
  induction p generalizing s with
  | done a => simp [Prog.bind, Prog.run]
  | fail e => simp [Prog.bind, Prog.run]
  | spin => simp [Prog.bind, Prog.run]
  | send c k ih =>
    simp only [Prog.bind, Prog.run]
    rw [ih]
    cases h : (Prog.run step (k (step s c).1) (step s c).2).res <;> simp
  | note n k ih =>
    simp only [Prog.bind, Prog.run]
    exact ih s

/-- per unit: the state after one command as a driver transmits it -/
def Gear.execSt (u : Gear) (c : Cmd) : Gear :=
  if c.devicetype = 0 then (u.step c).2 else (((u.step (.enableDT c.devicetype)).2).step c).2

theorem Bus.exec_st (b : Bus) (c : Cmd) : (Bus.exec b c).2 = b.map (·.execSt c) := by
  unfold Bus.exec Gear.execSt Bus.frame
  by_cases h : c.devicetype = 0
  · simp [h]
  · simp [h, List.map_map, Function.comp_def]

theorem runBus_st {α : Type} (p : Prog α) (b : Bus) :
    (runBus p b).st = b.map (fun u => (runBus p b).trace.foldl Gear.execSt u) := by
  unfold runBus
  induction p generalizing b with
  | done a => simp [Prog.run]
  | fail e => simp [Prog.run]
  | spin => simp [Prog.run]
  | send c k ih =>
    simp only [Prog.run, List.foldl_cons]
    rw [ih, Bus.exec_st, List.map_map]
    rfl
  | note n k ih => simp only [Prog.run]; exact ih b
end DaliVerif.GearSeq
