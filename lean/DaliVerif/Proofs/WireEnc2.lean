import DaliVerif.Proofs.WireEnc
import DaliVerif.Proofs.Bits
/-!
# C18 helper lemmas, second batch

xor folds and checksum validity (LUBA, SCI), recovering a frame from its byte
string / hex text for every width, decoders vs. the formats' meaning
(Tridonic report, legacy Tridonic, legacy hasseb, ATX hat).
-/
namespace DaliVerif.Proofs.WireEnc2
open DaliVerif Wire Spec.Gateways Proofs.WireEnc Gen.DriverConsts

/-! ### xor folds, checksums -/

theorem foldl_xor_acc (l : List Nat) (a : Nat) : l.foldl Nat.xor a = a ^^^ l.foldl Nat.xor 0 := by
  induction l generalizing a with
  | nil => simp
  | cons x xs ih =>
    simp only [List.foldl_cons]
    rw [ih (Nat.xor a x), ih (Nat.xor 0 x)]
    show (a ^^^ x) ^^^ _ = a ^^^ ((0 ^^^ x) ^^^ _)
    rw [Nat.zero_xor, Nat.xor_assoc]

theorem foldr_xor_eq_xorAll (l : List Nat) : l.foldr (· ^^^ ·) 0 = xorAll l := by
  induction l with
  | nil => rfl
  | cons x xs ih =>
    simp only [List.foldr_cons, xorAll, List.foldl_cons]
    rw [foldl_xor_acc xs (Nat.xor 0 x), ih]
    show x ^^^ xorAll xs = (0 ^^^ x) ^^^ _
    rw [Nat.zero_xor]; rfl

theorem xorAll_append_self (l : List Nat) : xorAll (l ++ [xorAll l]) = 0 := by
  simp only [xorAll, List.foldl_append, List.foldl_cons, List.foldl_nil]
  exact Nat.xor_self _

/-- a packet `'Y' :: body ++ [xor body]` with `body = cmd :: len :: payload`, `payload.length = len + 1`… -/
theorem lubaCheck_of_body (body : List Nat) (h : body.length + 2 = body.getD 1 0 + 4) :
    lubaCheck ([0x59] ++ body ++ [xorAll body]) = true := by
  have hx : (body ++ [xorAll body]).foldr (· ^^^ ·) 0 = 0 := by
    rw [foldr_xor_eq_xorAll, xorAll_append_self]
  have hd : ([0x59] ++ body ++ [xorAll body]).drop 1 = body ++ [xorAll body] := by simp
  have hl : ([0x59] ++ body ++ [xorAll body]).length = body.length + 2 := by simp
  have hg : ([0x59] ++ body ++ [xorAll body]).getD 2 0 = body.getD 1 0 := by
    rcases body with _ | ⟨a, _ | ⟨b, r⟩⟩
    · simp at h
    · simp at h
    · simp
  have hh : ([0x59] ++ body ++ [xorAll body]).head? = some 0x59 := by simp
  unfold lubaCheck
  rw [hd, hl, hg, hx, hh, h]
  simp

theorem sciCheck_of_body (body : List Nat) (h : body.length = 4) :
    sciCheck (body ++ [xorAll body]) = true := by
  have hx : (body ++ [xorAll body]).foldr (· ^^^ ·) 0 = 0 := by
    rw [foldr_xor_eq_xorAll, xorAll_append_self]
  simp [sciCheck, hx, h]

theorem luba_checksum_model (c : Cmd) (p : List Nat) (h : Luba.encode c = .ok p) : lubaCheck p = true := by
  unfold Luba.encode at h
  simp only at h
  split at h
  · cases h
  · injection h with h; subst h
    exact lubaCheck_of_body _ (by simp)

theorem sci_checksum_model (c : Cmd) (p : List Nat) (h : Sci.encode c = .ok p) : sciCheck p = true := by
  unfold Sci.encode at h
  simp only at h
  split at h
  · cases h
  · injection h with h; subst h
    exact sciCheck_of_body _ (by simp)

theorem xorAll9 (a b c d e f g h i : Nat) :
    xorAll [a, b, c, d, e, f, g, h, i] = a ^^^ b ^^^ c ^^^ d ^^^ e ^^^ f ^^^ g ^^^ h ^^^ i := by
  show ((((((((0 ^^^ a) ^^^ b) ^^^ c) ^^^ d) ^^^ e) ^^^ f) ^^^ g) ^^^ h) ^^^ i = _
  rw [Nat.zero_xor]
theorem xorAll4 (a b c d : Nat) : xorAll [a, b, c, d] = a ^^^ b ^^^ c ^^^ d := by
  show (((0 ^^^ a) ^^^ b) ^^^ c) ^^^ d = _
  rw [Nat.zero_xor]

/-! ### decoders -/

theorem six_of_length (p : List Nat) (h : 6 ≤ p.length) : ∃ a b c d e f r, p = a :: b :: c :: d :: e :: f :: r := by
  rcases p with _ | ⟨a, _ | ⟨b, _ | ⟨c, _ | ⟨d, _ | ⟨e, _ | ⟨f, r⟩⟩⟩⟩⟩⟩ <;> simp at h
  exact ⟨a, b, c, d, e, f, r, rfl⟩

theorem tridonic_decode_wf (p : List Nat) (h : tridonicWellFormed p) : Tridonic.decode p = tridonicMeaning p := by
  obtain ⟨hl, hb, h8⟩ := h
  obtain ⟨a, b, c, d, e, f, r, rfl⟩ := six_of_length p (by omega)
  have hf : f < 256 := hb f (by simp)
  simp only [List.getD_cons_zero, List.getD_cons_succ] at h8
  simp only [Tridonic.decode, tridonicMeaning, List.getD_cons_zero, List.getD_cons_succ, List.drop_succ_cons,
    List.drop_zero, List.take_succ_cons, List.take_zero, tridonic_RESPONSE_FRAME_DALI16, tridonic_RESPONSE_FRAME_DALI24,
    tridonic_RESPONSE_FRAME_DALI8, tridonic_RESPONSE_INFO, tridonic_BUS_STATUS_FRAMING_ERROR, tridonic_RESPONSE_NO_FRAME,
    Bool.or_eq_true, Bool.and_eq_true, beq_iff_eq]
  by_cases h72 : b = 0x72
  · obtain ⟨rfl, rfl, rfl⟩ := h8 h72
    subst h72
    simp [Frame.ofBytesBE, hf]
  · simp [h72]

theorem ltridonic_decode_wf (p : List Nat) : LegacyTridonic.decode p = legacyTridonicMeaning p := by
  simp only [LegacyTridonic.decode, legacyTridonicMeaning, legacyTridonic_DALI_USB_DIRECTION_DALI,
    legacyTridonic_DALI_USB_DIRECTION_USB, legacyTridonic_DALI_USB_TYPE_COMPLETE, legacyTridonic_DALI_USB_TYPE_BROADCAST,
    legacyTridonic_DALI_USB_TYPE_NO_RESPONSE, legacyTridonic_DALI_USB_TYPE_RESPONSE, beq_iff_eq]
  have e : Frame.ofBytesBE [p.getD 4 0, p.getD 5 0] = p.getD 4 0 * 256 + p.getD 5 0 := by simp [Frame.ofBytesBE]
  rw [e]
  generalize p.getD 0 0 = dr
  generalize p.getD 1 0 = ty
  generalize p.getD 4 0 = ad
  generalize p.getD 5 0 = cm
  by_cases h1 : dr = 0x11
  · by_cases h2 : ty = 0x73
    · simp [h1, h2]
    · by_cases h3 : ty = 0x74 <;> simp [h1, h2, h3]
  · by_cases h2 : dr = 0x12
    · by_cases h3 : ty = 0x71
      · simp [h2, h3]
      · by_cases h4 : ty = 0x72 <;> simp [h2, h3, h4]
    · simp [h1, h2]

theorem lhasseb_decode_wf (p : List Nat) : LegacyHasseb.decode p = legacyHassebMeaning p := by
  simp only [LegacyHasseb.decode, legacyHassebMeaning, legacyHasseb_HASSEB_DRIVER_NO_DATA_AVAILABLE,
    legacyHasseb_HASSEB_DALI_FRAME, legacyHasseb_HASSEB_DRIVER_NO_ANSWER, legacyHasseb_HASSEB_DRIVER_OK,
    legacyHasseb_HASSEB_DRIVER_INVALID_ANSWER, legacyHasseb_HASSEB_DRIVER_TOO_EARLY,
    legacyHasseb_HASSEB_DRIVER_SNIFFER_BYTE, legacyHasseb_HASSEB_DRIVER_SNIFFER_BYTE_ERROR, beq_iff_eq,
    Bool.and_eq_true]


theorem hexVal_lt (c v : Nat) (h : Atx.hexVal? c = some v) : v < 16 := by
  unfold Atx.hexVal? at h
  split at h
  · injection h; omega
  · split at h
    · injection h; omega
    · split at h
      · injection h; omega
      · cases h

theorem atx_decode_J (c1 c2 hi lo : Nat) (h1 : Atx.hexVal? c1 = some hi) (h2 : Atx.hexVal? c2 = some lo) :
    Atx.decode [74, c1, c2, 10] = .backward (hi * 16 + lo) ∧ Atx.decode [74, c1, c2] = .backward (hi * 16 + lo) := by
  have := hexVal_lt _ _ h1
  have := hexVal_lt _ _ h2
  have hv : hi * 16 + lo < 256 := by omega
  constructor
  · simp only [Atx.decode]
    simp [h1, h2, hv]
  · by_cases h10 : c2 = 10
    · subst h10; simp [Atx.hexVal?] at h2
    · simp only [Atx.decode]
      simp [h1, h2, hv, h10]

theorem atx_decode_other (letter : Nat) (rest : List Nat) (h : letter ≠ 74) : Atx.decode (letter :: rest) = .none := by
  unfold Atx.decode
  split
  · rename_i heq; injection heq with h1 _; exact absurd h1 h
  · rfl

theorem atx_decode_wf (letter c1 c2 hi lo : Nat) (h1 : Atx.hexVal? c1 = some hi) (h2 : Atx.hexVal? c2 = some lo) :
    Atx.decode [letter, c1, c2, 10] = atxMeaning letter hi lo ∧ Atx.decode [letter, c1, c2] = atxMeaning letter hi lo := by
  by_cases h : letter = 74
  · subst h; simpa [atxMeaning] using atx_decode_J c1 c2 hi lo h1 h2
  · simp [atx_decode_other _ _ h, atxMeaning, h]

theorem hexVal_hexDigit : ∀ n, n < 16 → Atx.hexVal? (Atx.hexDigit n) = some n := by decide

theorem hexVal_hexByte : ∀ b, b < 256 → (hexByte b).mapM Atx.hexVal? = some [b / 16, b % 16] := by decide +kernel

/-! ### frame bytes / hex text -/

def nbytes (bits : Nat) : Nat := bits / 8 + (if bits % 8 != 0 then 1 else 0)

theorem two_pow_le_256 (bits : Nat) : 2 ^ bits ≤ 256 ^ nbytes bits := by
  have : (256 : Nat) = 2 ^ 8 := by decide
  rw [this, ← Nat.pow_mul]
  apply Nat.pow_le_pow_right (by decide)
  unfold nbytes
  by_cases h : bits % 8 = 0
  · simp [h]; omega
  · simp [h]; omega

/-- every frame (any width) is recovered from its big-endian byte string -/
theorem ofBytesBE_bytesOf (f : Frame) (h : f.data < 2 ^ f.bits) : Frame.ofBytesBE (bytesOf f) = f.data := by
  unfold bytesOf
  rw [Frame.ofBytesBE_toBytesBE]
  apply Nat.mod_eq_of_lt
  exact Nat.lt_of_lt_of_le h (two_pow_le_256 f.bits)

theorem bytesOf_length (f : Frame) : (bytesOf f).length = nbytes f.bits := by
  unfold bytesOf nbytes; rw [Frame.toBytesBE_length]

def nibbles (bs : List Nat) : List Nat := bs.flatMap (fun b => [b / 16, b % 16])
def hexText (bs : List Nat) : List Nat := bs.flatMap (fun b => [Atx.hexDigit (b / 16), Atx.hexDigit (b % 16)])

theorem hexText_mapM (bs : List Nat) (h : ∀ b ∈ bs, b < 256) : (hexText bs).mapM Atx.hexVal? = some (nibbles bs) := by
  induction bs with
  | nil => rfl
  | cons b bs ih =>
    have hb : b < 256 := h b (by simp)
    have ih' := ih (fun x hx => h x (by simp [hx]))
    have e1 := hexVal_hexDigit (b / 16) (by omega)
    have e2 := hexVal_hexDigit (b % 16) (by omega)
    simp only [hexText, nibbles, List.flatMap_cons, List.cons_append, List.nil_append, List.mapM_cons, e1, e2] at ih' ⊢
    simp [ih']

theorem nibbles_foldl (bs : List Nat) (acc : Nat) :
    (nibbles bs).foldl (fun a d => a * 16 + d) acc = bs.foldl (fun a b => a * 256 + b) acc := by
  induction bs generalizing acc with
  | nil => rfl
  | cons b bs ih =>
    simp only [nibbles, List.flatMap_cons, List.cons_append, List.nil_append, List.foldl_cons] at ih ⊢
    rw [ih]
    congr 1
    omega

theorem nibbles_length (bs : List Nat) : (nibbles bs).length = 2 * bs.length := by
  induction bs with
  | nil => rfl
  | cons b bs ih => simp only [nibbles, List.flatMap_cons, List.length_append, List.length_cons, List.length_nil] at ih ⊢; omega

theorem hexText_length (bs : List Nat) : (hexText bs).length = 2 * bs.length := by
  induction bs with
  | nil => rfl
  | cons b bs ih => simp only [hexText, List.flatMap_cons, List.length_append, List.length_cons, List.length_nil] at ih ⊢; omega

theorem bytesOf_lt (f : Frame) : ∀ b ∈ bytesOf f, b < 256 := Frame.toBytesBE_lt _ _

theorem atx_lookup (bits p0 : Nat) (hl : atxPrefixTable.lookup bits = some p0) :
    (bits = 8 ∧ p0 = 106) ∨ (bits = 16 ∧ p0 = 104) ∨ (bits = 24 ∧ p0 = 108) ∨ (bits = 25 ∧ p0 = 109) := by
  by_cases h8 : bits = 8
  · subst h8; simp [atxPrefixTable, List.lookup] at hl; omega
  · by_cases h16 : bits = 16
    · subst h16; simp [atxPrefixTable, List.lookup] at hl; omega
    · by_cases h24 : bits = 24
      · subst h24; simp [atxPrefixTable, List.lookup] at hl; omega
      · by_cases h25 : bits = 25
        · subst h25; simp [atxPrefixTable, List.lookup] at hl; omega
        · have e8 : (bits == 8) = false := by simp [h8]
          have e16 : (bits == 16) = false := by simp [h16]
          have e24 : (bits == 24) = false := by simp [h24]
          have e25 : (bits == 25) = false := by simp [h25]
          simp [atxPrefixTable, List.lookup, e8, e16, e24, e25] at hl

theorem atx_shape (c : Cmd) (p : List Nat) (h : Atx.encode c = .ok p) :
    ∃ pfx, p = [pfx] ++ hexText (bytesOf c.frame) ++ [10] ∧
      (pfx = 116 ↔ (c.sendtwice = true ∧ c.frame.bits = 16)) ∧
      (c.frame.bits = 8 ∨ c.frame.bits = 16 ∨ c.frame.bits = 24 ∨ c.frame.bits = 25) := by
  unfold Atx.encode at h
  split at h
  · cases h
  · rename_i p0 hl
    injection h with h
    have hp := atx_lookup _ _ hl
    refine ⟨_, h.symm, ?_, by omega⟩
    by_cases ht : c.sendtwice = true <;> by_cases hb : c.frame.bits = 16 <;> simp [ht, hb] <;> omega

/-! ### small helpers for Props/C18 -/

theorem packLenNat_ok (f : Frame) (l : Nat) (fr : List Nat) (h : f.packLenNat l = .ok fr) :
    fr = Frame.toBytesBE f.data l ∧ f.data < 256 ^ l := by
  unfold Frame.packLenNat at h
  split at h
  · injection h with h; exact ⟨h.symm, by assumption⟩
  · cases h

theorem expect_ok {α} {e : PyErr} {o : Option α} {p : α} (h : expect e o = .ok p) : o = some p := by
  cases o with
  | none => cases h
  | some q => injection h with h; rw [h]

theorem and128 : ∀ prio, prio < 128 → (prio + 128) &&& 128 = 128 ∧ prio &&& 128 = 0 := by decide +kernel

theorem tridonic_field (seq : Nat) (c : Cmd) (p : List Nat) (h : Tridonic.encode seq c = .ok p) :
    Frame.ofBytesBE ((p.drop 4).take 4) = c.frame.data := by
  unfold Tridonic.encode at h
  split at h
  · cases h
  · split at h
    · cases h
    · split at h
      · cases h
      · rename_i fr heq
        obtain ⟨rfl, hlt⟩ := packLenNat_ok _ _ _ heq
        injection h with h; subst h
        have hl := Frame.toBytesBE_length c.frame.data 4
        have : ∀ a b, ((Tridonic.pack tridonic_CMD_SEND seq a b
            (Frame.toBytesBE c.frame.data 4) 0 0 0).drop 4).take 4 = Frame.toBytesBE c.frame.data 4 := by
          intro a b
          simp [Tridonic.pack, hl, List.take_append_of_le_length]
        rw [this, Frame.ofBytesBE_toBytesBE]
        exact Nat.mod_eq_of_lt hlt


end DaliVerif.Proofs.WireEnc2
