import DaliVerif.Proofs.DecodeBasics
/-!
# C01 helper: the decidable table condition and soundness of 16-bit decoding
-/
set_option linter.unusedSimpArgs false
namespace DaliVerif.Cmd
open Frame Spec

/-! ## the decidable well-formedness of the regenerated registries -/

def stdEntryOK (e : (Nat × Nat) × StdClass) : Bool :=
  e.2.known && decide (e.2.cmdval < 256) &&
  (if e.2.hasparam then e.2.cmdval % 16 == 0 && e.1.2 / 16 * 16 == e.2.cmdval && decide (e.1.2 < 256)
   else e.1.2 == e.2.cmdval)

def specialEntryOK (e : Nat × SpecialClass) : Bool :=
  e.2.cmdval == e.1 && decide (e.1 < 256) && e.2.kind != .custom &&
  (e.2.kind == .plain || e.2.hasparam)

def devEntryOK (e : Nat × DevClass) : Bool :=
  e.2.opcode == e.1 && decide (e.1 < 256) && e.2.known

def gearCmdOK : GearEntry → Bool
  | .custom _ => false
  | _ => true

def devCmdOK : DevEntry → Bool
  | .custom _ => false
  | .special c =>
      match c.kind with
      | .abstractBase => true
      | .custom => false
      | .two => decide (c.addr < 256)
      | _ => decide (c.addr < 256) && decide (c.inst < 256)
  | _ => true

def topOK (e : Nat × List TopEntry) : Bool :=
  e.2.all fun t => match t with
    | .gear => e.1 == 16
    | .device => e.1 == 24
    | .event => e.1 == 24
    | .custom _ => false

def eventTypeOK (e : Nat × EventType) : Bool := e.2.kind != .custom

def pushOK (e : Nat × PushClass) : Bool := e.2.info == e.1 && decide (e.1 < 1024)

/-- every registry entry is registered under the key its class would be
registered under, all implementors are the modelled ones -/
def TableOK (T : Tables) : Prop :=
  (T.framesizes.all topOK && T.gearCommands.all gearCmdOK && T.stdOpcodes.all stdEntryOK &&
   T.specialOpcodes.all specialEntryOK && T.devCommands.all devCmdOK && T.devOpcodes.all devEntryOK &&
   T.instOpcodes.all devEntryOK && T.instanceTypes.all eventTypeOK && T.pushEvents.all pushOK &&
   decide (OrderOK T.addrOrder)) = true

instance (T : Tables) : Decidable (TableOK T) := by unfold TableOK; infer_instance

structure TableFacts (T : Tables) : Prop where
  top : ∀ e ∈ T.framesizes, topOK e = true
  gear : ∀ e ∈ T.gearCommands, gearCmdOK e = true
  std : ∀ e ∈ T.stdOpcodes, stdEntryOK e = true
  special : ∀ e ∈ T.specialOpcodes, specialEntryOK e = true
  devc : ∀ e ∈ T.devCommands, devCmdOK e = true
  dev : ∀ e ∈ T.devOpcodes, devEntryOK e = true
  inst : ∀ e ∈ T.instOpcodes, devEntryOK e = true
  ev : ∀ e ∈ T.instanceTypes, eventTypeOK e = true
  push : ∀ e ∈ T.pushEvents, pushOK e = true
  order : OrderOK T.addrOrder

theorem TableOK.facts {T : Tables} (h : TableOK T) : TableFacts T := by
  unfold TableOK at h
  simp only [Bool.and_eq_true, List.all_eq_true, decide_eq_true_eq] at h
  obtain ⟨⟨⟨⟨⟨⟨⟨⟨⟨h1, h2⟩, h3⟩, h4⟩, h5⟩, h6⟩, h7⟩, h8⟩, h9⟩, h10⟩ := h
  exact ⟨h1, h2, h3, h4, h5, h6, h7, h8, h9, h10⟩

/-! ## small arithmetic facts -/

theorem or_256 (c : Nat) (hc : c < 256) : 0x100 ||| c = 256 + c := by
  have := Nat.two_pow_add_eq_or_of_lt (i := 8) (b := c) (by simpa using hc) 1
  simpa using this.symm

theorem or3 (c p : Nat) (hc : c < 256) (hp : p < 16) (hm : c % 16 = 0) :
    0x100 ||| c ||| p = 256 + c + p := by
  rw [or_256 c hc]
  have e : 256 + c = 2 ^ 4 * ((256 + c) / 16) := by omega
  have := Nat.two_pow_add_eq_or_of_lt (i := 4) (b := p) (by simpa using hp) ((256 + c) / 16)
  rw [← e] at this; exact this.symm

theorem and_15 (x : Nat) : x &&& 0x0f = x % 16 := by
  have := Nat.and_two_pow_sub_one_eq_mod x 4
  simpa using this

theorem shl1_or1 (a : Nat) : (a <<< 1) ||| 1 = 2 * a + 1 := by
  rw [Nat.shiftLeft_eq, Nat.mul_comm]
  have := Nat.two_pow_add_eq_or_of_lt (i := 1) (b := 1) (by decide) a
  simpa using this.symm

/-- a gear address decoded from a 16-bit frame is valid, a gear kind, and its
field value is the frame's -/
theorem gearPartition_some {b : Nat} {a : Addr} (hb : b < 128) (h : gearPartition b = some a) :
    a.Valid ∧ a.isGear = true ∧ Addr.addrByte a = b := by
  unfold gearPartition at h
  split at h
  · injection h with h; subst h; simp [Addr.Valid, Addr.isGear, Addr.addrByte]; omega
  · split at h
    · injection h with h; subst h; simp [Addr.Valid, Addr.isGear, Addr.addrByte]; omega
    · split at h
      · injection h with h; subst h; simp [Addr.Valid, Addr.isGear, Addr.addrByte]; omega
      · split at h
        · injection h with h; subst h; simp [Addr.Valid, Addr.isGear, Addr.addrByte]; omega
        · contradiction

theorem devicePartition_some {c : Bool} {b : Nat} {a : Addr} (hb : b < 128)
    (h : devicePartition c b = some a) :
    c = true ∧ a.Valid ∧ a.isGear = false ∧ Addr.addrByte a = b := by
  unfold devicePartition at h
  split at h
  · contradiction
  · rename_i hc
    have hc' : c = true := by simpa using hc
    split at h
    · injection h with h; subst h; simp [Addr.Valid, Addr.isGear, Addr.addrByte, hc']; omega
    · split at h
      · injection h with h; subst h; simp [Addr.Valid, Addr.isGear, Addr.addrByte, hc']; omega
      · split at h
        · injection h with h; subst h; simp [Addr.Valid, Addr.isGear, Addr.addrByte, hc']; omega
        · split at h
          · injection h with h; subst h; simp [Addr.Valid, Addr.isGear, Addr.addrByte, hc']; omega
          · contradiction

/-- writing the address decoded from a 16-bit frame `d` into a frame `x`
gives `d`'s address field over `x`'s low nine bits -/
theorem addr16_put (order : List AddrKind) (hok : OrderOK order) (d x : Nat) (hx : x < 65536)
    (a : Addr) (h : Addr.fromFrame order ⟨16, d⟩ = some a) :
    a.addToFrame ⟨16, x⟩ = .ok ⟨16, 512 * (d / 512 % 128) + x % 512⟩ := by
  rw [Addr.fromFrame_eq_partition order hok] at h
  simp only [partition, if_true] at h
  obtain ⟨hv, hg, hb⟩ := gearPartition_some (Nat.mod_lt _ (by decide)) h
  rw [Addr.addToFrame_gear a hv hg x hx, hb]

theorem addr24_put (order : List AddrKind) (hok : OrderOK order) (d x : Nat) (hx : x < 16777216)
    (a : Addr) (h : Addr.fromFrame order ⟨24, d⟩ = some a) :
    d / 65536 % 2 = 1 ∧
    a.addToFrame ⟨24, x⟩ = .ok ⟨24, 131072 * (d / 131072 % 128) + x % 131072⟩ := by
  rw [Addr.fromFrame_eq_partition order hok] at h
  simp only [partition, Nat.reduceEqDiff, if_false, if_true] at h
  obtain ⟨hc, hv, hg, hb⟩ := devicePartition_some (Nat.mod_lt _ (by decide)) h
  refine ⟨by simpa using hc, ?_⟩
  rw [Addr.addToFrame_device a hv hg x hx, hb]

/-! ## soundness of the 16-bit `from_frame` methods -/

theorem std_sound (T : Tables) (hT : TableFacts T) (d dt : Nat) (hd : d < 2 ^ 16) (c : Cmd)
    (h : stdFromFrame T ⟨16, d⟩ dt = some c) : encode c = .ok ⟨16, d⟩ := by
  have hd' : d < 65536 := by simpa using hd
  unfold stdFromFrame at h
  simp only [bit, bitTest_eq, slice, getSliceRaw_eq, Nat.reducePow, Nat.reduceAdd, Nat.reduceSub,
    Nat.div_one] at h
  split at h
  · contradiction
  · rename_i h8
    simp only [Bool.not_eq_true', decide_eq_false_iff_not, Decidable.not_not] at h8
    split at h
    · contradiction
    · rename_i addr haddr
      have hput := fun x hx => addr16_put T.addrOrder hT.order d x hx addr haddr
      split at h
      · injection h with h; subst h; rfl
      · rename_i cc hl
        have hok := hT.std _ (lookup_mem hl)
        simp only [stdEntryOK, Bool.and_eq_true, decide_eq_true_eq] at hok
        obtain ⟨⟨_, hc⟩, hrel⟩ := hok
        cases hp : cc.hasparam with
        | true =>
          simp only [hp, if_true, Bool.and_eq_true, beq_iff_eq, decide_eq_true_eq] at hrel h
          injection h with h; subst h
          simp only [encode, hp, if_true, and_15, bind, Except.bind]
          have hp15 : d % 256 % 16 ≤ 15 := by omega
          rw [rangeCheck_ok _ 15 hp15, or3 cc.cmdval _ hc (by omega) hrel.1.1,
            newFrame_ok 16 _ (by omega) (by simp; omega)]
          simp only []
          rw [hput _ (by omega)]
          congr 2; omega
        | false =>
          simp only [hp, Bool.false_eq_true, if_false, beq_iff_eq] at hrel h
          injection h with h; subst h
          simp only [encode, hp, Bool.false_eq_true, if_false, bind, Except.bind, Nat.or_zero]
          rw [or_256 cc.cmdval hc, newFrame_ok 16 _ (by omega) (by simp; omega)]
          simp only [pure, Except.pure]
          rw [hput _ (by omega)]
          congr 2; omega

theorem dapc_sound (T : Tables) (hT : TableFacts T) (d : Nat) (hd : d < 2 ^ 16) (c : Cmd)
    (h : dapcFromFrame T ⟨16, d⟩ = some c) : encode c = .ok ⟨16, d⟩ := by
  have hd' : d < 65536 := by simpa using hd
  unfold dapcFromFrame at h
  simp only [bit, bitTest_eq, slice, getSliceRaw_eq, Nat.reducePow, Nat.reduceAdd, Nat.reduceSub,
    Nat.div_one] at h
  split at h
  · contradiction
  · rename_i h8
    simp only [decide_eq_true_eq] at h8
    split at h
    · contradiction
    · rename_i addr haddr
      injection h with h; subst h
      simp only [encode, bind, Except.bind]
      rw [rangeCheck_ok _ 255 (by omega), newFrame_ok 16 _ (by omega) (by simp; omega)]
      simp only []
      rw [addr16_put T.addrOrder hT.order d _ (by omega) addr haddr]
      congr 2; omega

theorem specialClass_sound (cc : SpecialClass) (hc : cc.cmdval < 256)
    (hk : cc.kind = .plain ∨ cc.hasparam = true) (d : Nat) (hd : d < 2 ^ 16) (c : Cmd)
    (h : specialClassFromFrame cc ⟨16, d⟩ = some c) : encode c = .ok ⟨16, d⟩ := by
  have hd' : d < 65536 := by simpa using hd
  unfold specialClassFromFrame at h
  simp only [bit, bitTest_eq, slice, getSliceRaw_eq, Nat.reducePow, Nat.reduceAdd, Nat.reduceSub,
    Nat.div_one] at h
  split at h
  · contradiction
  · rename_i hop
    simp only [bne_iff_ne, ne_eq, Decidable.not_not] at hop
    have hdd : d = cc.cmdval * 256 + d % 256 := by omega
    cases hkind : cc.kind with
    | plain =>
      simp only [hkind] at h
      cases hp : cc.hasparam with
      | true =>
        simp only [hp, if_true] at h
        injection h with h; subst h
        simp only [encode, hp, if_true, bind, Except.bind]
        rw [rangeCheck_ok _ 255 (by omega)]
        simp only []
        rw [newFrame_bytes2 _ _ hc (by omega)]
        congr 2; omega
      | false =>
        simp only [hp, Bool.false_eq_true, if_false] at h
        split at h
        · rename_i h0
          simp only [beq_iff_eq] at h0
          injection h with h; subst h
          simp only [encode, hp, Bool.false_eq_true, if_false, bind, Except.bind, pure, Except.pure]
          have := newFrame_bytes2 cc.cmdval 0 hc (by omega)
          show Frame.new (natVal 16) (.ints [(cc.cmdval : Int), ((0 : Nat) : Int)]) = _
          have e : cc.cmdval * 256 + 0 = d := by omega
          rw [this, e]
        · injection h with h; subst h; rfl
    | shortAddr =>
      simp only [hkind] at h
      split at h
      · injection h with h; subst h
        rename_i hff; simp only [beq_iff_eq] at hff
        simp only [encode, bind, Except.bind, pure, Except.pure]
        have := newFrame_bytes2 cc.cmdval 0xff hc (by omega)
        show Frame.new (natVal 16) (.ints [(cc.cmdval : Int), ((0xff : Nat) : Int)]) = _
        have e : cc.cmdval * 256 + 0xff = d := by omega
        rw [this, e]
      · split at h
        · rename_i hpat
          simp only [Bool.and_eq_true, Bool.not_eq_true', decide_eq_false_iff_not,
            decide_eq_true_eq] at hpat
          injection h with h; subst h
          simp only [encode, bind, Except.bind, pure, Except.pure]
          rw [rangeCheck_ok _ 63 (by omega)]
          simp only [shl1_or1]
          rw [newFrame_bytes2 _ _ hc (by omega)]
          congr 2; omega
        · contradiction
    | initialise =>
      simp only [hkind] at h
      split at h
      · injection h with h; subst h
        rename_i h0; simp only [beq_iff_eq] at h0
        simp only [encode, Bool.and_true, Option.isSome_none, Bool.false_eq_true, if_false,
          bind, Except.bind, pure, Except.pure, if_true, Bool.and_false]
        have := newFrame_bytes2 cc.cmdval 0 hc (by omega)
        show Frame.new (natVal 16) (.ints [(cc.cmdval : Int), ((0 : Nat) : Int)]) = _
        have e : cc.cmdval * 256 + 0 = d := by omega
        rw [this, e]
      · split at h
        · injection h with h; subst h
          rename_i _ hff; simp only [beq_iff_eq] at hff
          simp only [encode, Bool.false_and, Bool.false_eq_true, if_false,
            bind, Except.bind, pure, Except.pure]
          have := newFrame_bytes2 cc.cmdval 0xff hc (by omega)
          show Frame.new (natVal 16) (.ints [(cc.cmdval : Int), ((0xff : Nat) : Int)]) = _
          have e : cc.cmdval * 256 + 0xff = d := by omega
          rw [this, e]
        · split at h
          · rename_i hpat
            simp only [Bool.and_eq_true, Bool.not_eq_true', decide_eq_false_iff_not,
              decide_eq_true_eq] at hpat
            injection h with h; subst h
            simp only [encode, Bool.false_and, Bool.false_eq_true, if_false,
              bind, Except.bind, pure, Except.pure]
            rw [rangeCheck_ok _ 63 (by omega)]
            simp only [shl1_or1]
            rw [newFrame_bytes2 _ _ hc (by omega)]
            congr 2; omega
          · contradiction
    | custom => simp only [hkind] at h; contradiction

theorem special_sound (T : Tables) (hT : TableFacts T) (d : Nat) (hd : d < 2 ^ 16) (c : Cmd)
    (h : specialFromFrame T ⟨16, d⟩ = some c) : encode c = .ok ⟨16, d⟩ := by
  unfold specialFromFrame at h
  split at h
  · injection h with h; subst h; rfl
  · rename_i cc hl
    have hok := hT.special _ (lookup_mem hl)
    simp only [specialEntryOK, Bool.and_eq_true, beq_iff_eq, decide_eq_true_eq, bne_iff_ne, ne_eq,
      Bool.or_eq_true] at hok
    obtain ⟨⟨⟨hk, hlt⟩, _⟩, hkind⟩ := hok
    exact specialClass_sound cc (by omega) hkind d hd c h

theorem gear_sound (T : Tables) (hT : TableFacts T) (d dt : Nat) (hd : d < 2 ^ 16) :
    encode (gearFromFrame T ⟨16, d⟩ dt) = .ok ⟨16, d⟩ := by
  unfold gearFromFrame
  cases hf : T.gearCommands.findSome? _ with
  | none => rfl
  | some c =>
    obtain ⟨e, _, he⟩ := List.exists_of_findSome?_eq_some hf
    simp only [Option.getD_some]
    cases e with
    | unknown => simp at he
    | standard => exact std_sound T hT d dt hd c he
    | dapc => exact dapc_sound T hT d hd c he
    | special => exact special_sound T hT d hd c he
    | custom n => simp at he

end DaliVerif.Cmd
