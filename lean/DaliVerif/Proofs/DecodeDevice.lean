import DaliVerif.Proofs.DecodeGear
/-!
# C01 helper: soundness of 24-bit command decoding
-/
set_option linter.unusedSimpArgs false
namespace DaliVerif.Cmd
open Frame Spec

theorem or_1FE00 (c : Nat) (hc : c < 256) : 0x1FE00 ||| c = 0x1FE00 + c := by
  have := Nat.two_pow_add_eq_or_of_lt (i := 8) (b := c) (by simpa using hc) 0x1FE
  simpa using this.symm

theorem or_10000 (c : Nat) (hc : c < 256) : 0x10000 ||| c = 0x10000 + c := by
  have := Nat.two_pow_add_eq_or_of_lt (i := 16) (b := c) (by simp; omega) 1
  simpa using this.symm

theorem stdDevice_sound (T : Tables) (hT : TableFacts T) (d : Nat) (hd : d < 2 ^ 24) (c : Cmd)
    (h : stdDeviceFromFrame T ⟨24, d⟩ = some c) : encode c = .ok ⟨24, d⟩ := by
  have hd' : d < 16777216 := by simpa using hd
  unfold stdDeviceFromFrame at h
  simp only [slice, getSliceRaw_eq, Nat.reducePow, Nat.reduceAdd, Nat.reduceSub, Nat.div_one] at h
  split at h
  · contradiction
  · rename_i hfe
    simp only [bne_iff_ne, ne_eq, Decidable.not_not] at hfe
    split at h
    · contradiction
    · rename_i addr haddr
      split at h
      · injection h with h; subst h; rfl
      · rename_i cc hl
        have hok := hT.dev _ (lookup_mem hl)
        simp only [devEntryOK, Bool.and_eq_true, beq_iff_eq, decide_eq_true_eq] at hok
        obtain ⟨⟨hop, hlt⟩, _⟩ := hok
        injection h with h; subst h
        simp only [encode, bind, Except.bind]
        rw [or_1FE00 _ (by omega), newFrame_ok 24 _ (by omega) (by simp; omega)]
        simp only []
        rw [(addr24_put T.addrOrder hT.order d _ (by omega) addr haddr).2]
        congr 2; omega

theorem stdInstance_sound (T : Tables) (hT : TableFacts T) (d : Nat) (hd : d < 2 ^ 24) (c : Cmd)
    (h : stdInstanceFromFrame T ⟨24, d⟩ = some c) : encode c = .ok ⟨24, d⟩ := by
  have hd' : d < 16777216 := by simpa using hd
  unfold stdInstanceFromFrame at h
  simp only [bit, bitTest_eq, slice, getSliceRaw_eq, Nat.reducePow, Nat.reduceAdd, Nat.reduceSub,
    Nat.div_one] at h
  split at h
  · contradiction
  · rename_i h16
    split at h
    · rename_i addr inst haddr hinst
      rw [Inst.fromFrame_eq_ofByteModel] at hinst
      injection hinst with hinst
      have hB : d / 256 % 256 < 256 := Nat.mod_lt _ (by decide)
      have hbyte : inst.byte = d / 256 % 256 := by
        rw [← hinst]; exact Inst.byte_ofByteModel ⟨_, hB⟩
      split at h
      · injection h with h; subst h; rfl
      · rename_i cc hl
        have hok := hT.inst _ (lookup_mem hl)
        simp only [devEntryOK, Bool.and_eq_true, beq_iff_eq, decide_eq_true_eq] at hok
        obtain ⟨⟨hop, hlt⟩, _⟩ := hok
        injection h with h; subst h
        obtain ⟨hc16, hput⟩ := addr24_put T.addrOrder hT.order d (0x10000 + cc.opcode) (by omega) addr haddr
        simp only [encode, bind, Except.bind]
        rw [or_10000 _ (by omega), newFrame_ok 24 _ (by omega) (by simp; omega)]
        simp only []
        rw [hput]
        simp only []
        rw [Inst.addToFrame_ok inst (by omega) _ (by simp; omega), hbyte]
        simp only [setSliceA, Nat.reducePow, Nat.reduceAdd, Nat.reduceSub]
        congr 2; omega
    · contradiction

theorem devSpecial_sound (cs : DevSpecialClass) (hok : devCmdOK (.special cs) = true)
    (d : Nat) (hd : d < 2 ^ 24) (c : Cmd)
    (h : devSpecialFromFrame cs ⟨24, d⟩ = some c) : encode c = .ok ⟨24, d⟩ := by
  have hd' : d < 16777216 := by simpa using hd
  simp only [devCmdOK] at hok
  unfold devSpecialFromFrame at h
  simp only [slice, getSliceRaw_eq, Nat.reducePow, Nat.reduceAdd, Nat.reduceSub, Nat.div_one] at h
  cases hk : cs.kind with
  | zero =>
    simp only [hk, Bool.and_eq_true, decide_eq_true_eq] at h hok
    obtain ⟨haddr, hi⟩ := hok
    split at h
    · rename_i hm
      simp only [Bool.and_eq_true, beq_iff_eq] at hm
      injection h with h; subst h
      simp only [encode, hk, bind, Except.bind, pure, Except.pure]
      have := newFrame_bytes3 cs.addr cs.inst 0 haddr hi (by omega)
      show Frame.new (natVal 24) (.ints [(cs.addr : Int), (cs.inst : Int), ((0 : Nat) : Int)]) = _
      have e : (cs.addr * 256 + cs.inst) * 256 + 0 = d := by omega
      rw [this, e]
    · contradiction
  | one =>
    simp only [hk, Bool.and_eq_true, decide_eq_true_eq] at h hok
    obtain ⟨haddr, hi⟩ := hok
    split at h
    · rename_i hm
      simp only [Bool.and_eq_true, beq_iff_eq] at hm
      injection h with h; subst h
      simp only [encode, hk, bind, Except.bind, pure, Except.pure]
      rw [rangeCheck_ok _ 255 (by omega)]
      simp only []
      have := newFrame_bytes3 cs.addr cs.inst (d % 256) haddr hi (by omega)
      have e : (cs.addr * 256 + cs.inst) * 256 + d % 256 = d := by omega
      rw [this, e]
    · contradiction
  | two =>
    simp only [hk, decide_eq_true_eq] at h hok
    have haddr := hok
    split at h
    · rename_i hm
      simp only [beq_iff_eq] at hm
      injection h with h; subst h
      simp only [encode, hk, bind, Except.bind, pure, Except.pure]
      rw [rangeCheck_ok _ 255 (by omega)]
      simp only []
      rw [rangeCheck_ok _ 255 (by omega)]
      simp only []
      have := newFrame_bytes3 cs.addr (d / 256 % 256) (d % 256) haddr (by omega) (by omega)
      have e : (cs.addr * 256 + d / 256 % 256) * 256 + d % 256 = d := by omega
      rw [this, e]
    · contradiction
  | abstractBase => simp only [hk] at h; contradiction
  | custom => simp only [hk] at h; contradiction

theorem device_sound (T : Tables) (hT : TableFacts T) (d : Nat) (hd : d < 2 ^ 24) (c : Cmd)
    (h : deviceFromFrame T ⟨24, d⟩ = some c) : encode c = .ok ⟨24, d⟩ := by
  unfold deviceFromFrame at h
  split at h
  · contradiction
  · injection h with h
    cases hf : T.devCommands.findSome? _ with
    | none => rw [hf] at h; subst h; rfl
    | some c' =>
      rw [hf] at h
      simp only [Option.getD_some] at h
      subst h
      obtain ⟨e, hmem, he⟩ := List.exists_of_findSome?_eq_some hf
      cases e with
      | unknown => simp at he
      | stdDevice => exact stdDevice_sound T hT d hd _ he
      | stdInstance => exact stdInstance_sound T hT d hd _ he
      | special cs => exact devSpecial_sound cs (hT.devc _ hmem) d hd _ he
      | custom n => simp at he

end DaliVerif.Cmd
