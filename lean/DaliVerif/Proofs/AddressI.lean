import DaliVerif.Model.AddressI
import DaliVerif.Proofs.Address
import DaliVerif.Proofs.FrameI
import DaliVerif.Proofs.FrameOps
/-!
# The integer-level forms of `dali/address.py` equal the model / the standard's partition
-/
namespace DaliVerif.AddressI
open DaliVerif DaliVerif.Frame DaliVerif.Spec

def encAddr : Option Addr → String × Int
  | none => ("None", 0)
  | some .gearBroadcast => ("GearBroadcast", 0)
  | some .deviceBroadcast => ("DeviceBroadcast", 0)
  | some .gearUnaddressed => ("GearBroadcastUnaddressed", 0)
  | some .deviceUnaddressed => ("DeviceBroadcastUnaddressed", 0)
  | some (.gearGroup g) => ("GearGroup", g)
  | some (.deviceGroup g) => ("DeviceGroup", g)
  | some (.gearShort a) => ("GearShort", a)
  | some (.deviceShort a) => ("DeviceShort", a)

def encInst : Inst → String × Int
  | .number n => ("InstanceNumber", n)
  | .group n => ("InstanceGroup", n)
  | .type n => ("InstanceType", n)
  | .featNumber n => ("FeatureInstanceNumber", n)
  | .featGroup n => ("FeatureInstanceGroup", n)
  | .featType n => ("FeatureInstanceType", n)
  | .featBroadcast => ("FeatureInstanceBroadcast", 0)
  | .broadcast => ("InstanceBroadcast", 0)
  | .featDevice => ("FeatureDevice", 0)
  | .device => ("Device", 0)
  | .reserved b => ("ReservedInstance", b)

theorem sl_ofNat (n lo m : Nat) : sl (n : Int) lo m = (((n >>> lo) &&& m : Nat) : Int) := by
  unfold sl; rw [pyShr_ofNat, pyAnd_ofNat]

theorem and_mask (x k : Nat) : x &&& (2 ^ k - 1) = x % 2 ^ k := Nat.and_two_pow_sub_one_eq_mod x k

/-- `(n >> lo) & (2^k - 1)` in arithmetic form -/
theorem slice_arith (n lo k : Nat) : (n >>> lo) &&& (2 ^ k - 1) = n / 2 ^ lo % 2 ^ k := by
  rw [and_mask, Nat.shiftRight_eq_div_pow]

theorem bit_arith (n k : Nat) : (n &&& 2 ^ k = 0) ↔ n / 2 ^ k % 2 = 0 := by
  have h := testBit_and_one_shiftLeft n k
  have h2 := Nat.testBit_eq_decide_div_mod_eq (x := n) (i := k)
  simp only [getBitRaw, Nat.one_shiftLeft] at h
  have h3 : n / 2 ^ k % 2 < 2 := Nat.mod_lt _ (by decide)
  cases hb : n.testBit k
  · rw [hb] at h h2
    have : n &&& 2 ^ k = 0 := by simpa using h
    have : ¬ (n / 2 ^ k % 2 = 1) := by simpa using h2.symm
    omega
  · rw [hb] at h h2
    have : ¬ (n &&& 2 ^ k = 0) := by simpa using h
    have : n / 2 ^ k % 2 = 1 := by simpa using h2.symm
    omega

theorem ranged_ok {α} (v : Nat) (hi : Nat) (k : Except PyErr α) (h : v ≤ hi) :
    ranged (v : Int) hi k = k := by
  unfold ranged
  have h1 : ¬ ((v : Int) < 0) := by omega
  have h2 : ¬ ((v : Int) > hi) := by omega
  simp [h1, h2]

theorem fromFrame16_model (n : Nat) :
    AddressI.fromFrame16 n = .ok (encAddr (partition ⟨16, n⟩)) := by
  have e127 : (n >>> 9) &&& 127 = n / 512 % 128 := slice_arith n 9 7
  have e7 : (n >>> 13) &&& 7 = n / 8192 % 8 := slice_arith n 13 3
  have e15 : (n >>> 9) &&& 15 = n / 512 % 16 := slice_arith n 9 4
  have e63 : (n >>> 9) &&& 63 = n / 512 % 64 := slice_arith n 9 6
  have eb : (n &&& 32768 = 0) ↔ n / 32768 % 2 = 0 := bit_arith n 15
  unfold AddressI.fromFrame16
  simp only [sl_ofNat, e127, e7, e15, e63, partition, gearPartition, if_true]
  have hbit : (pyAnd (n : Int) 32768 ≠ 0) ↔ ¬ (n / 32768 % 2 = 0) := by
    rw [show (32768 : Int) = ((32768 : Nat) : Int) from rfl, pyAnd_ofNat]
    rw [← eb]; omega
  simp only [hbit]
  rw [ranged_ok _ _ _ (by omega), ranged_ok _ _ _ (by omega)]
  generalize hb : n / 512 % 128 = b
  have hb' : b < 128 := by omega
  have r1 : n / 8192 % 8 = b / 16 := by omega
  have r2 : n / 512 % 16 = b % 16 := by omega
  have r3 : n / 512 % 64 = b % 64 := by omega
  have r4 : n / 32768 % 2 = b / 64 := by omega
  rw [r1, r2, r3, r4]
  by_cases c1 : b < 64
  · have : ¬ ((b : Int) = 127) := by omega
    have : ¬ ((b : Int) = 126) := by omega
    have : ¬ ((b : Int) / 16 = 4) := by omega
    have : b / 64 = 0 := by omega
    have : b % 64 = b := by omega
    simp [*, encAddr]
  · by_cases c2 : b < 80
    · have : ¬ ((b : Int) = 127) := by omega
      have : ¬ ((b : Int) = 126) := by omega
      have : ((b : Int) / 16 = 4) := by omega
      have : b % 16 = b - 64 := by omega
      simp [*, encAddr]
    · by_cases c3 : b = 126
      · subst c3; simp [encAddr]
      · by_cases c4 : b = 127
        · subst c4; simp [encAddr]
        · have : ¬ ((b : Int) = 127) := by omega
          have : ¬ ((b : Int) = 126) := by omega
          have : ¬ ((b : Int) / 16 = 4) := by omega
          have : ¬ (b / 64 = 0) := by omega
          simp [*, encAddr]


theorem pyAnd_lit_ne (n k : Nat) : (pyAnd (n : Int) ((2 ^ k : Nat) : Int) ≠ 0) ↔ ¬ (n / 2 ^ k % 2 = 0) := by
  rw [pyAnd_ofNat, ← bit_arith]; omega

theorem pyAnd_lit_eq (n k : Nat) : (pyAnd (n : Int) ((2 ^ k : Nat) : Int) = 0) ↔ (n / 2 ^ k % 2 = 0) := by
  rw [pyAnd_ofNat, ← bit_arith]; omega

theorem fromFrame24_model (n : Nat) :
    AddressI.fromFrame24 n = .ok (encAddr (partition ⟨24, n⟩)) := by
  have e127 : (n >>> 17) &&& 127 = n / 131072 % 128 := slice_arith n 17 7
  have e3 : (n >>> 22) &&& 3 = n / 4194304 % 4 := slice_arith n 22 2
  have e31 : (n >>> 17) &&& 31 = n / 131072 % 32 := slice_arith n 17 5
  have e63 : (n >>> 17) &&& 63 = n / 131072 % 64 := slice_arith n 17 6
  have hb16 : (pyAnd (n : Int) 65536 = 0) ↔ (n / 65536 % 2 = 0) := pyAnd_lit_eq n 16
  have hb23 : (pyAnd (n : Int) 8388608 ≠ 0) ↔ ¬ (n / 8388608 % 2 = 0) := pyAnd_lit_ne n 23
  unfold AddressI.fromFrame24
  simp only [sl_ofNat, e127, e3, e31, e63, partition, devicePartition, hb16, hb23]
  rw [ranged_ok _ _ _ (by omega), ranged_ok _ _ _ (by omega)]
  generalize hb : n / 131072 % 128 = b
  generalize hc : n / 65536 % 2 = c
  have hb' : b < 128 := by omega
  have hc' : c < 2 := by omega
  have r1 : n / 4194304 % 4 = b / 32 := by omega
  have r2 : n / 131072 % 32 = b % 32 := by omega
  have r3 : n / 131072 % 64 = b % 64 := by omega
  have r4 : n / 8388608 % 2 = b / 64 := by omega
  rw [r1, r2, r3, r4]
  have h24 : ¬ ((24 : Nat) = 16) := by decide
  simp only [h24, if_false, if_true]
  by_cases c0 : c = 0
  · subst c0; simp [encAddr]
  · have c1 : c = 1 := by omega
    subst c1
    by_cases d1 : b < 64
    · have : ¬ ((b : Int) = 127) := by omega
      have : ¬ ((b : Int) = 126) := by omega
      have : ¬ ((b : Int) / 32 = 2) := by omega
      have : b / 64 = 0 := by omega
      have : b % 64 = b := by omega
      simp [*, encAddr]
    · by_cases d2 : b < 96
      · have : ¬ ((b : Int) = 127) := by omega
        have : ¬ ((b : Int) = 126) := by omega
        have : ((b : Int) / 32 = 2) := by omega
        have : b % 32 = b - 64 := by omega
        simp [*, encAddr]
      · by_cases d3 : b = 126
        · subst d3; simp [encAddr]
        · by_cases d4 : b = 127
          · subst d4; simp [encAddr]
          · have : ¬ ((b : Int) = 127) := by omega
            have : ¬ ((b : Int) = 126) := by omega
            have : ¬ ((b : Int) / 32 = 2) := by omega
            have : ¬ (b / 64 = 0) := by omega
            simp [*, encAddr]


theorem instFromFrame24_model (n : Nat) :
    AddressI.instFromFrame24 n = .ok (encInst (instOfByte (n / 256 % 256))) := by
  have e7 : (n >>> 13) &&& 7 = n / 8192 % 8 := slice_arith n 13 3
  have e31 : (n >>> 8) &&& 31 = n / 256 % 32 := slice_arith n 8 5
  have e255 : (n >>> 8) &&& 255 = n / 256 % 256 := slice_arith n 8 8
  unfold AddressI.instFromFrame24
  simp only [sl_ofNat, e7, e31, e255]
  rw [ranged_ok _ _ _ (by omega)]
  generalize hb : n / 256 % 256 = b
  have hb' : b < 256 := by omega
  have r1 : n / 8192 % 8 = b / 32 := by omega
  have r2 : n / 256 % 32 = b % 32 := by omega
  rw [r1, r2]
  unfold instOfByte
  by_cases c0 : b < 32
  · have hq : b / 32 = 0 := by omega
    have hm : b % 32 = b := by omega
    have : ((b : Int) / 32 = 0) := by omega
    have : ¬ ((b : Int) / 32 = 4) := by omega
    have : ¬ ((b : Int) / 32 = 6) := by omega
    have : ¬ ((b : Int) / 32 = 1) := by omega
    have : ¬ ((b : Int) / 32 = 5) := by omega
    have : ¬ ((b : Int) / 32 = 3) := by omega
    have : ¬ ((b : Int) = 253) := by omega
    have : ¬ ((b : Int) = 255) := by omega
    have : ¬ ((b : Int) = 252) := by omega
    have : ¬ ((b : Int) = 254) := by omega
    simp [*, encInst] <;> exact ranged_ok _ _ _ (by omega)
  by_cases c1 : b < 64
  · have hq : b / 32 = 1 := by omega
    have hm : b % 32 = b - 32 := by omega
    have : ¬ ((b : Int) / 32 = 0) := by omega
    have : ¬ ((b : Int) / 32 = 4) := by omega
    have : ¬ ((b : Int) / 32 = 6) := by omega
    have : ((b : Int) / 32 = 1) := by omega
    have : ¬ ((b : Int) / 32 = 5) := by omega
    have : ¬ ((b : Int) / 32 = 3) := by omega
    have : ¬ ((b : Int) = 253) := by omega
    have : ¬ ((b : Int) = 255) := by omega
    have : ¬ ((b : Int) = 252) := by omega
    have : ¬ ((b : Int) = 254) := by omega
    simp [*, encInst] <;> exact ranged_ok _ _ _ (by omega)
  by_cases c2 : b < 96
  · have hq : b / 32 = 2 := by omega
    have : ¬ ((b : Int) / 32 = 0) := by omega
    have : ¬ ((b : Int) / 32 = 4) := by omega
    have : ¬ ((b : Int) / 32 = 6) := by omega
    have : ¬ ((b : Int) / 32 = 1) := by omega
    have : ¬ ((b : Int) / 32 = 5) := by omega
    have : ¬ ((b : Int) / 32 = 3) := by omega
    have : ¬ ((b : Int) = 253) := by omega
    have : ¬ ((b : Int) = 255) := by omega
    have : ¬ ((b : Int) = 252) := by omega
    have : ¬ ((b : Int) = 254) := by omega
    simp [*, encInst] <;> exact ranged_ok _ _ _ (by omega)
  by_cases c3 : b < 128
  · have hq : b / 32 = 3 := by omega
    have hm : b % 32 = b - 96 := by omega
    have : ¬ ((b : Int) / 32 = 0) := by omega
    have : ¬ ((b : Int) / 32 = 4) := by omega
    have : ¬ ((b : Int) / 32 = 6) := by omega
    have : ¬ ((b : Int) / 32 = 1) := by omega
    have : ¬ ((b : Int) / 32 = 5) := by omega
    have : ((b : Int) / 32 = 3) := by omega
    have : ¬ ((b : Int) = 253) := by omega
    have : ¬ ((b : Int) = 255) := by omega
    have : ¬ ((b : Int) = 252) := by omega
    have : ¬ ((b : Int) = 254) := by omega
    simp [*, encInst] <;> exact ranged_ok _ _ _ (by omega)
  by_cases c4 : b < 160
  · have hq : b / 32 = 4 := by omega
    have hm : b % 32 = b - 128 := by omega
    have : ¬ ((b : Int) / 32 = 0) := by omega
    have : ((b : Int) / 32 = 4) := by omega
    have : ¬ ((b : Int) / 32 = 6) := by omega
    have : ¬ ((b : Int) / 32 = 1) := by omega
    have : ¬ ((b : Int) / 32 = 5) := by omega
    have : ¬ ((b : Int) / 32 = 3) := by omega
    have : ¬ ((b : Int) = 253) := by omega
    have : ¬ ((b : Int) = 255) := by omega
    have : ¬ ((b : Int) = 252) := by omega
    have : ¬ ((b : Int) = 254) := by omega
    simp [*, encInst] <;> exact ranged_ok _ _ _ (by omega)
  by_cases c5 : b < 192
  · have hq : b / 32 = 5 := by omega
    have hm : b % 32 = b - 160 := by omega
    have : ¬ ((b : Int) / 32 = 0) := by omega
    have : ¬ ((b : Int) / 32 = 4) := by omega
    have : ¬ ((b : Int) / 32 = 6) := by omega
    have : ¬ ((b : Int) / 32 = 1) := by omega
    have : ((b : Int) / 32 = 5) := by omega
    have : ¬ ((b : Int) / 32 = 3) := by omega
    have : ¬ ((b : Int) = 253) := by omega
    have : ¬ ((b : Int) = 255) := by omega
    have : ¬ ((b : Int) = 252) := by omega
    have : ¬ ((b : Int) = 254) := by omega
    simp [*, encInst] <;> exact ranged_ok _ _ _ (by omega)
  by_cases c6 : b < 224
  · have hq : b / 32 = 6 := by omega
    have hm : b % 32 = b - 192 := by omega
    have : ¬ ((b : Int) / 32 = 0) := by omega
    have : ¬ ((b : Int) / 32 = 4) := by omega
    have : ((b : Int) / 32 = 6) := by omega
    have : ¬ ((b : Int) / 32 = 1) := by omega
    have : ¬ ((b : Int) / 32 = 5) := by omega
    have : ¬ ((b : Int) / 32 = 3) := by omega
    have : ¬ ((b : Int) = 253) := by omega
    have : ¬ ((b : Int) = 255) := by omega
    have : ¬ ((b : Int) = 252) := by omega
    have : ¬ ((b : Int) = 254) := by omega
    simp [*, encInst] <;> exact ranged_ok _ _ _ (by omega)
  by_cases d0 : b < 252
  · have hq : b / 32 = 7 := by omega
    have : ¬ ((b : Int) / 32 = 0) := by omega
    have : ¬ ((b : Int) / 32 = 4) := by omega
    have : ¬ ((b : Int) / 32 = 6) := by omega
    have : ¬ ((b : Int) / 32 = 1) := by omega
    have : ¬ ((b : Int) / 32 = 5) := by omega
    have : ¬ ((b : Int) / 32 = 3) := by omega
    have : ¬ ((b : Int) = 253) := by omega
    have : ¬ ((b : Int) = 255) := by omega
    have : ¬ ((b : Int) = 252) := by omega
    have : ¬ ((b : Int) = 254) := by omega
    simp [*, encInst] <;> exact ranged_ok _ _ _ (by omega)
  by_cases d1 : b = 252
  · subst d1; simp [encInst]
  by_cases d2 : b = 253
  · subst d2; simp [encInst]
  by_cases d3 : b = 254
  · subst d3; simp [encInst]
  have d4 : b = 255 := by omega
  subst d4; simp [encInst]


/-! ## writing addresses -/

def dataOf (r : PyRes Frame) : Except PyErr Int := r.map (fun f => (f.data : Int))

theorem fits_ok {α} (v w : Nat) (k : Except PyErr α) (h : v < 2 ^ w) : fits (v : Int) w k = k := by
  have := (value_checks (v : Int) w).mpr ⟨Int.natCast_nonneg _, by exact_mod_cast h⟩
  unfold fits
  simp [this.1, this.2]

theorem put_ofNat (d keep v lo : Nat) :
    put (d : Int) keep (v : Int) lo = (((d &&& keep) ||| (v <<< lo) : Nat) : Int) := by
  unfold put; rw [pyAnd_ofNat, pyShl_ofNat, pyOr_ofNat]

theorem ranged_neg {α} (v : Int) (hi : Nat) (k : Except PyErr α) (h : v < 0 ∨ v > hi) :
    ranged v hi k = .error .ValueError := by
  unfold ranged; split
  · rfl
  · split
    · rfl
    · omega

theorem setSliceRaw_lit (bits d hi lo v keep : Nat)
    (h : mask bits ^^^ (mask (hi + 1 - lo) <<< lo) = keep) :
    setSliceRaw bits d hi lo v = (d &&& keep) ||| (v <<< lo) := by
  simp only [setSliceRaw, h]

theorem setBitRaw_false_lit (bits d k keep : Nat) (h : mask bits ^^^ (1 <<< k) = keep) :
    setBitRaw bits d k false = d &&& keep := by
  simp [setBitRaw, h]

theorem addGearShort_model (d : Nat) (n : Int) :
    AddressI.addGearShort d n =
      (Addr.mkGearShort (.int n)).bind (fun a => dataOf (a.addToFrame ⟨16, d⟩)) := by
  unfold AddressI.addGearShort Addr.mkGearShort Addr.mkNumbered
  simp only [PyVal.asInt?]
  by_cases h : n < 0 ∨ n > 63
  · rw [ranged_neg _ _ _ (by omega)]
    have h' : n < 0 ∨ 63 < n := by omega
    simp [h', Except.bind]
  · obtain ⟨s, rfl⟩ : ∃ s : Nat, n = s := ⟨n.toNat, by omega⟩
    have hs : s ≤ 63 := by omega
    have h' : ¬ ((s : Int) < 0 ∨ 63 < (s : Int)) := by omega
    rw [ranged_ok _ _ _ hs, fits_ok _ _ _ (by omega : s < 2 ^ 6)]
    rw [show (32767 : Int) = ((32767 : Nat) : Int) from rfl, pyAnd_ofNat]
    rw [put_ofNat]
    have hm : (Addr.gearShort s).addToFrame ⟨16, d⟩ = .ok ⟨16, (d &&& 32767 &&& 33279) ||| (s <<< 9)⟩ := by
      simp only [Addr.addToFrame, Addr.frameSize, Addr.isGear]
      rw [setSliceRaw_lit 16 _ 14 9 _ 33279 (by decide), setBitRaw_false_lit 16 _ 15 32767 (by decide)]
      rfl
    simp [h', Except.bind, dataOf, Except.map, hm]

theorem addDeviceShort_model (d : Nat) (n : Int) :
    AddressI.addDeviceShort d n =
      (Addr.mkDeviceShort (.int n)).bind (fun a => dataOf (a.addToFrame ⟨24, d⟩)) := by
  unfold AddressI.addDeviceShort Addr.mkDeviceShort Addr.mkNumbered
  simp only [PyVal.asInt?]
  by_cases h : n < 0 ∨ n > 63
  · rw [ranged_neg _ _ _ (by omega)]
    have h' : n < 0 ∨ 63 < n := by omega
    simp [h', Except.bind]
  · obtain ⟨s, rfl⟩ : ∃ s : Nat, n = s := ⟨n.toNat, by omega⟩
    have hs : s ≤ 63 := by omega
    have h' : ¬ ((s : Int) < 0 ∨ 63 < (s : Int)) := by omega
    rw [ranged_ok _ _ _ hs, fits_ok _ _ _ (by omega : s < 2 ^ 6)]
    rw [show (8388607 : Int) = ((8388607 : Nat) : Int) from rfl, pyAnd_ofNat]
    rw [put_ofNat]
    have hm : (Addr.deviceShort s).addToFrame ⟨24, d⟩ = .ok ⟨24, (d &&& 8388607 &&& 8519679) ||| (s <<< 17)⟩ := by
      simp only [Addr.addToFrame, Addr.frameSize, Addr.isGear]
      rw [setSliceRaw_lit 24 _ 22 17 _ 8519679 (by decide), setBitRaw_false_lit 24 _ 23 8388607 (by decide)]
      rfl
    simp [h', Except.bind, dataOf, Except.map, hm]

theorem addGearGroup_model (d : Nat) (n : Int) :
    AddressI.addGearGroup d n =
      (Addr.mkGearGroup (.int n)).bind (fun a => dataOf (a.addToFrame ⟨16, d⟩)) := by
  unfold AddressI.addGearGroup Addr.mkGearGroup Addr.mkNumbered
  simp only [PyVal.asInt?]
  by_cases h : n < 0 ∨ n > 15
  · rw [ranged_neg _ _ _ (by omega)]
    have h' : n < 0 ∨ 15 < n := by omega
    simp [h', Except.bind]
  · obtain ⟨s, rfl⟩ : ∃ s : Nat, n = s := ⟨n.toNat, by omega⟩
    have hs : s ≤ 15 := by omega
    have h' : ¬ ((s : Int) < 0 ∨ 15 < (s : Int)) := by omega
    rw [ranged_ok _ _ _ hs, fits_ok _ _ _ (by omega : s < 2 ^ 4)]
    rw [show (8191 : Int) = ((8191 : Nat) : Int) from rfl, show (32768 : Int) = ((32768 : Nat) : Int) from rfl, pyAnd_ofNat, pyOr_ofNat]
    rw [put_ofNat]
    have hm : (Addr.gearGroup s).addToFrame ⟨16, d⟩ = .ok ⟨16, ((d &&& 8191 ||| 32768) &&& 57855) ||| (s <<< 9)⟩ := by
      simp only [Addr.addToFrame, Addr.frameSize, Addr.isGear]
      rw [setSliceRaw_lit 16 _ 12 9 _ 57855 (by decide), setSliceRaw_lit 16 _ 15 13 _ 8191 (by decide)]
      rfl
    simp [h', Except.bind, dataOf, Except.map, hm]

theorem addDeviceGroup_model (d : Nat) (n : Int) :
    AddressI.addDeviceGroup d n =
      (Addr.mkDeviceGroup (.int n)).bind (fun a => dataOf (a.addToFrame ⟨24, d⟩)) := by
  unfold AddressI.addDeviceGroup Addr.mkDeviceGroup Addr.mkNumbered
  simp only [PyVal.asInt?]
  by_cases h : n < 0 ∨ n > 31
  · rw [ranged_neg _ _ _ (by omega)]
    have h' : n < 0 ∨ 31 < n := by omega
    simp [h', Except.bind]
  · obtain ⟨s, rfl⟩ : ∃ s : Nat, n = s := ⟨n.toNat, by omega⟩
    have hs : s ≤ 31 := by omega
    have h' : ¬ ((s : Int) < 0 ∨ 31 < (s : Int)) := by omega
    rw [ranged_ok _ _ _ hs, fits_ok _ _ _ (by omega : s < 2 ^ 5)]
    rw [show (4194303 : Int) = ((4194303 : Nat) : Int) from rfl, show (8388608 : Int) = ((8388608 : Nat) : Int) from rfl, pyAnd_ofNat, pyOr_ofNat]
    rw [put_ofNat]
    have hm : (Addr.deviceGroup s).addToFrame ⟨24, d⟩ = .ok ⟨24, ((d &&& 4194303 ||| 8388608) &&& 12713983) ||| (s <<< 17)⟩ := by
      simp only [Addr.addToFrame, Addr.frameSize, Addr.isGear]
      rw [setSliceRaw_lit 24 _ 21 17 _ 12713983 (by decide), setSliceRaw_lit 24 _ 23 22 _ 4194303 (by decide)]
      rfl
    simp [h', Except.bind, dataOf, Except.map, hm]

theorem addGearBroadcast_model (d : Nat) :
    AddressI.addGearBroadcast d = dataOf (Addr.gearBroadcast.addToFrame ⟨16, d⟩) := by
  unfold AddressI.addGearBroadcast
  rw [show (511 : Int) = ((511 : Nat) : Int) from rfl, show (65024 : Int) = ((65024 : Nat) : Int) from rfl,
    pyAnd_ofNat, pyOr_ofNat]
  have hm : Addr.gearBroadcast.addToFrame ⟨16, d⟩ = .ok ⟨16, (d &&& 511) ||| 65024⟩ := by
    simp only [Addr.addToFrame, Addr.frameSize, Addr.isGear]
    rw [setSliceRaw_lit 16 _ 15 9 _ 511 (by decide)]
    rfl
  simp [dataOf, Except.map, hm]

theorem addGearBroadcastUnaddressed_model (d : Nat) :
    AddressI.addGearBroadcastUnaddressed d = dataOf (Addr.gearUnaddressed.addToFrame ⟨16, d⟩) := by
  unfold AddressI.addGearBroadcastUnaddressed
  rw [show (511 : Int) = ((511 : Nat) : Int) from rfl, show (64512 : Int) = ((64512 : Nat) : Int) from rfl,
    pyAnd_ofNat, pyOr_ofNat]
  have hm : Addr.gearUnaddressed.addToFrame ⟨16, d⟩ = .ok ⟨16, (d &&& 511) ||| 64512⟩ := by
    simp only [Addr.addToFrame, Addr.frameSize, Addr.isGear]
    rw [setSliceRaw_lit 16 _ 15 9 _ 511 (by decide)]
    rfl
  simp [dataOf, Except.map, hm]

theorem addDeviceBroadcast_model (d : Nat) :
    AddressI.addDeviceBroadcast d = dataOf (Addr.deviceBroadcast.addToFrame ⟨24, d⟩) := by
  unfold AddressI.addDeviceBroadcast
  rw [show (131071 : Int) = ((131071 : Nat) : Int) from rfl, show (16646144 : Int) = ((16646144 : Nat) : Int) from rfl,
    pyAnd_ofNat, pyOr_ofNat]
  have hm : Addr.deviceBroadcast.addToFrame ⟨24, d⟩ = .ok ⟨24, (d &&& 131071) ||| 16646144⟩ := by
    simp only [Addr.addToFrame, Addr.frameSize, Addr.isGear]
    rw [setSliceRaw_lit 24 _ 23 17 _ 131071 (by decide)]
    rfl
  simp [dataOf, Except.map, hm]

theorem addDeviceBroadcastUnaddressed_model (d : Nat) :
    AddressI.addDeviceBroadcastUnaddressed d = dataOf (Addr.deviceUnaddressed.addToFrame ⟨24, d⟩) := by
  unfold AddressI.addDeviceBroadcastUnaddressed
  rw [show (131071 : Int) = ((131071 : Nat) : Int) from rfl, show (16515072 : Int) = ((16515072 : Nat) : Int) from rfl,
    pyAnd_ofNat, pyOr_ofNat]
  have hm : Addr.deviceUnaddressed.addToFrame ⟨24, d⟩ = .ok ⟨24, (d &&& 131071) ||| 16515072⟩ := by
    simp only [Addr.addToFrame, Addr.frameSize, Addr.isGear]
    rw [setSliceRaw_lit 24 _ 23 17 _ 131071 (by decide)]
    rfl
  simp [dataOf, Except.map, hm]


/-! ## writing instance bytes -/

theorem setSlice_15_8 (d : Nat) (v : Int) :
    FrameI.setSlice 24 d 15 8 v = fits v 8 (.ok (24, put d 16711935 v 8)) := by
  have k : pyXor (pyShl 1 24 - 1) (pyShl (pyShl 1 (15 + 1 - 8) - 1) 8) = 16711935 := by decide
  have hhi : FrameI.hi 15 8 = 15 := by decide
  have hlo : FrameI.lo 15 8 = 8 := by decide
  have hc : FrameI.sliceCheck 24 15 8 = none := by decide
  unfold FrameI.setSlice fits put
  simp only [hc, hhi, hlo, k]
  rfl

theorem inst_add_general (i : Inst) (d : Nat) :
    dataOf (i.addToFrame ⟨24, d⟩) = fits (i.byte : Int) 8 (.ok (put d 16711935 (i.byte : Int) 8)) := by
  have h24 : ((24 : Nat) != 24) = false := by decide
  simp only [Inst.addToFrame, h24, Bool.false_eq_true, if_false]
  rw [FrameI.setSlice_model]
  rw [show (((24 : Nat) : Int)) = (24 : Int) from rfl, setSlice_15_8]
  unfold fits dataOf
  split
  · rfl
  · split
    · rfl
    · simp only [Except.map, FrameI.toFrame, put_ofNat, Int.toNat_natCast]

theorem addInst_model (mk : Nat → Inst) (flags : Nat) (hbyte : ∀ s, (mk s).byte = flags ||| s)
    (d : Nat) (n : Int) :
    AddressI.addInst flags d n =
      (Inst.mkNumbered mk (.int n)).bind (fun i => dataOf (i.addToFrame ⟨24, d⟩)) := by
  unfold AddressI.addInst Inst.mkNumbered
  simp only [PyVal.asInt?]
  by_cases h : n < 0 ∨ n > 31
  · rw [ranged_neg _ _ _ (by omega)]
    have h' : n < 0 ∨ 31 < n := by omega
    simp [h', Except.bind]
  · obtain ⟨s, rfl⟩ : ∃ s : Nat, n = s := ⟨n.toNat, by omega⟩
    have hs : s ≤ 31 := by omega
    have h' : ¬ ((s : Int) < 0 ∨ 31 < (s : Int)) := by omega
    rw [ranged_ok _ _ _ hs]
    simp only [h', Bool.or_eq_true, decide_eq_true_eq, if_false, Except.bind, Int.toNat_natCast,
      gt_iff_lt]
    rw [inst_add_general, hbyte, pyOr_ofNat]

theorem addReserved_model (d b : Nat) :
    AddressI.addReservedInstance d b = dataOf ((Inst.reserved b).addToFrame ⟨24, d⟩) := by
  rw [inst_add_general]; rfl

theorem addPlain_model (i : Inst) (d : Nat) (hb : i.byte < 256) :
    AddressI.addPlain (i.byte <<< 8) d = dataOf (i.addToFrame ⟨24, d⟩) := by
  rw [inst_add_general, fits_ok _ _ _ (by simpa using hb), put_ofNat]
  unfold AddressI.addPlain
  rw [show (16711935 : Int) = ((16711935 : Nat) : Int) from rfl, pyAnd_ofNat, pyOr_ofNat]

end DaliVerif.AddressI
