import DaliVerif.Proofs.GearSeqC07b
/-!
# C07, part c: the inner loop of `Commissioning` against the specification bus

* the *addressing view* `V` of a unit (short address, initialisation state, random address, draw stream, fault
  flags) and what each commissioning command does to it (`v_prog`, `v_wd`, `v_rand`, `v_term`, `v_ini`, `v_quiet`);
* answers of the bus to VERIFY SHORT ADDRESS / QUERY CONTROL GEAR PRESENT in terms of views;
* `innerRest_bus`, `afterFound_bus` (one iteration: program — or not, in a dry run —, verify, withdraw) and
  `inner_bus` (the whole inner loop), for every bus, by induction on the loop budget.
-/
namespace DaliVerif.GearSeq
set_option linter.unusedSimpArgs false
set_option linter.unusedVariables false

/-! ## The addressing view of a unit -/

structure V where
  short : Option Nat
  init : InitState
  random : Nat
  draws : List Nat
  noStore : Bool
  noVerify : Bool
  deriving DecidableEq, Repr

def Gear.v (u : Gear) : V := ⟨u.short, u.init, u.random, u.draws, u.noStore, u.noVerify⟩
def view (b : Bus) : List V := b.map Gear.v

namespace V
def prog (m a : Nat) (v : V) : V :=
  if v.init ≠ .disabled ∧ v.random = m ∧ v.noStore = false then { v with short := some a } else v
def wd (m : Nat) (v : V) : V :=
  if v.init = .enabled ∧ v.random = m then { v with init := .withdrawn } else v
def rand (v : V) : V :=
  if v.init = .disabled then v else
  match v.draws with
  | [] => v
  | d :: ds => { v with random := d, draws := ds }
def term (v : V) : V := { v with init := .disabled }
def ini (a : Nat) (v : V) : V :=
  if a = 0 ∨ (a = 0xFF ∧ v.short = none) ∨ (a % 2 = 1 ∧ a < 128 ∧ v.short = some (a / 2))
  then { v with init := .enabled } else v
def unaddr (v : V) : V := { v with short := none }
end V

theorem view_exec (b : Bus) (c : Cmd) (f : V → V) (h : ∀ u ∈ b, (u.execSt c).v = f u.v) :
    view (Bus.exec b c).2 = (view b).map f := by
  simp only [view, Bus.exec_st, List.map_map]
  apply List.map_congr_left
  intro u hu
  exact h u hu

/-- commands that leave the addressing view of every unit alone -/
def IsQuiet : Cmd → Prop
  | .searchH _ | .searchM _ | .searchL _ | .compare | .verifyShort _ | .queryGearPresent _ | .dtr0 _ => True
  | _ => False

theorem v_quiet (u : Gear) (c : Cmd) (hc : IsQuiet c) : (u.execSt c).v = u.v := by
  cases c <;> (try exact hc.elim) <;>
    (simp only [Gear.execSt, Cmd.devicetype, if_true, Gear.step]; first | rfl | (split <;> rfl))

theorem v_prog (u : Gear) (m a : Nat) (h : u.init ≠ .disabled → u.search = m) :
    (u.execSt (.programShort a)).v = V.prog m a u.v := by
  simp only [Gear.execSt, Cmd.devicetype, if_true, Gear.step, V.prog, Gear.v]
  by_cases hd : u.init = .disabled
  · simp [hd, Gear.tick]
  · have := h hd
    subst this
    by_cases hc : u.random = u.search ∧ u.noStore = false
    · simp [hd, hc, Gear.tick]
    · have hc' : ¬ (u.init ≠ .disabled ∧ u.random = u.search ∧ u.noStore = false) := fun x => hc x.2
      simp only [hc', if_false]
      rfl

theorem v_wd (u : Gear) (m : Nat) (h : u.init ≠ .disabled → u.search = m) :
    (u.execSt .withdraw).v = V.wd m u.v := by
  simp only [Gear.execSt, Cmd.devicetype, if_true, Gear.step, V.wd, Gear.v]
  by_cases he : u.init = .enabled
  · have := h (by rw [he]; decide)
    subst this
    by_cases hc : u.random = u.search
    · simp [he, hc, Gear.tick]
    · simp [he, hc, Gear.tick]
  · simp [he, Gear.tick]

theorem v_rand (u : Gear) : (u.execSt .randomise).v = V.rand u.v := by
  simp only [Gear.execSt, Cmd.devicetype, if_true, Gear.step, V.rand, Gear.v]
  by_cases hd : u.init = .disabled
  · simp [hd, Gear.tick]
  · simp only [hd, if_false]
    cases hdr : u.draws <;> simp [Gear.tick, hdr]

theorem v_term (u : Gear) : (u.execSt .terminate).v = V.term u.v := rfl

theorem v_ini (u : Gear) (a : Nat) : (u.execSt (.initialise a)).v = V.ini a u.v := by
  simp only [Gear.execSt, Cmd.devicetype, if_true, Gear.step, V.ini, Gear.v]
  by_cases hc : a = 0 ∨ (a = 0xFF ∧ u.short = none) ∨ (a % 2 = 1 ∧ a < 128 ∧ u.short = some (a / 2))
  · simp only [hc, if_true]; rfl
  · simp only [hc, if_false]; rfl

theorem v_unaddr (u : Gear) :
    ((u.execSt (.dtr0 255)).execSt (.setShortAddress .broadcast)).v = V.unaddr u.v := by
  simp [Gear.execSt, Cmd.devicetype, Gear.step, Gear.addressed, Gear.tick, V.unaddr, Gear.v]


theorem foldl_v_quiet (t : List Cmd) (h : ∀ c ∈ t, IsQuiet c) (u : Gear) :
    (t.foldl Gear.execSt u).v = u.v := by
  induction t generalizing u with
  | nil => rfl
  | cons c t ih =>
    simp only [List.foldl_cons]
    rw [ih (fun d hd => h d (List.mem_cons_of_mem _ hd)), v_quiet u c (h c (List.mem_cons_self ..))]

theorem view_quiet {α : Type} (p : Prog α) (b : Bus) (h : ∀ c ∈ (runBus p b).trace, IsQuiet c) :
    view (runBus p b).st = view b := by
  rw [runBus_st]
  simp only [view, List.map_map]
  apply List.map_congr_left
  intro u _
  exact foldl_v_quiet _ h u

theorem Synced_exec (b : Bus) (c : Cmd) (m : Nat)
    (h : ∀ u : Gear, ((u.execSt c).init ≠ .disabled → u.init ≠ .disabled) ∧ (u.execSt c).search = u.search)
    (hs : Synced b m) : Synced (Bus.exec b c).2 m := by
  rw [Bus.exec_st]
  intro v hv
  simp only [List.mem_map] at hv
  obtain ⟨u, hu, rfl⟩ := hv
  intro hd
  rw [(h u).2]
  exact hs u hu ((h u).1 hd)

theorem Synced_prog (b : Bus) (a m : Nat) (hs : Synced b m) : Synced (Bus.exec b (.programShort a)).2 m := by
  apply Synced_exec _ _ _ _ hs
  intro u
  simp only [Gear.execSt, Cmd.devicetype, if_true, Gear.step]
  split <;> simp [Gear.tick]

theorem Synced_verify (b : Bus) (a m : Nat) (hs : Synced b m) : Synced (Bus.exec b (.verifyShort a)).2 m := by
  apply Synced_exec _ _ _ _ hs
  intro u
  simp [Gear.execSt, Cmd.devicetype, Gear.step, Gear.tick]

/-! ## Answers -/

theorem combine_isYes (l : List Nat) : (combine l).isYes = true ↔ l ≠ [] := by
  match l with
  | [] => simp [combine, Resp.isYes]
  | [x] => simp [combine, Resp.isYes]
  | x :: y :: l => simp [combine, Resp.isYes]

theorem exec_isYes (b : Bus) (c : Cmd) (hdt : c.devicetype = 0) :
    (Bus.exec b c).1.isYes = true ↔ ∃ u ∈ b, (u.step c).1 ≠ none := by
  rw [exec_of_dt0 b c hdt]
  unfold Bus.frame
  simp only [combine_isYes, ne_eq, List.filterMap_eq_nil_iff, Classical.not_forall]
  constructor
  · rintro ⟨u, hu, h⟩; exact ⟨u, hu, h⟩
  · rintro ⟨u, hu, h⟩; exact ⟨u, hu, h⟩

theorem verify_isYes (b : Bus) (a : Nat) :
    (Bus.exec b (.verifyShort a)).1.isYes = true ↔
      ∃ v ∈ view b, v.init ≠ .disabled ∧ v.short = some a ∧ v.noVerify = false := by
  rw [exec_isYes b _ rfl]
  simp only [view, List.mem_map]
  constructor
  · rintro ⟨u, hu, h⟩
    refine ⟨u.v, ⟨u, hu, rfl⟩, ?_⟩
    simp only [Gear.step] at h
    split at h
    · rename_i hc; exact hc
    · exact absurd rfl h
  · rintro ⟨_, ⟨u, hu, rfl⟩, h⟩
    refine ⟨u, hu, ?_⟩
    simp only [Gear.step]
    have h' : u.init ≠ .disabled ∧ u.short = some a ∧ u.noVerify = false := h
    simp [h']

theorem present_isYes (b : Bus) (a : Nat) :
    (Bus.exec b (.queryGearPresent (.short a))).1.isYes = true ↔ ∃ v ∈ view b, v.short = some a := by
  rw [exec_isYes b _ rfl]
  simp only [view, List.mem_map]
  constructor
  · rintro ⟨u, hu, h⟩
    refine ⟨u.v, ⟨u, hu, rfl⟩, ?_⟩
    simp only [Gear.step, Gear.addressed] at h
    by_cases hc : u.short = some a
    · exact hc
    · simp [hc] at h
  · rintro ⟨_, ⟨u, hu, rfl⟩, h⟩
    refine ⟨u, hu, ?_⟩
    have h' : u.short = some a := h
    simp [Gear.step, Gear.addressed, h']

/-! ## Counting on views -/

def enRV (L : List V) : List Nat := L.filterMap (fun v => if v.init = .enabled then some v.random else none)
def nWd (L : List V) : Nat := L.countP (fun v => v.init == .withdrawn)
def NoFault (L : List V) : Prop := ∀ v ∈ L, v.noStore = false ∧ v.noVerify = false

theorem enR_view (b : Bus) : enR b = enRV (view b) := by
  simp only [enR, enRV, view, List.filterMap_map]
  rfl

theorem prog_enRV (L : List V) (m a : Nat) : enRV (L.map (V.prog m a)) = enRV L := by
  simp only [enRV, List.filterMap_map]
  congr 1
  funext v
  simp only [Function.comp, V.prog]
  split <;> rfl

theorem prog_nWd (L : List V) (m a : Nat) : nWd (L.map (V.prog m a)) = nWd L := by
  simp only [nWd, List.countP_map]
  congr 1
  funext v
  simp only [Function.comp, V.prog]
  split <;> rfl

theorem wd_enRV_len (L : List V) (m : Nat) :
    (enRV (L.map (V.wd m))).length + (enRV L).count m = (enRV L).length := by
  induction L with
  | nil => rfl
  | cons v L ih =>
    simp only [enRV, List.map_cons, List.filterMap_cons, V.wd] at ih ⊢
    simp only [List.filterMap_map] at ih
    by_cases he : v.init = .enabled
    · by_cases hr : v.random = m
      · simp [he, hr]; omega
      · simp [he, hr, List.count_cons]; omega
    · simp [he]; omega

theorem wd_enRV_mem (L : List V) (m : Nat) : ∀ r ∈ enRV (L.map (V.wd m)), r ∈ enRV L ∧ r ≠ m := by
  intro r hr
  simp only [enRV, List.filterMap_map, List.mem_filterMap, Function.comp, V.wd] at hr ⊢
  obtain ⟨v, hv, h⟩ := hr
  by_cases hc : v.init = .enabled ∧ v.random = m
  · simp [hc] at h
  · simp only [hc, if_false] at h
    refine ⟨⟨v, hv, h⟩, ?_⟩
    split at h
    · rename_i he
      injection h with h
      intro e; exact hc ⟨he, by omega⟩
    · cases h

theorem wd_enRV_sublist (L : List V) (m : Nat) : (enRV (L.map (V.wd m))).Sublist (enRV L) := by
  induction L with
  | nil => exact List.Sublist.slnil
  | cons v L ih =>
    simp only [enRV, List.map_cons, List.filterMap_cons, V.wd] at ih ⊢
    by_cases he : v.init = .enabled
    · by_cases hr : v.random = m
      · simp only [he, hr, and_self, if_true]
        exact List.Sublist.cons _ ih
      · simp only [he, hr, and_false, if_false, if_true]
        exact List.Sublist.cons_cons _ ih
    · simp only [he, false_and, if_false]
      exact ih

theorem wd_nWd (L : List V) (m : Nat) : nWd (L.map (V.wd m)) = nWd L + (enRV L).count m := by
  induction L with
  | nil => rfl
  | cons v L ih =>
    simp only [nWd, enRV, List.map_cons, List.filterMap_cons, List.countP_cons, V.wd] at ih ⊢
    simp only [List.filterMap_map, List.countP_map] at ih
    by_cases he : v.init = .enabled
    · by_cases hr : v.random = m
      · simp [he, hr]; omega
      · simp [he, hr, List.count_cons]; omega
    · simp [he]; omega

theorem NoFault_map (L : List V) (f : V → V) (h : ∀ v, (f v).noStore = v.noStore ∧ (f v).noVerify = v.noVerify)
    (hL : NoFault L) : NoFault (L.map f) := by
  intro v hv
  simp only [List.mem_map] at hv
  obtain ⟨w, hw, rfl⟩ := hv
  rw [(h w).1, (h w).2]
  exact hL w hw

theorem prog_flags (m a : Nat) (v : V) :
    (V.prog m a v).noStore = v.noStore ∧ (V.prog m a v).noVerify = v.noVerify := by
  simp only [V.prog]; split <;> exact ⟨rfl, rfl⟩

theorem wd_flags (m : Nat) (v : V) : (V.wd m v).noStore = v.noStore ∧ (V.wd m v).noVerify = v.noVerify := by
  simp only [V.wd]; split <;> exact ⟨rfl, rfl⟩

/-- on a fault-free bus the unit found confirms the address just programmed -/
theorem verify_confirms (L : List V) (m a : Nat) (hf : NoFault L) (hm : m ∈ enRV L) :
    ∃ v ∈ L.map (V.prog m a), v.init ≠ .disabled ∧ v.short = some a ∧ v.noVerify = false := by
  simp only [enRV, List.mem_filterMap] at hm
  obtain ⟨v, hv, h⟩ := hm
  split at h
  · rename_i he
    injection h with h
    refine ⟨V.prog m a v, List.mem_map_of_mem hv, ?_⟩
    have hd : v.init ≠ .disabled := by rw [he]; decide
    have := hf v hv
    simp [V.prog, hd, h, this.1, this.2]
  · cases h


/-! ## The inner loop, one iteration at a time -/

/-- `yield Withdraw()` and the rest of the iteration -/
def innerRest (dry : Bool) (fuel m : Nat) (avail' : List Nat) (handed' : List (Nat × Nat)) : Prog InnerRes :=
  .tell .withdraw <|
    if m < HIGH then inner dry fuel (m + 1) avail' handed' else .done (.finished avail' handed')

/-- the inner loop body after `_find_next` returned the random address `m` -/
def afterFound (dry : Bool) (fuel m : Nat) (avail : List Nat) (handed : List (Nat × Nat)) : Prog InnerRes :=
  .note .progress <|
    match avail with
    | new :: avail' =>
      if dry then .note .progress <| innerRest dry fuel m avail' (handed ++ [(m, new)])
      else
        .note .progress <|
        .tell (.programShort new) <|
        .send (.verifyShort new) fun r =>
          if r.isYes then innerRest dry fuel m avail' (handed ++ [(m, new)])
          else .fail .ProgramShortAddressFailure
    | [] => .note .progress <| innerRest dry fuel m [] handed

theorem inner_eq (dry : Bool) (fuel low : Nat) (avail : List Nat) (handed : List (Nat × Nat)) :
    inner dry (fuel + 1) low avail handed =
      .note .progress ((findNext 25 low HIGH).bind fun res =>
        match res with
        | .clash => .note .progress <| .done (.clash avail handed)
        | .none => .done (.finished avail handed)
        | .found m => afterFound dry fuel m avail handed) := by
  rfl

theorem runBus_tell {α : Type} (c : Cmd) (k : Prog α) (b : Bus) :
    runBus (Prog.tell c k) b =
      ⟨(runBus k (Bus.exec b c).2).res, (runBus k (Bus.exec b c).2).st, c :: (runBus k (Bus.exec b c).2).trace⟩ := rfl

theorem runBus_send {α : Type} (c : Cmd) (k : Resp → Prog α) (b : Bus) :
    runBus (Prog.send c k) b =
      ⟨(runBus (k (Bus.exec b c).1) (Bus.exec b c).2).res, (runBus (k (Bus.exec b c).1) (Bus.exec b c).2).st,
        c :: (runBus (k (Bus.exec b c).1) (Bus.exec b c).2).trace⟩ := rfl

theorem runBus_note {α : Type} (n : Note) (k : Prog α) (b : Bus) : runBus (Prog.note n k) b = runBus k b := rfl

/-- what one call of the inner loop (or a tail of it) guarantees; `tot` = units in initialisation mode,
`w` = units withdrawn at the reference point, `bound` = command budget, `nf` = "no unit is faulty" -/
structure Post (o : Out Bus InnerRes) (tot w bound : Nat) (avail : List Nat) (handed : List (Nat × Nat))
    (nf nd : Prop) : Prop where
  nofuel : o.res ≠ .outOfFuel
  ret : ∀ av' h', (o.res = .ret (.clash av' h') ∨ o.res = .ret (.finished av' h')) →
    (enRV (view o.st)).length + nWd (view o.st) = tot ∧
    h'.length + av'.length = handed.length + avail.length ∧
    (handed.length = min w (handed.length + avail.length) →
      h'.length = min (nWd (view o.st)) (h'.length + av'.length))
  fin : ∀ av' h', o.res = .ret (.finished av' h') → enRV (view o.st) = []
  len : o.trace.length + 199 * (enRV (view o.st)).length ≤ bound
  raise : nf → ∀ e, o.res ≠ .raised e
  noclash : nd → ∀ av' h', o.res ≠ .ret (.clash av' h')

theorem view_withdraw (b : Bus) (m : Nat) (hs : Synced b m) :
    view (Bus.exec b .withdraw).2 = (view b).map (V.wd m) :=
  view_exec b _ _ (fun u hu => v_wd u m (hs u hu))

theorem view_program (b : Bus) (m a : Nat) (hs : Synced b m) :
    view (Bus.exec b (.programShort a)).2 = (view b).map (V.prog m a) :=
  view_exec b _ _ (fun u hu => v_prog u m a (hs u hu))

theorem view_verify (b : Bus) (a : Nat) : view (Bus.exec b (.verifyShort a)).2 = view b := by
  rw [view_exec b _ id (fun u _ => v_quiet u (.verifyShort a) trivial)]; simp

/-- the recursive call of the inner loop, as the induction hypothesis provides it -/
def InnerIH (dry : Bool) (fuel m : Nat) : Prop :=
  m < HIGH → ∀ (avail' : List Nat) (handed' : List (Nat × Nat)) (b' : Bus),
    (∀ r ∈ enRV (view b'), m + 1 ≤ r ∧ r ≤ HIGH) →
    Post (runBus (inner dry fuel (m + 1) avail' handed') b')
      ((enRV (view b')).length + nWd (view b')) (nWd (view b')) (199 * (enRV (view b')).length + 198)
      avail' handed' (NoFault (view b')) (enRV (view b')).Nodup

/-- WITHDRAW and the rest: exactly the unit found leaves the search -/
theorem innerRest_bus (dry : Bool) (fuel m : Nat) (avail' : List Nat) (handed' : List (Nat × Nat)) (b : Bus)
    (hs : Synced b m) (hm : m ∈ enRV (view b)) (hc : (enRV (view b)).count m = 1)
    (hmin : ∀ r ∈ enRV (view b), m ≤ r ∧ r ≤ HIGH) (IH : InnerIH dry fuel m) :
    Post (runBus (innerRest dry fuel m avail' handed') b)
      ((enRV (view b)).length + nWd (view b)) (nWd (view b) + 1) (199 * (enRV (view b)).length)
      avail' handed' (NoFault (view b)) (enRV (view b)).Nodup := by
  have hlen := wd_enRV_len (view b) m
  have hmem := wd_enRV_mem (view b) m
  have hw := wd_nWd (view b) m
  have hpos : 1 ≤ (enRV (view b)).length := List.length_pos_of_mem hm
  rw [hc] at hlen hw
  unfold innerRest
  rw [runBus_tell]
  have hv := view_withdraw b m hs
  by_cases hlt : m < HIGH
  · simp only [hlt, if_true]
    have pre : ∀ r ∈ enRV (view (Bus.exec b .withdraw).2), m + 1 ≤ r ∧ r ≤ HIGH := by
      intro r hr
      rw [hv] at hr
      obtain ⟨h1, h2⟩ := hmem r hr
      have := hmin r h1
      omega
    have P := IH hlt avail' handed' _ pre
    rw [hv] at P
    refine ⟨P.nofuel, ?_, P.fin, ?_, ?_, fun nd => P.noclash ((wd_enRV_sublist (view b) m).nodup nd)⟩
    · intro av' h' hr
      obtain ⟨a1, a2, a3⟩ := P.ret av' h' hr
      dsimp only at a1 a2 a3 ⊢
      refine ⟨by omega, a2, ?_⟩
      intro hh
      apply a3
      rw [hw]; exact hh
    · have := P.len
      dsimp only at this ⊢
      simp only [List.length_cons]
      omega
    · intro nf
      exact P.raise (NoFault_map _ _ (wd_flags m) nf)
  · simp only [hlt, if_false]
    have hnil : enRV (view (Bus.exec b .withdraw).2) = [] := by
      rw [hv, List.eq_nil_iff_forall_not_mem]
      intro r hr
      obtain ⟨h1, h2⟩ := hmem r hr
      have := hmin r h1
      omega
    refine ⟨by simp [runBus, Prog.run], ?_, ?_, ?_, by simp [runBus, Prog.run], by simp [runBus, Prog.run]⟩
    · intro av' h' hr
      simp only [runBus, Prog.run] at hr ⊢
      have e : av' = avail' ∧ h' = handed' := by
        rcases hr with hr | hr
        · cases hr
        · injection hr with hr; injection hr with e1 e2; exact ⟨e1.symm, e2.symm⟩
      obtain ⟨rfl, rfl⟩ := e
      change (enRV (view (Bus.exec b .withdraw).2)).length + nWd (view (Bus.exec b .withdraw).2) = _ ∧ _ ∧
        (_ → _ = min (nWd (view (Bus.exec b .withdraw).2)) _)
      rw [hnil, hv, hw]
      rw [hv] at hnil
      rw [hnil] at hlen
      simp only [List.length_nil] at hlen ⊢
      refine ⟨by omega, trivial, fun h => h⟩
    · intro av' h' _
      exact hnil
    · change ([Cmd.withdraw] : List Cmd).length + 199 * (enRV (view (Bus.exec b .withdraw).2)).length ≤ _
      rw [hnil]
      simp only [List.length_cons, List.length_nil]
      omega


/-- one iteration after the search found `m`: PROGRAM SHORT ADDRESS (unless dry run / nothing left),
VERIFY, WITHDRAW -/
theorem afterFound_bus (dry : Bool) (fuel m : Nat) (avail : List Nat) (handed : List (Nat × Nat)) (b : Bus)
    (hs : Synced b m) (hm : m ∈ enRV (view b)) (hc : (enRV (view b)).count m = 1)
    (hmin : ∀ r ∈ enRV (view b), m ≤ r ∧ r ≤ HIGH) (IH : InnerIH dry fuel m) :
    Post (runBus (afterFound dry fuel m avail handed) b)
      ((enRV (view b)).length + nWd (view b)) (nWd (view b)) (199 * (enRV (view b)).length + 2)
      avail handed (NoFault (view b)) (enRV (view b)).Nodup := by
  have hpos : 1 ≤ (enRV (view b)).length := List.length_pos_of_mem hm
  unfold afterFound
  rw [runBus_note]
  match avail with
  | [] =>
    simp only [runBus_note]
    have P := innerRest_bus dry fuel m [] handed b hs hm hc hmin IH
    refine ⟨P.nofuel, ?_, P.fin, ?_, P.raise, P.noclash⟩
    · intro av' h' hr
      obtain ⟨a1, a2, a3⟩ := P.ret av' h' hr
      refine ⟨a1, a2, ?_⟩
      intro hh; apply a3
      simp only [List.length_nil] at hh ⊢; omega
    · have := P.len; omega
  | new :: avail' =>
    cases dry with
    | true =>
      simp only [if_true, runBus_note]
      have P := innerRest_bus true fuel m avail' (handed ++ [(m, new)]) b hs hm hc hmin IH
      refine ⟨P.nofuel, ?_, P.fin, ?_, P.raise, P.noclash⟩
      · intro av' h' hr
        obtain ⟨a1, a2, a3⟩ := P.ret av' h' hr
        simp only [List.length_append, List.length_cons, List.length_nil] at a2 a3 ⊢
        refine ⟨a1, by omega, ?_⟩
        intro hh; apply a3; omega
      · have := P.len; omega
    | false =>
      simp only [Bool.false_eq_true, if_false, runBus_note, runBus_tell, runBus_send]
      have hs2 := Synced_prog b new m hs
      have hs3 := Synced_verify _ new m hs2
      have hv2 := view_program b m new hs
      have hv3 : view (Bus.exec (Bus.exec b (.programShort new)).2 (.verifyShort new)).2 =
          (view b).map (V.prog m new) := by rw [view_verify, hv2]
      have hR3 : enRV (view (Bus.exec (Bus.exec b (.programShort new)).2 (.verifyShort new)).2) =
          enRV (view b) := by rw [hv3, prog_enRV]
      have hW3 : nWd (view (Bus.exec (Bus.exec b (.programShort new)).2 (.verifyShort new)).2) =
          nWd (view b) := by rw [hv3, prog_nWd]
      by_cases hy : (Bus.exec (Bus.exec b (.programShort new)).2 (.verifyShort new)).1.isYes = true
      · simp only [hy, if_true]
        have P := innerRest_bus false fuel m avail' (handed ++ [(m, new)]) _ hs3 (by rw [hR3]; exact hm)
          (by rw [hR3]; exact hc) (by rw [hR3]; exact hmin) IH
        rw [hR3, hW3] at P
        refine ⟨P.nofuel, ?_, P.fin, ?_, ?_, P.noclash⟩
        · intro av' h' hr
          obtain ⟨a1, a2, a3⟩ := P.ret av' h' hr
          simp only [List.length_append, List.length_cons, List.length_nil] at a2 a3 ⊢
          refine ⟨a1, by omega, ?_⟩
          intro hh; apply a3; omega
        · have := P.len
          dsimp only at this ⊢
          simp only [List.length_cons]
          omega
        · intro nf
          apply P.raise
          rw [hv3]
          exact NoFault_map _ _ (prog_flags m new) nf
      · simp only [hy, Bool.false_eq_true, if_false]
        refine ⟨by simp [runBus, Prog.run], ?_, ?_, ?_, ?_, by simp [runBus, Prog.run]⟩
        · intro av' h' hr
          simp only [runBus, Prog.run] at hr
          rcases hr with hr | hr <;> cases hr
        · intro av' h' hr
          simp only [runBus, Prog.run] at hr
          cases hr
        · simp only [runBus, Prog.run, List.length_cons, List.length_nil]
          rw [hR3]; omega
        · intro nf
          exfalso
          apply hy
          rw [verify_isYes, hv2]
          exact verify_confirms (view b) m new nf hm


theorem isQuiet_of_isSearch (c : Cmd) (h : IsSearch c) : IsQuiet c := by
  cases c <;> first | exact h.elim | trivial

theorem view_findNext (fuel low high : Nat) (b : Bus) :
    view (runBus (findNext fuel low high) b).st = view b :=
  view_quiet _ b (fun c hc => isQuiet_of_isSearch c ((findNext_only fuel low high).trace Bus.exec b c hc))

/-- **the inner loop on the specification bus** (any bus size, any random addresses): every iteration
finds the least random address among the units still ENABLED, and withdraws exactly that unit -/
theorem inner_bus (dry : Bool) : ∀ (fuel low : Nat) (avail : List Nat) (handed : List (Nat × Nat)) (b : Bus),
    low ≤ HIGH → HIGH + 1 - low < fuel → (∀ r ∈ enRV (view b), low ≤ r ∧ r ≤ HIGH) →
    Post (runBus (inner dry fuel low avail handed) b)
      ((enRV (view b)).length + nWd (view b)) (nWd (view b)) (199 * (enRV (view b)).length + 198)
      avail handed (NoFault (view b)) (enRV (view b)).Nodup := by
  intro fuel
  induction fuel with
  | zero => intro low _ _ _ _ h; omega
  | succ fuel ih =>
    intro low avail handed b hl hf hR
    have hR' : ∀ r ∈ enR b, low ≤ r := by rw [enR_view]; exact fun r hr => (hR r hr).1
    have hw : HIGH - low < 2 ^ 24 := by simp [HIGH]; omega
    obtain ⟨f1, f2, f3, f4, f5⟩ := findNext_bus b 24 low HIGH hl hw (by decide) hR'
    have spec := FN.findNext_spec (enR b) 24 low HIGH hl hw hR'
    have hv1 := view_findNext 25 low HIGH b
    rw [enR_view] at f1 f3 f4 spec
    simp only [runBus, Nat.reduceAdd, Nat.reduceMul] at f1 f2 f3 f4 hv1 spec
    rw [inner_eq, runBus_note]
    simp only [runBus]
    rw [run_bind, f1]
    dsimp only
    cases hres : FN.findNext (enRV (view b)) 25 low HIGH with
    | none =>
      rw [hres] at spec
      have hnil : enRV (view b) = [] := by
        rw [List.eq_nil_iff_forall_not_mem]
        intro r hr
        have := spec r hr; have := (hR r hr).2; omega
      have h4 := f3 hres
      simp only [Prog.run, List.append_nil]
      refine ⟨by simp, ?_, ?_, ?_, by simp, by simp⟩
      · intro av' h' hr
        have e : av' = avail ∧ h' = handed := by
          rcases hr with hr | hr
          · cases hr
          · injection hr with hr; injection hr with e1 e2; exact ⟨e1.symm, e2.symm⟩
        obtain ⟨rfl, rfl⟩ := e
        dsimp only
        rw [hv1]
        exact ⟨rfl, rfl, fun h => h⟩
      · intro _ _ _; dsimp only; rw [hv1]; exact hnil
      · dsimp only; rw [hv1, h4]; omega
    | clash =>
      rw [hres] at spec
      simp only [Prog.run, List.append_nil]
      refine ⟨by simp, ?_, ?_, ?_, by simp, ?_⟩
      rotate_left 3
      · intro nd
        obtain ⟨m, _, _, _, h2⟩ := spec
        have := List.nodup_iff_count.mp nd m
        omega
      · intro av' h' hr
        have e : av' = avail ∧ h' = handed := by
          rcases hr with hr | hr
          · injection hr with hr; injection hr with e1 e2; exact ⟨e1.symm, e2.symm⟩
          · cases hr
        obtain ⟨rfl, rfl⟩ := e
        dsimp only
        rw [hv1]
        exact ⟨rfl, rfl, fun h => h⟩
      · intro _ _ hr; cases hr
      · dsimp only; rw [hv1]; omega
    | found m =>
      rw [hres] at spec
      obtain ⟨s1, s2, s3, s4⟩ := spec
      have hsy := f4 m hres
      have IH : InnerIH dry fuel m := by
        intro hlt avail' handed' b' hb'
        have := (hR m s1).1
        exact ih (m + 1) avail' handed' b' (by omega) (by omega) hb'
      have P := afterFound_bus dry fuel m avail handed _ hsy (by rw [hv1]; exact s1) (by rw [hv1]; exact s4)
        (by rw [hv1]; exact fun r hr => ⟨s3 r hr, (hR r hr).2⟩) IH
      rw [hv1] at P
      simp only [runBus] at P
      refine ⟨P.nofuel, P.ret, P.fin, ?_, P.raise, P.noclash⟩
      have := P.len
      dsimp only at this ⊢
      simp only [List.length_append]
      omega

end DaliVerif.GearSeq
