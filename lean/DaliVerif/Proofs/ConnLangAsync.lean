import DaliVerif.Proofs.ConnLang
import DaliVerif.Proofs.AsyncRun
/-!
# The connection machine inside the interleaving model (C17, C15 `progress`)

* every schedule of `Model/Async.lean` projects to a run of `Model/Conn.lean` (callers never
  touch the connection state), so the invariant `CInv` of `Proofs/ConnLang.lean` holds in every
  reachable state of the interleaving model;
* the termination measure: a caller action that completes normally consumes exactly one step
  of a finite program, deliveries and connection events consume none.
-/
namespace DaliVerif.Async
open DaliVerif.Conn

/-- what a normally completing caller action does to the task table and the connection: task `t`
loses the first step of its program (and `slot` records the sequence number), nothing else -/
theorem actStep_shape {s s' : St} {t : Tid} (h : actStep s t = some s') :
    ∃ tk st rest tag', s.tasks[t]? = some tk ∧ tk.prog = st :: rest ∧
      s'.tasks = s.tasks.set t { tk with prog := rest, tag := tag' } ∧ s'.conn = s.conn ∧ s'.cap = s.cap := by
  unfold actStep at h
  cases ht : s.tasks[t]? with
  | none => simp [ht] at h
  | some tk =>
    simp only [ht] at h
    cases hp : tk.prog with
    | nil => simp [hp] at h
    | cons st rest =>
      simp only [hp] at h
      have fin : ∀ x : St, some x = some s' → x.tasks = s.tasks.set t { tk with prog := rest } →
          x.conn = s.conn → x.cap = s.cap → ∃ tk0 st0 rest0 tag', some tk = some tk0 ∧ tk0.prog = st0 :: rest0 ∧
            s'.tasks = s.tasks.set t { tk0 with prog := rest0, tag := tag' } ∧ s'.conn = s.conn ∧ s'.cap = s.cap := by
        intro x hx h1 h2 h3
        cases hx
        exact ⟨tk, st, rest, tk.tag, rfl, hp, h1, h2, h3⟩
      cases ha : st.act <;> simp only [ha] at h
      case slot =>
        split at h
        · cases h
        · cases h; exact ⟨tk, st, rest, s.seq, rfl, hp, rfl, rfl, rfl⟩
      case refuse => cases h
      all_goals first
        | exact fin _ h rfl rfl rfl
        | (split at h <;> first
            | exact fin _ h rfl rfl rfl
            | cases h
            | (split at h <;> first | exact fin _ h rfl rfl rfl | cases h))

theorem raiseStep_conn {s s' : St} {t : Tid} {e : Err} (h : raiseStep s t e = some s') :
    s'.conn = s.conn := by
  unfold raiseStep at h
  cases ht : s.tasks[t]? with
  | none => simp [ht] at h
  | some tk =>
    simp only [ht] at h
    cases hp : tk.prog with
    | nil => simp [hp] at h
    | cons st rest =>
      simp only [hp] at h
      split at h
      · cases h
      · split at h
        · split at h
          · cases h; rfl
          · cases h
        · cases h; rfl

/-- the connection events of a schedule -/
def envOf : List Label → List Conn.Ev
  | [] => []
  | .env e :: ls => e :: envOf ls
  | _ :: ls => envOf ls

theorem step_env_conn {s s' : St} {e : Conn.Ev} (h : step? s (.env e) = some s') :
    Conn.step s.conn e = some s'.conn := by
  simp only [step?] at h
  cases hc : Conn.step s.conn e with
  | none => simp [hc] at h
  | some c' =>
    simp only [hc] at h
    split at h <;> cases h <;> rfl

theorem step_other_conn {s s' : St} {l : Label} (hl : ∀ e, l ≠ .env e) (h : step? s l = some s') :
    s'.conn = s.conn := by
  cases l with
  | spawn tk => simp only [step?] at h; cases h; rfl
  | act t =>
    obtain ⟨_, _, _, _, _, _, _, hc, _⟩ := actStep_shape h
    exact hc
  | raise t e => exact raiseStep_conn h
  | deliver tag m =>
    simp only [step?] at h
    split at h <;> cases h <;> rfl
  | env e => exact absurd rfl (hl e)

/-- every schedule projects to a run of the connection machine -/
theorem run_conn {s s' : St} {ls : List Label} (h : run? s ls = some s') :
    Conn.run Conn.step s.conn (envOf ls) = some s'.conn := by
  induction ls generalizing s with
  | nil => simp only [run?] at h; cases h; rfl
  | cons l ls ih =>
    simp only [run?] at h
    cases hs : step? s l with
    | none => simp [hs] at h
    | some s1 =>
      simp only [hs] at h
      have h2 := ih h
      cases l with
      | env e =>
        simp only [envOf, Conn.run, step_env_conn hs]
        exact h2
      | spawn _ => simp only [envOf]; rw [← step_other_conn (by intro e; simp) hs]; exact h2
      | act _ => simp only [envOf]; rw [← step_other_conn (by intro e; simp) hs]; exact h2
      | raise _ _ => simp only [envOf]; rw [← step_other_conn (by intro e; simp) hs]; exact h2
      | deliver _ _ => simp only [envOf]; rw [← step_other_conn (by intro e; simp) hs]; exact h2

/-- the connection invariant holds in every state any schedule reaches from a fresh driver -/
theorem reachable_CInv {s0 s : St} {ls : List Label} (hc : s0.conn.fresh) (h : run? s0 ls = some s) :
    CInv s.conn := run_CInv (fresh_CInv hc) (run_conn h)

theorem reachable_conn {s0 s : St} {ls : List Label} (hc : s0.conn.fresh) (h : run? s0 ls = some s) :
    Conn.Reachable s.conn := ⟨s0.conn, envOf ls, hc, run_conn h⟩

/-! ## the termination measure -/

/-- caller steps still to be executed -/
def measure (s : St) : Nat := (s.tasks.map (fun tk => tk.prog.length)).sum

theorem sum_map_set {α} (f : α → Nat) (l : List α) (i : Nat) (a b : α) (h : l[i]? = some a) :
    ((l.set i b).map f).sum + f a = (l.map f).sum + f b := by
  induction l generalizing i with
  | nil => simp at h
  | cons x l ih =>
    cases i with
    | zero =>
      simp only [List.getElem?_cons_zero, Option.some.injEq] at h
      subst h
      simp only [List.set_cons_zero, List.map_cons, List.sum_cons]
      omega
    | succ j =>
      simp only [List.getElem?_cons_succ] at h
      have := ih j h
      simp only [List.set_cons_succ, List.map_cons, List.sum_cons]
      omega

/-- a caller action that completes normally consumes exactly one step -/
theorem act_measure {s s' : St} {t : Tid} (h : step? s (.act t) = some s') : measure s' + 1 = measure s := by
  obtain ⟨tk, st, rest, tag', ht, hp, hts, _, _⟩ := actStep_shape (s := s) (t := t) h
  have := sum_map_set (fun tk : Task => tk.prog.length) s.tasks t tk { tk with prog := rest, tag := tag' } ht
  simp only [hp, List.length_cons] at this
  simp only [measure, hts]
  omega

theorem deliver_measure {s s' : St} {g : Nat} {m : Msg} (h : step? s (.deliver g m) = some s') :
    measure s' = measure s := by
  simp only [step?] at h
  split at h <;> cases h <;> rfl

theorem env_measure {s s' : St} {e : Conn.Ev} (h : step? s (.env e) = some s') : measure s' = measure s := by
  simp only [step?] at h
  cases hc : Conn.step s.conn e with
  | none => simp [hc] at h
  | some c' =>
    simp only [hc] at h
    split at h <;> cases h <;> rfl

/-- a schedule without exceptions, cancellations and new callers -/
def Label.faultFree : Label → Bool
  | .act _ | .deliver _ _ | .env _ => true
  | _ => false

def nActs : List Label → Nat
  | [] => 0
  | .act _ :: ls => nActs ls + 1
  | _ :: ls => nActs ls

/-- in a fault-free schedule the number of caller actions is exactly the decrease of the measure:
no schedule can keep the callers busy for more than `measure s` actions -/
theorem run_measure {s s' : St} {ls : List Label} (hf : ∀ l ∈ ls, l.faultFree = true)
    (h : run? s ls = some s') : nActs ls + measure s' = measure s := by
  induction ls generalizing s with
  | nil => simp only [run?] at h; cases h; simp [nActs]
  | cons l ls ih =>
    simp only [run?] at h
    cases hs : step? s l with
    | none => simp [hs] at h
    | some s1 =>
      simp only [hs] at h
      have h2 := ih (fun x hx => hf x (List.mem_cons_of_mem _ hx)) h
      have hl := hf l List.mem_cons_self
      cases l with
      | act t => have := act_measure hs; simp only [nActs]; omega
      | deliver g m => have := deliver_measure hs; simp only [nActs]; omega
      | env e => have := env_measure hs; simp only [nActs]; omega
      | spawn _ => simp [Label.faultFree] at hl
      | raise _ _ => simp [Label.faultFree] at hl

theorem measure_zero_iff {s : St} :
    measure s = 0 ↔ ∀ (t : Tid) (tk : Task), s.tasks[t]? = some tk → tk.prog = [] := by
  unfold measure
  generalize s.tasks = l
  induction l with
  | nil => simp
  | cons x l ih =>
    simp only [List.map_cons, List.sum_cons]
    constructor
    · intro h t tk ht
      have hx : x.prog.length = 0 := by omega
      have hl : (l.map fun tk => tk.prog.length).sum = 0 := by omega
      cases t with
      | zero =>
        simp only [List.getElem?_cons_zero, Option.some.injEq] at ht
        subst ht; exact List.eq_nil_of_length_eq_zero hx
      | succ j =>
        simp only [List.getElem?_cons_succ] at ht
        exact ih.mp hl j tk ht
    · intro h
      have hx := h 0 x rfl
      have hl := ih.mpr (fun t tk ht => h (t + 1) tk (by simpa using ht))
      simp [hx, hl]

/-! ## the environment-liveness assumption of `progress`, made explicit -/

/-- "the gateway answers every write": for every caller blocked in a wait for a gateway report
(echo, answer, confirmation), the report it waits for is the next one in its queue.  This is a
property of the environment (the gateway and the bus), not of the driver. -/
def GatewayAnswers (s : St) : Prop :=
  ∀ (t : Tid) (tk : Task) (st : Step) (rest : List Step) (m : Msg) (timed : Bool),
    s.tasks[t]? = some tk → tk.prog = st :: rest → st.act = .await m timed →
    ∃ mail', takeMail tk.tag (awaitSel tk.tag m) s.mail = some (m, mail')

/-- no caller can take a step -/
def Quiescent (s : St) : Prop := ∀ t, step? s (.act t) = none

end DaliVerif.Async
