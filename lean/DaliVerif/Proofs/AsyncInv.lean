import DaliVerif.Model.Async
/-!
# The invariant of the interleaving model, preserved by every step

`Inv s` ties the dynamic state (who holds the transaction lock, the inner
serialiser, an outstanding slot; the lock/wire log) to the static bracketing
discipline `wf` of every task's remaining program.  `step_inv` shows it is
preserved by every label — any task, any action, any exception or
cancellation, any environment event — hence by every schedule (`run_inv`).
-/
namespace DaliVerif.Async
open DaliVerif.Conn

/-! ## log replay, newest event first -/

/-- who holds the lock after the events of a (newest-first) log, `none` if the log is not
a legal history of a one-holder lock with writes by the holder only -/
def holderR : List (Tid × Ev) → Option (Option Tid)
  | [] => some none
  | (t, e) :: l =>
    match holderR l with
    | none => none
    | some h =>
      match e with
      | .acq => if h = none then some (some t) else none
      | .rel => if h = some t then some none else none
      | .write _ => if h = some t then some h else none

/-- newest-first wire: every device-type frame sits directly on top of its EnableDeviceType,
written by the same task -/
def wireEdtR : List (Tid × WFrame) → Bool
  | [] => true
  | (t, f) :: l => (f.dt == 0 || l.head? == some (t, edtFrame f.dt)) && wireEdtR l

/-- resources task `t` holds in state `s` -/
def res (s : St) (t : Tid) : Res :=
  ⟨decide (s.lock = some t), decide (t ∈ s.inner), decide (t ∈ s.owners)⟩

/-- the frame task `t` wrote last in the locked region it is in -/
def lastFrame (s : St) (t : Tid) : Option WFrame :=
  match wireOf s.log with
  | (u, f) :: _ => if u = t ∧ s.lock = some t then some f else none
  | [] => none

structure TaskInv (s : St) (t : Tid) (tk : Task) : Prop where
  wf : wf tk.retry.isSome (res s t) tk.prog = true
  ok : (res s t).ok = true
  edt : edtOK (lastFrame s t) tk.prog = true
  retry : ∀ b, tk.retry = some b → Async.wf true loopHead b = true ∧ edtOK none b = true

structure Inv (s : St) : Prop where
  tasks : ∀ t tk, s.tasks[t]? = some tk → TaskInv s t tk
  lockB : ∀ t, s.lock = some t → t < s.tasks.length
  innerB : ∀ t, t ∈ s.inner → t < s.tasks.length
  slotB : ∀ t, t ∈ s.owners → t < s.tasks.length
  log : holderR s.log = some s.lock
  wire : wireEdtR (wireOf s.log) = true

/-! ## monotonicity: losing the slot (device loss empties the table) keeps a program well formed -/

def Res.le (a b : Res) : Prop := a.lock = b.lock ∧ a.inner = b.inner ∧ (a.slot = true → b.slot = true)

theorem eff_mono {a b b' : Res} (act : Act) (h : Res.le a b) (hb : act.eff b = some b') :
    ∃ a', act.eff a = some a' ∧ Res.le a' b' := by
  obtain ⟨al, ai, as⟩ := a
  obtain ⟨bl, bi, bs⟩ := b
  obtain ⟨h1, h2, h3⟩ := h
  simp only at h1 h2 h3
  subst h1 h2
  cases act <;> cases al <;> cases ai <;> cases as <;> cases bs <;>
    simp_all [Act.eff, Res.le] <;> (subst hb; simp)

theorem runActs_mono {a b b' : Res} (l : List Act) (h : Res.le a b) (hb : runActs b l = some b') :
    ∃ a', runActs a l = some a' ∧ Res.le a' b' := by
  induction l generalizing a b with
  | nil => simp only [runActs] at hb ⊢; cases hb; exact ⟨a, rfl, h⟩
  | cons x xs ih =>
    simp only [runActs] at hb ⊢
    cases hx : x.eff b with
    | none => simp [hx] at hb
    | some b1 =>
      simp only [hx] at hb
      obtain ⟨a1, ha1, hle⟩ := eff_mono x h hx
      simp only [ha1]
      exact ih hle hb

theorem free_mono {a b : Res} (h : Res.le a b) (hb : b.free = true) : a.free = true := by
  obtain ⟨al, ai, as⟩ := a
  obtain ⟨bl, bi, bs⟩ := b
  obtain ⟨h1, h2, h3⟩ := h
  simp only at h1 h2 h3
  subst h1 h2
  cases al <;> cases ai <;> cases as <;> cases bs <;> simp_all [Res.free]

theorem ok_mono {a b : Res} (h : Res.le a b) (hb : b.ok = true) : a.ok = true := by
  obtain ⟨al, ai, as⟩ := a
  obtain ⟨bl, bi, bs⟩ := b
  obtain ⟨h1, h2, h3⟩ := h
  simp only at h1 h2 h3
  subst h1 h2
  cases al <;> cases ai <;> cases as <;> cases bs <;> simp_all [Res.ok]

theorem cleanupOK_mono {a b : Res} (l : List Act) (h : Res.le a b) (hb : cleanupOK b l = true) :
    cleanupOK a l = true := by
  simp only [cleanupOK, Bool.and_eq_true] at hb ⊢
  refine ⟨hb.1, ?_⟩
  cases hr : runActs b l with
  | none => simp [hr] at hb
  | some b' =>
    obtain ⟨a', ha', hle⟩ := runActs_mono l h hr
    simp only [ha']
    have := hb.2
    simp only [hr] at this
    exact free_mono hle this

theorem retryOK_mono {a b : Res} (l : List Act) (h : Res.le a b) (hb : retryOK b l = true) :
    retryOK a l = true := by
  simp only [retryOK, Bool.and_eq_true] at hb ⊢
  refine ⟨hb.1, ?_⟩
  cases hr : runActs b l with
  | none => simp [hr] at hb
  | some b' =>
    obtain ⟨a', ha', hle⟩ := runActs_mono l h hr
    simp only [ha']
    have hb2 := hb.2
    simp only [hr] at hb2
    have hb3 : b' = loopHead := by simpa using hb2
    subst hb3
    obtain ⟨al, ai, as⟩ := a'
    obtain ⟨h1, h2, h3⟩ := hle
    simp only [loopHead] at h1 h2 h3
    subst h1 h2
    cases as <;> simp_all [loopHead]

theorem stepOK_mono {a b : Res} (hr : Bool) (st : Step) (h : Res.le a b) (hb : stepOK hr b st = true) :
    stepOK hr a st = true := by
  simp only [stepOK, Bool.and_eq_true, Bool.or_eq_true] at hb ⊢
  refine ⟨?_, ?_⟩
  · rcases hb.1 with h1 | h1
    · exact Or.inl h1
    · exact Or.inr (cleanupOK_mono _ h h1)
  · rcases hb.2 with h1 | h1
    · exact Or.inl h1
    · exact Or.inr (retryOK_mono _ h h1)

theorem wfSeg_mono {a b b' : Res} (hr : Bool) (p : List Step) (h : Res.le a b)
    (hb : wfSeg hr b p = some b') : ∃ a', wfSeg hr a p = some a' ∧ Res.le a' b' := by
  induction p generalizing a b with
  | nil => simp only [wfSeg] at hb ⊢; cases hb; exact ⟨a, rfl, h⟩
  | cons st p ih =>
    simp only [wfSeg] at hb ⊢
    by_cases hs : stepOK hr b st = true
    · simp only [hs, if_true] at hb
      simp only [stepOK_mono hr st h hs, if_true]
      cases hx : st.act.eff b with
      | none => simp [hx] at hb
      | some b1 =>
        simp only [hx] at hb
        obtain ⟨a1, ha1, hle⟩ := eff_mono st.act h hx
        simp only [ha1]
        exact ih hle hb
    · simp [hs] at hb

theorem wf_mono {a b : Res} (hr : Bool) (p : List Step) (h : Res.le a b) (hb : wf hr b p = true) :
    wf hr a p = true := by
  simp only [wf] at hb ⊢
  cases hw : wfSeg hr b p with
  | none => simp [hw] at hb
  | some b' =>
    obtain ⟨a', ha', hle⟩ := wfSeg_mono hr p h hw
    simp only [ha']
    simp only [hw] at hb
    exact free_mono hle hb

/-! ## segments -/

theorem wfSeg_append (hr : Bool) (r : Res) (p q : List Step) :
    wfSeg hr r (p ++ q) = (wfSeg hr r p).bind (fun r' => wfSeg hr r' q) := by
  induction p generalizing r with
  | nil => simp [wfSeg]
  | cons st p ih =>
    simp only [List.cons_append, wfSeg]
    by_cases hs : stepOK hr r st = true
    · simp only [hs, if_true]
      cases hx : st.act.eff r with
      | none => simp
      | some r1 => simp only [ih]
    · simp [hs]

theorem edtSeg_append (prev : Option WFrame) (p q : List Step) :
    edtSeg prev (p ++ q) = (edtSeg prev p).bind (fun x => edtSeg x q) := by
  induction p generalizing prev with
  | nil => simp [edtSeg]
  | cons st p ih =>
    simp only [List.cons_append, edtSeg]
    cases st.act <;> simp only [ih] <;> split <;> simp_all

/-- a clean-up list that passes `cleanupOK`, run as a program, is well formed -/
theorem wfSeg_plain (hr : Bool) (r : Res) (h : List Act) (hc : h.all Act.isCleanup = true) :
    wfSeg hr r (plain h) = runActs r h := by
  induction h generalizing r with
  | nil => simp [plain, wfSeg, runActs]
  | cons a l ih =>
    simp only [List.all_cons, Bool.and_eq_true] at hc
    have hnr : a.canRaise = false := by cases a <;> simp_all [Act.isCleanup, Act.canRaise]
    have hnc : a.canComm = false := by cases a <;> simp_all [Act.isCleanup, Act.canComm]
    simp only [plain, List.map_cons, wfSeg, runActs, stepOK, hnr, hnc]
    simp only [Bool.not_false, Bool.true_or, Bool.and_false, Bool.and_self, if_true]
    cases hx : a.eff r with
    | none => rfl
    | some r1 => exact ih r1 hc.2

theorem wf_plain_of_cleanupOK (hr : Bool) (r : Res) (h : List Act) (hc : cleanupOK r h = true) :
    wf hr r (plain h) = true := by
  simp only [cleanupOK, Bool.and_eq_true] at hc
  simp only [wf, wfSeg_plain hr r h hc.1]
  exact hc.2

theorem edtSeg_plain (prev : Option WFrame) (h : List Act) (hc : h.all Act.isCleanup = true) :
    (edtSeg prev (plain h)).isSome = true := by
  induction h generalizing prev with
  | nil => simp [plain, edtSeg]
  | cons a l ih =>
    simp only [List.all_cons, Bool.and_eq_true] at hc
    simp only [plain, List.map_cons, edtSeg]
    cases a <;> simp_all [Act.isCleanup, plain]

/-- knowing a previous frame never hurts -/
theorem edtSeg_mono (prev : Option WFrame) (p : List Step) (h : (edtSeg none p).isSome = true) :
    (edtSeg prev p).isSome = true := by
  induction p generalizing prev with
  | nil => simp [edtSeg]
  | cons st p ih =>
    simp only [edtSeg] at h ⊢
    cases hact : st.act <;> simp only [hact] at h ⊢ <;> try exact ih _ h
    all_goals first | exact h | skip
    · rename_i f
      by_cases hd : (f.dt == 0) = true
      · simp only [hd, Bool.true_or, if_true] at h ⊢; exact h
      · simp [hd, edtFrame] at h

theorem edtOK_mono (prev : Option WFrame) (p : List Step) (h : edtOK none p = true) :
    edtOK prev p = true := edtSeg_mono prev p h

end DaliVerif.Async
