import DaliVerif.Proofs.FrameRefine
/-!
# Helper lemmas for C05: each model operation against the reference
-/
namespace DaliVerif
open Spec Spec.Bits

theorem bitLength_le_iff (m n : Nat) : bitLength (m : Int) ≤ n ↔ m < 2 ^ n := by
  unfold bitLength
  by_cases h : m = 0
  · subst h; simp; exact Nat.two_pow_pos n
  · have h' : ¬ ((m : Int) = 0) := by omega
    simp only [h', if_false, Int.natAbs_natCast]
    rw [← Nat.log2_lt h]; omega

/-- Python's two value checks (`bit_length() > n`, `< 0`) are the range `0 ≤ v < 2^n` -/
theorem value_checks (v : Int) (n : Nat) :
    (¬ (bitLength v > n) ∧ ¬ (v < 0)) ↔ (0 ≤ v ∧ v < (2 ^ n : Int)) := by
  cases v with
  | ofNat m =>
    rw [Int.ofNat_eq_natCast]
    have := bitLength_le_iff m n
    constructor
    · rintro ⟨h1, _⟩
      refine ⟨Int.natCast_nonneg m, ?_⟩
      have : m < 2 ^ n := this.mp (by omega)
      exact_mod_cast this
    · rintro ⟨_, h2⟩
      have h3 : m < 2 ^ n := by exact_mod_cast h2
      have := this.mpr h3
      exact ⟨by omega, by omega⟩
  | negSucc m =>
    constructor
    · rintro ⟨_, h2⟩; exact absurd (Int.negSucc_lt_zero m) h2
    · rintro ⟨h1, _⟩; exact absurd h1 (by simp)

namespace Frame

theorem abs_length (f : Frame) : (abs f).length = f.bits := by simp [abs]

theorem abs_inj {f g : Frame} (hf : Inv f) (hg : Inv g) : abs f = abs g ↔ f = g := by
  constructor
  · intro h
    have hb : f.bits = g.bits := by
      have := congrArg List.length h
      simpa [abs] using this
    cases f with | mk fb fd =>
    cases g with | mk gb gd =>
    simp only at hb; subst hb
    have := ofNat_inj hf.2 hg.2 h
    simp at this; simp [this]
  · intro h; rw [h]

theorem readSlice_eq (f : Frame) (a b s : PyVal) :
    f.readSlice a b s = sliceOf f.bits a b s := by
  unfold readSlice sliceOf
  cases ha : a.asInt? <;> cases hb : b.asInt? <;> simp only []
  rename_i x y
  by_cases hs : (s = .none ∨ s.eqOne = true)
  · have hs' : (!(s == PyVal.none || s.eqOne)) = false := by
      rcases hs with h | h <;> simp [h]
    simp only [hs', hs, not_true, if_false, Bool.false_eq_true]
    by_cases hr : 0 ≤ x ∧ x < (f.bits : Int) ∧ 0 ≤ y ∧ y < (f.bits : Int)
    · have h1 : ¬ (max x y < 0 ∨ min x y < 0) := by omega
      have h2 : ¬ (max x y ≥ (f.bits : Int) ∨ min x y ≥ (f.bits : Int)) := by omega
      simp [hr, h1, h2]
    · simp only [hr, if_false]
      by_cases h1 : (max x y < 0 ∨ min x y < 0)
      · simp [h1]
      · have h2 : (max x y ≥ (f.bits : Int) ∨ min x y ≥ (f.bits : Int)) := by omega
        simp [h1, h2]
  · have hs' : (!(s == PyVal.none || s.eqOne)) = true := by
      simp at hs; simp [hs]
    simp [hs', hs]

theorem sliceOf_ok {w : Nat} {a b s : PyVal} {hi lo : Nat}
    (h : sliceOf w a b s = .ok (hi, lo)) : lo ≤ hi ∧ hi < w := by
  unfold sliceOf at h
  cases ha : a.asInt? <;> cases hb : b.asInt? <;> simp only [ha, hb] at h <;> try contradiction
  rename_i x y
  split at h <;> try contradiction
  split at h <;> try contradiction
  rename_i hr
  injection h with h
  injection h with h1 h2
  omega

end Frame
end DaliVerif
