import DaliVerif.Model.SerialRx
import DaliVerif.Spec.Deframe
namespace DaliVerif.Proofs.SerialRx
open DaliVerif SerialRx Spec.Deframe
open Gen.DriverConsts

/-! ### shared arithmetic -/

theorem xorAll_eq_aux (l : List Nat) (a : Nat) : l.foldl Nat.xor a = a ^^^ xorSum l := by
  induction l generalizing a with
  | nil => simp [xorSum]
  | cons b l ih =>
    simp only [List.foldl_cons, xorSum, ih]
    show (a ^^^ b) ^^^ xorSum l = a ^^^ (b ^^^ xorSum l)
    exact Nat.xor_assoc a b (xorSum l)

theorem xorAll_eq (l : List Nat) : xorAll l = xorSum l := by
  unfold xorAll; rw [xorAll_eq_aux]; simp

theorem ofBytesBE_aux (l : List Nat) (a : Nat) :
    l.foldl (fun acc b => acc * 256 + b) a = a * 256 ^ l.length + beValue l := by
  induction l generalizing a with
  | nil => simp [beValue]
  | cons b l ih =>
    simp only [List.foldl_cons, ih, beValue, List.length_cons, Nat.pow_succ]
    rw [Nat.add_mul, Nat.mul_assoc, Nat.mul_comm 256 (256 ^ l.length)]
    omega

theorem ofBytesBE_eq (l : List Nat) : Frame.ofBytesBE l = beValue l := by
  unfold Frame.ofBytesBE; rw [ofBytesBE_aux]; simp

theorem dtAfter_two (a x : Nat) : dtAfter [a, x] = if a = 0xC1 then x else 0 := by
  by_cases h : a = 0xC1
  · subst h; simp [dtAfter]
  · simp only [h, if_false]
    unfold dtAfter
    split
    · rename_i heq; simp at heq; omega
    · rfl

theorem nextDt_two (a x : Nat) (hx : x < 256) : nextDt 16 (beValue [a, x]) = dtAfter [a, x] := by
  rw [dtAfter_two]
  simp only [nextDt, isEDT, beValue, List.length_cons, List.length_nil]
  have h1 : (a * 256 ^ (0 + 1) + (x * 256 ^ 0 + 0)) / 256 = a := by simp; omega
  have h2 : (a * 256 ^ (0 + 1) + (x * 256 ^ 0 + 0)) % 256 = x := by simp; omega
  simp only [h1, h2]
  by_cases h : a = 0xC1 <;> simp [h]

theorem nextDt_ne16 (bits data : Nat) (h : bits ≠ 16) : nextDt bits data = 0 := by
  simp [nextDt, isEDT, h]


/-! ### SCI -/

theorem sci_byte_facts : ∀ st, st < 256 → (st &&& 15 = st % 16 ∧ (st &&& 240) >>> 4 = st / 16) := by
  decide +kernel

theorem sci_knownCode : ∀ c, c < 16 → Sci.knownCode c = decide (c ≤ 8) := by decide +kernel

theorem sci_knownError : ∀ c, c < 256 → Sci.knownError c = decide (1 ≤ c ∧ c ≤ 5) := by decide +kernel

def sciIdle (s : Sci.State) : Prop := s.phase = .waitStatus ∧ s.buf.length = 5

/-- what one complete five-byte frame does -/
def sciFrameOut (o : Oracle) (rxdt st hi mi lo chk : Nat) : Nat × List Item :=
  if xorSum [st, hi, mi, lo] = chk then sciFrameMeaning o rxdt st hi mi lo else (rxdt, [])

theorem sci_dispatch (o : Oracle) (rxdt st hi mi lo chk : Nat)
    (hst : st < 256) (hlo : lo < 256) :
    (if Sci.knownCode (st &&& sci_STATUS_CODE_MASK) then Sci.dispatch o rxdt [st, hi, mi, lo, chk] else (rxdt, []))
      = sciFrameMeaning o rxdt st hi mi lo := by
  obtain ⟨h1, h2⟩ := sci_byte_facts st hst
  have hc : st % 16 < 16 := Nat.mod_lt _ (by decide)
  have hke := sci_knownError lo hlo
  have hm := nextDt_two mi lo hlo
  have hcases : st % 16 = 0 ∨ st % 16 = 1 ∨ st % 16 = 2 ∨ st % 16 = 3 ∨ st % 16 = 4 ∨ st % 16 = 5 ∨
      st % 16 = 6 ∨ st % 16 = 7 ∨ st % 16 = 8 ∨ 9 ≤ st % 16 := by omega
  simp only [sci_STATUS_CODE_MASK, h1, sci_knownCode _ hc, Sci.dispatch, sciFrameMeaning, List.getD_cons_zero,
    List.getD_cons_succ, Sci.systemMessage, h2, hke, Sci.daliFrame, ofBytesBE_eq, hm,
    sciCode_ERROR, sciCode_STATUS_OK, sciCode_STATUS_DALI_NO, sciCode_SEND_DALI_8, sciCode_SEND_DALI_16,
    sciCode_SEND_DALI2_24, List.drop, List.take, List.length_cons, List.length_nil]
  rcases hcases with h | h | h | h | h | h | h | h | h | h
  all_goals (try simp [h, nextDt_ne16])
  have e : ¬ st % 16 ≤ 8 := by omega
  have e0 : st % 16 ≠ 0 := by omega
  have e1 : st % 16 ≠ 1 := by omega
  have e2 : st % 16 ≠ 2 := by omega
  have e3 : st % 16 ≠ 3 := by omega
  have e7 : st % 16 ≠ 7 := by omega
  have e8 : st % 16 ≠ 8 := by omega
  simp [e, e0, e1, e2, e3, e7, e8]

theorem Sci.runChunk_step {o : Oracle} {s s1 : Sci.State} {b : Nat} {bs : List Nat} {items : List Item}
    (h : Sci.step o s b = ⟨s1, items, none⟩) :
    Sci.runChunk o s (b :: bs) =
      ⟨(Sci.runChunk o s1 bs).state, items ++ (Sci.runChunk o s1 bs).items, (Sci.runChunk o s1 bs).err⟩ := by
  simp [Sci.runChunk, h]

theorem sci_last_step (o : Oracle) (rxdt st hi mi lo chk x4 : Nat) (hst : st < 256) (hlo : lo < 256) :
    Sci.step o ⟨.waitChecksum, [st, hi, mi, lo, x4], rxdt⟩ chk =
      ⟨⟨.waitStatus, List.replicate 5 0, (sciFrameOut o rxdt st hi mi lo chk).1⟩,
       (sciFrameOut o rxdt st hi mi lo chk).2, none⟩ := by
  have hd := sci_dispatch o rxdt st hi mi lo chk hst hlo
  have hx : xorAll [st, hi, mi, lo] = xorSum [st, hi, mi, lo] := xorAll_eq _
  simp only [Sci.step, bufSet, List.length_cons, List.length_nil, List.set, sciFrameOut]
  by_cases hc : xorSum [st, hi, mi, lo] = chk
  · have hc' : xorAll [st, hi, mi, lo] = chk := hx ▸ hc
    by_cases hk : Sci.knownCode (st &&& sci_STATUS_CODE_MASK) = true
    · simp only [hk, if_true] at hd
      simp [hc, hc', hk, hd.symm, Sci.State.reset, sci_MAX_LEN]
    · simp only [hk] at hd
      simp [hc, hc', hk, hd.symm, Sci.State.reset, sci_MAX_LEN]
  · have hc' : ¬ xorAll [st, hi, mi, lo] = chk := hx ▸ hc
    simp [hc, hc', Sci.State.reset, sci_MAX_LEN]

theorem sci_frame (o : Oracle) (s : Sci.State) (hs : sciIdle s) (st hi mi lo chk : Nat)
    (hst : st < 256) (hlo : lo < 256) (rest : List Nat) :
    Sci.runChunk o s (st :: hi :: mi :: lo :: chk :: rest) =
      ⟨(Sci.runChunk o ⟨.waitStatus, List.replicate 5 0, (sciFrameOut o s.rxdt st hi mi lo chk).1⟩ rest).state,
       (sciFrameOut o s.rxdt st hi mi lo chk).2 ++
         (Sci.runChunk o ⟨.waitStatus, List.replicate 5 0, (sciFrameOut o s.rxdt st hi mi lo chk).1⟩ rest).items,
       (Sci.runChunk o ⟨.waitStatus, List.replicate 5 0, (sciFrameOut o s.rxdt st hi mi lo chk).1⟩ rest).err⟩ := by
  obtain ⟨ph, buf, rxdt⟩ := s
  obtain ⟨hp, hb⟩ := hs
  simp only at hp hb
  subst hp
  match buf, hb with
  | [x0, x1, x2, x3, x4], _ =>
    have h1 : Sci.step o ⟨.waitStatus, [x0, x1, x2, x3, x4], rxdt⟩ st = ⟨⟨.waitHi, [st, x1, x2, x3, x4], rxdt⟩, [], none⟩ := by
      simp [Sci.step, Sci.store, bufSet]
    have h2 : Sci.step o ⟨.waitHi, [st, x1, x2, x3, x4], rxdt⟩ hi = ⟨⟨.waitMi, [st, hi, x2, x3, x4], rxdt⟩, [], none⟩ := by
      simp [Sci.step, Sci.store, bufSet]
    have h3 : Sci.step o ⟨.waitMi, [st, hi, x2, x3, x4], rxdt⟩ mi = ⟨⟨.waitLo, [st, hi, mi, x3, x4], rxdt⟩, [], none⟩ := by
      simp [Sci.step, Sci.store, bufSet]
    have h4 : Sci.step o ⟨.waitLo, [st, hi, mi, x3, x4], rxdt⟩ lo = ⟨⟨.waitChecksum, [st, hi, mi, lo, x4], rxdt⟩, [], none⟩ := by
      simp [Sci.step, Sci.store, bufSet]
    have h5 := sci_last_step o rxdt st hi mi lo chk x4 hst hlo
    rw [Sci.runChunk_step h1, Sci.runChunk_step h2, Sci.runChunk_step h3, Sci.runChunk_step h4,
      Sci.runChunk_step h5]
    simp

/-- a stream shorter than a frame delivers nothing and raises nothing -/
theorem sci_short (o : Oracle) (s : Sci.State) (hs : sciIdle s) (bs : List Nat) (hl : bs.length < 5) :
    (Sci.runChunk o s bs).items = [] ∧ (Sci.runChunk o s bs).err = none := by
  obtain ⟨ph, buf, rxdt⟩ := s
  obtain ⟨hp, hb⟩ := hs
  simp only at hp hb
  subst hp
  match buf, hb with
  | [x0, x1, x2, x3, x4], _ =>
    match bs, hl with
    | [], _ => simp [Sci.runChunk]
    | [a], _ => simp [Sci.runChunk, Sci.step, Sci.store, bufSet]
    | [a, b], _ => simp [Sci.runChunk, Sci.step, Sci.store, bufSet]
    | [a, b, c], _ => simp [Sci.runChunk, Sci.step, Sci.store, bufSet]
    | [a, b, c, d], _ => simp [Sci.runChunk, Sci.step, Sci.store, bufSet]

theorem sci_refines_aux (o : Oracle) : ∀ (n : Nat) (bytes : List Nat) (s : Sci.State), bytes.length ≤ n → sciIdle s →
    (∀ b ∈ bytes, b < 256) →
    (Sci.runChunk o s bytes).items = sciDeframe o s.rxdt bytes ∧ (Sci.runChunk o s bytes).err = none := by
  intro n
  induction n with
  | zero =>
    intro bytes s hl hs _
    have : bytes = [] := List.eq_nil_of_length_eq_zero (by omega)
    subst this
    simp [Sci.runChunk, sciDeframe]
  | succ n ih =>
    intro bytes s hl hs hb
    match bytes, hl, hb with
    | st :: hi :: mi :: lo :: chk :: rest, hl, hb =>
      have hst : st < 256 := hb st (by simp)
      have hlo : lo < 256 := hb lo (by simp)
      rw [sci_frame o s hs st hi mi lo chk hst hlo rest]
      have hidle : sciIdle ⟨.waitStatus, List.replicate 5 0, (sciFrameOut o s.rxdt st hi mi lo chk).1⟩ := by
        simp [sciIdle]
      have := ih rest ⟨.waitStatus, List.replicate 5 0, (sciFrameOut o s.rxdt st hi mi lo chk).1⟩
        (by simp at hl; omega) hidle (fun b hb' => hb b (by simp [hb']))
      simp only [this.1, this.2, and_true]
      rw [sciDeframe]
      unfold sciFrameOut
      by_cases hc : xorSum [st, hi, mi, lo] = chk <;> simp [hc]
    | [], _, _ => simp [Sci.runChunk, sciDeframe]
    | [a], _, _ => exact ⟨by rw [(sci_short o s hs [a] (by simp)).1]; simp [sciDeframe], (sci_short o s hs _ (by simp)).2⟩
    | [a, b], _, _ => exact ⟨by rw [(sci_short o s hs [a, b] (by simp)).1]; simp [sciDeframe], (sci_short o s hs _ (by simp)).2⟩
    | [a, b, c], _, _ => exact ⟨by rw [(sci_short o s hs [a, b, c] (by simp)).1]; simp [sciDeframe], (sci_short o s hs _ (by simp)).2⟩
    | [a, b, c, d], _, _ => exact ⟨by rw [(sci_short o s hs [a, b, c, d] (by simp)).1]; simp [sciDeframe], (sci_short o s hs _ (by simp)).2⟩

end DaliVerif.Proofs.SerialRx
