import DaliVerif.Model.MemValue
import DaliVerif.Spec.MemoryLayout
/-!
# Lemmas for C11: the model's interpretation equals the reference interpretation

`rowOf v` reads off a generated value the row of the layout table it
corresponds to (`none` when its implementors do not form an encoding kind the
specification knows or its data is not of the documented shape).
`interpret_eq_spec`: whenever `rowOf v = some r`, the model of the library's
`check_raw … or raw_to_value` returns, for **every** raw string of the right
length, exactly `Spec.Mem.interpret r raw` — and in particular never raises.
-/
namespace DaliVerif.Mem
open DaliVerif DaliVerif.Spec.Mem

theorem foldl_be (l : List Nat) (acc : Nat) :
    l.foldl (fun a b => a * 256 + b) acc = acc * 256 ^ l.length + be l := by
  induction l generalizing acc with
  | nil => simp [be]
  | cons b rest ih =>
    simp only [List.foldl_cons, ih, be, List.length_cons, Nat.pow_succ]
    rw [Nat.add_mul, Nat.mul_assoc, Nat.mul_comm 256, Nat.add_assoc]

theorem beNat_eq_be (l : List Nat) : beNat l = be l := by
  simp [beNat, foldl_be]

theorem fromBytes_unsigned (l : List Nat) : fromBytes false l = (be l : Int) := by
  simp [fromBytes, beNat_eq_be]

theorem fromBytes_signed_byte (sb : Nat) : fromBytes true [sb] = signedByte sb := by
  unfold fromBytes signedByte beNat
  by_cases h : 128 ≤ sb <;> simp [h]

theorem untilNul_eq (l : List Nat) : untilNul l = cString l := by
  induction l with
  | nil => rfl
  | cons b rest ih => simp [untilNul, cString, ih]

theorem lightDistName_eq (b : Nat) : Mem.lightDistName b = Spec.Mem.lightDistName b := by
  by_cases h0 : b = 0
  · subst h0; rfl
  by_cases h1 : b = 1
  · subst h1; rfl
  by_cases h2 : b = 2
  · subst h2; rfl
  by_cases h3 : b = 3
  · subst h3; rfl
  by_cases h4 : b = 4
  · subst h4; rfl
  by_cases h5 : b = 5
  · subst h5; rfl
  obtain ⟨k, rfl⟩ : ∃ k, b = k + 6 := ⟨b - 6, by omega⟩
  have e0 : ¬ (k + 6 = 0) := by omega
  have e1 : ¬ (k + 6 = 1) := by omega
  have e2 : ¬ (k + 6 = 2) := by omega
  have e3 : ¬ (k + 6 = 3) := by omega
  have e4 : ¬ (k + 6 = 4) := by omega
  have e5 : ¬ (k + 6 = 5) := by omega
  unfold Mem.lightDistName
  rw [if_neg e0, if_neg e1, if_neg e2, if_neg e3, if_neg e4, if_neg e5]
  rfl

theorem not_decide_lt (a m : Int) : (!decide (a < m)) = decide (m ≤ a) := by
  by_cases h : a < m
  · have : ¬ m ≤ a := by omega
    simp [h, this]
  · have : m ≤ a := by omega
    simp [h, this]

theorem not_decide_gt (a m : Int) : (!decide (a > m)) = decide (a ≤ m) := by
  by_cases h : a > m
  · have : ¬ a ≤ m := by omega
    simp [h, this]
  · have : a ≤ m := by omega
    simp [h, this]

theorem some_beq_comm (a p : List Nat) : (some a == some p) = (p == a) := by
  rw [Option.some_beq_some]
  apply Bool.eq_iff_iff.mpr
  rw [beq_iff_eq, beq_iff_eq]
  exact eq_comm

def contiguous : List Loc → Bool
  | [] => true
  | [_] => true
  | a :: b :: rest => b.addr == a.addr + 1 && contiguous (b :: rest)

def kindOf (v : MemValue) : Option Kind :=
  match v.r2v, v.valid, v.check with
  | .plain, .always, .base => some .raw
  | .numeric, .numeric, .base => some .number
  | .fixedScale, .numeric, .base =>
    if v.scaleIsDecimal then some (.decimal v.scaleMant v.scaleExp)
    else if v.scaleExp = 0 then some (.times v.scaleMant) else none
  | .scaled, .numeric, .scaled => some .unitScaled
  | .string, .always, .base => some .text
  | .binary, .binary, .base => some .flagBit
  | .temperature, .numeric, .base => some (.temperature v.offset)
  | .version, .numeric, .base => some .version
  | .cct, .cct, .base => some .cct
  | .lightDist, .always, .base => some .lightDist
  | _, _, _ => none

/-- number of bytes compared with MASK / TMASK -/
def payloadLen (k : Kind) (width : Nat) : Nat :=
  match k with
  | .unitScaled => width - 1
  | _ => width

/-- the row of the layout table a generated value corresponds to; `none` when
its implementors do not form a kind the specification knows, or its data is
not of the documented shape -/
def shapeOK (v : MemValue) (k : Kind) : Bool :=
  let width := v.locs.length
  let plen := payloadLen k width
  contiguous v.locs && !v.signed && v.fromListBase &&
  v.mask == (if v.maskSupported then some (allOnes plen) else none) &&
  v.tmask == (if v.tmaskSupported then some (allOnesMinusOne plen) else none) &&
  v.maskLengthAdjust == (match k with | .unitScaled => -1 | _ => 0) &&
  (match k with | .unitScaled => decide (2 ≤ width) | _ => true)

def rowOf (v : MemValue) : Option Row :=
  match kindOf v, v.locs with
  | some k, l :: _ =>
    if shapeOK v k
    then some { bank := v.bank, name := v.name, first := l.addr, width := v.locs.length,
                access := v.locs.map (·.type), kind := k, mask := v.maskSupported,
                tmask := v.tmaskSupported, min := v.minValue, max := v.maxValue, pinned := false }
    else none
  | _, _ => none

theorem numericValid_eq (v : MemValue) (r : Row) (raw : List Nat) (hs : v.signed = false)
    (hmin : r.min = v.minValue) (hmax : r.max = v.maxValue) :
    numericValid v raw = inRange r (be raw) := by
  unfold numericValid inRange
  rw [hs, fromBytes_unsigned, hmin, hmax]
  cases v.minValue <;> cases v.maxValue <;> simp only [not_decide_lt, not_decide_gt, Bool.true_and, Bool.and_true]

/-- `MemoryValue.check_raw` with the mask tests rewritten to the reference patterns -/
theorem checkRawBase_eq (v : MemValue) (p : List Nat) (plen : Nat) (hp : p.length = plen)
    (hm : v.mask = (if v.maskSupported then some (allOnes plen) else none))
    (ht : v.tmask = (if v.tmaskSupported then some (allOnesMinusOne plen) else none)) :
    checkRawBase v p =
      if v.maskSupported && p == allOnes p.length then some (.ok (some .MASK))
      else if v.tmaskSupported && p == allOnesMinusOne p.length then some (.ok (some .TMASK))
      else match isValid v p with
        | none => none
        | some (.error e) => some (.error e)
        | some (.ok true) => some (.ok none)
        | some (.ok false) => some (.ok (some .Invalid)) := by
  unfold checkRawBase
  rw [hm, ht, hp]
  cases v.maskSupported <;> cases v.tmaskSupported <;>
    simp only [Bool.true_and, Bool.false_and, if_true, if_false, some_beq_comm, Bool.false_eq_true] <;> rfl

/-- the facts `rowOf v = some r` packs -/
structure RowFacts (v : MemValue) (r : Row) : Prop where
  kind : kindOf v = some r.kind
  width : r.width = v.locs.length
  signed : v.signed = false
  fromList : v.fromListBase = true
  mask : v.mask = (if v.maskSupported then some (allOnes (payloadLen r.kind r.width)) else none)
  tmask : v.tmask = (if v.tmaskSupported then some (allOnesMinusOne (payloadLen r.kind r.width)) else none)
  rmask : r.mask = v.maskSupported
  rtmask : r.tmask = v.tmaskSupported
  rmin : r.min = v.minValue
  rmax : r.max = v.maxValue
  wide : r.kind = .unitScaled → 2 ≤ r.width
  pos : 1 ≤ r.width

theorem rowFacts (v : MemValue) (r : Row) (h : rowOf v = some r) : RowFacts v r := by
  unfold rowOf at h
  split at h
  · rename_i k l rest hk hl
    cases hc : shapeOK v k with
    | false => simp [hc] at h
    | true =>
      simp only [hc, if_true] at h
      injection h with h
      subst h
      unfold shapeOK at hc
      simp only [Bool.and_eq_true, Bool.not_eq_true', beq_iff_eq] at hc
      obtain ⟨⟨⟨⟨⟨⟨-, hs⟩, hf⟩, hm⟩, ht⟩, -⟩, hw⟩ := hc
      refine ⟨hk, rfl, hs, hf, hm, ht, rfl, rfl, rfl, rfl, ?_, ?_⟩
      · intro hku
        simp only [] at hku
        subst hku
        simpa using hw
      · simp [hl]
  · contradiction

theorem payloadLen_other (k : Kind) (w : Nat) (hk : k ≠ .unitScaled) : payloadLen k w = w := by
  cases k <;> simp_all [payloadLen]

theorem payload_other (r : Row) (raw : List Nat) (hk : r.kind ≠ .unitScaled) : payload r raw = raw := by
  unfold payload; cases hkk : r.kind <;> simp_all

theorem scaleOK_other (r : Row) (raw : List Nat) (hk : r.kind ≠ .unitScaled) : scaleOK r raw = true := by
  unfold scaleOK; cases hkk : r.kind <;> simp_all

/-- what is left of `interpret` once MASK and TMASK are excluded -/
def afterMasks (v : MemValue) (p raw : List Nat) : Option (PyRes MVal) :=
  match isValid v p with
  | none => none
  | some (.error e) => some (.error e)
  | some (.ok true) => rawToValue v raw
  | some (.ok false) => some (.ok (.flag .Invalid))

theorem interp_base (v : MemValue) (r : Row) (F : RowFacts v r) (raw : List Nat)
    (hlen : raw.length = r.width) (hc : v.check = .base) (hk : r.kind ≠ .unitScaled)
    (hdec : afterMasks v raw raw = some (.ok (decode r raw))) :
    Mem.interpret v raw = some (.ok (Spec.Mem.interpret r raw)) := by
  have hpl : raw.length = payloadLen r.kind r.width := by rw [payloadLen_other _ _ hk, hlen]
  unfold Mem.interpret checkRaw
  rw [hc]
  simp only []
  rw [checkRawBase_eq v raw _ hpl F.mask F.tmask]
  unfold Spec.Mem.interpret
  rw [scaleOK_other r raw hk, payload_other r raw hk, F.rmask, F.rtmask]
  simp only [Bool.not_true, Bool.false_eq_true, if_false]
  by_cases h1 : (v.maskSupported && raw == allOnes raw.length) = true
  · simp only [h1, if_true]
  · simp only [h1, Bool.false_eq_true, if_false]
    by_cases h2 : (v.tmaskSupported && raw == allOnesMinusOne raw.length) = true
    · simp only [h2, if_true]
    · simp only [h2, Bool.false_eq_true, if_false]
      rw [← hdec]
      unfold afterMasks
      cases isValid v raw with
      | none => rfl
      | some x =>
        cases x with
        | error e => rfl
        | ok b => cases b <;> rfl

theorem interpret_eq_spec (v : MemValue) (r : Row) (h : rowOf v = some r) (raw : List Nat)
    (hlen : raw.length = r.width) :
    Mem.interpret v raw = some (.ok (Spec.Mem.interpret r raw)) := by
  have F := rowFacts v r h
  have hk := F.kind
  have hnv := numericValid_eq v r raw F.signed F.rmin F.rmax
  have hfb := fromBytes_unsigned raw
  have hpos : raw ≠ [] := by
    intro he; have := F.pos; rw [← hlen, he] at this; simp at this
  unfold kindOf at hk
  cases hr : v.r2v <;> cases hv : v.valid <;> cases hc : v.check <;>
    simp only [hr, hv, hc, reduceCtorEq] at hk
  case plain.always.base =>
    injection hk with hk
    apply interp_base v r F raw hlen hc (by rw [← hk]; simp)
    simp [afterMasks, isValid, hv, rawToValue, hr, decode, ← hk]
  case numeric.numeric.base =>
    injection hk with hk
    apply interp_base v r F raw hlen hc (by rw [← hk]; simp)
    simp only [afterMasks, isValid, hv, rawToValue, hr, decode, ← hk, hnv, F.signed, hfb]
    cases inRange r (be raw) <;> simp
  case fixedScale.numeric.base =>
    cases hd : v.scaleIsDecimal with
    | true =>
      simp only [hd, if_true] at hk
      injection hk with hk
      apply interp_base v r F raw hlen hc (by rw [← hk]; simp)
      simp only [afterMasks, isValid, hv, rawToValue, hr, decode, ← hk, hnv, F.signed, hfb, hd]
      cases inRange r (be raw) <;> simp
    | false =>
      simp only [hd, Bool.false_eq_true, if_false] at hk
      by_cases he : v.scaleExp = 0
      · simp only [he, if_true] at hk
        injection hk with hk
        apply interp_base v r F raw hlen hc (by rw [← hk]; simp)
        simp only [afterMasks, isValid, hv, rawToValue, hr, decode, ← hk, hnv, F.signed, hfb, hd]
        cases inRange r (be raw) <;> simp
      · simp [he] at hk
  case string.always.base =>
    injection hk with hk
    apply interp_base v r F raw hlen hc (by rw [← hk]; simp)
    simp only [afterMasks, isValid, hv, rawToValue, hr, decode, ← hk, untilNul_eq]
  case binary.binary.base =>
    injection hk with hk
    apply interp_base v r F raw hlen hc (by rw [← hk]; simp)
    cases raw with
    | nil => exact absurd rfl hpos
    | cons b rest =>
      simp only [afterMasks, isValid, hv, rawToValue, hr, decode, ← hk, List.headD_cons]
      by_cases h0 : b = 0
      · subst h0; simp
      · by_cases h1 : b = 1
        · subst h1; simp
        · have hb : (b == 0 || b == 1) = false := by simp [h0, h1]
          simp [hb, h0, h1]
  case temperature.numeric.base =>
    injection hk with hk
    apply interp_base v r F raw hlen hc (by rw [← hk]; simp)
    simp only [afterMasks, isValid, hv, rawToValue, hr, decode, ← hk, hnv, beNat_eq_be]
    cases inRange r (be raw) <;> simp
  case version.numeric.base =>
    injection hk with hk
    apply interp_base v r F raw hlen hc (by rw [← hk]; simp)
    simp only [afterMasks, isValid, hv, rawToValue, hr, decode, ← hk, hnv, F.signed, hfb, versionText]
    cases inRange r (be raw) <;> simp
  case cct.cct.base =>
    injection hk with hk
    apply interp_base v r F raw hlen hc (by rw [← hk]; simp)
    simp only [afterMasks, isValid, hv, rawToValue, hr, decode, ← hk, hnv, F.signed, hfb]
    by_cases hs : raw = [0xff, 0xfe]
    · simp [hs]
    · simp only [hs, if_false]
      cases inRange r (be raw) <;> simp
  case lightDist.always.base =>
    injection hk with hk
    apply interp_base v r F raw hlen hc (by rw [← hk]; simp)
    cases raw with
    | nil => exact absurd rfl hpos
    | cons b rest =>
      simp only [afterMasks, isValid, hv, rawToValue, hr, decode, ← hk, List.headD_cons, lightDistName_eq]
  case scaled.numeric.scaled =>
    injection hk with hk
    have hw := F.wide hk.symm
    cases raw with
    | nil => exact absurd rfl hpos
    | cons sb rest =>
      have hpl : rest.length = payloadLen r.kind r.width := by
        rw [← hk]; simp only [payloadLen]; rw [← hlen]; simp
      have hnv' := numericValid_eq v r rest F.signed F.rmin F.rmax
      unfold Mem.interpret checkRaw
      rw [hc]
      simp only []
      unfold Spec.Mem.interpret scaleOK payload
      simp only [← hk, List.headD_cons, List.tail_cons]
      by_cases hsc : sb > 6 ∧ sb < 250
      · have hsc' : (6 < sb ∧ sb < 250) := hsc
        simp [hsc, hsc']
      · have hsc' : ¬ (6 < sb ∧ sb < 250) := hsc
        simp only [hsc, hsc', if_false, decide_false, Bool.not_false, Bool.not_true, Bool.false_eq_true]
        rw [checkRawBase_eq v rest _ hpl F.mask F.tmask, F.rmask, F.rtmask]
        by_cases h1 : (v.maskSupported && rest == allOnes rest.length) = true
        · simp only [h1, if_true]
        · simp only [h1, Bool.false_eq_true, if_false]
          by_cases h2 : (v.tmaskSupported && rest == allOnesMinusOne rest.length) = true
          · simp only [h2, if_true]
          · simp only [h2, Bool.false_eq_true, if_false]
            simp only [isValid, hv, hnv', rawToValue, hr, decode, ← hk, List.tail_cons, List.headD_cons,
              List.take, beNat_eq_be]
            rw [fromBytes_signed_byte]
            by_cases hin : inRange r (be rest) = true
            · simp only [hin, if_true]
            · have hin' : inRange r (be rest) = false := by simpa using hin
              simp only [hin', Bool.false_eq_true, if_false]
end DaliVerif.Mem
