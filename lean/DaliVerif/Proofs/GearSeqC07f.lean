import DaliVerif.Proofs.GearSeqC07e
/-!
# C07, part f: `Commissioning` as a whole on the specification bus

`commissioning_bus`: for any bus with 24-bit random addresses, any duplicate-free permitted list within 0..63,
both re-address modes, dry run or not, any number of rounds — the PROGRAM SHORT ADDRESS arguments are a prefix
of the permitted addresses not in use (none in a dry run); a normal return handed out
`min(#participants, #permitted left)` addresses; the only exception is ProgramShortAddressFailure, only when not
a dry run and only on a bus with a faulty unit, directly after PROGRAM / VERIFY SHORT ADDRESS; command bound.
-/
namespace DaliVerif.GearSeq
set_option linter.unusedSimpArgs false
set_option linter.unusedVariables false

/-! ## `Commissioning` as a whole on the specification bus -/

/-- TERMINATE, INITIALISE, the RANDOMISE rounds, TERMINATE -/
def commBody (rounds : Nat) (re dry : Bool) (av : List Nat) : Prog (List (Nat × Nat)) :=
  .tell .terminate <| .tell (.initialise (if re then 0x00 else 0xFF)) <|
    (outer dry rounds av []).bind fun handed => .tell .terminate <| .note .progress <| .done handed

theorem commissioning_eq (rounds : Nat) (av : Option (List Nat)) (re dry : Bool) :
    commissioning rounds av re dry =
      if re then
        (if dry then .note .progress (commBody rounds re dry (av.getD (List.range 64)))
         else .tell (.dtr0 255) (.tell (.setShortAddress .broadcast) (commBody rounds re dry (av.getD (List.range 64)))))
      else discover (List.range 64) (av.getD (List.range 64)) (fun av' => .note .progress (commBody rounds re dry av')) := by
  cases re <;> cases dry <;> rfl

/-- the units the sequence addresses: all when re-addressing, else the unaddressed ones -/
def parts (re : Bool) (L : List V) : Nat := L.countP (fun v => re || v.short.isNone)

def startV (re : Bool) (v : V) : V := V.ini (if re then 0x00 else 0xFF) (V.term v)

theorem start_init (re : Bool) (v : V) :
    (startV re v).init = if (re || v.short.isNone) = true then .enabled else .disabled := by
  cases re with
  | true => simp [startV, V.ini, V.term]
  | false =>
    cases h : v.short with
    | none => simp [startV, V.ini, V.term, h]
    | some a => simp [startV, V.ini, V.term, h]

theorem enRV_len (L : List V) : (enRV L).length = L.countP (fun v => v.init == .enabled) := by
  induction L with
  | nil => rfl
  | cons v L ih =>
    simp only [enRV, List.filterMap_cons, List.countP_cons] at ih ⊢
    by_cases he : v.init = .enabled
    · simp only [he, if_true, List.length_cons, ih, beq_self_eq_true]
    · have : (v.init == InitState.enabled) = false := by simpa using he
      simp only [he, if_false, ih, this, Bool.false_eq_true, Nat.add_zero]

theorem start_counts (re : Bool) (L : List V) :
    (enRV (L.map (startV re))).length = parts re L ∧ nWd (L.map (startV re)) = 0 := by
  constructor
  · rw [enRV_len, List.countP_map, parts]
    apply List.countP_congr
    intro v _
    simp only [Function.comp, start_init]
    by_cases h : (re || v.short.isNone) = true <;> simp [h]
  · rw [nWd, List.countP_map, List.countP_eq_zero]
    intro v _
    simp only [Function.comp, start_init]
    by_cases h : (re || v.short.isNone) = true <;> simp [h]

theorem start_fields (re : Bool) (v : V) : (startV re v).random = v.random ∧ (startV re v).draws = v.draws ∧
    (startV re v).noStore = v.noStore ∧ (startV re v).noVerify = v.noVerify ∧ (startV re v).short = v.short := by
  simp only [startV, V.ini, V.term]
  repeat' split
  all_goals exact ⟨rfl, rfl, rfl, rfl, rfl⟩

theorem view_start (re : Bool) (b : Bus) :
    view (Bus.exec (Bus.exec b .terminate).2 (.initialise (if re then 0x00 else 0xFF))).2 =
      (view b).map (startV re) := by
  rw [view_exec _ _ _ (fun u _ => v_ini u _), view_exec _ _ _ (fun u _ => v_term u), List.map_map]
  rfl


structure BodyPost (o : Out Bus (List (Nat × Nat))) (L1 : List V) (re dry : Bool) (av : List Nat) : Prop where
  pre : progArgs o.trace <+: av
  dryP : dry = true → progArgs o.trace = []
  count : ∀ h, o.res = .ret h → dry = false → (progArgs o.trace).length = min (parts re L1) av.length
  raise : ∀ e, o.res = .raised e → e = .ProgramShortAddressFailure ∧ dry = false ∧ ¬ NoFault L1 ∧
    ∃ t a, o.trace = t ++ [Cmd.programShort a, Cmd.verifyShort a]
  len : o.trace.length ≤ countRandomise o.trace * (199 * L1.length + 199) + 3

theorem progArgs_outer_dry (t : List Cmd) (h : ∀ c ∈ t, IsOuter true c) : progArgs t = [] := by
  apply progArgs_nil
  intro c hc a e
  have := h c hc
  rw [e] at this
  rcases this with h | h
  · cases h
  · cases h

theorem body_bus (rounds : Nat) (re dry : Bool) (av : List Nat) (b1 : Bus) (hwf : WF (view b1)) :
    BodyPost (runBus (commBody rounds re dry av) b1) (view b1) re dry av := by
  unfold commBody
  rw [runBus_tell, runBus_tell]
  have hv3 := view_start re b1
  obtain ⟨c1, c2⟩ := start_counts re (view b1)
  have hwf3 : WF (view (Bus.exec (Bus.exec b1 .terminate).2 (.initialise (if re then 0x00 else 0xFF))).2) := by
    rw [hv3]
    intro v hv
    simp only [List.mem_map] at hv
    obtain ⟨w, hw, rfl⟩ := hv
    obtain ⟨f1, f2, _⟩ := start_fields re w
    have := hwf w hw
    simp only [WFv] at this ⊢
    rw [f1, f2]; exact this
  have S := outer_syn Bus.exec dry rounds av [] (Bus.exec (Bus.exec b1 .terminate).2 (.initialise (if re then 0x00 else 0xFF))).2
  have B := outer_bus dry rounds av [] _ hwf3
  have hcls := (outer_only dry rounds av []).trace Bus.exec
    (Bus.exec (Bus.exec b1 .terminate).2 (.initialise (if re then 0x00 else 0xFF))).2
  rw [hv3, c1, c2] at B
  simp only [runBus] at B ⊢
  rw [run_bind]
  generalize ((outer dry rounds av []).run Bus.exec
    (Bus.exec (Bus.exec b1 .terminate).2 (.initialise (if re then 0x00 else 0xFF))).2) = o2 at S B hcls ⊢
  have hpa : ∀ t : List Cmd, progArgs (Cmd.terminate :: Cmd.initialise (if re then 0x00 else 0xFF) :: t) = progArgs t :=
    fun t => rfl
  have hcr : ∀ t : List Cmd,
      countRandomise (Cmd.terminate :: Cmd.initialise (if re then 0x00 else 0xFF) :: t) = countRandomise t := by
    intro t; simp [countRandomise, List.filter_cons]
  have hpt : progArgs (o2.trace ++ [Cmd.terminate]) = progArgs o2.trace := by
    rw [progArgs_append]; simp [progArgs]
  have hct : countRandomise (o2.trace ++ [Cmd.terminate]) = countRandomise o2.trace := by
    rw [countRandomise_append]; simp [countRandomise]
  have hdry : dry = true → progArgs o2.trace = [] := by
    intro hd; subst hd; exact progArgs_outer_dry _ hcls
  have hpre : progArgs o2.trace <+: av := by
    cases dry with
    | true => rw [hdry rfl]; exact List.nil_prefix
    | false => exact S.pre rfl
  have htot : parts re (view b1) ≤ (view b1).length := List.countP_le_length
  have hmul : countRandomise o2.trace * (199 * (parts re (view b1) + 0) + 199) ≤
      countRandomise o2.trace * (199 * (view b1).length + 199) :=
    Nat.mul_le_mul_left _ (by omega)
  have hlen := B.len
  cases hres : o2.res with
  | ret h =>
    simp only [Prog.tell, Prog.run]
    refine ⟨?_, ?_, ?_, by simp, ?_⟩
    · dsimp only; rw [hpa, hpt]; exact hpre
    · dsimp only; rw [hpa, hpt]; exact hdry
    · intro h' _ hd
      dsimp only
      rw [hpa, hpt]
      obtain ⟨_, _, b3⟩ := B.ret h hres
      have := b3 (by simp)
      obtain ⟨av', s1, s2⟩ := S.ret h hres
      have s2 := s2 hd
      simp only [List.map_nil, List.nil_append] at s1
      have e : (progArgs o2.trace).length = h.length := by
        have : progArgs o2.trace = h.map Prod.snd := by
          rw [← s1] at s2
          exact List.append_cancel_right s2
        rw [this, List.length_map]
      simp only [List.length_nil, Nat.zero_add, Nat.add_zero] at this
      rw [e, this]
    · dsimp only
      rw [hcr, hct]
      simp only [List.length_cons, List.length_append, List.length_nil]
      omega
  | raised e =>
    dsimp only
    refine ⟨?_, ?_, by simp, ?_, ?_⟩
    · dsimp only; rw [hpa]; exact hpre
    · dsimp only; rw [hpa]; exact hdry
    · intro e' he'
      injection he' with he'
      subst he'
      obtain ⟨s1, s2, t, a, ht⟩ := S.raise e hres
      refine ⟨s1, s2, ?_, Cmd.terminate :: Cmd.initialise (if re then 0x00 else 0xFF) :: t, a, by dsimp only; rw [ht]; rfl⟩
      intro nf
      refine B.raise ?_ e hres
      exact NoFault_map _ _ (fun v => ⟨(start_fields re v).2.2.1, (start_fields re v).2.2.2.1⟩) nf
    · dsimp only
      rw [hcr]
      simp only [List.length_cons]
      omega
  | outOfFuel =>
    dsimp only
    refine ⟨?_, ?_, by simp, by simp, ?_⟩
    · dsimp only; rw [hpa]; exact hpre
    · dsimp only; rw [hpa]; exact hdry
    · dsimp only
      rw [hcr]
      simp only [List.length_cons]
      omega


/-- the permitted addresses left after discovery: those not in use, unless re-addressing -/
def availAfter (re : Bool) (L : List V) (avail0 : List Nat) : List Nat :=
  if re then avail0 else avail0.filter (fun a => !(inUseL L).contains a)

/-- the clauses of the property about one run of `Commissioning` on a bus with views `L` -/
structure CommPost (o : Out Bus (List (Nat × Nat))) (L : List V) (re dry : Bool) (av : List Nat) : Prop where
  pre : progArgs o.trace <+: av
  dryP : dry = true → progArgs o.trace = []
  count : ∀ h, o.res = .ret h → dry = false → (progArgs o.trace).length = min (parts re L) av.length
  raise : ∀ e, o.res = .raised e → e = .ProgramShortAddressFailure ∧ dry = false ∧ ¬ NoFault L ∧
    ∃ t a, o.trace = t ++ [Cmd.programShort a, Cmd.verifyShort a]
  len : o.trace.length ≤ countRandomise o.trace * (199 * L.length + 199) + 67

theorem BodyPost.lift {o2 : Out Bus (List (Nat × Nat))} {L1 L : List V} {re dry : Bool} {av : List Nat}
    (B : BodyPost o2 L1 re dry av) (t : List Cmd) (ht1 : progArgs t = []) (ht2 : countRandomise t = 0)
    (ht3 : t.length ≤ 64) (hp : parts re L1 = parts re L) (hn : NoFault L → NoFault L1)
    (hl : L1.length = L.length) :
    CommPost (⟨o2.res, o2.st, t ++ o2.trace⟩ : Out Bus (List (Nat × Nat))) L re dry av := by
  have e1 : progArgs (t ++ o2.trace) = progArgs o2.trace := by rw [progArgs_append, ht1]; rfl
  have e2 : countRandomise (t ++ o2.trace) = countRandomise o2.trace := by
    rw [countRandomise_append, ht2, Nat.zero_add]
  refine ⟨?_, ?_, ?_, ?_, ?_⟩
  · dsimp only; rw [e1]; exact B.pre
  · dsimp only; rw [e1]; exact B.dryP
  · dsimp only; rw [e1, ← hp]; exact B.count
  · intro e he
    obtain ⟨a1, a2, a3, t', a, ht⟩ := B.raise e he
    exact ⟨a1, a2, fun nf => a3 (hn nf), t ++ t', a, by dsimp only; rw [ht, List.append_assoc]⟩
  · have := B.len
    dsimp only
    rw [e2, ← hl]
    simp only [List.length_append]
    omega

theorem quiet_trace (t : List Cmd) (h : ∀ c ∈ t, IsQuiet c) : progArgs t = [] ∧ countRandomise t = 0 := by
  constructor
  · apply progArgs_nil
    intro c hc a e
    have := h c hc; rw [e] at this; exact this
  · unfold countRandomise
    rw [List.length_eq_zero_iff, List.filter_eq_nil_iff]
    intro c hc
    have := h c hc
    cases c <;> first | exact this.elim | simp

theorem view_unaddr (b : Bus) :
    view (Bus.exec (Bus.exec b (.dtr0 255)).2 (.setShortAddress .broadcast)).2 = (view b).map V.unaddr := by
  simp only [view, Bus.exec_st, List.map_map]
  apply List.map_congr_left
  intro u _
  exact v_unaddr u

/-- **Commissioning on the specification bus** — any bus with 24-bit random addresses, any duplicate-free
permitted list within 0..63, both modes, dry run or not, any number of rounds -/
theorem commissioning_bus (rounds : Nat) (avail : Option (List Nat)) (re dry : Bool) (b : Bus)
    (hwf : WF (view b)) (hnd : (avail.getD (List.range 64)).Nodup)
    (h64 : ∀ a ∈ avail.getD (List.range 64), a < 64) :
    CommPost (runBus (commissioning rounds avail re dry) b) (view b) re dry
      (availAfter re (view b) (avail.getD (List.range 64))) := by
  rw [commissioning_eq]
  cases re with
  | true =>
    simp only [if_true, availAfter]
    cases dry with
    | true =>
      simp only [if_true, runBus_note]
      have B := body_bus rounds true true (avail.getD (List.range 64)) b hwf
      exact B.lift [] rfl rfl (by simp) rfl (fun h => h) rfl
    | false =>
      simp only [Bool.false_eq_true, if_false, runBus_tell]
      have hv := view_unaddr b
      have hwf1 : WF (view (Bus.exec (Bus.exec b (.dtr0 255)).2 (.setShortAddress .broadcast)).2) := by
        rw [hv]; intro v hv'
        simp only [List.mem_map] at hv'
        obtain ⟨w, hw, rfl⟩ := hv'
        exact hwf w hw
      have B := body_bus rounds true false (avail.getD (List.range 64)) _ hwf1
      rw [hv] at B
      exact B.lift [Cmd.dtr0 255, Cmd.setShortAddress .broadcast] rfl rfl (by simp)
        (by simp [parts]) (fun nf => NoFault_map _ _ (fun v => ⟨rfl, rfl⟩) nf) (by simp)
  | false =>
    simp only [Bool.false_eq_true, if_false, availAfter]
    obtain ⟨t, b1, h1, h2, h3, h4⟩ := discover_bus
      (fun av' => Prog.note .progress (commBody rounds false dry av')) (List.range 64)
      (avail.getD (List.range 64)) b
    rw [h4, discF_range _ _ hnd h64]
    simp only [runBus_note]
    have B := body_bus rounds false dry ((avail.getD (List.range 64)).filter
      (fun a => !(inUseL (view b)).contains a)) b1 (by rw [h1]; exact hwf)
    rw [h1] at B
    obtain ⟨q1, q2⟩ := quiet_trace t h3
    exact B.lift t q1 q2 (by simpa using h2) rfl (fun h => h) rfl

end DaliVerif.GearSeq
