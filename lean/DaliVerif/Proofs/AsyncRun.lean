import DaliVerif.Proofs.AsyncStep
/-!
# Every schedule preserves the invariant; what follows from it
-/
namespace DaliVerif.Async
open DaliVerif.Conn

theorem raiseStep_inv {s s' : St} {t : Tid} {e : Err} (hI : Inv s) (h : raiseStep s t e = some s') : Inv s' := by
  unfold raiseStep at h
  cases ht : s.tasks[t]? with
  | none => simp [ht] at h
  | some tk =>
    simp only [ht] at h
    obtain ⟨prog, retry, exc0, tag⟩ := tk
    cases prog with
    | nil => simp at h
    | cons st rest =>
      simp only at h
      have hT := hI.tasks t _ ht
      have hwf0 := hT.wf
      obtain ⟨hsok, _⟩ := wf_cons hwf0
      by_cases hcr : st.act.canRaise = true
      · simp only [hcr, Bool.not_true, Bool.false_eq_true, if_false] at h
        simp only [stepOK, hcr, Bool.not_true, Bool.false_or, Bool.and_eq_true] at hsok
        have hclean : cleanupOK (res s t) st.h = true := hsok.1
        have hexit : Inv (setTask s t { prog := plain st.h, retry := retry, exc := some e, tag := tag }) := by
          refine inv_setTask hI ht (tk' := { prog := plain st.h, retry := retry, exc := some e, tag := tag })
            ⟨rfl, rfl, rfl, rfl⟩ rfl ?_ ?_ hT.retry
          · exact wf_plain_of_cleanupOK _ _ _ hclean
          · simp only [cleanupOK, Bool.and_eq_true] at hclean
            exact edtSeg_plain _ _ hclean.1
        cases retry with
        | none => cases e <;> (simp only at h; cases h; exact hexit)
        | some body =>
          cases e with
          | comm =>
            simp only at h
            by_cases hcc : st.act.canComm = true
            · simp only [hcc, if_true] at h
              cases h
              have hro : retryOK (res s t) st.hr = true := by
                have := hsok.2
                simpa [hcc] using this
              obtain ⟨hbwf, hbedt⟩ := hT.retry body rfl
              simp only [retryOK, Bool.and_eq_true] at hro
              refine inv_setTask hI ht (tk' := { prog := plain st.hr ++ body, retry := some body, exc := exc0, tag := tag })
                ⟨rfl, rfl, rfl, rfl⟩ rfl ?_ ?_ hT.retry
              · simp only [wf, wfSeg_append, wfSeg_plain _ _ _ hro.1, Option.isSome_some]
                cases hra : runActs (res s t) st.hr with
                | none => simp [hra] at hro
                | some r1 =>
                  have : r1 = loopHead := by simpa [hra] using hro.2
                  subst this
                  simpa [wf] using hbwf
              · simp only [edtOK, edtSeg_append]
                have h1 := edtSeg_plain (lastFrame s t) st.hr hro.1
                cases hx : edtSeg (lastFrame s t) (plain st.hr) with
                | none => simp [hx] at h1
                | some x => exact edtSeg_mono x body hbedt
            · simp [hcc] at h
          | timeout => simp only at h; cases h; exact hexit
          | io => simp only at h; cases h; exact hexit
          | cancelled => simp only at h; cases h; exact hexit
          | boom => simp only at h; cases h; exact hexit
          | assertion => simp only at h; cases h; exact hexit
          | oserror => simp only at h; cases h; exact hexit
          | unsupported => simp only at h; cases h; exact hexit
      · simp [hcr] at h

/-- the only obligation on a schedule: the callers that appear run well-formed programs -/
def Label.ok : Label → Prop
  | .spawn tk => tk.ok = true
  | _ => True

theorem step_inv {s s' : St} {l : Label} (hI : Inv s) (hl : l.ok) (h : step? s l = some s') : Inv s' := by
  cases l with
  | spawn tk =>
    simp only [step?] at h
    cases h
    simp only [Label.ok, Task.ok, Bool.and_eq_true] at hl
    have hfree : ∀ u, s.tasks.length ≤ u → res s u = ⟨false, false, false⟩ := by
      intro u hu
      refine res_ext ?_ ?_ ?_
      · simp only [Bool.false_eq_true, false_iff]
        intro hh; exact absurd (hI.lockB u hh) (Nat.not_lt.mpr hu)
      · simp only [Bool.false_eq_true, false_iff]
        intro hh; exact absurd (hI.innerB u hh) (Nat.not_lt.mpr hu)
      · simp only [Bool.false_eq_true, false_iff]
        intro hh; exact absurd (hI.slotB u hh) (Nat.not_lt.mpr hu)
    refine ⟨?_, ?_, ?_, ?_, hI.log, hI.wire⟩
    · intro u tku hu
      by_cases hlt : u < s.tasks.length
      · have hu' : s.tasks[u]? = some tku := by
          rw [List.getElem?_append_left hlt] at hu; exact hu
        exact TaskInv.transfer (s := s) (res_eq_of Iff.rfl Iff.rfl Iff.rfl) (Or.inr (lastFrame_congr rfl rfl u)) (hI.tasks u tku hu')
      · have hge : s.tasks.length ≤ u := Nat.le_of_not_lt hlt
        rw [List.getElem?_append_right hge] at hu
        have hu0 : u - s.tasks.length = 0 := by
          rcases Nat.eq_zero_or_pos (u - s.tasks.length) with h0 | h0
          · exact h0
          · rw [List.getElem?_eq_none (by simp only [List.length_singleton]; exact h0)] at hu; cases hu
        rw [hu0] at hu
        simp only [List.getElem?_cons_zero, Option.some.injEq] at hu
        subst hu
        have hres : res ({ s with tasks := s.tasks ++ [tk] }) u = ⟨false, false, false⟩ :=
          (res_eq_of (s := s) Iff.rfl Iff.rfl Iff.rfl).trans (hfree u hge)
        have hlf : lastFrame ({ s with tasks := s.tasks ++ [tk] }) u = none := by
          apply lastFrame_none_of_lock
          intro hh; exact absurd (hI.lockB u hh) hlt
        refine ⟨by rw [hres]; exact hl.1.1.1, by rw [hres]; rfl, by rw [hlf]; exact hl.1.1.2, ?_⟩
        intro b hb
        have := hl.2
        simp only [hb, Bool.and_eq_true] at this
        exact this
    · intro u hu; have h9 : u < s.tasks.length := hI.lockB u hu; show u < (s.tasks ++ [tk]).length; rw [List.length_append]; exact Nat.lt_of_lt_of_le h9 (Nat.le_add_right _ _)
    · intro u hu; have h9 : u < s.tasks.length := hI.innerB u hu; show u < (s.tasks ++ [tk]).length; rw [List.length_append]; exact Nat.lt_of_lt_of_le h9 (Nat.le_add_right _ _)
    · intro u hu; have h9 : u < s.tasks.length := hI.slotB u hu; show u < (s.tasks ++ [tk]).length; rw [List.length_append]; exact Nat.lt_of_lt_of_le h9 (Nat.le_add_right _ _)
  | act t => exact actStep_inv hI h
  | raise t e => exact raiseStep_inv hI h
  | deliver tag m =>
    simp only [step?] at h
    split at h <;> cases h
    · exact inv_same hI ⟨rfl, rfl, rfl, rfl⟩ rfl
    · exact hI
  | env e =>
    simp only [step?] at h
    cases hc : Conn.step s.conn e with
    | none => simp [hc] at h
    | some c' =>
      simp only [hc] at h
      split at h <;> cases h
      · exact inv_shutdown c' hI
      · exact inv_same hI ⟨rfl, rfl, rfl, rfl⟩ rfl

theorem run_inv {s s' : St} {ls : List Label} (hI : Inv s) (hl : ∀ l ∈ ls, l.ok) (h : run? s ls = some s') : Inv s' := by
  induction ls generalizing s with
  | nil => simp only [run?] at h; cases h; exact hI
  | cons l ls ih =>
    simp only [run?] at h
    cases hs : step? s l with
    | none => simp [hs] at h
    | some s1 =>
      simp only [hs] at h
      exact ih (step_inv hI (hl l (List.mem_cons_self)) hs) (fun x hx => hl x (List.mem_cons_of_mem _ hx)) h

/-- a driver's state before any caller: nothing held, nothing logged -/
def St.initial (s : St) : Prop :=
  s.tasks = [] ∧ s.lock = none ∧ s.inner = [] ∧ s.slots = [] ∧ s.log = []

theorem inv_initial {s : St} (h : s.initial) : Inv s := by
  obtain ⟨h1, h2, h3, h4, h5⟩ := h
  refine ⟨?_, ?_, ?_, ?_, ?_, ?_⟩
  · intro t tk ht; rw [h1] at ht; simp at ht
  · intro t ht; rw [h2] at ht; cases ht
  · intro t ht; rw [h3] at ht; cases ht
  · intro t ht; simp [St.owners, h4] at ht
  · rw [h5, h2]; rfl
  · rw [h5]; rfl

/-- every state reachable by any schedule of well-formed callers satisfies the invariant -/
theorem reachable_inv {s0 s : St} {ls : List Label} (h0 : s0.initial) (hl : ∀ l ∈ ls, l.ok)
    (h : run? s0 ls = some s) : Inv s := run_inv (inv_initial h0) hl h

/-! ## consequences -/

/-- the grammar `(acq_t write_t* rel_t)*` with possibly one open unit at the end, oldest event
first, indexed by the holder before and after -/
inductive Bracketed : Option Tid → List (Tid × Ev) → Option Tid → Prop
  | nil (h) : Bracketed h [] h
  | acq {t l h} : Bracketed (some t) l h → Bracketed none ((t, .acq) :: l) h
  | write {t f l h} : Bracketed (some t) l h → Bracketed (some t) ((t, .write f) :: l) h
  | rel {t l h} : Bracketed none l h → Bracketed (some t) ((t, .rel) :: l) h

theorem Bracketed.snoc {a b c : Option Tid} {l : List (Tid × Ev)} {x : Tid × Ev}
    (h1 : Bracketed a l b) (h2 : Bracketed b [x] c) : Bracketed a (l ++ [x]) c := by
  induction h1 with
  | nil h => exact h2
  | acq _ ih => exact Bracketed.acq (ih h2)
  | write _ ih => exact Bracketed.write (ih h2)
  | rel _ ih => exact Bracketed.rel (ih h2)

theorem bracketed_of_holderR {l : List (Tid × Ev)} {h : Option Tid} (hh : holderR l = some h) :
    Bracketed none l.reverse h := by
  induction l generalizing h with
  | nil => simp only [holderR] at hh; cases hh; exact Bracketed.nil none
  | cons x l ih =>
    obtain ⟨t, e⟩ := x
    simp only [holderR] at hh
    cases hp : holderR l with
    | none => simp [hp] at hh
    | some h0 =>
      simp only [hp] at hh
      rw [List.reverse_cons]
      refine Bracketed.snoc (ih hp) ?_
      cases e with
      | acq =>
        simp only at hh
        split at hh
        · rename_i h00; subst h00; cases hh; exact Bracketed.acq (Bracketed.nil _)
        · cases hh
      | rel =>
        simp only at hh
        split at hh
        · rename_i h00; subst h00; cases hh; exact Bracketed.rel (Bracketed.nil _)
        · cases hh
      | write f =>
        simp only at hh
        split at hh
        · rename_i h00; subst h00; cases hh; exact Bracketed.write (Bracketed.nil _)
        · cases hh

/-- oldest-first wire: every device-type frame is immediately preceded by the same task's
EnableDeviceType -/
def EdtAdjacent (w : List (Tid × WFrame)) : Prop :=
  ∀ (pre post : List (Tid × WFrame)) (t : Tid) (f : WFrame), w = pre ++ (t, f) :: post → f.dt ≠ 0 →
    ∃ pre', pre = pre' ++ [(t, edtFrame f.dt)]

theorem edtAdjacent_of_wireEdtR {w : List (Tid × WFrame)} (h : wireEdtR w = true) : EdtAdjacent w.reverse := by
  induction w with
  | nil =>
    intro pre post t f he; simp at he
  | cons x w ih =>
    obtain ⟨u, g⟩ := x
    simp only [wireEdtR, Bool.and_eq_true, Bool.or_eq_true] at h
    intro pre post t f he hdt
    rw [List.reverse_cons] at he
    -- either the frame is inside `w.reverse` or it is the last one
    rcases List.eq_nil_or_concat post with hpost | ⟨post', y, hpost⟩
    · subst hpost
      have : pre ++ [(t, f)] = w.reverse ++ [(u, g)] := he.symm
      have h2 := List.append_inj' this rfl
      obtain ⟨hpre, hlast⟩ := h2
      simp only [List.cons.injEq, and_true] at hlast
      cases hlast
      rcases h.1 with h1 | h1
      · exact absurd (by simpa using h1) hdt
      · cases w with
        | nil => simp at h1
        | cons z w' =>
          simp only [List.head?_cons, beq_iff_eq, Option.some.injEq] at h1
          subst h1
          refine ⟨w'.reverse, ?_⟩
          rw [hpre, List.reverse_cons]
    · subst hpost
      have : w.reverse ++ [(u, g)] = (pre ++ (t, f) :: post') ++ [y] := by
        rw [he]; simp
      have h2 := List.append_inj' this rfl
      exact ih h.2 pre post' t f h2.1 hdt

end DaliVerif.Async
