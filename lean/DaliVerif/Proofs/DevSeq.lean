import DaliVerif.Model.DevSeq
import DaliVerif.Spec.DeviceUnit
import DaliVerif.Proofs.DevSeqProg
/-!
Proofs for C13: input value assembly, event filter / scheme set and query,
instance discovery, fault behaviour.
-/
namespace DaliVerif.DevMem
open Prog

/-! ### arithmetic of the input value -/

theorem repBits_lt (n v : Nat) (hv : v < 2 ^ n) : ∀ k, repBits n v k < 2 ^ k := by
  intro k
  induction k using Nat.strongRecOn with
  | _ k ih =>
    rw [repBits]
    split
    · rename_i h
      rcases h with h | h
      · rw [Nat.shiftRight_eq_div_pow]
        have : 2 ^ n = 2 ^ (n - k) * 2 ^ k := by rw [← Nat.pow_add]; congr 1; omega
        rw [Nat.div_lt_iff_lt_mul (Nat.two_pow_pos _)]
        rw [Nat.mul_comm]; omega
      · subst h; simp at hv; subst hv; simp; exact Nat.two_pow_pos _
    · rename_i h
      have hk : k - n < k := by omega
      have := ih (k - n) hk
      have e : k = (k - n) + n := by omega
      rw [Nat.shiftLeft_eq]
      have h2 : 2 ^ k = 2 ^ n * 2 ^ (k - n) := by rw [← Nat.pow_add]; congr 1; omega
      have := Nat.or_lt_two_pow (x := v * 2 ^ (k - n)) (y := repBits n v (k - n)) (n := k)
        (by rw [h2]; exact Nat.mul_lt_mul_of_pos_right hv (Nat.two_pow_pos _))
        (Nat.lt_of_lt_of_le this (Nat.pow_le_pow_right (by omega) (by omega)))
      exact this

theorem repBits_split (n v p : Nat) (hn : 0 < n) (hv : v < 2 ^ n) :
    repBits n v (n + p) >>> p = v := by
  rw [repBits]
  split
  · rename_i h
    have : p = 0 := by omega
    subst this; simp
  · have e : n + p - n = p := by omega
    rw [e]
    have hl := repBits_lt n v hv p
    apply Nat.eq_of_testBit_eq
    intro j
    simp only [Nat.testBit_shiftRight, Nat.testBit_or, Nat.testBit_shiftLeft]
    have : (repBits n v p).testBit (p + j) = false :=
      Nat.testBit_lt_two_pow (Nat.lt_of_lt_of_le hl (Nat.pow_le_pow_right (by omega) (by omega)))
    simp [this]

theorem foldl_bytesBE (x : Nat) : ∀ (len acc : Nat),
    (bytesBE x len).foldl (fun a c => a * 256 + c) acc = acc * 256 ^ len + x % 256 ^ len := by
  intro len
  induction len with
  | zero => intro acc; simp [bytesBE, Nat.mod_one]
  | succ k ih =>
    intro acc
    simp only [bytesBE, List.foldl_cons]
    rw [ih, Nat.shiftRight_eq_div_pow, Nat.mod_pow_succ (b := 256)]
    have : 2 ^ (8 * k) = 256 ^ k := by rw [Nat.pow_mul]
    rw [this, Nat.pow_succ]
    generalize 256 ^ k = P
    generalize x / P % 256 = q
    generalize x % P = r
    rw [Nat.add_mul, Nat.mul_assoc, Nat.mul_comm 256 P, Nat.mul_comm q P]
    omega

theorem bytesBE_length (x len : Nat) : (bytesBE x len).length = len := by
  induction len with
  | zero => rfl
  | succ k ih => simp [bytesBE, ih]



namespace Bus

theorem setInst_devs_self (b : Bus) (a i : Nat) (x : Instance) (d : Device) (h : b.devs a = some d) :
    (b.setInst a i x).devs a = some { d with instances := d.instances.set i x } := by
  simp [setInst, h]

theorem setInst_devs_other (b : Bus) (a a' i : Nat) (x : Instance) (h : a' ≠ a) :
    (b.setInst a i x).devs a' = b.devs a' := by
  simp [setInst, h]

theorem set_getElem?_self {α} (l : List α) (i : Nat) (x y : α) (h : l[i]? = some y) :
    (l.set i x)[i]? = some x := by
  have : i < l.length := by
    rcases Nat.lt_or_ge i l.length with h' | h'
    · exact h'
    · rw [List.getElem?_eq_none h'] at h; cases h
  simp [this]

end Bus

/-- state of instance (a,i) on the bus -/
def Bus.Has (b : Bus) (a i : Nat) (d : Device) (x : Instance) : Prop :=
  b.devs a = some d ∧ d.instances[i]? = some x

theorem qivLoop_run (a i r : Nat) (hr1 : 1 ≤ r) (hr8 : r ≤ 8) :
    ∀ (L : List Nat) (b : Bus) (d : Device) (x : Instance) (value : Nat),
      b.Has a i d x → x.latch = L →
      ((qivLoop a i (8 * L.length + r) value).run Bus.step b).1 =
        .ok (L.foldl (fun acc c => acc * 256 + c) value >>> (8 - r)) := by
  intro L
  induction L with
  | nil =>
    intro b d x value _ _
    rw [qivLoop]
    have : ¬ (8 * ([] : List Nat).length + r > 8) := by simp; omega
    simp only [this, dite_false, run_done, List.foldl_nil]
    have : 8 * ([] : List Nat).length + r > 0 := by omega
    simp only [List.length_nil, Nat.mul_zero, Nat.zero_add]
    rw [if_pos (by omega)]
  | cons h t ih =>
    intro b d x value hb hl
    rw [qivLoop]
    have hgt : 8 * (h :: t).length + r > 8 := by simp; omega
    simp only [hgt, dite_true, run_send]
    obtain ⟨hd, hx⟩ := hb
    have e1 : (Bus.step b (.queryInputValueLatch a i)).1 = .byte h := by
      simp [Bus.step, Bus.exec, hd, hx, hl]
    have e2 : (Bus.step b (.queryInputValueLatch a i)).2 =
        { b.setInst a i { x with latch := t } with clock := b.clock + 1 } := by
      simp [Bus.step, Bus.exec, hd, hx, hl]
    rw [e1, e2]
    have e3 : 8 * (h :: t).length + r - 8 = 8 * t.length + r := by simp; omega
    simp only [e3]
    exact ih _ { d with instances := d.instances.set i { x with latch := t } } { x with latch := t }
      (value * 256 + h) ⟨Bus.setInst_devs_self b a i _ d hd, Bus.set_getElem?_self _ _ _ _ hx⟩ rfl


theorem inputBytes_cons (N v : Nat) (hN : 1 ≤ N) :
    inputBytes N v =
      (repBits N v (8 * ((N + 7) / 8)) >>> (8 * ((N + 7) / 8 - 1))) % 256 ::
        bytesBE (repBits N v (8 * ((N + 7) / 8))) ((N + 7) / 8 - 1) := by
  unfold inputBytes
  have : (N + 7) / 8 = ((N + 7) / 8 - 1) + 1 := by omega
  simp only
  rw [this, bytesBE]
  simp

/-- the latch-and-read loop against the specification bus returns the value -/
theorem queryInputValue_some (b : Bus) (a i : Nat) (d : Device) (x : Instance)
    (hb : b.Has a i d x) (ha : addrOK a i = true) (N : Nat) (hN : 1 ≤ N)
    (hres : x.resolution = N) (hlt : x.value b.clock < 2 ^ N) :
    ((queryInputValue a i (some N)).run Bus.step b).1 = .ok (x.value b.clock) := by
  obtain ⟨hd, hx⟩ := hb
  unfold queryInputValue
  simp only [ha, Bool.not_true, Bool.false_eq_true, if_false, run_send]
  have hc := inputBytes_cons N (x.value b.clock) hN
  generalize hv : x.value b.clock = v at *
  generalize hP : repBits N v (8 * ((N + 7) / 8)) = P at hc
  have e1 : (Bus.step b (.queryInputValue a i)).1 = .byte ((P >>> (8 * ((N + 7) / 8 - 1))) % 256) := by
    simp [Bus.step, Bus.exec, hd, hx, hres, hv, hc]
  have e2 : (Bus.step b (.queryInputValue a i)).2 =
      { b.setInst a i { x with latch := bytesBE P ((N + 7) / 8 - 1) } with clock := b.clock + 1 } := by
    simp [Bus.step, Bus.exec, hd, hx, hres, hv, hc]
  rw [e1, e2]
  simp only
  have hr : N = 8 * (bytesBE P ((N + 7) / 8 - 1)).length + (N - 8 * ((N + 7) / 8 - 1)) := by
    rw [bytesBE_length]; omega
  have := qivLoop_run a i (N - 8 * ((N + 7) / 8 - 1)) (by omega) (by omega)
    (bytesBE P ((N + 7) / 8 - 1))
    { b.setInst a i { x with latch := bytesBE P ((N + 7) / 8 - 1) } with clock := b.clock + 1 }
    { d with instances := d.instances.set i { x with latch := bytesBE P ((N + 7) / 8 - 1) } }
    { x with latch := bytesBE P ((N + 7) / 8 - 1) }
    ((P >>> (8 * ((N + 7) / 8 - 1))) % 256)
    ⟨Bus.setInst_devs_self b a i _ d hd, Bus.set_getElem?_self _ _ _ _ hx⟩ rfl
  rw [← hr] at this
  rw [this]
  congr 1
  -- arithmetic: the assembled bytes are P, and P >>> pad = v
  have hf := foldl_bytesBE P ((N + 7) / 8 - 1) ((P >>> (8 * ((N + 7) / 8 - 1))) % 256)
  rw [hf]
  have hPlt : P < 2 ^ (8 * ((N + 7) / 8)) := by rw [← hP]; exact repBits_lt N v hlt _
  have hsplit := repBits_split N v (8 * ((N + 7) / 8) - N) (by omega) hlt
  have e8 : N + (8 * ((N + 7) / 8) - N) = 8 * ((N + 7) / 8) := by omega
  rw [e8, hP] at hsplit
  have e9 : 8 - (N - 8 * ((N + 7) / 8 - 1)) = 8 * ((N + 7) / 8) - N := by omega
  rw [e9]
  have : (P >>> (8 * ((N + 7) / 8 - 1))) % 256 * 256 ^ ((N + 7) / 8 - 1)
      + P % 256 ^ ((N + 7) / 8 - 1) = P := by
    rw [Nat.shiftRight_eq_div_pow, Nat.pow_mul]
    have h256 : (2:Nat) ^ 8 = 256 := by decide
    rw [h256]
    have hlt2 : P < 256 ^ (((N + 7) / 8 - 1) + 1) := by
      have : ((N + 7) / 8 - 1) + 1 = (N + 7) / 8 := by omega
      rw [this, ← h256, ← Nat.pow_mul]; exact hPlt
    have := Nat.mod_pow_succ (x := P) (b := 256) (k := (N + 7) / 8 - 1)
    rw [Nat.mod_eq_of_lt hlt2] at this
    rw [Nat.mul_comm]; omega
  rw [this, hsplit]




theorem Bus.inst?_of_has {b : Bus} {a i d x} (h : b.Has a i d x) : b.inst? a i = some x := by
  simp [Bus.inst?, h.1, h.2]

theorem setEventFilters_run (b : Bus) (a i : Nat) (d : Device) (x : Instance)
    (hb : b.Has a i d x) (ha : addrOK a i = true) (w : Nat) (hw : w = 8 ∨ w = 16 ∨ w = 24)
    (hfw : x.filterWidth = w) (value : Nat) (hv : value < 2 ^ w) :
    ((setEventFilters a i (some w) value).run Bus.step b).1 = .ok (some value) ∧
    ((setEventFilters a i (some w) value).run Bus.step b).2.inst? a i =
      some { x with filter := value } := by
  obtain ⟨hd, hx⟩ := hb
  have hi : i < d.instances.length := by
    rcases Nat.lt_or_ge i d.instances.length with h' | h'
    · exact h'
    · rw [List.getElem?_eq_none h'] at hx; cases hx
  have hxe : d.instances[i] = x := by
    rw [List.getElem?_eq_getElem hi] at hx; exact Option.some.inj hx
  rcases hw with rfl | rfl | rfl
  · have hv' : value < 256 := hv
    have hc : ¬ ((value : Int) < 0 ∨ (16777216 : Int) ≤ (value : Int)) := by omega
    constructor
    · simp [hc, setEventFilters, setEventFiltersG, readFilter, ha, Bus.step, Bus.exec, Bus.mapDevs, Bus.setInst, Bus.instQuery, hd, hx, hi, hxe, hfw]
      omega
    · simp [hc, setEventFilters, setEventFiltersG, readFilter, ha, Bus.step, Bus.exec, Bus.mapDevs, Bus.setInst, Bus.instQuery, Bus.inst?, hd, hx, hi, hxe, hfw]
      omega
  · have hv' : value < 65536 := hv
    have hc : ¬ ((value : Int) < 0 ∨ (16777216 : Int) ≤ (value : Int)) := by omega
    constructor
    · simp [hc, setEventFilters, setEventFiltersG, readFilter, ha, Bus.step, Bus.exec, Bus.mapDevs, Bus.setInst, Bus.instQuery, hd, hx, hi, hxe, hfw]
      omega
    · simp [hc, setEventFilters, setEventFiltersG, readFilter, ha, Bus.step, Bus.exec, Bus.mapDevs, Bus.setInst, Bus.instQuery, Bus.inst?, hd, hx, hi, hxe, hfw]
      omega
  · have hv' : value < 16777216 := hv
    have hc : ¬ ((value : Int) < 0 ∨ (16777216 : Int) ≤ (value : Int)) := by omega
    constructor
    · simp [hc, setEventFilters, setEventFiltersG, readFilter, ha, Bus.step, Bus.exec, Bus.mapDevs, Bus.setInst, Bus.instQuery, hd, hx, hi, hxe, hfw]
      omega
    · simp [hc, setEventFilters, setEventFiltersG, readFilter, ha, Bus.step, Bus.exec, Bus.mapDevs, Bus.setInst, Bus.instQuery, Bus.inst?, hd, hx, hi, hxe, hfw]
      omega


theorem Bus.has_getElem {b : Bus} {a i d x} (h : b.Has a i d x) :
    ∃ hi : i < d.instances.length, d.instances[i] = x := by
  obtain ⟨_, hx⟩ := h
  have hi : i < d.instances.length := by
    rcases Nat.lt_or_ge i d.instances.length with h' | h'
    · exact h'
    · rw [List.getElem?_eq_none h'] at hx; cases hx
  refine ⟨hi, ?_⟩
  rw [List.getElem?_eq_getElem hi] at hx; exact Option.some.inj hx

theorem queryEventFilters_run (b : Bus) (a i : Nat) (d : Device) (x : Instance)
    (hb : b.Has a i d x) (ha : addrOK a i = true) (w : Nat) (hw : w = 8 ∨ w = 16 ∨ w = 24)
    (hv : x.filter < 2 ^ w) :
    ((queryEventFilters a i w).run Bus.step b).1 = .ok (some x.filter) ∧
    ((queryEventFilters a i w).run Bus.step b).2.devs = b.devs := by
  obtain ⟨hi, hxe⟩ := Bus.has_getElem hb
  obtain ⟨hd, hx⟩ := hb
  rcases hw with rfl | rfl | rfl
  · have hv' : x.filter < 256 := hv
    constructor
    · simp [queryEventFilters, readFilter, ha, Bus.step, Bus.exec, Bus.instQuery, hd, hi, hxe]
      omega
    · simp [queryEventFilters, readFilter, ha, Bus.step, Bus.exec, Bus.instQuery, hd, hi, hxe]
  · have hv' : x.filter < 65536 := hv
    constructor
    · simp [queryEventFilters, readFilter, ha, Bus.step, Bus.exec, Bus.instQuery, hd, hi, hxe]
      omega
    · simp [queryEventFilters, readFilter, ha, Bus.step, Bus.exec, Bus.instQuery, hd, hi, hxe]
  · have hv' : x.filter < 16777216 := hv
    constructor
    · simp [queryEventFilters, readFilter, ha, Bus.step, Bus.exec, Bus.instQuery, hd, hi, hxe]
      omega
    · simp [queryEventFilters, readFilter, ha, Bus.step, Bus.exec, Bus.instQuery, hd, hi, hxe]

theorem setEventSchemes_run (b : Bus) (a i : Nat) (d : Device) (x : Instance)
    (hb : b.Has a i d x) (ha : addrOK a i = true) (s : Nat) (hs : s ≤ 4) :
    ((setEventSchemes a i s).run Bus.step b).1 = .ok (.byte s) ∧
    ((setEventSchemes a i s).run Bus.step b).2.inst? a i = some { x with scheme := s } := by
  obtain ⟨hi, hxe⟩ := Bus.has_getElem hb
  obtain ⟨hd, hx⟩ := hb
  have hc : ¬ ((s : Int) < 0 ∨ (s : Int) > 4) := by omega
  constructor
  · simp [hc, setEventSchemes, ha, Bus.step, Bus.exec, Bus.mapDevs, Bus.setInst, Bus.instQuery, hd, hi, hxe, hs]
  · simp [hc, setEventSchemes, ha, Bus.step, Bus.exec, Bus.mapDevs, Bus.setInst, Bus.instQuery, Bus.inst?, hd, hi, hxe, hs]

theorem setEventSchemes_invalid (b : Bus) (a i : Nat) (s : Int) (hs : s < 0 ∨ s > 4) :
    (setEventSchemes a i s).run (traced Bus.step) (b, []) = (.error .ValueError, (b, [])) := by
  unfold setEventSchemes
  split
  · rfl
  · simp [hs]

theorem queryInputValue_none (b : Bus) (a i : Nat) (d : Device) (x : Instance)
    (hb : b.Has a i d x) (ha : addrOK a i = true) (hN : 1 ≤ x.resolution)
    (hlt : x.value (b.clock + 1) < 2 ^ x.resolution) :
    ((queryInputValue a i none).run Bus.step b).1 = .ok (x.value (b.clock + 1)) := by
  have hs := queryInputValue_some { b with clock := b.clock + 1 } a i d x hb ha x.resolution hN rfl hlt
  obtain ⟨hi, hxe⟩ := Bus.has_getElem hb
  obtain ⟨hd, hx⟩ := hb
  rw [← hs]
  simp [queryInputValue, ha, Bus.step, Bus.exec, Bus.instQuery, hd, hi, hxe]



/-! ### discovery -/

theorem scanInstances_run (D : Nat → Option Device) (a : Nat) (d : Device) (hd : D a = some d)
    (k : TypeLog → Prog TypeLog) :
    ∀ (xs : List Instance) (i : Nat) (log : TypeLog) (c : Nat) (q : Bool),
      d.instances.drop i = xs → i + xs.length ≤ 32 →
      ∃ c', (scanInstances a xs.length i log k).run Bus.step ⟨c, D, q⟩ =
        (k (log ++ instEntries a xs i)).run Bus.step ⟨c', D, q⟩ := by
  intro xs
  induction xs with
  | nil => intro i log c q _ _; exact ⟨c, by simp [scanInstances, instEntries]⟩
  | cons x xs ih =>
    intro i log c q hdrop hlen
    have hx : d.instances[i]? = some x := by
      have := List.head?_drop (l := d.instances) (i := i)
      rw [hdrop] at this; simpa using this.symm
    have hdrop' : d.instances.drop (i + 1) = xs := by
      have := List.tail_drop (l := d.instances) (i := i)
      rw [hdrop] at this; simpa using this.symm
    have hlen' : i + 1 + xs.length ≤ 32 := by simp at hlen; omega
    have hi : ¬ i > 31 := by simp at hlen; omega
    simp only [List.length_cons, scanInstances, hi, if_false, run_send]
    cases hen : x.enabled
    · obtain ⟨c', h⟩ := ih (i + 1) log (c + 1) q hdrop' hlen'
      refine ⟨c', ?_⟩
      simp [Bus.step, Bus.exec, Bus.instQuery, hd, hx, hen, instEntries]
      exact h
    · obtain ⟨c', h⟩ := ih (i + 1) (log ++ [((a, i), x.itype)]) (c + 1 + 1) q hdrop' hlen'
      refine ⟨c', ?_⟩
      simp [Bus.step, Bus.exec, Bus.instQuery, hd, hx, hen, instEntries]
      simpa using h

theorem scanDevices_run (D : Nat → Option Device)
    (hD : ∀ a d, D a = some d → d.instances.length ≤ 32) :
    ∀ (addrs : List Nat) (log : TypeLog) (c : Nat) (q : Bool), (∀ a ∈ addrs, a ≤ 63) →
      ∃ c', (scanDevices addrs log).run Bus.step ⟨c, D, q⟩ =
        (.ok (log ++ expectedLog D addrs), ⟨c', D, false⟩) := by
  intro addrs
  induction addrs with
  | nil => intro log c q _; exact ⟨c + 1, by simp [scanDevices, expectedLog, Bus.step, Bus.exec]⟩
  | cons a rest ih =>
    intro log c q haddr
    have ha : ¬ a > 63 := by have := haddr a (by simp); omega
    have hrest : ∀ a ∈ rest, a ≤ 63 := fun x hx => haddr x (by simp [hx])
    have hexp : expectedLog D (a :: rest) = devEntries D a ++ expectedLog D rest := by
      simp [expectedLog]
    simp only [scanDevices, ha, if_false, run_send]
    cases hda : D a with
    | none =>
      obtain ⟨c', h⟩ := ih log (c + 1) q hrest
      refine ⟨c', ?_⟩
      simp [Bus.step, Bus.exec, hda, hexp, devEntries]
      rw [h]
    | some d =>
      by_cases hu : unhealthy d.status = true
      · obtain ⟨c', h⟩ := ih log (c + 1) q hrest
        refine ⟨c', ?_⟩
        have hu' : d.status / 4 % 2 = 1 ∨ d.status / 64 % 2 = 1 := by simpa [unhealthy] using hu
        simp [Bus.step, Bus.exec, hda, hexp, devEntries, hu, hu']
        rw [h]
      · have hu' : ¬ (d.status / 4 % 2 = 1 ∨ d.status / 64 % 2 = 1) := by simpa [unhealthy] using hu
        obtain ⟨c1, h1⟩ := scanInstances_run D a d hda (scanDevices rest) d.instances 0 log
          (c + 1 + 1) q (by simp) (by have := hD a d hda; omega)
        obtain ⟨c', h⟩ := ih (log ++ instEntries a d.instances 0) c1 q hrest
        refine ⟨c', ?_⟩
        simp [Bus.step, Bus.exec, hda, hexp, devEntries, hu, hu']
        rw [h1, h]
        simp [List.append_assoc]

theorem autodiscover_run (b : Bus) (hD : ∀ a d, b.devs a = some d → d.instances.length ≤ 32)
    (addrs : List Nat) (haddr : ∀ a ∈ addrs, a ≤ 63) :
    ∃ c', (autodiscover addrs).run Bus.step b = (.ok (expectedLog b.devs addrs), ⟨c', b.devs, false⟩) := by
  obtain ⟨c', h⟩ := scanDevices_run b.devs hD addrs [] (b.clock + 1) true haddr
  refine ⟨c', ?_⟩
  simp only [autodiscover, run_send]
  have : (Bus.step b .startQuiescentMode).2 = ⟨b.clock + 1, b.devs, true⟩ := by
    simp [Bus.step, Bus.exec]
  rw [this, h]
  simp


theorem mem_instEntries (a : Nat) (e : (Nat × Nat) × Nat) :
    ∀ (xs : List Instance) (i : Nat),
      e ∈ instEntries a xs i ↔ ∃ j x, xs[j]? = some x ∧ x.enabled = true ∧ e = ((a, i + j), x.itype) := by
  intro xs
  induction xs with
  | nil => intro i; simp [instEntries]
  | cons y ys ih =>
    intro i
    simp only [instEntries, List.mem_append, ih]
    constructor
    · rintro (h | ⟨j, x, hx, hen, he⟩)
      · by_cases hy : y.enabled = true
        · simp [hy] at h; exact ⟨0, y, by simp, hy, by simp [h]⟩
        · simp [hy] at h
      · exact ⟨j + 1, x, by simpa using hx, hen, by rw [he]; congr 2; omega⟩
    · rintro ⟨j, x, hx, hen, he⟩
      cases j with
      | zero =>
        simp at hx; subst hx
        left; simp [hen, he]
      | succ j =>
        right
        exact ⟨j, x, by simpa using hx, hen, by rw [he]; congr 2; omega⟩

theorem lookupLog_some (log : TypeLog) (init : Nat × Nat → Option Nat) (key : Nat × Nat) (t : Nat)
    (hex : ∃ e ∈ log, e.1 = key) (hfun : ∀ e ∈ log, e.1 = key → e.2 = t) :
    lookupLog log init key = some t := by
  unfold lookupLog
  cases hf : log.reverse.find? (fun e => e.1 == key) with
  | none =>
    obtain ⟨e, he, hk⟩ := hex
    have := List.find?_eq_none.mp hf e (by simpa using he)
    simp [hk] at this
  | some e =>
    have hm := List.mem_of_find?_eq_some hf
    have hp := List.find?_some hf
    simp at hp hm
    simp [hfun e hm hp]

theorem lookupLog_none (log : TypeLog) (init : Nat × Nat → Option Nat) (key : Nat × Nat)
    (hno : ∀ e ∈ log, e.1 ≠ key) : lookupLog log init key = init key := by
  unfold lookupLog
  cases hf : log.reverse.find? (fun e => e.1 == key) with
  | none => rfl
  | some e =>
    have hm := List.mem_of_find?_eq_some hf
    have hp := List.find?_some hf
    simp at hp hm
    exact absurd hp (hno e hm)

theorem mem_expectedLog (D : Nat → Option Device) (addrs : List Nat) (a i t : Nat) :
    ((a, i), t) ∈ expectedLog D addrs ↔ expectedType D addrs a i = some t := by
  simp only [expectedLog, List.mem_flatMap, expectedType]
  constructor
  · rintro ⟨a', ha', he⟩
    unfold devEntries at he
    cases hd : D a' with
    | none => simp [hd] at he
    | some d =>
      simp only [hd] at he
      by_cases hu : unhealthy d.status = true
      · simp [hu] at he
      · simp only [hu, Bool.false_eq_true, if_false] at he
        rw [mem_instEntries] at he
        obtain ⟨j, x, hx, hen, he⟩ := he
        simp at he
        obtain ⟨⟨rfl, rfl⟩, rfl⟩ := he
        simp [hd, ha', hu, hx, hen]
  · intro h
    cases hd : D a with
    | none => simp [hd] at h
    | some d =>
      simp only [hd] at h
      split at h
      · rename_i hc
        cases hx : d.instances[i]? with
        | none => simp [hx] at h
        | some x =>
          simp only [hx] at h
          by_cases hen : x.enabled = true
          · simp [hen] at h
            refine ⟨a, hc.1, ?_⟩
            simp only [devEntries, hd, hc.2, Bool.false_eq_true, if_false]
            rw [mem_instEntries]
            exact ⟨i, x, hx, hen, by simp [h]⟩
          · simp [hen] at h
      · cases h

/-- `mapping'` = the old mapping overridden at exactly the expected keys -/
theorem lookup_expectedLog (D : Nat → Option Device) (addrs : List Nat)
    (init : Nat × Nat → Option Nat) (a i : Nat) :
    lookupLog (expectedLog D addrs) init (a, i) =
      match expectedType D addrs a i with
      | some t => some t
      | none => init (a, i) := by
  cases h : expectedType D addrs a i with
  | some t =>
    apply lookupLog_some
    · exact ⟨((a, i), t), (mem_expectedLog D addrs a i t).mpr h, rfl⟩
    · rintro ⟨⟨a', i'⟩, t'⟩ he hk
      simp at hk
      obtain ⟨rfl, rfl⟩ := hk
      have := (mem_expectedLog D addrs a' i' t').mp he
      rw [h] at this
      exact (Option.some.inj this).symm
  | none =>
    apply lookupLog_none
    rintro ⟨⟨a', i'⟩, t'⟩ he hk
    simp at hk
    obtain ⟨rfl, rfl⟩ := hk
    have := (mem_expectedLog D addrs a' i' t').mp he
    rw [h] at this
    cases this



/-- every answer in the exchange was a clean backward frame -/
def AllBytes (tr : List (Cmd × Resp)) : Prop := ∀ cr ∈ tr, ∃ b, cr.2 = .byte b

theorem allBytes_nil : AllBytes [] := by intro cr h; cases h

theorem allBytes_cons (c : Cmd) (r : Resp) (tr : List (Cmd × Resp)) :
    AllBytes ((c, r) :: tr) ↔ (∃ b, r = .byte b) ∧ AllBytes tr := by
  simp [AllBytes]

theorem qivLoop_faults (a i : Nat) : ∀ (res value : Nat) (tr : List (Cmd × Resp)) (out : PyRes Nat),
    Out (qivLoop a i res value) tr out →
      (out = .error .DALISequenceError ∧ ¬ AllBytes tr) ∨ (∃ v, out = .ok v ∧ AllBytes tr) := by
  intro res
  induction res using Nat.strongRecOn with
  | _ res ih =>
    intro value tr out h
    rw [qivLoop] at h
    split at h
    · rename_i hgt
      simp only [out_send] at h
      obtain ⟨r, tr', rfl, h⟩ := h
      cases r with
      | byte c =>
        rcases ih (res - 8) (by omega) _ _ _ h with ⟨h1, h2⟩ | ⟨v, h1, h2⟩
        · left; exact ⟨h1, fun hab => h2 ((allBytes_cons _ _ _).mp hab).2⟩
        · right; exact ⟨v, h1, (allBytes_cons _ _ _).mpr ⟨⟨c, rfl⟩, h2⟩⟩
      | none =>
        simp at h; left
        exact ⟨h.2, fun hab => by have := ((allBytes_cons _ _ _).mp hab).1; simp at this⟩
      | err =>
        simp at h; left
        exact ⟨h.2, fun hab => by have := ((allBytes_cons _ _ _).mp hab).1; simp at this⟩
    · simp at h; right; exact ⟨_, h.2, h.1 ▸ allBytes_nil⟩

theorem queryInputValue_faults (a i : Nat) (r? : Option Nat) (tr : List (Cmd × Resp)) (out : PyRes Nat)
    (h : Out (queryInputValue a i r?) tr out) :
    (out = .error .ValueError ∧ tr = []) ∨ (out = .error .DALISequenceError ∧ ¬ AllBytes tr) ∨
      (∃ v, out = .ok v ∧ AllBytes tr) := by
  unfold queryInputValue at h
  split at h
  · simp at h; left; exact ⟨h.2, h.1⟩
  · right
    have rest : ∀ res tr out, Out (.send (.queryInputValue a i) fun r =>
        match r with
        | .byte v => qivLoop a i res v
        | _ => .fail .DALISequenceError) tr out →
        (out = .error .DALISequenceError ∧ ¬ AllBytes tr) ∨ (∃ v, out = .ok v ∧ AllBytes tr) := by
      intro res tr out h
      simp only [out_send] at h
      obtain ⟨r, tr', rfl, h⟩ := h
      cases r with
      | byte c =>
        rcases qivLoop_faults a i _ _ _ _ h with ⟨h1, h2⟩ | ⟨v, h1, h2⟩
        · left; exact ⟨h1, fun hab => h2 ((allBytes_cons _ _ _).mp hab).2⟩
        · right; exact ⟨v, h1, (allBytes_cons _ _ _).mpr ⟨⟨c, rfl⟩, h2⟩⟩
      | none =>
        simp at h; left
        exact ⟨h.2, fun hab => by have := ((allBytes_cons _ _ _).mp hab).1; simp at this⟩
      | err =>
        simp at h; left
        exact ⟨h.2, fun hab => by have := ((allBytes_cons _ _ _).mp hab).1; simp at this⟩
    cases r? with
    | some res => exact rest res tr out h
    | none =>
      simp only [out_send] at h
      obtain ⟨r, tr', rfl, h⟩ := h
      cases r with
      | byte c =>
        rcases rest c _ _ h with ⟨h1, h2⟩ | ⟨v, h1, h2⟩
        · left; exact ⟨h1, fun hab => h2 ((allBytes_cons _ _ _).mp hab).2⟩
        · right; exact ⟨v, h1, (allBytes_cons _ _ _).mpr ⟨⟨c, rfl⟩, h2⟩⟩
      | none =>
        simp at h; left
        exact ⟨h.2, fun hab => by have := ((allBytes_cons _ _ _).mp hab).1; simp at this⟩
      | err =>
        simp at h; left
        exact ⟨h.2, fun hab => by have := ((allBytes_cons _ _ _).mp hab).1; simp at this⟩

/-- read-back of a filter against any responder: a value only if every part
that is read was answered cleanly, and then it is assembled from exactly those
answers; otherwise `None` -/
theorem readFilter_faults (a i : Nat) (m h : Bool) (md0 hi0 : Nat) (tr : List (Cmd × Resp))
    (out : PyRes (Option Nat)) (ho : Out (readFilter a i m h md0 hi0) tr out) :
    (out = .ok none ∧ ¬ AllBytes tr) ∨
    (∃ lo md hi, out = .ok (some (lo + 256 * md + 65536 * hi)) ∧ AllBytes tr ∧
      (.queryEventFilterL a i, .byte lo) ∈ tr ∧
      (if m then (.queryEventFilterM a i, .byte md) ∈ tr else md = md0) ∧
      (if h then (.queryEventFilterH a i, .byte hi) ∈ tr else hi = hi0)) := by
  unfold readFilter at ho
  simp only [out_send] at ho
  obtain ⟨r, tr', rfl, ho⟩ := ho
  cases r with
  | none => simp at ho; left; exact ⟨ho.2, fun hab => by have := ((allBytes_cons _ _ _).mp hab).1; simp at this⟩
  | err => simp at ho; left; exact ⟨ho.2, fun hab => by have := ((allBytes_cons _ _ _).mp hab).1; simp at this⟩
  | byte lo =>
    simp only at ho
    cases m <;> cases h <;> simp only [if_true, if_false, Bool.false_eq_true, out_send, out_done] at ho
    · obtain ⟨rfl, rfl⟩ := ho
      right; exact ⟨lo, md0, hi0, rfl, by simp [AllBytes], by simp, by simp, by simp⟩
    · obtain ⟨r, tr2, rfl, ho⟩ := ho
      cases r <;> simp at ho
      · left; exact ⟨ho.2, by simp [AllBytes]⟩
      · obtain ⟨rfl, rfl⟩ := ho
        rename_i hi
        right; exact ⟨lo, md0, hi, rfl, by simp [AllBytes], by simp, by simp, by simp⟩
      · left; exact ⟨ho.2, by simp [AllBytes]⟩
    · obtain ⟨r, tr2, rfl, ho⟩ := ho
      cases r <;> simp at ho
      · left; exact ⟨ho.2, by simp [AllBytes]⟩
      · obtain ⟨rfl, rfl⟩ := ho
        rename_i md
        right; exact ⟨lo, md, hi0, rfl, by simp [AllBytes], by simp, by simp, by simp⟩
      · left; exact ⟨ho.2, by simp [AllBytes]⟩
    · obtain ⟨r, tr2, rfl, ho⟩ := ho
      cases r <;> simp at ho
      · left; exact ⟨ho.2, by simp [AllBytes]⟩
      · rename_i md
        obtain ⟨r, tr3, rfl, ho⟩ := ho
        cases r <;> simp at ho
        · left; exact ⟨ho.2, by simp [AllBytes]⟩
        · obtain ⟨rfl, rfl⟩ := ho
          rename_i hi
          right; exact ⟨lo, md, hi, rfl, by simp [AllBytes], by simp, by simp, by simp⟩
        · left; exact ⟨ho.2, by simp [AllBytes]⟩
      · left; exact ⟨ho.2, by simp [AllBytes]⟩



/-- an entry of the log is backed by an answer the bus really gave -/
def Backed (tr : List (Cmd × Resp)) (e : (Nat × Nat) × Nat) : Prop :=
  (Cmd.queryInstanceType e.1.1 e.1.2, Resp.byte e.2) ∈ tr

theorem scanInstances_faults (a : Nat) (k : TypeLog → Prog TypeLog) :
    ∀ (n i : Nat) (log : TypeLog) (tr : List (Cmd × Resp)) (out : PyRes TypeLog),
      Out (scanInstances a n i log k) tr out →
        (out = .error .ValueError) ∨
        (∃ tr1 tr2 log', tr = tr1 ++ tr2 ∧ Out (k log') tr2 out ∧
          ∀ e ∈ log', e ∈ log ∨ Backed tr1 e) := by
  intro n
  induction n with
  | zero =>
    intro i log tr out h
    right; exact ⟨[], tr, log, by simp, by simpa [scanInstances] using h, fun e he => Or.inl he⟩
  | succ n ih =>
    intro i log tr out h
    rw [scanInstances] at h
    split at h
    · simp at h; left; exact h.2
    · simp only [out_send] at h
      obtain ⟨r, tr', rfl, h⟩ := h
      have skip : ∀ tr', Out (scanInstances a n (i + 1) log k) tr' out → ∀ pre : List (Cmd × Resp),
          (out = .error .ValueError) ∨
          (∃ tr1 tr2 log', pre ++ tr' = tr1 ++ tr2 ∧ Out (k log') tr2 out ∧
            ∀ e ∈ log', e ∈ log ∨ Backed tr1 e) := by
        intro tr' h pre
        rcases ih _ _ _ _ h with h | ⟨tr1, tr2, log', rfl, h2, h3⟩
        · left; exact h
        · right
          refine ⟨pre ++ tr1, tr2, log', by simp, h2, ?_⟩
          intro e he
          rcases h3 e he with h | h
          · left; exact h
          · right; simp [Backed] at h ⊢; right; exact h
      cases r with
      | none => exact skip tr' h [_]
      | err => exact skip tr' h [_]
      | byte en =>
        simp only [out_send] at h
        obtain ⟨r, tr'', rfl, h⟩ := h
        cases r with
        | none => exact skip tr'' h [_, _]
        | err => exact skip tr'' h [_, _]
        | byte t =>
          simp only at h
          rcases ih _ _ _ _ h with h | ⟨tr1, tr2, log', rfl, h2, h3⟩
          · left; exact h
          · right
            refine ⟨(.queryInstanceEnabled a i, .byte en) :: (.queryInstanceType a i, .byte t) :: tr1, tr2, log', by simp, h2, ?_⟩
            intro e he
            rcases h3 e he with h | h
            · simp at h
              rcases h with h | h
              · left; exact h
              · right; subst h; simp [Backed]
            · right; simp [Backed] at h ⊢; right; exact h

theorem scanDevices_faults :
    ∀ (addrs : List Nat) (log : TypeLog) (tr : List (Cmd × Resp)) (out : PyRes TypeLog),
      Out (scanDevices addrs log) tr out →
        (out = .error .ValueError) ∨
        (∃ log' tr0 r, out = .ok log' ∧ tr = tr0 ++ [(.stopQuiescentMode, r)] ∧
          ∀ e ∈ log', e ∈ log ∨ Backed tr e) := by
  intro addrs
  induction addrs with
  | nil =>
    intro log tr out h
    simp [scanDevices] at h
    obtain ⟨r, w, rfl, rfl, rfl⟩ := h
    right; exact ⟨log, [], r, rfl, by simp, fun e he => Or.inl he⟩
  | cons a rest ih =>
    intro log tr out h
    rw [scanDevices] at h
    split at h
    · simp at h; left; exact h.2
    · simp only [out_send] at h
      obtain ⟨r, tr', rfl, h⟩ := h
      have skip : ∀ tr' log1, Out (scanDevices rest log1) tr' out → ∀ pre : List (Cmd × Resp),
          (∀ e ∈ log1, e ∈ log ∨ Backed pre e) →
          (out = .error .ValueError) ∨
          (∃ log' tr0 r, out = .ok log' ∧ pre ++ tr' = tr0 ++ [(.stopQuiescentMode, r)] ∧
            ∀ e ∈ log', e ∈ log ∨ Backed (pre ++ tr') e) := by
        intro tr' log1 h pre hpre
        rcases ih _ _ _ h with h | ⟨log', tr0, r, h1, rfl, h3⟩
        · left; exact h
        · right
          refine ⟨log', pre ++ tr0, r, h1, by simp, ?_⟩
          intro e he
          rcases h3 e he with h | h
          · rcases hpre e h with h | h
            · left; exact h
            · right; simp [Backed] at h ⊢; left; exact h
          · right; simp [Backed] at h ⊢; right; exact h
      cases r with
      | none => exact skip tr' log h [_] (fun e he => Or.inl he)
      | err => exact skip tr' log h [_] (fun e he => Or.inl he)
      | byte st =>
        simp only at h
        split at h
        · exact skip tr' log h [_] (fun e he => Or.inl he)
        · simp only [out_send] at h
          obtain ⟨r, tr'', rfl, h⟩ := h
          cases r with
          | none => exact skip tr'' log h [_, _] (fun e he => Or.inl he)
          | err => exact skip tr'' log h [_, _] (fun e he => Or.inl he)
          | byte n =>
            simp only at h
            rcases scanInstances_faults a _ _ _ _ _ _ h with h | ⟨tr1, tr2, log1, rfl, h2, h3⟩
            · left; exact h
            · have := skip tr2 log1 h2 ((.queryDeviceStatus a, .byte st) :: (.queryNumberOfInstances a, .byte n) :: tr1) (by
                intro e he
                rcases h3 e he with h | h
                · left; exact h
                · right; simp [Backed] at h ⊢; exact h)
              simpa using this

/-- `autodiscover` against any responder -/
theorem autodiscover_faults (addrs : List Nat) (tr : List (Cmd × Resp)) (out : PyRes TypeLog)
    (h : Out (autodiscover addrs) tr out) :
    (∃ r tr', tr = (.startQuiescentMode, r) :: tr') ∧
    ((out = .error .ValueError) ∨
      (∃ log tr0 r, out = .ok log ∧ tr = tr0 ++ [(.stopQuiescentMode, r)] ∧ ∀ e ∈ log, Backed tr e)) := by
  simp only [autodiscover, out_send] at h
  obtain ⟨r, tr', rfl, h⟩ := h
  refine ⟨⟨r, tr', rfl⟩, ?_⟩
  rcases scanDevices_faults _ _ _ _ h with h | ⟨log', tr0, r', h1, rfl, h3⟩
  · left; exact h
  · right
    refine ⟨log', (.startQuiescentMode, r) :: tr0, r', h1, by simp, ?_⟩
    intro e he
    rcases h3 e he with h | h
    · cases h
    · simp [Backed] at h ⊢; exact h


end DaliVerif.DevMem
