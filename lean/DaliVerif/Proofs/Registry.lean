import DaliVerif.Spec.Transactions
/-!
# C20 — the subscriber registries: helper lemmas

`Reg` (model of `hid._callback` and `serial.DistributorQueue`) against
`expectedFor`, the per-subscriber reading of a run.
-/
namespace DaliVerif.Proofs.Registry
open DaliVerif.BusWatch DaliVerif.Spec.Transactions

theorem run_nil {α} (r : Reg α) : r.run [] = r := rfl

theorem run_cons {α} (r : Reg α) (e : RegEv α) (evs : List (RegEv α)) :
    r.run (e :: evs) = (r.step e).run evs := rfl

/-- one emission reaches a subscriber exactly once when it is registered (the
list of subscribers has no duplicates) and not at all otherwise -/
theorem deliver_one {α} (l : List Nat) (hl : l.Nodup) (x : α) (i : Nat) :
    (((l.map (fun k => (k, x))).filter (fun p => p.1 == i)).map (·.2)) =
      if i ∈ l then [x] else [] := by
  induction l with
  | nil => simp
  | cons k l ih =>
    have hk : k ∉ l := (List.nodup_cons.mp hl).1
    have ih := ih (List.nodup_cons.mp hl).2
    by_cases e : k = i
    · subst e
      simp [hk] at ih ⊢
      simpa [hk] using ih
    · have e' : ¬ i = k := fun h => e h.symm
      simp [e, e', ih]

theorem received_append {α} (d1 d2 : List (Nat × α)) (s1 s2 : List Nat) (i : Nat) :
    (Reg.mk s1 (d1 ++ d2)).received i = (Reg.mk s2 d1).received i ++
      ((d2.filter (fun p => p.1 == i)).map (·.2)) := by
  simp [Reg.received]

/-- the general form of `fanout`: from any registry without duplicate subscribers -/
theorem fanout_from {α} (evs : List (RegEv α)) (r : Reg α) (hr : r.subs.Nodup) (i : Nat) :
    (r.run evs).received i = r.received i ++ expectedFor i (decide (i ∈ r.subs)) evs := by
  induction evs generalizing r with
  | nil => simp [run_nil, expectedFor]
  | cons e evs ih =>
    rw [run_cons]
    cases e with
    | sub j =>
      by_cases hj : j ∈ r.subs
      · have : r.step (.sub j) = r := by simp [Reg.step, hj]
        rw [this, ih r hr]
        congr 1
        simp only [expectedFor]
        congr 1
        by_cases e : j = i
        · subst e; simp [hj]
        · simp [e]
      · have hs : r.step (.sub j) = { r with subs := r.subs ++ [j] } := by simp [Reg.step, hj]
        rw [hs, ih _ (by
          simp only
          rw [List.nodup_append]
          refine ⟨hr, by simp, ?_⟩
          intro a ha b hb
          simp at hb; subst hb
          intro e; subst e; exact hj ha)]
        simp only [expectedFor, Reg.received]
        congr 2
        by_cases e : j = i
        · subst e; simp
        · have e' : ¬ i = j := fun h => e h.symm
          simp [e, e']
    | unsub j =>
      have hs : r.step (.unsub j) = { r with subs := r.subs.filter (· ≠ j) } := rfl
      rw [hs, ih _ (hr.sublist List.filter_sublist)]
      simp only [expectedFor, Reg.received]
      congr 2
      by_cases e : j = i
      · subst e; simp
      · have e' : ¬ i = j := fun h => e h.symm
        simp [e, e']
    | emit x =>
      have hs : r.step (.emit x) =
          { r with delivered := r.delivered ++ r.subs.map (fun k => (k, x)) } := rfl
      rw [hs, ih ⟨r.subs, r.delivered ++ r.subs.map (fun k => (k, x))⟩ hr]
      simp only [expectedFor]
      rw [received_append _ _ _ r.subs, deliver_one _ hr]
      by_cases hi : i ∈ r.subs
      · simp [hi, Reg.received]
      · simp [hi, Reg.received]

/-- `expectedFor j` does not see another subscriber leaving -/
theorem expectedFor_unsub_other {α} (evs1 evs2 : List (RegEv α)) (i j : Nat) (h : j ≠ i)
    (on : Bool) :
    expectedFor j on (evs1 ++ .unsub i :: evs2) = expectedFor j on (evs1 ++ evs2) := by
  induction evs1 generalizing on with
  | nil =>
    have : (i != j) = true := by simp; exact fun e => h e.symm
    simp [expectedFor, this]
  | cons e evs1 ih =>
    cases e with
    | sub k => simp [expectedFor, ih]
    | unsub k => simp [expectedFor, ih]
    | emit x => cases on <;> simp [expectedFor, ih]

/-- nor another subscriber joining -/
theorem expectedFor_sub_other {α} (evs1 evs2 : List (RegEv α)) (i j : Nat) (h : j ≠ i)
    (on : Bool) :
    expectedFor j on (evs1 ++ .sub i :: evs2) = expectedFor j on (evs1 ++ evs2) := by
  induction evs1 generalizing on with
  | nil =>
    have : (i == j) = false := by simp; exact fun e => h e.symm
    simp [expectedFor, this]
  | cons e evs1 ih =>
    cases e with
    | sub k => simp [expectedFor, ih]
    | unsub k => simp [expectedFor, ih]
    | emit x => cases on <;> simp [expectedFor, ih]

end DaliVerif.Proofs.Registry
