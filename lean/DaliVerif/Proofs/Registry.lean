import DaliVerif.Spec.Transactions
/-!
# C20 — the subscriber registries: helper lemmas

`Reg` (model of `hid._callback` and `serial.DistributorQueue`) against
`expectedFor`, the per-subscriber reading of a run.
-/
namespace DaliVerif.Proofs.Registry
open DaliVerif.BusWatch DaliVerif.Spec.Transactions

theorem run_nil {α} (r : Reg α) : r.run [] = r := rfl

theorem run_cons {α} (r : Reg α) (e : RegEv α) (evs : List (RegEv α)) :
    r.run (e :: evs) = (r.step e).run evs := rfl

/-- one emission reaches a subscriber exactly once when it is registered (the
list of subscribers has no duplicates) and not at all otherwise -/
theorem deliver_one {α} (l : List Nat) (hl : l.Nodup) (x : α) (i : Nat) :
    (((l.map (fun k => (k, x))).filter (fun p => p.1 == i)).map (·.2)) =
      if i ∈ l then [x] else [] := by
  induction l with
  | nil => simp
  | cons k l ih =>
    have hk : k ∉ l := (List.nodup_cons.mp hl).1
    have ih := ih (List.nodup_cons.mp hl).2
    by_cases e : k = i
    · subst e
      simp [hk] at ih ⊢
      simpa [hk] using ih
    · have e' : ¬ i = k := fun h => e h.symm
      simp [e, e', ih]

theorem received_append {α} (d1 d2 : List (Nat × α)) (s1 s2 : List Nat) (i : Nat) :
    (Reg.mk s1 (d1 ++ d2)).received i = (Reg.mk s2 d1).received i ++
      ((d2.filter (fun p => p.1 == i)).map (·.2)) := by
  simp [Reg.received]

/-- the general form of `fanout`: from any registry without duplicate subscribers -/
theorem fanout_from {α} (evs : List (RegEv α)) (r : Reg α) (hr : r.subs.Nodup) (i : Nat) :
    (r.run evs).received i = r.received i ++ expectedFor i (decide (i ∈ r.subs)) evs := by
  induction evs generalizing r with
  | nil => simp [run_nil, expectedFor]
  | cons e evs ih =>
    rw [run_cons]
    cases e with
    | sub j =>
      by_cases hj : j ∈ r.subs
      · have : r.step (.sub j) = r := by simp [Reg.step, hj]
        rw [this, ih r hr]
        congr 1
        simp only [expectedFor]
        congr 1
        by_cases e : j = i
        · subst e; simp [hj]
        · simp [e]
      · have hs : r.step (.sub j) = { r with subs := r.subs ++ [j] } := by simp [Reg.step, hj]
        rw [hs, ih _ (by
          simp only
          rw [List.nodup_append]
          refine ⟨hr, by simp, ?_⟩
          intro a ha b hb
          simp at hb; subst hb
          intro e; subst e; exact hj ha)]
        simp only [expectedFor, Reg.received]
        congr 2
        by_cases e : j = i
        · subst e; simp
        · have e' : ¬ i = j := fun h => e h.symm
          simp [e, e']
    | unsub j =>
      have hs : r.step (.unsub j) = { r with subs := r.subs.filter (· ≠ j) } := rfl
      rw [hs, ih _ (hr.sublist List.filter_sublist)]
      simp only [expectedFor, Reg.received]
      congr 2
      by_cases e : j = i
      · subst e; simp
      · have e' : ¬ i = j := fun h => e h.symm
        simp [e, e']
    | emit x =>
      have hs : r.step (.emit x) =
          { r with delivered := r.delivered ++ r.subs.map (fun k => (k, x)) } := rfl
      rw [hs, ih ⟨r.subs, r.delivered ++ r.subs.map (fun k => (k, x))⟩ hr]
      simp only [expectedFor]
      rw [received_append _ _ _ r.subs, deliver_one _ hr]
      by_cases hi : i ∈ r.subs
      · simp [hi, Reg.received]
      · simp [hi, Reg.received]

/-- `expectedFor j` does not see another subscriber leaving -/
theorem expectedFor_unsub_other {α} (evs1 evs2 : List (RegEv α)) (i j : Nat) (h : j ≠ i)
    (on : Bool) :
    expectedFor j on (evs1 ++ .unsub i :: evs2) = expectedFor j on (evs1 ++ evs2) := by
  induction evs1 generalizing on with
  | nil =>
    have : (i != j) = true := by simp; exact fun e => h e.symm
    simp [expectedFor, this]
  | cons e evs1 ih =>
    cases e with
    | sub k => simp [expectedFor, ih]
    | unsub k => simp [expectedFor, ih]
    | emit x => cases on <;> simp [expectedFor, ih]

/-- nor another subscriber joining -/
theorem expectedFor_sub_other {α} (evs1 evs2 : List (RegEv α)) (i j : Nat) (h : j ≠ i)
    (on : Bool) :
    expectedFor j on (evs1 ++ .sub i :: evs2) = expectedFor j on (evs1 ++ evs2) := by
  induction evs1 generalizing on with
  | nil =>
    have : (i == j) = false := by simp; exact fun e => h e.symm
    simp [expectedFor, this]
  | cons e evs1 ih =>
    cases e with
    | sub k => simp [expectedFor, ih]
    | unsub k => simp [expectedFor, ih]
    | emit x => cases on <;> simp [expectedFor, ih]

/-! ## the keyed handler table (`KReg`) against the abstract registry (`Reg`) -/

/-- the table that holds exactly the subscribers `l`, each under its own key -/
def entries (key : Nat → Nat) (l : List Nat) : HTable := l.map (fun i => (key i, i))

theorem set_present (key : Nat → Nat) (l : List Nat) (i : Nat) (hi : i ∈ l)
    (hf : ∀ j ∈ l, j ≠ i → key j ≠ key i) :
    (entries key l).set (key i) i = entries key l := by
  have hany : (entries key l).any (·.1 == key i) = true := by
    simp only [entries, List.any_map, List.any_eq_true]
    exact ⟨i, hi, by simp⟩
  unfold HTable.set
  rw [if_pos hany]
  simp only [entries, List.map_map]
  apply List.map_congr_left
  intro a ha
  by_cases e : a = i
  · subst e; simp
  · have := hf a ha e
    simp [this]

theorem set_absent (key : Nat → Nat) (l : List Nat) (i : Nat) (hi : i ∉ l)
    (hf : ∀ j ∈ l, j ≠ i → key j ≠ key i) :
    (entries key l).set (key i) i = entries key (l ++ [i]) := by
  have hany : (entries key l).any (·.1 == key i) = false := by
    simp only [entries, List.any_map, List.any_eq_false]
    intro a ha
    have : a ≠ i := fun e => hi (e ▸ ha)
    simpa using hf a ha this
  unfold HTable.set
  rw [hany]
  simp [entries]

theorem pop_entries (key : Nat → Nat) (l : List Nat) (i : Nat)
    (hf : ∀ j ∈ l, j ≠ i → key j ≠ key i) :
    (entries key l).pop (key i) = entries key (l.filter (· ≠ i)) := by
  unfold HTable.pop entries
  rw [List.filter_map]
  congr 1
  apply List.filter_congr
  intro a ha
  by_cases e : a = i
  · subst e; simp
  · simp [e, hf a ha e]

theorem krun_cons {α} (key : Nat → Nat) (k : KReg α) (e : RegEv α) (evs : List (RegEv α)) :
    k.run key (e :: evs) = (k.step key e).run key evs := rfl

/-- keys are injective on the registered subscribers -/
def KeyInjOn (key : Nat → Nat) (l : List Nat) : Prop :=
  ∀ a ∈ l, ∀ b ∈ l, key a = key b → a = b

theorem keys_nodup (key : Nat → Nat) (l : List Nat) (hl : l.Nodup) (hk : KeyInjOn key l) :
    ((entries key l).map (·.1)).Nodup := by
  induction l with
  | nil => simp [entries]
  | cons a l ih =>
    have ha : a ∉ l := (List.nodup_cons.mp hl).1
    have ih := ih (List.nodup_cons.mp hl).2 (fun x hx y hy => hk x (List.mem_cons_of_mem _ hx) y (List.mem_cons_of_mem _ hy))
    simp only [entries, List.map_cons, List.map_map, List.nodup_cons] at ih ⊢
    refine ⟨?_, ih⟩
    simp only [List.mem_map, Function.comp]
    rintro ⟨b, hb, e⟩
    have := hk b (List.mem_cons_of_mem _ hb) a (List.mem_cons_self) e
    exact ha (this ▸ hb)

/-- the keyed handler table refines the abstract registry: same subscribers in
the same order, same deliveries, and the keys in the table stay pairwise distinct -/
theorem keyed_refines {α} (key : Nat → Nat) (evs : List (RegEv α)) (r : Reg α) (k : KReg α)
    (ht : k.table = entries key r.subs) (hd : k.delivered = r.delivered)
    (hn : r.subs.Nodup) (hi : KeyInjOn key r.subs) (hf : KeysFresh key r.subs evs) :
    (k.run key evs).table = entries key (r.run evs).subs ∧
    (k.run key evs).delivered = (r.run evs).delivered ∧
    (r.run evs).subs.Nodup ∧ KeyInjOn key (r.run evs).subs := by
  induction evs generalizing r k with
  | nil => exact ⟨ht, hd, hn, hi⟩
  | cons e evs ih =>
    rw [krun_cons, run_cons]
    cases e with
    | sub j =>
      obtain ⟨hfj, hf'⟩ := hf
      by_cases hj : j ∈ r.subs
      · have hs : r.step (.sub j) = r := by simp [Reg.step, hj]
        rw [hs]
        rw [if_pos hj] at hf'
        exact ih r _ (by simp [KReg.step, ht, set_present key _ j hj hfj]) hd hn hi hf'
      · have hs : r.step (.sub j) = { r with subs := r.subs ++ [j] } := by simp [Reg.step, hj]
        rw [hs]
        rw [if_neg hj] at hf'
        refine ih _ _ (by simp [KReg.step, ht, set_absent key _ j hj hfj]) hd ?_ ?_ hf'
        · simp only
          rw [List.nodup_append]
          refine ⟨hn, by simp, ?_⟩
          intro a ha b hb
          simp at hb; subst hb
          intro e; subst e; exact hj ha
        · intro a ha b hb e
          simp only [List.mem_append, List.mem_singleton] at ha hb
          rcases ha with ha | ha <;> rcases hb with hb | hb
          · exact hi a ha b hb e
          · subst hb
            exact Decidable.byContradiction fun ne => hfj a ha ne e
          · subst ha
            exact Decidable.byContradiction fun ne => hfj b hb (fun h => ne h.symm) e.symm
          · rw [ha, hb]
    | unsub j =>
      obtain ⟨hfj, hf'⟩ := hf
      have hs : r.step (.unsub j) = { r with subs := r.subs.filter (· ≠ j) } := rfl
      rw [hs]
      refine ih _ _ (by simp [KReg.step, ht, pop_entries key _ j hfj]) hd
        (hn.sublist List.filter_sublist) ?_ hf'
      intro a ha b hb e
      exact hi a (List.mem_filter.mp ha).1 b (List.mem_filter.mp hb).1 e
    | emit x =>
      have hs : r.step (.emit x) =
          { r with delivered := r.delivered ++ r.subs.map (fun k => (k, x)) } := rfl
      rw [hs]
      refine ih _ _ (by simp [KReg.step, ht]) ?_ hn hi hf
      simp [KReg.step, ht, hd, entries]

theorem keysFresh_of_injective {α} (key : Nat → Nat) (hinj : ∀ i j, key i = key j → i = j)
    (subs : List Nat) (evs : List (RegEv α)) : KeysFresh key subs evs := by
  induction evs generalizing subs with
  | nil => trivial
  | cons e evs ih =>
    cases e with
    | sub i => exact ⟨fun j _ ne e => ne (hinj j i e), ih _⟩
    | unsub i => exact ⟨fun j _ ne e => ne (hinj j i e), ih _⟩
    | emit x => exact ih _

end DaliVerif.Proofs.Registry
