import DaliVerif.Proofs.GearSeq
import DaliVerif.Spec.GearComm
/-!
# Lemmas for C07: the binary search of commissioning

`FN.findNext R` is the search as a function of the list `R` of random addresses of the units
that are ENABLED (answers to COMPARE are counted); `FN.findNext_spec` is its specification.
`findNext_run` shows that the generator model `findNext` computes it against every environment
that answers COMPARE by counting.
-/
namespace DaliVerif.GearSeq
set_option linter.unusedSimpArgs false
set_option linter.unusedVariables false
namespace FN

abbrev Res := FNRes

/-- number of enabled units answering COMPARE for search address h -/
def cnt (R : List Nat) (h : Nat) : Nat := (R.filter (· ≤ h)).length

def findNext (R : List Nat) : Nat → Nat → Nat → Res
  | 0, _, _ => .none
  | fuel+1, low, high =>
    if low = high then
      (if cnt R high = 0 then .none else if 2 ≤ cnt R high then .clash else .found low)
    else if cnt R high = 0 then .none
    else
      match findNext R fuel low ((low + high) / 2) with
      | .none => findNext R fuel ((low + high) / 2 + 1) high
      | r => r

theorem cnt_eq_zero {R : List Nat} {h : Nat} : cnt R h = 0 ↔ ∀ r ∈ R, h < r := by
  unfold cnt
  rw [List.length_eq_zero_iff, List.filter_eq_nil_iff]
  constructor
  · intro H r hr; have := H r hr; simp at this; omega
  · intro H r hr; have := H r hr; simp; omega

/-- with every enabled address ≥ low, the answers to COMPARE(low) count the copies of low -/
theorem cnt_low {R : List Nat} {low : Nat} (hR : ∀ r ∈ R, low ≤ r) :
    cnt R low = R.count low := by
  unfold cnt
  rw [List.count_eq_length_filter]
  congr 1
  apply List.filter_congr
  intro r hr
  have := hR r hr
  by_cases h : r = low
  · subst h; simp
  · have h2 : ¬ r ≤ low := by omega
    simp [h, h2]

/-- relational specification of the search result -/
def Spec (R : List Nat) (high : Nat) : Res → Prop
  | .none => ∀ r ∈ R, high < r
  | .found m => m ∈ R ∧ m ≤ high ∧ (∀ r ∈ R, m ≤ r) ∧ R.count m = 1
  | .clash => ∃ m, m ∈ R ∧ m ≤ high ∧ (∀ r ∈ R, m ≤ r) ∧ 2 ≤ R.count m

theorem findNext_spec (R : List Nat) : ∀ fuel low high, low ≤ high → high - low < 2 ^ fuel →
    (∀ r ∈ R, low ≤ r) → Spec R high (findNext R (fuel + 1) low high) := by
  intro fuel
  induction fuel with
  | zero =>
    intro low high hle hlt hR
    have e : low = high := by simp at hlt; omega
    subst e
    simp only [findNext, if_true]
    by_cases h0 : cnt R low = 0
    · simp only [h0, if_true]; exact cnt_eq_zero.mp h0
    · simp only [h0, if_false]
      rw [cnt_low hR] at h0 ⊢
      have hm : low ∈ R := List.count_pos_iff.mp (by omega)
      by_cases h2 : 2 ≤ R.count low
      · simp only [h2, if_true]; exact ⟨low, hm, Nat.le_refl _, hR, h2⟩
      · simp only [h2, if_false]; exact ⟨hm, Nat.le_refl _, hR, by omega⟩
  | succ n ih =>
    intro low high hle hlt hR
    rw [findNext]
    by_cases e : low = high
    · subst e
      simp only [if_true]
      by_cases h0 : cnt R low = 0
      · simp only [h0, if_true]; exact cnt_eq_zero.mp h0
      · simp only [h0, if_false]
        rw [cnt_low hR] at h0 ⊢
        have hm : low ∈ R := List.count_pos_iff.mp (by omega)
        by_cases h2 : 2 ≤ R.count low
        · simp only [h2, if_true]; exact ⟨low, hm, Nat.le_refl _, hR, h2⟩
        · simp only [h2, if_false]; exact ⟨hm, Nat.le_refl _, hR, by omega⟩
    · simp only [e, if_false]
      by_cases h0 : cnt R high = 0
      · simp only [h0, if_true]; exact cnt_eq_zero.mp h0
      · simp only [h0, if_false]
        have hpow : 2 ^ (n + 1) = 2 * 2 ^ n := by rw [Nat.pow_succ]; omega
        have hmid1 : low ≤ (low + high) / 2 := by omega
        have hmid2 : (low + high) / 2 - low < 2 ^ n := by omega
        have hmid3 : (low + high) / 2 + 1 ≤ high := by omega
        have hmid4 : high - ((low + high) / 2 + 1) < 2 ^ n := by omega
        have left := ih low ((low + high) / 2) hmid1 hmid2 hR
        cases hl : findNext R (n + 1) low ((low + high) / 2) with
        | none =>
          rw [hl] at left
          simp only []
          have hR' : ∀ r ∈ R, (low + high) / 2 + 1 ≤ r := fun r hr => by
            have := left r hr; omega
          exact ih _ high hmid3 hmid4 hR'
        | clash =>
          rw [hl] at left
          simp only []
          obtain ⟨m, hm, hle', hmin, hc⟩ := left
          exact ⟨m, hm, by omega, hmin, hc⟩
        | found m =>
          rw [hl] at left
          simp only []
          obtain ⟨hm, hle', hmin, hc⟩ := left
          exact ⟨hm, by omega, hmin, hc⟩

end FN
/-- an environment that answers COMPARE by counting the enabled units whose random address is
at most the search address (state = the 24-bit search address) -/
def cstep (R : List Nat) (s : Nat) : Cmd → Resp × Nat
  | .searchH v => (.none, v * 65536 + s % 65536)
  | .searchM v => (.none, s / 65536 * 65536 + v * 256 + s % 256)
  | .searchL v => (.none, s / 256 * 256 + v)
  | .compare => (if FN.cnt R s = 0 then .none else if 2 ≤ FN.cnt R s then .err else .byte 255, s)
  | _ => (.none, s)

theorem searchBytes (high s : Nat) (h : high < 16777216) :
    ((((high >>> 16) &&& 0xff) * 65536 + s % 65536) / 65536 * 65536 + ((high >>> 8) &&& 0xff) * 256 +
        (((high >>> 16) &&& 0xff) * 65536 + s % 65536) % 256) / 256 * 256 + (high &&& 0xff) = high := by
  have e : (0xff : Nat) = 2 ^ 8 - 1 := by decide
  rw [e, Nat.and_two_pow_sub_one_eq_mod, Nat.and_two_pow_sub_one_eq_mod, Nat.and_two_pow_sub_one_eq_mod,
    Nat.shiftRight_eq_div_pow, Nat.shiftRight_eq_div_pow]
  omega

/-- the model of `_find_next` against a counting environment: it returns what `FN.findNext` says,
leaves the search address at `high` (at the unit found, when one is found), and sends at most
`8·depth + 4` commands (exactly 4 when the answer is "none") -/
theorem findNext_run_aux (R : List Nat) : ∀ (n low high s : Nat), low ≤ high → high - low < 2 ^ n →
    high < 16777216 → (∀ r ∈ R, low ≤ r) →
    ((findNext (n + 1) low high).run (cstep R) s).res = .ret (FN.findNext R (n + 1) low high) ∧
    ((findNext (n + 1) low high).run (cstep R) s).trace.length ≤ 8 * n + 4 ∧
    (FN.findNext R (n + 1) low high = .none → ((findNext (n + 1) low high).run (cstep R) s).trace.length = 4) ∧
    (∀ m, FN.findNext R (n + 1) low high = .found m → ((findNext (n + 1) low high).run (cstep R) s).st = m) := by
  intro n
  induction n with
  | zero =>
    intro low high s hle hlt hh hR
    have e : low = high := by simp at hlt; omega
    subst e
    simp only [findNext, Prog.tell, Prog.run, cstep, searchBytes low s hh, FN.findNext, if_true]
    by_cases h0 : FN.cnt R low = 0
    · simp [h0, Prog.run, Resp.isYes]
    · by_cases h2 : 2 ≤ FN.cnt R low
      · simp [h0, h2, Prog.run, Resp.isYes, Resp.isErr]
      · simp [h0, h2, Prog.run, Resp.isYes, Resp.isErr]
  | succ n ih =>
    intro low high s hle hlt hh hR
    by_cases e : low = high
    · subst e
      simp only [findNext, Prog.tell, Prog.run, cstep, searchBytes low s hh, FN.findNext, if_true]
      by_cases h0 : FN.cnt R low = 0
      · simp [h0, Prog.run, Resp.isYes]
      · by_cases h2 : 2 ≤ FN.cnt R low
        · simp [h0, h2, Prog.run, Resp.isYes, Resp.isErr]
        · simp [h0, h2, Prog.run, Resp.isYes, Resp.isErr]
    · have hpow : 2 ^ (n + 1) = 2 * 2 ^ n := by rw [Nat.pow_succ]; omega
      have hmid1 : low ≤ (low + high) / 2 := by omega
      have hmid2 : (low + high) / 2 - low < 2 ^ n := by omega
      have hmid3 : (low + high) / 2 + 1 ≤ high := by omega
      have hmid4 : high - ((low + high) / 2 + 1) < 2 ^ n := by omega
      rw [findNext, FN.findNext]
      simp only [Prog.tell, Prog.run, cstep, searchBytes high s hh, e, if_false]
      by_cases h0 : FN.cnt R high = 0
      · simp [h0, Prog.run, Resp.isYes]
      · have hyes : (if 2 ≤ FN.cnt R high then Resp.err else Resp.byte 255).isYes = true := by
          split <;> rfl
        simp only [h0, if_false, hyes, if_true]
        obtain ⟨l1, l2, l3, l4⟩ := ih low ((low + high) / 2) high hmid1 hmid2 (by omega) hR
        have lspec := FN.findNext_spec R n low ((low + high) / 2) hmid1 hmid2 hR
        rw [run_bind, l1]
        cases hl : FN.findNext R (n + 1) low ((low + high) / 2) with
        | none =>
          rw [hl] at lspec
          have hR' : ∀ r ∈ R, (low + high) / 2 + 1 ≤ r := fun r hr => by
            have := lspec r hr; omega
          obtain ⟨r1, r2, r3, r4⟩ := ih ((low + high) / 2 + 1) high
            ((findNext (n + 1) low ((low + high) / 2)).run (cstep R) high).st hmid3 hmid4 hh hR'
          have l3' := l3 hl
          simp only []
          refine ⟨r1, ?_, ?_, r4⟩
          · simp only [List.length_cons, List.length_append]; omega
          · intro hnone
            -- the right half cannot be empty: some enabled unit is ≤ high
            have rspec := FN.findNext_spec R n ((low + high) / 2 + 1) high hmid3 hmid4 hR'
            rw [hnone] at rspec
            exact absurd (FN.cnt_eq_zero.mpr rspec) h0
        | clash =>
          simp only [Prog.run]
          refine ⟨trivial, ?_, ?_, ?_⟩
          · simp only [List.length_cons, List.length_append, List.length_nil]; omega
          · intro h; cases h
          · intro m h; cases h
        | found m =>
          simp only [Prog.run]
          refine ⟨trivial, ?_, ?_, ?_⟩
          · simp only [List.length_cons, List.length_append, List.length_nil]; omega
          · intro h; cases h
          · intro m' h
            injection h with h
            subst h
            exact l4 m hl

/-- a run that returns normally has TERMINATE as its last command -/
def EndsT {σ α : Type} (o : Out σ α) : Prop := ∀ a, o.res = .ret a → ∃ t, o.trace = t ++ [Cmd.terminate]

theorem endsT_send {σ α : Type} (step : σ → Cmd → Resp × σ) (c : Cmd) (k : Resp → Prog α) (s : σ)
    (h : EndsT ((k (step s c).1).run step (step s c).2)) : EndsT ((Prog.send c k).run step s) := by
  intro a ha
  simp only [Prog.run] at ha ⊢
  obtain ⟨t, ht⟩ := h a ha
  exact ⟨c :: t, by rw [ht]; rfl⟩

theorem endsT_body {σ : Type} (step : σ → Cmd → Resp × σ) (rounds : Nat) (re dry : Bool) (av : List Nat) (s : σ) :
    EndsT ((Prog.tell .terminate <| Prog.tell (.initialise (if re then 0x00 else 0xFF)) <|
      (outer dry rounds av []).bind fun handed =>
        Prog.tell .terminate <| Prog.note .progress <| Prog.done handed).run step s) := by
  apply endsT_send
  apply endsT_send
  intro a ha
  rw [run_bind] at ha ⊢
  cases hr : ((outer dry rounds av []).run step _).res with
  | ret h =>
    rw [hr] at ha
    simp only [hr, Prog.tell, Prog.run] at ha ⊢
    exact ⟨_, rfl⟩
  | raised e => rw [hr] at ha; simp at ha
  | outOfFuel => rw [hr] at ha; simp at ha

theorem endsT_discover {σ α : Type} (step : σ → Cmd → Resp × σ) (k : List Nat → Prog α)
    (hk : ∀ av s, EndsT ((k av).run step s)) :
    ∀ (as avail : List Nat) (s : σ), EndsT ((discover as avail k).run step s) := by
  intro as
  induction as with
  | nil => intro avail s; exact hk avail s
  | cons a as ih =>
    intro avail s
    simp only [discover]
    split
    · apply endsT_send; exact ih _ _
    · exact ih _ _

theorem commissioning_endsT {σ : Type} (step : σ → Cmd → Resp × σ) (rounds : Nat) (av : Option (List Nat))
    (re dry : Bool) (s : σ) : EndsT ((commissioning rounds av re dry).run step s) := by
  unfold commissioning
  simp only []
  cases re with
  | true =>
    cases dry with
    | true => simp only [if_true, Prog.run]; exact endsT_body step rounds true true _ s
    | false =>
      simp only [if_true, Bool.false_eq_true, if_false]
      apply endsT_send
      apply endsT_send
      exact endsT_body step rounds true false _ _
  | false =>
    simp only [Bool.false_eq_true, if_false]
    apply endsT_discover
    intro av' s'
    simp only [Prog.run]
    exact endsT_body step rounds false dry av' s'

theorem all_disabled_of_endsT {α : Type} (p : Prog α) (b : Bus) (h : EndsT (runBus p b)) (a : α)
    (ha : (runBus p b).res = .ret a) : ∀ u ∈ (runBus p b).st, u.init = .disabled := by
  obtain ⟨t, ht⟩ := h a ha
  rw [runBus_st, ht]
  intro u hu
  simp only [List.mem_map] at hu
  obtain ⟨u0, _, rfl⟩ := hu
  simp only [List.foldl_append, List.foldl_cons, List.foldl_nil]
  simp [Gear.execSt, Cmd.devicetype, Gear.step]

end DaliVerif.GearSeq
