import DaliVerif.Proofs.GearSeqC07
/-!
# C07, part b: the specification bus is a counting environment for the binary search

* `Only C p` — the program `p` sends only commands of class `C`; `run_sim` — two environments related by a
  simulation on that class give the same run.
* `bus_counts_aux` / `bus_counts_run` — the specification bus, restricted to SEARCHADDR H/M/L + COMPARE, answers
  and moves exactly as the counting environment `cstep R` (`R` = random addresses of its ENABLED units).
* `findNext_bus` — hence `_find_next` run against any bus returns `FN.findNext (enR b)`, within `8·depth+4`
  commands, leaving every unit in initialisation mode with the search address at the unit found.
-/
namespace DaliVerif.GearSeq
set_option linter.unusedSimpArgs false
set_option linter.unusedVariables false

/-! ## Programs that only send commands of a given class -/

inductive Only {α : Type} (C : Cmd → Prop) : Prog α → Prop
  | done (a : α) : Only C (.done a)
  | fail (e : PyErr) : Only C (.fail e)
  | spin : Only C .spin
  | send (c : Cmd) (k : Resp → Prog α) : C c → (∀ r, Only C (k r)) → Only C (.send c k)
  | note (n : Note) (k : Prog α) : Only C k → Only C (.note n k)

theorem Only.tell {α : Type} {C : Cmd → Prop} {c : Cmd} {k : Prog α} (hc : C c) (hk : Only C k) :
    Only C (Prog.tell c k) := Only.send c _ hc (fun _ => hk)

theorem Only.bind {α β : Type} {C : Cmd → Prop} {p : Prog α} {f : α → Prog β}
    (hp : Only C p) (hf : ∀ a, Only C (f a)) : Only C (p.bind f) := by
  induction hp with
  | done a => exact hf a
  | fail e => exact Only.fail e
  | spin => exact Only.spin
  | send c k hc hk ih => exact Only.send c _ hc ih
  | note n k hk ih => exact Only.note n _ ih

theorem Only.mono {α : Type} {C D : Cmd → Prop} {p : Prog α} (h : ∀ c, C c → D c)
    (hp : Only C p) : Only D p := by
  induction hp with
  | done a => exact Only.done a
  | fail e => exact Only.fail e
  | spin => exact Only.spin
  | send c k hc hk ih => exact Only.send c _ (h c hc) ih
  | note n k hk ih => exact Only.note n _ ih

theorem Only.trace {σ α : Type} {C : Cmd → Prop} {p : Prog α} (hp : Only C p)
    (step : σ → Cmd → Resp × σ) (s : σ) : ∀ c ∈ (p.run step s).trace, C c := by
  induction hp generalizing s with
  | done a => simp [Prog.run]
  | fail e => simp [Prog.run]
  | spin => simp [Prog.run]
  | send c k hc hk ih =>
    intro d hd
    simp only [Prog.run, List.mem_cons] at hd
    rcases hd with rfl | hd
    · exact hc
    · exact ih _ _ d hd
  | note n k hk ih => simpa [Prog.run] using ih s

/-- two environments related by a simulation on the commands a program sends give the same run -/
theorem run_sim {σ τ α : Type} (C : Cmd → Prop) (Sim : σ → τ → Prop)
    (st1 : σ → Cmd → Resp × σ) (st2 : τ → Cmd → Resp × τ)
    (h : ∀ s t c, C c → Sim s t → (st1 s c).1 = (st2 t c).1 ∧ Sim (st1 s c).2 (st2 t c).2)
    (p : Prog α) (hp : Only C p) : ∀ s t, Sim s t →
    (p.run st1 s).res = (p.run st2 t).res ∧ (p.run st1 s).trace = (p.run st2 t).trace ∧
      Sim (p.run st1 s).st (p.run st2 t).st := by
  induction hp with
  | done a => intro s t hs; exact ⟨rfl, rfl, hs⟩
  | fail e => intro s t hs; exact ⟨rfl, rfl, hs⟩
  | spin => intro s t hs; exact ⟨rfl, rfl, hs⟩
  | send c k hc hk ih =>
    intro s t hs
    obtain ⟨h1, h2⟩ := h s t c hc hs
    simp only [Prog.run]
    rw [h1]
    obtain ⟨a, b, c'⟩ := ih (st2 t c).1 _ _ h2
    exact ⟨a, by rw [b], c'⟩
  | note n k hk ih => intro s t hs; simpa [Prog.run] using ih s t hs

/-! ## The commands of the binary search -/

def IsSearch : Cmd → Prop
  | .searchH _ | .searchM _ | .searchL _ | .compare => True
  | _ => False

theorem findNext_only : ∀ (fuel low high : Nat), Only IsSearch (findNext fuel low high) := by
  intro fuel
  induction fuel with
  | zero => intro low high; exact Only.spin
  | succ n ih =>
    intro low high
    rw [findNext]
    refine Only.tell trivial (Only.tell trivial (Only.tell trivial (Only.send _ _ trivial ?_)))
    intro r
    split
    · split
      · split <;> exact Only.done _
      · exact Only.done _
    · split
      · refine Only.bind (ih _ _) ?_
        intro res
        split
        · exact ih _ _
        · exact Only.done _
      · exact Only.done _


/-! ## The specification bus restricted to SEARCHADDR + COMPARE is a counting environment -/

/-- random addresses of the units that are ENABLED (they answer COMPARE) -/
def enR (b : Bus) : List Nat := b.filterMap (fun u => if u.init = .enabled then some u.random else none)

/-- every unit in initialisation mode has the same search address `s` -/
def Synced (b : Bus) (s : Nat) : Prop := ∀ u ∈ b, u.init ≠ .disabled → u.search = s

def BusSim (R : List Nat) (b : Bus) (s : Nat) : Prop := Synced b s ∧ enR b = R

theorem combine_255 (l : List Nat) (h : ∀ x ∈ l, x = 255) :
    combine l = if l.length = 0 then .none else if 2 ≤ l.length then .err else .byte 255 := by
  match l, h with
  | [], _ => rfl
  | [x], h => simp [combine, h x (by simp)]
  | x :: y :: l, _ => simp [combine]

theorem compare_answers (b : Bus) : ∀ x ∈ b.filterMap (fun u => (u.step .compare).1), x = 255 := by
  intro x hx
  simp only [List.mem_filterMap, Gear.step] at hx
  obtain ⟨u, _, hu⟩ := hx
  split at hu <;> simp at hu
  exact hu.symm

theorem compare_len (b : Bus) (s : Nat) (h : Synced b s) :
    (b.filterMap (fun u => (u.step .compare).1)).length = FN.cnt (enR b) s := by
  induction b with
  | nil => rfl
  | cons u b ih =>
    have ih' := ih (fun v hv => h v (List.mem_cons_of_mem _ hv))
    have hu := h u (List.mem_cons_self ..)
    unfold FN.cnt enR at *
    simp only [List.filterMap_cons, Gear.step] at ih' ⊢
    by_cases he : u.init = .enabled
    · have hs : u.search = s := hu (by rw [he]; decide)
      by_cases hr : u.random ≤ s
      · simp [he, hs, hr, List.filter_cons, ih']
      · simp [he, hs, hr, List.filter_cons, ih']
    · simp [he, ih']

theorem enR_map (b : Bus) (f : Gear → Gear) (h : ∀ u, (f u).init = u.init ∧ (f u).random = u.random) :
    enR (b.map f) = enR b := by
  unfold enR
  rw [List.filterMap_map]
  congr 1
  funext u
  simp [Function.comp, h u]

theorem Synced_map (b : Bus) (f : Gear → Gear) (s s' : Nat)
    (h : ∀ u, (u.init ≠ .disabled → u.search = s) → (f u).init ≠ .disabled → (f u).search = s')
    (hb : Synced b s) : Synced (b.map f) s' := by
  intro v hv
  simp only [List.mem_map] at hv
  obtain ⟨u, hu, rfl⟩ := hv
  exact h u (hb u hu)

theorem frame_silent (b : Bus) (c : Cmd) (h : ∀ u : Gear, (u.step c).1 = none) :
    (Bus.frame b c).1 = .none := by
  unfold Bus.frame
  have : b.filterMap (fun u => (u.step c).1) = [] := by
    rw [List.filterMap_eq_nil_iff]; intro u _; exact h u
  simp only [this, combine]

/-- **bus_counts** — on the commands of the binary search the specification bus answers and moves
exactly as the counting environment `cstep R`, `R` the random addresses of its ENABLED units -/
theorem bus_counts_aux (R : List Nat) (b : Bus) (s : Nat) (c : Cmd) (hc : IsSearch c) (hs : BusSim R b s) :
    (Bus.exec b c).1 = (cstep R s c).1 ∧ BusSim R (Bus.exec b c).2 (cstep R s c).2 := by
  obtain ⟨hsy, hR⟩ := hs
  have hdt : c.devicetype = 0 := by cases c <;> first | rfl | exact absurd hc (by simp [IsSearch])
  rw [exec_of_dt0 b c hdt]
  cases c with
  | compare =>
    constructor
    · show combine _ = _
      rw [combine_255 _ (compare_answers b), compare_len b s hsy, hR]
      simp only [cstep]
    · refine ⟨?_, ?_⟩
      · exact Synced_map b _ s s (fun u hu => by simpa [Gear.step, Gear.tick] using hu) hsy
      · show enR (b.map _) = R
        rw [enR_map b _ (fun u => by simp [Gear.step, Gear.tick]), hR]
  | searchH v =>
    refine ⟨by rw [frame_silent _ _ (fun u => by simp only [Gear.step]; split <;> rfl)]; rfl, ?_, ?_⟩
    · refine Synced_map b _ s _ (fun u hu => ?_) hsy
      simp only [Gear.step, cstep]
      split
      · rename_i hd; simp [Gear.tick, hd]
      · rename_i hd; intro _; simp [Gear.tick, hu hd]
    · show enR (b.map _) = R
      rw [enR_map b _ (fun u => by simp only [Gear.step]; split <;> simp [Gear.tick]), hR]
  | searchM v =>
    refine ⟨by rw [frame_silent _ _ (fun u => by simp only [Gear.step]; split <;> rfl)]; rfl, ?_, ?_⟩
    · refine Synced_map b _ s _ (fun u hu => ?_) hsy
      simp only [Gear.step, cstep]
      split
      · rename_i hd; simp [Gear.tick, hd]
      · rename_i hd; intro _; simp [Gear.tick, hu hd]
    · show enR (b.map _) = R
      rw [enR_map b _ (fun u => by simp only [Gear.step]; split <;> simp [Gear.tick]), hR]
  | searchL v =>
    refine ⟨by rw [frame_silent _ _ (fun u => by simp only [Gear.step]; split <;> rfl)]; rfl, ?_, ?_⟩
    · refine Synced_map b _ s _ (fun u hu => ?_) hsy
      simp only [Gear.step, cstep]
      split
      · rename_i hd; simp [Gear.tick, hd]
      · rename_i hd; intro _; simp [Gear.tick, hu hd]
    · show enR (b.map _) = R
      rw [enR_map b _ (fun u => by simp only [Gear.step]; split <;> simp [Gear.tick]), hR]
  | _ => exact absurd hc (by simp [IsSearch])


theorem bus_counts_run {α : Type} (p : Prog α) (hp : Only IsSearch p) (b : Bus) (s : Nat)
    (hs : Synced b s) :
    (runBus p b).res = (p.run (cstep (enR b)) s).res ∧ (runBus p b).trace = (p.run (cstep (enR b)) s).trace ∧
      Synced (runBus p b).st (p.run (cstep (enR b)) s).st ∧ enR (runBus p b).st = enR b := by
  obtain ⟨h1, h2, h3, h4⟩ := run_sim IsSearch (BusSim (enR b)) Bus.exec (cstep (enR b))
    (fun b' s' c hc hs' => bus_counts_aux (enR b) b' s' c hc hs') p hp b s ⟨hs, rfl⟩
  exact ⟨h1, h2, h3, h4⟩

/-! ## Any bus: the three SEARCHADDR frames overwrite the whole search address -/

def resync (b : Bus) : Bus := b.map (fun u => if u.init = .disabled then u else { u with search := 0 })

theorem unit_search3 (u : Gear) (h m l : Nat) :
    ((((if u.init = .disabled then u else { u with search := 0 }).step (.searchH h)).2.step (.searchM m)).2.step
      (.searchL l)).2 = (((u.step (.searchH h)).2.step (.searchM m)).2.step (.searchL l)).2 := by
  by_cases hd : u.init = .disabled
  · simp [hd]
  · simp only [hd, if_false, Gear.step, Gear.tick]
    have e : ∀ s : Nat, ((h * 65536 + s % 65536) / 65536 * 65536 + m * 256 + (h * 65536 + s % 65536) % 256) / 256 * 256
        = h * 65536 + m * 256 := by intro s; omega
    simp only [e]

theorem bus_search3 (b : Bus) (h m l : Nat) :
    (Bus.exec (Bus.exec (Bus.exec (resync b) (.searchH h)).2 (.searchM m)).2 (.searchL l)).2 =
    (Bus.exec (Bus.exec (Bus.exec b (.searchH h)).2 (.searchM m)).2 (.searchL l)).2 := by
  simp only [Bus.exec_st, resync, List.map_map]
  apply List.map_congr_left
  intro u _
  simp only [Function.comp, Gear.execSt, Cmd.devicetype, if_true]
  exact unit_search3 u h m l

theorem findNext_run3 {σ : Type} (step : σ → Cmd → Resp × σ) (n low high : Nat) (s s' : σ)
    (h : (step (step (step s (.searchH ((high >>> 16) &&& 0xff))).2 (.searchM ((high >>> 8) &&& 0xff))).2
            (.searchL (high &&& 0xff))).2 =
         (step (step (step s' (.searchH ((high >>> 16) &&& 0xff))).2 (.searchM ((high >>> 8) &&& 0xff))).2
            (.searchL (high &&& 0xff))).2) :
    (findNext (n + 1) low high).run step s = (findNext (n + 1) low high).run step s' := by
  rw [findNext]
  simp only [Prog.tell, Prog.run]
  rw [h]

theorem Synced_resync (b : Bus) : Synced (resync b) 0 := by
  intro v hv
  simp only [resync, List.mem_map] at hv
  obtain ⟨u, _, rfl⟩ := hv
  split
  · rename_i hd; intro h; exact absurd hd h
  · intro _; rfl

theorem enR_resync (b : Bus) : enR (resync b) = enR b := by
  unfold resync
  apply enR_map
  intro u
  split <;> simp

/-- **findNext on the specification bus**: any bus of any size, any search addresses to start with -/
theorem findNext_bus (b : Bus) (n low high : Nat) (hle : low ≤ high) (hw : high - low < 2 ^ n)
    (hh : high < 16777216) (hR : ∀ r ∈ enR b, low ≤ r) :
    (runBus (findNext (n + 1) low high) b).res = .ret (FN.findNext (enR b) (n + 1) low high) ∧
    (runBus (findNext (n + 1) low high) b).trace.length ≤ 8 * n + 4 ∧
    (FN.findNext (enR b) (n + 1) low high = .none → (runBus (findNext (n + 1) low high) b).trace.length = 4) ∧
    (∀ m, FN.findNext (enR b) (n + 1) low high = .found m → Synced (runBus (findNext (n + 1) low high) b).st m) ∧
    enR (runBus (findNext (n + 1) low high) b).st = enR b := by
  have e : runBus (findNext (n + 1) low high) b = runBus (findNext (n + 1) low high) (resync b) := by
    unfold runBus
    exact findNext_run3 Bus.exec n low high b (resync b) (bus_search3 b _ _ _).symm
  rw [e]
  obtain ⟨h1, h2, h3, h4⟩ := bus_counts_run (findNext (n + 1) low high) (findNext_only _ _ _) (resync b) 0
    (Synced_resync b)
  rw [enR_resync] at h1 h2 h3 h4
  obtain ⟨a1, a2, a3, a4⟩ := findNext_run_aux (enR b) n low high 0 hle hw hh hR
  refine ⟨by rw [h1, a1], by rw [h2]; exact a2, fun hn => by rw [h2]; exact a3 hn, ?_, h4⟩
  intro m hm
  rw [← a4 m hm]
  exact h3

end DaliVerif.GearSeq
