import DaliVerif.Proofs.Address
import DaliVerif.Proofs.Instance
import DaliVerif.Model.Decode
/-!
# Helper lemmas for C01/C02/C12: frame-building steps in arithmetic form
-/
set_option linter.unusedSimpArgs false
namespace DaliVerif.Cmd
open Frame Spec

theorem lookup_mem {α β} [BEq α] [LawfulBEq α] {l : List (α × β)} {k : α} {v : β}
    (h : lookup l k = some v) : (k, v) ∈ l := by
  unfold lookup at h
  cases hf : l.find? (fun e => e.1 == k) with
  | none => simp [hf] at h
  | some e =>
    simp only [hf, Option.map_some, Option.some.injEq] at h
    have hm := List.mem_of_find?_eq_some hf
    have hp := List.find?_some hf
    have : e.1 = k := by simpa using hp
    rw [← this, ← h]; exact hm

/-- `ForwardFrame(bits, data)` succeeds exactly when the data fits -/
theorem newFrame_ok (bits data : Nat) (hb : 1 ≤ bits) (hd : data < 2 ^ bits) :
    newFrame bits data = .ok ⟨bits, data⟩ := by
  unfold newFrame natVal Frame.new
  have hb' : ¬ ((bits : Int) < 1) := by omega
  have hbl : ¬ (bitLength (data : Int) > (bits : Int).toNat) := by
    have := (bitLength_le_iff data bits).mpr hd
    simp; omega
  simp only [Int.toNat_natCast] at hbl
  have hneg : ¬ ((data : Int) < 0) := by omega
  simp only [PyVal.asInt?, hb', if_false, hneg, hbl, Int.toNat_natCast]

/-- `ForwardFrame(bits, (b0, b1, …))` from bytes -/
theorem newFrame_bytes2 (a b : Nat) (ha : a < 256) (hb : b < 256) :
    Frame.new (natVal 16) (.ints [(a : Int), (b : Int)]) = .ok ⟨16, a * 256 + b⟩ := by
  unfold natVal Frame.new
  have hall : ([(a : Int), (b : Int)].all fun x => decide (0 ≤ x) && decide (x < 256)) = true := by
    simp; omega
  have hd : a * 256 + b < 2 ^ 16 := by simp; omega
  have hbl : ¬ (bitLength ((a * 256 + b : Nat) : Int) > 16) := by
    have := (bitLength_le_iff (a * 256 + b) 16).mpr hd; omega
  have e : ((a : Int) * 256 + b) = ((a * 256 + b : Nat) : Int) := by omega
  have hneg : ¬ ((a : Int) * 256 + b < 0) := by omega
  have hbl' : ¬ (16 < bitLength ((a : Int) * 256 + b)) := by rw [e]; omega
  simp only [PyVal.asInt?, hall, if_true]
  simp only [List.map, Int.toNat_natCast, ofBytesBE, List.foldl, Nat.zero_mul, Nat.zero_add,
    Int.ofNat_eq_natCast]
  simp [hneg, hbl']

theorem newFrame_bytes3 (a b c : Nat) (ha : a < 256) (hb : b < 256) (hc : c < 256) :
    Frame.new (natVal 24) (.ints [(a : Int), (b : Int), (c : Int)]) =
      .ok ⟨24, (a * 256 + b) * 256 + c⟩ := by
  unfold natVal Frame.new
  have hall : ([(a : Int), (b : Int), (c : Int)].all fun x => decide (0 ≤ x) && decide (x < 256)) = true := by
    simp; omega
  have hd : (a * 256 + b) * 256 + c < 2 ^ 24 := by simp; omega
  have hbl : ¬ (bitLength (((a * 256 + b) * 256 + c : Nat) : Int) > 24) := by
    have := (bitLength_le_iff ((a * 256 + b) * 256 + c) 24).mpr hd; omega
  have e : (((a : Int) * 256 + b) * 256 + c) = (((a * 256 + b) * 256 + c : Nat) : Int) := by omega
  have hneg : ¬ (((a : Int) * 256 + b) * 256 + c < 0) := by omega
  have hbl' : ¬ (24 < bitLength (((a : Int) * 256 + b) * 256 + c)) := by rw [e]; omega
  simp only [PyVal.asInt?, hall, if_true]
  simp only [List.map, Int.toNat_natCast, ofBytesBE, List.foldl, Nat.zero_mul, Nat.zero_add,
    Int.ofNat_eq_natCast]
  simp [hneg, hbl']

/-- a slice write with in-range operands, in arithmetic form -/
theorem setSlice_ok (f : Frame) (hi lo v : Nat) (hlo : lo ≤ hi) (hhi : hi < f.bits)
    (hd : f.data < 2 ^ f.bits) (hv : v < 2 ^ (hi + 1 - lo)) :
    setSlice f hi lo v = .ok ⟨f.bits, setSliceA f.data hi lo v⟩ := by
  unfold setSlice natVal
  have hrs : f.readSlice (.int hi) (.int lo) .none = .ok (hi, lo) := by
    rw [readSlice_eq]
    simp only [Bits.sliceOf, PyVal.asInt?]
    have h1 : (0 : Int) ≤ hi ∧ (hi : Int) < f.bits ∧ (0 : Int) ≤ lo ∧ (lo : Int) < f.bits := by omega
    simp [h1]
    omega
  have hvc := (value_checks (v : Int) (hi + 1 - lo)).mpr
    ⟨Int.natCast_nonneg _, by exact_mod_cast hv⟩
  simp only [Frame.setItem, hrs, bind, Except.bind, PyVal.asInt?]
  simp only [hvc.1, hvc.2, if_false, pure, Except.pure, Int.toNat_natCast]
  rw [setSliceRaw_eqA f.bits f.data hi lo v hlo hhi hd hv]

/-- a bit write, as a one-bit slice write in arithmetic form -/
theorem setBit_ok (f : Frame) (k : Nat) (b : Bool) (hk : k < f.bits) (hd : f.data < 2 ^ f.bits) :
    setBit f k b = .ok ⟨f.bits, setSliceA f.data k k (if b then 1 else 0)⟩ := by
  unfold setBit natVal
  have h1 : ¬ ((k : Int) < 0 ∨ (k : Int) ≥ f.bits) := by omega
  have hv : (if b then 1 else 0) < 2 ^ (k + 1 - k) := by
    have : k + 1 - k = 1 := by omega
    rw [this]; cases b <;> simp
  have h1' : ¬ ((k : Int) < 0 ∨ f.bits ≤ k) := by omega
  simp only [Frame.setItem, PyVal.asInt?, PyVal.truthy]
  simp [h1']
  rw [setBitRaw_eq_setSlice f.bits f.data k b hk hd,
    setSliceRaw_eqA f.bits f.data k k _ (Nat.le_refl k) hk hd hv]

theorem setSliceA_lt (bits d hi lo v : Nat) (hlo : lo ≤ hi) (hhi : hi < bits) (hd : d < 2 ^ bits)
    (hv : v < 2 ^ (hi + 1 - lo)) : setSliceA d hi lo v < 2 ^ bits := by
  rw [← setSliceRaw_eqA bits d hi lo v hlo hhi hd hv]
  exact setSliceRaw_lt bits d hi lo v hlo hhi hd hv

theorem rangeCheck_ok (v limit : Nat) (h : v ≤ limit) : rangeCheck (v : Int) limit = .ok () := by
  unfold rangeCheck
  have : ¬ ((v : Int) < 0 ∨ (v : Int) > limit) := by omega
  simp [this, h]

end DaliVerif.Cmd
