import DaliVerif.Spec.AnswerTable
/-!
# C16 — lemmas about the pure answer mappings (`Model/Answer.lean`)

Per gateway: a response object is of the command's class, `None` is returned
exactly for a command without response class, the model applied to the
protocol's reports (`Spec/AnswerTable.lean`) conforms to the property, and the
Tridonic loop does not react to a report of an unknown type.
-/
set_option linter.unusedSimpArgs false
namespace DaliVerif.Proofs.AnswerTable
open DaliVerif DaliVerif.Answer DaliVerif.Spec.AnswerTable DaliVerif.Gen

/-! ## Tridonic loop -/

theorem triFinish_resp {c : CmdInfo} {r : TResp} {cls : Nat} {o : Outcome}
    (h : triFinish c r = .resp cls o) : c.resp = some cls := by
  unfold triFinish at h
  cases hc : c.resp with
  | none => simp [hc] at h
  | some k =>
    simp only [hc] at h
    cases r <;> simp [mkResp] at h <;> simp [h.1]

theorem triFinish_none_iff (c : CmdInfo) (r : TResp) :
    triFinish c r = .none ↔ c.resp = none := by
  unfold triFinish
  cases hc : c.resp with
  | none => simp
  | some k => cases r <;> simp [mkResp]

/-- whatever the loop returns normally is `triFinish` of some loop state -/
theorem triLoop_ok {c : CmdInfo} {msgs : List TMsg} {o : Int} {r : TResp} {n k : Nat} {a : Answer}
    (h : triLoop c o r n msgs = .done (.ok a) k) : ∃ r', a = triFinish c r' := by
  induction msgs generalizing o r n with
  | nil =>
    unfold triLoop at h
    split at h
    · contradiction
    · injection h with h1 h2; injection h1 with h1; exact ⟨r, h1.symm⟩
  | cons m ms ih =>
    unfold triLoop at h
    split at h
    · cases m with
      | fail => simp at h
      | rep t f0 f1 f2 f3 =>
        simp only at h
        split at h
        · exact ih h
        · simp at h
    · injection h with h1 h2; injection h1 with h1; exact ⟨r, h1.symm⟩

/-! ## an ignorable report does not change the loop's result -/

/-- a report the loop does not react to -/
def Ignorable (t f3 : Nat) : Prop :=
  t ≠ 0x71 ∧ t ≠ 0x72 ∧ t ≠ 0x73 ∧ t ≠ 0x76 ∧ ¬ (t = 0x77 ∧ f3 = 3)

/-- the result with one more message consumed -/
def bump : TRes → TRes
  | .done a k => .done a (k + 1)
  | .blocked => .blocked

/-- the result of the loop when one ignorable report is inserted after `p` messages -/
def withInserted (p : Nat) : TRes → TRes
  | .done a k => .done a (if k ≤ p then k else k + 1)
  | .blocked => .blocked

theorem triStep_ignorable {t f3 : Nat} (h : Ignorable t f3) (o : Int) (r : TResp) (f0 f1 f2 : Nat) :
    triStep o r t f0 f1 f2 f3 = .ok (o, r) := by
  obtain ⟨h1, h2, h3, h4, h5⟩ := h
  simp [triStep, Watch.RESPONSE_FRAME_DALI16, Watch.RESPONSE_FRAME_DALI24,
    Watch.RESPONSE_FRAME_DALI8, Watch.RESPONSE_INFO, Watch.RESPONSE_NO_FRAME,
    Watch.BUS_STATUS_FRAMING_ERROR, h1, h2, h3, h4]
  intro a b; exact absurd ⟨a, b⟩ h5

theorem triLoop_succ (c : CmdInfo) (o : Int) (r : TResp) (n : Nat) (l : List TMsg) :
    triLoop c o r (n + 1) l = bump (triLoop c o r n l) := by
  induction l generalizing o r n with
  | nil => unfold triLoop; split <;> simp [bump]
  | cons m ms ih =>
    unfold triLoop
    split
    · cases m with
      | fail => simp [bump]
      | rep t f0 f1 f2 f3 =>
        simp only
        split
        · exact ih _ _ _
        · simp [bump]
    · simp [bump]

theorem triLoop_consumed {c : CmdInfo} {o : Int} {r : TResp} {n : Nat} {l : List TMsg}
    {a : PyRes Answer} {k : Nat} (h : triLoop c o r n l = .done a k) :
    n ≤ k ∧ ((o ≠ 0 ∨ r = .unset) → n < k) := by
  induction l generalizing o r n with
  | nil =>
    unfold triLoop at h
    split at h
    · simp at h
    · rename_i hn; simp at h; exact ⟨by omega, fun h' => absurd h' hn⟩
  | cons m ms ih =>
    unfold triLoop at h
    split at h
    · cases m with
      | fail => simp at h; omega
      | rep t f0 f1 f2 f3 =>
        simp only at h
        split at h
        · have := (ih h).1; omega
        · simp at h; omega
    · rename_i hn; simp at h; exact ⟨by omega, fun h' => absurd h' hn⟩

theorem triLoop_insert (c : CmdInfo) (o : Int) (r : TResp) (n : Nat) (pre post : List TMsg)
    {t f3 : Nat} (f0 f1 f2 : Nat) (h : Ignorable t f3) :
    triLoop c o r n (pre ++ .rep t f0 f1 f2 f3 :: post) =
      withInserted (n + pre.length) (triLoop c o r n (pre ++ post)) := by
  induction pre generalizing o r n with
  | nil =>
    simp only [List.nil_append, List.length_nil, Nat.add_zero]
    by_cases hn : o ≠ 0 ∨ r = .unset
    · rw [triLoop, if_pos hn]
      simp only [triStep_ignorable h]
      rw [triLoop_succ]
      cases hp : triLoop c o r n post with
      | blocked => simp [bump, withInserted]
      | done a k =>
        have := (triLoop_consumed hp).2 hn
        have : ¬ k ≤ n := by omega
        simp [bump, withInserted, this]
    · cases post with
      | nil => simp [triLoop, hn, withInserted]
      | cons y ys => simp [triLoop, hn, withInserted]
  | cons p pre ih =>
    simp only [List.cons_append, List.length_cons]
    by_cases hn : o ≠ 0 ∨ r = .unset
    · rw [triLoop.eq_def, triLoop.eq_def]
      simp only [if_pos hn]
      cases p with
      | fail => simp [withInserted]
      | rep t' g0 g1 g2 g3 =>
        simp only
        split
        · rw [ih]; congr 1; omega
        · simp [withInserted]
    · simp [triLoop, hn, withInserted]

/-! ## the other gateways -/

theorem hasseb_typed {c : CmdInfo} {rep : HRep} {cls : Nat} {o : Outcome}
    (h : hassebAnswer c rep = .ok (.resp cls o)) : c.resp = some cls := by
  unfold hassebAnswer at h
  cases hc : c.resp with
  | none => simp [hc] at h
  | some k =>
    simp only [hc] at h
    cases rep with
    | fail => simp at h
    | rep st b =>
      simp only [mkResp] at h
      repeat' split at h
      all_goals simp at h
      all_goals simp [h.1]

theorem hasseb_nonquery (c : CmdInfo) (rep : HRep) (hc : c.resp = none) :
    hassebAnswer c rep = .ok .none := by
  simp [hassebAnswer, hc]

theorem hasseb_none_iff {c : CmdInfo} {st b : Nat} {a : Answer}
    (h : hassebAnswer c (.rep st b) = .ok a) (hst : st = 1 ∨ st = 2 ∨ st = 3) :
    a = .none ↔ c.resp = none := by
  unfold hassebAnswer at h
  cases hc : c.resp with
  | none => simp [hc] at h; simp [h]
  | some k =>
    simp only [hc, mkResp, Watch.HASSEB_NO_ANSWER, Watch.HASSEB_OK, Watch.HASSEB_INVALID_ANSWER] at h
    rcases hst with rfl | rfl | rfl <;> simp at h
    · simp [← h]
    · split at h <;> simp at h; simp [← h]
    · split at h <;> simp at h; simp [← h]

theorem luba_typed {c : CmdInfo} {w : SWait} {cls : Nat} {o : Outcome}
    (h : lubaAnswer c w = .ok (.resp cls o)) : c.resp = some cls := by
  unfold lubaAnswer at h
  cases hc : c.resp with
  | none => simp [hc] at h
  | some k =>
    simp only [hc, mkResp] at h
    cases w with
    | timeout => simp at h; simp [h.1]
    | got b => simp only at h; split at h <;> simp at h; simp [h.1]

theorem luba_none_iff {c : CmdInfo} {w : SWait} {a : Answer}
    (h : lubaAnswer c w = .ok a) : a = .none ↔ c.resp = none := by
  unfold lubaAnswer at h
  cases hc : c.resp with
  | none => simp [hc] at h; simp [h]
  | some k =>
    simp only [hc, mkResp] at h
    cases w with
    | timeout => simp at h; simp [← h]
    | got b => simp only at h; split at h <;> simp at h; simp [← h]

theorem daliserver_typed {c : CmdInfo} {v s r p : Nat} {cls : Nat} {o : Outcome}
    (h : daliserverUnpack c v s r p = .ok (.resp cls o)) : c.resp = some cls := by
  unfold daliserverUnpack at h
  cases hc : c.resp with
  | none => simp [hc] at h
  | some k =>
    simp only [hc, mkResp] at h
    repeat' split at h
    all_goals simp at h
    all_goals simp [h.1]

theorem daliserver_none_iff {c : CmdInfo} {v s r p : Nat} {a : Answer}
    (h : daliserverUnpack c v s r p = .ok a) : a = .none ↔ c.resp = none := by
  unfold daliserverUnpack at h
  cases hc : c.resp with
  | none => simp [hc] at h; simp [h]
  | some k =>
    simp only [hc, mkResp] at h
    repeat' split at h
    all_goals simp at h
    all_goals simp [← h]

theorem atx_typed {c : CmdInfo} {lines : List ALine} {cls : Nat} {o : Outcome}
    (h : atxAnswer c lines = .ok (.resp cls o)) : c.resp = some cls := by
  unfold atxAnswer at h
  split at h
  · simp at h
  · rename_i v _
    cases hc : c.resp with
    | none => simp [hc] at h
    | some k => simp only [hc, mkResp] at h; cases v <;> simp at h <;> simp [h.1]

theorem atx_none_iff {c : CmdInfo} {lines : List ALine} {a : Answer}
    (h : atxAnswer c lines = .ok a) : a = .none ↔ c.resp = none := by
  unfold atxAnswer at h
  split at h
  · simp at h
  · rename_i v _
    cases hc : c.resp with
    | none => simp [hc] at h; simp [h]
    | some k => simp only [hc, mkResp] at h; cases v <;> simp at h <;> simp [← h]

/-- a non-query gets `None` from every line list on which the loop does not raise -/
theorem atx_nonquery {c : CmdInfo} {lines : List ALine} {a : Answer}
    (h : atxAnswer c lines = .ok a) (hc : c.resp = none) : a = .none :=
  (atx_none_iff h).mpr hc

/-! ## the status tables -/

theorem tridonic_table (c : CmdInfo) (b24 : Bool) (bus : Bus) (hb : ∀ b, bus = .value b → b < 256) :
    ∃ a n, tridonicAnswer c (tridonicReports b24 c.twice bus) = .done (.ok a) n ∧
      conforms .tridonic c bus a = true ∧ n = (tridonicReports b24 c.twice bus).length := by
  obtain ⟨resp, twice⟩ := c
  cases bus with
  | value b =>
    have hb' := hb b rfl
    cases resp <;> cases twice <;> cases b24 <;>
      simp [tridonicAnswer, tridonicReports, triLoop, triStep, backOfBytes, triFinish, conforms,
        mkResp, hb', reportsGarbled, Watch.RESPONSE_FRAME_DALI16, Watch.RESPONSE_FRAME_DALI24,
        Watch.RESPONSE_FRAME_DALI8, Watch.RESPONSE_INFO, Watch.RESPONSE_NO_FRAME,
        Watch.BUS_STATUS_FRAMING_ERROR]
  | _ =>
    cases resp <;> cases twice <;> cases b24 <;>
      simp [tridonicAnswer, tridonicReports, triLoop, triStep, backOfBytes, triFinish, conforms,
        mkResp, reportsGarbled, Watch.RESPONSE_FRAME_DALI16, Watch.RESPONSE_FRAME_DALI24,
        Watch.RESPONSE_FRAME_DALI8, Watch.RESPONSE_INFO, Watch.RESPONSE_NO_FRAME,
        Watch.BUS_STATUS_FRAMING_ERROR]

theorem hasseb_table (c : CmdInfo) (bus : Bus) (junk : Nat)
    (hb : ∀ b, bus = .value b → b < 256) (hj : junk < 256) :
    ∃ a, hassebAnswer c (hassebReport bus junk) = .ok a ∧ conforms .hasseb c bus a = true := by
  obtain ⟨resp, twice⟩ := c
  cases bus with
  | value b =>
    have hb' := hb b rfl
    cases resp <;>
      simp [hassebAnswer, hassebReport, conforms, mkResp, hb', hj, reportsGarbled,
        Watch.HASSEB_NO_ANSWER, Watch.HASSEB_OK, Watch.HASSEB_INVALID_ANSWER]
  | _ =>
    cases resp <;>
      simp [hassebAnswer, hassebReport, conforms, mkResp, hj, reportsGarbled,
        Watch.HASSEB_NO_ANSWER, Watch.HASSEB_OK, Watch.HASSEB_INVALID_ANSWER]

theorem daliserver_table (c : CmdInfo) (bus : Bus) (junk : Nat) :
    ∃ a, daliserverUnpack c (daliserverReply bus junk).1 (daliserverReply bus junk).2.1
        (daliserverReply bus junk).2.2.1 (daliserverReply bus junk).2.2.2 = .ok a ∧
      conforms .daliserver c bus a = true := by
  obtain ⟨resp, twice⟩ := c
  cases bus <;> cases resp <;>
    simp [daliserverUnpack, daliserverReply, conforms, mkResp, reportsGarbled]

theorem luba_table (c : CmdInfo) (bus : Bus) (hb : ∀ b, bus = .value b → b < 256) :
    ∃ a, lubaAnswer c (serialWait bus) = .ok a ∧ conforms .luba c bus a = true := by
  obtain ⟨resp, twice⟩ := c
  cases bus with
  | value b =>
    have hb' := hb b rfl
    cases resp <;> simp [lubaAnswer, serialWait, conforms, mkResp, hb', reportsGarbled]
  | _ => cases resp <;> simp [lubaAnswer, serialWait, conforms, mkResp, reportsGarbled]

theorem sci_table (c : CmdInfo) (bus : Bus) (hb : ∀ b, bus = .value b → b < 256) :
    ∃ a, sciAnswer c (serialWait bus) = .ok a ∧ conforms .sci c bus a = true := by
  obtain ⟨resp, twice⟩ := c
  cases bus with
  | value b =>
    have hb' := hb b rfl
    cases resp <;> simp [sciAnswer, lubaAnswer, serialWait, conforms, mkResp, hb', reportsGarbled]
  | _ => cases resp <;> simp [sciAnswer, lubaAnswer, serialWait, conforms, mkResp, reportsGarbled]

theorem atx_table (c : CmdInfo) (bus : Bus) (hb : ∀ b, bus = .value b → b < 256) :
    ∃ a, atxAnswer c (atxLines c.twice bus) = .ok a ∧ conforms .atx c bus a = true := by
  obtain ⟨resp, twice⟩ := c
  cases bus with
  | value b =>
    have hb' := hb b rfl
    cases resp <;> cases twice <;>
      simp [atxAnswer, atxLines, atxLoop, atxExtract, AVal.ofExtract, conforms, mkResp, hb',
        reportsGarbled]
  | _ => cases resp <;> cases twice <;>
      simp [atxAnswer, atxLines, atxLoop, atxExtract, AVal.ofExtract, conforms, mkResp, reportsGarbled]

end DaliVerif.Proofs.AnswerTable
