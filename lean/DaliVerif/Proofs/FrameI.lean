import DaliVerif.Model.FrameI
import DaliVerif.Proofs.Bits
/-!
# The integer-level forms of `Frame`'s operations equal the hand-written model

`FrameI.*` (over `Int`, in the translator's vocabulary) versus `Frame.*` (`Nat` fields, `PyVal` operands) for
EVERY frame and EVERY integer operand.  Together with `Tie/Frame.lean` this makes the model of `dali/frame.py` a
proved consequence of the translated source for integer operands; non-integer operands (the TypeError paths)
remain tied by the differential harness only.
-/
namespace DaliVerif.FrameI
open DaliVerif DaliVerif.Frame

def toFrame (p : Int × Int) : Frame := ⟨p.1.toNat, p.2.toNat⟩

theorem init_model (bits data : Int) :
    Frame.new (.int bits) (.int data) = (FrameI.init bits data).map toFrame := by
  unfold Frame.new FrameI.init
  simp only [PyVal.asInt?]
  by_cases h1 : bits < 1
  · simp [h1, Except.map]
  · by_cases h2 : data < 0
    · simp [h1, h2, Except.map]
    · by_cases h3 : bitLength data > bits.toNat
      · have : (bitLength data : Int) > bits := by omega
        simp [h1, h2, h3, this, Except.map]
      · have : ¬ (bitLength data : Int) > bits := by omega
        simp [h1, h2, h3, this, Except.map, toFrame]

theorem readSlice_model (f : Frame) (a b : Int) :
    f.readSlice (.int a) (.int b) .none =
      match sliceCheck f.bits a b with
      | some e => .error e
      | none => .ok ((hi a b).toNat, (lo a b).toNat) := by
  unfold Frame.readSlice sliceCheck
  have hmax : max a b = hi a b := by unfold hi; omega
  have hmin : min a b = lo a b := by unfold lo; omega
  simp only [PyVal.asInt?, hmax, hmin]
  by_cases h1 : hi a b < 0 ∨ lo a b < 0
  · have : (decide (hi a b < 0) || decide (lo a b < 0)) = true := by simpa using h1
    simp [h1, this]
  · have h1' : (decide (hi a b < 0) || decide (lo a b < 0)) = false := by
      simp only [Bool.or_eq_false_iff, decide_eq_false_iff_not]; omega
    by_cases h2 : hi a b ≥ f.bits ∨ lo a b ≥ f.bits
    · have : (decide (hi a b ≥ f.bits) || decide (lo a b ≥ f.bits)) = true := by simpa using h2
      simp [h1, h1', h2, this]
    · have h2' : (decide (hi a b ≥ f.bits) || decide (lo a b ≥ f.bits)) = false := by
        simp only [Bool.or_eq_false_iff, decide_eq_false_iff_not]; omega
      simp [h1, h1', h2, h2']

theorem sliceCheck_none {bits a b : Int} (h : sliceCheck bits a b = none) :
    0 ≤ lo a b ∧ lo a b ≤ hi a b ∧ hi a b < bits := by
  unfold sliceCheck at h
  have : lo a b ≤ hi a b := by unfold lo hi; split <;> split <;> omega
  split at h
  · cases h
  · split at h
    · cases h
    · omega

theorem getSlice_model (f : Frame) (a b : Int) :
    f.getItem (.slice (.int a) (.int b) .none) =
      (FrameI.getSlice f.bits f.data a b).map (fun i => Item.num i.toNat) := by
  simp only [Frame.getItem, FrameI.getSlice]
  rw [readSlice_model]
  cases hc : sliceCheck (f.bits : Int) a b with
  | some e => simp [Except.map, bind, Except.bind]
  | none =>
    obtain ⟨h0, h1, h2⟩ := sliceCheck_none hc
    obtain ⟨l, hl⟩ : ∃ l : Nat, lo a b = l := ⟨(lo a b).toNat, by omega⟩
    obtain ⟨h, hh⟩ : ∃ h : Nat, hi a b = h := ⟨(hi a b).toNat, by omega⟩
    have hw : (hi a b + 1 - lo a b) = ((h + 1 - l : Nat) : Int) := by omega
    simp only [bind, Except.bind, pure, Except.pure, Except.map]
    rw [hw, hl, hh]
    simp only [pyShr_ofNat, pyShl_ofNat, Int.toNat_natCast]
    have : ((1 : Int)) = ((1 : Nat) : Int) := rfl
    rw [this, pyShl_ofNat, one_shiftLeft_sub_one, pyAnd_ofNat]
    simp [getSliceRaw, mask]


theorem one_eq : (1 : Int) = ((1 : Nat) : Int) := rfl

theorem getBit_model (f : Frame) (k : Int) :
    f.getItem (.idx (.int k)) = (FrameI.getBit f.bits f.data k).map Item.bit := by
  simp only [Frame.getItem, FrameI.getBit, PyVal.asInt?]
  by_cases h : k < 0 ∨ k ≥ f.bits
  · have : (decide (k < 0) || decide (k ≥ f.bits)) = true := by simpa using h
    simp [h, this, Except.map]
  · have h' : (decide (k < 0) || decide (k ≥ f.bits)) = false := by
      simp only [Bool.or_eq_false_iff, decide_eq_false_iff_not]; omega
    obtain ⟨n, hn⟩ : ∃ n : Nat, k = n := ⟨k.toNat, by omega⟩
    subst hn
    rw [if_neg h]
    simp only [h', Except.map, one_eq, pyShl_ofNat, pyAnd_ofNat, Int.toNat_natCast, getBitRaw]
    by_cases hz : f.data &&& 1 <<< n = 0
    · simp [hz]
    · have : ¬ (((f.data &&& 1 <<< n : Nat) : Int) = 0) := by omega
      simp [hz, this]

theorem setSlice_model (f : Frame) (a b v : Int) :
    f.setItem (.slice (.int a) (.int b) .none) (.int v) =
      (FrameI.setSlice f.bits f.data a b v).map toFrame := by
  simp only [Frame.setItem, FrameI.setSlice]
  rw [readSlice_model]
  cases hc : sliceCheck (f.bits : Int) a b with
  | some e => simp [Except.map, bind, Except.bind]
  | none =>
    obtain ⟨h0, h1, h2⟩ := sliceCheck_none hc
    obtain ⟨l, hl⟩ : ∃ l : Nat, lo a b = l := ⟨(lo a b).toNat, by omega⟩
    obtain ⟨h, hh⟩ : ∃ h : Nat, hi a b = h := ⟨(hi a b).toNat, by omega⟩
    have hw : (hi a b + 1 - lo a b) = ((h + 1 - l : Nat) : Int) := by omega
    simp only [bind, Except.bind, pure, Except.pure, PyVal.asInt?]
    rw [hw, hl, hh]
    simp only [Int.toNat_natCast]
    by_cases hb : bitLength v > h + 1 - l
    · have : (bitLength v : Int) > ((h + 1 - l : Nat) : Int) := by omega
      simp [hb, this, Except.map]
    · have hb' : ¬ (bitLength v : Int) > ((h + 1 - l : Nat) : Int) := by omega
      by_cases hv : v < 0
      · simp [hb, hb', hv, Except.map]
      · obtain ⟨w, hw'⟩ : ∃ w : Nat, v = w := ⟨v.toNat, by omega⟩
        subst hw'
        rw [if_neg hb, if_neg hv, if_neg hb', if_neg hv]
        simp only [Except.map, toFrame, one_eq, pyShl_ofNat, one_shiftLeft_sub_one, pyXor_ofNat,
          pyAnd_ofNat, pyOr_ofNat, Int.toNat_natCast, setSliceRaw, mask]

theorem setBit_model (f : Frame) (k v : Int) :
    f.setItem (.idx (.int k)) (.int v) = (FrameI.setBit f.bits f.data k v).map toFrame := by
  simp only [Frame.setItem, FrameI.setBit, PyVal.asInt?]
  by_cases h : k < 0 ∨ k ≥ f.bits
  · have : (decide (k < 0) || decide (k ≥ f.bits)) = true := by simpa using h
    simp [h, this, Except.map]
  · have h' : (decide (k < 0) || decide (k ≥ f.bits)) = false := by
      simp only [Bool.or_eq_false_iff, decide_eq_false_iff_not]; omega
    obtain ⟨n, hn⟩ : ∃ n : Nat, k = n := ⟨k.toNat, by omega⟩
    subst hn
    rw [if_neg h]
    by_cases hv : v ≠ 0
    · have : (PyVal.int v).truthy = true := by simpa [PyVal.truthy] using hv
      rw [if_pos hv]
      simp only [h', this, Except.map, toFrame, one_eq, pyShl_ofNat, pyOr_ofNat, Int.toNat_natCast, setBitRaw]
      simp
    · have : (PyVal.int v).truthy = false := by simpa [PyVal.truthy] using hv
      rw [if_neg hv]
      simp only [h', this, Except.map, toFrame, one_eq, pyShl_ofNat, one_shiftLeft_sub_one, pyXor_ofNat,
        pyAnd_ofNat, Int.toNat_natCast, setBitRaw, mask]
      simp

theorem containsTrue_model (f : Frame) :
    FrameI.containsTrue f.bits f.data = .ok (f.contains (.bool true)) := by
  simp only [FrameI.containsTrue, Frame.contains]
  congr 1
  by_cases h : f.data = 0
  · simp [h]
  · have : ¬ ((f.data : Int) = 0) := by omega
    simp [h, this]

theorem containsFalse_model (f : Frame) :
    FrameI.containsFalse f.bits f.data = .ok (f.contains (.bool false)) := by
  have : ¬ ((f.bits : Int) < 0) := by omega
  simp only [FrameI.containsFalse, Frame.contains, if_neg this, one_eq, pyShl_ofNat, one_shiftLeft_sub_one, mask]
  congr 1
  by_cases h : f.data = (1 <<< f.bits) - 1
  · simp [h]
  · have : ¬ ((f.data : Int) = (((1 <<< f.bits) - 1 : Nat) : Int)) := by omega
    simp [h, this]

theorem add_model (f g : Frame) :
    f.add (some g) = (FrameI.add f.bits f.data g.bits g.data).map toFrame := by
  have hb : ¬ ((g.bits : Int) < 0) := by omega
  simp only [Frame.add, FrameI.add, if_neg hb, pyShl_ofNat, pyOr_ofNat]
  have h1 : ((f.bits : Int) + (g.bits : Int)) = ((f.bits + g.bits : Nat) : Int) := by omega
  have := init_model ((f.bits + g.bits : Nat) : Int) (((f.data <<< g.bits ||| g.data : Nat)) : Int)
  rw [h1, this]
  cases FrameI.init ((f.bits + g.bits : Nat) : Int) ((f.data <<< g.bits ||| g.data : Nat) : Int) <;> simp [Except.map]

theorem eq_model (f g : Frame) :
    FrameI.eq f.bits f.data g.bits g.data = .ok (f.eq (some g)) := by
  simp only [FrameI.eq, Frame.eq]
  congr 1
  have e1 : ((f.bits : Int) = g.bits) ↔ f.bits = g.bits := by omega
  have e2 : ((f.data : Int) = g.data) ↔ f.data = g.data := by omega
  simp only [e1, e2, ne_eq]
  by_cases h1 : f.bits = g.bits <;> by_cases h2 : f.data = g.data <;> simp [h1, h2]

theorem ne_model (f g : Frame) :
    FrameI.ne f.bits f.data g.bits g.data = .ok (f.ne (some g)) := by
  simp only [FrameI.ne, Frame.ne]
  congr 1
  have e1 : ((f.bits : Int) = g.bits) ↔ f.bits = g.bits := by omega
  have e2 : ((f.data : Int) = g.data) ↔ f.data = g.data := by omega
  simp only [e1, e2, ne_eq]
  by_cases h1 : f.bits = g.bits <;> by_cases h2 : f.data = g.data <;> simp [h1, h2]

end DaliVerif.FrameI
