import DaliVerif.Proofs.MemValue
import DaliVerif.Proofs.Bits
/-!
# Further lemmas for C11 (reference decoder facts, byte-string arithmetic)
-/
namespace DaliVerif.Mem
open DaliVerif DaliVerif.Spec.Mem

theorem decode_not_mask (r : Row) (raw : List Nat) :
    decode r raw ≠ .flag .MASK ∧ decode r raw ≠ .flag .TMASK := by
  unfold decode
  cases r.kind <;> simp only [] <;> (repeat' split) <;> simp

theorem be_replicate (n : Nat) : be (List.replicate n 255) + 1 = 256 ^ n := by
  induction n with
  | zero => simp [be]
  | succ k ih =>
    simp only [List.replicate_succ, be, List.length_replicate, Nat.pow_succ]
    omega

theorem be_append_singleton (l : List Nat) (b : Nat) : be (l ++ [b]) = be l * 256 + b := by
  induction l with
  | nil => simp [be]
  | cons a rest ih =>
    simp only [List.cons_append, be, ih, List.length_append, List.length_singleton, Nat.pow_succ]
    rw [Nat.add_mul, Nat.mul_assoc, Nat.add_assoc]

theorem be_lt (l : List Nat) (h : ∀ b ∈ l, b < 256) : be l < 256 ^ l.length := by
  induction l with
  | nil => simp [be]
  | cons a rest ih =>
    have ha : a < 256 := h a (by simp)
    have hr := ih (fun b hb => h b (by simp [hb]))
    simp only [be, List.length_cons, Nat.pow_succ]
    have : a * 256 ^ rest.length ≤ 255 * 256 ^ rest.length := Nat.mul_le_mul_right _ (by omega)
    omega

theorem toBytes_eq (n len : Nat) : toBytes n len = Frame.toBytesBE n len := by
  induction len generalizing n with
  | zero => rfl
  | succ k ih => simp [toBytes, Frame.toBytesBE, ih]

theorem beNat_toBytes (n len : Nat) : beNat (toBytes n len) = n % 256 ^ len := by
  rw [toBytes_eq]; exact Frame.ofBytesBE_toBytesBE n len

theorem untilNul_noNul (l : List Nat) (h : ∀ c ∈ l, c ≠ 0) : untilNul l = l := by
  induction l with
  | nil => rfl
  | cons a rest ih =>
    have ha : a ≠ 0 := h a (by simp)
    simp [untilNul, ha, ih (fun c hc => h c (by simp [hc]))]

theorem untilNul_append_nul (l t : List Nat) (h : ∀ c ∈ l, c ≠ 0) : untilNul (l ++ 0 :: t) = l := by
  induction l with
  | nil => simp [untilNul]
  | cons a rest ih =>
    have ha : a ≠ 0 := h a (by simp)
    simp [untilNul, ha, ih (fun c hc => h c (by simp [hc]))]

/-- a row of the transcribed table without its provenance mark -/
def unpin (r : Row) : Row := { r with pinned := false }

def bankCore (b : Bank) : BankRow :=
  { key := b.key, address := b.address, lastAddress := b.lastAddress, hasLock := b.hasLock,
    hasLatch := b.hasLatch }

/-- all location addresses of the values registered in bank `k` -/
def bankAddrs (vals : List MemValue) (k : String) : List Nat :=
  (vals.filter (·.bank == k)).flatMap fun v => v.locs.map (·.addr)

/-- `bank.locations` lists exactly the locations of the values of the bank -/
def occupiedOK (vals : List MemValue) (b : Bank) : Bool :=
  b.occupied.all (fun p => vals.any fun v => v.bank == b.key && v.name == p.2 && v.locs.any (·.addr == p.1)) &&
  (bankAddrs vals b.key).all (fun a => b.occupied.any (·.1 == a)) &&
  b.occupied.length == (bankAddrs vals b.key).length

def lockableOK (banks : List Bank) (v : MemValue) : Bool :=
  !(v.locs.any (·.type == .NVM_RW_L)) || banks.any (fun b => b.key == v.bank && b.hasLock)

end DaliVerif.Mem
