import DaliVerif.Proofs.MemValue
import DaliVerif.Proofs.Bits
/-!
# Further lemmas for C11 (reference decoder facts, byte-string arithmetic)
-/
namespace DaliVerif.Mem
open DaliVerif DaliVerif.Spec.Mem

theorem decode_not_mask (r : Row) (raw : List Nat) :
    decode r raw ≠ .flag .MASK ∧ decode r raw ≠ .flag .TMASK := by
  unfold decode
  cases r.kind <;> simp only [] <;> (repeat' split) <;> simp

theorem be_replicate (n : Nat) : be (List.replicate n 255) + 1 = 256 ^ n := by
  induction n with
  | zero => simp [be]
  | succ k ih =>
    simp only [List.replicate_succ, be, List.length_replicate, Nat.pow_succ]
    omega

theorem be_append_singleton (l : List Nat) (b : Nat) : be (l ++ [b]) = be l * 256 + b := by
  induction l with
  | nil => simp [be]
  | cons a rest ih =>
    simp only [List.cons_append, be, ih, List.length_append, List.length_singleton, Nat.pow_succ]
    rw [Nat.add_mul, Nat.mul_assoc, Nat.add_assoc]

theorem be_lt (l : List Nat) (h : ∀ b ∈ l, b < 256) : be l < 256 ^ l.length := by
  induction l with
  | nil => simp [be]
  | cons a rest ih =>
    have ha : a < 256 := h a (by simp)
    have hr := ih (fun b hb => h b (by simp [hb]))
    simp only [be, List.length_cons, Nat.pow_succ]
    have : a * 256 ^ rest.length ≤ 255 * 256 ^ rest.length := Nat.mul_le_mul_right _ (by omega)
    omega

theorem toBytes_eq (n len : Nat) : toBytes n len = Frame.toBytesBE n len := by
  induction len generalizing n with
  | zero => rfl
  | succ k ih => simp [toBytes, Frame.toBytesBE, ih]

theorem beNat_toBytes (n len : Nat) : beNat (toBytes n len) = n % 256 ^ len := by
  rw [toBytes_eq]; exact Frame.ofBytesBE_toBytesBE n len

theorem untilNul_noNul (l : List Nat) (h : ∀ c ∈ l, c ≠ 0) : untilNul l = l := by
  induction l with
  | nil => rfl
  | cons a rest ih =>
    have ha : a ≠ 0 := h a (by simp)
    simp [untilNul, ha, ih (fun c hc => h c (by simp [hc]))]

theorem untilNul_append_nul (l t : List Nat) (h : ∀ c ∈ l, c ≠ 0) : untilNul (l ++ 0 :: t) = l := by
  induction l with
  | nil => simp [untilNul]
  | cons a rest ih =>
    have ha : a ≠ 0 := h a (by simp)
    simp [untilNul, ha, ih (fun c hc => h c (by simp [hc]))]

/-! ### two's-complement byte strings (the `signed=True` branch of `NumericValue`) -/

theorem toBytes_length (n len : Nat) : (toBytes n len).length = len := by
  rw [toBytes_eq, Frame.toBytesBE_length]

theorem toBytes_head (m k : Nat) : (toBytes m (k + 1)).headD 0 = m / 256 ^ k % 256 := by
  induction k generalizing m with
  | zero => simp [toBytes]
  | succ k ih =>
    have hl := toBytes_length (m / 256) (k + 1)
    have e : toBytes m (k + 2) = toBytes (m / 256) (k + 1) ++ [m % 256] := rfl
    rw [e]
    cases h : toBytes (m / 256) (k + 1) with
    | nil => rw [h] at hl; simp at hl
    | cons a rest =>
      have := ih (m / 256)
      rw [h] at this
      simp only [List.cons_append, List.headD_cons] at this ⊢
      rw [this, Nat.div_div_eq_div_mul, Nat.pow_succ, Nat.mul_comm]

/-- `int.from_bytes(x.to_bytes(n, 'big', signed=True), 'big', signed=True) == x` for every `x` that fits -/
theorem fromBytes_signed_toBytes (n : Nat) (hn : 1 ≤ n) (x : Int)
    (hlo : -((256 : Int) ^ n / 2) ≤ x) (hhi : x < (256 : Int) ^ n / 2) :
    fromBytes true (toBytes (x % (256 : Int) ^ n).toNat n) = x := by
  obtain ⟨k, rfl⟩ : ∃ k, n = k + 1 := ⟨n - 1, by omega⟩
  have hP : (256 : Int) ^ (k + 1) = ((256 ^ k : Nat) : Int) * 256 := by
    rw [Int.pow_succ]; congr 1
  generalize hp : (256 ^ k : Nat) = P at hP
  have hPpos : 0 < P := by rw [← hp]; exact Nat.pow_pos (by decide)
  have hNat : 256 ^ (k + 1) = P * 256 := by rw [Nat.pow_succ, hp]
  unfold fromBytes
  simp only [Bool.true_and, toBytes_length, toBytes_head, beNat_toBytes, hp]
  rw [hP] at hlo hhi ⊢
  rw [hNat]
  by_cases hx : 0 ≤ x
  · have hm : (x % ((P : Int) * 256)).toNat = x.toNat := by
      rw [Int.emod_eq_of_lt hx (by omega)]
    rw [hm]
    have : x.toNat / P % 256 < 128 := by
      have : x.toNat < P * 128 := by omega
      have h3 : x.toNat / P < 128 := (Nat.div_lt_iff_lt_mul hPpos).mpr (by omega)
      exact Nat.lt_of_le_of_lt (Nat.mod_le _ _) h3
    simp only [decide_eq_true_eq]
    rw [if_neg (by omega)]
    have : x.toNat % (P * 256) = x.toNat := Nat.mod_eq_of_lt (by omega)
    omega
  · have hm : (x % ((P : Int) * 256)).toNat = (x + (P : Int) * 256).toNat := by
      congr 1
      rw [← Int.add_mul_emod_self_left x ((P : Int) * 256) 1]
      simp only [Int.mul_one]
      exact Int.emod_eq_of_lt (by omega) (by omega)
    rw [hm]
    generalize hy : (x + (P : Int) * 256).toNat = y
    have hy' : (y : Int) = x + (P : Int) * 256 := by rw [← hy]; omega
    have hyl : P * 128 ≤ y := by omega
    have hyh : y < P * 256 := by omega
    have h1 : 128 ≤ y / P := (Nat.le_div_iff_mul_le hPpos).mpr (by omega)
    have h2 : y / P < 256 := (Nat.div_lt_iff_lt_mul hPpos).mpr (by omega)
    simp only [decide_eq_true_eq]
    rw [if_pos (by omega)]
    have : y % (P * 256) = y := Nat.mod_eq_of_lt hyh
    omega

/-- a row of the transcribed table without its provenance mark -/
def unpin (r : Row) : Row := { r with pinned := false }

def bankCore (b : Bank) : BankRow :=
  { key := b.key, address := b.address, lastAddress := b.lastAddress, hasLock := b.hasLock,
    hasLatch := b.hasLatch }

/-- all location addresses of the values registered in bank `k` -/
def bankAddrs (vals : List MemValue) (k : String) : List Nat :=
  (vals.filter (·.bank == k)).flatMap fun v => v.locs.map (·.addr)

/-- `bank.locations` lists exactly the locations of the values of the bank -/
def occupiedOK (vals : List MemValue) (b : Bank) : Bool :=
  b.occupied.all (fun p => vals.any fun v => v.bank == b.key && v.name == p.2 && v.locs.any (·.addr == p.1)) &&
  (bankAddrs vals b.key).all (fun a => b.occupied.any (·.1 == a)) &&
  b.occupied.length == (bankAddrs vals b.key).length

def lockableOK (banks : List Bank) (v : MemValue) : Bool :=
  !(v.locs.any (·.type == .NVM_RW_L)) || banks.any (fun b => b.key == v.bank && b.hasLock)

end DaliVerif.Mem
