import DaliVerif.Proofs.WireEnc2
/-! C18: the receive loop of hid.tridonic `_send_raw` (`Tridonic.collect`) against the gateway's report protocol -/
namespace DaliVerif.Proofs.WireEnc2
open DaliVerif Wire Spec.Gateways Proofs.WireEnc Gen.DriverConsts

/-- a report that answers the command: backward frame, framing error or "no frame" -/
def isResp : Meaning → Bool
  | .backward _ => true
  | .backwardError _ => true
  | .noAnswer => true
  | _ => false

theorem tridonicMeaning_cases (p : List Nat) :
    tridonicMeaning p = .ack ∨ tridonicMeaning p = .none ∨ (isResp (tridonicMeaning p) = true) := by
  unfold tridonicMeaning
  simp only
  split
  · exact Or.inl rfl
  · split
    · exact Or.inr (Or.inr rfl)
    · split
      · exact Or.inr (Or.inr rfl)
      · split
        · exact Or.inr (Or.inr rfl)
        · exact Or.inr (Or.inl rfl)

theorem collect_resp (q : Bool) (o : Int) (resp : Option Meaning) (m : List Nat) (ms : List (List Nat))
    (hc : (o != 0 || resp.isNone) = true) (hr : isResp (Tridonic.decode m) = true) :
    Tridonic.collect q o resp (m :: ms) = Tridonic.collect q o (some (Tridonic.decode m)) ms := by
  rw [Tridonic.collect]
  simp only [hc, if_true]
  cases hd : Tridonic.decode m <;> simp_all [isResp]

theorem collect_spec (q : Bool) : ∀ (msgs : List (List Nat)) (n : Nat) (resp : Option Meaning) (r : Meaning),
    (∀ m ∈ msgs, tridonicWellFormed m) →
    (msgs.map tridonicMeaning).count .ack = n →
    ((resp = some r ∧ (msgs.map tridonicMeaning).filter isResp = []) ∨
     (resp = none ∧ (msgs.map tridonicMeaning).filter isResp = [r])) →
    Tridonic.collect q (n : Int) resp msgs = some (if q then r else .none) := by
  intro msgs
  induction msgs with
  | nil =>
    intro n resp r _ hn hr
    simp at hn; subst hn
    rcases hr with ⟨rfl, _⟩ | ⟨_, h⟩
    · simp [Tridonic.collect]
    · simp at h
  | cons m ms ih =>
    intro n resp r hwf hn hr
    have hwm := hwf m (by simp)
    have hwms : ∀ x ∈ ms, tridonicWellFormed x := fun x hx => hwf x (by simp [hx])
    have hdec := tridonic_decode_wf m hwm
    by_cases hc : ((n : Int) != 0 || resp.isNone) = true
    · rcases tridonicMeaning_cases m with ha | hno | hre
      · -- acknowledgement
        have hn' : (ms.map tridonicMeaning).count .ack + 1 = n := by
          simpa [List.count_cons, ha] using hn
        have hr' : ((resp = some r ∧ (ms.map tridonicMeaning).filter isResp = []) ∨
            (resp = none ∧ (ms.map tridonicMeaning).filter isResp = [r])) := by
          simpa [List.filter_cons, ha, isResp] using hr
        have := ih ((ms.map tridonicMeaning).count .ack) resp r hwms rfl hr'
        rw [Tridonic.collect]
        simp only [hc, if_true, hdec, ha]
        have e : (n : Int) - 1 = (((ms.map tridonicMeaning).count .ack : Nat) : Int) := by omega
        rw [e]; exact this
      · have hn' : (ms.map tridonicMeaning).count .ack = n := by
          simpa [List.count_cons, hno] using hn
        have hr' : ((resp = some r ∧ (ms.map tridonicMeaning).filter isResp = []) ∨
            (resp = none ∧ (ms.map tridonicMeaning).filter isResp = [r])) := by
          simpa [List.filter_cons, hno, isResp] using hr
        have := ih n resp r hwms hn' hr'
        rw [Tridonic.collect]
        simp only [hc, if_true, hdec, hno]
        exact this
      · have hn' : (ms.map tridonicMeaning).count .ack = n := by
          have : tridonicMeaning m ≠ .ack := by intro h; rw [h] at hre; simp [isResp] at hre
          simpa [List.count_cons, this] using hn
        have hr' : resp = none ∧ tridonicMeaning m = r ∧ (ms.map tridonicMeaning).filter isResp = [] := by
          rcases hr with ⟨_, h⟩ | ⟨h0, h⟩
          · simp only [List.map_cons, List.filter_cons, hre, if_true] at h; cases h
          · simp only [List.map_cons, List.filter_cons, hre, if_true] at h
            injection h with h1 h2; exact ⟨h0, h1, h2⟩
        rw [collect_resp q _ resp m ms hc (by rw [hdec]; exact hre), hdec, hr'.2.1]
        exact ih n (some r) r hwms hn' (Or.inl ⟨rfl, hr'.2.2⟩)
    · -- the loop has everything it waits for and stops
      have hc' : ((n : Int) != 0 || resp.isNone) = false := by
        cases hh : ((n : Int) != 0 || resp.isNone) with
        | true => exact absurd hh hc
        | false => rfl
      rw [Tridonic.collect]
      simp only [hc', Bool.false_eq_true, if_false]
      rcases hr with ⟨rfl, _⟩ | ⟨h0, _⟩
      · simp
      · subst h0; simp at hc'

theorem collect_waits (q : Bool) : ∀ (msgs : List (List Nat)) (o : Int) (resp : Option Meaning),
    (∀ m ∈ msgs, tridonicWellFormed m) →
    ((((msgs.map tridonicMeaning).count .ack : Nat) : Int) < o ∨ o < 0 ∨
      (resp = none ∧ (msgs.map tridonicMeaning).filter isResp = [])) →
    Tridonic.collect q o resp msgs = none := by
  intro msgs
  induction msgs with
  | nil =>
    intro o resp _ h
    have hc : (o != 0 || resp.isNone) = true := by
      rcases h with h | h | ⟨h, _⟩
      · have : o ≠ 0 := by simp at h; omega
        simp [this]
      · have : o ≠ 0 := by omega
        simp [this]
      · simp [h]
    rw [Tridonic.collect]; simp only [hc, if_true]
  | cons m ms ih =>
    intro o resp hwf h
    have hwm := hwf m (by simp)
    have hwms : ∀ x ∈ ms, tridonicWellFormed x := fun x hx => hwf x (by simp [hx])
    have hdec := tridonic_decode_wf m hwm
    have hc : (o != 0 || resp.isNone) = true := by
      rcases h with h | h | ⟨h, _⟩
      · have : o ≠ 0 := by omega
        simp [this]
      · have : o ≠ 0 := by omega
        simp [this]
      · simp [h]
    rcases tridonicMeaning_cases m with ha | hno | hre
    · rw [Tridonic.collect]
      simp only [hc, if_true, hdec, ha]
      apply ih _ _ hwms
      rcases h with h | h | ⟨h0, h⟩
      · left; simp only [List.map_cons, ha, List.count_cons_self] at h; omega
      · right; left; omega
      · right; right; exact ⟨h0, by simpa [List.filter_cons, ha, isResp] using h⟩
    · rw [Tridonic.collect]
      simp only [hc, if_true, hdec, hno]
      apply ih _ _ hwms
      rcases h with h | h | ⟨h0, h⟩
      · left; simpa [List.count_cons, hno] using h
      · right; left; exact h
      · right; right; exact ⟨h0, by simpa [List.filter_cons, hno, isResp] using h⟩
    · rw [collect_resp q _ resp m ms hc (by rw [hdec]; exact hre)]
      apply ih _ _ hwms
      have hna : tridonicMeaning m ≠ .ack := by intro h; rw [h] at hre; simp [isResp] at hre
      rcases h with h | h | ⟨h0, h⟩
      · left; simpa [List.count_cons, hna] using h
      · right; left; exact h
      · simp only [List.map_cons, List.filter_cons, hre, if_true] at h; cases h

end DaliVerif.Proofs.WireEnc2
