import DaliVerif.Model.EventI
import DaliVerif.Model.Decode
import DaliVerif.Proofs.AddressI
/-!
# The integer-level forms of the event constructor equal the model's frame assembly
-/
namespace DaliVerif.EventI
open DaliVerif DaliVerif.Frame DaliVerif.Cmd DaliVerif.AddressI

/-- `k` (on integers) continues like `K` (on frames) for 24-bit frames -/
def Cont (k : Int → Except PyErr Int) (K : Frame → PyRes Frame) : Prop :=
  ∀ d : Nat, k d = dataOf (K ⟨24, d⟩)

theorem cont_done : Cont done (fun f => .ok f) := fun _ => rfl

/-- a slice write with literal bounds on a 24-bit frame, in both worlds -/
theorem sliceWrite (hi lo w keep : Nat) (d : Nat) (v : Int)
    (hlit : ∀ (d : Nat) (v : Int), FrameI.setSlice 24 d hi lo v = fits v w (.ok (24, put d keep v lo)))
    (k : Int → Except PyErr Int) (K : Frame → PyRes Frame) (hk : Cont k K) :
    fits v w (k (put d keep v lo)) = dataOf ((Cmd.setSlice ⟨24, d⟩ hi lo v).bind K) := by
  unfold Cmd.setSlice natVal
  rw [FrameI.setSlice_model]
  rw [show (((24 : Nat) : Int)) = (24 : Int) from rfl, hlit]
  unfold fits
  by_cases h1 : (bitLength v : Int) > w
  · simp [h1, dataOf, Except.map, Except.bind]
  · by_cases h2 : v < 0
    · simp [h1, h2, dataOf, Except.map, Except.bind]
    · obtain ⟨n, rfl⟩ : ∃ n : Nat, v = n := ⟨v.toNat, by omega⟩
      rw [if_neg h1, if_neg h2, if_neg h1, if_neg h2, put_ofNat, hk]
      simp [Except.map, Except.bind, FrameI.toFrame]

theorem lit1410 (d : Nat) (v : Int) :
    FrameI.setSlice 24 d 14 10 v = fits v 5 (.ok (24, put d 16745471 v 10)) := by
  have k : pyXor (pyShl 1 24 - 1) (pyShl (pyShl 1 (14 + 1 - 10) - 1) 10) = 16745471 := by decide
  have hhi : FrameI.hi 14 10 = 14 := by decide
  have hlo : FrameI.lo 14 10 = 10 := by decide
  have hc : FrameI.sliceCheck 24 14 10 = none := by decide
  unfold FrameI.setSlice fits put
  simp only [hc, hhi, hlo, k]
  rfl

theorem lit2117 (d : Nat) (v : Int) :
    FrameI.setSlice 24 d 21 17 v = fits v 5 (.ok (24, put d 12713983 v 17)) := by
  have k : pyXor (pyShl 1 24 - 1) (pyShl (pyShl 1 (21 + 1 - 17) - 1) 17) = 12713983 := by decide
  have hhi : FrameI.hi 21 17 = 21 := by decide
  have hlo : FrameI.lo 21 17 = 17 := by decide
  have hc : FrameI.sliceCheck 24 21 17 = none := by decide
  unfold FrameI.setSlice fits put
  simp only [hc, hhi, hlo, k]
  rfl

theorem lit90 (d : Nat) (v : Int) :
    FrameI.setSlice 24 d 9 0 v = fits v 10 (.ok (24, put d 16776192 v 0)) := by
  have k : pyXor (pyShl 1 24 - 1) (pyShl (pyShl 1 (9 + 1 - 0) - 1) 0) = 16776192 := by decide
  have hhi : FrameI.hi 9 0 = 9 := by decide
  have hlo : FrameI.lo 9 0 = 0 := by decide
  have hc : FrameI.sliceCheck 24 9 0 = none := by decide
  unfold FrameI.setSlice fits put
  simp only [hc, hhi, hlo, k]
  rfl

theorem put1410_model (d : Nat) (v : Int) (k) (K) (hk : Cont k K) :
    put1410 d v k = dataOf ((Cmd.setSlice ⟨24, d⟩ 14 10 v).bind K) :=
  sliceWrite 14 10 5 16745471 d v lit1410 k K hk
theorem put2117_model (d : Nat) (v : Int) (k) (K) (hk : Cont k K) :
    put2117 d v k = dataOf ((Cmd.setSlice ⟨24, d⟩ 21 17 v).bind K) :=
  sliceWrite 21 17 5 12713983 d v lit2117 k K hk
theorem put90_model (d : Nat) (v : Int) (k) (K) (hk : Cont k K) :
    put90 d v k = dataOf ((Cmd.setSlice ⟨24, d⟩ 9 0 v).bind K) :=
  sliceWrite 9 0 10 16776192 d v lit90 k K hk

/-- a bit write with a literal position on a 24-bit frame -/
theorem bitClear (pos keep : Nat) (hp : pos < 24) (hlit : mask 24 ^^^ (1 <<< pos) = keep) (d : Nat) :
    Cmd.setBit ⟨24, d⟩ pos false = .ok ⟨24, d &&& keep⟩ := by
  have h : ((pos : Nat) : Int) < 24 := by omega
  simp [Cmd.setBit, natVal, Frame.setItem, PyVal.asInt?, h, PyVal.truthy, setBitRaw, hlit]

theorem bitSet (pos bit : Nat) (hp : pos < 24) (hlit : 1 <<< pos = bit) (d : Nat) :
    Cmd.setBit ⟨24, d⟩ pos true = .ok ⟨24, d ||| bit⟩ := by
  have h : ((pos : Nat) : Int) < 24 := by omega
  simp [Cmd.setBit, natVal, Frame.setItem, PyVal.asInt?, h, PyVal.truthy, setBitRaw, hlit]

theorem clr23_nat (d : Nat) : clr23 d = ((d &&& 8388607 : Nat) : Int) := by
  unfold clr23; rw [show (8388607 : Int) = ((8388607 : Nat) : Int) from rfl, pyAnd_ofNat]
theorem clr22_nat (d : Nat) : clr22 d = ((d &&& 12582911 : Nat) : Int) := by
  unfold clr22; rw [show (12582911 : Int) = ((12582911 : Nat) : Int) from rfl, pyAnd_ofNat]
theorem clr15_nat (d : Nat) : clr15 d = ((d &&& 16744447 : Nat) : Int) := by
  unfold clr15; rw [show (16744447 : Int) = ((16744447 : Nat) : Int) from rfl, pyAnd_ofNat]
theorem set23_nat (d : Nat) : set23 d = ((d ||| 8388608 : Nat) : Int) := by
  unfold set23; rw [show (8388608 : Int) = ((8388608 : Nat) : Int) from rfl, pyOr_ofNat]
theorem set22_nat (d : Nat) : set22 d = ((d ||| 4194304 : Nat) : Int) := by
  unfold set22; rw [show (4194304 : Int) = ((4194304 : Nat) : Int) from rfl, pyOr_ofNat]
theorem set15_nat (d : Nat) : set15 d = ((d ||| 32768 : Nat) : Int) := by
  unfold set15; rw [show (32768 : Int) = ((32768 : Nat) : Int) from rfl, pyOr_ofNat]

theorem start_model (info : Nat) (k) (K) (hk : Cont k K) :
    start info k = dataOf ((newFrame 24 info).bind K) := by
  unfold start newFrame natVal
  rw [FrameI.init_model]
  unfold FrameI.init
  have h0 : ¬ ((info : Int) < 0) := by omega
  have h1 : ¬ ((((24 : Nat) : Int)) < 1) := by decide
  rw [if_neg h0, if_neg h1, if_neg h0]
  by_cases hb : (bitLength (info : Int) : Int) > 24
  · have hb' : (bitLength (info : Int) : Int) > ((24 : Nat) : Int) := by simpa using hb
    rw [if_pos hb, if_pos hb']; rfl
  · have hb' : ¬ (bitLength (info : Int) : Int) > ((24 : Nat) : Int) := by simpa using hb
    rw [if_neg hb, if_neg hb', hk]
    simp [Except.map, Except.bind, FrameI.toFrame]


theorem bind_assoc' {α β γ} (x : Except PyErr α) (f : α → Except PyErr β) (g : β → Except PyErr γ) :
    (x.bind f).bind g = x.bind (fun a => (f a).bind g) := by
  cases x <;> rfl

theorem ok_bind {α β} (a : α) (f : α → Except PyErr β) : (Except.ok a : Except PyErr α).bind f = f a := rfl

/-- device group scheme -/
theorem deviceGroup_model (info : Nat) (itype : Int) (g : Nat) (k) (K) (hk : Cont k K) :
    EventI.deviceGroup info itype g k =
      dataOf ((newFrame 24 info).bind (fun f => (eventSrcToFrame f itype (.deviceGroup g)).bind K)) := by
  unfold EventI.deviceGroup
  apply start_model
  intro d
  have e : (eventSrcToFrame ⟨24, d⟩ itype (.deviceGroup g)).bind K =
      (Cmd.setSlice ⟨24, d⟩ 14 10 itype).bind (fun f => (Cmd.setSlice f 21 17 g).bind (fun f =>
        (Cmd.setBit f 23 true).bind (fun f => (Cmd.setBit f 22 false).bind (fun f =>
          (Cmd.setBit f 15 false).bind K)))) := by
    simp only [eventSrcToFrame, bind, bind_assoc']
  dsimp only
  rw [e]
  apply put1410_model
  intro d
  apply put2117_model
  intro d
  dsimp only
  rw [bitSet 23 8388608 (by decide) (by decide), ok_bind, bitClear 22 12582911 (by decide) (by decide), ok_bind,
    bitClear 15 16744447 (by decide) (by decide), ok_bind, set23_nat, clr22_nat, clr15_nat, hk]

/-- instance group scheme -/
theorem instanceGroup_model (info : Nat) (itype : Int) (g : Nat) (k) (K) (hk : Cont k K) :
    EventI.instanceGroup info itype g k =
      dataOf ((newFrame 24 info).bind (fun f => (eventSrcToFrame f itype (.instanceGroup g)).bind K)) := by
  unfold EventI.instanceGroup
  apply start_model
  intro d
  have e : (eventSrcToFrame ⟨24, d⟩ itype (.instanceGroup g)).bind K =
      (Cmd.setSlice ⟨24, d⟩ 14 10 itype).bind (fun f => (Cmd.setSlice f 21 17 g).bind (fun f =>
        (Cmd.setBit f 23 true).bind (fun f => (Cmd.setBit f 22 true).bind (fun f =>
          (Cmd.setBit f 15 false).bind K)))) := by
    simp only [eventSrcToFrame, bind, bind_assoc']
  dsimp only
  rw [e]
  apply put1410_model
  intro d
  apply put2117_model
  intro d
  dsimp only
  rw [bitSet 23 8388608 (by decide) (by decide), ok_bind, bitSet 22 4194304 (by decide) (by decide), ok_bind,
    bitClear 15 16744447 (by decide) (by decide), ok_bind, set23_nat, set22_nat, clr15_nat, hk]

/-- instance scheme -/
theorem inst_model (info : Nat) (itype : Int) (inum : Nat) (k) (K) (hk : Cont k K) :
    EventI.inst info itype inum k =
      dataOf ((newFrame 24 info).bind (fun f => (eventSrcToFrame f itype (.inst inum)).bind K)) := by
  unfold EventI.inst
  apply start_model
  intro d
  have e : (eventSrcToFrame ⟨24, d⟩ itype (.inst inum)).bind K =
      (Cmd.setSlice ⟨24, d⟩ 21 17 itype).bind (fun f => (Cmd.setSlice f 14 10 inum).bind (fun f =>
        (Cmd.setBit f 23 true).bind (fun f => (Cmd.setBit f 22 false).bind (fun f =>
          (Cmd.setBit f 15 true).bind K)))) := by
    simp only [eventSrcToFrame, bind, bind_assoc']
  dsimp only
  rw [e]
  apply put2117_model
  intro d
  apply put1410_model
  intro d
  dsimp only
  rw [bitSet 23 8388608 (by decide) (by decide), ok_bind, bitClear 22 12582911 (by decide) (by decide), ok_bind,
    bitSet 15 32768 (by decide) (by decide), ok_bind, set23_nat, clr22_nat, set15_nat, hk]

/-- the address step shared by the two schemes that carry a short address -/
theorem shortAddr_step (d sa : Nat) (k) (K) (hk : Cont k K) :
    (match AddressI.addDeviceShort (d : Int) (sa : Int) with
      | .error e => .error e
      | .ok d => k d) =
    dataOf ((Addr.mkDeviceShort (natVal sa)).bind (fun a => (a.addToFrame ⟨24, d⟩).bind K)) := by
  rw [addDeviceShort_model]
  unfold natVal
  cases hm : Addr.mkDeviceShort (.int (sa : Int)) with
  | error e => rfl
  | ok a =>
    simp only [Except.bind]
    cases hf : a.addToFrame ⟨24, d⟩ with
    | error e => rfl
    | ok f' =>
      have hb : f'.bits = 24 := by
        unfold Addr.addToFrame at hf
        split at hf
        · cases hf
        · cases hf; rfl
      obtain ⟨b', d'⟩ := f'
      simp only at hb
      subst hb
      simp only [dataOf, Except.map, Except.bind]
      exact hk d'

theorem device_model (info : Nat) (itype : Int) (sa : Nat) (k) (K) (hk : Cont k K) :
    EventI.device info itype sa k =
      dataOf ((newFrame 24 info).bind (fun f => (eventSrcToFrame f itype (.device sa)).bind K)) := by
  unfold EventI.device
  apply start_model
  intro d
  have e : (eventSrcToFrame ⟨24, d⟩ itype (.device sa)).bind K =
      (Cmd.setSlice ⟨24, d⟩ 14 10 itype).bind (fun f => (Cmd.setBit f 23 false).bind (fun f =>
        (Cmd.setBit f 15 false).bind (fun f => (Addr.mkDeviceShort (natVal sa)).bind (fun a =>
          (a.addToFrame f).bind K)))) := by
    simp only [eventSrcToFrame, bind, bind_assoc']
  dsimp only
  rw [e]
  apply put1410_model
  intro d
  dsimp only
  rw [bitClear 23 8388607 (by decide) (by decide), ok_bind, bitClear 15 16744447 (by decide) (by decide), ok_bind,
    clr23_nat, clr15_nat]
  exact shortAddr_step _ sa k K hk

theorem deviceInstance_model (info : Nat) (itype : Int) (sa inum : Nat) (k) (K) (hk : Cont k K) :
    EventI.deviceInstance info inum sa k =
      dataOf ((newFrame 24 info).bind (fun f => (eventSrcToFrame f itype (.deviceInstance sa inum)).bind K)) := by
  unfold EventI.deviceInstance
  apply start_model
  intro d
  have e : (eventSrcToFrame ⟨24, d⟩ itype (.deviceInstance sa inum)).bind K =
      (Cmd.setSlice ⟨24, d⟩ 14 10 inum).bind (fun f => (Cmd.setBit f 23 false).bind (fun f =>
        (Cmd.setBit f 15 true).bind (fun f => (Addr.mkDeviceShort (natVal sa)).bind (fun a =>
          (a.addToFrame f).bind K)))) := by
    simp only [eventSrcToFrame, bind, bind_assoc']
  dsimp only
  rw [e]
  apply put1410_model
  intro d
  dsimp only
  rw [bitClear 23 8388607 (by decide) (by decide), ok_bind, bitSet 15 32768 (by decide) (by decide), ok_bind,
    clr23_nat, set15_nat]
  exact shortAddr_step _ sa k K hk

/-- the illuminance write of the light-sensor event -/
theorem cont_light (v : Int) : Cont (EventI.light v) (fun f => Cmd.setSlice f 9 0 v) := by
  intro d
  unfold EventI.light
  have := put90_model d v done (fun f => .ok f) cont_done
  rw [this]
  dsimp only
  cases hx : Cmd.setSlice ⟨24, d⟩ 9 0 v <;> rfl

/-- one flag write of the occupancy event, on integers and on naturals -/
theorem occ_bit (data d m keep : Nat) :
    (if pyAnd (data : Int) (m : Int) = (m : Int) then pyOr (d : Int) (m : Int) else pyAnd (d : Int) (keep : Int)) =
      ((if (data &&& m == m) then d ||| m else d &&& keep : Nat) : Int) := by
  rw [pyAnd_ofNat, pyOr_ofNat, pyAnd_ofNat]
  by_cases h : data &&& m = m
  · have h' : ((data &&& m : Nat) : Int) = (m : Int) := by rw [h]
    simp [h]
  · have h' : ¬ ((data &&& m : Nat) : Int) = (m : Int) := by omega
    simp [h, h']

theorem bitWrite (pos bit keep : Nat) (hp : pos < 24) (hb : 1 <<< pos = bit) (hk : mask 24 ^^^ (1 <<< pos) = keep)
    (b : Bool) (d : Nat) :
    Cmd.setBit ⟨24, d⟩ pos b = .ok ⟨24, if b then d ||| bit else d &&& keep⟩ := by
  cases b
  · simpa using bitClear pos keep hp hk d
  · simpa using bitSet pos bit hp hb d

/-- the last flag is written as the integer 1 or 0 (`1 if sensor_type == "movement" else 0`) -/
theorem bitWriteInt (pos bit keep : Nat) (hp : pos < 24) (hb : 1 <<< pos = bit) (hk : mask 24 ^^^ (1 <<< pos) = keep)
    (b : Bool) (d : Nat) :
    Frame.setItem ⟨24, d⟩ (.idx (natVal pos)) (.int (if b then 1 else 0)) =
      .ok ⟨24, if b then d ||| bit else d &&& keep⟩ := by
  have h : ((pos : Nat) : Int) < 24 := by omega
  have h0 : ¬ (((pos : Nat) : Int) < 0) := by omega
  subst hb hk
  cases b <;> simp [natVal, Frame.setItem, PyVal.asInt?, h, h0, PyVal.truthy, setBitRaw]

/-- the model's four flag writes of the occupancy event -/
def occK (mv oc rp sm : Bool) (f : Frame) : PyRes Frame :=
  (Cmd.setBit f 0 mv).bind (fun f => (Cmd.setBit f 1 oc).bind (fun f => (Cmd.setBit f 2 rp).bind (fun f =>
    f.setItem (.idx (natVal 3)) (.int (if sm then 1 else 0)))))

theorem cont_occ (data : Nat) :
    Cont (EventI.occ data) (occK (data &&& 1 == 1) (data &&& 2 == 2) (data &&& 4 == 4) (data &&& 8 == 8)) := by
  intro d
  unfold EventI.occ occK
  rw [bitWrite 0 1 16777214 (by decide) (by decide) (by decide), ok_bind,
    bitWrite 1 2 16777213 (by decide) (by decide) (by decide), ok_bind,
    bitWrite 2 4 16777211 (by decide) (by decide) (by decide), ok_bind,
    bitWriteInt 3 8 16777207 (by decide) (by decide) (by decide)]
  dsimp only
  have e1 : ∀ d : Nat, (if pyAnd (data : Int) 1 = 1 then pyOr (d : Int) 1 else pyAnd (d : Int) 16777214) =
      ((if (data &&& 1 == 1) then d ||| 1 else d &&& 16777214 : Nat) : Int) := fun d => occ_bit data d 1 16777214
  have e2 : ∀ d : Nat, (if pyAnd (data : Int) 2 = 2 then pyOr (d : Int) 2 else pyAnd (d : Int) 16777213) =
      ((if (data &&& 2 == 2) then d ||| 2 else d &&& 16777213 : Nat) : Int) := fun d => occ_bit data d 2 16777213
  have e3 : ∀ d : Nat, (if pyAnd (data : Int) 4 = 4 then pyOr (d : Int) 4 else pyAnd (d : Int) 16777211) =
      ((if (data &&& 4 == 4) then d ||| 4 else d &&& 16777211 : Nat) : Int) := fun d => occ_bit data d 4 16777211
  have e4 : ∀ d : Nat, (if pyAnd (data : Int) 8 = 8 then pyOr (d : Int) 8 else pyAnd (d : Int) 16777207) =
      ((if (data &&& 8 == 8) then d ||| 8 else d &&& 16777207 : Nat) : Int) := fun d => occ_bit data d 8 16777207
  rw [e1, e2, e3, e4]
  rfl

end DaliVerif.EventI
