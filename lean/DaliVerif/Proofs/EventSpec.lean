import DaliVerif.Proofs.DecodeEvent
import DaliVerif.Spec.EventSpec
/-!
# C12 helper: decoded events against Table 3 and the part-3xx meanings
-/
set_option linter.unusedSimpArgs false
namespace DaliVerif.Cmd
open Frame Spec

theorem lookup_map {α β γ} [BEq α] (l : List (α × β)) (g : β → γ) (k : α) :
    lookup (l.map (fun e => (e.1, g e.2))) k = (lookup l k).map g := by
  unfold lookup
  induction l with
  | nil => rfl
  | cons x xs ih =>
    simp only [List.map_cons, List.find?_cons]
    cases h : x.1 == k <;> simp [h] at ih ⊢
    exact ih


theorem occ_iff (x : Nat) (hx : x < 1024) : (x ||| 0b1111 != 0b1111) = false ↔ x < 16 :=
  ⟨occ_lt ⟨x, hx⟩, fun h => occ_ge ⟨x, h⟩⟩

/-- the event class chosen for a resolved instance type reports that type and
the meaning parts 301/303/304 give to the ten information bits -/
theorem eventOfType_obs (T : Tables) (hE : EventTablesOK T) (t : Int) (src : EventSrc)
    (data : Nat) (hd : data < 1024) :
    observe (eventOfType T t src data) = some (obsOfSrc (some t) (eventMeaning t data) src) := by
  obtain ⟨hI, hP⟩ := hE
  have hunk : ∀ mng, mng = EventMeaning.unknown data →
      observe (.unknownEvent t src data) = some (obsOfSrc (some t) mng src) := by
    intro mng h; rw [h]; rfl
  unfold eventOfType
  simp only []
  split
  · rename_i hneg
    apply hunk
    have h1 : ¬ t = 1 := by omega
    have h3 : ¬ t = 3 := by omega
    have h4 : ¬ t = 4 := by omega
    simp [eventMeaning, h1, h3, h4]
  · rename_i hneg
    have h0 : 0 ≤ t := by omega
    have hcast : ((t.toNat : Nat) : Int) = t := by omega
    have hk := lookup_map T.instanceTypes (fun e => e.kind) t.toNat
    rw [hI] at hk
    split
    · rename_i hl
      rw [hl] at hk
      apply hunk
      simp only [instanceTypeKinds, lookup, List.find?_cons, Option.map_none] at hk
      have h1 : ¬ t = 1 := by
        intro e; subst e; simp at hk
      have h3 : ¬ t = 3 := by
        intro e; subst e; simp at hk
      have h4 : ¬ t = 4 := by
        intro e; subst e; simp at hk
      simp [eventMeaning, h1, h3, h4]
    · rename_i et hl
      rw [hl] at hk
      simp only [Option.map_some] at hk
      -- which of the three registered types
      have hcases : (t = 1 ∧ et.kind = .pushbutton) ∨ (t = 3 ∧ et.kind = .occupancy) ∨
          (t = 4 ∧ et.kind = .light) := by
        simp only [instanceTypeKinds, lookup, List.find?_cons] at hk
        by_cases e1 : (1 == t.toNat) = true
        · simp [e1] at hk; left; exact ⟨by simp at e1; omega, hk.symm⟩
        · simp only [e1] at hk
          by_cases e3 : (3 == t.toNat) = true
          · simp [e3] at hk; right; left; exact ⟨by simp at e3; omega, hk.symm⟩
          · simp only [e3] at hk
            by_cases e4 : (4 == t.toNat) = true
            · simp [e4] at hk; right; right; exact ⟨by simp at e4; omega, hk.symm⟩
            · simp [e4] at hk
      rcases hcases with ⟨ht, hkind⟩ | ⟨ht, hkind⟩ | ⟨ht, hkind⟩
      · subst ht
        simp only [hkind]
        have hp := lookup_map T.pushEvents (fun c => c.base) data
        rw [hP] at hp
        split
        · rename_i pc hlp
          rw [hlp] at hp
          simp only [Option.map_some, lookup] at hp
          simp only [observe, eventMeaning, if_true, Int.toNat_one]
          cases hf : pushbuttonNames.find? (fun e => e.1 == data) with
          | none => rw [hf] at hp; simp at hp
          | some e =>
            rw [hf] at hp; simp only [Option.map_some, Option.some.injEq] at hp
            simp only [hp]
            rfl
        · rename_i hlp
          rw [hlp] at hp
          simp only [Option.map_none, lookup] at hp
          apply hunk
          simp only [eventMeaning, if_true]
          cases hf : pushbuttonNames.find? (fun e => e.1 == data) with
          | none => rfl
          | some e => rw [hf] at hp; simp at hp
      · subst ht
        simp only [hkind]
        split
        · rename_i hocc
          apply hunk
          have : ¬ data < 16 := by
            intro h; have := (occ_iff data hd).mpr h; simp [this] at hocc
          simp [eventMeaning, this]
        · rename_i hocc
          have hx : data < 16 := (occ_iff data hd).mp (by simpa using hocc)
          obtain ⟨f0, f1, f2, f3⟩ := occ_flags ⟨data, hx⟩
          simp only at f0 f1 f2 f3
          simp only [observe, eventMeaning, hx, if_true, f0, f1, f2, f3]
          simp
      · subst ht
        simp only [hkind]
        simp [observe, eventMeaning]

/-- **`_Event.from_frame` against Table 3**: for every 24-bit frame and every
map, what the decoded object reports is exactly what the specification
derives from the frame (and `None` exactly for non-event frames). -/
theorem eventFromFrame_spec (T : Tables) (hE : EventTablesOK T) (d : Nat) (m : Option InstMap) :
    (eventFromFrame T ⟨24, d⟩ m).bind observe = expectedObs d m := by
  have hdata : d % 1024 < 1024 := Nat.mod_lt _ (by decide)
  unfold eventFromFrame expectedObs eventFields
  simp only [bit, bitTest_eq, slice, getSliceRaw_eq, Nat.reducePow, Nat.reduceAdd, Nat.reduceSub,
    Nat.div_one]
  by_cases h16 : d / 65536 % 2 = 1
  · simp [h16]
  · have h16' : d / 65536 % 2 = 0 := by omega
    by_cases h23 : d / 8388608 % 2 = 1 <;> by_cases h15 : d / 32768 % 2 = 1 <;>
      by_cases h22 : d / 4194304 % 2 = 1
    all_goals
      have e23 : d / 8388608 % 2 = 0 ∨ d / 8388608 % 2 = 1 := by omega
      have e15 : d / 32768 % 2 = 0 ∨ d / 32768 % 2 = 1 := by omega
      have e22 : d / 4194304 % 2 = 0 ∨ d / 4194304 % 2 = 1 := by omega
    -- 23=1 15=1 22=1 : reserved
    · simp [h16, h16', h23, h15, h22]
    -- 23=1 15=1 22=0 : instance
    · have : d / 4194304 % 2 = 0 := by omega
      simp [h16, h16', h23, h15, h22, this, eventOfType_obs T hE _ _ _ hdata, obsOfSrc]
    -- 23=1 15=0 22=1 : instance group
    · have : d / 32768 % 2 = 0 := by omega
      simp [h16, h16', h23, h15, h22, this, eventOfType_obs T hE _ _ _ hdata, obsOfSrc]
    -- 23=1 15=0 22=0 : device group
    · have a : d / 32768 % 2 = 0 := by omega
      have b : d / 4194304 % 2 = 0 := by omega
      simp [h16, h16', h23, h15, h22, a, b, eventOfType_obs T hE _ _ _ hdata, obsOfSrc]
    -- 23=0 15=1 : device/instance (either 22)
    · have a : d / 8388608 % 2 = 0 := by omega
      simp only [h16, h16', a, h15, h23]
      simp
      cases m with
      | none => simp [observe]
      | some mm =>
        cases hg : mm.getType (d / 131072 % 64) (d / 1024 % 32) with
        | none => simp [hg, observe]
        | some t => simp [hg, eventOfType_obs T hE _ _ _ hdata, obsOfSrc]
    · have a : d / 8388608 % 2 = 0 := by omega
      simp only [h16, h16', a, h15, h23]
      simp
      cases m with
      | none => simp [observe]
      | some mm =>
        cases hg : mm.getType (d / 131072 % 64) (d / 1024 % 32) with
        | none => simp [hg, observe]
        | some t => simp [hg, eventOfType_obs T hE _ _ _ hdata, obsOfSrc]
    -- 23=0 15=0 : device
    · have a : d / 8388608 % 2 = 0 := by omega
      have b : d / 32768 % 2 = 0 := by omega
      simp [h16, h16', a, b, h23, h15, eventOfType_obs T hE _ _ _ hdata, obsOfSrc]
    · have a : d / 8388608 % 2 = 0 := by omega
      have b : d / 32768 % 2 = 0 := by omega
      simp [h16, h16', a, b, h23, h15, eventOfType_obs T hE _ _ _ hdata, obsOfSrc]

end DaliVerif.Cmd
