import DaliVerif.Spec.Transactions
/-!
# C20 — the bus watcher against the declarative parser: helper lemmas

`BusWatch.run` (the state machine) is compared with `Spec.Transactions.parse`
(the whole history read with one item of look-ahead).  The lemmas here: what
one or two wake-ups do from a given state, `run` over an append, `run` ignoring
`Pkt.other`, and the three inductions over `parse` (`core`, `parse_frames`,
`parse_dtChain`).
-/
namespace DaliVerif.Proofs.WatchRefine
open DaliVerif.BusWatch DaliVerif.Answer DaliVerif.Spec.Transactions

theorem run_nil (dec : Decode) (s : WatchState) : run dec s [] = (s, []) := rfl

theorem run_cons (dec : Decode) (s : WatchState) (e : WatchEvent) (es : List WatchEvent) :
    run dec s (e :: es) =
      ((run dec (step dec s e).1 es).1, (step dec s e).2 ++ (run dec (step dec s e).1 es).2) := rfl

@[simp] theorem decode_info (dec : Decode) (f : Fwd) (d : Nat) :
    (decode dec f d).info = dec f d := rfl
@[simp] theorem decode_frame (dec : Decode) (f : Fwd) (d : Nat) :
    (decode dec f d).frame = f := rfl
@[simp] theorem decode_dt (dec : Decode) (f : Fwd) (d : Nat) :
    (decode dec f d).dt = d := rfl

theorem step_other (dec : Decode) (s : WatchState) : step dec s (.pkt .other) = (s, []) := rfl

/-- a forward frame that needs nothing more is reported at once -/
theorem step_fwd_plain (dec : Decode) (d : Nat) (f : Fwd)
    (h1 : (dec f d).twice = false) (h2 : (dec f d).resp.isSome = false) :
    step dec ⟨none, d⟩ (.pkt (.fwd f)) =
      (⟨none, dtAfter (decode dec f d)⟩, [⟨decode dec f d, none, false⟩]) := by
  simp [step, fresh, needsMore, decode, h1, h2]

theorem step_fwd_wait (dec : Decode) (d : Nat) (f : Fwd)
    (h : (dec f d).twice = true ∨ (dec f d).resp.isSome = true) :
    step dec ⟨none, d⟩ (.pkt (.fwd f)) =
      (⟨some (decode dec f d), dtAfter (decode dec f d)⟩, []) := by
  simp [step, fresh, needsMore, decode, h]

theorem step_idle_timeout (dec : Decode) (d : Nat) :
    step dec ⟨none, d⟩ .timeout = (⟨none, d⟩, []) := rfl

theorem step_idle_nonfwd (dec : Decode) (d : Nat) (p : Pkt) (h : ∀ f, p ≠ .fwd f) :
    step dec ⟨none, d⟩ (.pkt p) = (⟨none, d⟩, []) := by
  cases p <;> first | rfl | exact absurd rfl (h _)


/-! ### a command is pending -/

theorem step_twice_timeout (dec : Decode) (c : Cmd) (d : Nat) (h : c.info.twice = true) :
    step dec ⟨some c, d⟩ .timeout = (⟨none, d⟩, [⟨c, none, true⟩]) := by
  simp [step, h]

theorem step_twice_same (dec : Decode) (c : Cmd) (d : Nat) (g : Fwd) (h : c.info.twice = true)
    (hg : c.frame = g) :
    step dec ⟨some c, d⟩ (.pkt (.fwd g)) = (⟨none, d⟩, [⟨c, none, false⟩]) := by
  simp [step, h, hg]

theorem step_twice_diff (dec : Decode) (c : Cmd) (d : Nat) (g : Fwd) (h : c.info.twice = true)
    (hg : c.frame ≠ g) :
    step dec ⟨some c, d⟩ (.pkt (.fwd g)) =
      ((step dec ⟨none, d⟩ (.pkt (.fwd g))).1,
        ⟨c, none, true⟩ :: (step dec ⟨none, d⟩ (.pkt (.fwd g))).2) := by
  simp [step, h, hg]

theorem step_twice_nonfwd (dec : Decode) (c : Cmd) (d : Nat) (p : Pkt) (h : c.info.twice = true)
    (hp : ∀ f, p ≠ .fwd f) (ho : p ≠ .other) :
    step dec ⟨some c, d⟩ (.pkt p) = (⟨none, d⟩, [⟨c, none, true⟩]) := by
  cases p <;> first | exact absurd rfl (hp _) | exact absurd rfl ho | simp [step, h]

theorem step_query_timeout (dec : Decode) (c : Cmd) (d : Nat) (h : c.info.twice = false)
    (hr : c.info.resp.isSome = true) :
    step dec ⟨some c, d⟩ .timeout = (⟨none, d⟩, [⟨c, some .silent, false⟩]) := by
  simp [step, h, hr]

theorem step_query_fwd (dec : Decode) (c : Cmd) (d : Nat) (g : Fwd) (h : c.info.twice = false)
    (hr : c.info.resp.isSome = true) :
    step dec ⟨some c, d⟩ (.pkt (.fwd g)) =
      ((step dec ⟨none, d⟩ (.pkt (.fwd g))).1,
        ⟨c, some .silent, false⟩ :: (step dec ⟨none, d⟩ (.pkt (.fwd g))).2) := by
  simp [step, h, hr]

theorem step_query_back (dec : Decode) (c : Cmd) (d : Nat) (b : Nat) (h : c.info.twice = false)
    (hr : c.info.resp.isSome = true) :
    step dec ⟨some c, d⟩ (.pkt (.back b)) = (⟨none, d⟩, [⟨c, some (.value b), false⟩]) := by
  simp [step, h, hr]

theorem step_query_backErr (dec : Decode) (c : Cmd) (d : Nat) (h : c.info.twice = false)
    (hr : c.info.resp.isSome = true) :
    step dec ⟨some c, d⟩ (.pkt .backErr) = (⟨none, d⟩, [⟨c, some (.framing 255), false⟩]) := by
  simp [step, h, hr]

theorem step_query_noFrame (dec : Decode) (c : Cmd) (d : Nat) (h : c.info.twice = false)
    (hr : c.info.resp.isSome = true) :
    step dec ⟨some c, d⟩ (.pkt .noFrame) = (⟨none, d⟩, [⟨c, some .silent, false⟩]) := by
  simp [step, h, hr]

/-- a pending command closed by a forward frame it does not consume: the
frame is then processed as if nothing had been pending -/
theorem run_defer (dec : Decode) (c : Cmd) (d : Nat) (g : Fwd) (rep : Report)
    (es : List WatchEvent)
    (h : step dec ⟨some c, d⟩ (.pkt (.fwd g)) =
      ((step dec ⟨none, d⟩ (.pkt (.fwd g))).1, rep :: (step dec ⟨none, d⟩ (.pkt (.fwd g))).2)) :
    run dec ⟨some c, d⟩ (.pkt (.fwd g) :: es) =
      ((run dec ⟨none, d⟩ (.pkt (.fwd g) :: es)).1,
        rep :: (run dec ⟨none, d⟩ (.pkt (.fwd g) :: es)).2) := by
  simp [run_cons, h]


/-! ### two wake-ups at a time, from the idle state -/

theorem run_plain (dec : Decode) (d : Nat) (f : Fwd) (es : List WatchEvent)
    (h1 : (dec f d).twice = false) (h2 : (dec f d).resp.isSome = false) :
    run dec ⟨none, d⟩ (.pkt (.fwd f) :: es) =
      ((run dec ⟨none, dtAfter (decode dec f d)⟩ es).1,
        ⟨decode dec f d, none, false⟩ :: (run dec ⟨none, dtAfter (decode dec f d)⟩ es).2) := by
  simp [run_cons, step_fwd_plain dec d f h1 h2]

theorem run_wait (dec : Decode) (d : Nat) (f : Fwd) (es : List WatchEvent)
    (h : (dec f d).twice = true ∨ (dec f d).resp.isSome = true) :
    run dec ⟨none, d⟩ (.pkt (.fwd f) :: es) =
      run dec ⟨some (decode dec f d), dtAfter (decode dec f d)⟩ es := by
  simp [run_cons, step_fwd_wait dec d f h]

theorem run_idle_timeout (dec : Decode) (d : Nat) (es : List WatchEvent) :
    run dec ⟨none, d⟩ (.timeout :: es) = run dec ⟨none, d⟩ es := by
  simp [run_cons, step_idle_timeout]

theorem run_idle_nonfwd (dec : Decode) (d : Nat) (p : Pkt) (es : List WatchEvent)
    (h : ∀ f, p ≠ .fwd f) :
    run dec ⟨none, d⟩ (.pkt p :: es) = run dec ⟨none, d⟩ es := by
  simp [run_cons, step_idle_nonfwd dec d p h]

/-- a pending command closed by one wake-up that is consumed -/
theorem run_close (dec : Decode) (c : Cmd) (d : Nat) (e : WatchEvent) (rep : Report)
    (es : List WatchEvent) (h : step dec ⟨some c, d⟩ e = (⟨none, d⟩, [rep])) :
    run dec ⟨some c, d⟩ (e :: es) =
      ((run dec ⟨none, d⟩ es).1, rep :: (run dec ⟨none, d⟩ es).2) := by
  simp [run_cons, h]

theorem parse_plain (dec : Decode) (dt : Nat) (f : Fwd) (r : List Item)
    (h1 : (dec f dt).twice = false) (h2 : (dec f dt).resp.isSome = false) :
    parse dec dt (.pkt (.fwd f) :: r) =
      .plain (decode dec f dt) :: parse dec (dtAfter (decode dec f dt)) r := by
  rw [parse.eq_def]
  simp [h1, h2]

theorem parse_stray (dec : Decode) (dt : Nat) (p : Pkt) (r : List Item) (hp : ∀ f, p ≠ .fwd f) :
    parse dec dt (.pkt p :: r) = .stray p :: parse dec dt r := by
  rw [parse.eq_def]
  cases p <;> first | exact absurd rfl (hp _) | simp

def NoOther (l : List Item) : Prop := ∀ i ∈ l, isOther i = false

theorem NoOther.tail {i : Item} {l : List Item} (h : NoOther (i :: l)) : NoOther l :=
  fun j hj => h j (List.mem_cons_of_mem _ hj)

theorem NoOther.head {i : Item} {l : List Item} (h : NoOther (i :: l)) : isOther i = false :=
  h i (List.mem_cons_self ..)

theorem core (dec : Decode) (dt : Nat) (l : List Item) :
    NoOther l →
    (run dec ⟨none, dt⟩ (events l)).2 = (parse dec dt l).filterMap reportOf := by
  induction dt, l using parse.induct dec with
  | case1 dt => intro _; simp [parse, events, run_nil]
  | case2 dt r ih =>
    intro hno
    rw [parse] <;> first | assumption | (intros; contradiction) | skip
    simp only [events, run_cons, step_idle_timeout, List.nil_append]
    exact ih hno.tail
  | case3 dt f c h =>
    intro _
    have h' : (dec f dt).twice = true := h
    rw [parse] <;> first | assumption | (intros; contradiction) | skip
    simp [events, run_wait dec dt f _ (Or.inl h'), run_nil, reportOf, h']
  | case4 dt f c h r' ih =>
    intro hno
    have h' : (dec f dt).twice = true := h
    rw [parse] <;> first | assumption | (intros; contradiction) | skip
    simp only [events]
    rw [run_wait dec dt f _ (Or.inl h'), run_close _ _ _ _ _ _ (step_twice_timeout dec _ _ h')]
    simp [reportOf, h']
    exact ih hno.tail.tail
  | case5 dt g r' c h ih =>
    intro hno
    have h' : (dec g dt).twice = true := h
    rw [parse] <;> first | assumption | (intros; contradiction) | skip
    simp only [events]
    rw [run_wait dec dt g _ (Or.inl h'), run_close _ _ _ _ _ _ (step_twice_same dec _ _ g h' rfl)]
    simp [reportOf, h']
    exact ih hno.tail.tail
  | case6 dt f c h g r' hg ih =>
    intro hno
    have h' : (dec f dt).twice = true := h
    have hg' : (decode dec f dt).frame ≠ g := fun e => hg e.symm
    rw [parse] <;> first | assumption | (intros; contradiction) | skip
    simp only [events]
    rw [run_wait dec dt f _ (Or.inl h'), run_defer _ _ _ _ _ _ (step_twice_diff dec _ _ g h' hg')]
    simp [reportOf, h', hg]
    exact ih hno.tail
  | case7 dt f c h r' ih =>
    intro hno
    have h' : (dec f dt).twice = true := h
    rw [parse] <;> first | assumption | (intros; contradiction) | skip
    simp only [events]
    rw [run_wait dec dt f _ (Or.inl h'),
      run_close _ _ _ _ _ _ (step_twice_nonfwd dec _ _ .noFrame h' (by simp) (by simp))]
    simp [reportOf, h']
    exact ih hno.tail.tail
  | case8 dt f c h p r' hp1 hp2 ih =>
    intro hno
    have h' : (dec f dt).twice = true := h
    have ho : p ≠ .other := by
      intro e; subst e; exact absurd hno.tail.head (by simp [isOther])
    rw [parse] <;> first | assumption | (intros; contradiction) | skip
    simp only [events]
    rw [run_wait dec dt f _ (Or.inl h'),
      run_close _ _ _ _ _ _ (step_twice_nonfwd dec _ _ p h' (fun g e => hp1 g e) ho)]
    simp [reportOf, h']
    exact ih hno.tail.tail
  | case9 dt f c h hr =>
    intro _
    have h' : (dec f dt).twice = false := Bool.eq_false_iff.mpr h
    have hr' : (dec f dt).resp.isSome = true := hr
    rw [parse] <;> first | assumption | (intros; contradiction) | skip
    simp [events, run_wait dec dt f _ (Or.inr hr'), run_nil, reportOf, h', hr']
  | case10 dt f c h hr r' ih =>
    intro hno
    have h' : (dec f dt).twice = false := Bool.eq_false_iff.mpr h
    have hr' : (dec f dt).resp.isSome = true := hr
    rw [parse] <;> first | assumption | (intros; contradiction) | skip
    simp only [events]
    rw [run_wait dec dt f _ (Or.inr hr'),
      run_close _ _ _ _ _ _ (step_query_timeout dec _ _ h' hr')]
    simp [reportOf, h', hr']
    exact ih hno.tail.tail
  | case11 dt f c h hr g r' ih =>
    intro hno
    have h' : (dec f dt).twice = false := Bool.eq_false_iff.mpr h
    have hr' : (dec f dt).resp.isSome = true := hr
    rw [parse] <;> first | assumption | (intros; contradiction) | skip
    simp only [events]
    rw [run_wait dec dt f _ (Or.inr hr'),
      run_defer _ _ _ _ _ _ (step_query_fwd dec _ _ g h' hr')]
    simp [reportOf, h', hr']
    exact ih hno.tail
  | case12 dt f c h hr b r' ih =>
    intro hno
    have h' : (dec f dt).twice = false := Bool.eq_false_iff.mpr h
    have hr' : (dec f dt).resp.isSome = true := hr
    rw [parse] <;> first | assumption | (intros; contradiction) | skip
    simp only [events]
    rw [run_wait dec dt f _ (Or.inr hr'),
      run_close _ _ _ _ _ _ (step_query_back dec _ _ b h' hr')]
    simp [reportOf, h', hr']
    exact ih hno.tail.tail
  | case13 dt f c h hr r' ih =>
    intro hno
    have h' : (dec f dt).twice = false := Bool.eq_false_iff.mpr h
    have hr' : (dec f dt).resp.isSome = true := hr
    rw [parse] <;> first | assumption | (intros; contradiction) | skip
    simp only [events]
    rw [run_wait dec dt f _ (Or.inr hr'),
      run_close _ _ _ _ _ _ (step_query_backErr dec _ _ h' hr')]
    simp [reportOf, h', hr']
    exact ih hno.tail.tail
  | case14 dt f c h hr p r' hp1 hp2 hp3 ih =>
    intro hno
    have h' : (dec f dt).twice = false := Bool.eq_false_iff.mpr h
    have hr' : (dec f dt).resp.isSome = true := hr
    have hp : p = .noFrame := by
      cases p with
      | fwd g => exact absurd rfl (hp1 g)
      | back b => exact absurd rfl (hp2 b)
      | backErr => exact absurd rfl hp3
      | noFrame => rfl
      | other => exact absurd hno.tail.head (by simp [isOther])
    subst hp
    rw [parse] <;> first | assumption | (intros; contradiction) | skip
    simp only [events]
    rw [run_wait dec dt f _ (Or.inr hr'),
      run_close _ _ _ _ _ _ (step_query_noFrame dec _ _ h' hr')]
    simp [reportOf, h', hr']
    exact ih hno.tail.tail
  | case15 dt f r c h hr ih =>
    intro hno
    have h' : (dec f dt).twice = false := Bool.eq_false_iff.mpr h
    have hr' : (dec f dt).resp.isSome = false := Bool.eq_false_iff.mpr hr
    rw [parse_plain dec dt f r h' hr']
    simp only [events]
    rw [run_plain dec dt f _ h' hr']
    simp [reportOf]
    exact ih hno.tail
  | case16 dt p r hp ih =>
    intro hno
    rw [parse_stray dec dt p r (fun f e => hp f e)]
    simp only [events]
    rw [run_idle_nonfwd dec dt p _ (fun f e => hp f e), List.filterMap_cons_none rfl]
    exact ih hno.tail


@[simp] theorem isOther_gap : isOther .gap = false := rfl
@[simp] theorem isOther_fwd (f : Fwd) : isOther (.pkt (.fwd f)) = false := rfl
@[simp] theorem isOther_back (b : Nat) : isOther (.pkt (.back b)) = false := rfl
@[simp] theorem isOther_backErr : isOther (.pkt .backErr) = false := rfl
@[simp] theorem isOther_noFrame : isOther (.pkt .noFrame) = false := rfl
@[simp] theorem isOther_other : isOther (.pkt .other) = true := rfl

theorem events_append (a b : List Item) : events (a ++ b) = events a ++ events b := by
  induction a with
  | nil => rfl
  | cons i a ih => cases i <;> simp [events, ih]

/-- the reports of a run over `a ++ b` are those over `a` followed by those
over `b` from the state reached after `a` -/
theorem run_append (dec : Decode) (s : WatchState) (a b : List WatchEvent) :
    run dec s (a ++ b) =
      ((run dec (run dec s a).1 b).1, (run dec s a).2 ++ (run dec (run dec s a).1 b).2) := by
  induction a generalizing s with
  | nil => simp [run_nil]
  | cons e a ih => simp [run_cons, ih]

/-- packets the watcher ignores change nothing -/
theorem run_filter_other (dec : Decode) (s : WatchState) (h : List Item) :
    run dec s (events h) = run dec s (events (h.filter (fun i => !isOther i))) := by
  induction h generalizing s with
  | nil => rfl
  | cons i h ih =>
    cases i with
    | gap => simp [events, run_cons, ih]
    | pkt p =>
      cases p <;> simp [events, run_cons, ih, step_other]

theorem noOther_filter (h : List Item) : NoOther (h.filter (fun i => !isOther i)) := by
  intro i hi
  simpa using (List.mem_filter.mp hi).2

theorem fwdFrames_filter_other (h : List Item) :
    fwdFrames (h.filter (fun i => !isOther i)) = fwdFrames h := by
  induction h with
  | nil => rfl
  | cons i h ih =>
    cases i with
    | gap => simp [fwdFrames, ih]
    | pkt p => cases p <;> simp [fwdFrames, ih]

theorem parse_frames (dec : Decode) (dt : Nat) (l : List Item) :
    (parse dec dt l).flatMap framesOf = fwdFrames l := by
  fun_induction parse dec dt l <;> simp_all [fwdFrames, framesOf] <;> try rfl

theorem parse_dtChain (dec : Decode) (dt : Nat) (l : List Item) :
    DtChain dec dt (parse dec dt l) := by
  fun_induction parse dec dt l <;> simp_all [DtChain, cmdOf] <;> exact ⟨rfl, rfl⟩

end DaliVerif.Proofs.WatchRefine
