import DaliVerif.Proofs.DecodeDevice
/-!
# C01/C12 helper: event frames — the constructors' writes in arithmetic form
-/
set_option linter.unusedSimpArgs false
namespace DaliVerif.Cmd
open Frame Spec

/-- the source-identification bits of an event frame (part 103 Table 3) -/
def srcBits (t : Nat) : EventSrc → Nat
  | .device sa => sa * 131072 + t * 1024
  | .deviceInstance sa inum => sa * 131072 + 32768 + inum * 1024
  | .deviceGroup g => 8388608 + g * 131072 + t * 1024
  | .instanceGroup g => 8388608 + 4194304 + g * 131072 + t * 1024
  | .inst inum => 8388608 + t * 131072 + 32768 + inum * 1024

/-- the fields of a source are within their 5/6-bit ranges -/
def SrcOK : EventSrc → Prop
  | .device sa => sa ≤ 63
  | .deviceInstance sa inum => sa ≤ 63 ∧ inum ≤ 31
  | .deviceGroup g => g ≤ 31
  | .instanceGroup g => g ≤ 31
  | .inst inum => inum ≤ 31

/-- does the scheme put the instance type into the frame? -/
def srcHasType : EventSrc → Bool
  | .deviceInstance .. => false
  | _ => true

theorem mkDeviceShort_ok (sa : Nat) (h : sa ≤ 63) :
    Addr.mkDeviceShort (natVal sa) = .ok (.deviceShort sa) := by
  unfold Addr.mkDeviceShort Addr.mkNumbered natVal
  have : ¬ ((sa : Int) < 0 ∨ (sa : Int) > 63) := by omega
  simp [PyVal.asInt?, this]

private theorem s24 (d hi lo v : Nat) (hlo : lo ≤ hi) (hhi : hi < 24) (hd : d < 2 ^ 24)
    (hv : v < 2 ^ (hi + 1 - lo)) :
    setSlice ⟨24, d⟩ hi lo v = .ok ⟨24, setSliceA d hi lo v⟩ ∧ setSliceA d hi lo v < 2 ^ 24 :=
  ⟨setSlice_ok ⟨24, d⟩ hi lo v hlo hhi hd hv, setSliceA_lt 24 d hi lo v hlo hhi hd hv⟩

private theorem b24t (d k : Nat) (hk : k < 24) (hd : d < 2 ^ 24) :
    setBit ⟨24, d⟩ k true = .ok ⟨24, setSliceA d k k 1⟩ ∧ setSliceA d k k 1 < 2 ^ 24 := by
  have := setBit_ok ⟨24, d⟩ k true hk hd
  simp only [if_true] at this
  exact ⟨this, setSliceA_lt 24 d k k _ (Nat.le_refl k) hk hd (by
    have : k + 1 - k = 1 := by omega
    rw [this]; decide)⟩

private theorem b24f (d k : Nat) (hk : k < 24) (hd : d < 2 ^ 24) :
    setBit ⟨24, d⟩ k false = .ok ⟨24, setSliceA d k k 0⟩ ∧ setSliceA d k k 0 < 2 ^ 24 := by
  have := setBit_ok ⟨24, d⟩ k false hk hd
  simp only [Bool.false_eq_true, if_false] at this
  exact ⟨this, setSliceA_lt 24 d k k _ (Nat.le_refl k) hk hd (by
    have : k + 1 - k = 1 := by omega
    rw [this]; decide)⟩

/-- **the event constructor's source writes**, for a frame that so far holds
only event information `x < 1024`: the result is `srcBits + x` -/
theorem eventSrc_ok (x t : Nat) (src : EventSrc) (hx : x < 1024) (hs : SrcOK src)
    (ht : srcHasType src = true → t ≤ 31) :
    eventSrcToFrame ⟨24, x⟩ (t : Int) src = .ok ⟨24, srcBits t src + x⟩ := by
  have hx24 : x < 2 ^ 24 := by simp; omega
  cases src with
  | device sa =>
    have ht' : t ≤ 31 := ht rfl
    have hsa : sa ≤ 63 := hs
    obtain ⟨e1, l1⟩ := s24 x 14 10 t (by omega) (by omega) hx24 (by simp; omega)
    obtain ⟨e2, l2⟩ := b24f _ 23 (by omega) l1
    obtain ⟨e3, l3⟩ := b24f _ 15 (by omega) l2
    simp only [eventSrcToFrame, bind, Except.bind, e1, e2, e3, mkDeviceShort_ok sa hsa]
    rw [Addr.addToFrame_device (.deviceShort sa) hsa rfl _ (by simpa using l3)]
    simp only [setSliceA, Nat.reducePow, Nat.reduceAdd, Nat.reduceSub, Addr.addrByte, srcBits,
      Bool.false_eq_true, if_false, ↓reduceIte]
    congr 2; omega
  | deviceInstance sa inum =>
    obtain ⟨hsa, hin⟩ : sa ≤ 63 ∧ inum ≤ 31 := hs
    obtain ⟨e1, l1⟩ := s24 x 14 10 inum (by omega) (by omega) hx24 (by simp; omega)
    obtain ⟨e2, l2⟩ := b24f _ 23 (by omega) l1
    obtain ⟨e3, l3⟩ := b24t _ 15 (by omega) l2
    simp only [eventSrcToFrame, bind, Except.bind, e1, e2, e3, mkDeviceShort_ok sa hsa]
    rw [Addr.addToFrame_device (.deviceShort sa) hsa rfl _ (by simpa using l3)]
    simp only [setSliceA, Nat.reducePow, Nat.reduceAdd, Nat.reduceSub, Addr.addrByte, srcBits,
      Bool.false_eq_true, if_false, if_true, ↓reduceIte]
    congr 2; omega
  | deviceGroup g =>
    have ht' : t ≤ 31 := ht rfl
    have hg : g ≤ 31 := hs
    obtain ⟨e1, l1⟩ := s24 x 14 10 t (by omega) (by omega) hx24 (by simp; omega)
    obtain ⟨e2, l2⟩ := s24 _ 21 17 g (by omega) (by omega) l1 (by simp; omega)
    obtain ⟨e3, l3⟩ := b24t _ 23 (by omega) l2
    obtain ⟨e4, l4⟩ := b24f _ 22 (by omega) l3
    obtain ⟨e5, _⟩ := b24f _ 15 (by omega) l4
    simp only [eventSrcToFrame, bind, Except.bind, e1, e2, e3, e4, e5]
    simp only [setSliceA, Nat.reducePow, Nat.reduceAdd, Nat.reduceSub, srcBits,
      Bool.false_eq_true, if_false, if_true, ↓reduceIte]
    congr 2; omega
  | instanceGroup g =>
    have ht' : t ≤ 31 := ht rfl
    have hg : g ≤ 31 := hs
    obtain ⟨e1, l1⟩ := s24 x 14 10 t (by omega) (by omega) hx24 (by simp; omega)
    obtain ⟨e2, l2⟩ := s24 _ 21 17 g (by omega) (by omega) l1 (by simp; omega)
    obtain ⟨e3, l3⟩ := b24t _ 23 (by omega) l2
    obtain ⟨e4, l4⟩ := b24t _ 22 (by omega) l3
    obtain ⟨e5, _⟩ := b24f _ 15 (by omega) l4
    simp only [eventSrcToFrame, bind, Except.bind, e1, e2, e3, e4, e5]
    simp only [setSliceA, Nat.reducePow, Nat.reduceAdd, Nat.reduceSub, srcBits,
      Bool.false_eq_true, if_false, if_true, ↓reduceIte]
    congr 2; omega
  | inst inum =>
    have ht' : t ≤ 31 := ht rfl
    have hin : inum ≤ 31 := hs
    obtain ⟨e1, l1⟩ := s24 x 21 17 t (by omega) (by omega) hx24 (by simp; omega)
    obtain ⟨e2, l2⟩ := s24 _ 14 10 inum (by omega) (by omega) l1 (by simp; omega)
    obtain ⟨e3, l3⟩ := b24t _ 23 (by omega) l2
    obtain ⟨e4, l4⟩ := b24f _ 22 (by omega) l3
    obtain ⟨e5, _⟩ := b24t _ 15 (by omega) l4
    simp only [eventSrcToFrame, bind, Except.bind, e1, e2, e3, e4, e5]
    simp only [setSliceA, Nat.reducePow, Nat.reduceAdd, Nat.reduceSub, srcBits,
      Bool.false_eq_true, if_false, if_true, ↓reduceIte]
    congr 2; omega

theorem srcBits_lt (t : Nat) (src : EventSrc) (hs : SrcOK src) (ht : srcHasType src = true → t ≤ 31) :
    srcBits t src < 2 ^ 24 ∧ srcBits t src % 1024 = 0 := by
  cases src with
  | device sa => have := ht rfl; simp only [srcBits, SrcOK] at *; constructor <;> simp <;> omega
  | deviceInstance sa inum => simp only [srcBits, SrcOK] at *; constructor <;> simp <;> omega
  | deviceGroup g => have := ht rfl; simp only [srcBits, SrcOK] at *; constructor <;> simp <;> omega
  | instanceGroup g => have := ht rfl; simp only [srcBits, SrcOK] at *; constructor <;> simp <;> omega
  | inst inum => have := ht rfl; simp only [srcBits, SrcOK] at *; constructor <;> simp <;> omega

end DaliVerif.Cmd

namespace DaliVerif.Cmd
open Frame Spec

/-- `eventSrc_ok` for the integer instance type a map may deliver: it is only
written into the frame by the schemes that carry it -/
theorem eventSrc_ok_int (x : Nat) (t : Int) (src : EventSrc) (hx : x < 1024) (hs : SrcOK src)
    (ht : srcHasType src = true → 0 ≤ t ∧ t ≤ 31) :
    eventSrcToFrame ⟨24, x⟩ t src = .ok ⟨24, srcBits t.toNat src + x⟩ := by
  cases src with
  | deviceInstance sa inum =>
    have : eventSrcToFrame ⟨24, x⟩ t (.deviceInstance sa inum) =
        eventSrcToFrame ⟨24, x⟩ ((t.toNat : Nat) : Int) (.deviceInstance sa inum) := rfl
    rw [this]
    exact eventSrc_ok x t.toNat _ hx hs (by intro h; simp [srcHasType] at h)
  | device sa =>
    obtain ⟨h0, h31⟩ := ht rfl
    have e : t = ((t.toNat : Nat) : Int) := by omega
    rw [e]; simp only [Int.toNat_natCast]
    exact eventSrc_ok x t.toNat _ hx hs (by intro _; omega)
  | deviceGroup g =>
    obtain ⟨h0, h31⟩ := ht rfl
    have e : t = ((t.toNat : Nat) : Int) := by omega
    rw [e]; simp only [Int.toNat_natCast]
    exact eventSrc_ok x t.toNat _ hx hs (by intro _; omega)
  | instanceGroup g =>
    obtain ⟨h0, h31⟩ := ht rfl
    have e : t = ((t.toNat : Nat) : Int) := by omega
    rw [e]; simp only [Int.toNat_natCast]
    exact eventSrc_ok x t.toNat _ hx hs (by intro _; omega)
  | inst inum =>
    obtain ⟨h0, h31⟩ := ht rfl
    have e : t = ((t.toNat : Nat) : Int) := by omega
    rw [e]; simp only [Int.toNat_natCast]
    exact eventSrc_ok x t.toNat _ hx hs (by intro _; omega)

/-- writing the ten event-information bits over a frame that has none set -/
theorem setData_ok (S data : Nat) (hS : S < 2 ^ 24) (h0 : S % 1024 = 0) (hd : data < 1024) :
    setSlice ⟨24, S⟩ 9 0 data = .ok ⟨24, S + data⟩ := by
  rw [setSlice_ok ⟨24, S⟩ 9 0 data (by omega) (by simp) hS (by simp; omega)]
  simp only [setSliceA, Nat.reducePow, Nat.reduceAdd, Nat.reduceSub]
  congr 2; omega

theorem setItemIdx_ok (f : Frame) (k : Nat) (v : PyVal) (hk : k < f.bits) (hd : f.data < 2 ^ f.bits) :
    f.setItem (.idx (natVal k)) v = .ok ⟨f.bits, setSliceA f.data k k (if v.truthy then 1 else 0)⟩ := by
  unfold natVal
  have h1' : ¬ ((k : Int) < 0 ∨ f.bits ≤ k) := by omega
  have hv : (if v.truthy then 1 else 0) < 2 ^ (k + 1 - k) := by
    have : k + 1 - k = 1 := by omega
    rw [this]; cases v.truthy <;> simp
  simp only [Frame.setItem, PyVal.asInt?]
  simp [h1']
  rw [setBitRaw_eq_setSlice f.bits f.data k _ hk hd,
    setSliceRaw_eqA f.bits f.data k k _ (Nat.le_refl k) hk hd hv]

theorem occ_lt : ∀ x : Fin 1024, (x.val ||| 0b1111 != 0b1111) = false → x.val < 16 := by
  decide +kernel

theorem occ_ge : ∀ x : Fin 16, (x.val ||| 0b1111 != 0b1111) = false := by decide

theorem occ_flags : ∀ x : Fin 16,
    (x.val &&& 1 == 1) = decide (x.val % 2 = 1) ∧ (x.val &&& 2 == 2) = decide (x.val / 2 % 2 = 1) ∧
    (x.val &&& 4 == 4) = decide (x.val / 4 % 2 = 1) ∧ (x.val &&& 8 == 8) = decide (x.val / 8 % 2 = 1) := by
  decide

/-- the four occupancy flag writes reproduce the four low bits -/
theorem occ_writes (S x : Nat) (hS : S < 2 ^ 24) (h0 : S % 1024 = 0) (hx : x < 16) :
    (do
      let f ← setBit ⟨24, S⟩ 0 (x &&& 1 == 1)
      let f ← setBit f 1 (x &&& 2 == 2)
      let f ← setBit f 2 (x &&& 4 == 4)
      f.setItem (.idx (natVal 3)) (.int (if (x &&& 8 == 8) then 1 else 0)) : PyRes Frame)
      = .ok ⟨24, S + x⟩ := by
  obtain ⟨f0, f1, f2, f3⟩ := occ_flags ⟨x, hx⟩
  simp only at f0 f1 f2 f3
  rw [f0, f1, f2, f3]
  have tr : ∀ p : Prop, [Decidable p] → (PyVal.int (if decide p = true then 1 else 0)).truthy = decide p := by
    intro p _; by_cases h : p <;> simp [h, PyVal.truthy]
  have v : ∀ p : Prop, [Decidable p] → ∀ n : Nat, (p ↔ n = 1) → n ≤ 1 →
      (if decide p = true then 1 else 0) = n := by
    intro p _ n hp hn; by_cases h : p
    · simp [h]; exact (hp.mp h).symm
    · simp [h]; have : n ≠ 1 := fun e => h (hp.mpr e); omega
  have v0 := v (x % 2 = 1) (x % 2) Iff.rfl (by omega)
  have v1 := v (x / 2 % 2 = 1) (x / 2 % 2) Iff.rfl (by omega)
  have v2 := v (x / 4 % 2 = 1) (x / 4 % 2) Iff.rfl (by omega)
  have v3 := v (x / 8 % 2 = 1) (x / 8 % 2) Iff.rfl (by omega)
  have e1 : setBit ⟨24, S⟩ 0 (decide (x % 2 = 1)) = .ok ⟨24, setSliceA S 0 0 (x % 2)⟩ := by
    have := setBit_ok ⟨24, S⟩ 0 (decide (x % 2 = 1)) (by simp) hS
    rw [v0] at this; exact this
  have l1 := setSliceA_lt 24 S 0 0 (x % 2) (by omega) (by omega) hS (by simp; omega)
  have e2 : setBit ⟨24, setSliceA S 0 0 (x % 2)⟩ 1 (decide (x / 2 % 2 = 1)) =
      .ok ⟨24, setSliceA (setSliceA S 0 0 (x % 2)) 1 1 (x / 2 % 2)⟩ := by
    have := setBit_ok ⟨24, setSliceA S 0 0 (x % 2)⟩ 1 (decide (x / 2 % 2 = 1)) (by simp) l1
    rw [v1] at this; exact this
  have l2 := setSliceA_lt 24 _ 1 1 (x / 2 % 2) (by omega) (by omega) l1 (by simp; omega)
  have e3 : setBit ⟨24, setSliceA (setSliceA S 0 0 (x % 2)) 1 1 (x / 2 % 2)⟩ 2 (decide (x / 4 % 2 = 1)) =
      .ok ⟨24, setSliceA (setSliceA (setSliceA S 0 0 (x % 2)) 1 1 (x / 2 % 2)) 2 2 (x / 4 % 2)⟩ := by
    have := setBit_ok ⟨24, setSliceA (setSliceA S 0 0 (x % 2)) 1 1 (x / 2 % 2)⟩ 2
      (decide (x / 4 % 2 = 1)) (by simp) l2
    rw [v2] at this; exact this
  have l3 := setSliceA_lt 24 _ 2 2 (x / 4 % 2) (by omega) (by omega) l2 (by simp; omega)
  have e4 : (⟨24, setSliceA (setSliceA (setSliceA S 0 0 (x % 2)) 1 1 (x / 2 % 2)) 2 2 (x / 4 % 2)⟩ : Frame).setItem
      (.idx (natVal 3)) (.int (if decide (x / 8 % 2 = 1) = true then 1 else 0)) =
      .ok ⟨24, setSliceA (setSliceA (setSliceA (setSliceA S 0 0 (x % 2)) 1 1 (x / 2 % 2)) 2 2 (x / 4 % 2))
        3 3 (x / 8 % 2)⟩ := by
    have := setItemIdx_ok ⟨24, setSliceA (setSliceA (setSliceA S 0 0 (x % 2)) 1 1 (x / 2 % 2)) 2 2 (x / 4 % 2)⟩
      3 (.int (if decide (x / 8 % 2 = 1) = true then 1 else 0)) (by simp) l3
    rw [tr, v3] at this; exact this
  simp only [bind, Except.bind, e1, e2, e3, e4]
  simp only [setSliceA, Nat.reducePow, Nat.reduceAdd, Nat.reduceSub]
  congr 2; omega

/-- **every branch of the event-class selection re-encodes to `srcBits + data`** -/
theorem eventOfType_sound (T : Tables) (hT : TableFacts T) (t : Int) (src : EventSrc) (data : Nat)
    (hs : SrcOK src) (ht : srcHasType src = true → 0 ≤ t ∧ t ≤ 31) (hd : data < 1024) :
    encode (eventOfType T t src data) = .ok ⟨24, srcBits t.toNat src + data⟩ := by
  obtain ⟨hlt, hm⟩ := srcBits_lt t.toNat src hs (by intro h; have := ht h; omega)
  have hnew0 : newFrame 24 0 = .ok ⟨24, 0⟩ := newFrame_ok 24 0 (by omega) (by simp)
  have hsrc0 := eventSrc_ok_int 0 t src (by omega) hs ht
  have hunknown : encode (.unknownEvent t src data) = .ok ⟨24, srcBits t.toNat src + data⟩ := by
    simp only [encode, bind, Except.bind, hnew0, hsrc0, Nat.add_zero]
    exact setData_ok _ _ hlt hm hd
  have hsrcNat : ∀ x, x < 1024 → 0 ≤ t →
      eventSrcToFrame ⟨24, x⟩ ((t.toNat : Nat) : Int) src = .ok ⟨24, srcBits t.toNat src + x⟩ := by
    intro x hx h0
    have e : ((t.toNat : Nat) : Int) = t := by omega
    rw [e]; exact eventSrc_ok_int x t src hx hs ht
  unfold eventOfType
  simp only []
  split
  · exact hunknown
  · rename_i hneg
    have h0 : 0 ≤ t := by omega
    split
    · exact hunknown
    · rename_i et _
      cases hk : et.kind with
      | pushbutton =>
        simp only []
        split
        · rename_i pc hl
          have hok := hT.push _ (lookup_mem hl)
          simp only [pushOK, Bool.and_eq_true, beq_iff_eq, decide_eq_true_eq] at hok
          simp only [encode, bind, Except.bind]
          rw [hok.1, newFrame_ok 24 data (by omega) (by simp; omega)]
          simp only []
          rw [hsrcNat data hd h0]
          rfl
        · exact hunknown
      | occupancy =>
        simp only []
        split
        · exact hunknown
        · rename_i hocc
          have hx : data < 16 := occ_lt ⟨data, hd⟩ (by simpa using hocc)
          simp only [encode, bind, Except.bind, hnew0]
          rw [hsrcNat 0 (by omega) h0]
          simp only [Nat.add_zero]
          have := occ_writes (srcBits t.toNat src) data hlt hm hx
          simp only [bind, Except.bind] at this
          exact this
      | light =>
        simp only [encode, bind, Except.bind, hnew0]
        rw [hsrcNat 0 (by omega) h0]
        simp only [Nat.add_zero]
        exact setData_ok _ _ hlt hm hd
      | custom => exact hunknown

theorem event_sound (T : Tables) (hT : TableFacts T) (d : Nat) (hd : d < 2 ^ 24)
    (m : Option InstMap) (c : Cmd)
    (h : eventFromFrame T ⟨24, d⟩ m = some c) : encode c = .ok ⟨24, d⟩ := by
  have hd' : d < 16777216 := by simpa using hd
  unfold eventFromFrame at h
  simp only [bit, bitTest_eq, slice, getSliceRaw_eq, Nat.reducePow, Nat.reduceAdd, Nat.reduceSub,
    Nat.div_one] at h
  split at h
  · contradiction
  · rename_i h16
    simp only [decide_eq_true_eq] at h16
    have hdata : d % 1024 < 1024 := Nat.mod_lt _ (by decide)
    split at h
    · -- device scheme
      rename_i hc
      simp only [Bool.and_eq_true, Bool.not_eq_true', decide_eq_false_iff_not] at hc
      injection h with h; subst h
      rw [eventOfType_sound T hT _ _ _ (by simp only [SrcOK]; omega)
        (by intro _; constructor <;> omega) hdata]
      simp only [srcBits, Int.toNat_natCast]
      congr 2; omega
    · split at h
      · -- device/instance scheme
        rename_i _ hc
        simp only [Bool.and_eq_true, Bool.not_eq_true', decide_eq_false_iff_not,
          decide_eq_true_eq] at hc
        split at h
        · injection h with h; subst h
          have hnew0 : newFrame 24 0 = .ok ⟨24, 0⟩ := newFrame_ok 24 0 (by omega) (by simp)
          have hsrc := eventSrc_ok 0 0 (.deviceInstance (d / 131072 % 64) (d / 1024 % 32))
            (by omega) (by simp only [SrcOK]; omega) (by intro h; simp [srcHasType] at h)
          have hb := srcBits_lt 0 (.deviceInstance (d / 131072 % 64) (d / 1024 % 32))
            (by simp only [SrcOK]; omega) (by intro h; simp [srcHasType] at h)
          simp only [encode, bind, Except.bind, hnew0]
          rw [show ((0 : Int)) = ((0 : Nat) : Int) from rfl, hsrc]
          simp only [Nat.add_zero]
          rw [setData_ok _ _ hb.1 hb.2 hdata]
          simp only [srcBits]
          congr 2; omega
        · injection h with h; subst h
          rw [eventOfType_sound T hT _ _ _ (by simp only [SrcOK]; omega)
            (by intro h; simp [srcHasType] at h) hdata]
          simp only [srcBits]
          congr 2; omega
      · split at h
        · -- device group
          rename_i _ _ hc
          simp only [Bool.and_eq_true, Bool.not_eq_true', decide_eq_false_iff_not,
            decide_eq_true_eq] at hc
          injection h with h; subst h
          rw [eventOfType_sound T hT _ _ _ (by simp only [SrcOK]; omega)
            (by intro _; constructor <;> omega) hdata]
          simp only [srcBits, Int.toNat_natCast]
          congr 2; omega
        · split at h
          · -- instance
            rename_i _ _ _ hc
            simp only [Bool.and_eq_true, Bool.not_eq_true', decide_eq_false_iff_not,
              decide_eq_true_eq] at hc
            injection h with h; subst h
            rw [eventOfType_sound T hT _ _ _ (by simp only [SrcOK]; omega)
              (by intro _; constructor <;> omega) hdata]
            simp only [srcBits, Int.toNat_natCast]
            congr 2; omega
          · split at h
            · -- instance group
              rename_i _ _ _ _ hc
              simp only [Bool.and_eq_true, Bool.not_eq_true', decide_eq_false_iff_not,
                decide_eq_true_eq] at hc
              injection h with h; subst h
              rw [eventOfType_sound T hT _ _ _ (by simp only [SrcOK]; omega)
                (by intro _; constructor <;> omega) hdata]
              simp only [srcBits, Int.toNat_natCast]
              congr 2; omega
            · contradiction

end DaliVerif.Cmd
