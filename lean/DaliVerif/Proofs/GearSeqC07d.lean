import DaliVerif.Proofs.GearSeqC07c
/-!
# C07, part d: what `Commissioning`'s loops do in *every* environment

* `inner_only`, `outer_only` — the classes of commands the loops send (PROGRAM SHORT ADDRESS never in a dry run);
* `inner_syn`, `outer_syn` — against any environment whatsoever: the arguments of PROGRAM SHORT ADDRESS, in
  order, are a prefix of the permitted list (popped from the front), the ghost log records exactly them, and
  the only exception is ProgramShortAddressFailure, raised directly after PROGRAM / VERIFY SHORT ADDRESS.
-/
namespace DaliVerif.GearSeq
set_option linter.unusedSimpArgs false
set_option linter.unusedVariables false

/-! ## Which commands the loops send -/

/-- the commands of the inner loop; PROGRAM SHORT ADDRESS only when not a dry run -/
def IsInner (dry : Bool) : Cmd → Prop
  | .searchH _ | .searchM _ | .searchL _ | .compare | .withdraw | .verifyShort _ => True
  | .programShort _ => dry = false
  | _ => False

def IsOuter (dry : Bool) (c : Cmd) : Prop := c = .randomise ∨ IsInner dry c

theorem isInner_of_isSearch (dry : Bool) (c : Cmd) (h : IsSearch c) : IsInner dry c := by
  cases c <;> first | exact h.elim | trivial

theorem inner_only (dry : Bool) : ∀ (fuel low : Nat) (avail : List Nat) (handed : List (Nat × Nat)),
    Only (IsInner dry) (inner dry fuel low avail handed) := by
  intro fuel
  induction fuel with
  | zero => intro _ _ _; exact Only.spin
  | succ fuel ih =>
    intro low avail handed
    rw [inner_eq]
    refine Only.note _ _ (Only.bind ((findNext_only _ _ _).mono (isInner_of_isSearch dry)) ?_)
    intro res
    have hrest : ∀ m av' h', Only (IsInner dry) (innerRest dry fuel m av' h') := by
      intro m av' h'
      unfold innerRest
      refine Only.tell trivial ?_
      split
      · exact ih _ _ _
      · exact Only.done _
    match res with
    | .clash => exact Only.note _ _ (Only.done _)
    | .none => exact Only.done _
    | .found m =>
      unfold afterFound
      refine Only.note _ _ ?_
      match avail with
      | [] => exact Only.note _ _ (hrest _ _ _)
      | new :: avail' =>
        cases dry with
        | true => exact Only.note _ _ (hrest _ _ _)
        | false =>
          refine Only.note _ _ (Only.tell rfl (Only.send _ _ trivial ?_))
          intro r
          split
          · exact hrest _ _ _
          · exact Only.fail _

theorem outer_only (dry : Bool) : ∀ (rounds : Nat) (avail : List Nat) (handed : List (Nat × Nat)),
    Only (IsOuter dry) (outer dry rounds avail handed) := by
  intro rounds
  induction rounds with
  | zero => intro _ _; exact Only.spin
  | succ rounds ih =>
    intro avail handed
    rw [outer]
    refine Only.tell (Or.inl rfl) (Only.note _ _ (Only.bind ((inner_only dry _ _ _ _).mono (fun c h => Or.inr h)) ?_))
    intro res
    match res with
    | .clash av' h' => exact ih _ _
    | .finished _ h' => exact Only.done _

/-! ## The addresses sent in PROGRAM SHORT ADDRESS, for every environment -/

theorem progArgs_append (t u : List Cmd) : progArgs (t ++ u) = progArgs t ++ progArgs u := by
  simp [progArgs, List.filterMap_append]

theorem progArgs_nil (t : List Cmd) (h : ∀ c ∈ t, ∀ a, c ≠ .programShort a) : progArgs t = [] := by
  unfold progArgs
  rw [List.filterMap_eq_nil_iff]
  intro c hc
  have := h c hc
  cases c <;> first | rfl | exact absurd rfl (this _)

theorem progArgs_search (t : List Cmd) (h : ∀ c ∈ t, IsSearch c) : progArgs t = [] :=
  progArgs_nil t (fun c hc a e => by have := h c hc; rw [e] at this; exact this)

theorem findNext_noraise {σ : Type} (step : σ → Cmd → Resp × σ) : ∀ (fuel low high : Nat) (s : σ) (e : PyErr),
    ((findNext fuel low high).run step s).res ≠ .raised e := by
  intro fuel
  induction fuel with
  | zero => intro _ _ _ _; simp [findNext, Prog.run]
  | succ n ih =>
    intro low high s e
    rw [findNext]
    simp only [Prog.tell, Prog.run]
    split
    · split
      · split <;> simp [Prog.run]
      · simp [Prog.run]
    · split
      · rw [run_bind]
        split
        · rename_i a ha
          dsimp only
          split
          · exact ih _ _ _ _
          · simp [Prog.run]
        · rename_i e' he'; exact absurd he' (ih _ _ _ _)
        · simp
      · simp [Prog.run]


/-- what holds of the inner loop in *every* environment: the PROGRAM SHORT ADDRESS arguments are the
permitted list, popped from the front in order; the only exception is ProgramShortAddressFailure, raised
directly after an unconfirmed VERIFY SHORT ADDRESS -/
structure SynPost {σ : Type} (o : Out σ InnerRes) (dry : Bool) (avail : List Nat) (handed : List (Nat × Nat)) :
    Prop where
  pre : dry = false → progArgs o.trace <+: avail
  ret : ∀ av' h', (o.res = .ret (.clash av' h') ∨ o.res = .ret (.finished av' h')) →
    h'.map Prod.snd ++ av' = handed.map Prod.snd ++ avail ∧ (dry = false → progArgs o.trace ++ av' = avail)
  raise : ∀ e, o.res = .raised e → e = .ProgramShortAddressFailure ∧ dry = false ∧
    ∃ t a, o.trace = t ++ [Cmd.programShort a, Cmd.verifyShort a]

theorem SynPost.cons {σ : Type} {o : Out σ InnerRes} {dry : Bool} {avail : List Nat} {handed : List (Nat × Nat)}
    (h : SynPost o dry avail handed) (c : Cmd) (hc : ∀ a, c ≠ .programShort a) :
    SynPost (⟨o.res, o.st, c :: o.trace⟩ : Out σ InnerRes) dry avail handed := by
  have e : progArgs (c :: o.trace) = progArgs o.trace := by
    have := progArgs_append [c] o.trace
    rw [progArgs_nil [c] (by intro d hd; simp at hd; subst hd; exact hc)] at this
    simpa using this
  refine ⟨?_, ?_, ?_⟩
  · dsimp only; rw [e]; exact h.pre
  · dsimp only; rw [e]; exact h.ret
  · intro x hx
    obtain ⟨a1, a2, t, a, ht⟩ := h.raise x hx
    exact ⟨a1, a2, c :: t, a, by dsimp only; rw [ht]; rfl⟩

theorem innerRest_syn {σ : Type} (step : σ → Cmd → Resp × σ) (dry : Bool) (fuel m : Nat)
    (IH : ∀ low avail handed s, SynPost ((inner dry fuel low avail handed).run step s) dry avail handed)
    (avail : List Nat) (handed : List (Nat × Nat)) (s : σ) :
    SynPost ((innerRest dry fuel m avail handed).run step s) dry avail handed := by
  unfold innerRest
  simp only [Prog.tell, Prog.run]
  split
  · exact (IH _ _ _ _).cons _ (by intro a h; cases h)
  · have P : SynPost ((Prog.done (InnerRes.finished avail handed) : Prog InnerRes).run step
        (step s Cmd.withdraw).2) dry avail handed := by
      refine ⟨?_, ?_, ?_⟩
      · intro _; exact List.nil_prefix
      · intro av' h' hr
        simp only [Prog.run] at hr
        rcases hr with hr | hr
        · cases hr
        · injection hr with hr; injection hr with e1 e2
          subst e1; subst e2
          exact ⟨rfl, fun _ => rfl⟩
      · intro e he; simp [Prog.run] at he
    exact P.cons _ (by intro a h; cases h)

theorem afterFound_syn {σ : Type} (step : σ → Cmd → Resp × σ) (dry : Bool) (fuel m : Nat)
    (IH : ∀ low avail handed s, SynPost ((inner dry fuel low avail handed).run step s) dry avail handed)
    (avail : List Nat) (handed : List (Nat × Nat)) (s : σ) :
    SynPost ((afterFound dry fuel m avail handed).run step s) dry avail handed := by
  unfold afterFound
  simp only [Prog.run]
  match avail with
  | [] => simp only [Prog.run]; exact innerRest_syn step dry fuel m IH [] handed s
  | new :: avail' =>
    cases dry with
    | true =>
      simp only [if_true, Prog.run]
      have P := innerRest_syn step true fuel m IH avail' (handed ++ [(m, new)]) s
      refine ⟨(by intro h; cases h), ?_, P.raise⟩
      intro av' h' hr
      obtain ⟨a1, _⟩ := P.ret av' h' hr
      refine ⟨?_, (by intro h; cases h)⟩
      rw [a1]; simp
    | false =>
      simp only [Bool.false_eq_true, if_false, Prog.tell, Prog.run]
      split
      · have P := innerRest_syn step false fuel m IH avail' (handed ++ [(m, new)])
          (step (step s (Cmd.programShort new)).2 (Cmd.verifyShort new)).2
        refine ⟨?_, ?_, ?_⟩
        · intro _
          have := P.pre rfl
          simp only [progArgs, List.filterMap_cons] at this ⊢
          exact List.cons_prefix_cons.mpr ⟨rfl, this⟩
        · intro av' h' hr
          obtain ⟨a1, a2⟩ := P.ret av' h' hr
          refine ⟨by rw [a1]; simp, ?_⟩
          intro _
          have := a2 rfl
          simp only [progArgs, List.filterMap_cons] at this ⊢
          simp only [List.cons_append, this]
        · intro e he
          obtain ⟨a1, a2, t, a, ht⟩ := P.raise e he
          exact ⟨a1, a2, Cmd.programShort new :: Cmd.verifyShort new :: t, a, by dsimp only; rw [ht]; rfl⟩
      · refine ⟨?_, ?_, ?_⟩
        · intro _
          simp only [Prog.run, progArgs, List.filterMap_cons, List.filterMap_nil]
          exact List.cons_prefix_cons.mpr ⟨rfl, List.nil_prefix⟩
        · intro av' h' hr
          simp only [Prog.run] at hr
          rcases hr with hr | hr <;> cases hr
        · intro e he
          simp only [Prog.run] at he ⊢
          injection he with he
          exact ⟨he.symm, trivial, [], new, rfl⟩

theorem inner_syn {σ : Type} (step : σ → Cmd → Resp × σ) (dry : Bool) :
    ∀ (fuel low : Nat) (avail : List Nat) (handed : List (Nat × Nat)) (s : σ),
    SynPost ((inner dry fuel low avail handed).run step s) dry avail handed := by
  intro fuel
  induction fuel with
  | zero =>
    intro low avail handed s
    refine ⟨fun _ => List.nil_prefix, ?_, ?_⟩ <;> simp [inner, Prog.run]
  | succ fuel ih =>
    intro low avail handed s
    rw [inner_eq]
    simp only [Prog.run]
    rw [run_bind]
    have hp : progArgs ((findNext 25 low HIGH).run step s).trace = [] :=
      progArgs_search _ ((findNext_only 25 low HIGH).trace step s)
    have key : ∀ (o2 : Out σ InnerRes), SynPost o2 dry avail handed →
        SynPost (⟨o2.res, o2.st, ((findNext 25 low HIGH).run step s).trace ++ o2.trace⟩ : Out σ InnerRes)
          dry avail handed := by
      intro o2 P
      refine ⟨?_, ?_, ?_⟩
      · dsimp only; rw [progArgs_append, hp]; exact P.pre
      · dsimp only; rw [progArgs_append, hp]; exact P.ret
      · intro e he
        obtain ⟨a1, a2, t, a, ht⟩ := P.raise e he
        exact ⟨a1, a2, _ ++ t, a, by dsimp only; rw [ht, List.append_assoc]⟩
    cases hres : ((findNext 25 low HIGH).run step s).res with
    | ret r =>
      dsimp only
      match r with
      | .none =>
        apply key ⟨_, _, _⟩
        refine ⟨fun _ => List.nil_prefix, ?_, by simp [Prog.run]⟩
        intro av' h' hr
        simp only [Prog.run] at hr
        rcases hr with hr | hr
        · cases hr
        · injection hr with hr; injection hr with e1 e2
          subst e1; subst e2
          exact ⟨rfl, fun _ => rfl⟩
      | .clash =>
        apply key ⟨_, _, _⟩
        refine ⟨fun _ => List.nil_prefix, ?_, by simp [Prog.run]⟩
        intro av' h' hr
        simp only [Prog.run] at hr
        rcases hr with hr | hr
        · injection hr with hr; injection hr with e1 e2
          subst e1; subst e2
          exact ⟨rfl, fun _ => rfl⟩
        · cases hr
      | .found m => exact key _ (afterFound_syn step dry fuel m ih avail handed _)
    | raised e => exact absurd hres (findNext_noraise step _ _ _ _ _)
    | outOfFuel =>
      dsimp only
      refine ⟨fun _ => by rw [hp]; exact List.nil_prefix, ?_, ?_⟩
      · intro av' h' hr; rcases hr with hr | hr <;> cases hr
      · intro e he; cases he


/-- the same for the loop over RANDOMISE rounds -/
structure SynPostO {σ : Type} (o : Out σ (List (Nat × Nat))) (dry : Bool) (avail : List Nat)
    (handed : List (Nat × Nat)) : Prop where
  pre : dry = false → progArgs o.trace <+: avail
  ret : ∀ h', o.res = .ret h' → ∃ av',
    h'.map Prod.snd ++ av' = handed.map Prod.snd ++ avail ∧ (dry = false → progArgs o.trace ++ av' = avail)
  raise : ∀ e, o.res = .raised e → e = .ProgramShortAddressFailure ∧ dry = false ∧
    ∃ t a, o.trace = t ++ [Cmd.programShort a, Cmd.verifyShort a]

theorem outer_syn {σ : Type} (step : σ → Cmd → Resp × σ) (dry : Bool) :
    ∀ (rounds : Nat) (avail : List Nat) (handed : List (Nat × Nat)) (s : σ),
    SynPostO ((outer dry rounds avail handed).run step s) dry avail handed := by
  intro rounds
  induction rounds with
  | zero =>
    intro avail handed s
    refine ⟨fun _ => List.nil_prefix, ?_, ?_⟩ <;> simp [outer, Prog.run]
  | succ rounds ih =>
    intro avail handed s
    rw [outer]
    simp only [Prog.tell, Prog.run]
    rw [run_bind]
    have P := inner_syn step dry (HIGH + 2) 0 avail handed (step s Cmd.randomise).2
    generalize ((inner dry (HIGH + 2) 0 avail handed).run step (step s Cmd.randomise).2) = o1 at P ⊢
    have hc : ∀ t : List Cmd, progArgs (Cmd.randomise :: t) = progArgs t := fun t => rfl
    cases hres : o1.res with
    | ret r =>
      dsimp only
      match r, hres with
      | .clash av' h', hres =>
        obtain ⟨a1, a2⟩ := P.ret av' h' (Or.inl hres)
        have Q := ih av' h' o1.st
        dsimp only
        refine ⟨?_, ?_, ?_⟩
        · intro hd
          dsimp only
          rw [hc, progArgs_append, ← a2 hd]
          exact (List.prefix_append_right_inj _).mpr (Q.pre hd)
        · intro h'' hr
          obtain ⟨av'', b1, b2⟩ := Q.ret h'' hr
          refine ⟨av'', by rw [b1, a1], ?_⟩
          intro hd
          dsimp only
          rw [hc, progArgs_append, List.append_assoc, b2 hd, a2 hd]
        · intro e he
          obtain ⟨b1, b2, t, a, ht⟩ := Q.raise e he
          exact ⟨b1, b2, Cmd.randomise :: (o1.trace ++ t), a, by dsimp only; rw [ht]; simp⟩
      | .finished av' h', hres =>
        obtain ⟨a1, a2⟩ := P.ret av' h' (Or.inr hres)
        simp only [Prog.run, List.append_nil]
        refine ⟨fun hd => by dsimp only; rw [hc]; exact P.pre hd, ?_, by simp⟩
        intro h'' hr
        injection hr with hr
        subst hr
        exact ⟨av', a1, fun hd => by dsimp only; rw [hc]; exact a2 hd⟩
    | raised e =>
      dsimp only
      refine ⟨fun hd => by dsimp only; rw [hc]; exact P.pre hd, by simp, ?_⟩
      intro e' he'
      injection he' with he'
      subst he'
      obtain ⟨b1, b2, t, a, ht⟩ := P.raise e hres
      exact ⟨b1, b2, Cmd.randomise :: t, a, by dsimp only; rw [ht]; rfl⟩
    | outOfFuel =>
      dsimp only
      exact ⟨fun hd => by dsimp only; rw [hc]; exact P.pre hd, by simp, by simp⟩

end DaliVerif.GearSeq
