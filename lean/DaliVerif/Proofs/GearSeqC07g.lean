import DaliVerif.Proofs.GearSeqC07f
/-!
# C07, part g: non-participants and dry runs, unit by unit

`commissioning_others` (not re-addressing: a unit that had a short address keeps it) and `commissioning_dry`
(a dry run changes no short address), both for every bus: the final bus is the initial bus with each unit
transformed on its own, and the transformation preserves the short address.
-/
namespace DaliVerif.GearSeq
set_option linter.unusedSimpArgs false
set_option linter.unusedVariables false

/-! ## Non-participants and dry runs, unit by unit -/

/-- commands that never change a short address -/
def KeepsShort : Cmd → Prop
  | .searchH _ | .searchM _ | .searchL _ | .compare | .withdraw | .verifyShort _ | .randomise | .terminate
  | .initialise _ | .queryGearPresent _ | .dtr0 _ => True
  | _ => False

theorem keeps_short (u : Gear) (c : Cmd) (h : KeepsShort c) : (u.execSt c).short = u.short := by
  cases c <;> (try exact h.elim) <;>
    (simp only [Gear.execSt, Cmd.devicetype, if_true, Gear.step]
     first
      | rfl
      | (split <;> first | rfl | (split <;> rfl)))

theorem fold_keeps_short (t : List Cmd) (h : ∀ c ∈ t, KeepsShort c) (u : Gear) :
    (t.foldl Gear.execSt u).short = u.short := by
  induction t generalizing u with
  | nil => rfl
  | cons c t ih =>
    simp only [List.foldl_cons]
    rw [ih (fun d hd => h d (List.mem_cons_of_mem _ hd)), keeps_short u c (h c (List.mem_cons_self ..))]

/-- a unit that is not in initialisation mode ignores everything the loops send -/
theorem disabled_stays (dry : Bool) (u : Gear) (c : Cmd) (h : IsOuter dry c ∨ c = .terminate)
    (hd : u.init = .disabled) : (u.execSt c).init = .disabled ∧ (u.execSt c).short = u.short := by
  rcases h with (rfl | h) | rfl
  · simp [Gear.execSt, Cmd.devicetype, Gear.step, hd, Gear.tick]
  · cases c <;> (try exact h.elim) <;>
      simp [Gear.execSt, Cmd.devicetype, Gear.step, hd, Gear.tick]
  · simp [Gear.execSt, Cmd.devicetype, Gear.step, hd, Gear.tick]

theorem fold_disabled_stays (dry : Bool) (t : List Cmd) (h : ∀ c ∈ t, IsOuter dry c ∨ c = .terminate) (u : Gear)
    (hd : u.init = .disabled) : (t.foldl Gear.execSt u).short = u.short := by
  induction t generalizing u with
  | nil => rfl
  | cons c t ih =>
    simp only [List.foldl_cons]
    obtain ⟨a1, a2⟩ := disabled_stays dry u c (h c (List.mem_cons_self ..)) hd
    rw [ih (fun d hd => h d (List.mem_cons_of_mem _ hd)) _ a1, a2]

theorem commBody_trace (rounds : Nat) (re dry : Bool) (av : List Nat) (b1 : Bus) :
    ∃ rest, (runBus (commBody rounds re dry av) b1).trace =
        Cmd.terminate :: Cmd.initialise (if re then 0x00 else 0xFF) :: rest ∧
      ∀ c ∈ rest, IsOuter dry c ∨ c = .terminate := by
  unfold commBody
  rw [runBus_tell, runBus_tell]
  refine ⟨_, rfl, ?_⟩
  apply Only.trace
  refine Only.bind ((outer_only dry rounds av []).mono (fun c h => Or.inl h)) ?_
  intro h
  exact Only.tell (Or.inr rfl) (Only.note _ _ (Only.done _))

/-- **others** — not re-addressing: every unit that had a short address keeps it (unit by unit) -/
theorem commissioning_others (rounds : Nat) (avail : Option (List Nat)) (dry : Bool) (b : Bus) :
    ∃ g : Gear → Gear, (runBus (commissioning rounds avail false dry) b).st = b.map g ∧
      ∀ u, u.short ≠ none → (g u).short = u.short := by
  refine ⟨fun u => (runBus (commissioning rounds avail false dry) b).trace.foldl Gear.execSt u, runBus_st _ b, ?_⟩
  intro u hu
  rw [commissioning_eq]
  simp only [Bool.false_eq_true, if_false]
  obtain ⟨t, b1, h1, h2, h3, h4⟩ := discover_bus
    (fun av' => Prog.note .progress (commBody rounds false dry av')) (List.range 64)
    (avail.getD (List.range 64)) b
  rw [h4]
  simp only [runBus_note]
  obtain ⟨rest, hr, hcls⟩ := commBody_trace rounds false dry
    (discF (view b) (List.range 64) (avail.getD (List.range 64))) b1
  rw [hr]
  simp only [List.foldl_append, List.foldl_cons]
  have hq := foldl_v_quiet t h3 u
  generalize t.foldl Gear.execSt u = u1 at hq ⊢
  have hs1 : u1.short = u.short := congrArg V.short hq
  have hne : u1.short ≠ none := by rw [hs1]; exact hu
  have e2 : ((u1.execSt .terminate).execSt (.initialise 0xFF)).init = .disabled ∧
      ((u1.execSt .terminate).execSt (.initialise 0xFF)).short = u1.short := by
    cases hsh : u1.short with
    | none => exact absurd hsh hne
    | some a => simp [Gear.execSt, Cmd.devicetype, Gear.step, Gear.tick, hsh]
  simp only [Bool.false_eq_true, if_false] at hcls ⊢
  rw [fold_disabled_stays dry rest hcls _ e2.1, e2.2, hs1]


theorem discover_only {α : Type} (C : Cmd → Prop) (hC : ∀ a, C (.queryGearPresent (.short a)))
    (k : List Nat → Prog α) (hk : ∀ av, Only C (k av)) : ∀ (as av : List Nat), Only C (discover as av k) := by
  intro as
  induction as with
  | nil => intro av; exact hk av
  | cons a as ih =>
    intro av
    simp only [discover]
    split
    · exact Only.send _ _ (hC a) (fun r => ih _)
    · exact ih _

theorem keepsShort_of_outer_dry (c : Cmd) (h : IsOuter true c) : KeepsShort c := by
  rcases h with rfl | h
  · trivial
  · cases c <;> first | exact h.elim | trivial | cases h

theorem commissioning_dry_only (rounds : Nat) (avail : Option (List Nat)) (re : Bool) :
    Only KeepsShort (commissioning rounds avail re true) := by
  have hb : ∀ av, Only KeepsShort (commBody rounds re true av) := by
    intro av
    unfold commBody
    refine Only.tell trivial (Only.tell trivial (Only.bind ((outer_only true rounds av []).mono
      keepsShort_of_outer_dry) ?_))
    intro h
    exact Only.tell trivial (Only.note _ _ (Only.done _))
  rw [commissioning_eq]
  cases re with
  | true => simp only [if_true]; exact Only.note _ _ (hb _)
  | false =>
    simp only [Bool.false_eq_true, if_false]
    exact discover_only _ (fun _ => trivial) _ (fun av => Only.note _ _ (hb av)) _ _

/-- **dry** — a dry run changes no short address (unit by unit) and sends no PROGRAM SHORT ADDRESS -/
theorem commissioning_dry (rounds : Nat) (avail : Option (List Nat)) (re : Bool) (b : Bus) :
    ∃ g : Gear → Gear, (runBus (commissioning rounds avail re true) b).st = b.map g ∧
      ∀ u, (g u).short = u.short := by
  refine ⟨fun u => (runBus (commissioning rounds avail re true) b).trace.foldl Gear.execSt u, runBus_st _ b, ?_⟩
  intro u
  exact fold_keeps_short _ ((commissioning_dry_only rounds avail re).trace Bus.exec b) u

end DaliVerif.GearSeq
