import DaliVerif.Model.Wire
import DaliVerif.Spec.Gateways
namespace DaliVerif.Proofs.WireEnc
open DaliVerif Wire Spec.Gateways Gen.DriverConsts

/-- model answer expected from a format entry: the packet, or the refusal -/
def expect {α} (e : PyErr) : Option α → PyRes α
  | some p => .ok p
  | none => .error e

theorem bytesOf16 (d : Nat) : bytesOf ⟨16, d⟩ = [d / 256 % 256, d % 256] := by
  simp [bytesOf, Frame.toBytesBE]

theorem bytesOf24 (d : Nat) : bytesOf ⟨24, d⟩ = [d / 65536 % 256, d / 256 % 256, d % 256] := by
  simp [bytesOf, Frame.toBytesBE]
  omega

theorem bytesOf8 (d : Nat) : bytesOf ⟨8, d⟩ = [d % 256] := by
  simp [bytesOf, Frame.toBytesBE]

theorem tridonic_conforms (seq : Nat) (c : Cmd) (hd : c.frame.data < 2 ^ c.frame.bits) :
    Tridonic.encode seq c =
      expect .UnsupportedFrameTypeError (tridonicSend seq c.frame.bits c.frame.data c.sendtwice) := by
  obtain ⟨⟨bits, data⟩, tw, q, s, dp⟩ := c
  simp only at hd
  by_cases h16 : bits = 16
  · subst h16
    have : data < 256 ^ 4 := by omega
    simp [Tridonic.encode, Tridonic.commandMode, Frame.packLenNat, this, Tridonic.pack, Frame.toBytesBE,
      tridonicSend, expect, zeros, tridonic_CMD_SEND, tridonic_SEND_CTRL_SENDTWICE, tridonic_SEND_MODE_DALI16]
    constructor <;> omega
  · by_cases h24 : bits = 24
    · subst h24
      have : data < 256 ^ 4 := by omega
      simp [Tridonic.encode, Tridonic.commandMode, Frame.packLenNat, this, Tridonic.pack, Frame.toBytesBE,
        tridonicSend, expect, zeros, tridonic_CMD_SEND, tridonic_SEND_CTRL_SENDTWICE, tridonic_SEND_MODE_DALI24]
      constructor <;> omega
    · simp [Tridonic.encode, tridonicSend, expect, h16, h24]


theorem hidhasseb_conforms (c : Cmd) (hd : c.frame.data < 2 ^ c.frame.bits) :
    HidHasseb.encode c = expect .UnsupportedFrameTypeError (hassebWrites c.frame.bits c.frame.data c.sendtwice) := by
  obtain ⟨⟨bits, data⟩, tw, q, s, dp⟩ := c
  simp only at hd
  by_cases h16 : bits = 16
  · subst h16
    have : data < 256 ^ 2 := by omega
    simp [HidHasseb.encode, Frame.packLenNat, this, Frame.toBytesBE, hassebWrites, expect]
  · simp [HidHasseb.encode, hassebWrites, expect, h16]

theorem luba_conforms (c : Cmd) :
    Luba.encode c = expect .ValueError
      (lubaSend c.frame.bits c.frame.data (lubaPriorityRule c) c.sendtwice) := by
  obtain ⟨⟨bits, data⟩, tw, q, s, dp⟩ := c
  by_cases h16 : bits = 16
  · subst h16
    simp only [Luba.encode, bytesOf16, lubaSend, expect, Luba.priority, lubaPriorityRule,
      lubaCmd_ADD_DALI_FRAME_TO_TX_CMD, xorAll]
    cases tw <;> cases q <;> cases s <;> cases dp <;> simp
  · by_cases h24 : bits = 24
    · subst h24
      simp only [Luba.encode, bytesOf24, lubaSend, expect, Luba.priority, lubaPriorityRule,
        lubaCmd_ADD_DALI_FRAME_TO_TX_CMD, xorAll]
      cases tw <;> cases q <;> cases s <;> cases dp <;> simp
    · simp [Luba.encode, lubaSend, expect, h16, h24]

theorem sci_conforms (c : Cmd) :
    Sci.encode c = expect .ValueError (sciSend c.frame.bits c.frame.data c.sendtwice) := by
  obtain ⟨⟨bits, data⟩, tw, q, s, dp⟩ := c
  by_cases h8 : bits = 8
  · subst h8
    simp only [Sci.encode, bytesOf8, sciSend, expect, xorAll]
    cases tw <;> simp
  · by_cases h16 : bits = 16
    · subst h16
      simp only [Sci.encode, bytesOf16, sciSend, expect, xorAll]
      cases tw <;> simp
    · by_cases h24 : bits = 24
      · subst h24
        simp only [Sci.encode, bytesOf24, sciSend, expect, xorAll]
        cases tw <;> simp
      · simp [Sci.encode, sciSend, expect, h8, h16, h24]

theorem daliserver_conforms (c : Cmd) :
    DaliServer.encode c = expect .UnsupportedFrameTypeError
      (daliserverSends c.frame.bits c.frame.data c.sendtwice) := by
  obtain ⟨⟨bits, data⟩, tw, q, s, dp⟩ := c
  by_cases h16 : bits = 16
  · subst h16
    simp [DaliServer.encode, bytesOf16, daliserverSends, expect]
  · simp [DaliServer.encode, daliserverSends, expect, h16]

theorem ltridonic_conforms (sn : Nat) (c : Cmd) :
    LegacyTridonic.encode sn c = expect .ValueError
      (if c.frame.bits = 16 then tridonicSend sn 16 c.frame.data c.sendtwice else none) := by
  obtain ⟨⟨bits, data⟩, tw, q, s, dp⟩ := c
  by_cases h16 : bits = 16
  · subst h16
    simp [LegacyTridonic.encode, bytesOf16, tridonicSend, expect, zeros, legacyTridonic_DALI_USB_DIRECTION_USB,
      legacyTridonic_DALI_USB_TYPE_16BIT]
  · simp [LegacyTridonic.encode, expect, h16]

theorem lhasseb_conforms (sn : Nat) (c : Cmd) :
    LegacyHasseb.encode sn c = expect .ValueError
      ((legacyHassebPacket (LegacyHasseb.snNext sn) c.frame.bits c.frame.data c.sendtwice c.isQuery).map
        (fun p => (p, LegacyHasseb.snNext sn))) := by
  obtain ⟨⟨bits, data⟩, tw, q, s, dp⟩ := c
  by_cases h16 : bits = 16
  · subst h16
    simp [LegacyHasseb.encode, bytesOf16, legacyHassebPacket, expect, legacyHasseb_HASSEB_DALI_FRAME]
  · simp [LegacyHasseb.encode, legacyHassebPacket, expect, h16]

theorem hexByte_eq : ∀ b, b < 256 → [Atx.hexDigit (b / 16), Atx.hexDigit (b % 16)] = hexByte b := by
  decide +kernel

theorem unipi_conforms (c : Cmd) :
    Unipi.encode c = expect .ValueError (unipiRegs c.frame.bits c.frame.data c.sendtwice) := by
  obtain ⟨⟨bits, data⟩, tw, q, s, dp⟩ := c
  have hor : ∀ a b : Nat, b < 256 → (a <<< 8) ||| b = a * 256 + b := by
    intro a b hb
    rw [← Nat.shiftLeft_add_eq_or_of_lt (by simpa using hb), Nat.shiftLeft_eq]
  by_cases h16 : bits = 16
  · subst h16
    simp only [Unipi.encode, bytesOf16, unipiRegs, expect, unipi_DA_OPT_TWICE, List.getD_cons_zero,
      List.getD_cons_succ]
    rw [hor _ _ (Nat.mod_lt _ (by decide))]
    cases tw <;> simp <;> omega
  · by_cases h24 : bits = 24
    · subst h24
      simp only [Unipi.encode, bytesOf24, unipiRegs, expect, unipi_DA_OPT_TWICE, List.getD_cons_zero,
        List.getD_cons_succ]
      rw [hor _ (data / 65536 % 256) (Nat.mod_lt _ (by decide)), hor _ (data % 256) (Nat.mod_lt _ (by decide))]
      cases tw <;> simp <;> omega
    · simp [Unipi.encode, unipiRegs, expect, h16, h24]

theorem atx_conforms (c : Cmd) :
    Atx.encode c = expect .KeyError (atxLine c.frame.bits c.frame.data c.sendtwice) := by
  obtain ⟨⟨bits, data⟩, tw, q, s, dp⟩ := c
  have hb : ∀ x : Nat, x % 256 < 256 := fun x => Nat.mod_lt _ (by decide)
  by_cases h8 : bits = 8
  · subst h8
    simp [Atx.encode, atxPrefixTable, List.lookup, bytesOf8, atxLine, expect, ← hexByte_eq _ (hb _)]
  · by_cases h16 : bits = 16
    · subst h16
      simp [Atx.encode, atxPrefixTable, List.lookup, bytesOf16, atxLine, expect, ← hexByte_eq _ (hb _)]
    · by_cases h24 : bits = 24
      · subst h24
        simp [Atx.encode, atxPrefixTable, List.lookup, bytesOf24, atxLine, expect, ← hexByte_eq _ (hb _)]
      · by_cases h25 : bits = 25
        · subst h25
          have e : bytesOf ⟨25, data⟩ = [data / 16777216 % 256, data / 65536 % 256, data / 256 % 256, data % 256] := by
            simp [bytesOf, Frame.toBytesBE]; omega
          simp [Atx.encode, atxPrefixTable, List.lookup, e, atxLine, expect, ← hexByte_eq _ (hb _)]
        · have hl : atxPrefixTable.lookup bits = none := by
            have e8 : (bits == 8) = false := by simp [h8]
            have e16 : (bits == 16) = false := by simp [h16]
            have e24 : (bits == 24) = false := by simp [h24]
            have e25 : (bits == 25) = false := by simp [h25]
            simp [atxPrefixTable, List.lookup, e8, e16, e24, e25]
          simp [Atx.encode, hl, atxLine, expect, h8, h16, h24, h25]

/-! ### sequence numbers -/

theorem tri_seq_range (start : Nat) (h : 1 ≤ start ∧ start ≤ 255) (n : Nat) :
    1 ≤ Tridonic.seqNth start n ∧ Tridonic.seqNth start n ≤ 255 := by
  induction n with
  | zero => exact h
  | succ n ih => simp only [Tridonic.seqNth, Tridonic.seqNext]; split <;> omega

theorem tri_seq_norepeat (start : Nat) (h : 1 ≤ start ∧ start ≤ 255) (n : Nat) :
    Tridonic.seqNth start (n + 1) ≠ Tridonic.seqNth start n := by
  have := tri_seq_range start h n
  simp only [Tridonic.seqNth, Tridonic.seqNext]; split <;> omega

theorem ltri_state_range (n : Nat) : 1 ≤ LegacyTridonic.snState n ∧ LegacyTridonic.snState n ≤ 255 := by
  induction n with
  | zero => simp [LegacyTridonic.snState, legacyTridonic_first_sn]
  | succ n ih => simp only [LegacyTridonic.snState, LegacyTridonic.getSn]; split <;> omega

theorem ltri_seq_norepeat (n : Nat) : LegacyTridonic.snNth (n + 1) ≠ LegacyTridonic.snNth n := by
  have := ltri_state_range n
  simp only [LegacyTridonic.snNth, LegacyTridonic.snState, LegacyTridonic.getSn]; split <;> omega

theorem lhas_seq_range (n : Nat) : 1 ≤ LegacyHasseb.snNth n ∧ LegacyHasseb.snNth n ≤ 255 := by
  induction n with
  | zero => simp [LegacyHasseb.snNth, LegacyHasseb.snNext, legacyHasseb_first_sn]
  | succ n ih => simp only [LegacyHasseb.snNth, LegacyHasseb.snNext]; split <;> omega

theorem lhas_seq_norepeat (n : Nat) : LegacyHasseb.snNth (n + 1) ≠ LegacyHasseb.snNth n := by
  have := lhas_seq_range n
  simp only [LegacyHasseb.snNth, LegacyHasseb.snNext]; split <;> omega
end DaliVerif.Proofs.WireEnc
