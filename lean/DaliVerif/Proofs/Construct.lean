import DaliVerif.Proofs.DecodeEvent
import DaliVerif.Model.Construct
/-!
# C02 helper: decoding what the constructors build
-/
set_option linter.unusedSimpArgs false
namespace DaliVerif.Cmd
open Frame Spec

/-! ## the decidable table condition for the converse direction -/

def isSpecialEntry : DevEntry → Bool
  | .special _ => true
  | _ => false

def specialsOf (l : List DevEntry) : List DevSpecialClass :=
  l.filterMap fun e => match e with | .special c => some c | _ => none

/-- two special device command classes could match the same frame -/
def overlap (a b : DevSpecialClass) : Bool :=
  a.addr == b.addr && (a.kind == .two || b.kind == .two || a.inst == b.inst)

def concrete (c : DevSpecialClass) : Bool := c.kind == .zero || c.kind == .one || c.kind == .two

def keysUnique {α β} [BEq α] (l : List (α × β)) : Bool :=
  l.all fun e => (l.filter fun e' => e'.1 == e.1).length == 1

/-- dispatch orders are the ones the model's converse proof relies on, special
address bytes decode to no address, special device classes do not overlap,
registry keys are unique -/
def TableOK2 (T : Tables) : Prop :=
  TableOK T ∧
  T.framesizes = [(16, [.gear]), (24, [.device, .event])] ∧
  T.gearCommands = [.unknown, .standard, .dapc, .special] ∧
  T.devCommands.take 3 = [.unknown, .stdDevice, .stdInstance] ∧
  (T.devCommands.drop 3).all isSpecialEntry = true ∧
  T.specialOpcodes.all (fun e => gearPartition (e.1 / 2 % 128) == none) = true ∧
  ((specialsOf T.devCommands).filter concrete).all
    (fun c => c.addr % 2 == 1 && devicePartition true (c.addr / 2 % 128) == none) = true ∧
  ((specialsOf T.devCommands).filter concrete).Pairwise (fun a b => overlap a b = false) ∧
  keysUnique T.stdOpcodes = true ∧ keysUnique T.specialOpcodes = true ∧
  keysUnique T.devOpcodes = true ∧ keysUnique T.instOpcodes = true ∧
  keysUnique T.instanceTypes = true ∧ keysUnique T.pushEvents = true

instance (T : Tables) : Decidable (TableOK2 T) := by unfold TableOK2; infer_instance

theorem lookup_of_mem {α β} [BEq α] [LawfulBEq α] {l : List (α × β)} (hu : keysUnique l = true)
    {k : α} {v : β} (h : (k, v) ∈ l) : lookup l k = some v := by
  unfold lookup
  induction l with
  | nil => cases h
  | cons x xs ih =>
    simp only [List.find?_cons]
    by_cases hx : x.1 == k
    · simp only [hx, Option.map_some, Option.some.injEq]
      -- the key occurs once, so the entry found is ours
      rcases List.mem_cons.mp h with e | hm
      · rw [← e]
      · exfalso
        simp only [keysUnique, List.all_cons, Bool.and_eq_true] at hu
        have h1 := hu.1
        simp only [List.filter_cons, beq_self_eq_true, if_true, List.length_cons, beq_iff_eq] at h1
        have : (k, v) ∈ xs.filter (fun e' => e'.1 == x.1) := by
          apply List.mem_filter.mpr
          refine ⟨hm, ?_⟩
          have : x.1 = k := by simpa using hx
          simp [this]
        have hpos := List.length_pos_of_mem this
        omega
    · simp only [hx]
      rcases List.mem_cons.mp h with e | hm
      · rw [← e] at hx; simp at hx
      · apply ih _ hm
        simp only [keysUnique, List.all_cons, Bool.and_eq_true] at hu ⊢
        have h2 := hu.2
        simp only [List.all_eq_true] at h2 ⊢
        intro e he
        have := h2 e he
        simp only [List.filter_cons] at this
        split at this
        · simp only [List.length_cons, beq_iff_eq] at this ⊢
          -- x.1 == e.1 : then e's key occurs twice in x :: xs, contradiction with `this`
          have hpos : 0 < (xs.filter fun e' => e'.1 == e.1).length := by
            apply List.length_pos_of_mem
            exact List.mem_filter.mpr ⟨he, by simp⟩
          omega
        · exact this

end DaliVerif.Cmd

namespace DaliVerif.Cmd
open Frame Spec

/-- **legal objects**: what the constructors accept (class registered, fields
in range, address of the right kind); the one excluded combination is an
instance command with the `Device` instance byte 0xFE -/
def WF (T : Tables) : Cmd → Prop
  | .generic .. => False
  | .unknownGear .. => False
  | .unknownDevice .. => False
  | .dapc a p => a.Valid ∧ a.isGear = true ∧ p ≤ 255
  | .standard c a p =>
      ((c.dt, c.cmdval + p), c) ∈ T.stdOpcodes ∧ a.Valid ∧ a.isGear = true ∧
      (if c.hasparam then p ≤ 15 else p = 0)
  | .special c p =>
      (c.cmdval, c) ∈ T.specialOpcodes ∧ c.kind = .plain ∧ (if c.hasparam then p ≤ 255 else p = 0)
  | .shortSpecial c addr =>
      (c.cmdval, c) ∈ T.specialOpcodes ∧ c.kind = .shortAddr ∧ (∀ a, addr = some a → a ≤ 63)
  | .initialise c b addr =>
      (c.cmdval, c) ∈ T.specialOpcodes ∧ c.kind = .initialise ∧ (∀ a, addr = some a → a ≤ 63 ∧ b = false)
  | .devStd c a => (c.opcode, c) ∈ T.devOpcodes ∧ a.Valid ∧ a.isGear = false
  | .devInst c a i =>
      (c.opcode, c) ∈ T.instOpcodes ∧ a.Valid ∧ a.isGear = false ∧ i.Canonical ∧ i ≠ .device
  | .devSpecial c p1 p2 =>
      .special c ∈ T.devCommands ∧
      (match c.kind with
       | .zero => p1 = c.inst ∧ p2 = 0
       | .one => p1 = c.inst ∧ p2 ≤ 255
       | .two => p1 ≤ 255 ∧ p2 ≤ 255
       | _ => False)
  | .event cls t src body =>
      SrcOK src ∧ t ≤ 31 ∧
      (match body with
       | .pushbutton pc =>
           cls = pc.name ∧ (pc.info, pc) ∈ T.pushEvents ∧
           ∃ et, (t, et) ∈ T.instanceTypes ∧ et.kind = .pushbutton
       | .occupancy .. => ∃ et, (t, et) ∈ T.instanceTypes ∧ et.kind = .occupancy ∧ et.name = cls
       | .light v => v < 1024 ∧ ∃ et, (t, et) ∈ T.instanceTypes ∧ et.kind = .light ∧ et.name = cls
       | .unknown _ => False)
  | .unknownEvent t src data =>
      SrcOK src ∧ data < 1024 ∧ (srcHasType src = true → 0 ≤ t ∧ t ≤ 31) ∧
      eventOfType T t src data = .unknownEvent t src data
  | .ambiguous sa inum data => sa ≤ 63 ∧ inum ≤ 31 ∧ data < 1024

structure Table2Facts (T : Tables) : Prop where
  base : TableFacts T
  fs : T.framesizes = [(16, [.gear]), (24, [.device, .event])]
  gearOrder : T.gearCommands = [.unknown, .standard, .dapc, .special]
  dev3 : T.devCommands.take 3 = [.unknown, .stdDevice, .stdInstance]
  devRest : (T.devCommands.drop 3).all isSpecialEntry = true
  specialNoAddr : ∀ e ∈ T.specialOpcodes, gearPartition (e.1 / 2 % 128) = none
  devSpecialNoAddr : ∀ c ∈ (specialsOf T.devCommands).filter concrete,
    c.addr % 2 = 1 ∧ devicePartition true (c.addr / 2 % 128) = none
  noOverlap : ((specialsOf T.devCommands).filter concrete).Pairwise (fun a b => overlap a b = false)
  uStd : keysUnique T.stdOpcodes = true
  uSpecial : keysUnique T.specialOpcodes = true
  uDev : keysUnique T.devOpcodes = true
  uInst : keysUnique T.instOpcodes = true
  uTypes : keysUnique T.instanceTypes = true
  uPush : keysUnique T.pushEvents = true

theorem TableOK2.facts {T : Tables} (h : TableOK2 T) : Table2Facts T := by
  obtain ⟨h0, h1, h2, h3, h4, h5, h6, h7, h8, h9, h10, h11, h12, h13⟩ := h
  refine ⟨h0.facts, h1, h2, h3, h4, ?_, ?_, h7, h8, h9, h10, h11, h12, h13⟩
  · intro e he
    have := (List.all_eq_true.mp h5) e he
    simpa using this
  · intro c hc
    have := (List.all_eq_true.mp h6) c hc
    simpa using this

/-- the ten information bits an event body puts into its frame -/
def dataOf : EventBody → Nat
  | .pushbutton pc => pc.info
  | .occupancy a b c d => a.toNat + 2 * b.toNat + 4 * c.toNat + 8 * d.toNat
  | .light v => v
  | .unknown x => x

/-- **the frame the standard assigns to an object** (IEC 62386-102 §7: `YAAAAAAS`
address byte then opcode/level; Table 16: fixed first byte then data; -103 §7:
address byte with bit 16 = 1, instance byte, opcode; Table 22: three fixed/data
bytes; Table 3: event source bits then ten information bits) -/
def frameOf : Cmd → Nat
  | .generic _ d => d
  | .unknownGear d => d
  | .unknownDevice d => d
  | .standard c a p => 512 * Addr.addrByte a + 256 + c.cmdval + p
  | .dapc a p => 512 * Addr.addrByte a + p
  | .special c p => c.cmdval * 256 + p
  | .shortSpecial c none => c.cmdval * 256 + 0xff
  | .shortSpecial c (some a) => c.cmdval * 256 + (2 * a + 1)
  | .initialise c true none => c.cmdval * 256 + 0
  | .initialise c false none => c.cmdval * 256 + 0xff
  | .initialise c _ (some a) => c.cmdval * 256 + (2 * a + 1)
  | .devStd c a => 131072 * Addr.addrByte a + 0x1FE00 + c.opcode
  | .devInst c a i => 131072 * Addr.addrByte a + 65536 + 256 * i.byte + c.opcode
  | .devSpecial c p1 p2 => (c.addr * 256 + p1) * 256 + p2
  | .event _ t src body => srcBits t src + dataOf body
  | .unknownEvent t src d => srcBits t.toNat src + d
  | .ambiguous sa inum d => srcBits 0 (.deviceInstance sa inum) + d

def bitsOf : Cmd → Nat
  | .generic b _ => b
  | .unknownGear _ | .standard .. | .dapc .. | .special .. | .shortSpecial .. | .initialise .. => 16
  | _ => 24

/-- decoding of a 16-bit frame with the standard dispatch order -/
theorem decode16 (T : Tables) (hT : Table2Facts T) (d dt : Nat) (m : Option InstMap) :
    decode T 16 d dt m =
      ((stdFromFrame T ⟨16, d⟩ dt).orElse fun _ =>
       (dapcFromFrame T ⟨16, d⟩).orElse fun _ => specialFromFrame T ⟨16, d⟩).getD (.unknownGear d) := by
  unfold decode gearFromFrame
  simp only [hT.fs, hT.gearOrder, lookup, List.find?_cons, beq_self_eq_true, Option.map_some,
    List.findSome?_cons, Option.getD_some]
  cases stdFromFrame T ⟨16, d⟩ dt <;> cases dapcFromFrame T ⟨16, d⟩ <;>
    cases specialFromFrame T ⟨16, d⟩ <;> rfl

theorem std_roundtrip (T : Tables) (hT : Table2Facts T) (c : StdClass) (a : Addr) (p : Nat)
    (m : Option InstMap) (h : WF T (.standard c a p)) :
    encode (.standard c a p) = .ok ⟨16, frameOf (.standard c a p)⟩ ∧ decode T 16 (frameOf (.standard c a p)) c.dt m = .standard c a p := by
  obtain ⟨hmem, hv, hg, hp⟩ := h
  have hok := hT.base.std _ hmem
  simp only [stdEntryOK, Bool.and_eq_true, decide_eq_true_eq] at hok
  obtain ⟨⟨_, hc⟩, hrel⟩ := hok
  have hlk := lookup_of_mem hT.uStd hmem
  have hb := Addr.addrByte_lt a hv
  cases hh : c.hasparam with
  | true =>
    simp only [hh, if_true, Bool.and_eq_true, beq_iff_eq, decide_eq_true_eq] at hrel hp
    show encode _ = .ok ⟨_, 512 * Addr.addrByte a + 256 + c.cmdval + p⟩ ∧ decode T _ (512 * Addr.addrByte a + 256 + c.cmdval + p) _ _ = _
    refine ⟨?_, ?_⟩
    · simp only [encode, hh, if_true, bind, Except.bind]
      rw [rangeCheck_ok _ 15 hp, or3 c.cmdval p hc (by omega) hrel.1.1,
        newFrame_ok 16 _ (by omega) (by simp; omega)]
      simp only []
      rw [Addr.addToFrame_gear a hv hg _ (by omega)]
      congr 2; omega
    · rw [decode16 T hT]
      have hpart : Addr.fromFrame T.addrOrder ⟨16, 512 * Addr.addrByte a + 256 + c.cmdval + p⟩ = some a := by
        rw [Addr.fromFrame_eq_partition _ hT.base.order]
        simp only [partition, if_true]
        have : (512 * Addr.addrByte a + 256 + c.cmdval + p) / 512 % 128 = Addr.addrByte a := by omega
        rw [this]; exact Addr.gearPartition_addrByte a hv hg
      have h8 : (512 * Addr.addrByte a + 256 + c.cmdval + p) / 256 % 2 = 1 := by omega
      have hop : (512 * Addr.addrByte a + 256 + c.cmdval + p) % 256 = c.cmdval + p := by omega
      simp only [stdFromFrame, bit, bitTest_eq, slice, getSliceRaw_eq, Nat.reducePow, Nat.reduceAdd,
        Nat.reduceSub, Nat.div_one, h8, decide_true, Bool.not_true, Bool.false_eq_true, if_false,
        hpart, hop, hlk, hh, if_true, and_15, Option.orElse, Option.getD_some]
      have : (c.cmdval + p) % 16 = p := by omega
      rw [this]
  | false =>
    simp only [hh, Bool.false_eq_true, if_false, beq_iff_eq] at hrel hp
    subst hp
    show encode _ = .ok ⟨_, 512 * Addr.addrByte a + 256 + c.cmdval⟩ ∧ decode T _ (512 * Addr.addrByte a + 256 + c.cmdval) _ _ = _
    refine ⟨?_, ?_⟩
    · simp only [encode, hh, Bool.false_eq_true, if_false, bind, Except.bind, Nat.or_zero, pure,
        Except.pure]
      rw [or_256 c.cmdval hc, newFrame_ok 16 _ (by omega) (by simp; omega)]
      simp only []
      rw [Addr.addToFrame_gear a hv hg _ (by omega)]
      congr 2; omega
    · rw [decode16 T hT]
      have hpart : Addr.fromFrame T.addrOrder ⟨16, 512 * Addr.addrByte a + 256 + c.cmdval⟩ = some a := by
        rw [Addr.fromFrame_eq_partition _ hT.base.order]
        simp only [partition, if_true]
        have : (512 * Addr.addrByte a + 256 + c.cmdval) / 512 % 128 = Addr.addrByte a := by omega
        rw [this]; exact Addr.gearPartition_addrByte a hv hg
      have h8 : (512 * Addr.addrByte a + 256 + c.cmdval) / 256 % 2 = 1 := by omega
      have hop : (512 * Addr.addrByte a + 256 + c.cmdval) % 256 = c.cmdval + 0 := by omega
      simp only [stdFromFrame, bit, bitTest_eq, slice, getSliceRaw_eq, Nat.reducePow, Nat.reduceAdd,
        Nat.reduceSub, Nat.div_one, h8, decide_true, Bool.not_true, Bool.false_eq_true, if_false,
        hpart, hop, hlk, hh, Option.orElse, Option.getD_some]

theorem dapc_roundtrip (T : Tables) (hT : Table2Facts T) (a : Addr) (p dt : Nat)
    (m : Option InstMap) (h : WF T (.dapc a p)) :
    encode (.dapc a p) = .ok ⟨16, frameOf (.dapc a p)⟩ ∧ decode T 16 (frameOf (.dapc a p)) dt m = .dapc a p := by
  obtain ⟨hv, hg, hp⟩ := h
  have hb := Addr.addrByte_lt a hv
  show encode _ = .ok ⟨_, 512 * Addr.addrByte a + p⟩ ∧ decode T _ (512 * Addr.addrByte a + p) _ _ = _
  refine ⟨?_, ?_⟩
  · simp only [encode, bind, Except.bind]
    rw [rangeCheck_ok _ 255 hp, newFrame_ok 16 _ (by omega) (by simp; omega)]
    simp only []
    rw [Addr.addToFrame_gear a hv hg _ (by omega)]
    congr 2; omega
  · rw [decode16 T hT]
    have hpart : Addr.fromFrame T.addrOrder ⟨16, 512 * Addr.addrByte a + p⟩ = some a := by
      rw [Addr.fromFrame_eq_partition _ hT.base.order]
      simp only [partition, if_true]
      have : (512 * Addr.addrByte a + p) / 512 % 128 = Addr.addrByte a := by omega
      rw [this]; exact Addr.gearPartition_addrByte a hv hg
    have h8 : ¬ ((512 * Addr.addrByte a + p) / 256 % 2 = 1) := by omega
    have hop : (512 * Addr.addrByte a + p) % 256 = p := by omega
    simp only [stdFromFrame, dapcFromFrame, bit, bitTest_eq, slice, getSliceRaw_eq, Nat.reducePow,
      Nat.reduceAdd, Nat.reduceSub, Nat.div_one, h8, decide_false, Bool.not_false, if_true,
      Bool.false_eq_true, if_false, hpart, hop, Option.orElse, Option.getD_some]

end DaliVerif.Cmd

namespace DaliVerif.Cmd
open Frame Spec

/-- a frame whose upper byte is a special command's opcode decodes through
`_SpecialCommand` only (no address) -/
theorem decode16_special (T : Tables) (hT : Table2Facts T) (c : SpecialClass)
    (hmem : (c.cmdval, c) ∈ T.specialOpcodes) (x : Nat) (hx : x < 256) (dt : Nat)
    (m : Option InstMap) :
    decode T 16 (c.cmdval * 256 + x) dt m =
      (specialClassFromFrame c ⟨16, c.cmdval * 256 + x⟩).getD (.unknownGear (c.cmdval * 256 + x)) := by
  have hok := hT.base.special _ hmem
  simp only [specialEntryOK, Bool.and_eq_true, beq_iff_eq, decide_eq_true_eq, bne_iff_ne, ne_eq,
    Bool.or_eq_true] at hok
  obtain ⟨⟨⟨_, hlt⟩, _⟩, _⟩ := hok
  have hna := hT.specialNoAddr _ hmem
  simp only at hna
  have hpart : Addr.fromFrame T.addrOrder ⟨16, c.cmdval * 256 + x⟩ = none := by
    rw [Addr.fromFrame_eq_partition _ hT.base.order]
    simp only [partition, if_true]
    have : (c.cmdval * 256 + x) / 512 % 128 = c.cmdval / 2 % 128 := by omega
    rw [this]; exact hna
  have hop : (c.cmdval * 256 + x) / 256 % 256 = c.cmdval := by omega
  rw [decode16 T hT]
  simp only [stdFromFrame, dapcFromFrame, hpart, specialFromFrame, slice, getSliceRaw_eq,
    Nat.reducePow, Nat.reduceAdd, Nat.reduceSub, Nat.div_one, hop, lookup_of_mem hT.uSpecial hmem]
  cases bit ⟨16, c.cmdval * 256 + x⟩ 8 <;> simp [Option.orElse]

theorem special_roundtrip (T : Tables) (hT : Table2Facts T) (c : SpecialClass) (p dt : Nat)
    (m : Option InstMap) (h : WF T (.special c p)) :
    encode (.special c p) = .ok ⟨16, frameOf (.special c p)⟩ ∧ decode T 16 (frameOf (.special c p)) dt m = .special c p := by
  obtain ⟨hmem, hkind, hp⟩ := h
  have hok := hT.base.special _ hmem
  simp only [specialEntryOK, Bool.and_eq_true, beq_iff_eq, decide_eq_true_eq, bne_iff_ne, ne_eq,
    Bool.or_eq_true] at hok
  obtain ⟨⟨⟨_, hlt⟩, _⟩, _⟩ := hok
  have hop : ∀ x, x < 256 → (c.cmdval * 256 + x) / 256 % 256 = c.cmdval := by intro x hx; omega
  have hge : ¬ (256 ≤ c.cmdval) := by omega
  cases hh : c.hasparam with
  | true =>
    simp only [hh, if_true] at hp
    show encode _ = .ok ⟨_, c.cmdval * 256 + p⟩ ∧ decode T _ (c.cmdval * 256 + p) _ _ = _
    refine ⟨?_, ?_⟩
    · simp only [encode, hh, if_true, bind, Except.bind]
      rw [rangeCheck_ok _ 255 hp]
      simp only []
      exact newFrame_bytes2 _ _ hlt (by omega)
    · rw [decode16_special T hT c hmem p (by omega)]
      have : (c.cmdval * 256 + p) % 256 = p := by omega
      simp [specialClassFromFrame, slice, getSliceRaw_eq, hop p (by omega), hkind, hh, this]
  | false =>
    simp only [hh, Bool.false_eq_true, if_false] at hp
    subst hp
    show encode _ = .ok ⟨_, c.cmdval * 256 + 0⟩ ∧ decode T _ (c.cmdval * 256 + 0) _ _ = _
    refine ⟨?_, ?_⟩
    · simp only [encode, hh, Bool.false_eq_true, if_false, bind, Except.bind, pure, Except.pure]
      exact newFrame_bytes2 c.cmdval 0 hlt (by omega)
    · rw [decode16_special T hT c hmem 0 (by omega)]
      simp [specialClassFromFrame, slice, getSliceRaw_eq, hop 0 (by omega), hkind, hh, hge]

theorem shortSpecial_roundtrip (T : Tables) (hT : Table2Facts T) (c : SpecialClass)
    (addr : Option Nat) (dt : Nat) (m : Option InstMap) (h : WF T (.shortSpecial c addr)) :
    encode (.shortSpecial c addr) = .ok ⟨16, frameOf (.shortSpecial c addr)⟩ ∧ decode T 16 (frameOf (.shortSpecial c addr)) dt m = .shortSpecial c addr := by
  obtain ⟨hmem, hkind, ha⟩ := h
  have hok := hT.base.special _ hmem
  simp only [specialEntryOK, Bool.and_eq_true, beq_iff_eq, decide_eq_true_eq, bne_iff_ne, ne_eq,
    Bool.or_eq_true] at hok
  obtain ⟨⟨⟨_, hlt⟩, _⟩, _⟩ := hok
  have hop : ∀ x, x < 256 → (c.cmdval * 256 + x) / 256 % 256 = c.cmdval := by intro x hx; omega
  have hge : ¬ (256 ≤ c.cmdval) := by omega
  cases addr with
  | none =>
    show encode _ = .ok ⟨_, c.cmdval * 256 + 0xff⟩ ∧ decode T _ (c.cmdval * 256 + 0xff) _ _ = _
    refine ⟨?_, ?_⟩
    · simp only [encode, bind, Except.bind, pure, Except.pure]
      exact newFrame_bytes2 c.cmdval 0xff hlt (by omega)
    · rw [decode16_special T hT c hmem 0xff (by omega)]
      have : (c.cmdval * 256 + 255) % 256 = 255 := by omega
      simp [specialClassFromFrame, slice, getSliceRaw_eq, hop 255 (by omega), hkind, this]
  | some a =>
    have ha' : a ≤ 63 := ha a rfl
    show encode _ = .ok ⟨_, c.cmdval * 256 + (2 * a + 1)⟩ ∧ decode T _ (c.cmdval * 256 + (2 * a + 1)) _ _ = _
    refine ⟨?_, ?_⟩
    · simp only [encode, bind, Except.bind, pure, Except.pure]
      rw [rangeCheck_ok _ 63 ha']
      simp only [shl1_or1]
      exact newFrame_bytes2 _ _ hlt (by omega)
    · rw [decode16_special T hT c hmem (2 * a + 1) (by omega)]
      have e1 : (c.cmdval * 256 + (2 * a + 1)) % 256 = 2 * a + 1 := by omega
      have e2 : ¬ (2 * a + 1 = 255) := by omega
      have e2' : ¬ (2 * a = 254) := by omega
      have e3 : ¬ ((c.cmdval * 256 + (2 * a + 1)) / 128 % 2 = 1) := by omega
      have e4 : (c.cmdval * 256 + (2 * a + 1)) % 2 = 1 := by omega
      have e5 : (c.cmdval * 256 + (2 * a + 1)) / 2 % 64 = a := by omega
      simp [specialClassFromFrame, slice, bit, bitTest_eq, getSliceRaw_eq, hop _ (by omega : 2 * a + 1 < 256),
        hkind, e1, e2, e2', e3, e4, e5, hge]

theorem initialise_roundtrip (T : Tables) (hT : Table2Facts T) (c : SpecialClass) (b : Bool)
    (addr : Option Nat) (dt : Nat) (m : Option InstMap) (h : WF T (.initialise c b addr)) :
    encode (.initialise c b addr) = .ok ⟨16, frameOf (.initialise c b addr)⟩ ∧ decode T 16 (frameOf (.initialise c b addr)) dt m = .initialise c b addr := by
  obtain ⟨hmem, hkind, ha⟩ := h
  have hok := hT.base.special _ hmem
  simp only [specialEntryOK, Bool.and_eq_true, beq_iff_eq, decide_eq_true_eq, bne_iff_ne, ne_eq,
    Bool.or_eq_true] at hok
  obtain ⟨⟨⟨_, hlt⟩, _⟩, _⟩ := hok
  have hop : ∀ x, x < 256 → (c.cmdval * 256 + x) / 256 % 256 = c.cmdval := by intro x hx; omega
  have hge : ¬ (256 ≤ c.cmdval) := by omega
  cases addr with
  | none =>
    cases b with
    | true =>
      show encode _ = .ok ⟨_, c.cmdval * 256 + 0⟩ ∧ decode T _ (c.cmdval * 256 + 0) _ _ = _
      refine ⟨?_, ?_⟩
      · simp only [encode, bind, Except.bind, pure, Except.pure, Option.isSome_none, Bool.and_false,
          Bool.false_eq_true, if_false, if_true]
        exact newFrame_bytes2 c.cmdval 0 hlt (by omega)
      · rw [decode16_special T hT c hmem 0 (by omega)]
        simp [specialClassFromFrame, slice, getSliceRaw_eq, hop 0 (by omega), hkind, hge]
    | false =>
      show encode _ = .ok ⟨_, c.cmdval * 256 + 0xff⟩ ∧ decode T _ (c.cmdval * 256 + 0xff) _ _ = _
      refine ⟨?_, ?_⟩
      · simp only [encode, bind, Except.bind, pure, Except.pure, Option.isSome_none, Bool.and_false,
          Bool.false_eq_true, if_false]
        exact newFrame_bytes2 c.cmdval 0xff hlt (by omega)
      · rw [decode16_special T hT c hmem 0xff (by omega)]
        have : (c.cmdval * 256 + 255) % 256 = 255 := by omega
        simp [specialClassFromFrame, slice, getSliceRaw_eq, hop 255 (by omega), hkind, this]
  | some a =>
    obtain ⟨ha', hb⟩ := ha a rfl
    subst hb
    show encode _ = .ok ⟨_, c.cmdval * 256 + (2 * a + 1)⟩ ∧ decode T _ (c.cmdval * 256 + (2 * a + 1)) _ _ = _
    refine ⟨?_, ?_⟩
    · simp only [encode, bind, Except.bind, pure, Except.pure, Bool.false_and, Bool.false_eq_true,
        if_false]
      rw [rangeCheck_ok _ 63 ha']
      simp only [shl1_or1]
      exact newFrame_bytes2 _ _ hlt (by omega)
    · rw [decode16_special T hT c hmem (2 * a + 1) (by omega)]
      have e1 : (c.cmdval * 256 + (2 * a + 1)) % 256 = 2 * a + 1 := by omega
      have e2 : ¬ (2 * a + 1 = 255) := by omega
      have e2' : ¬ (2 * a = 254) := by omega
      have e3 : ¬ ((c.cmdval * 256 + (2 * a + 1)) / 128 % 2 = 1) := by omega
      have e4 : (c.cmdval * 256 + (2 * a + 1)) % 2 = 1 := by omega
      have e5 : (c.cmdval * 256 + (2 * a + 1)) / 2 % 64 = a := by omega
      simp [specialClassFromFrame, slice, bit, bitTest_eq, getSliceRaw_eq, hop _ (by omega : 2 * a + 1 < 256),
        hkind, e1, e2, e2', e3, e4, e5, hge]

end DaliVerif.Cmd

namespace DaliVerif.Cmd
open Frame Spec

theorem pairwise_mem {α} {R : α → α → Prop} (hs : ∀ a b, R a b → R b a) {l : List α}
    (h : l.Pairwise R) {a b : α} (ha : a ∈ l) (hb : b ∈ l) (hne : a ≠ b) : R a b := by
  induction h with
  | nil => cases ha
  | cons hx _ ih =>
    rename_i x xs
    rcases List.mem_cons.mp ha with rfl | ha'
    · rcases List.mem_cons.mp hb with rfl | hb'
      · exact absurd rfl hne
      · exact hx b hb'
    · rcases List.mem_cons.mp hb with rfl | hb'
      · exact hs _ _ (hx a ha')
      · exact ih ha' hb'

theorem overlap_symm (a b : DevSpecialClass) (h : overlap a b = false) : overlap b a = false := by
  simp only [overlap, Bool.and_eq_false_iff, Bool.or_eq_false_iff, beq_eq_false_iff_ne, ne_eq] at *
  rcases h with h | ⟨⟨h1, h2⟩, h3⟩
  · left; exact fun e => h e.symm
  · right; exact ⟨⟨h2, h1⟩, fun e => h3 e.symm⟩

/-- decoding of a 24-bit frame with the standard dispatch order -/
theorem decode24 (T : Tables) (hT : Table2Facts T) (d dt : Nat) (m : Option InstMap) :
    decode T 24 d dt m =
      ((deviceFromFrame T ⟨24, d⟩).orElse fun _ => eventFromFrame T ⟨24, d⟩ m).getD (.generic 24 d) := by
  unfold decode
  simp only [hT.fs, lookup, List.find?_cons, Option.map_some, List.findSome?_cons]
  have : ((16 : Nat) == 24) = false := by decide
  simp only [this, beq_self_eq_true, Option.map_some, List.findSome?_cons, List.findSome?_nil]
  cases deviceFromFrame T ⟨24, d⟩ <;> cases eventFromFrame T ⟨24, d⟩ m <;> rfl

/-- `_DeviceCommand.from_frame` with the standard order, for a command frame -/
theorem deviceFromFrame_eq (T : Tables) (hT : Table2Facts T) (d : Nat) (h16 : d / 65536 % 2 = 1) :
    deviceFromFrame T ⟨24, d⟩ = some
      (((stdDeviceFromFrame T ⟨24, d⟩).orElse fun _ =>
        (stdInstanceFromFrame T ⟨24, d⟩).orElse fun _ =>
        (T.devCommands.drop 3).findSome? fun e =>
          match e with
          | .special c => devSpecialFromFrame c ⟨24, d⟩
          | _ => none).getD (.unknownDevice d)) := by
  unfold deviceFromFrame
  simp only [bit, bitTest_eq, h16, decide_true, Bool.not_true, Bool.false_eq_true, if_false,
    Nat.reducePow]
  congr 1
  conv => lhs; rw [← List.take_append_drop 3 T.devCommands, hT.dev3]
  simp only [List.cons_append, List.nil_append, List.findSome?_cons]
  have hrest : ∀ (g₁ g₂ : DevEntry → Option Cmd), (∀ e, isSpecialEntry e = true → g₁ e = g₂ e) →
      (T.devCommands.drop 3).findSome? g₁ = (T.devCommands.drop 3).findSome? g₂ := by
    intro g₁ g₂ hg
    have hall := List.all_eq_true.mp hT.devRest
    generalize T.devCommands.drop 3 = L at hall
    induction L with
    | nil => rfl
    | cons x xs ih =>
      simp only [List.findSome?_cons, hg x (hall x (by simp))]
      cases g₂ x with
      | some _ => rfl
      | none => exact ih (fun e he => hall e (by simp [he]))
  rw [hrest _ (fun e => match e with | .special c => devSpecialFromFrame c ⟨24, d⟩ | _ => none)
    (by intro e he; cases e <;> simp [isSpecialEntry] at he ⊢)]
  cases stdDeviceFromFrame T ⟨24, d⟩ <;> cases stdInstanceFromFrame T ⟨24, d⟩ <;> rfl

theorem devStd_roundtrip (T : Tables) (hT : Table2Facts T) (c : DevClass) (a : Addr) (dt : Nat)
    (m : Option InstMap) (h : WF T (.devStd c a)) :
    encode (.devStd c a) = .ok ⟨24, frameOf (.devStd c a)⟩ ∧ decode T 24 (frameOf (.devStd c a)) dt m = .devStd c a := by
  obtain ⟨hmem, hv, hg⟩ := h
  have hok := hT.base.dev _ hmem
  simp only [devEntryOK, Bool.and_eq_true, beq_iff_eq, decide_eq_true_eq] at hok
  obtain ⟨⟨_, hlt⟩, _⟩ := hok
  have hb := Addr.addrByte_lt a hv
  show encode _ = .ok ⟨_, 131072 * Addr.addrByte a + 0x1FE00 + c.opcode⟩ ∧ decode T _ (131072 * Addr.addrByte a + 0x1FE00 + c.opcode) _ _ = _
  refine ⟨?_, ?_⟩
  · simp only [encode, bind, Except.bind]
    rw [or_1FE00 _ hlt, newFrame_ok 24 _ (by omega) (by simp; omega)]
    simp only []
    rw [Addr.addToFrame_device a hv hg _ (by omega)]
    congr 2; omega
  · have h16 : (131072 * Addr.addrByte a + 0x1FE00 + c.opcode) / 65536 % 2 = 1 := by omega
    rw [decode24 T hT, deviceFromFrame_eq T hT _ h16]
    have hpart : Addr.fromFrame T.addrOrder ⟨24, 131072 * Addr.addrByte a + 0x1FE00 + c.opcode⟩ = some a := by
      rw [Addr.fromFrame_eq_partition _ hT.base.order]
      have e1 : (131072 * Addr.addrByte a + 0x1FE00 + c.opcode) / 131072 % 128 = Addr.addrByte a := by omega
      simp only [partition, Nat.reduceEqDiff, if_false, if_true, e1, h16, decide_true]
      exact Addr.devicePartition_addrByte a hv hg
    have e2 : (131072 * Addr.addrByte a + 0x1FE00 + c.opcode) / 256 % 512 = 0x1FE := by omega
    have e3 : (131072 * Addr.addrByte a + 0x1FE00 + c.opcode) % 256 = c.opcode := by omega
    simp [stdDeviceFromFrame, slice, getSliceRaw_eq, e2, e3, hpart, lookup_of_mem hT.uDev hmem,
      Option.orElse]

theorem byte_fe_device (i : Inst) (hc : i.Canonical) (h : i.byte = 0xFE) : i = .device := by
  have := Inst.ofByteModel_byte i hc
  rw [h] at this
  rw [← this]; decide

theorem devInst_roundtrip (T : Tables) (hT : Table2Facts T) (c : DevClass) (a : Addr) (i : Inst)
    (dt : Nat) (m : Option InstMap) (h : WF T (.devInst c a i)) :
    encode (.devInst c a i) = .ok ⟨24, frameOf (.devInst c a i)⟩ ∧ decode T 24 (frameOf (.devInst c a i)) dt m = .devInst c a i := by
  obtain ⟨hmem, hv, hg, hcan, hnd⟩ := h
  have hok := hT.base.inst _ hmem
  simp only [devEntryOK, Bool.and_eq_true, beq_iff_eq, decide_eq_true_eq] at hok
  obtain ⟨⟨_, hlt⟩, _⟩ := hok
  have hb := Addr.addrByte_lt a hv
  have hib := Inst.byte_lt i hcan.1
  have hfe : i.byte ≠ 0xFE := fun e => hnd (byte_fe_device i hcan e)
  show encode _ = .ok ⟨_, 131072 * Addr.addrByte a + 65536 + 256 * i.byte + c.opcode⟩ ∧ decode T _ (131072 * Addr.addrByte a + 65536 + 256 * i.byte + c.opcode) _ _ = _
  refine ⟨?_, ?_⟩
  · simp only [encode, bind, Except.bind]
    rw [or_10000 _ hlt, newFrame_ok 24 _ (by omega) (by simp; omega)]
    simp only []
    rw [Addr.addToFrame_device a hv hg _ (by omega)]
    simp only []
    rw [Inst.addToFrame_ok i hib _ (by simp; omega)]
    simp only [setSliceA, Nat.reducePow, Nat.reduceAdd, Nat.reduceSub]
    congr 2; omega
  · have h16 : (131072 * Addr.addrByte a + 65536 + 256 * i.byte + c.opcode) / 65536 % 2 = 1 := by omega
    rw [decode24 T hT, deviceFromFrame_eq T hT _ h16]
    have hpart : Addr.fromFrame T.addrOrder ⟨24, 131072 * Addr.addrByte a + 65536 + 256 * i.byte + c.opcode⟩ = some a := by
      rw [Addr.fromFrame_eq_partition _ hT.base.order]
      have e1 : (131072 * Addr.addrByte a + 65536 + 256 * i.byte + c.opcode) / 131072 % 128 = Addr.addrByte a := by omega
      simp only [partition, Nat.reduceEqDiff, if_false, if_true, e1, h16, decide_true]
      exact Addr.devicePartition_addrByte a hv hg
    have e2 : ¬ ((131072 * Addr.addrByte a + 65536 + 256 * i.byte + c.opcode) / 256 % 512 = 0x1FE) := by omega
    have e3 : (131072 * Addr.addrByte a + 65536 + 256 * i.byte + c.opcode) % 256 = c.opcode := by omega
    have e4 : (131072 * Addr.addrByte a + 65536 + 256 * i.byte + c.opcode) / 256 % 256 = i.byte := by omega
    have hinst : Inst.fromFrame ⟨24, 131072 * Addr.addrByte a + 65536 + 256 * i.byte + c.opcode⟩ = some i := by
      rw [Inst.fromFrame_eq_ofByteModel, e4, Inst.ofByteModel_byte i hcan]
    simp [stdDeviceFromFrame, stdInstanceFromFrame, bit, bitTest_eq, slice, getSliceRaw_eq, e2, e3, h16,
      hpart, hinst, lookup_of_mem hT.uInst hmem, Option.orElse]

end DaliVerif.Cmd

namespace DaliVerif.Cmd
open Frame Spec

theorem findSome?_unique_mem {α β} (g : α → Option β) (l : List α) (b : β)
    (huniq : ∀ k ∈ l, ∀ b', g k = some b' → b' = b) (k : α) (hk : k ∈ l) (hg : g k = some b) :
    l.findSome? g = some b := by
  induction l with
  | nil => cases hk
  | cons x xs ih =>
    simp only [List.findSome?_cons]
    cases hx : g x with
    | some b' => simp [huniq x (by simp) b' hx]
    | none =>
      simp only
      rcases List.mem_cons.mp hk with rfl | hk'
      · rw [hx] at hg; contradiction
      · exact ih (fun k hk b' h => huniq k (by simp [hk]) b' h) hk'

theorem mem_specialsOf {l : List DevEntry} {c : DevSpecialClass} (h : DevEntry.special c ∈ l) :
    c ∈ specialsOf l := by
  unfold specialsOf
  exact List.mem_filterMap.mpr ⟨.special c, h, rfl⟩

theorem devSpecial_roundtrip (T : Tables) (hT : Table2Facts T) (c : DevSpecialClass) (p1 p2 dt : Nat)
    (m : Option InstMap) (h : WF T (.devSpecial c p1 p2)) :
    encode (.devSpecial c p1 p2) = .ok ⟨24, frameOf (.devSpecial c p1 p2)⟩ ∧ decode T 24 (frameOf (.devSpecial c p1 p2)) dt m = .devSpecial c p1 p2 := by
  obtain ⟨hmem, hk⟩ := h
  have hconc : concrete c = true := by
    cases hkk : c.kind <;> simp [hkk, concrete] at hk ⊢
  have hcmem : c ∈ (specialsOf T.devCommands).filter concrete :=
    List.mem_filter.mpr ⟨mem_specialsOf hmem, hconc⟩
  obtain ⟨hodd, hnoaddr⟩ := hT.devSpecialNoAddr c hcmem
  have hok := hT.base.devc _ hmem
  simp only [devCmdOK] at hok
  -- ranges of the three bytes and the encoded frame
  have hranges : c.addr < 256 ∧ p1 < 256 ∧ p2 < 256 ∧
      encode (.devSpecial c p1 p2) = .ok ⟨24, (c.addr * 256 + p1) * 256 + p2⟩ ∧
      devSpecialFromFrame c ⟨24, (c.addr * 256 + p1) * 256 + p2⟩ = some (.devSpecial c p1 p2) := by
    cases hkk : c.kind with
    | zero =>
      simp only [hkk, Bool.and_eq_true, decide_eq_true_eq] at hk hok
      obtain ⟨rfl, rfl⟩ := hk
      refine ⟨hok.1, hok.2, by omega, ?_, ?_⟩
      · simp only [encode, hkk, bind, Except.bind, pure, Except.pure]
        exact newFrame_bytes3 c.addr c.inst 0 hok.1 hok.2 (by omega)
      · have e1 : ((c.addr * 256 + c.inst) * 256 + 0) / 65536 % 256 = c.addr := by omega
        have e2 : ((c.addr * 256 + c.inst) * 256 + 0) / 256 % 256 = c.inst := by omega
        have e3 : ((c.addr * 256 + c.inst) * 256 + 0) % 256 = 0 := by omega
        simp only [devSpecialFromFrame, hkk, slice, getSliceRaw_eq, Nat.reducePow, Nat.reduceAdd,
          Nat.reduceSub, Nat.div_one, e1, e2, e3]
        simp
    | one =>
      simp only [hkk, Bool.and_eq_true, decide_eq_true_eq] at hk hok
      obtain ⟨rfl, hp2⟩ := hk
      refine ⟨hok.1, hok.2, by omega, ?_, ?_⟩
      · simp only [encode, hkk, bind, Except.bind, pure, Except.pure]
        rw [rangeCheck_ok _ 255 hp2]
        exact newFrame_bytes3 c.addr c.inst p2 hok.1 hok.2 (by omega)
      · have e1 : ((c.addr * 256 + c.inst) * 256 + p2) / 65536 % 256 = c.addr := by omega
        have e2 : ((c.addr * 256 + c.inst) * 256 + p2) / 256 % 256 = c.inst := by omega
        have e3 : ((c.addr * 256 + c.inst) * 256 + p2) % 256 = p2 := by omega
        simp [devSpecialFromFrame, hkk, slice, getSliceRaw_eq, e1, e2, e3]
    | two =>
      simp only [hkk, decide_eq_true_eq] at hk hok
      obtain ⟨hp1, hp2⟩ := hk
      refine ⟨hok, by omega, by omega, ?_, ?_⟩
      · simp only [encode, hkk, bind, Except.bind, pure, Except.pure]
        rw [rangeCheck_ok _ 255 hp1]
        simp only []
        rw [rangeCheck_ok _ 255 hp2]
        exact newFrame_bytes3 c.addr p1 p2 hok (by omega) (by omega)
      · have e1 : ((c.addr * 256 + p1) * 256 + p2) / 65536 % 256 = c.addr := by omega
        have e2 : ((c.addr * 256 + p1) * 256 + p2) / 256 % 256 = p1 := by omega
        have e3 : ((c.addr * 256 + p1) * 256 + p2) % 256 = p2 := by omega
        simp [devSpecialFromFrame, hkk, slice, getSliceRaw_eq, e1, e2, e3]
    | abstractBase => simp [hkk] at hk
    | custom => simp [hkk] at hk
  obtain ⟨ha, hp1, hp2, henc, hself⟩ := hranges
  refine ⟨henc, ?_⟩
  show decode T 24 ((c.addr * 256 + p1) * 256 + p2) dt m = _
  have h16 : ((c.addr * 256 + p1) * 256 + p2) / 65536 % 2 = 1 := by omega
  rw [decode24 T hT, deviceFromFrame_eq T hT _ h16]
  have hpart : Addr.fromFrame T.addrOrder ⟨24, (c.addr * 256 + p1) * 256 + p2⟩ = none := by
    rw [Addr.fromFrame_eq_partition _ hT.base.order]
    have e1 : ((c.addr * 256 + p1) * 256 + p2) / 131072 % 128 = c.addr / 2 % 128 := by omega
    simp only [partition, Nat.reduceEqDiff, if_false, if_true, e1, h16, decide_true]
    exact hnoaddr
  have hstd : stdDeviceFromFrame T ⟨24, (c.addr * 256 + p1) * 256 + p2⟩ = none := by
    simp only [stdDeviceFromFrame, hpart]
    split <;> rfl
  have hinst : stdInstanceFromFrame T ⟨24, (c.addr * 256 + p1) * 256 + p2⟩ = none := by
    simp only [stdInstanceFromFrame, hpart]
    split <;> rfl
  -- among the special classes only `c` matches
  have hfind : (T.devCommands.drop 3).findSome? (fun e =>
      match e with
      | .special c' => devSpecialFromFrame c' ⟨24, (c.addr * 256 + p1) * 256 + p2⟩
      | _ => none) = some (.devSpecial c p1 p2) := by
    have hin : DevEntry.special c ∈ T.devCommands.drop 3 := by
      have := hmem
      rw [← List.take_append_drop 3 T.devCommands, hT.dev3] at this
      simpa using this
    apply findSome?_unique_mem _ _ _ _ (.special c) hin hself
    intro k hkm b' hb'
    cases k with
    | special c' =>
      simp only at hb'
      have hc'mem : DevEntry.special c' ∈ T.devCommands := List.mem_of_mem_drop hkm
      -- c' matches the frame, so it is concrete and overlaps c, hence is c
      have e1 : ((c.addr * 256 + p1) * 256 + p2) / 65536 % 256 = c.addr := by omega
      have e2 : ((c.addr * 256 + p1) * 256 + p2) / 256 % 256 = p1 := by omega
      have hmatch : concrete c' = true ∧ overlap c' c = true := by
        unfold devSpecialFromFrame at hb'
        simp only [slice, getSliceRaw_eq, Nat.reducePow, Nat.reduceAdd, Nat.reduceSub, Nat.div_one,
          e1, e2] at hb'
        cases hk' : c'.kind with
        | zero =>
          simp only [hk'] at hb'
          split at hb'
          · rename_i hm
            simp only [Bool.and_eq_true, beq_iff_eq] at hm
            refine ⟨by simp [concrete, hk'], ?_⟩
            simp only [overlap, Bool.and_eq_true, beq_iff_eq, Bool.or_eq_true]
            refine ⟨hm.1.1.symm, ?_⟩
            cases hkk : c.kind with
            | two => simp
            | zero => simp only [hkk] at hk; right; rw [← hk.1]; exact hm.1.2.symm
            | one => simp only [hkk] at hk; right; rw [← hk.1]; exact hm.1.2.symm
            | abstractBase => simp [hkk] at hk
            | custom => simp [hkk] at hk
          · contradiction
        | one =>
          simp only [hk'] at hb'
          split at hb'
          · rename_i hm
            simp only [Bool.and_eq_true, beq_iff_eq] at hm
            refine ⟨by simp [concrete, hk'], ?_⟩
            simp only [overlap, Bool.and_eq_true, beq_iff_eq, Bool.or_eq_true]
            refine ⟨hm.1.symm, ?_⟩
            cases hkk : c.kind with
            | two => simp
            | zero => simp only [hkk] at hk; right; rw [← hk.1]; exact hm.2.symm
            | one => simp only [hkk] at hk; right; rw [← hk.1]; exact hm.2.symm
            | abstractBase => simp [hkk] at hk
            | custom => simp [hkk] at hk
          · contradiction
        | two =>
          simp only [hk'] at hb'
          split at hb'
          · rename_i hm
            simp only [beq_iff_eq] at hm
            refine ⟨by simp [concrete, hk'], ?_⟩
            simp [overlap, hm.symm, hk']
          · contradiction
        | abstractBase => simp [hk'] at hb'
        | custom => simp [hk'] at hb'
      have hc'f : c' ∈ (specialsOf T.devCommands).filter concrete :=
        List.mem_filter.mpr ⟨mem_specialsOf hc'mem, hmatch.1⟩
      have hcc : c' = c := by
        apply Decidable.byContradiction
        intro hne
        have := pairwise_mem overlap_symm hT.noOverlap hc'f hcmem hne
        rw [hmatch.2] at this
        contradiction
      subst hcc
      rw [hself] at hb'
      injection hb' with hb'
      exact hb'.symm
    | _ => simp at hb'
  simp [hstd, hinst, hfind, Option.orElse]

end DaliVerif.Cmd

namespace DaliVerif.Cmd
open Frame Spec

/-- the map resolves the source of a device/instance-scheme event to type `t` -/
def MapNames (m : Option InstMap) (t : Int) : EventSrc → Prop
  | .deviceInstance sa inum => (m.bind fun mm => mm.getType sa inum) = some t
  | _ => True

/-- **an event frame built from (type, source, information) decodes to the event
class selected for exactly these** -/
theorem eventFrame_decode (T : Tables) (t : Int) (src : EventSrc) (data : Nat) (m : Option InstMap)
    (hs : SrcOK src) (ht : srcHasType src = true → 0 ≤ t ∧ t ≤ 31) (hd : data < 1024)
    (hm : MapNames m t src) :
    eventFromFrame T ⟨24, srcBits t.toNat src + data⟩ m = some (eventOfType T t src data) := by
  unfold eventFromFrame
  simp only [bit, bitTest_eq, slice, getSliceRaw_eq, Nat.reducePow, Nat.reduceAdd, Nat.reduceSub,
    Nat.div_one]
  cases src with
  | device sa =>
    obtain ⟨h0, h31⟩ := ht rfl
    have hsa : sa ≤ 63 := hs
    have hc : ((t.toNat : Nat) : Int) = t := by omega
    simp only [srcBits]
    have e16 : ¬ ((sa * 131072 + t.toNat * 1024 + data) / 65536 % 2 = 1) := by omega
    have e23 : ¬ ((sa * 131072 + t.toNat * 1024 + data) / 8388608 % 2 = 1) := by omega
    have e15 : ¬ ((sa * 131072 + t.toNat * 1024 + data) / 32768 % 2 = 1) := by omega
    have f1 : (sa * 131072 + t.toNat * 1024 + data) / 1024 % 32 = t.toNat := by omega
    have f2 : (sa * 131072 + t.toNat * 1024 + data) / 131072 % 64 = sa := by omega
    have f3 : (sa * 131072 + t.toNat * 1024 + data) % 1024 = data := by omega
    simp [e16, e23, e15, f1, f2, f3, hc]
  | deviceInstance sa inum =>
    obtain ⟨hsa, hin⟩ : sa ≤ 63 ∧ inum ≤ 31 := hs
    simp only [srcBits]
    have e16 : ¬ ((sa * 131072 + 32768 + inum * 1024 + data) / 65536 % 2 = 1) := by omega
    have e23 : ¬ ((sa * 131072 + 32768 + inum * 1024 + data) / 8388608 % 2 = 1) := by omega
    have e15 : (sa * 131072 + 32768 + inum * 1024 + data) / 32768 % 2 = 1 := by omega
    have f1 : (sa * 131072 + 32768 + inum * 1024 + data) / 1024 % 32 = inum := by omega
    have f2 : (sa * 131072 + 32768 + inum * 1024 + data) / 131072 % 64 = sa := by omega
    have f3 : (sa * 131072 + 32768 + inum * 1024 + data) % 1024 = data := by omega
    have hm' : (m.bind fun mm => mm.getType sa inum) = some t := hm
    simp [e16, e23, e15, f1, f2, f3, hm']
  | deviceGroup g =>
    obtain ⟨h0, h31⟩ := ht rfl
    have hg : g ≤ 31 := hs
    have hc : ((t.toNat : Nat) : Int) = t := by omega
    simp only [srcBits]
    have e16 : ¬ ((8388608 + g * 131072 + t.toNat * 1024 + data) / 65536 % 2 = 1) := by omega
    have e23 : (8388608 + g * 131072 + t.toNat * 1024 + data) / 8388608 % 2 = 1 := by omega
    have e22 : ¬ ((8388608 + g * 131072 + t.toNat * 1024 + data) / 4194304 % 2 = 1) := by omega
    have e15 : ¬ ((8388608 + g * 131072 + t.toNat * 1024 + data) / 32768 % 2 = 1) := by omega
    have f1 : (8388608 + g * 131072 + t.toNat * 1024 + data) / 1024 % 32 = t.toNat := by omega
    have f2 : (8388608 + g * 131072 + t.toNat * 1024 + data) / 131072 % 32 = g := by omega
    have f3 : (8388608 + g * 131072 + t.toNat * 1024 + data) % 1024 = data := by omega
    simp [e16, e23, e22, e15, f1, f2, f3, hc]
  | instanceGroup g =>
    obtain ⟨h0, h31⟩ := ht rfl
    have hg : g ≤ 31 := hs
    have hc : ((t.toNat : Nat) : Int) = t := by omega
    simp only [srcBits]
    have e16 : ¬ ((8388608 + 4194304 + g * 131072 + t.toNat * 1024 + data) / 65536 % 2 = 1) := by omega
    have e23 : (8388608 + 4194304 + g * 131072 + t.toNat * 1024 + data) / 8388608 % 2 = 1 := by omega
    have e22 : (8388608 + 4194304 + g * 131072 + t.toNat * 1024 + data) / 4194304 % 2 = 1 := by omega
    have e15 : ¬ ((8388608 + 4194304 + g * 131072 + t.toNat * 1024 + data) / 32768 % 2 = 1) := by omega
    have f1 : (8388608 + 4194304 + g * 131072 + t.toNat * 1024 + data) / 1024 % 32 = t.toNat := by omega
    have f2 : (8388608 + 4194304 + g * 131072 + t.toNat * 1024 + data) / 131072 % 32 = g := by omega
    have f3 : (8388608 + 4194304 + g * 131072 + t.toNat * 1024 + data) % 1024 = data := by omega
    simp [e16, e23, e22, e15, f1, f2, f3, hc]
  | inst inum =>
    obtain ⟨h0, h31⟩ := ht rfl
    have hin : inum ≤ 31 := hs
    have hc : ((t.toNat : Nat) : Int) = t := by omega
    simp only [srcBits]
    have e16 : ¬ ((8388608 + t.toNat * 131072 + 32768 + inum * 1024 + data) / 65536 % 2 = 1) := by omega
    have e23 : (8388608 + t.toNat * 131072 + 32768 + inum * 1024 + data) / 8388608 % 2 = 1 := by omega
    have e22 : ¬ ((8388608 + t.toNat * 131072 + 32768 + inum * 1024 + data) / 4194304 % 2 = 1) := by omega
    have e15 : (8388608 + t.toNat * 131072 + 32768 + inum * 1024 + data) / 32768 % 2 = 1 := by omega
    have f1 : (8388608 + t.toNat * 131072 + 32768 + inum * 1024 + data) / 1024 % 32 = inum := by omega
    have f2 : (8388608 + t.toNat * 131072 + 32768 + inum * 1024 + data) / 131072 % 32 = t.toNat := by omega
    have f3 : (8388608 + t.toNat * 131072 + 32768 + inum * 1024 + data) % 1024 = data := by omega
    simp [e16, e23, e22, e15, f1, f2, f3, hc]

/-- an event frame (bit 16 = 0) is never a device command -/
theorem decode24_event (T : Tables) (hT : Table2Facts T) (t : Nat) (src : EventSrc) (data : Nat)
    (hs : SrcOK src) (ht : srcHasType src = true → t ≤ 31) (hd : data < 1024) (dt : Nat)
    (m : Option InstMap) :
    decode T 24 (srcBits t src + data) dt m =
      (eventFromFrame T ⟨24, srcBits t src + data⟩ m).getD (.generic 24 (srcBits t src + data)) := by
  rw [decode24 T hT]
  have h16 : ¬ ((srcBits t src + data) / 65536 % 2 = 1) := by
    cases src with
    | device sa => have := ht rfl; simp only [srcBits, SrcOK] at *; omega
    | deviceInstance sa inum => simp only [srcBits, SrcOK] at *; omega
    | deviceGroup g => have := ht rfl; simp only [srcBits, SrcOK] at *; omega
    | instanceGroup g => have := ht rfl; simp only [srcBits, SrcOK] at *; omega
    | inst inum => have := ht rfl; simp only [srcBits, SrcOK] at *; omega
  simp [deviceFromFrame, bit, bitTest_eq, h16, Option.orElse]

end DaliVerif.Cmd

namespace DaliVerif.Cmd
open Frame Spec

theorem occ_value (a b c d : Bool) :
    let x := a.toNat + 2 * b.toNat + 4 * c.toNat + 8 * d.toNat
    x < 16 ∧ (x &&& 1 == 1) = a ∧ (x &&& 2 == 2) = b ∧ (x &&& 4 == 4) = c ∧ (x &&& 8 == 8) = d := by
  cases a <;> cases b <;> cases c <;> cases d <;> decide

theorem event_roundtrip (T : Tables) (hT : Table2Facts T) (cls : String) (t : Nat) (src : EventSrc)
    (body : EventBody) (dt : Nat) (h : WF T (.event cls t src body)) :
    encode (.event cls t src body) = .ok ⟨24, frameOf (.event cls t src body)⟩ ∧
      decode T 24 (frameOf (.event cls t src body)) dt (mapFor (.event cls t src body)) = .event cls t src body := by
  obtain ⟨hs, ht, hbody⟩ := h
  have ht' : srcHasType src = true → t ≤ 31 := fun _ => ht
  have htI : srcHasType src = true → 0 ≤ (t : Int) ∧ (t : Int) ≤ 31 := fun _ => by omega
  obtain ⟨hlt, hm0⟩ := srcBits_lt t src hs ht'
  have hmap : MapNames (mapFor (.event cls t src body)) (t : Int) src := by
    cases src <;> simp [MapNames, mapFor, InstMap.getType]
  have hnew0 : newFrame 24 0 = .ok ⟨24, 0⟩ := newFrame_ok 24 0 (by omega) (by simp)
  have hsrc : ∀ x, x < 1024 → eventSrcToFrame ⟨24, x⟩ (t : Int) src = .ok ⟨24, srcBits t src + x⟩ :=
    fun x hx => eventSrc_ok x t src hx hs ht'
  have hdec : ∀ data, data < 1024 →
      decode T 24 (srcBits t src + data) dt (mapFor (.event cls t src body)) =
        eventOfType T (t : Int) src data := by
    intro data hd
    rw [decode24_event T hT t src data hs ht' hd]
    have := eventFrame_decode T (t : Int) src data _ hs htI hd hmap
    simp only [Int.toNat_natCast] at this
    rw [this]; rfl
  have hneg : ¬ ((t : Int) < 0) := by omega
  cases body with
  | pushbutton pc =>
    obtain ⟨hcls, hpm, et, hem, hek⟩ := hbody
    have hok := hT.base.push _ hpm
    simp only [pushOK, Bool.and_eq_true, beq_iff_eq, decide_eq_true_eq] at hok
    show encode _ = .ok ⟨_, srcBits t src + pc.info⟩ ∧ decode T _ (srcBits t src + pc.info) _ _ = _
    refine ⟨?_, ?_⟩
    · simp only [encode, bind, Except.bind]
      rw [newFrame_ok 24 pc.info (by omega) (by simp; omega)]
      simp only []
      rw [hsrc pc.info (by omega)]
      rfl
    · rw [hdec pc.info (by omega)]
      simp only [eventOfType, hneg, if_false, Int.toNat_natCast, lookup_of_mem hT.uTypes hem, hek,
        lookup_of_mem hT.uPush hpm, hcls]
  | occupancy a b c d =>
    obtain ⟨et, hem, hek, hname⟩ := hbody
    obtain ⟨hx, f0, f1, f2, f3⟩ := occ_value a b c d
    show encode _ = .ok ⟨_, srcBits t src + (a.toNat + 2 * b.toNat + 4 * c.toNat + 8 * d.toNat)⟩ ∧ decode T _ (srcBits t src + (a.toNat + 2 * b.toNat + 4 * c.toNat + 8 * d.toNat)) _ _ = _
    refine ⟨?_, ?_⟩
    · simp only [encode, bind, Except.bind, hnew0]
      rw [hsrc 0 (by omega)]
      simp only [Nat.add_zero]
      have := occ_writes (srcBits t src) _ hlt hm0 hx
      simp only [bind, Except.bind, f0, f1, f2, f3] at this
      exact this
    · rw [hdec _ (by omega)]
      have hocc := occ_ge ⟨_, hx⟩
      simp only at hocc
      simp only [eventOfType, hneg, if_false, Int.toNat_natCast, lookup_of_mem hT.uTypes hem, hek,
        hocc, Bool.false_eq_true, f0, f1, f2, f3, hname]
  | light v =>
    obtain ⟨hv, et, hem, hek, hname⟩ := hbody
    show encode _ = .ok ⟨_, srcBits t src + v⟩ ∧ decode T _ (srcBits t src + v) _ _ = _
    refine ⟨?_, ?_⟩
    · simp only [encode, bind, Except.bind, hnew0]
      rw [hsrc 0 (by omega)]
      simp only [Nat.add_zero]
      exact setData_ok _ _ hlt hm0 hv
    · rw [hdec v hv]
      simp only [eventOfType, hneg, if_false, Int.toNat_natCast, lookup_of_mem hT.uTypes hem, hek,
        hname]
  | unknown x => exact absurd hbody id

theorem unknownEvent_roundtrip (T : Tables) (hT : Table2Facts T) (t : Int) (src : EventSrc)
    (data dt : Nat) (h : WF T (.unknownEvent t src data)) :
    encode (.unknownEvent t src data) = .ok ⟨24, frameOf (.unknownEvent t src data)⟩ ∧
      decode T 24 (frameOf (.unknownEvent t src data)) dt (mapFor (.unknownEvent t src data)) = .unknownEvent t src data := by
  obtain ⟨hs, hd, ht, hunk⟩ := h
  have ht' : srcHasType src = true → t.toNat ≤ 31 := fun h => by have := ht h; omega
  obtain ⟨hlt, hm0⟩ := srcBits_lt t.toNat src hs ht'
  have hmap : MapNames (mapFor (.unknownEvent t src data)) t src := by
    cases src <;> simp [MapNames, mapFor, InstMap.getType]
  have hnew0 : newFrame 24 0 = .ok ⟨24, 0⟩ := newFrame_ok 24 0 (by omega) (by simp)
  show encode _ = .ok ⟨_, srcBits t.toNat src + data⟩ ∧ decode T _ (srcBits t.toNat src + data) _ _ = _
  refine ⟨?_, ?_⟩
  · simp only [encode, bind, Except.bind, hnew0]
    rw [eventSrc_ok_int 0 t src (by omega) hs ht]
    simp only [Nat.add_zero]
    exact setData_ok _ _ hlt hm0 hd
  · rw [decode24_event T hT t.toNat src data hs ht' hd,
      eventFrame_decode T t src data _ hs ht hd hmap, hunk]
    rfl

theorem ambiguous_roundtrip (T : Tables) (hT : Table2Facts T) (sa inum data dt : Nat)
    (h : WF T (.ambiguous sa inum data)) :
    encode (.ambiguous sa inum data) = .ok ⟨24, frameOf (.ambiguous sa inum data)⟩ ∧
      decode T 24 (frameOf (.ambiguous sa inum data)) dt none = .ambiguous sa inum data := by
  obtain ⟨hsa, hin, hd⟩ := h
  have hs : SrcOK (.deviceInstance sa inum) := ⟨hsa, hin⟩
  have ht' : srcHasType (.deviceInstance sa inum) = true → 0 ≤ 31 := fun _ => by omega
  obtain ⟨hlt, hm0⟩ := srcBits_lt 0 (.deviceInstance sa inum) hs (by intro h; simp [srcHasType] at h)
  have hnew0 : newFrame 24 0 = .ok ⟨24, 0⟩ := newFrame_ok 24 0 (by omega) (by simp)
  show encode _ = .ok ⟨_, srcBits 0 (.deviceInstance sa inum) + data⟩ ∧ decode T _ (srcBits 0 (.deviceInstance sa inum) + data) _ _ = _
  refine ⟨?_, ?_⟩
  · simp only [encode, bind, Except.bind, hnew0]
    rw [show ((0 : Int)) = ((0 : Nat) : Int) from rfl,
      eventSrc_ok 0 0 _ (by omega) hs (by intro h; simp [srcHasType] at h)]
    simp only [Nat.add_zero]
    exact setData_ok _ _ hlt hm0 hd
  · rw [decode24_event T hT 0 _ data hs (by intro h; simp [srcHasType] at h) hd]
    simp only [srcBits, eventFromFrame, bit, bitTest_eq, slice, getSliceRaw_eq, Nat.reducePow,
      Nat.reduceAdd, Nat.reduceSub, Nat.div_one]
    have e16 : ¬ ((sa * 131072 + 32768 + inum * 1024 + data) / 65536 % 2 = 1) := by omega
    have e23 : ¬ ((sa * 131072 + 32768 + inum * 1024 + data) / 8388608 % 2 = 1) := by omega
    have e15 : (sa * 131072 + 32768 + inum * 1024 + data) / 32768 % 2 = 1 := by omega
    have f1 : (sa * 131072 + 32768 + inum * 1024 + data) / 1024 % 32 = inum := by omega
    have f2 : (sa * 131072 + 32768 + inum * 1024 + data) / 131072 % 64 = sa := by omega
    have f3 : (sa * 131072 + 32768 + inum * 1024 + data) % 1024 = data := by omega
    simp [e16, e23, e15, f1, f2, f3]

/-- **decode ∘ encode = id on legal objects** -/
theorem decode_encode (T : Tables) (hT2 : TableOK2 T) (c : Cmd) (h : WF T c) :
    ∃ bits d, encode c = .ok ⟨bits, d⟩ ∧ decode T bits d (dtOf c) (mapFor c) = c := by
  have hT := hT2.facts
  cases c with
  | generic b d => exact absurd h id
  | unknownGear d => exact absurd h id
  | unknownDevice d => exact absurd h id
  | dapc a p => obtain ⟨h1, h2⟩ := dapc_roundtrip T hT a p 0 none h; exact ⟨16, _, h1, h2⟩
  | standard cc a p => obtain ⟨h1, h2⟩ := std_roundtrip T hT cc a p none h; exact ⟨16, _, h1, h2⟩
  | special cc p => obtain ⟨h1, h2⟩ := special_roundtrip T hT cc p 0 none h; exact ⟨16, _, h1, h2⟩
  | shortSpecial cc a =>
    obtain ⟨h1, h2⟩ := shortSpecial_roundtrip T hT cc a 0 none h; exact ⟨16, _, h1, h2⟩
  | initialise cc b a =>
    obtain ⟨h1, h2⟩ := initialise_roundtrip T hT cc b a 0 none h; exact ⟨16, _, h1, h2⟩
  | devStd cc a => obtain ⟨h1, h2⟩ := devStd_roundtrip T hT cc a 0 none h; exact ⟨24, _, h1, h2⟩
  | devInst cc a i => obtain ⟨h1, h2⟩ := devInst_roundtrip T hT cc a i 0 none h; exact ⟨24, _, h1, h2⟩
  | devSpecial cc p1 p2 =>
    obtain ⟨h1, h2⟩ := devSpecial_roundtrip T hT cc p1 p2 0 none h; exact ⟨24, _, h1, h2⟩
  | event cls t src body =>
    obtain ⟨h1, h2⟩ := event_roundtrip T hT cls t src body 0 h; exact ⟨24, _, h1, h2⟩
  | unknownEvent t src data =>
    obtain ⟨h1, h2⟩ := unknownEvent_roundtrip T hT t src data 0 h; exact ⟨24, _, h1, h2⟩
  | ambiguous sa inum data =>
    obtain ⟨h1, h2⟩ := ambiguous_roundtrip T hT sa inum data 0 h; exact ⟨24, _, h1, h2⟩

end DaliVerif.Cmd

namespace DaliVerif.Cmd

/-- **every legal object's frame is the one the standard assigns, and that
frame decodes to the object** -/
theorem frame_standard (T : Tables) (hT2 : TableOK2 T) (c : Cmd) (h : WF T c) :
    encode c = .ok ⟨bitsOf c, frameOf c⟩ ∧
    decode T (bitsOf c) (frameOf c) (dtOf c) (mapFor c) = c := by
  have hT := hT2.facts
  cases c with
  | generic b d => exact absurd h id
  | unknownGear d => exact absurd h id
  | unknownDevice d => exact absurd h id
  | dapc a p => exact dapc_roundtrip T hT a p 0 none h
  | standard cc a p => exact std_roundtrip T hT cc a p none h
  | special cc p => exact special_roundtrip T hT cc p 0 none h
  | shortSpecial cc a => exact shortSpecial_roundtrip T hT cc a 0 none h
  | initialise cc b a => exact initialise_roundtrip T hT cc b a 0 none h
  | devStd cc a => exact devStd_roundtrip T hT cc a 0 none h
  | devInst cc a i => exact devInst_roundtrip T hT cc a i 0 none h
  | devSpecial cc p1 p2 => exact devSpecial_roundtrip T hT cc p1 p2 0 none h
  | event cls t src body => exact event_roundtrip T hT cls t src body 0 h
  | unknownEvent t src data => exact unknownEvent_roundtrip T hT t src data 0 h
  | ambiguous sa inum data => exact ambiguous_roundtrip T hT sa inum data 0 h

end DaliVerif.Cmd
