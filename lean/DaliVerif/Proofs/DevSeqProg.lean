import DaliVerif.Model.DevMemProg
/-!
Generic lemmas about `Prog` (resumptions) used by the C09/C10/C13 proofs.
-/
namespace DaliVerif.DevMem
namespace Prog

variable {σ α β : Type}

@[simp] theorem run_done (step : σ → Cmd → Resp × σ) (a : α) (s : σ) :
    (done a : Prog α).run step s = (.ok a, s) := rfl

@[simp] theorem run_fail (step : σ → Cmd → Resp × σ) (e : PyErr) (s : σ) :
    (fail e : Prog α).run step s = (.error e, s) := rfl

@[simp] theorem run_send (step : σ → Cmd → Resp × σ) (c : Cmd) (k : Resp → Prog α) (s : σ) :
    (send c k).run step s = (k (step s c).1).run step (step s c).2 := rfl

theorem run_bind (step : σ → Cmd → Resp × σ) (p : Prog α) (f : α → Prog β) (s : σ) :
    (p.bind f).run step s =
      match p.run step s with
      | (.ok a, s') => (f a).run step s'
      | (.error e, s') => (.error e, s') := by
  induction p generalizing s with
  | done a => simp [bind]
  | fail e => simp [bind]
  | send c k ih => simp only [bind, run_send]; exact ih _ _

theorem run_catchErr (step : σ → Cmd → Resp × σ) (e : PyErr) (p h : Prog α) (s : σ) :
    (catchErr e p h).run step s =
      match p.run step s with
      | (.ok a, s') => (.ok a, s')
      | (.error e', s') => if e' = e then h.run step s' else (.error e', s') := by
  induction p generalizing s with
  | done a => simp [catchErr]
  | fail e' => simp only [catchErr, run_fail]; split <;> simp_all
  | send c k ih => simp only [catchErr, run_send]; exact ih _ _

/-- running against the recording responder: the state component is the
un-recorded run, the trace only grows -/
theorem run_traced_fst (step : σ → Cmd → Resp × σ) (p : Prog α) (s : σ) (tr : List (Cmd × Resp)) :
    ((p.run (traced step) (s, tr)).1, (p.run (traced step) (s, tr)).2.1) = p.run step s := by
  induction p generalizing s tr with
  | done a => rfl
  | fail e => rfl
  | send c k ih => simp only [run_send, traced]; exact ih _ _ _

theorem run_traced_prefix (step : σ → Cmd → Resp × σ) (p : Prog α) (s : σ) (tr : List (Cmd × Resp)) :
    ∃ ext, (p.run (traced step) (s, tr)).2.2 = tr ++ ext ∧
      ∀ tr', (p.run (traced step) (s, tr')).2.2 = tr' ++ ext := by
  induction p generalizing s tr with
  | done a => exact ⟨[], by simp, by simp⟩
  | fail e => exact ⟨[], by simp, by simp⟩
  | send c k ih =>
    obtain ⟨ext, h1, h2⟩ := ih (step s c).1 (step s c).2 (tr ++ [(c, (step s c).1)])
    refine ⟨(c, (step s c).1) :: ext, ?_, ?_⟩
    · simp only [run_send, traced]; rw [h1]; simp
    · intro tr'; simp only [run_send, traced]; rw [h2]; simp

end Prog
end DaliVerif.DevMem

namespace DaliVerif.DevMem
namespace Prog

/-- `Out p tr res`: against *some* responder (any unit, any fault pattern) the
sequence `p` exchanges exactly `tr` and ends with `res`. -/
inductive Out {α : Type} : Prog α → List (Cmd × Resp) → PyRes α → Prop where
  | done (a : α) : Out (.done a) [] (.ok a)
  | fail (e : PyErr) : Out (.fail e) [] (.error e)
  | send (c : Cmd) (k : Resp → Prog α) (r : Resp) (tr : List (Cmd × Resp)) (res : PyRes α) :
      Out (k r) tr res → Out (.send c k) ((c, r) :: tr) res

variable {σ α : Type}

@[simp] theorem out_done (a : α) (tr : List (Cmd × Resp)) (res : PyRes α) :
    Out (.done a) tr res ↔ tr = [] ∧ res = .ok a := by
  constructor
  · intro h; cases h; exact ⟨rfl, rfl⟩
  · rintro ⟨rfl, rfl⟩; exact .done a

@[simp] theorem out_fail (e : PyErr) (tr : List (Cmd × Resp)) (res : PyRes α) :
    Out (.fail e : Prog α) tr res ↔ tr = [] ∧ res = .error e := by
  constructor
  · intro h; cases h; exact ⟨rfl, rfl⟩
  · rintro ⟨rfl, rfl⟩; exact .fail e

@[simp] theorem out_send (c : Cmd) (k : Resp → Prog α) (tr : List (Cmd × Resp)) (res : PyRes α) :
    Out (.send c k) tr res ↔ ∃ r tr', tr = (c, r) :: tr' ∧ Out (k r) tr' res := by
  constructor
  · intro h; cases h with | send _ _ r tr' _ h' => exact ⟨r, tr', rfl, h'⟩
  · rintro ⟨r, tr', rfl, h⟩; exact .send c k r tr' res h

/-- every run against every responder is an `Out` -/
theorem run_traced_out (step : σ → Cmd → Resp × σ) (p : Prog α) (s : σ) (tr : List (Cmd × Resp)) :
    ∃ ext, (p.run (traced step) (s, tr)).2.2 = tr ++ ext ∧
      Out p ext (p.run (traced step) (s, tr)).1 := by
  induction p generalizing s tr with
  | done a => exact ⟨[], by simp, by simp⟩
  | fail e => exact ⟨[], by simp, by simp⟩
  | send c k ih =>
    obtain ⟨ext, h1, h2⟩ := ih (step s c).1 (step s c).2 (tr ++ [(c, (step s c).1)])
    refine ⟨(c, (step s c).1) :: ext, ?_, ?_⟩
    · simp only [run_send, traced]; rw [h1]; simp
    · simp only [run_send, traced]; exact .send c k _ ext _ h2

end Prog
end DaliVerif.DevMem
