import DaliVerif.Proofs.SerialRxLuba
/-! chunking, no-internal-error and never-raises lemmas for the serial receivers -/
namespace DaliVerif.Proofs.SerialRx
open DaliVerif SerialRx Spec.Deframe
open Gen.DriverConsts

theorem Luba.runChunk_append_err (o : Oracle) (a b : List Nat) : ∀ (s : Luba.State) (e : RxErr),
    (Luba.runChunk o s a).err = some e → (Luba.runChunk o s (a ++ b)).err = some e := by
  induction a with
  | nil => intro s e h; simp [Luba.runChunk] at h
  | cons x xs ih =>
    intro s e h
    simp only [Luba.runChunk, List.cons_append] at h ⊢
    cases he : (Luba.step o s x).err with
    | some e' => simp only [he] at h ⊢; exact h
    | none => simp only [he] at h ⊢; exact ih _ _ h

theorem Luba.runChunks_flatten (o : Oracle) (chunks : List (List Nat)) : ∀ (s : Luba.State),
    (Luba.runChunk o s chunks.flatten).err = none →
    Luba.runChunks o s chunks =
      ((Luba.runChunk o s chunks.flatten).state, (Luba.runChunk o s chunks.flatten).items, []) := by
  induction chunks with
  | nil => intro s _; simp [Luba.runChunks, Luba.runChunk]
  | cons c cs ih =>
    intro s h
    simp only [List.flatten_cons] at h ⊢
    have hc : (Luba.runChunk o s c).err = none := by
      cases hce : (Luba.runChunk o s c).err with
      | none => rfl
      | some e => rw [Luba.runChunk_append_err o c cs.flatten s e hce] at h; cases h
    rw [Luba.runChunk_append o c cs.flatten s hc] at h ⊢
    simp only at h
    simp only [Luba.runChunks, ih _ h, hc]
    simp

theorem Sci.runChunk_append_err (o : Oracle) (a b : List Nat) : ∀ (s : Sci.State) (e : RxErr),
    (Sci.runChunk o s a).err = some e → (Sci.runChunk o s (a ++ b)).err = some e := by
  induction a with
  | nil => intro s e h; simp [Sci.runChunk] at h
  | cons x xs ih =>
    intro s e h
    simp only [Sci.runChunk, List.cons_append] at h ⊢
    cases he : (Sci.step o s x).err with
    | some e' => simp only [he] at h ⊢; exact h
    | none => simp only [he] at h ⊢; exact ih _ _ h

theorem Sci.runChunks_flatten (o : Oracle) (chunks : List (List Nat)) : ∀ (s : Sci.State),
    (Sci.runChunk o s chunks.flatten).err = none →
    Sci.runChunks o s chunks =
      ((Sci.runChunk o s chunks.flatten).state, (Sci.runChunk o s chunks.flatten).items, []) := by
  induction chunks with
  | nil => intro s _; simp [Sci.runChunks, Sci.runChunk]
  | cons c cs ih =>
    intro s h
    simp only [List.flatten_cons] at h ⊢
    have hc : (Sci.runChunk o s c).err = none := by
      cases hce : (Sci.runChunk o s c).err with
      | none => rfl
      | some e => rw [Sci.runChunk_append_err o c cs.flatten s e hce] at h; cases h
    rw [Sci.runChunk_append o c cs.flatten s hc] at h ⊢
    simp only at h
    simp only [Sci.runChunks, ih _ h, hc]
    simp

theorem luba_chunks_no_internal (o : Oracle) (chunks : List (List Nat)) : ∀ (s : Luba.State) (a : AState), Rel s a →
    ∀ e ∈ (Luba.runChunks o s chunks).2.2, ∃ x, e = RxErr.handler x := by
  induction chunks with
  | nil => intro s a _ e he; simp [Luba.runChunks] at he
  | cons c cs ih =>
    intro s a h e he
    obtain ⟨_, h2, h3⟩ := run_sim o c s a h
    simp only [Luba.runChunks, List.mem_append] at he
    rcases he with he | he
    · cases hce : (Luba.runChunk o s c).err with
      | none => simp [hce] at he
      | some e' =>
        simp only [hce, List.mem_singleton] at he
        subst he
        rw [hce] at h2
        exact arun_err o c a e h2.symm
    · exact ih _ _ h3 e he

theorem sci_step_ok (o : Oracle) (s : Sci.State) (b : Nat) (h : s.buf.length = 5) :
    (Sci.step o s b).err = none ∧ (Sci.step o s b).state.buf.length = 5 := by
  obtain ⟨ph, buf, rx⟩ := s
  simp only at h
  cases ph <;> simp [Sci.step, Sci.store, bufSet, h]
  split <;> (try split) <;> simp [Sci.State.reset, sci_MAX_LEN]


theorem sci_run_ok (o : Oracle) (bytes : List Nat) : ∀ (s : Sci.State), s.buf.length = 5 →
    (Sci.runChunk o s bytes).err = none ∧ (Sci.runChunk o s bytes).state.buf.length = 5 := by
  induction bytes with
  | nil => intro s h; exact ⟨rfl, h⟩
  | cons b bs ih =>
    intro s h
    obtain ⟨h1, h2⟩ := sci_step_ok o s b h
    simp only [Sci.runChunk, h1]
    exact ih _ h2

theorem sci_chunks_ok (o : Oracle) (chunks : List (List Nat)) : ∀ (s : Sci.State), s.buf.length = 5 →
    (Sci.runChunks o s chunks).2.2 = [] := by
  induction chunks with
  | nil => intro s _; rfl
  | cons c cs ih =>
    intro s h
    obtain ⟨h1, h2⟩ := sci_run_ok o c s h
    simp only [Sci.runChunks, h1, ih _ h2]
    rfl
end DaliVerif.Proofs.SerialRx
