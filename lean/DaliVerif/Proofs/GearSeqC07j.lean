import DaliVerif.Proofs.GearSeqC07i
/-!
# C07, part j: the `holds` clause

`outer_single` (a run that returns after exactly one RANDOMISE: its inner loop finished), `Hold_start` (the
invariant `Hold` is true when the first round starts), `body_holds`, `commissioning_holds`: after a non-dry,
single-round run on a fault-free bus, for every address `a` the number of participants (judged on the initial
bus, position by position) that end up holding `a` equals the number of times `a` was handed out.
-/
namespace DaliVerif.GearSeq
set_option linter.unusedSimpArgs false
set_option linter.unusedVariables false

/-! ## The `holds` clause: after a single-round run the participants hold exactly the addresses handed out -/

theorem countRandomise_cons_r (t : List Cmd) : countRandomise (Cmd.randomise :: t) = countRandomise t + 1 := by
  simp [countRandomise, List.filter_cons]

theorem outer_ret_count (dry : Bool) (rounds : Nat) (av : List Nat) (hd : List (Nat × Nat)) (b : Bus)
    (h : List (Nat × Nat)) (hr : (runBus (outer dry rounds av hd) b).res = .ret h) :
    1 ≤ countRandomise (runBus (outer dry rounds av hd) b).trace := by
  cases rounds with
  | zero => simp [outer, runBus, Prog.run] at hr
  | succ rounds =>
    rw [outer, runBus_tell]
    dsimp only
    rw [countRandomise_cons_r]; omega

/-- a run of the rounds loop that returns after exactly one RANDOMISE: its inner loop finished -/
theorem outer_single (dry : Bool) (rounds : Nat) (av : List Nat) (hd : List (Nat × Nat)) (b : Bus)
    (h : List (Nat × Nat)) (hr : (runBus (outer dry rounds av hd) b).res = .ret h)
    (hc : countRandomise (runBus (outer dry rounds av hd) b).trace = 1) :
    ∃ av', (runBus (inner dry (HIGH + 2) 0 av hd) (Bus.exec b .randomise).2).res = .ret (.finished av' h) ∧
      (runBus (outer dry rounds av hd) b).trace =
        Cmd.randomise :: (runBus (inner dry (HIGH + 2) 0 av hd) (Bus.exec b .randomise).2).trace ∧
      (runBus (outer dry rounds av hd) b).st = (runBus (inner dry (HIGH + 2) 0 av hd) (Bus.exec b .randomise).2).st := by
  cases rounds with
  | zero => simp [outer, runBus, Prog.run] at hr
  | succ rounds =>
    have hcls := (inner_only dry (HIGH + 2) 0 av hd).trace Bus.exec (Bus.exec b .randomise).2
    have hcr := countRandomise_inner dry _ hcls
    rw [outer, runBus_tell, runBus_note] at hr hc ⊢
    simp only [runBus] at hr hc hcr ⊢
    rw [run_bind] at hr hc ⊢
    generalize ((inner dry (HIGH + 2) 0 av hd).run Bus.exec (Bus.exec b .randomise).2) = o1 at hr hc hcr ⊢
    cases hres : o1.res with
    | ret r =>
      rw [hres] at hr hc
      dsimp only at hr hc ⊢
      match r, hres with
      | .clash av' h', hres =>
        dsimp only at hr hc
        have := outer_ret_count dry rounds av' h' o1.st h hr
        simp only [runBus] at this
        rw [countRandomise_cons_r, countRandomise_append, hcr] at hc
        omega
      | .finished av' h', hres =>
        simp only [Prog.run] at hr ⊢
        injection hr with hr
        subst hr
        exact ⟨av', rfl, by simp, trivial⟩
    | raised e => rw [hres] at hr; simp at hr
    | outOfFuel => rw [hres] at hr; simp at hr


/-- the three frames that start a round, per unit -/
def e3 (re : Bool) (u : Gear) : Gear :=
  ((u.execSt .terminate).execSt (.initialise (if re then 0x00 else 0xFF))).execSt .randomise

theorem e3_v (re : Bool) (u : Gear) : (e3 re u).v = V.rand (startV re u.v) := by
  unfold e3 startV
  rw [v_rand, v_ini, v_term]

theorem rand_start_init (re : Bool) (v : V) :
    (V.rand (startV re v)).init = (if (re || v.short.isNone) = true then .enabled else .disabled) ∧
    (V.rand (startV re v)).short = v.short := by
  have h1 : ∀ w : V, (V.rand w).init = w.init ∧ (V.rand w).short = w.short := by
    intro w
    simp only [V.rand]
    split
    · exact ⟨rfl, rfl⟩
    · split <;> exact ⟨rfl, rfl⟩
  rw [(h1 _).1, (h1 _).2, start_init, (start_fields re v).2.2.2.2]
  exact ⟨rfl, rfl⟩

theorem Hold_start (re : Bool) (L : List V) (av : List Nat) (hnf : NoFault L)
    (hpn : ∀ v ∈ L, (re || v.short.isNone) = true → v.short = none) :
    Hold 0 ((L.map (startV re)).map V.rand) 0 av [] := by
  have hmem : ∀ v' ∈ (L.map (startV re)).map V.rand, ∃ v ∈ L, v' = V.rand (startV re v) := by
    intro v' hv'
    simp only [List.map_map, List.mem_map, Function.comp] at hv'
    obtain ⟨v, hv, rfl⟩ := hv'
    exact ⟨v, hv, rfl⟩
  have hnw : ∀ v' ∈ (L.map (startV re)).map V.rand, v'.init ≠ .withdrawn := by
    intro v' hv'
    obtain ⟨v, _, rfl⟩ := hmem v' hv'
    rw [(rand_start_init re v).1]
    split <;> decide
  refine ⟨fun v' hv' hi => absurd hi (hnw v' hv'), ?_, ?_, ?_, Nat.le_refl _⟩
  · intro v' hv' hi
    obtain ⟨v, hv, rfl⟩ := hmem v' hv'
    obtain ⟨r1, r2⟩ := rand_start_init re v
    rw [r2]
    apply hpn v hv
    rw [r1] at hi
    by_cases hp : (re || v.short.isNone) = true
    · exact hp
    · simp [hp] at hi
  · exact NoFault_map _ _ rand_flags (NoFault_map _ _
      (fun v => ⟨(start_fields re v).2.2.1, (start_fields re v).2.2.2.1⟩) hnf)
  · intro a
    simp only [List.drop_zero, List.map_nil, List.count_nil]
    unfold heldCount
    rw [List.countP_eq_zero]
    intro v' hv'
    have := hnw v' hv'
    simp [this]


theorem init_cases (i : InitState) (h1 : i ≠ .disabled) (h2 : i ≠ .enabled) : i = .withdrawn := by
  cases i <;> simp_all

/-- `holds` for the body (TERMINATE, INITIALISE, one round, TERMINATE) started on bus `b1` -/
theorem body_holds (rounds : Nat) (re : Bool) (av : List Nat) (b1 : Bus) (h : List (Nat × Nat))
    (hwf : WF (view b1)) (hnf : NoFault (view b1))
    (hpn : ∀ u ∈ b1, (re || u.short.isNone) = true → u.short = none)
    (hr : (runBus (commBody rounds re false av) b1).res = .ret h)
    (hc : countRandomise (runBus (commBody rounds re false av) b1).trace = 1) (a : Nat) :
    b1.countP (fun u => (re || u.short.isNone) &&
        (((runBus (commBody rounds re false av) b1).trace.foldl Gear.execSt u).short == some a)) =
      (progArgs (runBus (commBody rounds re false av) b1).trace).count a := by
  unfold commBody at hr hc ⊢
  rw [runBus_tell, runBus_tell] at hr hc ⊢
  simp only [runBus] at hr hc ⊢
  rw [run_bind] at hr hc ⊢
  -- the rounds loop
  cases hres2 : ((outer false rounds av []).run Bus.exec
      (Bus.exec (Bus.exec b1 .terminate).2 (.initialise (if re then 0x00 else 0xFF))).2).res with
  | raised e => rw [hres2] at hr; simp at hr
  | outOfFuel => rw [hres2] at hr; simp at hr
  | ret h0 =>
    rw [hres2] at hr hc
    simp only [Prog.tell, Prog.run] at hr hc ⊢
    injection hr with hr
    subst hr
    have hc2 : countRandomise ((outer false rounds av []).run Bus.exec
        (Bus.exec (Bus.exec b1 .terminate).2 (.initialise (if re then 0x00 else 0xFF))).2).trace = 1 := by
      have e : ∀ t : List Cmd, countRandomise (Cmd.terminate :: Cmd.initialise (if re then 0x00 else 0xFF) ::
          (t ++ [Cmd.terminate])) = countRandomise t := by
        intro t; simp [countRandomise, List.filter_cons, List.filter_append]
      rw [e] at hc; exact hc
    obtain ⟨av', s1, s2, s3⟩ := outer_single false rounds av [] _ h0 hres2 hc2
    simp only [runBus] at s1 s2 s3
    rw [s2]
    -- the inner loop of the single round
    have hv4 : view (Bus.exec (Bus.exec (Bus.exec b1 .terminate).2 (.initialise (if re then 0x00 else 0xFF))).2
        .randomise).2 = ((view b1).map (startV re)).map V.rand := by
      rw [view_randomise, view_start]
    have hb4 : (Bus.exec (Bus.exec (Bus.exec b1 .terminate).2 (.initialise (if re then 0x00 else 0xFF))).2
        .randomise).2 = b1.map (e3 re) := by
      simp only [Bus.exec_st, List.map_map]; rfl
    have hwf4 : WF (((view b1).map (startV re)).map V.rand) := by
      apply rand_WF
      intro v hv
      simp only [List.mem_map] at hv
      obtain ⟨w, hw, rfl⟩ := hv
      obtain ⟨f1, f2, _⟩ := start_fields re w
      have := hwf w hw
      simp only [WFv] at this ⊢
      rw [f1, f2]; exact this
    have hpn' : ∀ v ∈ view b1, (re || v.short.isNone) = true → v.short = none := by
      intro v hv
      simp only [view, List.mem_map] at hv
      obtain ⟨u, hu, rfl⟩ := hv
      exact hpn u hu
    have H0 := Hold_start re (view b1) av hnf hpn'
    rw [← hv4] at H0 hwf4
    obtain ⟨low', H⟩ := inner_hold 0 (HIGH + 2) 0 av [] _ (Nat.zero_le _) (WF_enRV _ hwf4) H0 av' h0 (Or.inr s1)
    have P := inner_bus false (HIGH + 2) 0 av [] _ (Nat.zero_le _) (by omega) (WF_enRV _ hwf4)
    have S := inner_syn Bus.exec false (HIGH + 2) 0 av []
      (Bus.exec (Bus.exec (Bus.exec b1 .terminate).2 (.initialise (if re then 0x00 else 0xFF))).2 .randomise).2
    have hcls := (inner_only false (HIGH + 2) 0 av []).trace Bus.exec
      (Bus.exec (Bus.exec (Bus.exec b1 .terminate).2 (.initialise (if re then 0x00 else 0xFF))).2 .randomise).2
    have hst := runBus_st (inner false (HIGH + 2) 0 av [])
      (Bus.exec (Bus.exec (Bus.exec b1 .terminate).2 (.initialise (if re then 0x00 else 0xFF))).2 .randomise).2
    have hfin := P.fin av' h0 s1
    simp only [runBus] at H P S hst hfin
    rw [hb4] at hst hcls H hfin S s1 ⊢
    generalize ((inner false (HIGH + 2) 0 av []).run Bus.exec (b1.map (e3 re))) = o1 at H S hst hcls hfin s1 ⊢
    -- the addresses handed out
    have hP : progArgs (Cmd.terminate :: Cmd.initialise (if re then 0x00 else 0xFF) ::
        ((Cmd.randomise :: o1.trace) ++ [Cmd.terminate])) = h0.map Prod.snd := by
      obtain ⟨q1, q2⟩ := S.ret av' h0 (Or.inr s1)
      have q2 := q2 rfl
      simp only [List.map_nil, List.nil_append] at q1
      have e : progArgs o1.trace = h0.map Prod.snd := by
        rw [← q1] at q2; exact List.append_cancel_right q2
      rw [← e]
      simp [progArgs, List.filterMap_append]
    rw [hP]
    have hcnt := H.cnt a
    simp only [List.drop_zero] at hcnt
    rw [← hcnt, hst]
    unfold heldCount
    simp only [view, List.map_map, List.countP_map]
    apply List.countP_congr
    intro u hu
    simp only [Function.comp, List.foldl_cons, List.foldl_append, List.foldl_nil]
    -- the unit's own history
    have hG : (((u.execSt .terminate).execSt (.initialise (if re then 0x00 else 0xFF))).execSt .randomise) = e3 re u := rfl
    rw [hG]
    generalize hGu : o1.trace.foldl Gear.execSt (e3 re u) = Gu
    have hks : (Gu.execSt .terminate).short = Gu.short := keeps_short Gu .terminate trivial
    rw [hks]
    obtain ⟨_, _, _, _, f5⟩ := fold_inner_fields false o1.trace hcls (e3 re u)
    rw [hGu] at f5
    have hi3 : (e3 re u).init = if (re || u.short.isNone) = true then .enabled else .disabled := by
      have := (rand_start_init re u.v).1
      rw [← e3_v] at this
      exact this
    have hne : Gu.init ≠ .enabled := by
      intro he
      have hmem : Gu ∈ o1.st := by rw [hst, ← hGu]; exact List.mem_map_of_mem (List.mem_map_of_mem hu)
      have : Gu.random ∈ enRV (view o1.st) := by
        simp only [enRV, view, List.filterMap_map, List.mem_filterMap, Function.comp]
        exact ⟨Gu, hmem, by simp [Gear.v, he]⟩
      rw [hfin] at this
      cases this
    by_cases hp : (re || u.short.isNone) = true
    · have hnd : Gu.init ≠ .disabled := by
        intro hd
        have := f5.mp hd
        rw [hi3] at this
        simp [hp] at this
      have hw := init_cases Gu.init hnd hne
      simp [hp, hw, Gear.v]
    · have hd : Gu.init = .disabled := by
        apply f5.mpr
        rw [hi3]; simp [hp]
      have hp' : (re || u.short.isNone) = false := by rw [← Bool.not_eq_true]; exact hp
      simp [hp', hd, Gear.v]


theorem discover_bus' {α : Type} (k : List Nat → Prog α) : ∀ (as av : List Nat) (b : Bus),
    ∃ (t : List Cmd), t.length ≤ as.length ∧ (∀ c ∈ t, IsQuiet c) ∧
      runBus (discover as av k) b =
        ⟨(runBus (k (discF (view b) as av)) (b.map (fun u => t.foldl Gear.execSt u))).res,
         (runBus (k (discF (view b) as av)) (b.map (fun u => t.foldl Gear.execSt u))).st,
          t ++ (runBus (k (discF (view b) as av)) (b.map (fun u => t.foldl Gear.execSt u))).trace⟩ := by
  intro as
  induction as with
  | nil => intro av b; exact ⟨[], Nat.le_refl _, by simp, by simp [discover, discF]⟩
  | cons a as ih =>
    intro av b
    simp only [discover, discF]
    by_cases hc : av.contains a = true
    · simp only [hc, if_true]
      rw [runBus_send, present_isYes']
      have hq : view (Bus.exec b (.queryGearPresent (.short a))).2 = view b := by
        rw [view_exec b _ id (fun u _ => v_quiet u (.queryGearPresent (.short a)) trivial)]; simp
      obtain ⟨t, h2, h3, h4⟩ := ih (if (inUseL (view b)).contains a then av.erase a else av)
        (Bus.exec b (.queryGearPresent (.short a))).2
      rw [hq] at h4
      have hb : (Bus.exec b (.queryGearPresent (.short a))).2.map (fun u => t.foldl Gear.execSt u) =
          b.map (fun u => (Cmd.queryGearPresent (.short a) :: t).foldl Gear.execSt u) := by
        rw [Bus.exec_st, List.map_map]; rfl
      rw [hb] at h4
      refine ⟨Cmd.queryGearPresent (.short a) :: t, by simp only [List.length_cons]; omega, ?_, ?_⟩
      · intro c hc'
        simp only [List.mem_cons] at hc'
        rcases hc' with rfl | hc'
        · trivial
        · exact h3 c hc'
      · rw [h4]; rfl
    · simp only [hc, if_false, Bool.false_eq_true]
      obtain ⟨t, h2, h3, h4⟩ := ih av b
      exact ⟨t, by simp only [List.length_cons]; omega, h3, h4⟩

/-- **holds** — a non-dry run on a fault-free bus that returns after a single RANDOMISE round: for every address
`a`, the number of participants that end up holding `a` is the number of times `a` was handed out -/
theorem commissioning_holds (rounds : Nat) (avail : Option (List Nat)) (re : Bool) (b : Bus)
    (hwf : WF (view b)) (hnf : NoFault (view b)) (h : List (Nat × Nat))
    (hr : (runBus (commissioning rounds avail re false) b).res = .ret h)
    (hc : countRandomise (runBus (commissioning rounds avail re false) b).trace = 1) (a : Nat) :
    b.countP (fun u => (re || u.short.isNone) &&
        (((runBus (commissioning rounds avail re false) b).trace.foldl Gear.execSt u).short == some a)) =
      (progArgs (runBus (commissioning rounds avail re false) b).trace).count a := by
  rw [commissioning_eq] at hr hc ⊢
  cases re with
  | true =>
    simp only [if_true, Bool.false_eq_true, if_false, runBus_tell] at hr hc ⊢
    have hb1 : (Bus.exec (Bus.exec b (.dtr0 255)).2 (.setShortAddress .broadcast)).2 =
        b.map (fun u => (u.execSt (.dtr0 255)).execSt (.setShortAddress .broadcast)) := by
      simp only [Bus.exec_st, List.map_map]; rfl
    have hv := view_unaddr b
    have hwf1 : WF (view (Bus.exec (Bus.exec b (.dtr0 255)).2 (.setShortAddress .broadcast)).2) := by
      rw [hv]; intro v hv'
      simp only [List.mem_map] at hv'
      obtain ⟨w, hw, rfl⟩ := hv'
      exact hwf w hw
    have hnf1 : NoFault (view (Bus.exec (Bus.exec b (.dtr0 255)).2 (.setShortAddress .broadcast)).2) := by
      rw [hv]; exact NoFault_map _ _ (fun v => ⟨rfl, rfl⟩) hnf
    have hpn : ∀ u ∈ (Bus.exec (Bus.exec b (.dtr0 255)).2 (.setShortAddress .broadcast)).2,
        (true || u.short.isNone) = true → u.short = none := by
      intro u hu _
      rw [hb1, List.mem_map] at hu
      obtain ⟨w, _, rfl⟩ := hu
      have := v_unaddr w
      exact congrArg V.short this
    have hc' : countRandomise (runBus (commBody rounds true false (avail.getD (List.range 64)))
        (Bus.exec (Bus.exec b (.dtr0 255)).2 (.setShortAddress .broadcast)).2).trace = 1 := by
      simpa [countRandomise, List.filter_cons] using hc
    have B := body_holds rounds true (avail.getD (List.range 64)) _ h hwf1 hnf1 hpn hr hc' a
    rw [hb1] at B ⊢
    rw [List.countP_map] at B
    simp only [Function.comp, Bool.true_or, Bool.true_and] at B ⊢
    simp only [List.foldl_cons]
    have e : ∀ t : List Cmd, progArgs (Cmd.dtr0 255 :: Cmd.setShortAddress .broadcast :: t) = progArgs t :=
      fun t => rfl
    rw [e]
    exact B
  | false =>
    simp only [Bool.false_eq_true, if_false] at hr hc ⊢
    obtain ⟨t, h2, h3, h4⟩ := discover_bus'
      (fun av' => Prog.note .progress (commBody rounds false false av')) (List.range 64)
      (avail.getD (List.range 64)) b
    rw [h4] at hr hc ⊢
    simp only [runBus_note] at hr hc ⊢
    obtain ⟨q1, q2⟩ := quiet_trace t h3
    have hvb : view (b.map (fun u => t.foldl Gear.execSt u)) = view b := by
      simp only [view, List.map_map]
      apply List.map_congr_left
      intro u _
      exact foldl_v_quiet t h3 u
    have hc' : countRandomise (runBus (commBody rounds false false (discF (view b) (List.range 64)
        (avail.getD (List.range 64)))) (b.map (fun u => t.foldl Gear.execSt u))).trace = 1 := by
      rw [countRandomise_append, q2, Nat.zero_add] at hc; exact hc
    have B := body_holds rounds false _ _ h (by rw [hvb]; exact hwf) (by rw [hvb]; exact hnf)
      (fun u _ hp => by simpa using hp) hr hc' a
    rw [List.countP_map] at B
    rw [progArgs_append, q1, List.nil_append, ← B]
    apply List.countP_congr
    intro u _
    simp only [Function.comp, List.foldl_append, Bool.false_or]
    have : (t.foldl Gear.execSt u).short = u.short := congrArg V.short (foldl_v_quiet t h3 u)
    rw [this]

end DaliVerif.GearSeq
