import DaliVerif.Proofs.AsyncRun
import DaliVerif.Model.CallerProgram
/-!
# The programs of `send` / `run_sequence` of the four drivers are well formed

For every command (any frame, device type, send-twice, query) and every
sequence (any list of items) `mkTask d call` passes the static check
`Task.ok`: every exit releases what is held, every device-type frame follows
its EnableDeviceType inside the same locked region.
-/
namespace DaliVerif.Async

section
attribute [local simp] wfSeg stepOK cleanupOK retryOK runActs Act.eff Act.canRaise Act.canComm Act.isCleanup
  Res.free loopHead edtSeg edtFrame

/-- the clean-up `run_sequence` performs outside the sends: HID releases then closes, serial
closes inside `async with` -/
def outOf : Driver → List Act
  | .tridonic | .hasseb => [Act.rel, Act.close]
  | _ => [Act.close, Act.rel]

theorem rawSend_wf (d : Driver) (c : Cmd) (out : List Act) (ho : out = [Act.rel] ∨ out = outOf d) :
    wfSeg false loopHead (rawSend d c out) = some loopHead := by
  unfold rawSend
  split
  · rcases ho with rfl | rfl <;> cases d <;> simp [outOf]
  · obtain ⟨⟨bits, data, twice, dt⟩, query⟩ := c
    rcases ho with rfl | rfl <;> cases d <;> cases twice <;> cases query <;>
      simp_all [tridonicRaw, hassebRaw, serialSendBody, serialCommand, outOf]

theorem rawSend_wf_retry (d : Driver) (hd : d = .tridonic ∨ d = .hasseb) (c : Cmd) :
    wfSeg true loopHead (rawSend d c [Act.rel]) = some loopHead := by
  unfold rawSend
  split
  · simp
  · obtain ⟨⟨bits, data, twice, dt⟩, query⟩ := c
    rcases hd with rfl | rfl <;> cases twice <;> cases query <;>
      simp_all [tridonicRaw, hassebRaw]

theorem serialCommand_wf (d : Driver) (f : WFrame) :
    wfSeg false loopHead (serialCommand d f [Act.rel]) = some loopHead := by
  obtain ⟨bits, data, twice, dt⟩ := f
  cases d <;> cases twice <;> simp_all [serialCommand]

theorem serialSendBody_wf (d : Driver) (c : Cmd) :
    wfSeg false loopHead (serialSendBody d c [Act.rel]) = some loopHead := by
  obtain ⟨⟨bits, data, twice, dt⟩, query⟩ := c
  cases d <;> cases twice <;> cases query <;> simp_all [serialSendBody, serialCommand]

/-- what a raw send leaves as "last frame written": the command's own frame (hasseb: its repeat) -/
theorem rawSend_edt (d : Driver) (c : Cmd) (out : List Act) (prev : Option WFrame)
    (h : c.frame.dt = 0 ∨ prev = some (edtFrame c.frame.dt)) :
    ∃ x, edtSeg prev (rawSend d c out) = some x := by
  unfold rawSend
  split
  · exact ⟨prev, by simp⟩
  · obtain ⟨⟨bits, data, twice, dt⟩, query⟩ := c
    simp only at h
    rcases h with h | h
    · subst h
      cases d <;> cases twice <;> cases query <;>
        simp [tridonicRaw, hassebRaw, serialSendBody, serialCommand]
    · subst h
      cases d <;> cases twice <;> cases query <;>
        simp [tridonicRaw, hassebRaw, serialSendBody, serialCommand]

theorem rawSend_edt_last (d : Driver) (dt : Nat) (out : List Act) (prev : Option WFrame) :
    edtSeg prev (rawSend d (edtCmd dt) out) = some (some (edtFrame dt)) := by
  cases d <;> simp [rawSend, Driver.carries, tridonicRaw, hassebRaw, serialSendBody, serialCommand, edtCmd]

theorem serialCommand_edt (d : Driver) (dt : Nat) (out : List Act) (prev : Option WFrame) :
    edtSeg prev (serialCommand d (edtFrame dt) out) = some (some (edtFrame dt)) := by
  cases d <;> simp [serialCommand]

theorem serialSendBody_edt (d : Driver) (c : Cmd) (out : List Act) (prev : Option WFrame)
    (h : c.frame.dt = 0 ∨ prev = some (edtFrame c.frame.dt)) :
    ∃ x, edtSeg prev (serialSendBody d c out) = some x := by
  obtain ⟨⟨bits, data, twice, dt⟩, query⟩ := c
  simp only at h
  rcases h with h | h <;> subst h <;> cases d <;> cases twice <;> cases query <;>
    simp [serialSendBody, serialCommand]
end

theorem withEdt_wf (d : Driver) (c : Cmd) (out : List Act) (ho : out = [Act.rel] ∨ out = outOf d) :
    wfSeg false loopHead (withEdt d c out) = some loopHead := by
  unfold withEdt
  by_cases h : c.frame.dt = 0
  · simp only [h, if_true, List.nil_append]; exact rawSend_wf d c out ho
  · simp only [h, if_false, wfSeg_append, rawSend_wf d _ out ho, Option.bind_some]

theorem withEdt_wf_retry (d : Driver) (hd : d = .tridonic ∨ d = .hasseb) (c : Cmd) :
    wfSeg true loopHead (withEdt d c [Act.rel]) = some loopHead := by
  unfold withEdt
  by_cases h : c.frame.dt = 0
  · simp only [h, if_true, List.nil_append]; exact rawSend_wf_retry d hd c
  · simp only [h, if_false, wfSeg_append, rawSend_wf_retry d hd, Option.bind_some]

theorem withEdt_edt (d : Driver) (c : Cmd) (out : List Act) (prev : Option WFrame) :
    ∃ x, edtSeg prev (withEdt d c out) = some x := by
  unfold withEdt
  by_cases h : c.frame.dt = 0
  · simp only [h, if_true, List.nil_append]; exact rawSend_edt d c out prev (Or.inl h)
  · simp only [h, if_false, edtSeg_append, rawSend_edt_last, Option.bind_some]
    exact rawSend_edt d c out _ (Or.inr rfl)

theorem itemSteps_wf (d : Driver) (it : Item) :
    wfSeg false loopHead (itemSteps d (outOf d) it) = some loopHead := by
  cases it with
  | cmd c => exact withEdt_wf d c _ (Or.inr rfl)
  | sleep => cases d <;> simp [itemSteps, outOf, wfSeg, stepOK, cleanupOK, runActs, Act.eff, Act.canRaise, Act.canComm, Act.isCleanup, Res.free, loopHead]
  | progress => simp [itemSteps, wfSeg]

theorem itemSteps_edt (d : Driver) (out : List Act) (it : Item) (prev : Option WFrame) :
    ∃ x, edtSeg prev (itemSteps d out it) = some x := by
  cases it with
  | cmd c => exact withEdt_edt d c out prev
  | sleep => exact ⟨prev, by simp [itemSteps, edtSeg]⟩
  | progress => exact ⟨prev, by simp [itemSteps, edtSeg]⟩

theorem resume_wf (d : Driver) : wfSeg false loopHead [{ act := .resume, h := outOf d }] = some loopHead := by
  cases d <;> simp [outOf, wfSeg, stepOK, cleanupOK, runActs, Act.eff, Act.canRaise, Act.canComm, Act.isCleanup, Res.free, loopHead]

theorem seqBody_wf (d : Driver) (items : List Item) :
    wfSeg false loopHead (seqBody d (outOf d) items) = some loopHead := by
  induction items with
  | nil => exact resume_wf d
  | cons it l ih =>
    have : seqBody d (outOf d) (it :: l) = [{ act := .resume, h := outOf d }] ++ (itemSteps d (outOf d) it ++ seqBody d (outOf d) l) := rfl
    rw [this, wfSeg_append, resume_wf, Option.bind_some, wfSeg_append, itemSteps_wf, Option.bind_some, ih]

theorem seqBody_edt (d : Driver) (out : List Act) (items : List Item) (prev : Option WFrame) :
    ∃ x, edtSeg prev (seqBody d out items) = some x := by
  induction items generalizing prev with
  | nil => exact ⟨prev, by simp [seqBody, edtSeg]⟩
  | cons it l ih =>
    have : seqBody d out (it :: l) = [{ act := .resume, h := out }] ++ (itemSteps d out it ++ seqBody d out l) := rfl
    rw [this, edtSeg_append]
    simp only [edtSeg, Option.bind_some, edtSeg_append]
    obtain ⟨x, hx⟩ := itemSteps_edt d out it prev
    rw [hx, Option.bind_some]
    exact ih x

theorem serialSend_wf (d : Driver) (c : Cmd) :
    wf false ⟨false, false, false⟩ (serialSend c d) = true ∧ edtOK none (serialSend c d) = true := by
  have hpre : ∀ p, wfSeg false ⟨false, false, false⟩ ([({ act := .connCheck } : Step), { act := .acq }] ++ p)
      = wfSeg false loopHead p := by
    intro p
    simp [wfSeg, stepOK, Act.canRaise, Act.canComm, cleanupOK, runActs, Act.eff, Res.free, loopHead]
  have htail : wfSeg false loopHead [({ act := .rel } : Step)] = some ⟨false, false, false⟩ := by
    simp [wfSeg, stepOK, Act.canRaise, Act.canComm, Act.eff, loopHead]
  unfold serialSend
  by_cases h : c.frame.dt = 0
  · simp only [h, if_true, List.append_nil, List.append_assoc]
    refine ⟨?_, ?_⟩
    · simp only [wf]
      rw [hpre, wfSeg_append, serialSendBody_wf, Option.bind_some, htail]; rfl
    · obtain ⟨x, hx⟩ := serialSendBody_edt d c [Act.rel] none (Or.inl h)
      simp [edtOK, edtSeg, edtSeg_append, hx]
  · simp only [h, if_false, List.append_assoc]
    have hpf : wfSeg false loopHead (prefixFlush d) = some loopHead := by
      unfold prefixFlush; split <;> simp [wfSeg, stepOK, Act.canRaise, Act.canComm, Act.eff, loopHead]
    have hpe : ∀ prev, edtSeg prev (prefixFlush d) = some prev := by
      intro prev; unfold prefixFlush; split <;> simp [edtSeg]
    refine ⟨?_, ?_⟩
    · simp only [wf]
      rw [hpre, wfSeg_append, hpf, Option.bind_some, wfSeg_append, serialCommand_wf, Option.bind_some,
        wfSeg_append, serialSendBody_wf, Option.bind_some, htail]; rfl
    · obtain ⟨x, hx⟩ := serialSendBody_edt d c [Act.rel] (some (edtFrame c.frame.dt)) (Or.inr rfl)
      simp [edtOK, edtSeg, edtSeg_append, hpe, serialCommand_edt, hx]

theorem serialSend_ok (d : Driver) (hd : d = .luba ∨ d = .sci) (c : Cmd) (exc : Bool) :
    (mkTask d (.send c exc)).ok = true := by
  obtain ⟨h1, h2⟩ := serialSend_wf d c
  rcases hd with rfl | rfl <;>
    simp [Task.ok, mkTask, h1, h2]

/-- `caller_programs_wf` -/
theorem mkTask_ok (d : Driver) (c : Call) : (mkTask d c).ok = true := by
  have hfin2 : ∀ (p : List Step), wfSeg false loopHead p = some loopHead →
      ∀ tail, wfSeg false loopHead tail = some ⟨false, false, false⟩ →
      wf false ⟨false, false, false⟩ ({ act := .acq } :: (p ++ tail)) = true := by
    intro p hp tail ht
    simp only [wf, wfSeg, stepOK, Act.canRaise, Act.canComm, cleanupOK, runActs, Act.eff, Res.free,
      List.all_nil, Bool.not_true, Bool.not_false, Bool.and_self, Bool.or_true, Bool.true_and, Bool.and_false,
      Bool.false_eq_true, if_true, if_false]
    show (match wfSeg false loopHead (p ++ tail) with | some r' => r'.free | none => false) = true
    rw [wfSeg_append, hp, Option.bind_some, ht]; rfl
  cases c with
  | send c exc =>
    cases d with
    | tridonic =>
      have hb := withEdt_wf .tridonic c [Act.rel] (Or.inl rfl)
      have hbr := withEdt_wf_retry .tridonic (Or.inl rfl) c
      obtain ⟨x, hx⟩ := withEdt_edt .tridonic c [Act.rel] none
      have htail : ∀ b, wfSeg b loopHead [({ act := .rel } : Step)] = some ⟨false, false, false⟩ := by
        intro b; cases b <;> simp [wfSeg, stepOK, Act.canRaise, Act.canComm, Act.eff, loopHead]
      have hedt : edtOK none (withEdt .tridonic c [Act.rel] ++ [({ act := .rel } : Step)]) = true := by
        simp [edtOK, edtSeg_append, hx, edtSeg]
      cases exc <;>
        simp only [Task.ok, mkTask, Bool.and_eq_true, Option.isSome_none, Option.isSome_some, Option.isNone_none,
          if_true, if_false, Bool.false_eq_true, and_true]
      · refine ⟨⟨?_, ?_⟩, ?_, hedt⟩
        · simp only [wf, wfSeg, stepOK, Act.canRaise, Act.canComm, cleanupOK, runActs, Act.eff, Res.free,
            List.all_nil, Bool.not_true, Bool.not_false, Bool.and_self, Bool.or_true, Bool.true_and, Bool.and_false,
            Bool.false_eq_true, if_true, if_false, Bool.and_true, retryOK]
          show (match wfSeg true loopHead (withEdt .tridonic c [Act.rel] ++ [{ act := .rel }]) with
            | some r' => r'.free | none => false) = true
          rw [wfSeg_append, hbr, Option.bind_some, htail]; rfl
        · simpa [edtOK, edtSeg] using hedt
        · simp only [wf]
          rw [wfSeg_append, hbr, Option.bind_some, htail]; rfl
      · refine ⟨hfin2 _ hb _ (htail false), ?_⟩
        simpa [edtOK, edtSeg] using hedt
    | hasseb =>
      have hb := withEdt_wf .hasseb c [Act.rel] (Or.inl rfl)
      have hbr := withEdt_wf_retry .hasseb (Or.inr rfl) c
      obtain ⟨x, hx⟩ := withEdt_edt .hasseb c [Act.rel] none
      have htail : ∀ b, wfSeg b loopHead [({ act := .rel } : Step)] = some ⟨false, false, false⟩ := by
        intro b; cases b <;> simp [wfSeg, stepOK, Act.canRaise, Act.canComm, Act.eff, loopHead]
      have hedt : edtOK none (withEdt .hasseb c [Act.rel] ++ [({ act := .rel } : Step)]) = true := by
        simp [edtOK, edtSeg_append, hx, edtSeg]
      cases exc <;>
        simp only [Task.ok, mkTask, Bool.and_eq_true, Option.isSome_none, Option.isSome_some, Option.isNone_none,
          if_true, if_false, Bool.false_eq_true, and_true]
      · refine ⟨⟨?_, ?_⟩, ?_, hedt⟩
        · simp only [wf, wfSeg, stepOK, Act.canRaise, Act.canComm, cleanupOK, runActs, Act.eff, Res.free,
            List.all_nil, Bool.not_true, Bool.not_false, Bool.and_self, Bool.or_true, Bool.true_and, Bool.and_false,
            Bool.false_eq_true, if_true, if_false, Bool.and_true, retryOK]
          show (match wfSeg true loopHead (withEdt .hasseb c [Act.rel] ++ [{ act := .rel }]) with
            | some r' => r'.free | none => false) = true
          rw [wfSeg_append, hbr, Option.bind_some, htail]; rfl
        · simpa [edtOK, edtSeg] using hedt
        · simp only [wf]
          rw [wfSeg_append, hbr, Option.bind_some, htail]; rfl
      · refine ⟨hfin2 _ hb _ (htail false), ?_⟩
        simpa [edtOK, edtSeg] using hedt
    | luba => exact serialSend_ok .luba (Or.inl rfl) c exc
    | sci => exact serialSend_ok .sci (Or.inr rfl) c exc
  | seq items =>
    have hb := seqBody_wf d items
    cases d with
    | tridonic =>
      simp only [Task.ok, mkTask, Bool.and_eq_true, Option.isSome_none, Option.isNone_none, and_true]
      refine ⟨hfin2 _ hb _ (by simp [wfSeg, stepOK, Act.canRaise, Act.canComm, Act.eff, loopHead]), ?_⟩
      obtain ⟨x, hx⟩ := seqBody_edt .tridonic [Act.rel, Act.close] items none
      simp [edtOK, edtSeg, edtSeg_append, hx]
    | hasseb =>
      simp only [Task.ok, mkTask, Bool.and_eq_true, Option.isSome_none, Option.isNone_none, and_true]
      refine ⟨hfin2 _ hb _ (by simp [wfSeg, stepOK, Act.canRaise, Act.canComm, Act.eff, loopHead]), ?_⟩
      obtain ⟨x, hx⟩ := seqBody_edt .hasseb [Act.rel, Act.close] items none
      simp [edtOK, edtSeg, edtSeg_append, hx]
    | luba =>
      simp only [Task.ok, mkTask, Bool.and_eq_true, Option.isSome_none, Option.isNone_none, and_true]
      refine ⟨hfin2 _ hb _ (by simp [wfSeg, stepOK, Act.canRaise, Act.canComm, Act.eff, loopHead]), ?_⟩
      obtain ⟨x, hx⟩ := seqBody_edt .luba [Act.close, Act.rel] items none
      simp [edtOK, edtSeg, edtSeg_append, hx]
    | sci =>
      simp only [Task.ok, mkTask, Bool.and_eq_true, Option.isSome_none, Option.isNone_none, and_true]
      refine ⟨hfin2 _ hb _ (by simp [wfSeg, stepOK, Act.canRaise, Act.canComm, Act.eff, loopHead]), ?_⟩
      obtain ⟨x, hx⟩ := seqBody_edt .sci [Act.close, Act.rel] items none
      simp [edtOK, edtSeg, edtSeg_append, hx]

end DaliVerif.Async
