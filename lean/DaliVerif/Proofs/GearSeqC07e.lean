import DaliVerif.Proofs.GearSeqC07d
/-!
# C07, part e: RANDOMISE rounds and address discovery on the specification bus

* `WF` (24-bit random addresses), `inner_keeps` (the inner loop leaves random addresses, draw streams and
  fault flags of every unit alone);
* `outer_bus` — the loop over RANDOMISE rounds on any bus: a normal return means no unit is left ENABLED,
  every participant is WITHDRAWN, `|handed out| = min(#participants, |permitted|)`, at most
  `199·(#participants + 1)` commands per round, no exception on a fault-free bus;
* `discover_bus`, `discF_range` — the QUERY CONTROL GEAR PRESENT loop removes exactly the addresses in use.
-/
namespace DaliVerif.GearSeq
set_option linter.unusedSimpArgs false
set_option linter.unusedVariables false

/-! ## Well-formed random addresses; what the loops leave alone, unit by unit -/

/-- random addresses are 24-bit: the current one and every future draw -/
def WFv (v : V) : Prop := v.random ≤ HIGH ∧ ∀ d ∈ v.draws, d ≤ HIGH
def WF (L : List V) : Prop := ∀ v ∈ L, WFv v

theorem step_inner_fields (dry : Bool) (u : Gear) (c : Cmd) (h : IsInner dry c) :
    (u.execSt c).random = u.random ∧ (u.execSt c).draws = u.draws ∧ (u.execSt c).noStore = u.noStore ∧
    (u.execSt c).noVerify = u.noVerify ∧ ((u.execSt c).init = .disabled ↔ u.init = .disabled) := by
  cases c <;> (try exact h.elim) <;>
    (simp only [Gear.execSt, Cmd.devicetype, if_true, Gear.step]
     first
      | (simp [Gear.tick]; done)
      | (split <;> simp_all [Gear.tick]))

theorem fold_inner_fields (dry : Bool) (t : List Cmd) (h : ∀ c ∈ t, IsInner dry c) (u : Gear) :
    (t.foldl Gear.execSt u).random = u.random ∧ (t.foldl Gear.execSt u).draws = u.draws ∧
    (t.foldl Gear.execSt u).noStore = u.noStore ∧ (t.foldl Gear.execSt u).noVerify = u.noVerify ∧
    ((t.foldl Gear.execSt u).init = .disabled ↔ u.init = .disabled) := by
  induction t generalizing u with
  | nil => simp
  | cons c t ih =>
    simp only [List.foldl_cons]
    obtain ⟨a1, a2, a3, a4, a5⟩ := ih (fun d hd => h d (List.mem_cons_of_mem _ hd)) (u.execSt c)
    obtain ⟨b1, b2, b3, b4, b5⟩ := step_inner_fields dry u c (h c (List.mem_cons_self ..))
    exact ⟨a1.trans b1, a2.trans b2, a3.trans b3, a4.trans b4, a5.trans b5⟩

theorem inner_keeps {α : Type} (dry : Bool) (p : Prog α) (b : Bus)
    (h : ∀ c ∈ (runBus p b).trace, IsInner dry c) :
    (WF (view b) → WF (view (runBus p b).st)) ∧ (NoFault (view b) → NoFault (view (runBus p b).st)) := by
  rw [runBus_st]
  simp only [view, List.map_map]
  constructor
  · intro hw v hv
    simp only [List.mem_map, Function.comp] at hv
    obtain ⟨u, hu, rfl⟩ := hv
    obtain ⟨a1, a2, _⟩ := fold_inner_fields dry _ h u
    have := hw u.v (List.mem_map_of_mem hu)
    simp only [WFv, Gear.v] at this ⊢
    rw [a1, a2]; exact this
  · intro hw v hv
    simp only [List.mem_map, Function.comp] at hv
    obtain ⟨u, hu, rfl⟩ := hv
    obtain ⟨_, _, a3, a4, _⟩ := fold_inner_fields dry _ h u
    have := hw u.v (List.mem_map_of_mem hu)
    simp only [Gear.v] at this ⊢
    rw [a3, a4]; exact this

theorem rand_enRV_len (L : List V) : (enRV (L.map V.rand)).length = (enRV L).length := by
  induction L with
  | nil => rfl
  | cons v L ih =>
    simp only [enRV, List.map_cons, List.filterMap_cons] at ih ⊢
    have e : (V.rand v).init = v.init := by
      simp only [V.rand]; split
      · rfl
      · split <;> rfl
    rw [e]
    by_cases he : v.init = .enabled
    · simp only [he, if_true, List.length_cons, ih]
    · simp only [he, if_false, ih]

theorem rand_nWd (L : List V) : nWd (L.map V.rand) = nWd L := by
  simp only [nWd, List.countP_map]
  congr 1
  funext v
  simp only [Function.comp, V.rand]
  split
  · rfl
  · split <;> rfl

theorem rand_flags (v : V) : (V.rand v).noStore = v.noStore ∧ (V.rand v).noVerify = v.noVerify := by
  simp only [V.rand]; split
  · exact ⟨rfl, rfl⟩
  · split <;> exact ⟨rfl, rfl⟩

theorem rand_WF (L : List V) (h : WF L) : WF (L.map V.rand) := by
  intro v hv
  simp only [List.mem_map] at hv
  obtain ⟨w, hw, rfl⟩ := hv
  have := h w hw
  simp only [V.rand, WFv] at this ⊢
  split
  · exact this
  · split
    · exact this
    · rename_i d ds hd
      rw [hd] at this
      exact ⟨this.2 d (List.mem_cons_self ..), fun x hx => this.2 x (List.mem_cons_of_mem _ hx)⟩

theorem view_randomise (b : Bus) : view (Bus.exec b .randomise).2 = (view b).map V.rand :=
  view_exec b _ _ (fun u _ => v_rand u)

theorem WF_enRV (L : List V) (h : WF L) : ∀ r ∈ enRV L, 0 ≤ r ∧ r ≤ HIGH := by
  intro r hr
  simp only [enRV, List.mem_filterMap] at hr
  obtain ⟨v, hv, e⟩ := hr
  split at e
  · injection e with e; subst e; exact ⟨Nat.zero_le _, (h v hv).1⟩
  · cases e

theorem countRandomise_append (t u : List Cmd) : countRandomise (t ++ u) = countRandomise t + countRandomise u := by
  simp [countRandomise, List.filter_append]

theorem countRandomise_inner (dry : Bool) (t : List Cmd) (h : ∀ c ∈ t, IsInner dry c) : countRandomise t = 0 := by
  unfold countRandomise
  rw [List.length_eq_zero_iff, List.filter_eq_nil_iff]
  intro c hc
  have := h c hc
  cases c <;> first | exact this.elim | simp


/-! ## The loop over RANDOMISE rounds on the specification bus -/

structure PostO (o : Out Bus (List (Nat × Nat))) (tot w : Nat) (avail : List Nat) (handed : List (Nat × Nat))
    (nf : Prop) : Prop where
  ret : ∀ h', o.res = .ret h' → enRV (view o.st) = [] ∧ nWd (view o.st) = tot ∧
    (handed.length = min w (handed.length + avail.length) → h'.length = min tot (handed.length + avail.length))
  len : o.trace.length ≤ countRandomise o.trace * (199 * tot + 199)
  raise : nf → ∀ e, o.res ≠ .raised e

theorem outer_bus (dry : Bool) : ∀ (rounds : Nat) (avail : List Nat) (handed : List (Nat × Nat)) (b : Bus),
    WF (view b) →
    PostO (runBus (outer dry rounds avail handed) b) ((enRV (view b)).length + nWd (view b)) (nWd (view b))
      avail handed (NoFault (view b)) := by
  intro rounds
  induction rounds with
  | zero =>
    intro avail handed b _
    refine ⟨?_, ?_, ?_⟩ <;> simp [outer, runBus, Prog.run]
  | succ rounds ih =>
    intro avail handed b hwf
    rw [outer, runBus_tell, runBus_note]
    have hv1 := view_randomise b
    have hwf1 : WF (view (Bus.exec b .randomise).2) := by rw [hv1]; exact rand_WF _ hwf
    have P := inner_bus dry (HIGH + 2) 0 avail handed (Bus.exec b .randomise).2 (Nat.zero_le _) (by omega)
      (WF_enRV _ hwf1)
    have hcls := (inner_only dry (HIGH + 2) 0 avail handed).trace Bus.exec (Bus.exec b .randomise).2
    have hkeep := inner_keeps dry (inner dry (HIGH + 2) 0 avail handed) (Bus.exec b .randomise).2 hcls
    have hcr := countRandomise_inner dry _ hcls
    rw [hv1, rand_enRV_len, rand_nWd] at P
    have hcons : ∀ t : List Cmd, countRandomise (Cmd.randomise :: t) = countRandomise t + 1 := by
      intro t; simp [countRandomise, List.filter_cons]
    simp only [runBus] at P hkeep hcr ⊢
    rw [run_bind]
    generalize ((inner dry (HIGH + 2) 0 avail handed).run Bus.exec (Bus.exec b .randomise).2) = o1 at P hkeep hcr ⊢
    have hlen := P.len
    cases hres : o1.res with
    | ret r =>
      dsimp only
      match r, hres with
      | .clash av' h', hres =>
        obtain ⟨a1, a2, a3⟩ := P.ret av' h' (Or.inl hres)
        have Q := ih av' h' o1.st (hkeep.1 hwf1)
        simp only [runBus] at Q
        rw [a1] at Q
        dsimp only
        refine ⟨?_, ?_, ?_⟩
        · intro h'' hr
          obtain ⟨b1, b2, b3⟩ := Q.ret h'' hr
          refine ⟨b1, b2, ?_⟩
          intro hh
          rw [← a2]; exact b3 (a3 hh)
        · have := Q.len
          dsimp only
          rw [hcons, countRandomise_append, hcr, Nat.zero_add, Nat.succ_mul]
          simp only [List.length_cons, List.length_append]
          omega
        · intro nf
          apply Q.raise
          apply hkeep.2
          rw [hv1]; exact NoFault_map _ _ rand_flags nf
      | .finished av' h', hres =>
        obtain ⟨a1, a2, a3⟩ := P.ret av' h' (Or.inr hres)
        have a4 := P.fin av' h' hres
        simp only [Prog.run, List.append_nil]
        refine ⟨?_, ?_, by simp⟩
        · intro h'' hr
          injection hr with hr
          subst hr
          rw [a4] at a1
          simp only [List.length_nil, Nat.zero_add] at a1
          refine ⟨a4, a1, ?_⟩
          intro hh
          have := a3 hh
          rw [a1, a2] at this; exact this
        · dsimp only
          rw [hcons, hcr]
          simp only [List.length_cons]
          omega
    | raised e =>
      dsimp only
      refine ⟨by simp, ?_, ?_⟩
      · dsimp only
        rw [hcons, hcr]
        simp only [List.length_cons]
        omega
      · intro nf e' he'
        exact P.raise (NoFault_map _ _ rand_flags nf) e hres
    | outOfFuel => exact absurd hres P.nofuel


/-! ## Discovery of the addresses in use -/

def inUseL (L : List V) : List Nat := L.filterMap (·.short)

theorem inUseL_view (b : Bus) : inUseL (view b) = b.filterMap (·.short) := by
  simp only [inUseL, view, List.filterMap_map]; rfl

/-- what the `for a in range(64)` loop computes, given the answers of the bus -/
def discF (L : List V) : List Nat → List Nat → List Nat
  | [], av => av
  | a :: as, av =>
    if av.contains a then discF L as (if (inUseL L).contains a then av.erase a else av) else discF L as av

theorem present_isYes' (b : Bus) (a : Nat) :
    (Bus.exec b (.queryGearPresent (.short a))).1.isYes = (inUseL (view b)).contains a := by
  rw [Bool.eq_iff_iff, present_isYes]
  simp only [inUseL, List.contains_iff_mem, List.mem_filterMap]

theorem discover_bus {α : Type} (k : List Nat → Prog α) : ∀ (as av : List Nat) (b : Bus),
    ∃ (t : List Cmd) (b1 : Bus), view b1 = view b ∧ t.length ≤ as.length ∧ (∀ c ∈ t, IsQuiet c) ∧
      runBus (discover as av k) b =
        ⟨(runBus (k (discF (view b) as av)) b1).res, (runBus (k (discF (view b) as av)) b1).st,
          t ++ (runBus (k (discF (view b) as av)) b1).trace⟩ := by
  intro as
  induction as with
  | nil => intro av b; exact ⟨[], b, rfl, Nat.le_refl _, by simp, rfl⟩
  | cons a as ih =>
    intro av b
    simp only [discover, discF]
    by_cases hc : av.contains a = true
    · simp only [hc, if_true]
      rw [runBus_send, present_isYes']
      have hq : view (Bus.exec b (.queryGearPresent (.short a))).2 = view b := by
        rw [view_exec b _ id (fun u _ => v_quiet u (.queryGearPresent (.short a)) trivial)]; simp
      obtain ⟨t, b1, h1, h2, h3, h4⟩ := ih (if (inUseL (view b)).contains a then av.erase a else av)
        (Bus.exec b (.queryGearPresent (.short a))).2
      rw [hq] at h1 h4
      refine ⟨Cmd.queryGearPresent (.short a) :: t, b1, h1, by simp only [List.length_cons]; omega, ?_, ?_⟩
      · intro c hc'
        simp only [List.mem_cons] at hc'
        rcases hc' with rfl | hc'
        · trivial
        · exact h3 c hc'
      · rw [h4]; rfl
    · simp only [hc, if_false, Bool.false_eq_true]
      obtain ⟨t, b1, h1, h2, h3, h4⟩ := ih av b
      exact ⟨t, b1, h1, by simp only [List.length_cons]; omega, h3, h4⟩

theorem erase_eq_filter_of_nodup (l : List Nat) (a : Nat) (h : l.Nodup) : l.erase a = l.filter (· != a) :=
  List.Nodup.erase_eq_filter h a

theorem discF_eq (L : List V) : ∀ (as av : List Nat), av.Nodup →
    discF L as av = av.filter (fun x => !(as.contains x && (inUseL L).contains x)) := by
  intro as
  induction as with
  | nil => intro av _; simp only [discF]; exact (List.filter_eq_self.mpr (fun _ _ => by simp)).symm
  | cons a as ih =>
    intro av hnd
    simp only [discF]
    by_cases hc : av.contains a = true
    · simp only [hc, if_true]
      by_cases hu : (inUseL L).contains a = true
      · simp only [hu, if_true]
        rw [ih _ (hnd.erase a), erase_eq_filter_of_nodup av a hnd, List.filter_filter]
        apply List.filter_congr
        intro x hx
        by_cases hxa : x = a
        · subst hxa; simp [List.contains_iff_mem.mp hu]
        · have : (a == x) = false := by simp; exact fun e => hxa e.symm
          simp [hxa, List.contains_cons, this]
      · simp only [hu, if_false, Bool.false_eq_true]
        rw [ih _ hnd]
        apply List.filter_congr
        intro x hx
        by_cases hxa : x = a
        · subst hxa
          have hu' : x ∉ inUseL L := fun h => hu (List.contains_iff_mem.mpr h)
          simp [hu']
        · have : (a == x) = false := by simp; exact fun e => hxa e.symm
          simp [hxa, List.contains_cons, this]
    · simp only [hc, if_false, Bool.false_eq_true]
      rw [ih _ hnd]
      apply List.filter_congr
      intro x hx
      have hxa : x ≠ a := by
        intro e; subst e
        exact hc (List.contains_iff_mem.mpr hx)
      have : (a == x) = false := by simp; exact fun e => hxa e.symm
      simp [hxa, List.contains_cons, this]

theorem discF_range (L : List V) (av : List Nat) (hnd : av.Nodup) (h64 : ∀ a ∈ av, a < 64) :
    discF L (List.range 64) av = av.filter (fun a => !(inUseL L).contains a) := by
  rw [discF_eq L _ av hnd]
  apply List.filter_congr
  intro x hx
  have : (List.range 64).contains x = true := by
    rw [List.contains_iff_mem, List.mem_range]; exact h64 x hx
  simp only [this, Bool.true_and]

end DaliVerif.GearSeq
