import DaliVerif.Proofs.Bits
import DaliVerif.Spec.AddressSpec
/-!
# Helper lemmas for C04
-/
set_option linter.unusedSimpArgs false
namespace DaliVerif
open Frame Spec

theorem bitTest_eq (d i : Nat) : getBitRaw d i = decide (d / 2 ^ i % 2 = 1) := by
  rw [testBit_and_one_shiftLeft, Nat.testBit_eq_decide_div_mod_eq]

theorem setBitRaw_eq_setSlice (bits d k : Nat) (v : Bool) (hk : k < bits) (hd : d < 2 ^ bits) :
    setBitRaw bits d k v = setSliceRaw bits d k k (if v then 1 else 0) := by
  apply Nat.eq_of_testBit_eq
  intro i
  have hv : (if v then 1 else 0) < 2 ^ (k + 1 - k) := by
    have : k + 1 - k = 1 := by omega
    rw [this]; cases v <;> simp
  rw [testBit_setBitRaw _ _ _ _ _ hk hd, testBit_setSliceRaw _ _ _ _ _ _ (Nat.le_refl k) hk hd hv]
  by_cases h : i = k
  · subst h; cases v <;> simp
  · have : ¬ (k ≤ i ∧ i ≤ k) := by omega
    simp [h, this]

namespace Addr

/-- each class's own `from_frame` agrees with the standard's partition -/
theorem kind_sound (k : AddrKind) (f : Frame) (a : Addr)
    (h : kindFromFrame k f = some a) : partition f = some a := by
  unfold kindFromFrame at h
  simp only [bitTest_eq, getSliceRaw_eq] at h
  cases k <;> simp only [] at h <;> (try contradiction) <;> (split at h <;> try contradiction)
  all_goals
    rename_i hc
    injection h with h
    subst h
    simp only [Bool.and_eq_true, beq_iff_eq, decide_eq_true_eq, Bool.not_eq_true',
       decide_eq_false_iff_not, Nat.reducePow, Nat.reduceAdd, Nat.reduceSub] at hc
    simp only [partition, gearPartition, devicePartition, Nat.reducePow, Nat.reduceAdd, Nat.reduceSub]
    grind

/-- and the partition is realised by the concrete class of its result -/
theorem kind_complete (f : Frame) (a : Addr) (h : partition f = some a) :
    ∃ k ∈ concreteKinds, kindFromFrame k f = some a := by
  simp only [partition, gearPartition, devicePartition] at h
  cases a
  · refine ⟨.gearBroadcast, by simp [concreteKinds], ?_⟩
    simp only [kindFromFrame, bitTest_eq, getSliceRaw_eq, Nat.reducePow, Nat.reduceAdd, Nat.reduceSub]
    grind
  · refine ⟨.deviceBroadcast, by simp [concreteKinds], ?_⟩
    simp only [kindFromFrame, bitTest_eq, getSliceRaw_eq, Nat.reducePow, Nat.reduceAdd, Nat.reduceSub]
    grind
  · refine ⟨.gearUnaddressed, by simp [concreteKinds], ?_⟩
    simp only [kindFromFrame, bitTest_eq, getSliceRaw_eq, Nat.reducePow, Nat.reduceAdd, Nat.reduceSub]
    grind
  · refine ⟨.deviceUnaddressed, by simp [concreteKinds], ?_⟩
    simp only [kindFromFrame, bitTest_eq, getSliceRaw_eq, Nat.reducePow, Nat.reduceAdd, Nat.reduceSub]
    grind
  · refine ⟨.gearGroup, by simp [concreteKinds], ?_⟩
    simp only [kindFromFrame, bitTest_eq, getSliceRaw_eq, Nat.reducePow, Nat.reduceAdd, Nat.reduceSub]
    grind
  · refine ⟨.deviceGroup, by simp [concreteKinds], ?_⟩
    simp only [kindFromFrame, bitTest_eq, getSliceRaw_eq, Nat.reducePow, Nat.reduceAdd, Nat.reduceSub]
    grind
  · refine ⟨.gearShort, by simp [concreteKinds], ?_⟩
    simp only [kindFromFrame, bitTest_eq, getSliceRaw_eq, Nat.reducePow, Nat.reduceAdd, Nat.reduceSub]
    grind
  · refine ⟨.deviceShort, by simp [concreteKinds], ?_⟩
    simp only [kindFromFrame, bitTest_eq, getSliceRaw_eq, Nat.reducePow, Nat.reduceAdd, Nat.reduceSub]
    grind

theorem addrByte_lt (a : Addr) (hv : a.Valid) : addrByte a < 128 := by
  cases a <;> simp only [addrByte, Valid] at * <;> omega

/-- arithmetic form of writing a gear address: the field is replaced, the low 9 bits kept -/
theorem addToFrame_gear (a : Addr) (hv : a.Valid) (hg : a.isGear = true) (d : Nat) (hd : d < 65536) :
    a.addToFrame ⟨16, d⟩ = .ok ⟨16, 512 * addrByte a + d % 512⟩ := by
  have hd' : d < 2 ^ 16 := by simpa using hd
  cases a <;> simp only [Addr.isGear] at hg <;> try contradiction
  all_goals simp only [addToFrame, Addr.frameSize, Addr.isGear, bne_self_eq_false, if_true,
    Bool.false_eq_true, if_false, addrByte]
  · rw [setSliceRaw_eqA 16 d 15 9 _ (by omega) (by omega) hd' (by decide)]
    simp [setSliceA]; omega
  · rw [setSliceRaw_eqA 16 d 15 9 _ (by omega) (by omega) hd' (by decide)]
    simp [setSliceA]; omega
  · rename_i g
    have hg : g ≤ 15 := hv
    have h1 := setSliceRaw_lt 16 d 15 13 4 (by omega) (by omega) hd' (by decide)
    rw [setSliceRaw_eqA 16 _ 12 9 g (by omega) (by omega) h1 (by simp; omega),
      setSliceRaw_eqA 16 d 15 13 4 (by omega) (by omega) hd' (by decide)]
    simp [setSliceA]; omega
  · rename_i s
    have hs : s ≤ 63 := hv
    have h1 := setBitRaw_lt 16 d 15 false (by omega) hd'
    rw [setSliceRaw_eqA 16 _ 14 9 s (by omega) (by omega) h1 (by simp; omega),
      setBitRaw_eq_setSlice 16 d 15 false (by omega) hd',
      setSliceRaw_eqA 16 d 15 15 _ (by omega) (by omega) hd' (by decide)]
    simp [setSliceA]; omega

/-- arithmetic form of writing a device address: bits 23..17 replaced, the low 17 bits kept -/
theorem addToFrame_device (a : Addr) (hv : a.Valid) (hg : a.isGear = false) (d : Nat)
    (hd : d < 16777216) :
    a.addToFrame ⟨24, d⟩ = .ok ⟨24, 131072 * addrByte a + d % 131072⟩ := by
  have hd' : d < 2 ^ 24 := by simpa using hd
  cases a <;> simp only [Addr.isGear] at hg <;> try contradiction
  all_goals simp only [addToFrame, Addr.frameSize, Addr.isGear, bne_self_eq_false, if_true,
    Bool.false_eq_true, if_false, addrByte]
  · rw [setSliceRaw_eqA 24 d 23 17 _ (by omega) (by omega) hd' (by decide)]
    simp [setSliceA]; omega
  · rw [setSliceRaw_eqA 24 d 23 17 _ (by omega) (by omega) hd' (by decide)]
    simp [setSliceA]; omega
  · rename_i g
    have hg : g ≤ 31 := hv
    have h1 := setSliceRaw_lt 24 d 23 22 2 (by omega) (by omega) hd' (by decide)
    rw [setSliceRaw_eqA 24 _ 21 17 g (by omega) (by omega) h1 (by simp; omega),
      setSliceRaw_eqA 24 d 23 22 2 (by omega) (by omega) hd' (by decide)]
    simp [setSliceA]; omega
  · rename_i s
    have hs : s ≤ 63 := hv
    have h1 := setBitRaw_lt 24 d 23 false (by omega) hd'
    rw [setSliceRaw_eqA 24 _ 22 17 s (by omega) (by omega) h1 (by simp; omega),
      setBitRaw_eq_setSlice 24 d 23 false (by omega) hd',
      setSliceRaw_eqA 24 d 23 23 _ (by omega) (by omega) hd' (by decide)]
    simp [setSliceA]; omega

theorem gearPartition_addrByte (a : Addr) (hv : a.Valid) (hg : a.isGear = true) :
    gearPartition (addrByte a) = some a := by
  cases a <;> simp only [Addr.isGear] at hg <;> try contradiction
  all_goals simp only [gearPartition, addrByte, Valid] at *
  · simp
  · simp
  · rename_i g; have : ¬ (64 + g < 64) := by omega
    have h2 : 64 + g < 80 := by omega
    simp [this, h2]
  · rename_i s; have : s < 64 := by omega
    simp [this]

theorem devicePartition_addrByte (a : Addr) (hv : a.Valid) (hg : a.isGear = false) :
    devicePartition true (addrByte a) = some a := by
  cases a <;> simp only [Addr.isGear] at hg <;> try contradiction
  all_goals simp only [devicePartition, addrByte, Valid] at *
  · simp
  · simp
  · rename_i g; have : ¬ (64 + g < 64) := by omega
    have h2 : 64 + g < 96 := by omega
    simp [this, h2]
  · rename_i s; have : s < 64 := by omega
    simp [this]

theorem findSome?_unique {α β} (g : α → Option β) (l : List α) (b : β)
    (huniq : ∀ k b', g k = some b' → b' = b) (k : α) (hk : k ∈ l) (hg : g k = some b) :
    l.findSome? g = some b := by
  induction l with
  | nil => cases hk
  | cons x xs ih =>
    simp only [List.findSome?_cons]
    cases hx : g x with
    | some b' => simp [huniq x b' hx]
    | none =>
      simp only
      rcases List.mem_cons.mp hk with rfl | hk'
      · rw [hx] at hg; contradiction
      · exact ih hk'

/-- **decode partition**: whatever the registration order, reading a frame
yields exactly the address the standard's partition assigns (at most one kind). -/
theorem fromFrame_eq_partition (order : List AddrKind) (hok : OrderOK order) (f : Frame) :
    fromFrame order f = partition f := by
  unfold fromFrame
  cases hp : partition f with
  | none =>
    rw [List.findSome?_eq_none_iff]
    intro k _
    cases hk : kindFromFrame k f with
    | none => rfl
    | some a => rw [kind_sound k f a hk] at hp; contradiction
  | some a =>
    obtain ⟨k, hk, hka⟩ := kind_complete f a hp
    apply findSome?_unique _ _ _ _ k (hok k hk) hka
    intro k' b' hb'
    have := kind_sound k' f b' hb'
    rw [hp] at this; injection this with this; exact this.symm

end Addr
end DaliVerif
