import DaliVerif.Model.MemSeq
import DaliVerif.Spec.MemUnit
import DaliVerif.Proofs.DevSeqProg
namespace DaliVerif.DevMem
open Prog

namespace MemUnit

/-- the unit listens to commands of kind `dev` for short address `a` -/
def Listens (u : MemUnit) (dev : Bool) (a : Nat) : Prop := u.dev = dev ∧ u.addr = a

theorem step_dtr0 (u : MemUnit) (dev : Bool) (v : Nat) (h : u.dev = dev) :
    u.step (.dtr0 dev v) = (.none, { u with dtr0 := v, clock := u.clock + 1 }) := by
  simp [step, exec, h]

theorem step_dtr1 (u : MemUnit) (dev : Bool) (v : Nat) (h : u.dev = dev) :
    u.step (.dtr1 dev v) = (.none, { u with dtr1 := v, clock := u.clock + 1 }) := by
  simp [step, exec, h]

theorem step_enable (u : MemUnit) (dev : Bool) (a : Nat) (h : u.Listens dev a) :
    u.step (.enableWriteMemory dev a) = (.none, { u with we := true, clock := u.clock + 1 }) := by
  simp [step, exec, h.1, h.2]

theorem step_read (u : MemUnit) (dev : Bool) (a : Nat) (h : u.Listens dev a)
    (hb : u.dtr1 = u.bank.number) :
    u.step (.readMemoryLocation dev a) =
      (respOf (u.bank.cellAt u.clock u.dtr0),
        { u with we := false, dtr0 := u.incDtr0, clock := u.clock + 1 }) := by
  simp [step, exec, h.1, h.2, hb]

theorem step_read_absent (u : MemUnit) (dev : Bool) (a : Nat) (h : u.Listens dev a)
    (hb : u.dtr1 ≠ u.bank.number) :
    u.step (.readMemoryLocation dev a) = (.none, { u with we := false, clock := u.clock + 1 }) := by
  simp [step, exec, h.1, h.2, hb]

theorem incDtr0_eq (u : MemUnit) (hadv : u.advance = true) (h : u.dtr0 ≤ 255) :
    u.incDtr0 = min (u.dtr0 + 1) 255 := by
  unfold incDtr0
  simp only [hadv, Bool.true_and]
  by_cases h' : u.dtr0 < 255
  · simp [h']; omega
  · simp [h']; omega

end MemUnit

theorem Bank.cellAt_stable (b : Bank) (hs : b.Stable) (t a : Nat) : b.cellAt t a = b.cellAt 0 a := by
  unfold Bank.cellAt; rw [hs t a]

/-- key lemma: the local `dtr0` of `read_raw` tracks the unit's DTR0, for any
location order; the bytes are the cells; the bank is not touched -/
theorem readLoop_run (dev : Bool) (a : Nat) :
    ∀ (locs : List Nat) (u : MemUnit) (d : Option Nat) (acc : List Nat),
      u.Listens dev a → u.advance = true → u.dtr1 = u.bank.number → u.bank.Stable →
      (∀ l ∈ locs, l ≤ 255) → (∀ x, d = some x → u.dtr0 = x) →
      ((readLoop dev a locs d acc).run MemUnit.step u).1 =
        readOutcome ((u.bank.readCells 0 locs).map (acc ++ ·)) ∧
      ((readLoop dev a locs d acc).run MemUnit.step u).2.bank = u.bank := by
  intro locs
  induction locs with
  | nil => intro u d acc _ _ _ _ _ _; simp [readLoop, Bank.readCells, readOutcome]
  | cons l ls ih =>
    intro u d acc hl hadv hb hst hlocs hd
    have hl255 : l ≤ 255 := hlocs l (by simp)
    have hls : ∀ x ∈ ls, x ≤ 255 := fun x hx => hlocs x (by simp [hx])
    -- the unit right before the read: DTR0 = l
    have body : ∀ (u : MemUnit), u.Listens dev a → u.advance = true → u.dtr1 = u.bank.number →
        u.bank.Stable → u.dtr0 = l →
        ((Prog.send (.readMemoryLocation dev a) fun r =>
            match r with
            | .none => Prog.fail .MemoryLocationNotImplemented
            | .err => Prog.fail .ResponseError
            | .byte b => readLoop dev a ls (some (min (l + 1) 255)) (acc ++ [b])).run MemUnit.step u).1 =
          readOutcome ((u.bank.readCells 0 (l :: ls)).map (acc ++ ·)) ∧
        ((Prog.send (.readMemoryLocation dev a) fun r =>
            match r with
            | .none => Prog.fail .MemoryLocationNotImplemented
            | .err => Prog.fail .ResponseError
            | .byte b => readLoop dev a ls (some (min (l + 1) 255)) (acc ++ [b])).run MemUnit.step u).2.bank
          = u.bank := by
      intro u hl hadv hb hst h0
      simp only [run_send, MemUnit.step_read u dev a hl hb]
      rw [Bank.cellAt_stable _ hst, h0]
      simp only [Bank.readCells]
      cases hc : u.bank.cellAt 0 l with
      | none => simp [respOf, readOutcome]
      | some x =>
        simp only [respOf]
        have := ih { u with we := false, dtr0 := u.incDtr0, clock := u.clock + 1 }
          (some (min (l + 1) 255)) (acc ++ [x]) hl hadv hb hst hls
          (by intro y hy; cases hy; simp [MemUnit.incDtr0_eq u hadv (by omega), h0])
        obtain ⟨h1, h2⟩ := this
        constructor
        · rw [h1]
          cases u.bank.readCells 0 ls <;> simp [readOutcome]
        · rw [h2]
    unfold readLoop
    by_cases hdl : d = some l
    · simp only [hdl, if_true]
      exact body u hl hadv hb hst (hd l hdl)
    · simp only [hdl, if_false, run_send, MemUnit.step_dtr0 u dev l hl.1]
      exact body _ hl hadv hb hst rfl

end DaliVerif.DevMem
