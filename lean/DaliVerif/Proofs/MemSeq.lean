import DaliVerif.Model.MemSeq
import DaliVerif.Spec.MemUnit
import DaliVerif.Proofs.DevSeqProg
namespace DaliVerif.DevMem
open Prog

namespace MemUnit

/-- the unit listens to commands of kind `dev` for short address `a` -/
def Listens (u : MemUnit) (dev : Bool) (a : Nat) : Prop := u.dev = dev ∧ u.addr = a

theorem step_dtr0 (u : MemUnit) (dev : Bool) (v : Nat) (h : u.dev = dev) :
    u.step (.dtr0 dev v) = (.none, { u with dtr0 := v, clock := u.clock + 1 }) := by
  simp [step, exec, h]

theorem step_dtr1 (u : MemUnit) (dev : Bool) (v : Nat) (h : u.dev = dev) :
    u.step (.dtr1 dev v) = (.none, { u with dtr1 := v, clock := u.clock + 1 }) := by
  simp [step, exec, h]

theorem step_enable (u : MemUnit) (dev : Bool) (a : Nat) (h : u.Listens dev a) :
    u.step (.enableWriteMemory dev a) = (.none, { u with we := true, clock := u.clock + 1 }) := by
  simp [step, exec, h.1, h.2]

theorem step_read (u : MemUnit) (dev : Bool) (a : Nat) (h : u.Listens dev a)
    (hb : u.dtr1 = u.bank.number) :
    u.step (.readMemoryLocation dev a) =
      (respOf (u.bank.cellAt u.clock u.dtr0),
        { u with we := false, dtr0 := u.incDtr0, clock := u.clock + 1 }) := by
  simp [step, exec, h.1, h.2, hb]

theorem step_read_absent (u : MemUnit) (dev : Bool) (a : Nat) (h : u.Listens dev a)
    (hb : u.dtr1 ≠ u.bank.number) :
    u.step (.readMemoryLocation dev a) = (.none, { u with we := false, clock := u.clock + 1 }) := by
  simp [step, exec, h.1, h.2, hb]

theorem incDtr0_eq (u : MemUnit) (hadv : u.advance = true) (h : u.dtr0 ≤ 255) :
    u.incDtr0 = min (u.dtr0 + 1) 255 := by
  unfold incDtr0
  simp only [hadv, Bool.true_and]
  by_cases h' : u.dtr0 < 255
  · simp [h']; omega
  · simp [h']; omega

end MemUnit

theorem Bank.cellAt_stable (b : Bank) (hs : b.Stable) (t a : Nat) : b.cellAt t a = b.cellAt 0 a := by
  unfold Bank.cellAt; rw [hs t a]

/-- key lemma: the local `dtr0` of `read_raw` tracks the unit's DTR0, for any
location order; the bytes are the cells; the bank is not touched -/
theorem readLoop_run (dev : Bool) (a : Nat) :
    ∀ (locs : List Nat) (u : MemUnit) (d : Option Nat) (acc : List Nat),
      u.Listens dev a → u.advance = true → u.dtr1 = u.bank.number → u.bank.Stable →
      (∀ l ∈ locs, l ≤ 255) → (∀ x, d = some x → u.dtr0 = x) →
      ((readLoop dev a locs d acc).run MemUnit.step u).1 =
        readOutcome ((u.bank.readCells 0 locs).map (acc ++ ·)) ∧
      ((readLoop dev a locs d acc).run MemUnit.step u).2.bank = u.bank := by
  intro locs
  induction locs with
  | nil => intro u d acc _ _ _ _ _ _; simp [readLoop, Bank.readCells, readOutcome]
  | cons l ls ih =>
    intro u d acc hl hadv hb hst hlocs hd
    have hl255 : l ≤ 255 := hlocs l (by simp)
    have hls : ∀ x ∈ ls, x ≤ 255 := fun x hx => hlocs x (by simp [hx])
    -- the unit right before the read: DTR0 = l
    have body : ∀ (u : MemUnit), u.Listens dev a → u.advance = true → u.dtr1 = u.bank.number →
        u.bank.Stable → u.dtr0 = l →
        ((Prog.send (.readMemoryLocation dev a) fun r =>
            match r with
            | .none => Prog.fail .MemoryLocationNotImplemented
            | .err => Prog.fail .ResponseError
            | .byte b => readLoop dev a ls (some (min (l + 1) 255)) (acc ++ [b])).run MemUnit.step u).1 =
          readOutcome ((u.bank.readCells 0 (l :: ls)).map (acc ++ ·)) ∧
        ((Prog.send (.readMemoryLocation dev a) fun r =>
            match r with
            | .none => Prog.fail .MemoryLocationNotImplemented
            | .err => Prog.fail .ResponseError
            | .byte b => readLoop dev a ls (some (min (l + 1) 255)) (acc ++ [b])).run MemUnit.step u).2.bank
          = u.bank := by
      intro u hl hadv hb hst h0
      simp only [run_send, MemUnit.step_read u dev a hl hb]
      rw [Bank.cellAt_stable _ hst, h0]
      simp only [Bank.readCells]
      cases hc : u.bank.cellAt 0 l with
      | none => simp [respOf, readOutcome]
      | some x =>
        simp only [respOf]
        have := ih { u with we := false, dtr0 := u.incDtr0, clock := u.clock + 1 }
          (some (min (l + 1) 255)) (acc ++ [x]) hl hadv hb hst hls
          (by intro y hy; cases hy; simp [MemUnit.incDtr0_eq u hadv (by omega), h0])
        obtain ⟨h1, h2⟩ := this
        constructor
        · rw [h1]
          cases u.bank.readCells 0 ls <;> simp [readOutcome]
        · rw [h2]
    unfold readLoop
    by_cases hdl : d = some l
    · simp only [hdl, if_true]
      exact body u hl hadv hb hst (hd l hdl)
    · simp only [hdl, if_false, run_send, MemUnit.step_dtr0 u dev l hl.1]
      exact body _ hl hadv hb hst rfl



theorem Bank.readCells_isSome (b : Bank) (t : Nat) (locs : List Nat) :
    (b.readCells t locs).isSome = true ↔ ∀ l ∈ locs, b.readable l = true := by
  induction locs with
  | nil => simp [Bank.readCells]
  | cons l ls ih =>
    simp only [Bank.readCells, Bank.cellAt, List.mem_cons, forall_eq_or_imp]
    by_cases h : b.readable l = true
    · simp only [h, if_true, true_and]
      rw [← ih]; cases b.readCells t ls <;> simp
    · simp [h]

theorem Bank.readCells_eq_map (b : Bank) (t : Nat) (locs : List Nat)
    (h : ∀ l ∈ locs, b.readable l = true) : b.readCells t locs = some (locs.map (b.content t)) := by
  induction locs with
  | nil => rfl
  | cons l ls ih =>
    have hl := h l (by simp)
    have := ih (fun x hx => h x (by simp [hx]))
    simp [Bank.readCells, Bank.cellAt, hl, this]

/-- `read_raw` against a conforming unit that implements the bank, whatever its
registers held before -/
theorem readRaw_run (u : MemUnit) (dev : Bool) (a bank : Nat) (locs : List Nat)
    (hl : u.Listens dev a) (hadv : u.advance = true) (hb : u.bank.number = bank) (hst : u.bank.Stable)
    (hlocs : ∀ l ∈ locs, l ≤ 255) :
    ((readRaw (if dev then .devShort a else .gearShort a) bank locs).run MemUnit.step u).1 =
      readOutcome (u.bank.readCells 0 locs) ∧
    ((readRaw (if dev then .devShort a else .gearShort a) bank locs).run MemUnit.step u).2.bank = u.bank := by
  have hres : resolveAddr (if dev then .devShort a else .gearShort a) = .ok (dev, a) := by
    cases dev <;> rfl
  unfold readRaw
  rw [hres]
  simp only [run_send, MemUnit.step_dtr1 u dev bank hl.1]
  have := readLoop_run dev a locs { u with dtr1 := bank, clock := u.clock + 1 } none [] hl hadv
    hb.symm hst hlocs (by intro x hx; cases hx)
  obtain ⟨h1, h2⟩ := this
  constructor
  · rw [h1]; cases u.bank.readCells 0 locs <;> simp [readOutcome]
  · rw [h2]

/-- nobody implements that bank: every read is silent -/
theorem readLoop_absent (dev : Bool) (a : Nat) :
    ∀ (locs : List Nat) (u : MemUnit) (d : Option Nat) (acc : List Nat),
      u.Listens dev a → u.dtr1 ≠ u.bank.number → locs ≠ [] →
      ((readLoop dev a locs d acc).run MemUnit.step u).1 = .error .MemoryLocationNotImplemented ∧
      ((readLoop dev a locs d acc).run MemUnit.step u).2.bank = u.bank := by
  intro locs u d acc hl hb hne
  cases locs with
  | nil => exact absurd rfl hne
  | cons l ls =>
    unfold readLoop
    by_cases hdl : d = some l
    · simp [hdl, MemUnit.step_read_absent u dev a hl hb]
    · simp only [hdl, if_false, run_send, MemUnit.step_dtr0 u dev l hl.1]
      have := MemUnit.step_read_absent { u with dtr0 := l, clock := u.clock + 1 } dev a hl hb
      rw [this]
      simp

theorem readRaw_run_absent (u : MemUnit) (dev : Bool) (a bank : Nat) (locs : List Nat)
    (hl : u.Listens dev a) (hb : u.bank.number ≠ bank) (hne : locs ≠ []) :
    ((readRaw (if dev then .devShort a else .gearShort a) bank locs).run MemUnit.step u).1 =
      .error .MemoryLocationNotImplemented ∧
    ((readRaw (if dev then .devShort a else .gearShort a) bank locs).run MemUnit.step u).2.bank = u.bank := by
  have hres : resolveAddr (if dev then .devShort a else .gearShort a) = .ok (dev, a) := by
    cases dev <;> rfl
  unfold readRaw
  rw [hres]
  simp only [run_send, MemUnit.step_dtr1 u dev bank hl.1]
  have := readLoop_absent dev a locs { u with dtr1 := bank, clock := u.clock + 1 } none [] hl
    (by simpa using fun h => hb h.symm) hne
  simpa using this

/-- answers to READ MEMORY LOCATION in an exchange -/
def readAnswers (tr : List (Cmd × Resp)) : List Resp :=
  tr.filterMap fun cr => match cr.1 with | .readMemoryLocation .. => some cr.2 | _ => none

theorem readLoop_faults (dev : Bool) (a : Nat) :
    ∀ (locs : List Nat) (d : Option Nat) (acc : List Nat) (tr : List (Cmd × Resp)) (out : PyRes (List Nat)),
      Out (readLoop dev a locs d acc) tr out →
        (∃ bs, out = .ok (acc ++ bs) ∧ readAnswers tr = bs.map .byte ∧ bs.length = locs.length) ∨
        (∃ bs : List Nat, out = .error .MemoryLocationNotImplemented ∧ readAnswers tr = bs.map .byte ++ [.none]) ∨
        (∃ bs : List Nat, out = .error .ResponseError ∧ readAnswers tr = bs.map .byte ++ [.err]) := by
  intro locs
  induction locs with
  | nil =>
    intro d acc tr out h
    simp [readLoop] at h
    left; exact ⟨[], by simp [h.2], by simp [h.1, readAnswers], rfl⟩
  | cons l ls ih =>
    intro d acc tr out h
    have body : ∀ tr, Out (Prog.send (.readMemoryLocation dev a) fun r =>
            match r with
            | .none => Prog.fail .MemoryLocationNotImplemented
            | .err => Prog.fail .ResponseError
            | .byte b => readLoop dev a ls (some (min (l + 1) 255)) (acc ++ [b])) tr out →
        (∃ bs, out = .ok (acc ++ bs) ∧ readAnswers tr = bs.map .byte ∧ bs.length = (l :: ls).length) ∨
        (∃ bs : List Nat, out = .error .MemoryLocationNotImplemented ∧ readAnswers tr = bs.map .byte ++ [.none]) ∨
        (∃ bs : List Nat, out = .error .ResponseError ∧ readAnswers tr = bs.map .byte ++ [.err]) := by
      intro tr h
      simp only [out_send] at h
      obtain ⟨r, tr', rfl, h⟩ := h
      cases r with
      | none => simp at h; right; left; exact ⟨[], h.2, by simp [readAnswers, h.1]⟩
      | err => simp at h; right; right; exact ⟨[], h.2, by simp [readAnswers, h.1]⟩
      | byte b =>
        simp only at h
        rcases ih _ _ _ _ h with ⟨bs, h1, h2, h3⟩ | ⟨bs, h1, h2⟩ | ⟨bs, h1, h2⟩
        · left; exact ⟨b :: bs, by simp [h1], by simp [readAnswers] at h2 ⊢; exact h2, by simp [h3]⟩
        · right; left; exact ⟨b :: bs, h1, by simp [readAnswers] at h2 ⊢; exact h2⟩
        · right; right; exact ⟨b :: bs, h1, by simp [readAnswers] at h2 ⊢; exact h2⟩
    unfold readLoop at h
    by_cases hdl : d = some l
    · simp only [hdl, if_true] at h; exact body tr h
    · simp only [hdl, if_false] at h
      rw [out_send] at h
      obtain ⟨r, tr', rfl, h⟩ := h
      have := body tr' h
      simpa [readAnswers] using this




/-- the sequential reads of `read_all`: cell by cell what the unit holds at the
moment of each read, DTR0 auto-increment, memory untouched -/
theorem readAllLoop_run (dev : Bool) (a : Nat) :
    ∀ (n : Nat) (u : MemUnit) (acc : List (Option Nat)),
      u.Listens dev a → u.advance = true → u.dtr1 = u.bank.number → u.dtr0 ≤ 255 → u.dtr0 + n ≤ 256 →
      (readAllLoop dev a n acc).run MemUnit.step u =
        (.ok (acc ++ (List.range n).map (fun j => u.bank.cellAt (u.clock + j) (u.dtr0 + j)), false),
          { u with clock := u.clock + n, dtr0 := min (u.dtr0 + n) 255,
                   we := if n = 0 then u.we else false }) := by
  intro n
  induction n with
  | zero =>
    intro u acc _ _ _ hd h
    simp only [readAllLoop, run_done, List.range_zero, List.map_nil, List.append_nil, Nat.add_zero, if_true]
    have : min u.dtr0 255 = u.dtr0 := by omega
    rw [this]
  | succ n ih =>
    intro u acc hl hadv hb hd hn
    simp only [readAllLoop, run_send, MemUnit.step_read u dev a hl hb]
    have hinc : u.incDtr0 = min (u.dtr0 + 1) 255 := MemUnit.incDtr0_eq u hadv hd
    have key : ∀ (o : Option Nat), o = u.bank.cellAt u.clock u.dtr0 →
        (readAllLoop dev a n (acc ++ [o])).run MemUnit.step
            { u with we := false, dtr0 := u.incDtr0, clock := u.clock + 1 } =
          (.ok (acc ++ (List.range (n + 1)).map (fun j => u.bank.cellAt (u.clock + j) (u.dtr0 + j)), false),
            { u with clock := u.clock + (n + 1), dtr0 := min (u.dtr0 + (n + 1)) 255,
                     we := if n + 1 = 0 then u.we else false }) := by
      intro o ho
      rw [ih { u with we := false, dtr0 := u.incDtr0, clock := u.clock + 1 } (acc ++ [o]) hl hadv hb
        (by simp only [hinc]; omega) (by simp only [hinc]; omega)]
      simp only [hinc]
      have hlist : acc ++ [o] ++ (List.range n).map (fun j =>
            u.bank.cellAt (u.clock + 1 + j) (min (u.dtr0 + 1) 255 + j)) =
          acc ++ (List.range (n + 1)).map (fun j => u.bank.cellAt (u.clock + j) (u.dtr0 + j)) := by
        rw [List.range_succ_eq_map, List.map_cons, List.map_map, List.append_assoc]
        congr 1
        simp only [List.singleton_append, Nat.add_zero, ho]
        congr 1
        apply List.map_congr_left
        intro j hj
        have hj' : j < n := List.mem_range.mp hj
        have : min (u.dtr0 + 1) 255 = u.dtr0 + 1 := by omega
        simp only [Function.comp, this]
        have e1 : u.clock + 1 + j = u.clock + j.succ := by omega
        have e2 : u.dtr0 + 1 + j = u.dtr0 + j.succ := by omega
        rw [e1, e2]
      rw [hlist]
      have e1 : u.clock + 1 + n = u.clock + (n + 1) := by omega
      have e2 : min (min (u.dtr0 + 1) 255 + n) 255 = min (u.dtr0 + (n + 1)) 255 := by omega
      simp only [e1, e2, Nat.succ_ne_zero, if_false]
      congr 2
      split <;> rfl
    cases hc : u.bank.cellAt u.clock u.dtr0 with
    | none => simp only [respOf]; exact key none hc.symm
    | some x => simp only [respOf]; exact key (some x) hc.symm




theorem bind_send {α β} (c : Cmd) (k : Resp → Prog α) (f : α → Prog β) :
    (Prog.send c k).bind f = .send c (fun r => (k r).bind f) := rfl
theorem bind_done {α β} (x : α) (f : α → Prog β) : (Prog.done x).bind f = f x := rfl
theorem bind_fail {α β} (e : PyErr) (f : α → Prog β) : (Prog.fail e : Prog α).bind f = .fail e := rfl

theorem resolve_short (dev : Bool) (a : Nat) :
    resolveAddr (if dev then .devShort a else .gearShort a) = .ok (dev, a) := by cases dev <;> rfl

namespace MemUnit
theorem step_writeNR (u : MemUnit) (dev : Bool) (v : Nat) (h : u.dev = dev) :
    u.step (.writeMemoryLocationNoReply dev v) =
      ((u.writeCell v false).1, { (u.writeCell v false).2 with clock := u.clock + 1 }) := by
  simp [step, exec, h]
end MemUnit

/-- the reads and the un-latch, from a unit whose DTR0 is at `start` -/
theorem readAllTail_run (u : MemUnit) (dev : Bool) (a : Nat) (latch : Bool) (start : Nat)
    (hl : u.Listens dev a) (hadv : u.advance = true) (hb : u.dtr1 = u.bank.number)
    (hd : u.dtr0 = start) (hs : start ≤ 255) (hlast : u.bank.last ≤ 255) :
    (readAllTail dev a latch start u.bank.last).run MemUnit.step u =
      (.ok (List.replicate start none ++
          (List.range (u.bank.last + 1 - start)).map (fun j => u.bank.cellAt (u.clock + j) (start + j))),
        if latch then
          { u with clock := u.clock + (u.bank.last + 1 - start) + 3, dtr0 := (if 2 ≤ u.bank.last ∧ (u.bank.hasLock || u.bank.hasLatch) then 3 else 3),
                   we := true,
                   bank := if u.bank.canWrite u.unlockValue 2 then u.bank.store (u.clock + (u.bank.last + 1 - start) + 2) 2 0xFF else u.bank }
        else
          { u with clock := u.clock + (u.bank.last + 1 - start),
                   dtr0 := min (start + (u.bank.last + 1 - start)) 255,
                   we := if u.bank.last + 1 - start = 0 then u.we else false }) := by
  unfold readAllTail
  rw [run_bind, readAllLoop_run dev a _ u _ hl hadv hb (by omega) (by omega)]
  subst hd
  cases latch
  · simp
  · have hdev := hl.1
    have haddr := hl.2
    simp only [if_true, run_send, run_done]
    by_cases hc : u.bank.canWrite u.unlockValue 2 = true
    · simp [MemUnit.step, MemUnit.exec, MemUnit.writeCell, MemUnit.incDtr0, hdev, haddr, hb, hadv, hc]
    · simp [MemUnit.step, MemUnit.exec, MemUnit.writeCell, MemUnit.incDtr0, hdev, haddr, hb, hadv, hc]




/-- the unit as `read_all` leaves it before the reads start -/
def MemUnit.afterLatch (u : MemUnit) (bank : Nat) (latch : Bool) : MemUnit :=
  let start := if bank = 0 then 2 else 3
  if latch then
    { u with clock := u.clock + 3 + (if 3 ≠ start then 1 else 0), dtr0 := start, we := true,
             bank := if u.bank.canWrite u.unlockValue 2 then u.bank.store (u.clock + 2) 2 0xAA else u.bank }
  else { u with clock := u.clock + 1, dtr0 := start }

theorem readAllFrom_run (u : MemUnit) (dev : Bool) (a bank : Nat) (latch : Bool) (last : Nat)
    (hl : u.Listens dev a) (hadv : u.advance = true) (hb : u.dtr1 = u.bank.number) :
    (readAllFrom dev a bank latch last).run MemUnit.step u =
      (readAllTail dev a latch (if bank = 0 then 2 else 3) last).run MemUnit.step (u.afterLatch bank latch) := by
  have hdev := hl.1
  have haddr := hl.2
  unfold readAllFrom MemUnit.afterLatch
  cases latch
  · by_cases h0 : bank = 0
    · simp [h0, MemUnit.step, MemUnit.exec, hdev]
    · simp [h0, MemUnit.step, MemUnit.exec, hdev]
  · by_cases hc : u.bank.canWrite u.unlockValue 2 = true
    · by_cases h0 : bank = 0
      · simp [h0, MemUnit.step, MemUnit.exec, MemUnit.writeCell, MemUnit.incDtr0, hdev, haddr, hb, hadv, hc]
      · simp [h0, MemUnit.step, MemUnit.exec, MemUnit.writeCell, MemUnit.incDtr0, hdev, haddr, hb, hadv, hc]
    · by_cases h0 : bank = 0
      · simp [h0, MemUnit.step, MemUnit.exec, MemUnit.writeCell, MemUnit.incDtr0, hdev, haddr, hb, hadv, hc]
      · simp [h0, MemUnit.step, MemUnit.exec, MemUnit.writeCell, MemUnit.incDtr0, hdev, haddr, hb, hadv, hc]

/-- `LastAddress.read` and hand-over to the rest -/
theorem readAllBody_run (u : MemUnit) (dev : Bool) (a bank : Nat) (hasLatch useLatch : Bool)
    (hl : u.Listens dev a) (hadv : u.advance = true) (hb : u.bank.number = bank) :
    (readAllBody dev a bank hasLatch useLatch).run MemUnit.step u =
      (readAllFrom dev a bank (useLatch && hasLatch) u.bank.last).run MemUnit.step
        { u with clock := u.clock + 3, dtr0 := 1, dtr1 := bank, we := false } := by
  have hdev := hl.1
  have haddr := hl.2
  have h0 : ∀ t, u.bank.cellAt t 0 = some u.bank.last := by
    intro t; simp [Bank.cellAt, Bank.readable, Bank.implemented, Bank.content]
  unfold readAllBody readRaw
  rw [resolve_short]
  simp [readLoop, bind_send, bind_done, MemUnit.step, MemUnit.exec, MemUnit.incDtr0, hdev, haddr, hb, hadv,
    h0, respOf]




theorem Bank.store_last (b : Bank) (t a v : Nat) : (b.store t a v).last = b.last := by
  unfold Bank.store; split <;> rfl
theorem Bank.store_number (b : Bank) (t a v : Nat) : (b.store t a v).number = b.number := by
  unfold Bank.store; split <;> rfl

theorem afterLatch_listens (w : MemUnit) (bank : Nat) (latch : Bool) {dev : Bool} {a : Nat}
    (h : w.Listens dev a) : (w.afterLatch bank latch).Listens dev a := by
  unfold MemUnit.afterLatch; cases latch <;> exact h

theorem afterLatch_fields (w : MemUnit) (bank : Nat) (latch : Bool) :
    (w.afterLatch bank latch).advance = w.advance ∧
    (w.afterLatch bank latch).unlockValue = w.unlockValue ∧
    (w.afterLatch bank latch).dtr0 = (if bank = 0 then 2 else 3) ∧
    (w.afterLatch bank latch).bank.last = w.bank.last ∧
    (w.afterLatch bank latch).dtr1 = w.dtr1 ∧
    (w.afterLatch bank latch).bank.number = w.bank.number := by
  unfold MemUnit.afterLatch
  cases latch
  · simp
  · simp only [if_true]
    refine ⟨trivial, trivial, trivial, ?_, trivial, ?_⟩
    · split
      · exact Bank.store_last _ _ _ _
      · rfl
    · split
      · exact Bank.store_number _ _ _ _
      · rfl

/-- everything `read_all` does to a conforming unit that implements the bank, in one equation -/
theorem readAll_run (u : MemUnit) (dev : Bool) (a bank : Nat) (hasLatch useLatch : Bool)
    (hl : u.Listens dev a) (hadv : u.advance = true) (hb : u.bank.number = bank)
    (hlast : u.bank.last ≤ 255) :
    let latch := useLatch && hasLatch
    let start := if bank = 0 then 2 else 3
    let u1 : MemUnit := { u with clock := u.clock + 3, dtr0 := 1, dtr1 := bank, we := false }
    let u2 := u1.afterLatch bank latch
    (readAll (if dev then .devShort a else .gearShort a) bank hasLatch useLatch).run MemUnit.step u =
      (.ok (List.replicate start none ++
          (List.range (u.bank.last + 1 - start)).map (fun j => u2.bank.cellAt (u2.clock + j) (start + j))),
        if latch then
          { u2 with clock := u2.clock + (u.bank.last + 1 - start) + 3, dtr0 := 3, we := true,
                    bank := if u2.bank.canWrite u.unlockValue 2 then
                      u2.bank.store (u2.clock + (u.bank.last + 1 - start) + 2) 2 0xFF else u2.bank }
        else
          { u2 with clock := u2.clock + (u.bank.last + 1 - start),
                    dtr0 := min (start + (u.bank.last + 1 - start)) 255,
                    we := if u.bank.last + 1 - start = 0 then u2.we else false }) := by
  intro latch start u1 u2
  have hl1 : u1.Listens dev a := hl
  have hb1 : u1.dtr1 = u1.bank.number := hb.symm
  have hl2 : u2.Listens dev a := afterLatch_listens u1 bank latch hl1
  have hadv2 : u2.advance = true := (afterLatch_fields u1 bank latch).1.trans hadv
  have hunl : u2.unlockValue = u.unlockValue := (afterLatch_fields u1 bank latch).2.1
  have hd2 : u2.dtr0 = start := (afterLatch_fields u1 bank latch).2.2.1
  have hlast2 : u2.bank.last = u.bank.last := (afterLatch_fields u1 bank latch).2.2.2.1
  have hb2 : u2.dtr1 = u2.bank.number := by
    rw [(afterLatch_fields u1 bank latch).2.2.2.2.1, (afterLatch_fields u1 bank latch).2.2.2.2.2]
    exact hb.symm
  have hstart : start ≤ 255 := by show (if bank = 0 then 2 else 3) ≤ 255; split <;> omega
  unfold readAll
  rw [resolve_short]
  simp only
  rw [readAllBody_run u dev a bank hasLatch useLatch hl hadv hb,
    readAllFrom_run u1 dev a bank latch u.bank.last hl1 hadv hb1]
  have := readAllTail_run u2 dev a latch start hl2 hadv2 hb2 hd2 hstart (by rw [hlast2]; exact hlast)
  rw [hlast2] at this
  rw [this, hunl]
  simp


end DaliVerif.DevMem
